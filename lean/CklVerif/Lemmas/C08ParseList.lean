/-
  C08 helper lemmas (parser part 2): an expression followed by a "stop" token (an interpunction
  token other than `(` and `[`, e.g. `,` or `]`) or by the end of the input; list literals whose
  items are literals.
-/
import CklVerif.Lemmas.C08Parser
namespace Ckl.C08
open Ckl Ckl.Parser

/-- the rest of the input is empty or starts with an interpunction token other than `(` and `[` -/
def Stop (k : List Token) : Prop :=
  ∀ t ∈ k.head?, t.type = .interpunction ∧ t.value ≠ ['('] ∧ t.value ≠ ['[']

theorem Stop.nil : Stop [] := by intro t ht; simp at ht

theorem Stop.cons {u : Token} {k : List Token} (h1 : u.type = .interpunction) (h2 : u.value ≠ ['('])
    (h3 : u.value ≠ ['[']) : Stop (u :: k) := by
  intro t ht; simp at ht; subst ht; exact ⟨h1, h2, h3⟩

section stop
variable {k : List Token} (hk : Stop k) (p : Pos)
include hk

theorem Stop.matchIf_ty (v : List Char) (ty : TokType) (hty : ty ≠ .interpunction) :
    St.matchIf ⟨p, k⟩ v (some ty) = none := by
  cases k with
  | nil => rfl
  | cons u k' =>
    have := (hk u (by simp)).1
    have hne : (u.type == ty) = false := by
      rw [this]; cases ty <;> first | rfl | exact absurd rfl hty
    simp [St.matchIf, St.tokIs, hne]

theorem Stop.matchIf_none (v : List Char) : St.matchIf ⟨p, k⟩ v none = none := by
  cases k with
  | nil => rfl
  | cons u k' =>
    have := (hk u (by simp)).1
    simp [St.matchIf, St.tokIs, this]

theorem Stop.matchIf_paren : St.matchIf ⟨p, k⟩ ['('] (some .interpunction) = none := by
  cases k with
  | nil => rfl
  | cons u k' =>
    have := (hk u (by simp)).2.1
    simp [St.matchIf, St.tokIs, this]

theorem Stop.matchIf_bracket : St.matchIf ⟨p, k⟩ ['['] (some .interpunction) = none := by
  cases k with
  | nil => rfl
  | cons u k' =>
    have := (hk u (by simp)).2.2
    simp [St.matchIf, St.tokIs, this]

theorem Stop.matchIf2_ty (v v2 : List Char) (ty : TokType) (ty2 : Option TokType)
    (hty : ty ≠ .interpunction) : St.matchIf2 ⟨p, k⟩ v (some ty) v2 ty2 = none := by
  cases k with
  | nil => rfl
  | cons u k' =>
    have := (hk u (by simp)).1
    have hne : (u.type == ty) = false := by
      rw [this]; cases ty <;> first | rfl | exact absurd rfl hty
    cases k' with
    | nil => rfl
    | cons u2 k'' => simp [St.matchIf2, St.tokIs, hne]

theorem Stop.matchIf3_ty (v v2 v3 : List Char) (ty : TokType) (ty2 ty3 : Option TokType)
    (hty : ty ≠ .interpunction) : St.matchIf3 ⟨p, k⟩ v (some ty) v2 ty2 v3 ty3 = none := by
  cases k with
  | nil => rfl
  | cons u k' =>
    have := (hk u (by simp)).1
    have hne : (u.type == ty) = false := by
      rw [this]; cases ty <;> first | rfl | exact absurd rfl hty
    cases k' with
    | nil => rfl
    | cons u2 k'' =>
      cases k'' with
      | nil => rfl
      | cons u3 k3 => simp [St.matchIf3, St.tokIs, hne]

theorem Stop.peekn_ty (v : List Char) (ty : TokType) (hty : ty ≠ .interpunction) :
    St.peekn ⟨p, k⟩ 1 v (some ty) = false := by
  cases k with
  | nil => simp [St.peekn]
  | cons u k' =>
    have := (hk u (by simp)).1
    have hne : (u.type == ty) = false := by
      rw [this]; cases ty <;> first | rfl | exact absurd rfl hty
    simp [St.peekn, St.tokIs, hne]

theorem Stop.relGuard : relGuard ⟨p, k⟩ = false := by
  cases k with
  | nil => rfl
  | cons u k' =>
    have := (hk u (by simp)).1
    simp [Parser.relGuard, isRelop, this]

theorem Stop.matchOpTable (tbl : List (List Char × String)) : matchOpTable ⟨p, k⟩ tbl = none := by
  induction tbl with
  | nil => rfl
  | cons x xs ih =>
    obtain ⟨v, fn⟩ := x
    simp [Parser.matchOpTable, hk.matchIf_ty p v .operator (by decide), ih]

theorem Stop.binPredTable : binPredTable ⟨p, k⟩ = none := by
  simp [Parser.binPredTable, hk.matchIf_ty p _ .keyword (by decide),
    hk.matchIf_ty p _ .identifier (by decide),
    hk.matchIf2_ty p _ _ .keyword _ (by decide), hk.matchIf2_ty p _ _ .identifier _ (by decide),
    hk.matchIf3_ty p _ _ _ .identifier _ _ (by decide)]

theorem Stop.postfixLoop (c : Ctx) (a b : Bool) (n : Node) :
    postfixLoop c a b ⟨p, k⟩ n = .ok ⟨n, ⟨p, k⟩, Nat.le_refl _⟩ := by
  rw [Parser.postfixLoop]
  simp [hk.matchIf_ty p _ .operator (by decide), hk.matchIf_paren, hk.matchIf_bracket]

end stop

/-- If `parse_unary_expr` turns a prefix of the tokens `t :: rest` (first token not a keyword)
    into `e` and stops in front of a stop continuation `k`, so do `parse_mul_expr` …
    `parse_expression`. -/
theorem expr_of_unary (c : Ctx) (t : Token) (rest k : List Token) (e : Node) (q : Pos)
    (hkw : t.type ≠ .keyword) (hk : Stop k)
    (hunary : ∀ p, ∃ h, pUnary c ⟨p, t :: rest⟩ = .ok ⟨e, ⟨q, k⟩, h⟩) :
    ∀ p, ∃ h, pExpression c ⟨p, t :: rest⟩ = .ok ⟨e, ⟨q, k⟩, h⟩ := by
  have hkw' : ∀ p v, St.matchIf ⟨p, t :: rest⟩ v (some .keyword) = none := by
    intro p v; simp [St.matchIf, St.tokIs, hkw]
  have hmul : ∀ p, ∃ h, pMul c ⟨p, t :: rest⟩ = .ok ⟨e, ⟨q, k⟩, h⟩ := by
    intro p; obtain ⟨h, hu⟩ := hunary p
    rw [pMul]; simp [hu, bind, Except.bind, pure, Except.pure]; rw [mulLoop]
    simp [hk.matchOpTable]
    simpa using h
  have hadd : ∀ p, ∃ h, pAdd c ⟨p, t :: rest⟩ = .ok ⟨e, ⟨q, k⟩, h⟩ := by
    intro p; obtain ⟨h, hu⟩ := hmul p
    rw [pAdd]; simp [hu, bind, Except.bind, pure, Except.pure]; rw [addLoop]
    simp [hk.matchOpTable]
    simpa using h
  have hrel : ∀ p, ∃ h, pRel c ⟨p, t :: rest⟩ = .ok ⟨e, ⟨q, k⟩, h⟩ := by
    intro p; obtain ⟨h, hu⟩ := hadd p
    rw [pRel]; simp [hu, hk.relGuard, bind, Except.bind, pure, Except.pure]
    simpa using h
  have hnot : ∀ p, ∃ h, pNot c ⟨p, t :: rest⟩ = .ok ⟨e, ⟨q, k⟩, h⟩ := by
    intro p; obtain ⟨h, hu⟩ := hrel p
    rw [pNot]; simp [hkw', hu]
    simpa using h
  have hand : ∀ p, ∃ h, pAnd c ⟨p, t :: rest⟩ = .ok ⟨e, ⟨q, k⟩, h⟩ := by
    intro p; obtain ⟨h, hu⟩ := hnot p
    rw [pAnd]; simp [hu, hk.peekn_ty q _ .keyword (by decide), bind, Except.bind, pure, Except.pure]
    simpa using h
  have hor : ∀ p, ∃ h, pOr c ⟨p, t :: rest⟩ = .ok ⟨e, ⟨q, k⟩, h⟩ := by
    intro p; obtain ⟨h, hu⟩ := hand p
    rw [pOr]; simp [hu, hk.peekn_ty q _ .keyword (by decide), bind, Except.bind, pure, Except.pure]
    simpa using h
  intro p; obtain ⟨h, hu⟩ := hor p
  rw [pExpression]; simp [hkw', hu]
  simpa using h

/-- the same starting from `parse_pred_expr` when the first token is no operator either -/
theorem expr_of_pred (c : Ctx) (t : Token) (rest k : List Token) (e : Node) (q : Pos)
    (hkw : t.type ≠ .keyword) (hop : t.type ≠ .operator) (hk : Stop k)
    (hpred : ∀ p, ∃ h, pPred c false ⟨p, t :: rest⟩ = .ok ⟨e, ⟨q, k⟩, h⟩) :
    ∀ p, ∃ h, pExpression c ⟨p, t :: rest⟩ = .ok ⟨e, ⟨q, k⟩, h⟩ := by
  apply expr_of_unary c t rest k e q hkw hk
  intro p; obtain ⟨h, hu⟩ := hpred p
  have hop' : ∀ v, St.matchIf ⟨p, t :: rest⟩ v (some .operator) = none := by
    intro v; simp [St.matchIf, St.tokIs, hop]
  rw [pUnary]; simp [hop', hu]
  simpa using h

/-- … and from `parse_primary_expr` -/
theorem expr_of_primary (c : Ctx) (t : Token) (rest k : List Token) (e : Node) (q : Pos)
    (hkw : t.type ≠ .keyword) (hop : t.type ≠ .operator) (hk : Stop k)
    (hprim : ∀ p, ∃ h, pPrimary c false ⟨p, t :: rest⟩ = .ok ⟨e, ⟨q, k⟩, h⟩) :
    ∀ p, ∃ h, pExpression c ⟨p, t :: rest⟩ = .ok ⟨e, ⟨q, k⟩, h⟩ := by
  apply expr_of_pred c t rest k e q hkw hop hk
  intro p; obtain ⟨h, hu⟩ := hprim p
  rw [pPred]
  simp [hu, hk.matchIf_ty q _ .keyword (by decide), hk.binPredTable, bind, Except.bind, pure,
    Except.pure]
  simpa using h

/-! ### token lists of literals, and the AST they parse to -/

def IsTok (t : Token) (v : List Char) (ty : TokType) : Prop := t.value = v ∧ t.type = ty

mutual
  /-- `LitToks ts n`: the token list `ts` spells a literal — an int (with optional `-`), a string,
      a boolean, an identifier, or a list `[ item, …, item ]` of such — and `n` is its AST -/
  inductive LitToks : List Token → Node → Prop
    | int (t : Token) (n : Nat) : t.type = .int → parseIntLit t.value = some n →
        LitToks [t] (.lit (.int n) t.pos)
    | negInt (tm t : Token) (n : Nat) : IsTok tm ['-'] .operator → t.type = .int →
        parseIntLit t.value = some n → LitToks [tm, t] (.lit (.int (-(n : Int))) t.pos)
    | str (t : Token) : t.type = .string → LitToks [t] (.lit (.str t.value) t.pos)
    | bool (t : Token) : t.type = .boolean →
        LitToks [t] (.lit (.bool (t.value == ['T', 'R', 'U', 'E'])) t.pos)
    | ident (t : Token) : t.type = .identifier → LitToks [t] (.ident (str t.value) t.pos)
    | nil (tl tr : Token) : IsTok tl ['['] .interpunction → IsTok tr [']'] .interpunction →
        LitToks [tl, tr] (.list [] tl.pos)
    | list (tl tr : Token) (ts rest : List Token) (n : Node) (ns : List Node) :
        IsTok tl ['['] .interpunction → IsTok tr [']'] .interpunction →
        LitToks ts n → RestToks rest ns →
        LitToks (tl :: (ts ++ (rest ++ [tr]))) (.list (n :: ns) tl.pos)
  /-- the items after the first: each preceded by a `,` -/
  inductive RestToks : List Token → List Node → Prop
    | nil : RestToks [] []
    | cons (tc : Token) (ts rest : List Token) (n : Node) (ns : List Node) :
        IsTok tc [','] .interpunction → LitToks ts n → RestToks rest ns →
        RestToks (tc :: (ts ++ rest)) (n :: ns)
end

/-- a literal starts with a token that is neither a keyword nor `]` -/
theorem LitToks.head {ts : List Token} {n : Node} (h : LitToks ts n) :
    ∃ t0 ts', ts = t0 :: ts' ∧ t0.type ≠ .keyword ∧ ¬ IsTok t0 [']'] .interpunction ∧
      ¬ (t0.type = .string ∧ ts' ≠ []) := by
  cases h with
  | int t n ht _ => exact ⟨t, [], rfl, by simp [ht], by simp [IsTok, ht], by simp⟩
  | negInt tm t n hm _ _ => exact ⟨tm, [t], rfl, by simp [hm.2], by simp [IsTok, hm.2], by simp [hm.2]⟩
  | str t ht => exact ⟨t, [], rfl, by simp [ht], by simp [IsTok, ht], by simp⟩
  | bool t ht => exact ⟨t, [], rfl, by simp [ht], by simp [IsTok, ht], by simp⟩
  | ident t ht => exact ⟨t, [], rfl, by simp [ht], by simp [IsTok, ht], by simp⟩
  | nil tl tr hl _ => exact ⟨tl, [tr], rfl, by simp [hl.2], by simp [IsTok, hl.1], by simp [hl.2]⟩
  | list tl tr ts rest n ns hl _ _ _ =>
    exact ⟨tl, _, rfl, by simp [hl.2], by simp [IsTok, hl.1], by simp [hl.2]⟩

theorem stop_comma {tc : Token} (h : IsTok tc [','] .interpunction) (k : List Token) : Stop (tc :: k) :=
  Stop.cons h.2 (by rw [h.1]; decide) (by rw [h.1]; decide)

theorem stop_close {tr : Token} (h : IsTok tr [']'] .interpunction) (k : List Token) : Stop (tr :: k) :=
  Stop.cons h.2 (by rw [h.1]; decide) (by rw [h.1]; decide)

theorem RestToks.stop {rest : List Token} {ns : List Node} (h : RestToks rest ns) {tr : Token}
    (htr : IsTok tr [']'] .interpunction) (k : List Token) : Stop (rest ++ tr :: k) := by
  cases h with
  | nil => exact stop_close htr k
  | cons tc ts rest n ns hc _ _ => exact stop_comma hc _

/-! ### literals in front of a stop continuation -/

theorem expr_int (c : Ctx) (t : Token) (n : Nat) (ht : t.type = .int)
    (hv : parseIntLit t.value = some n) {k : List Token} (hk : Stop k) :
    ∀ p, ∃ h, pExpression c ⟨p, t :: k⟩ = .ok ⟨.lit (.int n) t.pos, ⟨t.pos, k⟩, h⟩ := by
  apply expr_of_primary c t k k _ t.pos (by simp [ht]) (by simp [ht]) hk
  intro p; refine ⟨by simp, ?_⟩
  rw [pPrimary]
  simp [St.hasNext, St.next, ht, hv, hk.postfixLoop, leLt, bind, Except.bind]

theorem expr_str (c : Ctx) (t : Token) (ht : t.type = .string) {k : List Token} (hk : Stop k) :
    ∀ p, ∃ h, pExpression c ⟨p, t :: k⟩ = .ok ⟨.lit (.str t.value) t.pos, ⟨t.pos, k⟩, h⟩ := by
  apply expr_of_primary c t k k _ t.pos (by simp [ht]) (by simp [ht]) hk
  intro p; refine ⟨by simp, ?_⟩
  rw [pPrimary]
  simp [St.hasNext, St.next, ht, hk.postfixLoop, leLt, strLit, bind, Except.bind]

theorem expr_bool (c : Ctx) (t : Token) (ht : t.type = .boolean) {k : List Token} (hk : Stop k) :
    ∀ p, ∃ h, pExpression c ⟨p, t :: k⟩ =
      .ok ⟨.lit (.bool (t.value == ['T', 'R', 'U', 'E'])) t.pos, ⟨t.pos, k⟩, h⟩ := by
  apply expr_of_primary c t k k _ t.pos (by simp [ht]) (by simp [ht]) hk
  intro p; refine ⟨by simp, ?_⟩
  rw [pPrimary]
  simp [St.hasNext, St.next, ht, hk.postfixLoop, leLt, bind, Except.bind]

theorem expr_ident (c : Ctx) (t : Token) (ht : t.type = .identifier) {k : List Token} (hk : Stop k) :
    ∀ p, ∃ h, pExpression c ⟨p, t :: k⟩ = .ok ⟨.ident (str t.value) t.pos, ⟨t.pos, k⟩, h⟩ := by
  apply expr_of_primary c t k k _ t.pos (by simp [ht]) (by simp [ht]) hk
  intro p; refine ⟨by simp, ?_⟩
  rw [pPrimary]
  simp [St.hasNext, St.next, ht, hk.postfixLoop, hk.matchIf_ty t.pos _ .operator (by decide),
    hk.matchOpTable, leLt, bind, Except.bind]

theorem expr_negInt (c : Ctx) (tm t : Token) (n : Nat) (hm : IsTok tm ['-'] .operator)
    (ht : t.type = .int) (hv : parseIntLit t.value = some n) {k : List Token} (hk : Stop k) :
    ∀ p, ∃ h, pExpression c ⟨p, tm :: t :: k⟩ = .ok ⟨.lit (.int (-(n : Int))) t.pos, ⟨t.pos, k⟩, h⟩ := by
  apply expr_of_unary c tm (t :: k) k _ t.pos (by simp [hm.2]) hk
  intro p
  have hprim : ∀ p, pPrimary c true ⟨p, t :: k⟩ =
      .ok ⟨.lit (.int (-(n : Int))) t.pos, ⟨t.pos, k⟩, by simp⟩ := by
    intro p; rw [pPrimary]
    simp [St.hasNext, St.next, ht, hv, hk.postfixLoop, leLt, bind, Except.bind]
  have hpred : ∀ p, pPred c true ⟨p, t :: k⟩ =
      .ok ⟨.lit (.int (-(n : Int))) t.pos, ⟨t.pos, k⟩, by simp⟩ := by
    intro p; rw [pPred]
    simp [hprim, hk.matchIf_ty t.pos _ .keyword (by decide), hk.binPredTable, bind, Except.bind,
      pure, Except.pure]
  refine ⟨by simp; omega, ?_⟩
  rw [pUnary]
  simp [St.matchIf, St.tokIs, hm.1, hm.2, St.peek, ht, hpred, bind, Except.bind, pure, Except.pure]

/-! ### list literals -/

/-- `[` … : `parse_primary_expr` hands over to `parse_list_literal` -/
theorem primary_open (c : Ctx) (tl : Token) (hl : IsTok tl ['['] .interpunction) (R k : List Token)
    (e : Node) (q : Pos) (hk : Stop k)
    (hlist : ∃ h, pListLiteral c tl.pos ⟨tl.pos, R⟩ = .ok ⟨e, ⟨q, k⟩, h⟩) :
    ∀ p, ∃ h, pPrimary c false ⟨p, tl :: R⟩ = .ok ⟨e, ⟨q, k⟩, h⟩ := by
  intro p
  obtain ⟨h, hlist⟩ := hlist
  have hkw : pPrimaryKw c tl ⟨tl.pos, R⟩ = .ok ⟨e, ⟨q, k⟩, Nat.le_of_lt h⟩ := by
    rw [pPrimaryKw]
    simp [hl.1, hl.2, hlist, hk.peekn_ty q _ .operator (by decide), bind, Except.bind, pure,
      Except.pure]
  refine ⟨by simp at h ⊢; omega, ?_⟩
  rw [pPrimary]
  simp [St.hasNext, St.next, hl.1, hl.2, hkw, leLt, bind, Except.bind]

mutual
  /-- a literal in front of a stop continuation is consumed by `parse_expression`, which returns
      its AST and stops in front of the continuation -/
  theorem LitToks.expr (c : Ctx) : ∀ {ts : List Token} {n : Node}, LitToks ts n →
      ∀ (k : List Token), Stop k →
      ∃ q, ∀ p, ∃ h, pExpression c ⟨p, ts ++ k⟩ = .ok ⟨n, ⟨q, k⟩, h⟩
    | _, _, .int t n ht hv, k, hk => ⟨t.pos, expr_int c t n ht hv hk⟩
    | _, _, .negInt tm t n hm ht hv, k, hk => ⟨t.pos, expr_negInt c tm t n hm ht hv hk⟩
    | _, _, .str t ht, k, hk => ⟨t.pos, expr_str c t ht hk⟩
    | _, _, .bool t ht, k, hk => ⟨t.pos, expr_bool c t ht hk⟩
    | _, _, .ident t ht, k, hk => ⟨t.pos, expr_ident c t ht hk⟩
    | _, _, .nil tl tr hl hr, k, hk => by
      refine ⟨tr.pos, ?_⟩
      apply expr_of_primary c tl (tr :: k) k _ tr.pos (by simp [hl.2]) (by simp [hl.2]) hk
      apply primary_open c tl hl (tr :: k) k _ tr.pos hk
      refine ⟨by simp, ?_⟩
      rw [pListLiteral]
      simp [St.matchIf, St.tokIs, hr.1, hr.2, hk.postfixLoop, leLt]
    | _, _, .list tl tr ts rest n ns hl hr hts hrest, k, hk => by
      refine ⟨tr.pos, ?_⟩
      have hk1 : Stop (rest ++ tr :: k) := hrest.stop hr k
      obtain ⟨q1, he⟩ := LitToks.expr c hts (rest ++ tr :: k) hk1
      obtain ⟨h1, he⟩ := he tl.pos
      obtain ⟨q2, h2, hloop⟩ := RestToks.loop c hrest tr k hr q1 [] n
      obtain ⟨t0, ts', hts0, _, hnc, _⟩ := hts.head
      have hnc' : St.matchIf ⟨tl.pos, ts ++ (rest ++ tr :: k)⟩ [']'] (some .interpunction) = none := by
        rw [hts0]
        have : (t0.value == [']'] && t0.type == .interpunction) = false := by
          rw [Bool.eq_false_iff]; intro h
          simp only [Bool.and_eq_true, beq_iff_eq] at h
          exact hnc ⟨h.1, h.2⟩
        simp [St.matchIf, St.tokIs, this]
      have e : tl :: (ts ++ (rest ++ [tr])) ++ k = tl :: (ts ++ (rest ++ tr :: k)) := by simp
      rw [e]
      apply expr_of_primary c tl _ k _ tr.pos (by simp [hl.2]) (by simp [hl.2]) hk
      apply primary_open c tl hl _ k _ tr.pos hk
      refine ⟨by simp; omega, ?_⟩
      rw [pListLiteral]
      simp [hnc', he, hk1.matchIf_ty q1 _ .keyword (by decide), hloop, St.expect, hr.1, hr.2,
        hk.postfixLoop, bind, Except.bind, pure, Except.pure]
  /-- the item loop of a list literal -/
  theorem RestToks.loop (c : Ctx) : ∀ {rest : List Token} {ns : List Node}, RestToks rest ns →
      ∀ (tr : Token) (k : List Token), IsTok tr [']'] .interpunction →
      ∀ (q : Pos) (items : List Node) (e : Node),
      ∃ q' h, listLoop c ⟨q, rest ++ tr :: k⟩ items (some e) =
        .ok ⟨items ++ e :: ns, ⟨q', tr :: k⟩, h⟩
    | _, _, .nil, tr, k, hr, q, items, e => by
      refine ⟨q, by simp, ?_⟩
      rw [listLoop]
      simp [St.peekn, St.tokIs, hr.1, hr.2]
    | _, _, .cons tc ts rest n ns hc hts hrest, tr, k, hr, q, items, e => by
      have hk1 : Stop (rest ++ tr :: k) := hrest.stop hr k
      obtain ⟨q1, he⟩ := LitToks.expr c hts (rest ++ tr :: k) hk1
      obtain ⟨h1, he⟩ := he tc.pos
      obtain ⟨q2, h2, hloop⟩ := RestToks.loop c hrest tr k hr q1 (items ++ [e]) n
      obtain ⟨t0, ts', hts0, _, hnc, _⟩ := hts.head
      have e1 : tc :: (ts ++ rest) ++ tr :: k = tc :: (ts ++ (rest ++ tr :: k)) := by simp
      have hpk1 : St.peekn ⟨q, tc :: (ts ++ (rest ++ tr :: k))⟩ 1 [']'] (some .interpunction) = false := by
        simp [St.peekn, St.tokIs, hc.1]
      have hpk2 : St.peekn ⟨tc.pos, ts ++ (rest ++ tr :: k)⟩ 1 [']'] (some .interpunction) = false := by
        rw [hts0]
        have : (t0.value == [']'] && t0.type == .interpunction) = false := by
          rw [Bool.eq_false_iff]; intro h
          simp only [Bool.and_eq_true, beq_iff_eq] at h
          exact hnc ⟨h.1, h.2⟩
        simp [St.peekn, St.tokIs, this]
      rw [e1]
      refine ⟨q2, by simp at h2 ⊢; omega, ?_⟩
      rw [listLoop]
      simp [hpk1, St.expect, hc.1, hc.2, hpk2, he, hloop, bind, Except.bind, pure, Except.pure]
end

/-! ### the whole program is one literal -/

/-- If `parse_expression` consumes the whole token list `t :: rest` (first token no keyword, and
    not a string followed by more tokens — that could be a doc comment), `parse` returns its
    result. -/
theorem parse_of_expression (validRe : List Char → Bool) (file : String) (t : Token)
    (rest : List Token) (e : Node) (hkw : t.type ≠ .keyword)
    (hstr : ¬ (t.type = .string ∧ rest ≠ []))
    (hexpr : ∀ c p, c.validRe = validRe → ∃ q h, pExpression c ⟨p, t :: rest⟩ = .ok ⟨e, ⟨q, []⟩, h⟩)
    (hret : unwrapReturn e = e) :
    parseWith validRe file (t :: rest) = .ok e := by
  have hkw' : ∀ p v, St.matchIf ⟨p, t :: rest⟩ v (some .keyword) = none := by
    intro p v; simp [St.matchIf, St.tokIs, hkw]
  have hpk : ∀ p v, St.peekn ⟨p, t :: rest⟩ 1 v (some .keyword) = false := by
    intro p v; simp [St.peekn, St.tokIs, hkw]
  have htc : ∀ p, takeComment ⟨p, t :: rest⟩ = ([], ⟨⟨p, t :: rest⟩, Nat.le_refl _⟩) := by
    intro p
    by_cases hs : t.type = .string
    · have : rest = [] := by
        cases rest with
        | nil => rfl
        | cons a b => exact absurd ⟨hs, by simp⟩ hstr
      subst this
      simp [takeComment, St.peekn]
    · simp [takeComment, hs]
  have hstmt : ∀ c p, c.validRe = validRe → ∃ q h, pStatement c ⟨p, t :: rest⟩ = .ok ⟨e, ⟨q, []⟩, h⟩ := by
    intro c p hc; obtain ⟨q, h, hu⟩ := hexpr c p hc
    refine ⟨q, ?_⟩
    rw [pStatement]
    have htc := htc p
    generalize takeComment ⟨p, t :: rest⟩ = tc at htc ⊢
    subst htc
    simp [St.hasNext, hkw', hu, wkLt]
  have hbare : ∀ c p, c.validRe = validRe →
      ∃ q h, pBareBlock c true ⟨p, t :: rest⟩ = .ok ⟨e, ⟨q, []⟩, h⟩ := by
    intro c p hc; obtain ⟨q, h, hu⟩ := hstmt c p hc
    refine ⟨q, ?_⟩
    rw [pBareBlock]
    simp [hpk, hu, St.hasNext, bind, Except.bind, pure, Except.pure]
  obtain ⟨q, h, hb⟩ := hbare ⟨endPosOf file (t :: rest), validRe⟩ t.pos rfl
  simp [parseWith, parseCore, hb, hret]

theorem LitToks.unwrapReturn {ts : List Token} {n : Node} (h : LitToks ts n) :
    unwrapReturn n = n := by
  cases h <;> rfl

/-- **a program that is one literal parses to the AST of that literal** -/
theorem LitToks.parse (validRe : List Char → Bool) (file : String) {ts : List Token} {n : Node}
    (h : LitToks ts n) : parseWith validRe file ts = .ok n := by
  obtain ⟨t0, ts', hts0, hkw, _, hstr⟩ := h.head
  subst hts0
  apply parse_of_expression validRe file t0 ts' n hkw hstr _ h.unwrapReturn
  intro c p _
  have hex := LitToks.expr c h [] Stop.nil
  rw [List.append_nil] at hex
  obtain ⟨q, hq⟩ := hex
  exact ⟨q, hq p⟩

end Ckl.C08
