/-
  C12Sim — induction step for `eval` (one case per node kind) and the induction on the fuel.
-/
import CklVerif.Lemmas.C12SimStep

set_option linter.unusedSimpArgs false
set_option linter.unusedVariables false
set_option linter.unusedTactic false
set_option linter.unreachableTactic false

namespace Ckl.C12S
open Ckl Ckl.C12

variable {ld : Loader} {fuel : Nat}

/-- `Environment.set` on related states -/
syntax "set_step" : tactic
set_option hygiene false in
macro_rules | `(tactic| set_step) => `(tactic|
  (rcases PermSt.set hst env name ‹RVal› with ⟨e1, e2⟩ | ⟨s', t', e1, e2, h'⟩ <;> rw [e1, e2] <;> (try dsimp only) <;>
    (try simp only [h'.lookup])))

/-- the `finally` part of a block -/
syntax "fin_tac" : tactic
set_option hygiene false in
macro_rules | `(tactic| fin_tac) => `(tactic|
  (have hf := (SAll.evalFinally ih env fin hfin).run _ _ (PermSt.ghostFin h1 pos)
   rcases OutR.cases hf with ⟨u, s3, t3, e5, e6, h5⟩ | ⟨v5, m5, p5, tr5, s3, t3, e5, e6, h5⟩ | ⟨f5, s3, t3, e5, e6, h5⟩ <;>
   rw [e5, e6] <;> first | exact ⟨rfl, h5⟩ | exact ⟨rfl, rfl, rfl, rfl, h5⟩))

theorem eval_step (ih : SAll ld fuel) (env : EnvId) (n : Node) (hcf : cfN n = true) :
    Sim (eval ld (fuel + 1) env n) (eval ld (fuel + 1) env n) := by
  cases n with
  | absent => unfold Ckl.eval; sim!
  | catchAll => unfold Ckl.eval; sim!
  | null => unfold Ckl.eval; sim!
  | lit => unfold Ckl.eval; sim!
  | ident => unfold Ckl.eval; sim!
  | and => simp only [cfN] at hcf; unfold Ckl.eval; sim!
  | or => simp only [cfN] at hcf; unfold Ckl.eval; sim!
  | not => simp only [cfN] at hcf; unfold Ckl.eval; sim!
  | assign name e pos =>
    simp only [cfN] at hcf
    unfold Ckl.eval
    repeat' (first | set_step | ih_step | sim_step)
  | assignD => simp only [cfN] at hcf; unfold Ckl.eval; sim!
  | block es ce ch fin tl pos =>
    simp only [cfN, Bool.and_eq_true] at hcf
    obtain ⟨⟨⟨hes, hce⟩, hch⟩, hfin⟩ := hcf
    unfold Ckl.eval
    constructor
    intro s t hst
    dsimp only
    have hb := (ih.evalBody env es (.bool true) hes).run _ _ (hst.ghostEnter pos)
    rcases hb.cases with ⟨a, s1, t1, e1, e2, h1⟩ | ⟨v, m, p, tr, s1, t1, e1, e2, h1⟩ | ⟨f, s1, t1, e1, e2, h1⟩
    · rw [e1, e2]; dsimp only; fin_tac
    · rw [e1, e2]; dsimp only
      have hh := (ih.tryHandlers env ce ch v m p tr hce hch).run s1 t1 h1
      rcases hh.cases with ⟨a, s2, t2, e3, e4, h1⟩ | ⟨v', m', p', tr', s2, t2, e3, e4, h1⟩ | ⟨f, s2, t2, e3, e4, h1⟩
      · rw [e3, e4]; dsimp only; fin_tac
      · rw [e3, e4]; dsimp only; fin_tac
      · rw [e3, e4]; cases f <;> dsimp only <;> first | exact ⟨rfl, h1⟩ | fin_tac
    · rw [e1, e2]; cases f <;> dsimp only <;> first | exact ⟨rfl, h1⟩ | fin_tac
  | brk => unfold Ckl.eval; sim!
  | cont => unfold Ckl.eval; sim!
  | cls => simp only [cfN] at hcf; unfold Ckl.eval; sim!
  | defn => simp only [cfN] at hcf; unfold Ckl.eval; sim!
  | defD => simp only [cfN] at hcf; unfold Ckl.eval; sim!
  | deref => simp only [cfN, Bool.and_eq_true] at hcf; unfold Ckl.eval; sim!
  | derefAssign => simp [cfN] at hcf
  | derefInvoke => simp [cfN] at hcf
  | slice => simp only [cfN, Bool.and_eq_true] at hcf; unfold Ckl.eval; sim!
  | error => simp only [cfN] at hcf; unfold Ckl.eval; sim!
  | «for» ids e body what pos =>
    simp only [cfN, Bool.and_eq_true] at hcf
    unfold Ckl.eval
    constructor
    intro s t hst
    dsimp only
    rw [hst.hiddenVars]
    have hb := (ih.evalFor env ids e body what pos hcf.1 hcf.2).run s t hst
    rcases hb.cases with ⟨a, s1, t1, e1, e2, h1⟩ | ⟨v, m, p, tr, s1, t1, e1, e2, h1⟩ | ⟨f, s1, t1, e1, e2, h1⟩
    · rw [e1, e2]; exact ⟨rfl, h1.restoreVars _ _⟩
    · rw [e1, e2]; exact ⟨rfl, rfl, rfl, rfl, (h1.foldl_remove _ _).restoreVars _ _⟩
    · rw [e1, e2]
      cases f with
      | syn se => exact ⟨rfl, (h1.foldl_remove _ _).restoreVars _ _⟩
      | oof => exact ⟨rfl, h1⟩
      | unsupported w => exact ⟨rfl, h1⟩
      | host k => exact ⟨rfl, h1⟩
  | call => simp [cfN] at hcf
  | ite => simp only [cfN, Bool.and_eq_true] at hcf; unfold Ckl.eval; sim!
  | isIn => simp only [cfN, Bool.and_eq_true] at hcf; unfold Ckl.eval; sim!
  | lambda params defaults body pos =>
    unfold Ckl.eval
    constructor
    intro s t hst
    obtain ⟨h1, h2⟩ := hst.alloc (CellR.refl (.closure env params defaults body "lambda"))
    exact ⟨congrArg RVal.closure h2, h1⟩
  | list => simp only [cfN] at hcf; unfold Ckl.eval; sim!
  | compr kind shape ve ke id1 l1 w1 id2 l2 w2 cond pos =>
    simp only [cfN, Bool.and_eq_true] at hcf
    unfold Ckl.eval
    apply Sim.getS_bind
    intro s t hst
    simp only [State.newEnv, ← hst.frames]
    apply Sim.bind (Sim.setS (hst.withFrames _))
    intro _
    sim!
  | map =>
    simp only [cfN, Bool.and_eq_true] at hcf
    unfold Ckl.eval
    apply Sim.bind (by ih_step)
    intro kvs
    apply Sim.getS_bind
    intro s t hst
    have : (fun acc (kv : RVal × RVal) => mapPut t kv.1 kv.2 acc) = (fun acc kv => mapPut s kv.1 kv.2 acc) := by
      funext acc kv; exact hst.mapPut kv.1 kv.2 acc
    rw [this]
    exact allocM_sim' _
  | object => simp only [cfN] at hcf; unfold Ckl.eval; sim!
  | require => simp [cfN] at hcf
  | ret => simp only [cfN] at hcf; unfold Ckl.eval; sim!
  | set => simp only [cfN] at hcf; unfold Ckl.eval; sim!
  | spread => simp only [cfN] at hcf; unfold Ckl.eval; sim!
  | «while» => simp only [cfN, Bool.and_eq_true] at hcf; unfold Ckl.eval; sim!

theorem sAll_succ (ih : SAll ld fuel) : SAll ld (fuel + 1) where
  eval := eval_step ih
  evalAnd := evalAnd_step ih
  evalOr := evalOr_step ih
  evalIf := evalIf_step ih
  evalSeq := evalSeq_step ih
  evalItems := evalItems_step ih
  evalPairs := evalPairs_step ih
  evalBody := evalBody_step ih
  evalFinally := evalFinally_step ih
  tryHandlers := tryHandlers_step ih
  evalFor := evalFor_step ih
  forItems := forItems_step ih
  forListLive := forListLive_step ih
  forString := forString_step ih
  whileLoop := whileLoop_step ih
  comprStep := comprStep_step ih
  comprLoop := comprLoop_step ih
  comprProduct := comprProduct_step ih
  comprParallel := comprParallel_step ih

/-- the simulation holds for the 19 functions at every fuel -/
theorem sAll (ld : Loader) : ∀ fuel, SAll ld fuel
  | 0 => sAll_zero ld
  | fuel + 1 => sAll_succ (sAll ld fuel)

end Ckl.C12S
