import CklVerif.Lemmas.C04ComprStep

/-! C04Compr — the single-variable comprehension loop with a filter, for PURE filter / key / value expressions
    (they evaluate without changing the state): the loop collects `(xs.filter c).map kv`, and the only change of the state is the
    binding of the variable in the comprehension frame. Then the comprehension node for every kind. -/
namespace Ckl.C04Compr
open Ckl Ckl.C03 Ckl.C19Src
variable (ld : Loader)

/-! ### `put` over `put` -/

theorem dictPut_dictPut {β} (k : String) (v w : β) (l : List (String × β)) : dictPut k w (dictPut k v l) = dictPut k w l := by
  induction l with
  | nil => simp [dictPut]
  | cons a l ih =>
    obtain ⟨k', v'⟩ := a
    simp only [dictPut]
    split
    · simp [dictPut, *]
    · simp [dictPut, *]

/-- binding the same name twice in the same frame: the second binding wins, nothing else remains of the first -/
theorem put_put (s : State) (e : EnvId) (x : String) (v w : RVal) : (s.put e x v).put e x w = s.put e x w := by
  unfold State.put
  simp only []
  congr 1
  apply Array.ext
  · simp
  · intro i h1 h2
    simp [Array.getElem_modify]
    split
    · simp [dictPut_dictPut]
    · rfl

/-- the state a pure comprehension loop over `xs` ends in: the variable holds the LAST item (unchanged state for no items) -/
def bindLast (s : State) (lenv : EnvId) (x : String) (xs : List RVal) : State :=
  match xs.getLast? with
  | none => s
  | some v => s.put lenv x v

theorem bindLast_nil (s : State) (lenv : EnvId) (x : String) : bindLast s lenv x [] = s := rfl

theorem bindLast_cons (s : State) (lenv : EnvId) (x : String) (v : RVal) (vs : List RVal) :
    bindLast s lenv x (v :: vs) = bindLast (s.put lenv x v) lenv x vs := by
  cases vs with
  | nil => rfl
  | cons w ws =>
    unfold bindLast
    rw [List.getLast?_cons_cons]
    cases h : (w :: ws).getLast? with
    | none => simp at h
    | some l => simp only []; rw [put_put]

theorem bindLast_heap (s : State) (lenv : EnvId) (x : String) (xs : List RVal) : (bindLast s lenv x xs).heap = s.heap := by
  unfold bindLast; cases xs.getLast? <;> rfl

theorem bindLast_out (s : State) (lenv : EnvId) (x : String) (xs : List RVal) : (bindLast s lenv x xs).out = s.out := by
  unfold bindLast; cases xs.getLast? <;> rfl

theorem bindLast_frames_size (s : State) (lenv : EnvId) (x : String) (xs : List RVal) :
    (bindLast s lenv x xs).frames.size = s.frames.size := by
  unfold bindLast; cases xs.getLast? <;> simp [frames_size_put]

theorem bindLast_frame_other (s : State) {lenv e : EnvId} (x : String) (xs : List RVal) (h : e ≠ lenv) :
    (bindLast s lenv x xs).frame e = s.frame e := by
  unfold bindLast; cases xs.getLast? <;> simp [frame_put_other s x _ h]

/-! ### the loop -/

/-- **the pure comprehension loop**: every step on an item `v` of `xs` (run with the variable bound to `v`) yields the entry
    `kv v` when `c v` holds and nothing otherwise, and leaves the state as it is; then the loop over a part `ys` of `xs` appends
    `(ys.filter c).map kv` -/
theorem comprLoop_pure {kb : Nat} {lenv : EnvId} {kind : ComprKind} {x : String} {ve ke cond : Node} {pos : Pos} {s1 : State}
    (xs : List RVal) (c : RVal → Bool) (kv : RVal → RVal × RVal)
    (hstep : ∀ v ∈ xs, ∀ f, kb < f → comprStep ld f lenv kind ve ke cond pos (s1.put lenv x v) =
      .ok (if c v then some (kv v) else none) (s1.put lenv x v)) :
    ∀ (ys : List RVal) (acc : List (RVal × RVal)) (s : State), (∀ v ∈ ys, v ∈ xs) → (∀ v, s.put lenv x v = s1.put lenv x v) →
      ∀ f, kb + ys.length + 1 < f →
        comprLoop ld f lenv kind ve ke cond pos [(x, ys)] acc s = .ok (acc ++ (ys.filter c).map kv) (bindLast s lenv x ys) := by
  intro ys
  induction ys with
  | nil =>
    intro acc s _ _ f hf
    obtain ⟨g, rfl, _⟩ := succ_of_lt hf
    rw [comprLoop]
    · simp [bindLast_nil]
    · intro _ _ _ h; cases h
  | cons v vs ih =>
    intro acc s hsub hs f hf
    obtain ⟨g, rfl, hg⟩ := succ_of_lt hf
    simp only [List.length_cons] at hg
    have hv : v ∈ xs := hsub v (by simp)
    rw [comprLoop]
    simp only [EvalM.bind_apply, modifyS]
    rw [hs v, hstep v hv g (by omega)]
    simp only []
    have hs' : ∀ w, (s1.put lenv x v).put lenv x w = s1.put lenv x w := fun w => put_put _ _ _ _ _
    rw [ih _ (s1.put lenv x v) (fun w hw => hsub w (by simp [hw])) hs' g (by omega), bindLast_cons, hs v]
    cases hcv : c v with
    | true => simp [hcv]
    | false => simp [hcv]

/-! ### one pure step from `Ev` facts -/

/-- the key slot of an entry: the key for a map comprehension, NULL otherwise -/
def keyOf (kind : ComprKind) (k : RVal) : RVal :=
  match kind with
  | .map => k
  | _ => .null

theorem Ev.absent_not_ok {k env s v s'} (h : Ev ld k env .absent s (.ok v s')) : False := by
  have := h (k + 1) (by omega)
  rw [eval] at this
  cases this

/-- a step whose filter, key and value are pure: the filter decides; the key is needed for map comprehensions only, and key and
    value only when the filter holds -/
theorem comprStep_pure {kc kk kv : Nat} {lenv : EnvId} {kind : ComprKind} {ve ke cond : Node} {pos : Pos} {t : State}
    {b : Bool} {k v : RVal}
    (hcond : Ev ld kc lenv cond t (.ok (.bool b) t))
    (hke : b = true → kind = .map → Ev ld kk lenv ke t (.ok k t))
    (hve : b = true → Ev ld kv lenv ve t (.ok v t)) :
    ∀ f, max kc (max kk kv) + 1 < f →
      comprStep ld f lenv kind ve ke cond pos t = .ok (if b then some (keyOf kind k, v) else none) t := by
  intro f hf
  obtain ⟨g, rfl, hg⟩ := succ_of_lt hf
  have hne : cond ≠ .absent := by
    intro h; subst h; exact Ev.absent_not_ok ld hcond
  cases b with
  | false =>
    rw [comprStep_filter_false ld hne (hcond g (by omega))]; rfl
  | true =>
    rw [comprStep_filter_true ld hne (hcond g (by omega)), comprStep_nofilter]
    unfold elemOut
    cases kind with
    | map => simp only [hke rfl rfl g (by omega), hve rfl g (by omega)]; rfl
    | list => simp only [hve rfl g (by omega)]; rfl
    | set => simp only [hve rfl g (by omega)]; rfl

/-- the same without a filter (`cond` absent): every item passes -/
theorem comprStep_pure_nofilter {kk kv : Nat} {lenv : EnvId} {kind : ComprKind} {ve ke : Node} {pos : Pos} {t : State}
    {k v : RVal}
    (hke : kind = .map → Ev ld kk lenv ke t (.ok k t))
    (hve : Ev ld kv lenv ve t (.ok v t)) :
    ∀ f, max kk kv + 1 < f → comprStep ld f lenv kind ve ke .absent pos t = .ok (some (keyOf kind k, v)) t := by
  intro f hf
  obtain ⟨g, rfl, hg⟩ := succ_of_lt hf
  rw [comprStep_nofilter]
  unfold elemOut
  cases kind with
  | map => simp only [hke rfl g (by omega), hve g (by omega)]; rfl
  | list => simp only [hve g (by omega)]; rfl
  | set => simp only [hve g (by omega)]; rfl

/-! ### the comprehension node -/

/-- the single-variable comprehension node of any kind, given the items of the source and the loop proper: a new frame under the
    current one, the source evaluated in the CURRENT frame, the loop in the new frame, then the result cell -/
theorem Ev.comprSingle {k kl env kind x ve ke l1 w1 id2 l2 w2 cond pos s c1 s1 vals out s2}
    (he : Ev ld k env l1 (s.newEnv env).1 (.ok c1 s1))
    (hvals : collectionValues c1 w1 pos s1 = .ok vals s1)
    (hloop : ∀ f, kl < f → comprLoop ld f s.frames.size kind ve ke cond pos [(x, vals)] [] s1 = .ok out s2) :
    Ev ld (max k kl + 1) env (.compr kind .single ve ke x l1 w1 id2 l2 w2 cond pos) s (comprResult kind out s2) := by
  intro f hf; obtain ⟨g, rfl, hg⟩ := succ_of_lt hf
  rw [eval]
  simp only [EvalM.bind_apply, getS, setS]
  have he' := he g (by omega)
  simp only [State.newEnv] at he' ⊢
  rw [he']
  simp only [hvals, hloop g (by omega)]

theorem collectionValues_list {a : Nat} {xs : List RVal} {s : State} (w : Option String) (pos : Pos)
    (hc : s.cell a = some (.list xs)) : collectionValues (.ref a) w pos s = .ok xs s := by
  simp [collectionValues, EvalM.bind_apply, getS, cellOf, hc, EvalM.pure_apply]

/-- a set cell is enumerated in sorted order -/
theorem collectionValues_set {a : Nat} {xs ys : List RVal} {s : State} (w : Option String) (pos : Pos)
    (hc : s.cell a = some (.set xs)) (hs : sortedR s xs = some ys) : collectionValues (.ref a) w pos s = .ok ys s := by
  simp [collectionValues, EvalM.bind_apply, getS, cellOf, hc, hs, EvalM.pure_apply]

/-- a string is enumerated character by character -/
theorem collectionValues_str (cs : List Char) (w : Option String) (pos : Pos) (s : State) :
    collectionValues (.str cs) w pos s = .ok (cs.map (fun c => .str [c])) s := by
  simp [collectionValues, EvalM.bind_apply, getS, EvalM.pure_apply]

theorem comprResult_list (out : List (RVal × RVal)) (s : State) :
    comprResult .list out s = .ok (.ref s.heap.size) (s.alloc (.list (out.map (·.2)))).1 := rfl

theorem comprResult_set (out : List (RVal × RVal)) (s : State) :
    comprResult .set out s =
      .ok (.ref s.heap.size) (s.alloc (.set ((out.map (·.2)).foldl (fun acc x => setAdd s x acc) []))).1 := rfl

theorem comprResult_map (out : List (RVal × RVal)) (s : State) :
    comprResult .map out s =
      .ok (.ref s.heap.size) (s.alloc (.map (out.foldl (fun acc kv => mapPut s kv.1 kv.2 acc) []))).1 := rfl

end Ckl.C04Compr
