import CklVerif.Lemmas.C13FuelStep

/-!
  C13Fuel: the induction steps that need a pointwise argument (`invoke`, `evalRequire`, the `for`
  and `block` nodes: they post-process the outcome of a sub-call with a `match` instead of `>>=`),
  the step for `eval`, and the induction on the fuel (`fmAll`).
-/
namespace Ckl
variable {ld : Loader} {fuel : Nat}

theorem invoke_fstep (ih : FMAll ld fuel) :
    ∀ fn pre names args env pos, FLe (invoke ld (fuel+1) fn pre names args env pos) (invoke ld (fuel+1+1) fn pre names args env pos) := by
  intro fn pre names args env pos
  fm_intro ih
  unfold Ckl.invoke
  fmono
  fwrap (ih.callFn fn _ env pos)

theorem evalRequire_fstep (ih : FMAll ld fuel) :
    ∀ env spec name unq syms pos, FLe (evalRequire ld (fuel+1) env spec name unq syms pos) (evalRequire ld (fuel+1+1) env spec name unq syms pos) := by
  intro env spec name unq syms pos
  fm_intro ih
  unfold Ckl.evalRequire
  fmono
  all_goals fwrap (ih.loadModule env _ _ pos)

theorem for_fstep (ih : FMAll ld fuel) :
    ∀ env ids e body what pos, FLe (eval ld (fuel+1) env (.for ids e body what pos)) (eval ld (fuel+1+1) env (.for ids e body what pos)) := by
  intro env ids e body what pos
  unfold Ckl.eval
  fwrap (ih.evalFor env ids e body what pos)

theorem fin_le {β} (o₁ o₂ : Out Unit) (ho : o₁.le o₂) (k : State → Out β) :
    (match (generalizing := false) o₁ with
      | .ok _ s'' => k s''
      | .err v2 m2 p2 t2 s'' => .err v2 m2 p2 t2 s''
      | .fail f s'' => .fail f s'' : Out β).le
    (match (generalizing := false) o₂ with
      | .ok _ s'' => k s''
      | .err v2 m2 p2 t2 s'' => .err v2 m2 p2 t2 s''
      | .fail f s'' => .fail f s'' : Out β) := by
  rcases ho with h | h
  · left; obtain ⟨s', h⟩ := (Out.isOof_iff _).1 h; rw [h]; trivial
  · rw [h]; exact Out.le_refl _

theorem block_fin_le (o₁ o₂ : Out RVal) (ho : o₁.le o₂) (fin₁ fin₂ : State → Out Unit)
    (hf : ∀ s, (fin₁ s).le (fin₂ s)) (g : State → State) :
    (match (generalizing := false) o₁ with
    | .ok v s' =>
      match fin₁ (g s') with
      | .ok _ s'' => .ok v s''
      | .err v2 m2 p2 t2 s'' => .err v2 m2 p2 t2 s''
      | .fail f s'' => .fail f s''
    | .err v m p t s' =>
      match fin₁ (g s') with
      | .ok _ s'' => .err v m p t s''
      | .err v2 m2 p2 t2 s'' => .err v2 m2 p2 t2 s''
      | .fail f s'' => .fail f s''
    | .fail (.syn e) s' =>
      match fin₁ (g s') with
      | .ok _ s'' => .fail (.syn e) s''
      | .err v2 m2 p2 t2 s'' => .err v2 m2 p2 t2 s''
      | .fail f s'' => .fail f s''
    | .fail (.host k) s' =>
      match fin₁ (g s') with
      | .ok _ s'' => .fail (.host k) s''
      | .err v2 m2 p2 t2 s'' => .err v2 m2 p2 t2 s''
      | .fail f s'' => .fail f s''
    | .fail f s' => .fail f s' : Out RVal).le
    (match (generalizing := false) o₂ with
    | .ok v s' =>
      match fin₂ (g s') with
      | .ok _ s'' => .ok v s''
      | .err v2 m2 p2 t2 s'' => .err v2 m2 p2 t2 s''
      | .fail f s'' => .fail f s''
    | .err v m p t s' =>
      match fin₂ (g s') with
      | .ok _ s'' => .err v m p t s''
      | .err v2 m2 p2 t2 s'' => .err v2 m2 p2 t2 s''
      | .fail f s'' => .fail f s''
    | .fail (.syn e) s' =>
      match fin₂ (g s') with
      | .ok _ s'' => .fail (.syn e) s''
      | .err v2 m2 p2 t2 s'' => .err v2 m2 p2 t2 s''
      | .fail f s'' => .fail f s''
    | .fail (.host k) s' =>
      match fin₂ (g s') with
      | .ok _ s'' => .fail (.host k) s''
      | .err v2 m2 p2 t2 s'' => .err v2 m2 p2 t2 s''
      | .fail f s'' => .fail f s''
    | .fail f s' => .fail f s' : Out RVal) := by
  rcases ho with h | h
  · left; obtain ⟨s', h⟩ := (Out.isOof_iff _).1 h; rw [h]; trivial
  · subst h
    cases o₁ with
    | ok v s' => exact fin_le _ _ (hf _) (fun s'' => .ok v s'')
    | err v m p t s' => exact fin_le _ _ (hf _) (fun s'' => .err v m p t s'')
    | fail f s' =>
      cases f with
      | oof => exact Out.le_refl _
      | unsupported w => exact Out.le_refl _
      | syn e => exact fin_le _ _ (hf _) (fun s'' => .fail (.syn e) s'')
      | host k => exact fin_le _ _ (hf _) (fun s'' => .fail (.host k) s'')

theorem block_fstep (ih : FMAll ld fuel) :
    ∀ env es ce ch fin tl pos, FLe (eval ld (fuel+1) env (.block es ce ch fin tl pos)) (eval ld (fuel+1+1) env (.block es ce ch fin tl pos)) := by
  intro env es ce ch fin tl pos
  unfold Ckl.eval
  refine FLe.ofFun (fun s0 => ?_)
  dsimp only
  have hfin : ∀ s, (evalFinally ld fuel env fin s).le (evalFinally ld (fuel+1) env fin s) :=
    fun s => (ih.evalFinally env fin).le s
  refine block_fin_le _ _ ?_ (evalFinally ld fuel env fin) (evalFinally ld (fuel+1) env fin) hfin
    (fun s => ghostFin s pos)
  rcases (ih.evalBody env es (.bool true)).le (ghostEnter s0 pos) with h | h
  · left; obtain ⟨s', h⟩ := (Out.isOof_iff _).1 h; rw [h]; trivial
  · rw [← h]
    cases evalBody ld fuel env es (.bool true) (ghostEnter s0 pos) with
    | ok a s => exact Out.le_refl _
    | err v msg p t s' => exact (ih.tryHandlers env ce ch v msg p t).le s'
    | fail f s => exact Out.le_refl _

theorem eval_fstep (ih : FMAll ld fuel) :
    ∀ env n, FLe (eval ld (fuel+1) env n) (eval ld (fuel+1+1) env n) := by
  intro env n
  fm_intro ih
  cases n
  case block es ce ch fin tl pos => exact block_fstep ih env es ce ch fin tl pos
  case «for» ids e body what pos => exact for_fstep ih env ids e body what pos
  all_goals (unfold Ckl.eval; fmono)

/-- fuel 0: every function is out of fuel -/
theorem fmAll_zero (ld : Loader) : FMAll ld 0 := by
  constructor <;> intros <;> first
    | (rw [Ckl.eval]; exact FLe.oof _)
    | (rw [Ckl.evalAnd]; exact FLe.oof _)
    | (rw [Ckl.evalOr]; exact FLe.oof _)
    | (rw [Ckl.evalIf]; exact FLe.oof _)
    | (rw [Ckl.evalSeq]; exact FLe.oof _)
    | (rw [Ckl.evalItems]; exact FLe.oof _)
    | (rw [Ckl.evalPairs]; exact FLe.oof _)
    | (rw [Ckl.evalBody]; exact FLe.oof _)
    | (rw [Ckl.evalFinally]; exact FLe.oof _)
    | (rw [Ckl.tryHandlers]; exact FLe.oof _)
    | (rw [Ckl.invoke]; exact FLe.oof _)
    | (rw [Ckl.evalArgs]; exact FLe.oof _)
    | (rw [Ckl.callFn]; exact FLe.oof _)
    | (rw [Ckl.bindParams]; exact FLe.oof _)
    | (rw [Ckl.evalFor]; exact FLe.oof _)
    | (rw [Ckl.forItems]; exact FLe.oof _)
    | (rw [Ckl.forListLive]; exact FLe.oof _)
    | (rw [Ckl.forString]; exact FLe.oof _)
    | (rw [Ckl.whileLoop]; exact FLe.oof _)
    | (rw [Ckl.comprStep]; exact FLe.oof _)
    | (rw [Ckl.comprLoop]; exact FLe.oof _)
    | (rw [Ckl.comprProduct]; exact FLe.oof _)
    | (rw [Ckl.comprParallel]; exact FLe.oof _)
    | (rw [Ckl.nativeSorted]; exact FLe.oof _)
    | (rw [Ckl.sortedOuter]; exact FLe.oof _)
    | (rw [Ckl.sortedInner]; exact FLe.oof _)
    | (rw [Ckl.call1]; exact FLe.oof _)
    | (rw [Ckl.call2]; exact FLe.oof _)
    | (rw [Ckl.evalRequire]; exact FLe.oof _)
    | (rw [Ckl.loadModule]; exact FLe.oof _)

theorem fmAll_succ (ih : FMAll ld fuel) : FMAll ld (fuel + 1) where
  eval := eval_fstep ih
  evalAnd := evalAnd_fstep ih
  evalOr := evalOr_fstep ih
  evalIf := evalIf_fstep ih
  evalSeq := evalSeq_fstep ih
  evalItems := evalItems_fstep ih
  evalPairs := evalPairs_fstep ih
  evalBody := evalBody_fstep ih
  evalFinally := evalFinally_fstep ih
  tryHandlers := tryHandlers_fstep ih
  invoke := invoke_fstep ih
  evalArgs := evalArgs_fstep ih
  callFn := callFn_fstep ih
  bindParams := bindParams_fstep ih
  evalFor := evalFor_fstep ih
  forItems := forItems_fstep ih
  forListLive := forListLive_fstep ih
  forString := forString_fstep ih
  whileLoop := whileLoop_fstep ih
  comprStep := comprStep_fstep ih
  comprLoop := comprLoop_fstep ih
  comprProduct := comprProduct_fstep ih
  comprParallel := comprParallel_fstep ih
  nativeSorted := nativeSorted_fstep ih
  sortedOuter := sortedOuter_fstep ih
  sortedInner := sortedInner_fstep ih
  call1 := call1_fstep ih
  call2 := call2_fstep ih
  evalRequire := evalRequire_fstep ih
  loadModule := loadModule_fstep ih

/-- every function of the evaluator is monotone in the fuel (one step) -/
theorem fmAll (ld : Loader) : ∀ fuel, FMAll ld fuel
  | 0 => fmAll_zero ld
  | fuel + 1 => fmAll_succ (fmAll ld fuel)

end Ckl
