/-
  Helper lemmas for C07 (generic part): the insertion sorts `sortBy` / `sortedM` of the model are
  permutations, sorted, (anti-)stable, and agree with every other correct sort on strictly totally
  ordered inputs; `minM` / `maxM` return the first extremal element.

  All order hypotheses are *relativised* to a predicate `S` ("the elements we actually sort"),
  because the model's `<` on values is only an order inside one kind.
-/
import CklVerif.Model.Coll

namespace Ckl

variable {α : Type _} {β : Type _}

/-- `lt` is a strict weak order on the elements satisfying `S`:
    irreflexive, transitive, and incomparability is transitive. -/
structure StrictWeakOn (S : α → Prop) (lt : α → α → Bool) : Prop where
  irrefl : ∀ a, S a → lt a a = false
  trans : ∀ a b c, S a → S b → S c → lt a b = true → lt b c = true → lt a c = true
  incomp_trans : ∀ a b c, S a → S b → S c →
    lt a b = false → lt b a = false → lt b c = false → lt c b = false →
    lt a c = false ∧ lt c a = false

/-- `lt` is a strict total order on the elements satisfying `S` (trichotomous with `=`). -/
structure StrictTotalOn (S : α → Prop) (lt : α → α → Bool) : Prop where
  irrefl : ∀ a, S a → lt a a = false
  trans : ∀ a b c, S a → S b → S c → lt a b = true → lt b c = true → lt a c = true
  tri : ∀ a b, S a → S b → lt a b = true ∨ a = b ∨ lt b a = true

namespace StrictWeakOn
variable {S : α → Prop} {lt : α → α → Bool}

theorem asymm (h : StrictWeakOn S lt) {a b : α} (ha : S a) (hb : S b) (hab : lt a b = true) :
    lt b a = false := by
  cases hba : lt b a with
  | false => rfl
  | true =>
    have := h.trans a b a ha hb ha hab hba
    rw [h.irrefl a ha] at this
    exact absurd this Bool.false_ne_true

/-- negative transitivity: `≥` is transitive -/
theorem neg_trans (h : StrictWeakOn S lt) {a b c : α} (ha : S a) (hb : S b) (hc : S c)
    (hab : lt a b = false) (hbc : lt b c = false) : lt a c = false := by
  cases hac : lt a c with
  | false => rfl
  | true =>
    exfalso
    cases hba : lt b a with
    | true =>
      have := h.trans b a c hb ha hc hba hac
      rw [hbc] at this; exact Bool.false_ne_true this
    | false =>
      cases hcb : lt c b with
      | true =>
        have := h.trans a c b ha hc hb hac hcb
        rw [hab] at this; exact Bool.false_ne_true this
      | false =>
        have := (h.incomp_trans a b c ha hb hc hab hba hbc hcb).1
        rw [hac] at this; exact Bool.false_ne_true this.symm

theorem mono (h : StrictWeakOn S lt) {S' : α → Prop} (hS : ∀ a, S' a → S a) :
    StrictWeakOn S' lt where
  irrefl a ha := h.irrefl a (hS a ha)
  trans a b c ha hb hc := h.trans a b c (hS a ha) (hS b hb) (hS c hc)
  incomp_trans a b c ha hb hc := h.incomp_trans a b c (hS a ha) (hS b hb) (hS c hc)

/-- pulling a strict weak order back along a key function -/
theorem comap {S : β → Prop} {lt : β → β → Bool} (h : StrictWeakOn S lt) (key : α → β) :
    StrictWeakOn (fun a => S (key a)) (fun a b => lt (key a) (key b)) where
  irrefl a ha := h.irrefl (key a) ha
  trans a b c ha hb hc := h.trans (key a) (key b) (key c) ha hb hc
  incomp_trans a b c ha hb hc := h.incomp_trans (key a) (key b) (key c) ha hb hc

/-- the reversed relation is a strict weak order too -/
theorem flip (h : StrictWeakOn S lt) : StrictWeakOn S (fun a b => lt b a) where
  irrefl a ha := h.irrefl a ha
  trans a b c ha hb hc hab hbc := h.trans c b a hc hb ha hbc hab
  incomp_trans a b c ha hb hc h1 h2 h3 h4 :=
    (h.incomp_trans a b c ha hb hc h2 h1 h4 h3).symm

end StrictWeakOn

namespace StrictTotalOn
variable {S : α → Prop} {lt : α → α → Bool}

theorem asymm (h : StrictTotalOn S lt) {a b : α} (ha : S a) (hb : S b) (hab : lt a b = true) :
    lt b a = false := by
  cases hba : lt b a with
  | false => rfl
  | true =>
    have := h.trans a b a ha hb ha hab hba
    rw [h.irrefl a ha] at this
    exact absurd this Bool.false_ne_true

theorem toWeak (h : StrictTotalOn S lt) : StrictWeakOn S lt where
  irrefl := h.irrefl
  trans := h.trans
  incomp_trans a b c ha hb hc h1 h2 h3 h4 := by
    have hab : a = b := by
      rcases h.tri a b ha hb with h' | h' | h'
      · rw [h1] at h'; exact absurd h' Bool.false_ne_true
      · exact h'
      · rw [h2] at h'; exact absurd h' Bool.false_ne_true
    subst hab
    exact ⟨h3, h4⟩

theorem mono (h : StrictTotalOn S lt) {S' : α → Prop} (hS : ∀ a, S' a → S a) :
    StrictTotalOn S' lt where
  irrefl a ha := h.irrefl a (hS a ha)
  trans a b c ha hb hc := h.trans a b c (hS a ha) (hS b hb) (hS c hc)
  tri a b ha hb := h.tri a b (hS a ha) (hS b hb)

end StrictTotalOn

/-- ascending: no later element is strictly smaller than an earlier one -/
def SortedBy (lt : α → α → Bool) (l : List α) : Prop := l.Pairwise (fun a b => lt b a = false)

/-! ### `insertBy` / `sortBy` -/

theorem insertBy_perm (lt : α → α → Bool) (x : α) (l : List α) :
    (insertBy lt x l).Perm (x :: l) := by
  induction l with
  | nil => exact List.Perm.refl _
  | cons y ys ih =>
    simp only [insertBy]
    split
    · exact List.Perm.refl _
    · exact (List.Perm.cons y ih).trans (List.Perm.swap x y ys)

theorem sortBy_perm' (lt : α → α → Bool) (xs : List α) : (sortBy lt xs).Perm xs := by
  induction xs with
  | nil => exact List.Perm.refl _
  | cons x xs ih =>
    simp only [sortBy]
    exact (insertBy_perm lt x _).trans (List.Perm.cons x ih)

theorem insertBy_sorted {S : α → Prop} {lt : α → α → Bool} (hw : StrictWeakOn S lt)
    {x : α} {l : List α} (hx : S x) (hl : ∀ y ∈ l, S y) (hs : SortedBy lt l) :
    SortedBy lt (insertBy lt x l) := by
  induction l with
  | nil => exact List.pairwise_singleton _ _
  | cons y ys ih =>
    have hy : S y := hl y (List.mem_cons_self ..)
    have hys : ∀ z ∈ ys, S z := fun z hz => hl z (List.mem_cons_of_mem _ hz)
    have hs' := List.pairwise_cons.mp hs
    simp only [insertBy]
    split
    · rename_i hxy
      apply List.Pairwise.cons _ hs
      intro z hz
      have hyx : lt y x = false := hw.asymm hx hy hxy
      rcases List.mem_cons.mp hz with rfl | hz
      · exact hyx
      · exact hw.neg_trans (hys z hz) hy hx (hs'.1 z hz) hyx
    · rename_i hxy
      have hxy : lt x y = false := by simpa using hxy
      apply List.Pairwise.cons _ (ih hys hs'.2)
      intro z hz
      rcases List.mem_cons.mp ((insertBy_perm lt x ys).mem_iff.mp hz) with rfl | hz
      · exact hxy
      · exact hs'.1 z hz

theorem sortBy_sorted' {S : α → Prop} {lt : α → α → Bool} (hw : StrictWeakOn S lt)
    {xs : List α} (hxs : ∀ y ∈ xs, S y) : SortedBy lt (sortBy lt xs) := by
  induction xs with
  | nil => exact List.Pairwise.nil
  | cons x xs ih =>
    simp only [sortBy]
    have hx : S x := hxs x (List.mem_cons_self ..)
    have hxs' : ∀ z ∈ xs, S z := fun z hz => hxs z (List.mem_cons_of_mem _ hz)
    exact insertBy_sorted hw hx
      (fun y hy => hxs' y ((sortBy_perm' lt xs).mem_iff.mp hy)) (ih hxs')

theorem filter_cons_eq_append (P : α → Bool) (a : α) (l : List α) :
    (a :: l).filter P = [a].filter P ++ l.filter P := by
  rw [← List.filter_append]; rfl

/-- `insertBy` puts the new element *behind* the resident members of its class -/
theorem insertBy_filter {S : α → Prop} {lt : α → α → Bool} (hw : StrictWeakOn S lt)
    {P : α → Bool} (hP : ∀ a b, S a → S b → P a = true → P b = true → lt a b = false)
    {x : α} {l : List α} (hx : S x) (hl : ∀ y ∈ l, S y) (hs : SortedBy lt l) :
    (insertBy lt x l).filter P = l.filter P ++ [x].filter P := by
  induction l with
  | nil => simp [insertBy]
  | cons y ys ih =>
    have hy : S y := hl y (List.mem_cons_self ..)
    have hys : ∀ z ∈ ys, S z := fun z hz => hl z (List.mem_cons_of_mem _ hz)
    have hs' := List.pairwise_cons.mp hs
    simp only [insertBy]
    split
    · rename_i hxy
      rw [filter_cons_eq_append P x]
      cases hPx : P x with
      | false => simp [hPx]
      | true =>
        have : (y :: ys).filter P = [] := by
          rw [List.filter_eq_nil_iff]
          intro z hz hPz
          rcases List.mem_cons.mp hz with rfl | hz
          · have := hP x z hx hy hPx hPz
            rw [hxy] at this; exact Bool.false_ne_true this.symm
          · have h1 := hP x z hx (hys z hz) hPx hPz
            have := hw.neg_trans hx (hys z hz) hy h1 (hs'.1 z hz)
            rw [hxy] at this; exact Bool.false_ne_true this.symm
        rw [this]; simp
    · rw [filter_cons_eq_append P y, ih hys hs'.2, filter_cons_eq_append P y ys,
        List.append_assoc]

/-- `sortBy` inserts the head last, so inside a class of equivalent elements the input order is
    *reversed* -/
theorem sortBy_filter {S : α → Prop} {lt : α → α → Bool} (hw : StrictWeakOn S lt)
    {P : α → Bool} (hP : ∀ a b, S a → S b → P a = true → P b = true → lt a b = false)
    {xs : List α} (hxs : ∀ y ∈ xs, S y) :
    (sortBy lt xs).filter P = (xs.filter P).reverse := by
  induction xs with
  | nil => rfl
  | cons x xs ih =>
    have hx : S x := hxs x (List.mem_cons_self ..)
    have hxs' : ∀ z ∈ xs, S z := fun z hz => hxs z (List.mem_cons_of_mem _ hz)
    simp only [sortBy]
    rw [insertBy_filter hw hP hx (fun y hy => hxs' y ((sortBy_perm' lt xs).mem_iff.mp hy))
      (sortBy_sorted' hw hxs'), ih hxs', filter_cons_eq_append P x xs, List.reverse_append]
    congr 1
    cases h : P x <;> simp [List.filter, h]

/-! ### `insR` / `sortedM` -/

theorem mem_takeWhile_imp' {p : α → Bool} {l : List α} {x : α} (h : x ∈ l.takeWhile p) :
    p x = true := by
  induction l with
  | nil => simp at h
  | cons y ys ih =>
    rw [List.takeWhile_cons] at h
    split at h
    · rcases List.mem_cons.mp h with rfl | h
      · assumption
      · exact ih h
    · simp at h

theorem dropWhile_nil_or_head {p : α → Bool} (l : List α) :
    l.dropWhile p = [] ∨ ∃ a t, l.dropWhile p = a :: t ∧ p a = false := by
  induction l with
  | nil => left; rfl
  | cons y ys ih =>
    rw [List.dropWhile_cons]
    split
    · exact ih
    · right; exact ⟨y, ys, rfl, by simpa using ‹¬p y = true›⟩

/-- the shape of `insR lt x acc`: `acc` is split as `A ++ B`, `x` goes in between, every element
    of `B` is greater than `x`, and the last element of `A` (if any) is not -/
theorem insR_spec (lt : α → α → Bool) (x : α) (acc : List α) :
    ∃ A B, acc = A ++ B ∧ insR lt x acc = A ++ x :: B ∧ (∀ b ∈ B, lt x b = true) ∧
      (A = [] ∨ ∃ A' a, A = A' ++ [a] ∧ lt x a = false) := by
  refine ⟨(acc.reverse.dropWhile (fun y => lt x y)).reverse,
    (acc.reverse.takeWhile (fun y => lt x y)).reverse, ?_, rfl, ?_, ?_⟩
  · rw [← List.reverse_append, List.takeWhile_append_dropWhile, List.reverse_reverse]
  · intro b hb
    exact mem_takeWhile_imp' (p := fun y => lt x y) (List.mem_reverse.mp hb)
  · rcases dropWhile_nil_or_head (p := fun y => lt x y) acc.reverse with h | ⟨a, t, h, ha⟩
    · left; rw [h]; rfl
    · right; exact ⟨t.reverse, a, by rw [h, List.reverse_cons], ha⟩

theorem insR_perm (lt : α → α → Bool) (x : α) (acc : List α) :
    (insR lt x acc).Perm (acc ++ [x]) := by
  obtain ⟨A, B, h1, h2, -, -⟩ := insR_spec lt x acc
  rw [h2, h1]
  exact List.perm_middle.trans (List.perm_append_singleton x (A ++ B)).symm

theorem insR_sorted {S : α → Prop} {lt : α → α → Bool} (hw : StrictWeakOn S lt)
    {x : α} {acc : List α} (hx : S x) (hl : ∀ y ∈ acc, S y) (hs : SortedBy lt acc) :
    SortedBy lt (insR lt x acc) := by
  obtain ⟨A, B, h1, h2, hB, hA⟩ := insR_spec lt x acc
  rw [h2]
  subst h1
  unfold SortedBy at hs ⊢
  rw [List.pairwise_append] at hs ⊢
  obtain ⟨hsA, hsB, hAB⟩ := hs
  have hSA : ∀ y ∈ A, S y := fun y hy => hl y (List.mem_append_left _ hy)
  have hSB : ∀ y ∈ B, S y := fun y hy => hl y (List.mem_append_right _ hy)
  have hxA : ∀ a ∈ A, lt x a = false := by
    rcases hA with rfl | ⟨A', a0, rfl, ha0⟩
    · intro a ha; simp at ha
    · intro a ha
      rcases List.mem_append.mp ha with ha | ha
      · rw [List.pairwise_append] at hsA
        have h3 : lt a0 a = false := hsA.2.2 a ha a0 (List.mem_singleton.mpr rfl)
        exact hw.neg_trans hx (hSA a0 (by simp)) (hSA a (by simp [ha])) ha0 h3
      · rw [List.mem_singleton.mp ha]; exact ha0
  refine ⟨hsA, ?_, ?_⟩
  · apply List.Pairwise.cons _ hsB
    intro b hb
    exact hw.asymm hx (hSB b hb) (hB b hb)
  · intro a ha b hb
    rcases List.mem_cons.mp hb with rfl | hb
    · exact hxA a ha
    · exact hAB a ha b hb

/-- `insR` puts the new element *behind* the resident members of its class; no sortedness needed -/
theorem insR_filter {S : α → Prop} {lt : α → α → Bool}
    {P : α → Bool} (hP : ∀ a b, S a → S b → P a = true → P b = true → lt a b = false)
    {x : α} {acc : List α} (hx : S x) (hl : ∀ y ∈ acc, S y) :
    (insR lt x acc).filter P = acc.filter P ++ [x].filter P := by
  obtain ⟨A, B, h1, h2, hB, -⟩ := insR_spec lt x acc
  rw [h2]
  subst h1
  rw [List.filter_append, List.filter_append, filter_cons_eq_append P x B, List.append_assoc]
  congr 1
  cases hPx : P x with
  | false => simp [hPx]
  | true =>
    have : B.filter P = [] := by
      rw [List.filter_eq_nil_iff]
      intro b hb hPb
      have := hP x b hx (hl b (List.mem_append_right _ hb)) hPx hPb
      rw [hB b hb] at this; exact Bool.false_ne_true this.symm
    rw [this]; simp

theorem foldl_insR_perm (lt : α → α → Bool) (xs acc : List α) :
    (xs.foldl (fun acc x => insR lt x acc) acc).Perm (acc ++ xs) := by
  induction xs generalizing acc with
  | nil => simp
  | cons x xs ih =>
    simp only [List.foldl_cons]
    refine (ih _).trans ?_
    have := (insR_perm lt x acc).append_right xs
    simpa using this

theorem foldl_insR_sorted {S : α → Prop} {lt : α → α → Bool} (hw : StrictWeakOn S lt)
    {xs acc : List α} (hxs : ∀ y ∈ xs, S y) (hacc : ∀ y ∈ acc, S y) (hs : SortedBy lt acc) :
    SortedBy lt (xs.foldl (fun acc x => insR lt x acc) acc) := by
  induction xs generalizing acc with
  | nil => exact hs
  | cons x xs ih =>
    simp only [List.foldl_cons]
    have hx : S x := hxs x (List.mem_cons_self ..)
    apply ih (fun z hz => hxs z (List.mem_cons_of_mem _ hz))
    · intro y hy
      rcases List.mem_append.mp ((insR_perm lt x acc).mem_iff.mp hy) with hy | hy
      · exact hacc y hy
      · rw [List.mem_singleton.mp hy]; exact hx
    · exact insR_sorted hw hx hacc hs

theorem foldl_insR_filter {S : α → Prop} {lt : α → α → Bool}
    {P : α → Bool} (hP : ∀ a b, S a → S b → P a = true → P b = true → lt a b = false)
    {xs acc : List α} (hxs : ∀ y ∈ xs, S y) (hacc : ∀ y ∈ acc, S y) :
    (xs.foldl (fun acc x => insR lt x acc) acc).filter P = acc.filter P ++ xs.filter P := by
  induction xs generalizing acc with
  | nil => simp
  | cons x xs ih =>
    simp only [List.foldl_cons]
    have hx : S x := hxs x (List.mem_cons_self ..)
    rw [ih (fun z hz => hxs z (List.mem_cons_of_mem _ hz)), insR_filter hP hx hacc,
      filter_cons_eq_append P x xs, List.append_assoc]
    intro y hy
    rcases List.mem_append.mp ((insR_perm lt x acc).mem_iff.mp hy) with hy | hy
    · exact hacc y hy
    · rw [List.mem_singleton.mp hy]; exact hx

/-! ### uniqueness of the sorted permutation -/

theorem sorted_perm_unique {lt : α → α → Bool} {xs ys zs : List α}
    (ht : StrictTotalOn (· ∈ xs) lt) (hy : ys.Perm xs) (hz : zs.Perm xs)
    (hsy : SortedBy lt ys) (hsz : SortedBy lt zs) : ys = zs := by
  refine List.Perm.eq_of_pairwise ?_ hsy hsz (hy.trans hz.symm)
  intro a b ha hb h1 h2
  rcases ht.tri a b (hy.mem_iff.mp ha) (hz.mem_iff.mp hb) with h | h | h
  · rw [h2] at h; exact absurd h Bool.false_ne_true
  · exact h
  · rw [h1] at h; exact absurd h Bool.false_ne_true

/-! ### `minM` / `maxM` -/

/-- invariant of the `min` scan -/
theorem foldl_min_spec {S : α → Prop} {lt : α → α → Bool} (hw : StrictWeakOn S lt)
    (as pre : List α) (m : α) (post : List α)
    (hS : ∀ y ∈ pre ++ m :: post ++ as, S y)
    (hpre : ∀ y ∈ pre, lt m y = true) (hpost : ∀ y ∈ post, lt y m = false) :
    ∃ pre' post', pre ++ m :: post ++ as =
        pre' ++ (as.foldl (fun m x => if lt x m then x else m) m) :: post' ∧
      (∀ y ∈ pre', lt (as.foldl (fun m x => if lt x m then x else m) m) y = true) ∧
      (∀ y ∈ post', lt y (as.foldl (fun m x => if lt x m then x else m) m) = false) := by
  induction as generalizing pre m post with
  | nil => exact ⟨pre, post, by simp, hpre, hpost⟩
  | cons x as ih =>
    simp only [List.foldl_cons]
    have hSm : S m := hS m (by simp)
    have hSx : S x := hS x (by simp)
    split
    · rename_i hxm
      -- x becomes the new minimum; everything before it is strictly greater
      have := ih (pre ++ m :: post) x [] (by simpa using hS) ?_ (by simp)
      · simpa using this
      · intro y hy
        have hSy : S y := hS y (by
          rcases List.mem_append.mp hy with h | h
          · simp [h]
          · rcases List.mem_cons.mp h with h | h <;> simp [h])
        cases hxy : lt x y with
        | true => rfl
        | false =>
          exfalso
          have hym : lt y m = false := by
            rcases List.mem_append.mp hy with h | h
            · exact hw.asymm hSm hSy (hpre y h)
            · rcases List.mem_cons.mp h with rfl | h
              · exact hw.irrefl _ hSm
              · exact hpost y h
          have := hw.neg_trans hSx hSy hSm hxy hym
          rw [hxm] at this; exact Bool.false_ne_true this.symm
    · rename_i hxm
      have hxm : lt x m = false := by simpa using hxm
      have := ih pre m (post ++ [x]) (by simpa using hS) hpre ?_
      · simpa using this
      · intro y hy
        rcases List.mem_append.mp hy with h | h
        · exact hpost y h
        · rw [List.mem_singleton.mp h]; exact hxm

theorem minM_eq_foldl (lt : β → β → Bool) (key : α → β) (a : α) (as : List α) :
    minM lt key (a :: as) =
      some (as.foldl (fun m x => if (fun p q => lt (key p) (key q)) x m then x else m) a) := rfl

theorem maxM_eq_minM_flip (lt : β → β → Bool) (key : α → β) (xs : List α) :
    maxM lt key xs = minM (fun a b => lt b a) key xs := by
  cases xs <;> rfl

end Ckl
