/- driver handlers for the value-level commands -/
import CklVerif.Driver.Codec
namespace Ckl
open Sx

/-- key function `fn(x) x[0]` used by the sorted-with-key correspondence -/
def firstOf : Val → Val
  | .list (k :: _) => k
  | v => v

def handleValue : Sx → Option Sx
  | .list [.atom "render", v] => do
      let v ← decodeVal v; some (okSx (encStr (render v)))
  | .list [.atom "eq", a, b] => do
      let a ← decodeVal a; let b ← decodeVal b; some (okSx (encBool (veq a b)))
  | .list [.atom "lt", a, b] => do
      let a ← decodeVal a; let b ← decodeVal b; some (okSx (encBool (vlt a b)))
  | .list [.atom "canon", v] => do
      let v ← decodeVal v; some (okSx (encodeVal v))
  | .list [.atom "decrepr", m, e] => do
      let m ← atomInt? m; let e ← atomNat? e; some (okSx (encStr (decRepr m e)))
  | .list [.atom "cmp", a, b] => do
      let a ← decodeVal a; let b ← decodeVal b
      some (okSx (.list [.atom (toString (compareM decRepr a b)), encBool (vleWith decRepr a b),
        encBool (vgtWith decRepr a b), encBool (vgeWith decRepr a b)]))
  | .list [.atom "sorted", v] => do
      match ← decodeVal v with
      | .list xs => some (okSx (encodeVal (.list (sortedM vlt id xs))))
      | _ => none
  | .list [.atom "sortedk", v] => do
      match ← decodeVal v with
      | .list xs => some (okSx (encodeVal (.list (sortedM vlt firstOf xs))))
      | _ => none
  | .list [.atom "minmax", v] => do
      match ← decodeVal v with
      | .list xs =>
        match minM vlt id xs, maxM vlt id xs with
        | some a, some b => some (okSx (.list [encodeVal a, encodeVal b]))
        | _, _ => some (.list [.atom "none"])
      | _ => none
  | _ => none

end Ckl
