/-
  C11 (binding part) — `evalRequire` cut into its four stages:

    resolveSpec   the module specification is resolved to a string,
    (circularity check on the load stack)
    loadPop       push on the load stack, `loadModule`, pop,
    bindS         the binding tail: a pure function `State → State` for each of the three forms.

  `evalRequire_eq` says that `evalRequire` IS the composition of the four stages (by `rfl`), so
  every statement about the stages is a statement about the model.
-/
import CklVerif.Lemmas.C05Basic
namespace Ckl.C11B
open Ckl Ckl.C05

/-- stage 1 of `NodeRequire.evaluate`: the module specification as a string -/
def resolveSpec (ld : Loader) (fuel : Nat) (env : EnvId) (spec : Node) (pos : Pos) : EvalM String :=
  match spec with
  | .ident n _ => do
    let s ← getS
    match s.lookup env n with
    | some v =>
      if isModuleObj s v then pure n
      else match v with
        | .str t => pure (String.ofList t)
        | _ => throwE "Expected string or identifier modulespec" pos
    | none => pure n
  | other => do
    match ← eval ld fuel env other with
    | .str t => pure (String.ofList t)
    | _ => throwE "Expected string or identifier modulespec" pos

/-- the file name looked up by the loader -/
def fileOf (modulespec : String) : String :=
  if modulespec.endsWith ".ckl" then modulespec else modulespec ++ ".ckl"

/-- the module identifier: key of the module cache and of the load stack -/
def identOf (modulespec : String) : String :=
  let last := (modulespec.splitOn "/").getLast!
  if last.endsWith ".ckl" then (last.dropEnd 4).toString else last

/-- the name the plain form binds: the alias of `require M as X`, else the identifier -/
def boundName (modulespec : String) (name : Option String) : String :=
  match name with
  | some n => if n = "" then identOf modulespec else n
  | none => identOf modulespec

/-- drop the top of the load stack -/
def popS (s : State) : State := { s with modstack := s.modstack.dropLast }

/-- push on the load stack -/
def pushS (s : State) (ident : String) : State := { s with modstack := s.modstack ++ [ident] }

/-- stage 3: push, look up or load, pop (on every outcome) -/
def loadPop (ld : Loader) (fuel : Nat) (env : EnvId) (ident file : String) (pos : Pos) : EvalM EnvId :=
  fun s =>
    match loadModule ld fuel env ident file pos (pushS s ident) with
    | .ok e s2 => .ok e (popS s2)
    | .err v m p t s2 => .err v m p t (popS s2)
    | .fail f s2 => .fail f (popS s2)

/-- the public names of the module frame, in definition order (`getLocalSymbols()` minus `_…`) -/
def publicSymbols (s : State) (menv : EnvId) : List String :=
  (s.localSymbols menv).filter (fun n => !n.startsWith "_")

/-- `moduleEnv.get(name)` -/
def valueOf (s : State) (menv : EnvId) (n : String) : RVal := (s.lookup menv n).getD .null

/-- the names exported by the qualified and the unqualified form: public and not a module object -/
def exportedSymbols (s : State) (menv : EnvId) : List String :=
  (publicSymbols s menv).filter (fun n => !isModuleObj s (valueOf s menv n))

/-- the member dict of the module object built by the plain form -/
def moduleMembers (s : State) (menv : EnvId) : List (String × RVal) :=
  ((exportedSymbols s menv).map (fun n => (n, valueOf s menv n))).foldl
    (fun acc kv => dictPut kv.1 kv.2 acc) []

/-- the binding tail of `require M unqualified` -/
def bindUnqS (env menv : EnvId) (s : State) : State :=
  (exportedSymbols s menv).foldl (fun t n => t.put env n (valueOf s menv n)) s

/-- the binding tail of `require M import [a, b as c]` (`table` = the pairs `(a,a), (b,c)`) -/
def bindImportS (env menv : EnvId) (table : List (String × String)) (s : State) : State :=
  (publicSymbols s menv).foldl (fun t n =>
    match table.lookup n with
    | some al => t.put env al (valueOf s menv n)
    | none => t) s

/-- the binding tail of `require M` / `require M as X`: allocate the module object, bind it -/
def bindPlainS (env menv : EnvId) (modulename : String) (s : State) : State :=
  (s.alloc (.obj (moduleMembers s menv) true)).1.put env modulename (.ref s.heap.size)

/-- which tail runs: `unqualified` wins, then a NON-EMPTY symbol list, else the plain form
    (`elif self.symbols:` — an empty dict is falsy in Python) -/
def bindS (env menv : EnvId) (modulename : String) (unq : Bool)
    (syms : Option (List (String × String))) (s : State) : State :=
  if unq then bindUnqS env menv s
  else match syms with
    | some (sy :: sys) => bindImportS env menv (sy :: sys) s
    | _ => bindPlainS env menv modulename s

/-- stages 2–4 for a resolved module specification -/
def requireTail (ld : Loader) (fuel : Nat) (env : EnvId) (name : Option String) (unq : Bool)
    (syms : Option (List (String × String))) (pos : Pos) (modulespec : String) : EvalM RVal := do
  let s ← getS
  if s.modstack.contains (identOf modulespec) then
    throwE ("Found circular module dependency (" ++ identOf modulespec ++ ")") pos
  let menv ← loadPop ld fuel env (identOf modulespec) (fileOf modulespec) pos
  modifyS (bindS env menv (boundName modulespec name) unq syms)
  pure .null

private theorem tail_eq (ld : Loader) (fuel : Nat) (env : EnvId) (name : Option String)
    (unq : Bool) (syms : Option (List (String × String))) (pos : Pos) (modulespec : String) (s : State)
    (X : EvalM RVal)
    (hX : X = (do
      let modulefile := if modulespec.endsWith ".ckl" then modulespec else modulespec ++ ".ckl"
      let last := (modulespec.splitOn "/").getLast!
      let ident := if last.endsWith ".ckl" then (last.dropEnd 4).toString else last
      let modulename := match name with
        | some n => if n = "" then ident else n
        | none => ident
      let s ← getS
      if s.modstack.contains ident then throwE ("Found circular module dependency (" ++ ident ++ ")") pos
      modifyS (fun s => { s with modstack := s.modstack ++ [ident] })
      let pop : State → State := fun s => { s with modstack := s.modstack.dropLast }
      let menv : EnvId ← (fun s1 =>
        match loadModule ld fuel env ident modulefile pos s1 with
        | .ok e s2 => .ok e (pop s2)
        | .err v m p t s2 => .err v m p t (pop s2)
        | .fail f s2 => .fail f (pop s2))
      let s ← getS
      let symbols := (s.localSymbols menv).filter (fun n => !n.startsWith "_")
      let valueOf := fun (n : String) => (s.lookup menv n).getD RVal.null
      if unq then do
        let exported := symbols.filter (fun n => !isModuleObj s (valueOf n))
        modifyS (fun s => exported.foldl (fun s n => s.put env n (valueOf n)) s)
        pure RVal.null
      else match syms with
      | some (sy :: sys) => do
        let table := sy :: sys
        modifyS (fun s => symbols.foldl (fun s n =>
          match table.lookup n with
          | some al => s.put env al (valueOf n)
          | none => s) s)
        pure RVal.null
      | _ => do
        let members := (symbols.filter (fun n => !isModuleObj s (valueOf n))).map (fun n => (n, valueOf n))
        let obj ← allocM (.obj (members.foldl (fun acc kv => dictPut kv.1 kv.2 acc) []) true)
        modifyS (·.put env modulename obj)
        pure RVal.null)) :
    X s = requireTail ld fuel env name unq syms pos modulespec s := by
  subst hX
  simp only [requireTail]
  show ((getS >>= _) s) = ((getS >>= _) s)
  rw [bind_ok (getS_run s), bind_ok (getS_run s)]
  by_cases hc : s.modstack.contains (identOf modulespec) = true
  · have hc' := hc; unfold identOf at hc'
    rw [if_pos hc, if_pos hc']; rfl
  · have hc' := hc; unfold identOf at hc'
    rw [if_neg hc, if_neg hc']
    show _ = (loadPop ld fuel env (identOf modulespec) (fileOf modulespec) pos >>= _) s
    rw [bind_def, bind_def]
    simp only [modifyS, loadPop, bind_def]
    simp only [identOf, fileOf, pushS, popS]
    generalize loadModule ld fuel env _ _ pos _ = r
    cases r with
    | ok e s2 =>
      cases unq
      · rcases syms with _ | _ | ⟨sy, sys⟩ <;> rfl
      · rfl
    | err v m p t s2 => rfl
    | fail f s2 => rfl


theorem bind_congr_run {α β} (m : EvalM α) (f g : α → EvalM β) (s : State)
    (h : ∀ a s', f a s' = g a s') : (m >>= f) s = (m >>= g) s := by
  rw [bind_def, bind_def]
  cases m s with
  | ok a s' => exact h a s'
  | err v msg p t s' => rfl
  | fail k s' => rfl

/-- **the model is the composition of the stages** -/
theorem evalRequire_eq (ld : Loader) (fuel : Nat) (env : EnvId) (spec : Node) (name : Option String)
    (unq : Bool) (syms : Option (List (String × String))) (pos : Pos) (s : State) :
    evalRequire ld (fuel + 1) env spec name unq syms pos s =
      (resolveSpec ld fuel env spec pos >>= requireTail ld fuel env name unq syms pos) s := by
  by_cases h : ∃ n p, spec = Node.ident n p
  · obtain ⟨n, p, rfl⟩ := h
    simp only [Ckl.evalRequire, resolveSpec]
    exact bind_congr_run _ _ _ _ (fun ms s' => tail_eq ld fuel env name unq syms pos ms s' _ rfl)
  · have h' : ∀ n p, spec = Node.ident n p → False := fun n p e => h ⟨n, p, e⟩
    simp only [Ckl.evalRequire, resolveSpec]
    exact bind_congr_run _ _ _ _ (fun ms s' => tail_eq ld fuel env name unq syms pos ms s' _ rfl)

end Ckl.C11B
