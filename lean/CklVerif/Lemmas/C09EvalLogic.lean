/-
  C09 (evaluator level): the relational program logic `PresA` over the evaluation monad and its
  proof automation (`pa_auto`), in the style of `Tr` (C05) / `GTr` (C10), but tracking the
  cleanliness of every value that flows through the program.
-/
import CklVerif.Lemmas.C09EvalState
namespace Ckl.C09E
open Ckl

/-- postcondition: the final state satisfies the invariant, the value / error value is clean -/
def Post {α} [Cl α] (E : List String) (b : Bool) : Out α → Prop
  | .ok a s' => Inv E b s' ∧ Cl.cl E a
  | .err v _ _ _ s' => Inv E b s' ∧ Cl.cl E v
  | .fail _ s' => Inv E b s'

/-- from every state satisfying `Inv E b`: `m` and `m'` have the same outcome, and it satisfies `Post` -/
structure PresA {α} [Cl α] (E : List String) (b : Bool) (m m' : EvalM α) : Prop where
  run : ∀ s, Inv E b s → m s = m' s ∧ Post E b (m s)

/-- plain preservation -/
abbrev Pres {α} [Cl α] (E : List String) (b : Bool) (m : EvalM α) : Prop := PresA E b m m

variable {E : List String} {b : Bool} {α β : Type} [Cl α] [Cl β]

theorem Pres.mk' {m : EvalM α} (h : ∀ s, Inv E b s → Post E b (m s)) : Pres E b m :=
  ⟨fun s hs => ⟨rfl, h s hs⟩⟩

namespace PresA

theorem pure {a : α} (h : Cl.cl E a) : PresA E b (pure a : EvalM α) (Pure.pure a) :=
  ⟨fun _ hs => ⟨rfl, hs, h⟩⟩

theorem bind {m m' : EvalM α} {f f' : α → EvalM β} (hm : PresA E b m m')
    (hf : ∀ a, Cl.cl E a → PresA E b (f a) (f' a)) : PresA E b (m >>= f) (m' >>= f') := by
  refine ⟨fun s hs => ?_⟩
  obtain ⟨he, hp⟩ := hm.run s hs
  rw [C05.bind_def, C05.bind_def, ← he]
  cases hr : m s with
  | ok a s' => rw [hr] at hp; exact (hf a hp.2).run s' hp.1
  | err v msg p t s' => rw [hr] at hp; exact ⟨rfl, hp⟩
  | fail k s' => rw [hr] at hp; exact ⟨rfl, hp⟩

theorem getS_bind {f f' : State → EvalM β} (hf : ∀ s, Inv E b s → PresA E b (f s) (f' s)) :
    PresA E b (getS >>= f) (getS >>= f') := ⟨fun s hs => (hf s hs).run s hs⟩

theorem setS {s' : State} (h : Inv E b s') : PresA E b (setS s') (Ckl.setS s') :=
  ⟨fun _ _ => ⟨rfl, h, trivial⟩⟩

theorem modifyS {f : State → State} (hf : ∀ s, Inv E b s → Inv E b (f s)) :
    PresA E b (modifyS f) (Ckl.modifyS f) := ⟨fun s hs => ⟨rfl, hf s hs, trivial⟩⟩

theorem throwV {v : RVal} (hv : Cl.cl E v) (msg : String) (pos : Pos) :
    PresA E b (throwV v msg pos : EvalM α) (Ckl.throwV v msg pos) := ⟨fun _ hs => ⟨rfl, hs, hv⟩⟩
theorem throwE (msg : String) (pos : Pos) : PresA E b (throwE msg pos : EvalM α) (Ckl.throwE msg pos) :=
  ⟨fun _ hs => ⟨rfl, hs, trivial⟩⟩
theorem failM (f : Fail) : PresA E b (failM f : EvalM α) (Ckl.failM f) := ⟨fun _ hs => ⟨rfl, hs⟩⟩
theorem unsupported (w : String) : PresA E b (unsupported w : EvalM α) (Ckl.unsupported w) := failM _

theorem allocM {c : Cell} (hc : Cl.cl E c) : PresA E b (allocM c) (Ckl.allocM c) :=
  ⟨fun _ hs => ⟨rfl, hs.alloc hc, trivial⟩⟩
theorem newList {xs : List RVal} (h : Cl.cl E xs) : PresA E b (newList xs) (Ckl.newList xs) := allocM h
theorem cellOf (v : RVal) : PresA E b (cellOf v) (Ckl.cellOf v) := by
  refine ⟨fun s hs => ⟨rfl, ?_⟩⟩
  unfold Ckl.cellOf; split
  · exact ⟨hs, hs.cl_cell _⟩
  · exact ⟨hs, cl_none'⟩
theorem typeOf (v : RVal) : PresA E b (typeOf v) (Ckl.typeOf v) := ⟨fun _ hs => ⟨rfl, hs, trivial⟩⟩

theorem setS_newEnv {s s' : State} {e l : EnvId} (hs : Inv E b s) (h : s.newEnv e = (s', l)) :
    PresA E b (Ckl.setS s') (Ckl.setS s') := setS (hs.newEnv' h)
theorem setS_newEnv_fst {s : State} {e : EnvId} (hs : Inv E b s) :
    PresA E b (Ckl.setS (s.newEnv e).fst) (Ckl.setS (s.newEnv e).fst) := setS (hs.newEnv e)
theorem setS_set {s s' : State} {e : EnvId} {n : String} {v : RVal} (hs : Inv E b s)
    (h : s.set e n v = some s') (hv : Cl.cl E v) : PresA E b (Ckl.setS s') (Ckl.setS s') :=
  setS (hs.set h hv)

theorem mapM_loop {γ} [Cl γ] (f : γ → EvalM α) (as : List γ) (hf : ∀ x, x ∈ as → PresA E b (f x) (f x))
    (bs : List α) (hb : Cl.cl E bs) : PresA E b (List.mapM.loop f as bs) (List.mapM.loop f as bs) := by
  induction as generalizing bs with
  | nil =>
    exact pure (cl_of_subset (fun x hx => List.mem_reverse.mp hx) hb)
  | cons a as ih =>
    exact bind (hf a List.mem_cons_self) (fun y hy => ih (fun x hx => hf x (List.mem_cons_of_mem _ hx)) (y :: bs)
      (by rw [cl_cons]; exact ⟨hy, hb⟩))

theorem mapM {γ} [Cl γ] {f : γ → EvalM α} {as : List γ} (hf : ∀ x, x ∈ as → PresA E b (f x) (f x)) :
    PresA E b (as.mapM f) (as.mapM f) := mapM_loop f as hf [] (cl_nil')

/-- the result is used at another type's trivial cleanliness (weakening is not needed: `Cl` is
    type directed) -/
theorem of_eq {m m' n n' : EvalM α} (h : PresA E b m m') (e1 : n = m) (e2 : n' = m') : PresA E b n n' := by
  subst e1; subst e2; exact h

end PresA

end Ckl.C09E
