/-
  C10 (sessions) — program logic over the evaluation monad for the relation `Mono e ·`.

  `HTr e P Q H s0 m`: started in a state reached from the reference state `s0` with exception set `P`,
  the program `m` ends
    * with a value or a runtime error in a state reached from `s0` with exception set `Q`,
    * with a hard failure (syntax error of a required module, host exception — the failures that
      `invoke` and `finally` can turn into runtime errors) in a state reached with exception set `H`,
    * with any failure (also out of fuel / unsupported, where the model abstains) in a state in which
      at least nothing has been deallocated (`Mono e ⊤`).
  `KTr e X s0 m` is the uniform case `P = Q = H = X`, which is what every function of the evaluator
  satisfies except the two that unbind loop identifiers (`evalFor`, `forString`).
-/
import CklVerif.Lemmas.C10SessBase
namespace Ckl.C10S
open Ckl Ckl.C05 Ckl.C03

variable {e : EnvId} {X : String → Prop}

/-- postcondition on outcomes -/
def HPost {α} (e : EnvId) (Q H : String → Prop) (s0 : State) : Out α → Prop
  | .ok _ s' => Mono e Q s0 s'
  | .err _ _ _ _ s' => Mono e Q s0 s'
  | .fail f s' => (Hard f → Mono e H s0 s') ∧ Mono e (fun _ => True) s0 s'

structure HTr {α} (e : EnvId) (P Q H : String → Prop) (s0 : State) (m : EvalM α) : Prop where
  run : ∀ s, Mono e P s0 s → HPost e Q H s0 (m s)

/-- the uniform case -/
abbrev KTr {α} (e : EnvId) (X : String → Prop) (s0 : State) (m : EvalM α) : Prop := HTr e X X X s0 m

/-- whatever the outcome, nothing has been deallocated -/
theorem HPost.all {α} {Q H : String → Prop} {s0 : State} {o : Out α} (h : HPost e Q H s0 o) :
    Mono e (fun _ => True) s0 (stOf o) := by
  cases o with
  | ok a s => exact Mono.weaken_all h
  | err v m p t s => exact Mono.weaken_all h
  | fail f s => exact h.2

/-- a plain `Mono` fact is a postcondition for every outcome -/
theorem HPost.of_mono {α} {s0 : State} {o : Out α} (h : Mono e X s0 (stOf o)) : HPost e X X s0 o := by
  cases o with
  | ok a s => exact h
  | err v m p t s => exact h
  | fail f s => exact ⟨fun _ => h, h.weaken_all⟩

/-- post-processing of the final state by a step that loses nothing -/
theorem HPost.mapOk {α} {Q H : String → Prop} {s0 s : State} {a : α} {g : State → State}
    (h : HPost e Q H s0 (Out.ok a s)) (hg : Grow s (g s)) : HPost e Q H s0 (Out.ok a (g s)) := Mono.grow h hg
theorem HPost.mapErr {α} {Q H : String → Prop} {s0 s : State} {v m p t} {g : State → State}
    (h : HPost e Q H s0 (Out.err v m p t s : Out α)) (hg : Grow s (g s)) :
    HPost e Q H s0 (Out.err v m p t (g s) : Out α) := Mono.grow h hg
theorem HPost.mapFail {α} {Q H : String → Prop} {s0 s : State} {f : Fail} {g : State → State}
    (h : HPost e Q H s0 (Out.fail f s : Out α)) (hg : Grow s (g s)) :
    HPost e Q H s0 (Out.fail f (g s) : Out α) := ⟨fun hf => (h.1 hf).grow hg, h.2.grow hg⟩

namespace HTr
variable {α β : Type} {s0 : State} {P Q Q' H : String → Prop}

/-- sequencing; an error of the first part ends the whole -/
theorem bind_gen {m : EvalM α} {f : α → EvalM β} (hm : HTr e P Q H s0 m)
    (hQ : ∀ x, x ≠ "" → Q x → Q' x) (hf : ∀ a, HTr e Q Q' H s0 (f a)) : HTr e P Q' H s0 (m >>= f) := by
  refine ⟨fun s hs => ?_⟩
  have h := hm.run s hs
  rw [bind_def]
  cases hr : m s with
  | ok a s' => rw [hr] at h; exact (hf a).run s' h
  | err v msg p t s' => rw [hr] at h; exact Mono.weaken h hQ
  | fail k s' => rw [hr] at h; exact h

/-- the first part is uniform in the precondition -/
theorem bind_pre {m : EvalM α} {f : α → EvalM β} (hm : HTr e P P H s0 m)
    (hQ : ∀ x, x ≠ "" → P x → Q x) (hf : ∀ a, HTr e P Q H s0 (f a)) : HTr e P Q H s0 (m >>= f) :=
  bind_gen hm hQ hf

/-- the second part is uniform in the postcondition -/
theorem bind_post {m : EvalM α} {f : α → EvalM β} (hm : HTr e P Q H s0 m)
    (hf : ∀ a, HTr e Q Q H s0 (f a)) : HTr e P Q H s0 (m >>= f) :=
  bind_gen hm (fun _ _ h => h) hf

theorem weaken_post {m : EvalM α} (hm : HTr e P Q H s0 m) (hQ : ∀ x, x ≠ "" → Q x → Q' x) :
    HTr e P Q' H s0 m := by
  refine ⟨fun s hs => ?_⟩
  have h := hm.run s hs
  revert h
  cases m s with
  | ok a s' => exact fun h => Mono.weaken h hQ
  | err v msg p t s' => exact fun h => Mono.weaken h hQ
  | fail k s' => exact id

theorem weaken_pre {P' : String → Prop} {m : EvalM α} (hm : HTr e P Q H s0 m) (hP : ∀ x, x ≠ "" → P' x → P x) :
    HTr e P' Q H s0 m := ⟨fun s hs => hm.run s (Mono.weaken hs hP)⟩

theorem getS_bind_gen {f : State → EvalM β} (hf : ∀ s, Mono e P s0 s → HTr e P Q H s0 (f s)) :
    HTr e P Q H s0 (getS >>= f) := ⟨fun s hs => (hf s hs).run s hs⟩

/-- a state change justified from the history, possibly changing the exception set -/
theorem modifyS_gen {f : State → State} (hf : ∀ s, Mono e P s0 s → Mono e Q s0 (f s)) :
    HTr e P Q H s0 (Ckl.modifyS f) := ⟨fun s hs => hf s hs⟩

end HTr

namespace KTr
variable {α β : Type} {s0 : State}

theorem pure (a : α) : KTr e X s0 (pure a : EvalM α) := ⟨fun _ h => h⟩

theorem bind {m : EvalM α} {f : α → EvalM β} (hm : KTr e X s0 m) (hf : ∀ a, KTr e X s0 (f a)) :
    KTr e X s0 (m >>= f) := HTr.bind_gen hm (fun _ _ h => h) hf

theorem getS_bind {f : State → EvalM β} (hf : ∀ s, Mono e X s0 s → KTr e X s0 (f s)) :
    KTr e X s0 (getS >>= f) := HTr.getS_bind_gen hf

theorem getS : KTr e X s0 getS := ⟨fun _ h => h⟩

theorem setS {s' : State} (h : Mono e X s0 s') : KTr e X s0 (setS s') := ⟨fun _ _ => h⟩

/-- a primitive state change that loses nothing -/
theorem modifyS {f : State → State} (hf : ∀ s, Grow s (f s)) : KTr e X s0 (modifyS f) :=
  ⟨fun s hs => hs.grow (hf s)⟩

theorem throwV (v : RVal) (msg : String) (pos : Pos) : KTr e X s0 (throwV v msg pos : EvalM α) :=
  ⟨fun _ h => h⟩
theorem throwE (msg : String) (pos : Pos) : KTr e X s0 (throwE msg pos : EvalM α) := ⟨fun _ h => h⟩
theorem failM (f : Fail) : KTr e X s0 (failM f : EvalM α) := ⟨fun _ h => ⟨fun _ => h, h.weaken_all⟩⟩
theorem unsupported (w : String) : KTr e X s0 (unsupported w : EvalM α) := failM _
theorem allocM (c : Cell) : KTr e X s0 (allocM c) := ⟨fun s h => h.grow (Grow.alloc s c)⟩
theorem newList (xs : List RVal) : KTr e X s0 (newList xs) := allocM _
theorem cellOf (v : RVal) : KTr e X s0 (cellOf v) := by
  refine ⟨fun s hs => ?_⟩; unfold Ckl.cellOf; split <;> exact hs
theorem typeOf (v : RVal) : KTr e X s0 (typeOf v) := ⟨fun _ h => h⟩

theorem mapM_loop {γ} (f : γ → EvalM α) (hf : ∀ x, KTr e X s0 (f x)) (as : List γ) (bs : List α) :
    KTr e X s0 (List.mapM.loop f as bs) := by
  induction as generalizing bs with
  | nil => exact pure _
  | cons a as ih => exact bind (hf a) (fun b => ih (b :: bs))

theorem mapM {γ} (f : γ → EvalM α) (hf : ∀ x, KTr e X s0 (f x)) (as : List γ) : KTr e X s0 (as.mapM f) :=
  mapM_loop f hf as []

/-- from a statement about single steps (`Grow`, every outcome) to the statement relative to a
    reference state -/
theorem of_grow {m : EvalM α} (h : ∀ s, Grow s (stOf (m s))) : KTr e X s0 m :=
  ⟨fun s hs => HPost.of_mono (hs.grow (h s))⟩

theorem setS_newEnv {s s' : State} {p l : EnvId} (hs : Mono e X s0 s)
    (h : s.newEnv p = (s', l)) : KTr e X s0 (Ckl.setS s') := by
  have : (s.newEnv p).1 = s' := by rw [h]
  exact setS (this ▸ hs.grow (Grow.newEnv s p))

theorem setS_newEnv_fst {s : State} {p : EnvId} (hs : Mono e X s0 s) :
    KTr e X s0 (Ckl.setS (s.newEnv p).fst) := setS (hs.grow (Grow.newEnv s p))

theorem setS_set {s s' : State} {env : EnvId} {n : String} {v : RVal} (hs : Mono e X s0 s)
    (h : s.set env n v = some s') : KTr e X s0 (Ckl.setS s') := setS (hs.grow (grow_set h))

/-- the postcondition of a run with a known outcome -/
theorem post_eq {m : EvalM α} (hm : KTr e X s0 m) {s1 : State} (hs1 : Mono e X s0 s1) {o : Out α}
    (heq : m s1 = o) : HPost e X X s0 o := heq ▸ hm.run s1 hs1

/-- the containment boundary of `invoke`: hard failures of the callee become runtime errors in
    the same state -/
theorem invokeTail {m : EvalM RVal} (hm : KTr e X s0 m) (g : State → String) (pos : Pos) :
    KTr e X s0 (fun s1 =>
      match m s1 with
      | .err v msg p t s2 => .err v msg p (t ++ [(g s2, pos)]) s2
      | .fail (.syn e) s2 => .err (.str "ERROR".toList) e.msg pos [] s2
      | .fail (.host k) s2 => .err (.str "ERROR".toList) (g s2 ++ " failed: " ++ k) pos [] s2
      | other => other) := by
  refine ⟨fun s1 hs1 => ?_⟩
  have h := hm.run s1 hs1
  revert h
  cases m s1 with
  | ok a s2 => exact id
  | err v msg p t s2 => exact id
  | fail f s2 => cases f <;> intro h <;> first | exact h | exact h.1 trivial

/-- the `for` node: the loop proper (`m`, which may unbind the loop identifiers: exception set `Y`)
    is run from the state `s1`; on a value the hidden bindings are put back, on an error the
    identifiers are removed and the hidden bindings put back; failures pass -/
theorem forNode {Y : String → Prop} {m : EvalM RVal} (env : EnvId) (ids : List String)
    (hm : ∀ s1, HTr e X Y X s1 m)
    (hY : ∀ y, y ≠ "" → Y y → X y ∨ (env = e ∧ y ∈ ids))
    (hrm : env = e → ∀ x ∈ ids, x = "" ∨ Y x) :
    KTr e X s0 (fun s1 =>
      match m s1 with
      | .ok v s2 => .ok v (restoreVars env (hiddenVars s1 env ids) s2)
      | .err v msg p t s2 =>
          .err v msg p t (restoreVars env (hiddenVars s1 env ids) (ids.foldl (fun s x => s.remove env x) s2))
      | .fail (.syn se) s2 =>
          .fail (.syn se) (restoreVars env (hiddenVars s1 env ids) (ids.foldl (fun s x => s.remove env x) s2))
      | other => other) := by
  refine ⟨fun s1 hs1 => ?_⟩
  have h := (hm s1).run s1 (Mono.refl s1)
  revert h
  cases m s1 with
  | ok a s2 => exact fun h => hs1.trans (Mono.restore env ids h hY)
  | err v msg p t s2 =>
    exact fun h => hs1.trans (Mono.restore env ids (Mono.removeAll env ids hrm s2 h) hY)
  | fail f s2 =>
    cases f with
    | syn se =>
      intro h
      -- the loop identifiers are removed (exception set `X ∪ ids`), then the hidden bindings are put back
      have h1 : Mono e (fun y => X y ∨ (env = e ∧ y ∈ ids)) s1 s2 := (h.1 trivial).weaken (fun _ _ hx => Or.inl hx)
      have h2 := Mono.removeAll env ids (fun he x hx => Or.inr (Or.inr ⟨he, hx⟩)) s2 h1
      have h3 : Mono e X s1 _ := Mono.restore env ids h2 (fun _ _ hy => hy)
      exact ⟨fun _ => hs1.trans h3, hs1.weaken_all.trans h3.weaken_all⟩
    | oof => exact fun h => ⟨fun hf => hs1.trans (h.1 hf), hs1.weaken_all.trans h.2⟩
    | unsupported w => exact fun h => ⟨fun hf => hs1.trans (h.1 hf), hs1.weaken_all.trans h.2⟩
    | host k => exact fun h => ⟨fun hf => hs1.trans (h.1 hf), hs1.weaken_all.trans h.2⟩

end KTr

/-! ### automation (same scheme as `gtr_auto` of C10Gen) -/

syntax "k_lemma" : tactic
macro_rules | `(tactic| k_lemma) => `(tactic| exact KTr.pure _)
macro_rules | `(tactic| k_lemma) => `(tactic| exact KTr.throwE _ _)
macro_rules | `(tactic| k_lemma) => `(tactic| exact KTr.throwV _ _ _)
macro_rules | `(tactic| k_lemma) => `(tactic| exact KTr.unsupported _)
macro_rules | `(tactic| k_lemma) => `(tactic| exact KTr.failM _)
macro_rules | `(tactic| k_lemma) => `(tactic| exact KTr.getS)
macro_rules | `(tactic| k_lemma) => `(tactic| exact KTr.allocM _)
macro_rules | `(tactic| k_lemma) => `(tactic| exact KTr.newList _)
macro_rules | `(tactic| k_lemma) => `(tactic| exact KTr.cellOf _)
macro_rules | `(tactic| k_lemma) => `(tactic| exact KTr.typeOf _)
macro_rules | `(tactic| k_lemma) => `(tactic| exact KTr.setS_newEnv (by assumption) (by assumption))
macro_rules | `(tactic| k_lemma) => `(tactic| exact KTr.setS_newEnv_fst (by assumption))
macro_rules | `(tactic| k_lemma) => `(tactic| exact KTr.setS_set (by assumption) (by assumption))

/-- side goals `Grow s (f s)` of `modifyS` -/
macro "k_grow" : tactic => `(tactic| first
  | exact Grow.put _ _ _ _
  | exact Grow.of_eq rfl rfl
  | (apply grow_foldl; intro _ _; first
      | exact Grow.put _ _ _ _
      | exact Grow.of_eq rfl rfl
      | (split <;> first | exact Grow.put _ _ _ _ | exact Grow.refl _)))

open Lean Elab Tactic Meta in
/-- apply a hypothesis whose conclusion is a `KTr` / `HTr` statement (induction hypotheses) -/
elab "k_hyp" : tactic => withMainContext do
  let g ← getMainGoal
  let lctx ← getLCtx
  for d in lctx do
    if d.isImplementationDetail then continue
    let ty ← instantiateMVars d.type
    let fn := ty.getForallBody.getAppFn
    if fn.isConstOf ``Ckl.C10S.KTr || fn.isConstOf ``Ckl.C10S.HTr then
      if let some gs ← observing? (withReducible (g.apply d.toExpr)) then
        if gs.isEmpty then
          replaceMainGoal gs
          return
  throwError "k_hyp: no applicable hypothesis"

macro "k_step" : tactic => `(tactic| first
  | with_reducible k_lemma
  | ((with_reducible apply KTr.modifyS); intro _; k_grow)
  | k_hyp
  | ((with_reducible apply KTr.getS_bind); intro _ _)
  | with_reducible apply KTr.bind
  | ((with_reducible apply KTr.mapM); intro _)
  | tr_beta
  | intro _
  | split)

macro "k_auto" : tactic => `(tactic| repeat' k_step)

end Ckl.C10S
