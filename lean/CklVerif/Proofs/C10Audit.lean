import CklVerif.Proofs.C10

#print axioms Ckl.Gen.allG
#print axioms Ckl.Gen.GTr.callPure
#print axioms Ckl.C10.allStack
#print axioms Ckl.C10.frag
#print axioms Ckl.C10.load_step
#print axioms Ckl.C10.gpost_ends
#print axioms Ckl.C10.modstack_preserved
#print axioms Ckl.C10.default_nativeSem_keeps_modstack
#print axioms Ckl.C10.nativeKeepsModstack_of_abstains
#print axioms Ckl.C10.interpret_modstack
#print axioms Ckl.C10.nextState_ends
#print axioms Ckl.C10.session_modstack
#print axioms Ckl.C10.modstack_empty_between_calls
#print axioms Ckl.C10.no_stale_circular_dependency
#print axioms Ckl.C10.ldBroken_keeps
#print axioms Ckl.C10.nodupKeys_dictDel
#print axioms Ckl.C10.removeAll_frame
#print axioms Ckl.C10.for_cleanup_on_error
