"""Generates MANIFEST.json from the table below (python -m harness.manifest_gen)."""
import json
import os

VERIF = os.path.dirname(os.path.dirname(os.path.abspath(__file__)))

CLAIMED = {
    "C02": ("6/C02", "Theorems (Lean 4): int + - * of the code model are exact for all ints; int / equals Int.tdiv with |a - q*b| < |b| and the remainder 0 or "
            "of the sign of a (int_div_trunc, tdiv_unique); int % equals Int.fmod with |r| < |b| and b | a - r; arithmetic on NULL gives NULL; the result "
            "is an int exactly when both operands are ints (arith_kind); and/or evaluate clauses left to right, stop at the deciding one and accept only "
            "booleans (and_or_short_circuit); and, over the predicate table REGENERATED from parse_pred_expr on every run, every `x is not P` arm "
            "builds NodeNot of exactly the node of `x is P` (is_not_is_negation). Precedence/associativity/chain desugaring live in the parser model "
            "(fuel-free, compared AST-for-AST with the implementation in C01). Tied to the code by random expression trees to depth 5, all ordered "
            "operator pairs, expected ASTs computed from the precedence rules, values recomputed with exact int/Fraction arithmetic.",
            "Decimal arithmetic uses machine doubles on both sides (no theorem about float arithmetic)."),
    "C03": ("6/C03", "Theorems (Lean 4, evaluator model): environment algebra (lookup_put_same/other, set_updates_nearest, set_undefined_none: assignment "
            "never creates a binding, newEnv_fresh); a closure call runs in a fresh child of the CAPTURED frame and is independent of the caller's frame "
            "(call_ignores_caller_env, call_fresh_frame); setArgs computes exactly the declarative binding relation - named first, positionals to the "
            "remaining parameters in order, surplus to the rest parameter, the three error cases (setArgs_spec and corollaries); defaults are "
            "evaluated in the callee frame in declaration order (bindParams_default). Tied to the code by generated programs (closures, shadowing to 4 "
            "levels, recursion, positional/named/default/rest/spread/pipeline/method calls) run three ways: implementation, a reference interpreter "
            "written from the language rules, and the Lean evaluator.",
            "Pipeline / method-call desugaring and spread arguments are theorems now (C03Sugar); a pipeline embedded in an arbitrary surrounding program is covered by correspondence."),
    "C04": ("6/C04", "Theorems (Lean 4, evaluator model): for/while never return a break or continue value (loop_absorbs_break_continue), a block stops at the "
            "first control value and returns it unchanged (block_propagates_signal), a call unwraps return and turns a stray break/continue into a "
            "runtime error (call_unwraps_return, call_break_is_error), if evaluates exactly the first TRUE branch (if_first_true, if_all_false), while "
            "re-tests its condition (while_retests), and `for` over a set / map enumerates the same sorted items a comprehension gets "
            "(for_set_sorted, compr_same_items, for_map_keys/values/entries). Tied to the code by generated loop nests with exits at every statement "
            "position run on implementation, reference interpreter and model.",
            "Known finding C04:default-what-mismatch: over a map/object WITHOUT keys/values/entries the comprehension default differs from the loop default "
            "(theorem default_selector_differs); generators always give the selector."),
    "C05": ("6/C05", "Theorems (Lean 4, evaluator model, all programs/states/fuel): finally_exactly_once - for every one of the 30 mutually recursive evaluator "
            "functions, whenever evaluation ends with a value, a runtime error, a syntax failure or a host failure, every block entered had its finally "
            "part run exactly once (ghost counters per block position, for every interpretation of the unmodelled built-ins that is itself balanced); "
            "seq_abort (nothing after the failing statement runs), catch_first_match / catch_all_handles / catch_no_match_unchanged (error value, "
            "message, position unchanged when re-raised), finally_runs_on_error, error_raises_value, uncaught_error_reaches_interpret. Tied to the code "
            "by generated do/catch/finally nests with injected user and runtime errors run on implementation, reference interpreter and model "
            "(incl. a runtime cross-check of the ghost counters).",
            "Out-of-fuel and unsupported outcomes of the model are exempt from the theorem."),
    "C08": ("6/C08", "Theorems (Lean 4): equal sets/maps built in any insertion order render identically (render_set_perm, render_map_perm via sorted-permutation "
            "uniqueness); an int renders as an integer numeral without '.', a decimal (for the model's decRepr) with one, so their texts never coincide; "
            "every string literal `'` ++ escape s ++ `'` scans back to exactly the string token s in any context (string_token_roundtrip), every int "
            "numeral to its int token (negative: `-` then the numeral) and through the parser to the literal (roundtrip_int, <= 4300 digits), booleans, "
            "NULL, patterns without '/', and arbitrarily nested lists of these parse back to their literal AST (roundtrip_data). Tied to the code by "
            "generated data values to depth 3 (adversarial strings, all float binades by bit pattern): str(v) evaluates to an equal value of the same "
            "type that renders to the same text; model render (incl. shortest-repr decRepr) = implementation text.",
            "Decimals are theorems now (C08Dec): every finite binary64 value prints as digits.digits and reads back as the same value. PARTIAL: evaluation of "
            "SETS and MAPS that contain decimals is covered by the oracle/correspondence only (1 == 1.0 makes the canonical-form argument different). "
            "Known findings: equal ints/decimals as set elements, -0.0, patterns containing '//', NULL as a map key."),
    "C10": ("6/C10", "Theorems (Lean 4, evaluator + session model): modstack_preserved - every evaluator function leaves the module load stack as it found it on "
            "every exit (value, runtime error, syntax failure, host failure); hence after ANY session of interpret calls the stack is empty again "
            "(modstack_empty_between_calls) and a failed require can never make a later one report a circular dependency "
            "(no_stale_circular_dependency); an aborted for loop leaves no loop variable behind (for_cleanup_on_error); seq_abort of C05 gives "
            "'definitions made before the failure point persist'. Tied to the code by exhaustive command histories up to length 3 (thorough 4) and "
            "random ones to length 30 over define/assign/read/call/failing expression/syntax error/require of good, missing, broken, failing, "
            "circular, dependent modules/aborted loop, with an erasure oracle (failed calls replaced by their completed prefix), a repetition oracle, "
            "two interleaved interpreters, and the model session.",
            "Instance separation (two interpreters never share state) is checked by the interleaving oracle, not by a theorem (two model sessions are "
            "independent values by construction)."),
    "C11": ("6/C11", "Theorems (Lean 4, evaluator model): module_evaluated_at_most_once - the counter of completed top-level evaluations of every module identifier "
            "is 1 exactly when the module is cached and 0 otherwise, through every evaluator function and every session started from the initial state "
            "(session_modules_at_most_once); a cached module is never re-evaluated or replaced, so all importers share the one frame "
            "(cached_module_is_kept, cached_module_not_reevaluated); the cycle check makes the invariant inductive. Tied to the code by generated "
            "module graphs (2..5 modules, public/private definitions, load messages, mutable state, cyclic and acyclic) x importer programs with every "
            "import form: importer symbol tables before/after, module object members, load counts, shared state, importer isolation, cycles; and the "
            "model session on the same histories.",
            "At-most-once is per module identifier spelling (`require Math` and `require math` load the bundled module twice)."),
    "C12": ("6/C12", "Theorems (Lean 4, evaluator model): the storage order of a set / map cell (CPython's hash order) is unobservable - for two states that "
            "differ only by a permutation of one cell's content (elements pairwise of one ordered kind and distinct): sorted enumeration "
            "(sortedR_perm, sortedEntriesR_perm), reification, equality, order, rendering (reify_perm, rveq_perm, rvlt_perm, rrender_perm), membership, "
            "comprehension / spread / destructuring / list() / for-loop item lists (collectionValues_perm, spreadValues_perm, destructure_perm, "
            "asListArg_perm, evalFor_items_perm*) and set construction (addSet_perm) agree. Tied to the code by generated programs through every "
            "enumeration path and library function, each run in fresh processes under 8 (thorough 32) PYTHONHASHSEED values, and compared with the "
            "hash-free model.",
            "CPython's hash randomisation is abstracted to 'any permutation'. Known finding C12:date-number-mix (theorem totalOn_necessary): sets mixing "
            "dates with numbers enumerate seed-dependently. Whole-program simulation under permutation is proved for call-free programs (C12Sim); with calls only the enumeration primitives."),
    "C16": ("6/C16", "Theorems (Lean 4, evaluator model): every modelled built-in other than append/insert_at/delete_at/remove/put leaves every pre-existing heap "
            "cell unchanged on every outcome (callPure_nonmutating); each mutator changes exactly its target cell, to the textbook result "
            "(mutator_frame, append_list, insert_at_list, delete_at_list, put_map, remove_*); containers returned by non-mutating built-ins are fresh "
            "cells, with the explicit exceptions that return their argument (result_fresh, returns_argument_*); all holders of a reference see a "
            "mutation (alias_visibility); element/member assignment changes only the addressed cell; literals, slices and comprehensions only "
            "allocate. Tied to the code by snapshotting (structure + identities) all arguments of every function of the base environment and bundled "
            "modules over a 20-value pool, and by random alias programs checked against a reference heap and the model.",
            "Library functions written in the language: those proved in C19Src / C18Src carry `Ext` (no argument changed) or `ExtBut` (exactly the documented argument changed) in their statements; the others (permutations, unique, ...) are covered by the snapshot oracle."),
    "C18": ("6/C18", "Theorems (Lean 4, all strings): contains <-> find >= 0 <-> infix, `in` = contains, starts_with/ends_with = prefix/suffix; join = intercalate, "
            "join(split(s, sep), sep) = s for every s and sep, split(join(xs, sep), sep) = xs exactly under the stated JoinClean condition (iff, with a "
            "counterexample otherwise), split through escape_pattern is the literal split; replace (the recursive string.ckl algorithm, fuel proved "
            "sufficient) = left-to-right non-overlapping substitution; reverse involutive, trim idempotent with its spec, ASCII case maps idempotent, "
            "chr/ord inverse, length additive; s-interpolation replaces each placeholder by its rendered, padded value and leaves other text unchanged "
            "(interp_spec, pad_*). Tied to the code by exhaustive small pairs and adversarial random strings against host string operations, laws "
            "between functions, and the model.",
            "Regular expressions, non-ASCII case mapping and `.digits` rounding are not modelled (the model abstains there; the oracle still checks)."),
    "C19": ("6/C19", "Theorems (Lean 4): union/intersection/diff/symmetric_diff are the set-theoretic operations w.r.t. equality-membership and duplicate-free; "
            "unique keeps the first of each key class; reverse/flatten/zip/enumerate/range/interval/chunks/pairs/grouped/filter/map_list/reduce/sum/prod "
            "equal their textbook definitions (chunks flatten to the input, sizes k..k,1..k); mean/median/median_low/median_high/min/max are "
            "invariant under permutation; pow = a^n, gcd = Int.gcd, lcm = Int.lcm, truncating div and floored mod with their characterisations; the "
            "32-bit functions equal the BitVec 32 operations (and/or/xor/not, rotations for every int a and n), shifts = a*2^n and floor(a/2^n). "
            "Tied to the code by random collections with duplicates and 1/1.0, all permutations of short lists, ints to 2^80, all 32-bit boundary "
            "words x shift counts, against defining laws and the model.",
            "Decimal sums/means are compared as doubles (no float theorem)."),
    "C09": ("6/C09", "Theorems (Lean 4) over the native table that is REGENERATED from functions.py / interpreter.py / modules/*.ckl on every run: every "
            "built-in whose class references an OS primitive (open, os.*, shutil.*, subprocess.*, FileInput, FileOutput, script loading) is "
            "flagged secure=False (table_sound); every instantiation of such a class outside bind_native is guarded by `not secure` "
            "(no_unguarded_instantiation); bundled modules bind only known natives; bind_native in secure mode binds nothing effectful for any "
            "name and alias (bindNative_secure), and no sequence of binding/copying operations ever does (secure_invariant). A forgotten flag on "
            "an edited or new built-in breaks table_sound at check time. Tied to the code by running a secure interpreter (legacy and not) under "
            "sys.addaudithook: bind_native for every name/alias, every symbol of every bundled module with path- and command-like arguments in a "
            "canary directory, every syntactic way to define/assign the flag, and a reachability walk for secure==False built-ins.",
            "Effects are labels attached by a syntactic scan (an OS access through an indirection the scan does not know is caught only by the "
            "audit-hook runs); the frame structure (flag stored in the base frame only) is covered by the oracle, not by a theorem."),
    "C13": ("6/C13", "Theorems (Lean 4, all programs, all fuel): for EVERY interpretation of the ~100 unmodelled built-ins - including ones raising host "
            "exceptions - evaluation of any node never yields a host failure (eval_no_host and the same for all 24 node-reachable functions of the "
            "evaluator model); `invoke` is the single containment boundary (invoke_contains, invoke_boundary_host: a host failure of the callee "
            "becomes the runtime error); all 50 modelled natives are host-free (callPure_no_host); index conversion and dereference are guarded "
            "(index_guarded, deref_total); a runtime error is intercepted by catch all (runtime_error_is_catchable). Tied to the code by an "
            "exhaustive run: every function of the base environment and bundled modules x all argument tuples of arity <= 2 (3 sampled) from a "
            "29-value pool and every syntactic operator/indexing/iteration/spread/destructuring form - outcome value or catchable runtime error "
            "within 2 s - plus outcome-class comparison with the model evaluator on operator forms.",
            "Termination of built-ins on finite data is covered by the 2 s bound of the exhaustive runs (and by structural recursion of the "
            "modelled natives), not by a theorem about the Python code; recursion depth and resource exhaustion proportional to an argument's "
            "magnitude are out of scope."),
    "C01": ("6/C01", "Theorems (Lean 4): the scanner model is a total function of the text whose only failure is a syntax error with a non-empty "
            "message and a line >= 1 (scan_total, scan_deterministic); every int/decimal token it emits consists of digits (scan_int_tokens) so "
            "the parser's numeric conversions cannot fail; the parser model (51 mutually recursive functions mirroring parser.py production by "
            "production) is defined WITHOUT fuel by well-founded recursion on (remaining tokens, rank) - Lean's termination checker is the proof "
            "that every loop and recursion of the parser consumes input - and returns an AST or an error with a non-empty message (parse_total). "
            "Tied to the code by comparing AST dumps with positions / error line / end-of-input flag on program prefixes, token edits, token "
            "and character noise and an exhaustive short-string cover, and by an oracle (outcome class, 2 s bound, determinism) on the implementation.",
            "re.compile validity of pattern literals is an abstract predicate (validRe) supplied by the harness; nesting deeper than the host "
            "recursion limit and lone surrogates are out of scope."),
    "C14": ("6/C14", "Theorems (Lean 4, scanner): whitespace at a token boundary changes only the counters (ws_at_boundary); a comment returns to the "
            "same configuration (comment_skip); for every u, v and every filler w of whitespace and comments inserted at a token boundary the "
            "(type, value) token sequence of scan (u ++ w ++ v) equals that of scan (u ++ v) (layout_insertion; crlf_lf); hex/binary/underscored "
            "literals scan to the int token of their value (hex_literal, bin_literal, int_underscores). Since the parser model and the evaluator "
            "model are functions of token types/values (positions only flow into error positions), meaning is layout independent in the model; "
            "tied to the code by re-rendering generated and test-suite programs under random layouts/spellings and comparing tokens, ASTs, "
            "results, output and error values on the implementation and ASTs with the model front end.",
            "Redundant parentheses and trailing semicolons are theorems now (C14Parens) for the contexts listed there; a single anywhere-in-any-context statement is not proved."),
    "C20": ("6/C20", "Theorems (Lean 4): for every input text and every token the scanner model emits, the token's line is 1 + the number of line "
            "breaks before the token's start offset and its file name is the given one (token_line_correct, token_start); a failing scan "
            "reports the line of the offending character / token start (error_line_correct). Node, error and stack-trace positions are copied "
            "from tokens by the parser/evaluator models, which are compared with the implementation including positions (C01 AST dumps carry "
            "line and column). Tied to the code by all token kinds x followers x preceding layouts and by programs with one planted fault at a "
            "known token under random multi-line layouts, incl. faults inside called functions and modules.",
            "Columns are mirrored but not part of the property (they are negative for tokens followed by a line break)."),
    "C06": ("6/C06", "Theorems (Lean 4, all values at any nesting depth): the code model of __eq__ (veq) is reflexive, symmetric and transitive, never "
            "relates values of different kinds, is exact rational equality between ints and decimals, and membership / map lookup / set "
            "construction (dedupKeepFirst, assocPut) cannot distinguish equal representatives; equal numbers have the same hash payload "
            "(normNum). Tied to ckl.values by an all-pairs correspondence run over generated values and by an independent reference "
            "equality (Fraction arithmetic, order-free containers) evaluated on the implementation, including hash congruence, all "
            "insertion orders of up to 5 elements and interpreted programs.",
            "Sets and maps are modelled in their enumeration order (canonical form built by mkSet/mkMap); values mixing dates with numbers "
            "inside one collection and -0.0 are outside the generators (DESIGN.md section 8); NaN is the recorded finding C06:nan-reflexivity."),
    "C07": ("6/C07", "Theorems (Lean 4, all values): on values of one kind the code model of __lt__ is irreflexive, asymmetric, transitive and trichotomous "
            "with ==; numeric order is the order of the rationals, strings are code-point lexicographic (proper prefix first), FALSE<TRUE, dates "
            "chronological, lists element-wise; compare/<=/>/>= are consistent; FuncSorted's insertion sort (sortedM) returns a sorted permutation "
            "and is stable for every strict weak order; any sorted permutation under a strict total order equals the model's (so CPython's "
            "sorted agrees); min/max return the first extremal element; set enumeration is independent of insertion order. Tied to the code "
            "by all-pairs correspondence per kind, exhaustive sorted() runs on lists with duplicate keys, and a reference order oracle.",
            "Cross-kind comparison (through rendered text) is mirrored but outside the theorems, as the property says 'values of one kind'."),
    "C15": ("6/C15", "Theorems (Lean 4, all lists and all integer indices): deref/slice/substr/find/find_last/insert_at/delete_at of the code model equal the "
            "textbook sequence operations (clamped contiguous run, least/greatest occurrence, one-position insert/delete) and the identities "
            "s[0 to k] + s[k to *] = s; tied to the code by an exhaustive small-domain correspondence run (all sequences of length <= 4/6 over "
            "3 symbols x all indices in [-9,9]) and an executable statement of the property on the implementation's own results.",
            "The model of Python's slice/find/rfind/list.insert/del (Layer 0) is validated by the same exhaustive runs, not proved; "
            "string indices by non-int values (kept int()/bool/decimal coercion) are not modelled."),
    "C17": ("6/C17", "Theorems (Lean 4, every year >= 1900, no upper bound): toDate and toOaDay of the code model are mutually inverse, the day number grows "
            "by exactly one per calendar day under the Gregorian rule, strictly monotone, anchors 1900-01-01=2 and 1970-01-01=25569, (d+n)-n=d, "
            "(d+n)-d=n, both while-loops terminate with explicit measures; tied to ckl.date by correspondence on the boundary days of every year "
            "(quick) / every calendar day 1900..9999 (thorough) and by datetime.date ordinals as an independent oracle.",
            "PARTIAL for the time of day: the code computes it in binary floating point and rounds to the millisecond; the model carries integer "
            "milliseconds, the float arithmetic is validated by correspondence (all seconds of sample days), not proved."),
}

PENDING = {}


# theorem families added after the first complete pass (DESIGN.md section 0)
ADDENDA = {
    "C04": " Comprehension = loop (C04Compr, 12 audited): comprStep_order (per item the filter is evaluated once and FIRST - the repaired order -, then key, then value; an item that fails the filter evaluates nothing else; first error wins), compr_filter_map / list_compr_filter_map / set_compr_filter_map / map_compr_filter_map (under purity of filter and element on the items that pass - nothing is asked of the element on rejected items - the comprehension yields a fresh cell holding (xs.filter c).map g, resp. its setAdd / mapPut fold = mkSet / mkMap), for_append_filter_map (the explicit loop `def r = []; for x in e do if c then append(r, ve) end; r`, exactly the AST the parser builds) and compr_equals_loop_list: both end in cells with the SAME contents.",
    "C16": " Library functions written in the language (C16Src, 157 audited, over the ASTs REGENERATED from src/ckl/modules/*.ckl on every run): the theorems of C19Src / C18Src that carry `Ext` (no frame, heap cell or output that existed before changed: union / intersection / diff / symmetric_diff, reverse_list, reduce, gcd, join, replace, filter, flatten, map_list, chunks, pairs, first_n, last_n, ...), `ExtBut a` (append_all changes exactly its first argument, also on a set cell) or freshness of the result cell (rest, reverse_list, first_n, chunks incl. the copied last chunk, pairs, map_list, filter), restated in C16's words (union_does_not_modify_its_arguments, append_all_changes_exactly_its_first_argument, chunks_returns_fresh_cells, ...).",
    "C15": " Evaluator level (C15Eval, 78 property theorems / 158 audited): the indexing node `s[i]` (strings and list cells, every int, negative from the end, exactly the runtime error 'ERROR' \"Index out of bounds\" at the node's position otherwise; booleans / decimals / invalid index kinds), the slice node `s[a to b]` / `s[a to *]` (= the clamped contiguous run; a list slice is a fresh cell, the operand unchanged), and substr / sublist / find / find_last / insert_at / delete_at / length / `+` through callPure and through call nodes compute exactly the Seq functions of the textbook theorems; the identities through the evaluator: `s[0 to k] + s[k to *] == s` evaluates to TRUE for every string, every list of self-equal values and every int k (split_join_str, split_join_list), length_slice, find_neg_one_iff_not_infix, delete_insert_restores for every int index.",
    "C18": " Theorems about the string library SOURCE by the translator route (C18Src, 21 audited): reverse_src (= List.reverse, involutive), join_src (= intercalate; join_split_src: join(split(s, sep), sep) = s for the source), q_src, replace_src (the recursive source = left-to-right non-overlapping substitution behind `start`, explicit fuel 30 * (length - start) + 30), replace_src_empty_pattern, esc_src, each with `Ext`; mutants of string.ckl break the proofs at check time, a comment-only change does not."
           " Evaluator level (C18Eval, 56 property theorems / 106 audited): contains / starts_with / ends_with / chr / ord / length / string / `+` through callPure, through call nodes, the operator nodes and the `in` node compute exactly the Str functions (native_contains = decide infix, native_chr_total and native_ord_total with the exact errors, native_add_render: string + int / decimal / boolean / date is concatenation with the rendered value), and the consistency laws of the property evaluate to TRUE for ALL strings with explicit fuel and the state unchanged: law_contains_find (contains(s, t) == (find(s, t) >= 0)), law_starts_with_append, law_ends_with_append, law_length_append, law_add_empty, law_in_contains, law_chr_ord, law_ord_chr.",
    "C07": " Evaluator level (C07EvalAudit, theorems of the C06Eval family): the natives less / less_equals / greater / greater_equals / compare are vlt and its derived relations on reified values (native_less_eq, compare_consistent, less_trichotomy); nativeSorted without cmp / key returns a fresh cell holding the stable sorted permutation (sorted_list_spec, sorted_list_sorted_stable, sorted_set_spec, sorted_list_by_length); for loops, comprehensions and spread over a set or the keys of a map visit the elements in strictly ascending vlt order (for_set_order, for_map_keys_order, compr_set_order, spread_item_set_order).",
    "C06": " Evaluator level (C06Eval, 135 audited): the BRIDGE between the heap values programs run on and the tree values of the theorems - under the heap well-formedness HeapOK, rveq / rvlt / rrender / memR / mapGet / sortedR / setAdd / mapPut / mapDel agree with veq / vlt / render / membership / lookup / mkSet / dedupKeepFirst / assocPut; hence the native `equals` is an equivalence that never relates different kinds (equals_refl/symm/trans, equals_cross_kind, numeric equality iff equal rationals), `in`, `m[k]`, remove, contains respect it (memR_congr, mapGet_congr, in_set_congr, index_congr), set literals / set() / append never hold two equal elements (addSet_spec, set_literal_spec); HeapOK is preserved by allocation of well-formed cells (heapOK_alloc), with witnesses showing each side condition necessary.",
    "C05": " From source text (C05EndToEnd): uncaught_error_reaches_interpret_src; error_literal_reaches_interpret - the text `error <v>` for every data value v ends the call with a runtime error whose value is exactly v; finally_exactly_once_src for every text and every session.",
    "C01": " End to end (C01EndToEnd): parseScript_total / interpret_total - for EVERY source text the front end accepts or rejects with one syntax error that has a non-empty message, a line >= 1 and the given file name, and interpret ends in exactly one of value / runtime error carrying a value / syntax error / the model's own abstentions, never a host failure.",
    "C19": " Theorems about the library SOURCE by the translator route (C19Src): harness/extract/libsrc.py re-parses src/ckl/modules/*.ckl with the real parser on every run and emits the functions as Lean terms (Gen/LibSrc.lean, cross-checked against the driver's decoder by #guards); abs_src_int / sign_src_int (the source of abs / sign computes Int.natAbs / Int.sign for all ints, all states satisfying LibEnv, all fuel above an explicit bound, changing no old frame, cell or output), the NULL and non-numeric branches, is_int_src / is_decimal_src / is_list_src / is_numeric_src, rest_src. An edit of the source (`n < 0` -> `n <= 0`) breaks the proof at check time."
           " Continuation (51 audited in C19Src): first, last, is_even, is_odd, is_zero, is_negative, is_positive, non_empty, const, reverse_list (= List.reverse in a fresh cell, argument unchanged), reduce / prod (= foldl), append_all (changes exactly its first argument), gcd (= Int.gcd, explicit fuel 30 * (|b| + 1) + 1), load_defs_establishes_libEnv (the state obtained by loading the generated definitions satisfies the hypothesis of all these theorems)."
           " Second continuation (131 audited in C19Src): union / intersection / diff / symmetric_diff of set.ckl on list and set cells of scalars (= Lib.unionM ..., argument cells unchanged - the past defect `union` mutating its first argument would break union_src), first_n, last_n, for_each, the generic reverse, lcm, any, all, chunks (all chunk cells fresh and pairwise different), pairs, filter, flatten, unique, map_list (list comprehension rule), sign / abs on decimals, and libState_libEnv (a multi-frame library state built by evaluating the generated definitions satisfies the hypotheses for 48 definitions).",
    "C12": " Whole-program simulation for call-free programs (C12Sim): eval_perm_irrelevant_partial - for states that differ by permutations of set / map cell contents (atomic, same-kind keys) every program without call / method call / require / element assignment outside lambda bodies (31 of 35 node kinds) gives the same outcome, value, error, message, position, trace and printed output, and related final states; session, output and rendering corollaries. The unrestricted statement is false in model and code alike (growth of a cell by an incomparable key - the recorded finding C12:date-number-mix; #guard witnesses).",
    "C02": " The precedence theorem is now proved (C02Parse): for expression trees of any depth over or/and/not, comparison chains, + - * / %, unary minus "
           "and parentheses, EVERY token list spelled by the minimal-parentheses printer parses to the prescribed AST modulo positions "
           "(parse_render_tokens), redundant parentheses change nothing (parse_render_parens), with the corollaries sub_left_assoc, add_mul_prec, "
           "or_and_prec, not_eq_prec, neg_mul_prec, cmp_chain, or_flat. The operator tables and the call shape of the expression tower are REGENERATED "
           "from parser.py on every run and proved equal to the model's (C02GenSyntax: add_mul_tables_agree, relops_agree, tower_agree, ...)."
           " The semantic half (C02Sem): a denotational semantics `denote` written from the property text (ints exact, / = Int.tdiv, % = Int.fmod, NULL, short-circuit and/or on booleans only, comparison chains as conjunctions, first error wins) and eval_toNode: for every expression tree of any depth, in every state where the operator names resolve to the built-ins, evaluating the parsed tree yields exactly `denote` and leaves the state untouched; interpret_expression / interpret_source_canonical compose it with the precedence theorem and the scanner model from source TEXT; corollaries sub_assoc_value, mul_binds_tighter, chain_is_conjunction, and_short_circuits_error, and_rejects_nonbool, null_arith, div_exact, mod_spec, div_zero_error, int_result_iff_int_operands.",
    "C03": " The parameter names of the modelled built-ins are proved equal to the getArgNames table REGENERATED from functions.py on every run (C03Gen)."
           " The desugarings and the argument-evaluation step (C03Sugar): pipeline_desugars (`X !> f(A)` and `f(X, A)` parse to ASTs equal up to positions, for all token positions and rests; chains, lambdas, the rejected forms), pipeline_binds_first, method_call_passes_receiver (the receiver, not the owner found on the _proto_ chain; findOwner_iff incl. the cycle check; module objects and maps get no receiver; the five exact errors), evalArgs_spec (spread lists in order, spread sets sorted, spread maps in ascending key order as named arguments), call_frame_persists, successive_calls_fresh_frames, inner_call_keeps_caller_frames.",
    "C08": " Full round trip (C08Full): for NULL, booleans, ints, strings and lists, sets and maps of them nested to any depth (canonical form), the "
           "scanner on the rendered text yields the expected tokens (data_tokens'), parseScript yields the literal AST (roundtrip_parse), evaluating it "
           "yields a value that reifies to the original (roundtrip_eval), and the composition renders the same text again (roundtrip_text); mkSet / mkMap "
           "produce canonical form from any order (mkSet_isData', mkMap_isData')."
           " Decimals (C08Dec, 24 audited): IsDouble characterises the finite binary64 values exactly (nearestDouble_isDouble); decRepr_shape; nearestDouble_of_inside (round-to-nearest-even is correct on the whole rounding interval, subnormals and binade boundaries included); shortestDigits_found (the 17-digit search always succeeds); decRepr_roundtrip (float(repr(x)) = x), roundtrip_dec (both signs, through scanner and parser), decRepr_injective, roundtrip_eval_dec / roundtrip_text_list_dec (nested lists with decimals through print, scan, parse, evaluate, print), roundtrip_parse_dec (all container kinds through scanner and parser). Evaluator level (C08EvalAudit): string(v) and the result rendering equal render(reify v) (rrender_bridge, native_string_eq, string_set_perm).",
    "C09": " At the level of the evaluator model (C09Eval): NoEff (flag set, no effectful built-in value anywhere in frames or heap) is preserved by every "
           "evaluator function and by whole sessions (eval_preserves_noEff), no evaluator step writes the flag (secure_flag_constant), and secure-mode "
           "evaluation is independent of what the effectful built-ins would do (eval_indep_effectful: non-interference form of unreachability).",
    "C10": " Sessions keep their definitions (C10Sess): bindings_monotone (every binding of a frame survives evaluation, whatever the outcome), "
           "for_restores_value, session_bindings_persist, definition_survives_failed_call, prefix_effects_survive_failure, later_statements_do_not_run, "
           "failed_call_same_error_again, failed_remainder_never_ran, instances_independent; the `for` statement restores a variable hidden by its loop "
           "variable (for_cleanup_on_error, hiddenVars_spec; defect D24 repaired)."
           " Over source texts (C10EndToEnd): syntax_error_no_residue (a rejected text leaves the state exactly as it was), session_rejected_text_skipped, session_total, session_bindings_persist_src, definition_survives_failed_call_src, failed_call_same_error_again_src, modstack_empty_between_calls_src.",
    "C11": " `require` binds exactly the requested names (C11Bind): require_plain_binds_exactly, module_object_members, require_import_binds_exactly, "
           "require_unqualified_binds_exactly, module_scope_isolated, require_failure_binds_nothing, shared_instance, on top of the evaluator-wide "
           "invariant frames_extend.",
    "C13": " The driver's interpretation of 26 further built-ins (Driver/NativeSem.lean) is proved pure and therefore meets every hypothesis the flagship "
           "theorems put on the unmodelled built-ins (DriverNatives: driverNativeSem_pure, no_host_of_pure, nativeBalanced_of_pure, ...); it is compared "
           "with the implementation on argument sweeps."
           " Fuel is harmless (C13Fuel, 59 audited): eval_fuel_mono - simultaneously for all 30 evaluator functions and every loader, an outcome other than out-of-fuel is EXACTLY the same (value, error, final state) at every larger fuel; hence Terminates / EvalsTo with evalsTo_unique; while_true_diverges (out of fuel at every fuel) and one_plus_one_min_fuel show the predicate is not vacuous either way; c13_fuel_free: every program either diverges or has one fuel-independent outcome that is a value, a runtime error with an error value, a syntax failure or a model abstention - never a host failure. End to end (C13EndToEnd): interpret_no_host, runtime_error_catchable from source text.",
    "C14": " Literal spelling (C14Spell): decimal / hex / binary / underscored ints, single- vs double-quoted strings, != vs <> parse to the same literal / "
           "call (parseScript_int_spellings, quote_styles_scan, parse_ne_spelling), optional trailing semicolon and redundant parentheses for stable "
           "expression statements. The parser uses positions only by copying them (C14Parse: production_equivariant for all 49 productions, "
           "parse_pos_irrelevant, parse_layout_irrelevant from source text). Scanner tables REGENERATED from lexer.py on every run are proved equal to the "
           "model's (C14Gen: number_classes_agree, transitions_agree, string_twins_agree, ...). Evaluation does not depend on source positions "
           "(C14Eval: eval_pos_irrelevant through all 30 evaluator functions, session_pos_irrelevant, output_pos_irrelevant, erase_eval). End to end "
           "(C14EndToEnd): interpret_layout_irrelevant - white space, LF/CRLF or a comment inserted at a token boundary of the source text gives the "
           "same value, output, error value and message, or a syntax error with the same message."
           " Redundant parentheses and optional semicolons for ALL token lists (C14Parens): production_extends (all 51 productions: a production that succeeds keeps its result when a stopper token and anything else follows - the stopper set is derived from every look-ahead of the parser), parens_primary, paren_at_levels (operand position of every operator), paren_expr_stop (arguments, elements, right-hand sides, indices), paren_cond_stop, paren_statement_stop, parse_redundant_parens_general, trailing_semi_general (discharges trailing_semi_partial), interpret_parens_irrelevant, interpret_trailing_semi_irrelevant; the exceptions (a block followed by an operator, `-1` vs `-(1)`, `(a)` newline `(b)`, `;;`, dangling else) are stated as theorems or #guards."
           " Literal spelling ANYWHERE in a program (C14SpellAny, 28 audited): int_spelling_scan / int_spelling_tokens (two spellings of the same int - decimal with underscores, 0x either case, 0b - at a token boundary before a number terminator give token lists equal up to positions; the respelled token is on the same line), string_spelling_scan (either quote style, control characters raw or as \\\\xHH), interpret_int_spelling_anywhere / interpret_string_spelling_anywhere / interpret_spellEq (any number of spelling and layout changes: same value, output, error value and message); `!=` vs `<>` anywhere is proved at scanner level (ne_spelling_scan_anywhere) and end to end for a comparison of stable operands (interpret_ne_spelling_stable_partial) - the parser congruence over all productions is the stated gap, and the syntax-error MESSAGE quotes the token, so the claim can only be about programs that parse.",
    "C17": " date - date on exact millisecond stamps: (d + k) - d = k for dates with a time of day (diffDays_addDays), antisymmetry, truncation spec."
           " Evaluator level (C17Eval, 49 audited): date arithmetic is part of the evaluator model now (date + n, date - n, date - date, int(date), decimal(date), date(int), date('yyyymmdd[hh[mmss]]') in callPure / nativeAdd / nativeSub; validated on 42 500 generated programs, 0 disagreements where the model answers, 2.6 % abstentions); through callPure and through eval of the operator nodes, for every date 1900-01-01..9999-12-31 with a whole-millisecond time of day and every n with the result in the calendar: add_then_sub ((d + n) - n == d), add_then_diff ((d + n) - d == n), int_date_roundtrip, date_int_roundtrip, add_one_next_day, less_iff_int_less, and the exact errors outside the calendar, each derived from the C17 theorems about Model/Date.lean.",
    "C20": " Evaluator level (C20Eval): per construct the error carries the failing node's own position, errors propagate unchanged, a failing call adds "
           "exactly one trace entry with the call node's position, and every position in an outcome comes from an AST (error_pos_from_ast, "
           "value_pos_from_ast). Parser level (C14Parse): positions_from_tokens."
           " End to end (C20EndToEnd): interpret_error_line - for every source text a reported runtime-error position, every stack-trace entry and every syntax-error position with the given file name is the position of a token of that text, whose line is 1 + the number of line breaks before the token's start offset (or one of the explicitly listed exceptions: positions stored in the start state, module ASTs, unmodelled natives, `{}` with two default messages); error_in_module_code (the module file and a token of the module's text); session_error_line.",
}


GEN_TABLES = {"C02": "operator tables, expression tower and is-[not]-predicate twins of parser.py", "C03": "getArgNames of every built-in",
              "C09": "native table with secure flags, OS effects and instantiation guards", "C16": "ASTs of the bundled .ckl library functions", "C14": "scanner character classes, keywords and state graph",
              "C18": "ASTs of the string.ckl library functions", "C19": "ASTs of the bundled .ckl library functions"}


def main():
    props = [json.loads(l) for l in open(os.path.join(VERIF, "properties.jsonl"))]
    checks = []
    na = []
    for p in props:
        pid = p["id"]
        if pid in CLAIMED:
            ref, text, note = CLAIMED[pid]
            text = text + ADDENDA.get(pid, "")
            checks.append({
                "property_id": pid,
                "quick_cmd": f"./check {pid} quick",
                "thorough_cmd": f"./check {pid} thorough",
                "evidence_file": f"/verif/evidence/{pid}.json",
                "replay_cmd_template": f"./check {pid} --replay {{path}}",
                "engine": "lean4-model+correspondence",
                "level_claimed": {"category": "proof", "text": text, "design_ref": "DESIGN.md section " + ref},
                "level_note": "Trusted base T1-T6 of DESIGN.md section 3 (Lean kernel; axioms propext, Classical.choice, Quot.sound; CPython primitive "
                              "behaviour; the correspondence harness). " + note,
                "technique": "Lean 4 theorems over a hand-written executable model + differential correspondence check against the implementation"
                             + (" + theorems over definitions regenerated from the source by a translator on every run (lean/CklVerif/Gen/*.lean: "
                                + GEN_TABLES[pid] + ")" if pid in GEN_TABLES else ""),
            })
        else:
            na.append({"property_id": pid, "reason": PENDING.get(pid, "check not built yet in this session (model slice pending); see DESIGN.md section 9 for the order of work")})
    man = {
        "version": 1,
        "setup_cmd": "./check --setup",
        "hooks": {
            "guard": "CKL_VERIF",
            "enable": "no hooks are needed: every observation point is reachable from outside (parse_script, Interpreter.interpret, ckl.values, audit hooks)",
            "baseline_off_cmd": "cd /repo && /venv/bin/python -m pytest -ra -q -p no:cacheprovider --timeout=900 --continue-on-collection-errors",
            "source_commits": [],
            "add_only": True,
        },
        "engines": [{"name": "lean4-model+correspondence", "path": "/verif/lean", "serves_properties": sorted(CLAIMED),
                     "kind_free_text": "Lean 4.33 lake project (executable model, theorems, compiled line-protocol driver) + Python harness (/verif/check)"}],
        "checks": checks,
        "notes": "Genuine defects of the pinned tree were repaired by unguarded 'fix:' commits in /repo (see known_findings.json, DESIGN.md section 7).",
        "not_applicable": na,
    }
    with open(os.path.join(VERIF, "MANIFEST.json"), "w") as fh:
        json.dump(man, fh, indent=1)
    print("claimed", sorted(CLAIMED), "not claimed", [x["property_id"] for x in na])


if __name__ == "__main__":
    main()
