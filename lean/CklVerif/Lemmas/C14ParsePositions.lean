/-
  C14 / C20 (parser half) — the positions of an AST, `erase = mapPos (fun _ => default)`, and
  "a renaming that fixes the AST fixes each of its positions"  (generated case lists, one case per
  `Node` constructor).
-/
import CklVerif.Lemmas.C14ParseBase
import CklVerif.Lemmas.C02ParseDefs
namespace Ckl.C14P
open Ckl Ckl.Parser

set_option linter.unusedSimpArgs false
set_option linter.unusedVariables false

mutual
/-- all positions stored in an AST -/
def positions : Node → List Pos
  | .absent => []
  | .catchAll => []
  | .null p => [p]
  | .lit _ p => [p]
  | .ident _ p => [p]
  | .and es p => positionsL es ++ [p]
  | .or es p => positionsL es ++ [p]
  | .not e p => positions e ++ [p]
  | .assign _ e p => positions e ++ [p]
  | .assignD _ e p => positions e ++ [p]
  | .block es ce ch fin _ p => positionsL es ++ positionsL ce ++ positionsL ch ++ positionsL fin ++ [p]
  | .brk p => [p]
  | .cont p => [p]
  | .cls _ ms p => positionsL ms ++ [p]
  | .defn _ e _ p => positions e ++ [p]
  | .defD _ e _ p => positions e ++ [p]
  | .deref e i d p => positions e ++ positions i ++ positions d ++ [p]
  | .derefAssign e i v p => positions e ++ positions i ++ positions v ++ [p]
  | .derefInvoke o _ _ as p => positions o ++ positionsL as ++ [p]
  | .slice e a b p => positions e ++ positions a ++ positions b ++ [p]
  | .error e p => positions e ++ [p]
  | .for _ e b _ p => positions e ++ positions b ++ [p]
  | .call fn _ as p => positions fn ++ positionsL as ++ [p]
  | .ite cs es el p => positionsL cs ++ positionsL es ++ positions el ++ [p]
  | .isIn e c p => positions e ++ positions c ++ [p]
  | .lambda _ ds b p => positionsL ds ++ positions b ++ [p]
  | .list is p => positionsL is ++ [p]
  | .compr _ _ v ke _ l1 _ _ l2 _ c p => positions v ++ positions ke ++ positions l1 ++ positions l2 ++ positions c ++ [p]
  | .map ks vs p => positionsL ks ++ positionsL vs ++ [p]
  | .object _ vs p => positionsL vs ++ [p]
  | .require s _ _ _ p => positions s ++ [p]
  | .ret e p => positions e ++ [p]
  | .set is p => positionsL is ++ [p]
  | .spread e p => positions e ++ [p]
  | .while c b p => positions c ++ positions b ++ [p]
def positionsL : List Node → List Pos
  | [] => []
  | x :: xs => positions x ++ positionsL xs
end

mutual
/-- the position eraser of `C02ParseDefs` is the renaming that sends every position to `default` -/
theorem erase_eq_mapPos : (n : Node) → C02P.erase n = mapPos (fun _ => default) n
  | .absent => by simp only [C02P.erase, mapPos]
  | .catchAll => by simp only [C02P.erase, mapPos]
  | .null _ => by simp only [C02P.erase, mapPos]
  | .lit _ _ => by simp only [C02P.erase, mapPos]
  | .ident _ _ => by simp only [C02P.erase, mapPos]
  | .and es _ => by simp only [C02P.erase, mapPos, eraseL_eq_mapPosL es]
  | .or es _ => by simp only [C02P.erase, mapPos, eraseL_eq_mapPosL es]
  | .not e _ => by simp only [C02P.erase, mapPos, erase_eq_mapPos e]
  | .assign _ e _ => by simp only [C02P.erase, mapPos, erase_eq_mapPos e]
  | .assignD _ e _ => by simp only [C02P.erase, mapPos, erase_eq_mapPos e]
  | .block es ce ch fin _ _ => by simp only [C02P.erase, mapPos, eraseL_eq_mapPosL es, eraseL_eq_mapPosL ce, eraseL_eq_mapPosL ch, eraseL_eq_mapPosL fin]
  | .brk _ => by simp only [C02P.erase, mapPos]
  | .cont _ => by simp only [C02P.erase, mapPos]
  | .cls _ ms _ => by simp only [C02P.erase, mapPos, eraseL_eq_mapPosL ms]
  | .defn _ e _ _ => by simp only [C02P.erase, mapPos, erase_eq_mapPos e]
  | .defD _ e _ _ => by simp only [C02P.erase, mapPos, erase_eq_mapPos e]
  | .deref e i d _ => by simp only [C02P.erase, mapPos, erase_eq_mapPos e, erase_eq_mapPos i, erase_eq_mapPos d]
  | .derefAssign e i v _ => by simp only [C02P.erase, mapPos, erase_eq_mapPos e, erase_eq_mapPos i, erase_eq_mapPos v]
  | .derefInvoke o _ _ as _ => by simp only [C02P.erase, mapPos, erase_eq_mapPos o, eraseL_eq_mapPosL as]
  | .slice e a b _ => by simp only [C02P.erase, mapPos, erase_eq_mapPos e, erase_eq_mapPos a, erase_eq_mapPos b]
  | .error e _ => by simp only [C02P.erase, mapPos, erase_eq_mapPos e]
  | .for _ e b _ _ => by simp only [C02P.erase, mapPos, erase_eq_mapPos e, erase_eq_mapPos b]
  | .call fn _ as _ => by simp only [C02P.erase, mapPos, erase_eq_mapPos fn, eraseL_eq_mapPosL as]
  | .ite cs es el _ => by simp only [C02P.erase, mapPos, eraseL_eq_mapPosL cs, eraseL_eq_mapPosL es, erase_eq_mapPos el]
  | .isIn e c _ => by simp only [C02P.erase, mapPos, erase_eq_mapPos e, erase_eq_mapPos c]
  | .lambda _ ds b _ => by simp only [C02P.erase, mapPos, eraseL_eq_mapPosL ds, erase_eq_mapPos b]
  | .list is _ => by simp only [C02P.erase, mapPos, eraseL_eq_mapPosL is]
  | .compr _ _ v ke _ l1 _ _ l2 _ c _ => by simp only [C02P.erase, mapPos, erase_eq_mapPos v, erase_eq_mapPos ke, erase_eq_mapPos l1, erase_eq_mapPos l2, erase_eq_mapPos c]
  | .map ks vs _ => by simp only [C02P.erase, mapPos, eraseL_eq_mapPosL ks, eraseL_eq_mapPosL vs]
  | .object _ vs _ => by simp only [C02P.erase, mapPos, eraseL_eq_mapPosL vs]
  | .require s _ _ _ _ => by simp only [C02P.erase, mapPos, erase_eq_mapPos s]
  | .ret e _ => by simp only [C02P.erase, mapPos, erase_eq_mapPos e]
  | .set is _ => by simp only [C02P.erase, mapPos, eraseL_eq_mapPosL is]
  | .spread e _ => by simp only [C02P.erase, mapPos, erase_eq_mapPos e]
  | .while c b _ => by simp only [C02P.erase, mapPos, erase_eq_mapPos c, erase_eq_mapPos b]
theorem eraseL_eq_mapPosL : (l : List Node) → C02P.eraseL l = mapPosL (fun _ => default) l
  | [] => rfl
  | x :: xs => by simp only [C02P.eraseL, mapPosL, erase_eq_mapPos x, eraseL_eq_mapPosL xs]
end

mutual
/-- if renaming by `f` leaves the AST unchanged then `f` fixes every position of the AST -/
theorem positions_fixed (f : Pos → Pos) : (n : Node) → mapPos f n = n → ∀ q ∈ positions n, f q = q
  | .absent => by intro _ q hp; simp [positions] at hp
  | .catchAll => by intro _ q hp; simp [positions] at hp
  | .null p => by
    intro h q hp
    simp only [mapPos, Node.null.injEq, true_and, and_true] at h
    have h_p := h
    simp only [positions, List.mem_append, List.mem_singleton] at hp
    rw [hp]; exact h_p
  | .lit _ p => by
    intro h q hp
    simp only [mapPos, Node.lit.injEq, true_and, and_true] at h
    have h_p := h
    simp only [positions, List.mem_append, List.mem_singleton] at hp
    rw [hp]; exact h_p
  | .ident _ p => by
    intro h q hp
    simp only [mapPos, Node.ident.injEq, true_and, and_true] at h
    have h_p := h
    simp only [positions, List.mem_append, List.mem_singleton] at hp
    rw [hp]; exact h_p
  | .and es p => by
    intro h q hp
    simp only [mapPos, Node.and.injEq, true_and, and_true] at h
    obtain ⟨h_es, h_p⟩ := h
    simp only [positions, List.mem_append, List.mem_singleton] at hp
    rcases hp with hp | hp
    · exact positionsL_fixed f es h_es q hp
    · rw [hp]; exact h_p
  | .or es p => by
    intro h q hp
    simp only [mapPos, Node.or.injEq, true_and, and_true] at h
    obtain ⟨h_es, h_p⟩ := h
    simp only [positions, List.mem_append, List.mem_singleton] at hp
    rcases hp with hp | hp
    · exact positionsL_fixed f es h_es q hp
    · rw [hp]; exact h_p
  | .not e p => by
    intro h q hp
    simp only [mapPos, Node.not.injEq, true_and, and_true] at h
    obtain ⟨h_e, h_p⟩ := h
    simp only [positions, List.mem_append, List.mem_singleton] at hp
    rcases hp with hp | hp
    · exact positions_fixed f e h_e q hp
    · rw [hp]; exact h_p
  | .assign _ e p => by
    intro h q hp
    simp only [mapPos, Node.assign.injEq, true_and, and_true] at h
    obtain ⟨h_e, h_p⟩ := h
    simp only [positions, List.mem_append, List.mem_singleton] at hp
    rcases hp with hp | hp
    · exact positions_fixed f e h_e q hp
    · rw [hp]; exact h_p
  | .assignD _ e p => by
    intro h q hp
    simp only [mapPos, Node.assignD.injEq, true_and, and_true] at h
    obtain ⟨h_e, h_p⟩ := h
    simp only [positions, List.mem_append, List.mem_singleton] at hp
    rcases hp with hp | hp
    · exact positions_fixed f e h_e q hp
    · rw [hp]; exact h_p
  | .block es ce ch fin _ p => by
    intro h q hp
    simp only [mapPos, Node.block.injEq, true_and, and_true] at h
    obtain ⟨h_es, h_ce, h_ch, h_fin, h_p⟩ := h
    simp only [positions, List.mem_append, List.mem_singleton] at hp
    rcases hp with (((hp | hp) | hp) | hp) | hp
    · exact positionsL_fixed f es h_es q hp
    · exact positionsL_fixed f ce h_ce q hp
    · exact positionsL_fixed f ch h_ch q hp
    · exact positionsL_fixed f fin h_fin q hp
    · rw [hp]; exact h_p
  | .brk p => by
    intro h q hp
    simp only [mapPos, Node.brk.injEq, true_and, and_true] at h
    have h_p := h
    simp only [positions, List.mem_append, List.mem_singleton] at hp
    rw [hp]; exact h_p
  | .cont p => by
    intro h q hp
    simp only [mapPos, Node.cont.injEq, true_and, and_true] at h
    have h_p := h
    simp only [positions, List.mem_append, List.mem_singleton] at hp
    rw [hp]; exact h_p
  | .cls _ ms p => by
    intro h q hp
    simp only [mapPos, Node.cls.injEq, true_and, and_true] at h
    obtain ⟨h_ms, h_p⟩ := h
    simp only [positions, List.mem_append, List.mem_singleton] at hp
    rcases hp with hp | hp
    · exact positionsL_fixed f ms h_ms q hp
    · rw [hp]; exact h_p
  | .defn _ e _ p => by
    intro h q hp
    simp only [mapPos, Node.defn.injEq, true_and, and_true] at h
    obtain ⟨h_e, h_p⟩ := h
    simp only [positions, List.mem_append, List.mem_singleton] at hp
    rcases hp with hp | hp
    · exact positions_fixed f e h_e q hp
    · rw [hp]; exact h_p
  | .defD _ e _ p => by
    intro h q hp
    simp only [mapPos, Node.defD.injEq, true_and, and_true] at h
    obtain ⟨h_e, h_p⟩ := h
    simp only [positions, List.mem_append, List.mem_singleton] at hp
    rcases hp with hp | hp
    · exact positions_fixed f e h_e q hp
    · rw [hp]; exact h_p
  | .deref e i d p => by
    intro h q hp
    simp only [mapPos, Node.deref.injEq, true_and, and_true] at h
    obtain ⟨h_e, h_i, h_d, h_p⟩ := h
    simp only [positions, List.mem_append, List.mem_singleton] at hp
    rcases hp with ((hp | hp) | hp) | hp
    · exact positions_fixed f e h_e q hp
    · exact positions_fixed f i h_i q hp
    · exact positions_fixed f d h_d q hp
    · rw [hp]; exact h_p
  | .derefAssign e i v p => by
    intro h q hp
    simp only [mapPos, Node.derefAssign.injEq, true_and, and_true] at h
    obtain ⟨h_e, h_i, h_v, h_p⟩ := h
    simp only [positions, List.mem_append, List.mem_singleton] at hp
    rcases hp with ((hp | hp) | hp) | hp
    · exact positions_fixed f e h_e q hp
    · exact positions_fixed f i h_i q hp
    · exact positions_fixed f v h_v q hp
    · rw [hp]; exact h_p
  | .derefInvoke o _ _ as p => by
    intro h q hp
    simp only [mapPos, Node.derefInvoke.injEq, true_and, and_true] at h
    obtain ⟨h_o, h_as, h_p⟩ := h
    simp only [positions, List.mem_append, List.mem_singleton] at hp
    rcases hp with (hp | hp) | hp
    · exact positions_fixed f o h_o q hp
    · exact positionsL_fixed f as h_as q hp
    · rw [hp]; exact h_p
  | .slice e a b p => by
    intro h q hp
    simp only [mapPos, Node.slice.injEq, true_and, and_true] at h
    obtain ⟨h_e, h_a, h_b, h_p⟩ := h
    simp only [positions, List.mem_append, List.mem_singleton] at hp
    rcases hp with ((hp | hp) | hp) | hp
    · exact positions_fixed f e h_e q hp
    · exact positions_fixed f a h_a q hp
    · exact positions_fixed f b h_b q hp
    · rw [hp]; exact h_p
  | .error e p => by
    intro h q hp
    simp only [mapPos, Node.error.injEq, true_and, and_true] at h
    obtain ⟨h_e, h_p⟩ := h
    simp only [positions, List.mem_append, List.mem_singleton] at hp
    rcases hp with hp | hp
    · exact positions_fixed f e h_e q hp
    · rw [hp]; exact h_p
  | .for _ e b _ p => by
    intro h q hp
    simp only [mapPos, Node.for.injEq, true_and, and_true] at h
    obtain ⟨h_e, h_b, h_p⟩ := h
    simp only [positions, List.mem_append, List.mem_singleton] at hp
    rcases hp with (hp | hp) | hp
    · exact positions_fixed f e h_e q hp
    · exact positions_fixed f b h_b q hp
    · rw [hp]; exact h_p
  | .call fn _ as p => by
    intro h q hp
    simp only [mapPos, Node.call.injEq, true_and, and_true] at h
    obtain ⟨h_fn, h_as, h_p⟩ := h
    simp only [positions, List.mem_append, List.mem_singleton] at hp
    rcases hp with (hp | hp) | hp
    · exact positions_fixed f fn h_fn q hp
    · exact positionsL_fixed f as h_as q hp
    · rw [hp]; exact h_p
  | .ite cs es el p => by
    intro h q hp
    simp only [mapPos, Node.ite.injEq, true_and, and_true] at h
    obtain ⟨h_cs, h_es, h_el, h_p⟩ := h
    simp only [positions, List.mem_append, List.mem_singleton] at hp
    rcases hp with ((hp | hp) | hp) | hp
    · exact positionsL_fixed f cs h_cs q hp
    · exact positionsL_fixed f es h_es q hp
    · exact positions_fixed f el h_el q hp
    · rw [hp]; exact h_p
  | .isIn e c p => by
    intro h q hp
    simp only [mapPos, Node.isIn.injEq, true_and, and_true] at h
    obtain ⟨h_e, h_c, h_p⟩ := h
    simp only [positions, List.mem_append, List.mem_singleton] at hp
    rcases hp with (hp | hp) | hp
    · exact positions_fixed f e h_e q hp
    · exact positions_fixed f c h_c q hp
    · rw [hp]; exact h_p
  | .lambda _ ds b p => by
    intro h q hp
    simp only [mapPos, Node.lambda.injEq, true_and, and_true] at h
    obtain ⟨h_ds, h_b, h_p⟩ := h
    simp only [positions, List.mem_append, List.mem_singleton] at hp
    rcases hp with (hp | hp) | hp
    · exact positionsL_fixed f ds h_ds q hp
    · exact positions_fixed f b h_b q hp
    · rw [hp]; exact h_p
  | .list is p => by
    intro h q hp
    simp only [mapPos, Node.list.injEq, true_and, and_true] at h
    obtain ⟨h_is, h_p⟩ := h
    simp only [positions, List.mem_append, List.mem_singleton] at hp
    rcases hp with hp | hp
    · exact positionsL_fixed f is h_is q hp
    · rw [hp]; exact h_p
  | .compr _ _ v ke _ l1 _ _ l2 _ c p => by
    intro h q hp
    simp only [mapPos, Node.compr.injEq, true_and, and_true] at h
    obtain ⟨h_v, h_ke, h_l1, h_l2, h_c, h_p⟩ := h
    simp only [positions, List.mem_append, List.mem_singleton] at hp
    rcases hp with ((((hp | hp) | hp) | hp) | hp) | hp
    · exact positions_fixed f v h_v q hp
    · exact positions_fixed f ke h_ke q hp
    · exact positions_fixed f l1 h_l1 q hp
    · exact positions_fixed f l2 h_l2 q hp
    · exact positions_fixed f c h_c q hp
    · rw [hp]; exact h_p
  | .map ks vs p => by
    intro h q hp
    simp only [mapPos, Node.map.injEq, true_and, and_true] at h
    obtain ⟨h_ks, h_vs, h_p⟩ := h
    simp only [positions, List.mem_append, List.mem_singleton] at hp
    rcases hp with (hp | hp) | hp
    · exact positionsL_fixed f ks h_ks q hp
    · exact positionsL_fixed f vs h_vs q hp
    · rw [hp]; exact h_p
  | .object _ vs p => by
    intro h q hp
    simp only [mapPos, Node.object.injEq, true_and, and_true] at h
    obtain ⟨h_vs, h_p⟩ := h
    simp only [positions, List.mem_append, List.mem_singleton] at hp
    rcases hp with hp | hp
    · exact positionsL_fixed f vs h_vs q hp
    · rw [hp]; exact h_p
  | .require s _ _ _ p => by
    intro h q hp
    simp only [mapPos, Node.require.injEq, true_and, and_true] at h
    obtain ⟨h_s, h_p⟩ := h
    simp only [positions, List.mem_append, List.mem_singleton] at hp
    rcases hp with hp | hp
    · exact positions_fixed f s h_s q hp
    · rw [hp]; exact h_p
  | .ret e p => by
    intro h q hp
    simp only [mapPos, Node.ret.injEq, true_and, and_true] at h
    obtain ⟨h_e, h_p⟩ := h
    simp only [positions, List.mem_append, List.mem_singleton] at hp
    rcases hp with hp | hp
    · exact positions_fixed f e h_e q hp
    · rw [hp]; exact h_p
  | .set is p => by
    intro h q hp
    simp only [mapPos, Node.set.injEq, true_and, and_true] at h
    obtain ⟨h_is, h_p⟩ := h
    simp only [positions, List.mem_append, List.mem_singleton] at hp
    rcases hp with hp | hp
    · exact positionsL_fixed f is h_is q hp
    · rw [hp]; exact h_p
  | .spread e p => by
    intro h q hp
    simp only [mapPos, Node.spread.injEq, true_and, and_true] at h
    obtain ⟨h_e, h_p⟩ := h
    simp only [positions, List.mem_append, List.mem_singleton] at hp
    rcases hp with hp | hp
    · exact positions_fixed f e h_e q hp
    · rw [hp]; exact h_p
  | .while c b p => by
    intro h q hp
    simp only [mapPos, Node.while.injEq, true_and, and_true] at h
    obtain ⟨h_c, h_b, h_p⟩ := h
    simp only [positions, List.mem_append, List.mem_singleton] at hp
    rcases hp with (hp | hp) | hp
    · exact positions_fixed f c h_c q hp
    · exact positions_fixed f b h_b q hp
    · rw [hp]; exact h_p
theorem positionsL_fixed (f : Pos → Pos) : (l : List Node) → mapPosL f l = l → ∀ q ∈ positionsL l, f q = q
  | [] => by intro _ q hp; simp [positionsL] at hp
  | x :: xs => by
    intro h q hp
    simp only [mapPosL, List.cons.injEq] at h
    simp only [positionsL, List.mem_append] at hp
    rcases hp with hp | hp
    · exact positions_fixed f x h.1 q hp
    · exact positionsL_fixed f xs h.2 q hp
end

end Ckl.C14P
