import CklVerif.Lemmas.C19SrcChunksBodyL2

/-! C19Src (worker L2) — core.ckl `chunks` on a STRING: the `is_string` branch (`substr`, the last chunk is `obj` itself) -/
namespace Ckl.C19Src
open Ckl Ckl.C03 Ckl.Gen.LibSrc
variable (ld : Loader)

def chunksStrNats : List String := chunksNats ++ ["substr"]
def chunksStrSrcs : List (String × Node) := [("is_list", type_is_list), ("is_string", type_is_string)]

theorem chunksStrNats_chunks {nats : List String} (hn : ∀ x ∈ chunksStrNats, x ∈ nats) : ∀ x ∈ chunksNats, x ∈ nats :=
  fun x hx => hn x (by simp [chunksStrNats, hx])

/-! ### built-ins on strings -/

theorem substr3_L2 (xs : List Char) (i j : Int) (d : Option RVal) (pos : Pos) (s : State) :
    ∃ m, callPure "substr" [("str", .str xs), ("startidx", .int i), ("endidx", .int j)] d pos = some m ∧
      m s = .ok (.str (Seq.substr xs i (some j))) s := by
  refine ⟨_, rfl, ?_⟩
  simp [argGet, dictGet, dictHas, RVal.isNull, EvalM.bind_apply, EvalM.pure_apply]

theorem substr2_L2 (xs : List Char) (i : Int) (d : Option RVal) (pos : Pos) (s : State) :
    ∃ m, callPure "substr" [("str", .str xs), ("startidx", .int i)] d pos = some m ∧
      m s = .ok (.str (Seq.substr xs i none)) s := by
  refine ⟨_, rfl, ?_⟩
  simp [argGet, dictGet, dictHas, RVal.isNull, EvalM.bind_apply, EvalM.pure_apply]

theorem length_str_L2 (xs : List Char) (d : Option RVal) (pos : Pos) (s : State) :
    ∃ m, callPure "length" [("obj", .str xs)] d pos = some m ∧ m s = .ok (.int xs.length) s := by
  refine ⟨_, rfl, ?_⟩
  simp [argGet, dictGet, EvalM.bind_apply, EvalM.pure_apply]

/-- `is_string` (the library function) on a string -/
theorem is_string_calls_str_L2 {s : State} {M nats srcs fn m} (h : LibEnv s M nats srcs) (hn : ∀ x ∈ typeNats, x ∈ nats)
    (hm : M m) (hsrc : IsSrc s fn type_is_string m) (cs : List Char) :
    ∃ s', Ext s s' ∧ ∀ env pos, Calls ld 7 fn [("obj", .str cs)] env pos s (.ok (.bool true) s') := by
  have := typeTest_calls ld (src := type_is_string) rfl rfl rfl h hn hm hsrc (.str cs)
  have ht : ((typeName s (.str cs)).toList == ['s', 't', 'r', 'i', 'n', 'g']) = true := by
    simp only [typeName]; decide
  rwa [ht] at this

/-! ### the loop -/

structure ChSInv_L2 (s : State) (c m : EnvId) (b : Nat) (k : Int) (xs : List Char) (st : State) (rem : List Char)
    (done : List (List Char)) : Prop where
  ext : Ext s st
  parent : (st.frame c).parent = some m
  clt : c < st.frames.size
  vars : (st.frame c).vars = [("obj", .str rem), ("chunk_size", .int k), ("result", .ref b)]
  cellb : st.cell b = some (.list (done.map .str))
  bge : s.heap.size ≤ b
  eqn : done ++ Lib.chunksGo k.toNat rem = Lib.chunksGo k.toNat xs

def chSMu_L2 (c : EnvId) (st : State) : Nat :=
  match dictGet "obj" (st.frame c).vars with
  | some (.str r) => r.length
  | _ => 0

theorem chSMu_eq_L2 {s : State} {c m : EnvId} {b : Nat} {k : Int} {xs : List Char} {st : State} {rem : List Char}
    {done : List (List Char)} (inv : ChSInv_L2 s c m b k xs st rem done) : chSMu_L2 c st = rem.length := by
  simp [chSMu_L2, inv.vars, dictGet]

/-- one iteration of `do result !> append(obj !> substr(0, chunk_size)); obj = obj !> substr(chunk_size); end` -/
theorem chunksS_step_L2 {s st : State} {M nats srcs m} {b : Nat} {k : Int} {xs rem : List Char}
    {done : List (List Char)} (h : LibEnv s M nats srcs) (hm : M m) (hn : ∀ x ∈ chunksStrNats, x ∈ nats) (hk : 0 < k)
    (inv : ChSInv_L2 s s.frames.size m b k xs st rem done) (hlen : k.toNat < rem.length)
    (p1 p2 p3 p4 p5 p6 p7 p8 q1 q2 q3 q4 q5 wp : Pos) (bb : Bool) :
    ∃ r st', Ev ld 11 s.frames.size
        (.block [.call (.ident "append" p1) [none, none] [.ident "result" p2,
            .call (.ident "substr" p3) [none, none, none] [.ident "obj" p4, .lit (.int 0) p5, .ident "chunk_size" p6] p7] p8,
          .assign "obj" (.call (.ident "substr" q1) [none, none] [.ident "obj" q2, .ident "chunk_size" q3] q4) q5]
          [] [] [] bb wp) st (.ok r st') ∧ isCtl r = false ∧
      ChSInv_L2 s s.frames.size m b k xs st' (rem.drop k.toNat) (done ++ [rem.take k.toNat]) := by
  have hcge : s.frames.size ≤ s.frames.size := Nat.le_refl _
  have hkn : ((k.toNat : Nat) : Int) = k := Int.toNat_of_nonneg (by omega)
  have hknpos : 0 < k.toNat := by omega
  have hblt : b < st.heap.size := cell_lt inv.cellb
  have ctx0 : Ctx (ghostEnter st wp) M nats srcs s.frames.size m [("obj", .str rem), ("chunk_size", .int k), ("result", .ref b)] :=
    Ctx.ofExt h hm (inv.ext.ghostEnter _) inv.vars inv.parent inv.clt
  have htake : Seq.substr rem 0 (some k) = rem.take k.toNat := by
    rw [← hkn]; exact C19.substr_zero_eq_take rem k.toNat (by omega)
  have hdrop : Seq.substr rem k none = rem.drop k.toNat := by
    rw [← hkn]; exact C19.substr_eq_drop rem k.toNat (by omega)
  obtain ⟨j1, hlsub⟩ := ctx0.nat (x := "substr") (hn _ (by decide)) (by rfl)
  obtain ⟨j2, hlapp⟩ := ctx0.nat (x := "append") (hn _ (by decide)) (by rfl)
  obtain ⟨mm1, hm11, hm12⟩ := substr3_L2 rem 0 k (div0Value (ghostEnter st wp) s.frames.size) p7 (ghostEnter st wp)
  rw [htake] at hm12
  have A1 := Ev.nat3 ld (k := 0) (p := p3) (pos := p7) hlsub (by rfl) (by decide) (by decide) (by decide) (by decide)
    (by trivial) (by trivial) (by trivial)
    (Ev.ident ld (p := p4) (ctx0.var (x := "obj") (by rfl))) (Ev.litInt ld (p := p5) (n := 0))
    (Ev.ident ld (p := p6) (ctx0.var (x := "chunk_size") (by rfl))) hm11 hm12
  rw [wrapCall_ok] at A1
  obtain ⟨mm2, hm21, hm22⟩ := append_list b (done.map .str) (.str (rem.take k.toNat))
    (div0Value (ghostEnter st wp) s.frames.size) p8 (ghostEnter st wp) inv.cellb
  have A2 := Ev.nat2 ld (k := 5) (p := p1) (pos := p8) hlapp (by rfl) (by decide) (by decide) (by trivial) (by trivial)
    (Ev.ident ld (p := p2) (ctx0.var (x := "result") (by rfl))) A1 hm21 hm22
  rw [wrapCall_ok] at A2
  generalize ht2 : ((ghostEnter st wp).setCell b (.list (done.map RVal.str ++ [.str (rem.take k.toNat)]))) = t2 at A2
  have E2 : Ext s t2 := by rw [← ht2]; exact (inv.ext.ghostEnter _).setCell inv.bge _
  have hfr2 : t2.frame s.frames.size = st.frame s.frames.size := by rw [← ht2]; rfl
  have hfs2 : t2.frames.size = st.frames.size := by rw [← ht2]; rfl
  have ctx2 : Ctx t2 M nats srcs s.frames.size m [("obj", .str rem), ("chunk_size", .int k), ("result", .ref b)] :=
    Ctx.ofExt h hm E2 (by rw [hfr2]; exact inv.vars) (by rw [hfr2]; exact inv.parent) (by rw [hfs2]; exact inv.clt)
  obtain ⟨j3, hlsub2⟩ := ctx2.nat (x := "substr") (hn _ (by decide)) (by rfl)
  obtain ⟨mm3, hm31, hm32⟩ := substr2_L2 rem k (div0Value t2 s.frames.size) q4 t2
  rw [hdrop] at hm32
  have A3 := Ev.nat2 ld (k := 0) (p := q1) (pos := q4) hlsub2 (by rfl) (by decide) (by decide) (by trivial) (by trivial)
    (Ev.ident ld (p := q2) (ctx2.var (x := "obj") (by rfl))) (Ev.ident ld (p := q3) (ctx2.var (x := "chunk_size") (by rfl)))
    hm31 hm32
  rw [wrapCall_ok] at A3
  have hdef : t2.isDefined s.frames.size "obj" = true := by
    unfold State.isDefined; rw [ctx2.var (x := "obj") (by rfl)]; rfl
  have A4 := Ev.assignLocal ld (k := 4) (pos := q5) hdef A3 (by rw [hfr2, inv.vars]; rfl)
  refine ⟨_, _, Ev.block ld (b := bb) (pos := wp)
    (EvBody.cons ld A2 rfl (EvBody.cons ld (Ev.mono ld A4 (by decide)) rfl (EvBody.nil ld))), rfl, ?_⟩
  have hgf : ∀ (X : State) a, (ghostFin X wp).cell a = X.cell a := fun _ _ => rfl
  have hgfr : ∀ (X : State) e, (ghostFin X wp).frame e = X.frame e := fun _ _ => rfl
  have hgfs : ∀ (X : State), (ghostFin X wp).frames.size = X.frames.size := fun _ => rfl
  have hclt2 : s.frames.size < t2.frames.size := by rw [hfs2]; exact inv.clt
  refine ⟨((E2.put hcge _ _)).ghostFin _, ?_, ?_, ?_, ?_, inv.bge, ?_⟩
  · rw [hgfr, parent_put, hfr2]; exact inv.parent
  · rw [hgfs, frames_size_put]; exact hclt2
  · rw [hgfr, vars_put_same _ _ _ hclt2, hfr2, inv.vars]; simp [dictPut]
  · rw [hgf, cell_put, ← ht2, cell_setCell_same _ _ (show b < (ghostEnter st wp).heap.size from hblt)]; simp
  · rw [← inv.eqn, chunksGo_step_L2 k.toNat rem hknpos hlen]; simp

/-- the string branch: `do while … end; result !> append(obj); end` -/
theorem chunksS_strBlock_L2 {s st : State} {M nats srcs m} {b : Nat} {k : Int} {xs : List Char}
    (h : LibEnv s M nats srcs) (hm : M m) (hn : ∀ x ∈ chunksStrNats, x ∈ nats) (hk : 0 < k)
    (inv : ChSInv_L2 s s.frames.size m b k xs st xs [])
    (c1 c2 c3 c4 c5 c6 p1 p2 p3 p4 p5 p6 p7 p8 q1 q2 q3 q4 q5 wp lp f1 f2 f3 f4 bp2 : Pos) (bb bb2 : Bool) :
    ∃ r st', Ev ld (2 * xs.length + 17) s.frames.size
        (.block [.while (.call (.ident "greater" c1) [some "a", some "b"]
            [.call (.ident "length" c2) [none] [.ident "obj" c3] c4, .ident "chunk_size" c5] c6)
          (.block [.call (.ident "append" p1) [none, none] [.ident "result" p2,
              .call (.ident "substr" p3) [none, none, none] [.ident "obj" p4, .lit (.int 0) p5, .ident "chunk_size" p6] p7] p8,
            .assign "obj" (.call (.ident "substr" q1) [none, none] [.ident "obj" q2, .ident "chunk_size" q3] q4) q5]
            [] [] [] bb wp) lp,
          .call (.ident "append" f1) [none, none] [.ident "result" f2, .ident "obj" f3] f4] [] [] [] bb2 bp2)
        st (.ok r st') ∧ isCtl r = false ∧ Ext s st' ∧ (st'.frame s.frames.size).parent = some m ∧
      dictGet "result" (st'.frame s.frames.size).vars = some (.ref b) ∧
      st'.cell b = some (.list ((Lib.chunksGo k.toNat xs).map .str)) := by
  have hkn : ((k.toNat : Nat) : Int) = k := Int.toNat_of_nonneg (by omega)
  have inv0 : ChSInv_L2 s s.frames.size m b k xs (ghostEnter st bp2) xs [] :=
    ⟨inv.ext.ghostEnter _, inv.parent, inv.clt, inv.vars, inv.cellb, inv.bge, inv.eqn⟩
  -- the loop
  obtain ⟨r1, t1, ⟨hctl1, rem, done, inv1, hle⟩, hW⟩ := Ev.whilePost_L2 ld (kc := 7) (kb := 11) (env := s.frames.size)
    (pos := lp)
    (c := .call (.ident "greater" c1) [some "a", some "b"]
            [.call (.ident "length" c2) [none] [.ident "obj" c3] c4, .ident "chunk_size" c5] c6)
    (body := .block [.call (.ident "append" p1) [none, none] [.ident "result" p2,
              .call (.ident "substr" p3) [none, none, none] [.ident "obj" p4, .lit (.int 0) p5, .ident "chunk_size" p6] p7] p8,
            .assign "obj" (.call (.ident "substr" q1) [none, none] [.ident "obj" q2, .ident "chunk_size" q3] q4) q5]
            [] [] [] bb wp)
    (fun r st => isCtl r = false ∧ ∃ rem done, ChSInv_L2 s s.frames.size m b k xs st rem done)
    (fun r st => isCtl r = false ∧ ∃ rem done, ChSInv_L2 s s.frames.size m b k xs st rem done ∧ rem.length ≤ k.toNat)
    (chSMu_L2 s.frames.size)
    (by
      intro r st ⟨hctl, rem, done, inv⟩
      have ctx : Ctx st M nats srcs s.frames.size m [("obj", .str rem), ("chunk_size", .int k), ("result", .ref b)] :=
        Ctx.ofExt h hm inv.ext inv.vars inv.parent inv.clt
      obtain ⟨i1, hlen⟩ := ctx.nat (x := "length") (hn _ (by decide)) (by rfl)
      obtain ⟨i2, hgt⟩ := ctx.nat (x := "greater") (hn _ (by decide)) (by rfl)
      obtain ⟨mm, hm1, hm2⟩ := length_str_L2 rem (div0Value st s.frames.size) c4 st
      have A1 := Ev.nat1 ld (k := 0) (p := c2) (pos := c4) hlen (by rfl) (by decide) (by trivial)
        (Ev.ident ld (p := c3) (ctx.var (x := "obj") (by rfl))) hm1 hm2
      rw [wrapCall_ok] at A1
      obtain ⟨mm', hm1', hm2'⟩ := greater_int_L2 rem.length k (div0Value st s.frames.size) c6 st
      have A2 := Ev.natAB ld (k := 3) (p := c1) (pos := c6) hgt (by rfl) (by trivial) (by trivial)
        A1 (Ev.ident ld (p := c5) (ctx.var (x := "chunk_size") (by rfl))) hm1' hm2'
      rw [wrapCall_ok] at A2
      refine ⟨_, st, A2, ?_, ?_⟩
      · intro hb
        have : ¬ (k < (rem.length : Int)) := by simpa using hb
        exact ⟨hctl, rem, done, inv, by omega⟩
      · intro hb
        have hlt : k < (rem.length : Int) := by simpa using hb
        obtain ⟨r', st', hev, hctl', inv'⟩ := chunksS_step_L2 ld h hm hn hk inv (by omega)
          p1 p2 p3 p4 p5 p6 p7 p8 q1 q2 q3 q4 q5 wp bb
        refine ⟨r', st', hev, hctl', ⟨hctl', _, _, inv'⟩, ?_⟩
        rw [chSMu_eq_L2 inv', chSMu_eq_L2 inv, List.length_drop]; omega)
    (ghostEnter st bp2) ⟨rfl, xs, [], inv0⟩
  rw [chSMu_eq_L2 inv0] at hW
  -- the final `append(result, obj)`
  have ctx1 : Ctx t1 M nats srcs s.frames.size m [("obj", .str rem), ("chunk_size", .int k), ("result", .ref b)] :=
    Ctx.ofExt h hm inv1.ext inv1.vars inv1.parent inv1.clt
  have hblt : b < t1.heap.size := cell_lt inv1.cellb
  obtain ⟨j2, hlapp⟩ := ctx1.nat (x := "append") (hn _ (by decide)) (by rfl)
  obtain ⟨mm2, hm21, hm22⟩ := append_list b (done.map .str) (.str rem) (div0Value t1 s.frames.size) f4 t1 inv1.cellb
  have A2 := Ev.nat2 ld (k := 0) (p := f1) (pos := f4) hlapp (by rfl) (by decide) (by decide) (by trivial) (by trivial)
    (Ev.ident ld (p := f2) (ctx1.var (x := "result") (by rfl))) (Ev.ident ld (p := f3) (ctx1.var (x := "obj") (by rfl)))
    hm21 hm22
  rw [wrapCall_ok] at A2
  refine ⟨_, _, Ev.mono ld (Ev.block ld (b := bb2) (pos := bp2)
    (EvBody.cons ld (Ev.mono ld hW (show max 7 11 + 2 * xs.length + 3 ≤ 2 * xs.length + 15 by omega)) hctl1
      (EvBody.cons ld (Ev.mono ld A2 (show 0 + 4 ≤ 2 * xs.length + 14 by omega)) rfl (EvBody.nil ld)))) (by omega), rfl,
    (inv1.ext.setCell inv1.bge _).ghostFin _, ?_, ?_, ?_⟩
  · exact inv1.parent
  · show dictGet "result" (t1.frame s.frames.size).vars = _
    rw [inv1.vars]; rfl
  · show (t1.setCell b (.list (done.map RVal.str ++ [.str rem]))).cell b = _
    rw [cell_setCell_same _ _ hblt, ← inv1.eqn, chunksGo_last_L2 _ _ hle]; simp

/-- the body of `chunks` on a string, `chunk_size > 0` (positions generic; the list branch and the final `else` are arbitrary) -/
theorem chunksS_block_L2 {s s0 : State} {M nats srcs m} {k : Int} {xs : List Char}
    (h : LibEnv s M nats srcs) (hm : M m)
    (ctx : Ctx s0 M nats srcs s.frames.size m [("obj", .str xs), ("chunk_size", .int k)]) (e0 : Ext s s0)
    (hn : ∀ x ∈ chunksStrNats, x ∈ nats) (hs : ∀ p ∈ chunksStrSrcs, p ∈ srcs) (hk : 0 < k)
    {d1 d2 l1 l2 l3 l4 g1 g2 i1 i2 i3 i4 i5 i6 g3 r1 bp : Pos} {info : String} {errn els xl : Node}
    {c1 c2 c3 c4 c5 c6 p1 p2 p3 p4 p5 p6 p7 p8 q1 q2 q3 q4 q5 wp lp f1 f2 f3 f4 bp2 : Pos} {bb bb2 bb3 : Bool} :
    ∃ s', Ext s s' ∧ Ev ld (2 * xs.length + 24) s.frames.size
      (.block [.defn "result" (.list [] d1) info d2,
        .ite [.call (.ident "less_equals" l1) [some "a", some "b"] [.ident "chunk_size" l2, .lit (.int 0) l3] l4] [errn]
          (.lit (.bool true) g1) g2,
        .ite [.call (.ident "is_list" i1) [none] [.ident "obj" i2] i3, .call (.ident "is_string" i4) [none] [.ident "obj" i5] i6]
          [xl, .block [.while (.call (.ident "greater" c1) [some "a", some "b"]
              [.call (.ident "length" c2) [none] [.ident "obj" c3] c4, .ident "chunk_size" c5] c6)
            (.block [.call (.ident "append" p1) [none, none] [.ident "result" p2,
                .call (.ident "substr" p3) [none, none, none] [.ident "obj" p4, .lit (.int 0) p5, .ident "chunk_size" p6] p7] p8,
              .assign "obj" (.call (.ident "substr" q1) [none, none] [.ident "obj" q2, .ident "chunk_size" q3] q4) q5]
              [] [] [] bb wp) lp,
            .call (.ident "append" f1) [none, none] [.ident "result" f2, .ident "obj" f3] f4] [] [] [] bb2 bp2]
          els g3,
        .ident "result" r1] [] [] [] bb3 bp) s0 (.ok (.ref s0.heap.size) s') ∧
      s'.cell s0.heap.size = some (.list ((Lib.chunksGo k.toNat xs).map .str)) := by
  have hcge : s.frames.size ≤ s.frames.size := Nat.le_refl _
  have hnc := chunksStrNats_chunks hn
  have ctx0 : Ctx (ghostEnter s0 bp) M nats srcs s.frames.size m [("obj", .str xs), ("chunk_size", .int k)] :=
    ctx.ext ((Ext.refl s0).ghostEnter _)
  have e0' : Ext s (ghostEnter s0 bp) := e0.ghostEnter _
  generalize hb : s0.heap.size = b
  have hbg : (ghostEnter s0 bp).heap.size = b := hb
  generalize ht1 : ((ghostEnter s0 bp).alloc (.list [])).1.put s.frames.size "result" (.ref b) = t1
  have S1 : Ev ld 2 s.frames.size (.defn "result" (.list [] d1) info d2) (ghostEnter s0 bp) (.ok (.ref b) t1) := by
    have := Ev.defn ld (k := 1) (name := "result") (info := info) (pos := d2) (by intro a h; cases h)
      (Ev.listNil ld (k := 0) (env := s.frames.size) (pos := d1) (s := ghostEnter s0 bp))
    rw [hbg, ht1] at this; exact this
  have hclt0 : s.frames.size < (ghostEnter s0 bp).frames.size := ctx0.clt
  have E1 : Ext s t1 := by rw [← ht1]; exact (e0'.alloc _).put hcge _ _
  have hvars1 : (t1.frame s.frames.size).vars = [("obj", .str xs), ("chunk_size", .int k), ("result", .ref b)] := by
    rw [← ht1, vars_put_same ((ghostEnter s0 bp).alloc (.list [])).1 "result" (.ref b) hclt0, frame_alloc, ctx0.fr.vars]; rfl
  have hpar1 : (t1.frame s.frames.size).parent = some m := by
    rw [← ht1, parent_put, frame_alloc]; exact ctx0.fr.parent
  have hclt1 : s.frames.size < t1.frames.size := by
    rw [← ht1, frames_size_put]; exact hclt0
  have hcb1 : t1.cell b = some (.list []) := by
    rw [← ht1, cell_put, ← hbg]; exact cell_alloc_new _ _
  have ctx1 : Ctx t1 M nats srcs s.frames.size m [("obj", .str xs), ("chunk_size", .int k), ("result", .ref b)] :=
    Ctx.ofExt h hm E1 hvars1 hpar1 hclt1
  have hbge : s.heap.size ≤ b := by rw [← hbg]; exact e0'.hsize
  -- the guard
  obtain ⟨j1, hle⟩ := ctx1.nat (x := "less_equals") (hnc _ (by decide)) (by rfl)
  obtain ⟨mm, hm1, hm2⟩ := less_equals_int_L2 k 0 (div0Value t1 s.frames.size) l4 t1
  have hkf : decide (k ≤ 0) = false := by simp; omega
  rw [hkf] at hm2
  have G := Ev.natAB ld (k := 0) (p := l1) (pos := l4) hle (by rfl) (by trivial) (by trivial)
    (Ev.ident ld (p := l2) (ctx1.var (x := "chunk_size") (by rfl))) (Ev.litInt ld (p := l3) (n := 0)) hm1 hm2
  rw [wrapCall_ok] at G
  have S2 : Ev ld 7 s.frames.size (.ite [.call (.ident "less_equals" l1) [some "a", some "b"]
      [.ident "chunk_size" l2, .lit (.int 0) l3] l4] [errn] (.lit (.bool true) g1) g2) t1 (.ok (.bool true) t1) :=
    Ev.ite ld (EvIf.false ld (Ev.mono ld G (by decide)) (EvIf.else ld (Ev.litBool ld (k := 4))))
  -- `is_list(obj)` is FALSE
  obtain ⟨fl, m1, hl1, hm1', hsrc1⟩ := ctx1.src (x := "is_list") (src := type_is_list) (hs _ (by simp [chunksStrSrcs])) (by rfl)
  obtain ⟨t2, e1, cl⟩ := is_list_calls ld ctx1.env (chunksNats_type hnc) hm1' hsrc1 (.str xs)
  have hil : isListR t1 (.str xs) = false := rfl
  rw [hil] at cl
  have C1 := Ev.callSrc1 ld (k := 6) (p := i1) hl1 hsrc1 rfl (by decide) (by trivial)
    (Ev.ident ld (p := i2) (ctx1.var (x := "obj") (by rfl))) (cl s.frames.size i3)
  rw [wrapCall_ok] at C1
  -- `is_string(obj)` is TRUE
  have ctx2 := ctx1.ext e1
  obtain ⟨fs, m2, hl2, hm2', hsrc2⟩ := ctx2.src (x := "is_string") (src := type_is_string) (hs _ (by simp [chunksStrSrcs]))
    (by rfl)
  obtain ⟨t3, e2, cs2⟩ := is_string_calls_str_L2 ld ctx2.env (chunksNats_type hnc) hm2' hsrc2 xs
  have C2 := Ev.callSrc1 ld (k := 6) (p := i4) hl2 hsrc2 rfl (by decide) (by trivial)
    (Ev.ident ld (p := i5) (ctx2.var (x := "obj") (by rfl))) (cs2 s.frames.size i6)
  rw [wrapCall_ok] at C2
  have hblt1 : b < t1.heap.size := cell_lt hcb1
  have e12 : Ext t1 t3 := e1.trans e2
  have inv : ChSInv_L2 s s.frames.size m b k xs t3 xs [] := by
    refine ⟨E1.trans e12, ?_, Nat.lt_of_lt_of_le hclt1 e12.fsize, ?_, ?_, hbge, by simp⟩
    · rw [e12.frame _ hclt1]; exact hpar1
    · rw [e12.frame _ hclt1]; exact hvars1
    · rw [e12.cell b hblt1]; exact hcb1
  obtain ⟨r3, t4, hB, hctl3, E4, hpar4, hres4, hcb4⟩ := chunksS_strBlock_L2 ld h hm hn hk inv
    c1 c2 c3 c4 c5 c6 p1 p2 p3 p4 p5 p6 p7 p8 q1 q2 q3 q4 q5 wp lp f1 f2 f3 f4 bp2 bb bb2
  have S3 := Ev.ite ld (pos := g3) (EvIf.false ld (x := xl) (els := els) (pos := g3)
    (Ev.mono ld C1 (show 6 + 3 ≤ 2 * xs.length + 18 by omega))
    (EvIf.true ld (cs := []) (xs := []) (els := els) (pos := g3)
      (Ev.mono ld C2 (show 6 + 3 ≤ 2 * xs.length + 17 by omega)) hB))
  have S4 : Ev ld (2 * xs.length + 19) s.frames.size (.ident "result" r1) t4 (.ok (.ref b) t4) :=
    Ev.ident ld (lookup_local (callFrame_self hpar4 (h.lt m hm)) hres4)
  refine ⟨ghostFin t4 bp, E4.ghostFin _, ?_, hcb4⟩
  exact Ev.block ld (b := bb3) (pos := bp)
    (EvBody.cons ld (Ev.mono ld S1 (by omega)) rfl
      (EvBody.cons ld (Ev.mono ld S2 (by omega)) rfl
        (EvBody.cons ld S3 hctl3
          (EvBody.cons ld S4 rfl (EvBody.nil ld)))))

/-- **`chunks(obj, chunk_size)` on a STRING, `chunk_size > 0`**: a reference to the cell at the old heap size (fresh) holding the
    list of strings `chunksGo k cs` -/
theorem chunks_calls_string {s : State} {M nats srcs fn m} (h : LibEnv s M nats srcs) (hn : ∀ x ∈ chunksStrNats, x ∈ nats)
    (hs : ∀ p ∈ chunksStrSrcs, p ∈ srcs) (hm : M m) (hsrc : IsSrc s fn core_chunks m) (cs : List Char) (k : Int)
    (hk : 0 < k) :
    ∃ s', Ext s s' ∧ s'.cell s.heap.size = some (.list ((Lib.chunksGo k.toNat cs).map .str)) ∧
      ∀ env pos, Calls ld (2 * cs.length + 25) fn [("obj", .str cs), ("chunk_size", .int k)] env pos s
        (.ok (.ref s.heap.size) s') := by
  obtain ⟨c0, nm, rfl, hcell⟩ := hsrc
  have hb : ∃ s', Ext s s' ∧ Ev ld (2 * cs.length + 24) s.frames.size (lamBody core_chunks)
      (calleeState s m ["obj", "chunk_size"] [("obj", .str cs), ("chunk_size", .int k)])
      (.ok (.ref (calleeState s m ["obj", "chunk_size"] [("obj", .str cs), ("chunk_size", .int k)]).heap.size) s') ∧
      s'.cell (calleeState s m ["obj", "chunk_size"] [("obj", .str cs), ("chunk_size", .int k)]).heap.size
        = some (.list ((Lib.chunksGo k.toNat cs).map .str)) := by
    unfold lamBody core_chunks
    exact chunksS_block_L2 ld h hm (Ctx.callee2 h hm "obj" "chunk_size" (.str cs) (.int k) (by decide))
      (calleeState_ext ..) hn hs hk
  obtain ⟨s', e', hev, hres⟩ := hb
  rw [calleeState_heap] at hev hres
  refine ⟨s', e', hres, fun env pos => ?_⟩
  have hcell' : s.cell c0 = some (.closure m ["obj", "chunk_size"] [.absent, .absent] (lamBody core_chunks) nm) := hcell
  exact Calls.closure ld (env := env) (pos := pos) hcell' rfl (by simp)
    (by intro p hp; simp at hp; rcases hp with rfl | rfl <;> simp [dictGet]) hev

end Ckl.C19Src
