"""Generates MANIFEST.json from the table below (python -m harness.manifest_gen)."""
import json
import os

VERIF = os.path.dirname(os.path.dirname(os.path.abspath(__file__)))

CLAIMED = {
    "C09": ("6/C09", "Theorems (Lean 4) over the native table that is REGENERATED from functions.py / interpreter.py / modules/*.ckl on every run: every "
            "built-in whose class references an OS primitive (open, os.*, shutil.*, subprocess.*, FileInput, FileOutput, script loading) is "
            "flagged secure=False (table_sound); every instantiation of such a class outside bind_native is guarded by `not secure` "
            "(no_unguarded_instantiation); bundled modules bind only known natives; bind_native in secure mode binds nothing effectful for any "
            "name and alias (bindNative_secure), and no sequence of binding/copying operations ever does (secure_invariant). A forgotten flag on "
            "an edited or new built-in breaks table_sound at check time. Tied to the code by running a secure interpreter (legacy and not) under "
            "sys.addaudithook: bind_native for every name/alias, every symbol of every bundled module with path- and command-like arguments in a "
            "canary directory, every syntactic way to define/assign the flag, and a reachability walk for secure==False built-ins.",
            "Effects are labels attached by a syntactic scan (an OS access through an indirection the scan does not know is caught only by the "
            "audit-hook runs); the frame structure (flag stored in the base frame only) is covered by the oracle, not by a theorem."),
    "C13": ("6/C13", "Theorems (Lean 4, all programs, all fuel): for EVERY interpretation of the ~100 unmodelled built-ins - including ones raising host "
            "exceptions - evaluation of any node never yields a host failure (eval_no_host and the same for all 24 node-reachable functions of the "
            "evaluator model); `invoke` is the single containment boundary (invoke_contains, invoke_boundary_host: a host failure of the callee "
            "becomes the runtime error); all 50 modelled natives are host-free (callPure_no_host); index conversion and dereference are guarded "
            "(index_guarded, deref_total); a runtime error is intercepted by catch all (runtime_error_is_catchable). Tied to the code by an "
            "exhaustive run: every function of the base environment and bundled modules x all argument tuples of arity <= 2 (3 sampled) from a "
            "29-value pool and every syntactic operator/indexing/iteration/spread/destructuring form - outcome value or catchable runtime error "
            "within 2 s - plus outcome-class comparison with the model evaluator on operator forms.",
            "Termination of built-ins on finite data is covered by the 2 s bound of the exhaustive runs (and by structural recursion of the "
            "modelled natives), not by a theorem about the Python code; recursion depth and resource exhaustion proportional to an argument's "
            "magnitude are out of scope."),
    "C01": ("6/C01", "Theorems (Lean 4): the scanner model is a total function of the text whose only failure is a syntax error with a non-empty "
            "message and a line >= 1 (scan_total, scan_deterministic); every int/decimal token it emits consists of digits (scan_int_tokens) so "
            "the parser's numeric conversions cannot fail; the parser model (51 mutually recursive functions mirroring parser.py production by "
            "production) is defined WITHOUT fuel by well-founded recursion on (remaining tokens, rank) - Lean's termination checker is the proof "
            "that every loop and recursion of the parser consumes input - and returns an AST or an error with a non-empty message (parse_total). "
            "Tied to the code by comparing AST dumps with positions / error line / end-of-input flag on program prefixes, token edits, token "
            "and character noise and an exhaustive short-string cover, and by an oracle (outcome class, 2 s bound, determinism) on the implementation.",
            "re.compile validity of pattern literals is an abstract predicate (validRe) supplied by the harness; nesting deeper than the host "
            "recursion limit and lone surrogates are out of scope."),
    "C14": ("6/C14", "Theorems (Lean 4, scanner): whitespace at a token boundary changes only the counters (ws_at_boundary); a comment returns to the "
            "same configuration (comment_skip); for every u, v and every filler w of whitespace and comments inserted at a token boundary the "
            "(type, value) token sequence of scan (u ++ w ++ v) equals that of scan (u ++ v) (layout_insertion; crlf_lf); hex/binary/underscored "
            "literals scan to the int token of their value (hex_literal, bin_literal, int_underscores). Since the parser model and the evaluator "
            "model are functions of token types/values (positions only flow into error positions), meaning is layout independent in the model; "
            "tied to the code by re-rendering generated and test-suite programs under random layouts/spellings and comparing tokens, ASTs, "
            "results, output and error values on the implementation and ASTs with the model front end.",
            "Redundant parentheses and trailing semicolons are covered by the correspondence/oracle only (no theorem yet)."),
    "C20": ("6/C20", "Theorems (Lean 4): for every input text and every token the scanner model emits, the token's line is 1 + the number of line "
            "breaks before the token's start offset and its file name is the given one (token_line_correct, token_start); a failing scan "
            "reports the line of the offending character / token start (error_line_correct). Node, error and stack-trace positions are copied "
            "from tokens by the parser/evaluator models, which are compared with the implementation including positions (C01 AST dumps carry "
            "line and column). Tied to the code by all token kinds x followers x preceding layouts and by programs with one planted fault at a "
            "known token under random multi-line layouts, incl. faults inside called functions and modules.",
            "Columns are mirrored but not part of the property (they are negative for tokens followed by a line break)."),
    "C06": ("6/C06", "Theorems (Lean 4, all values at any nesting depth): the code model of __eq__ (veq) is reflexive, symmetric and transitive, never "
            "relates values of different kinds, is exact rational equality between ints and decimals, and membership / map lookup / set "
            "construction (dedupKeepFirst, assocPut) cannot distinguish equal representatives; equal numbers have the same hash payload "
            "(normNum). Tied to ckl.values by an all-pairs correspondence run over generated values and by an independent reference "
            "equality (Fraction arithmetic, order-free containers) evaluated on the implementation, including hash congruence, all "
            "insertion orders of up to 5 elements and interpreted programs.",
            "Sets and maps are modelled in their enumeration order (canonical form built by mkSet/mkMap); values mixing dates with numbers "
            "inside one collection and -0.0 are outside the generators (DESIGN.md section 8); NaN is the recorded finding C06:nan-reflexivity."),
    "C07": ("6/C07", "Theorems (Lean 4, all values): on values of one kind the code model of __lt__ is irreflexive, asymmetric, transitive and trichotomous "
            "with ==; numeric order is the order of the rationals, strings are code-point lexicographic (proper prefix first), FALSE<TRUE, dates "
            "chronological, lists element-wise; compare/<=/>/>= are consistent; FuncSorted's insertion sort (sortedM) returns a sorted permutation "
            "and is stable for every strict weak order; any sorted permutation under a strict total order equals the model's (so CPython's "
            "sorted agrees); min/max return the first extremal element; set enumeration is independent of insertion order. Tied to the code "
            "by all-pairs correspondence per kind, exhaustive sorted() runs on lists with duplicate keys, and a reference order oracle.",
            "Cross-kind comparison (through rendered text) is mirrored but outside the theorems, as the property says 'values of one kind'."),
    "C15": ("6/C15", "Theorems (Lean 4, all lists and all integer indices): deref/slice/substr/find/find_last/insert_at/delete_at of the code model equal the "
            "textbook sequence operations (clamped contiguous run, least/greatest occurrence, one-position insert/delete) and the identities "
            "s[0 to k] + s[k to *] = s; tied to the code by an exhaustive small-domain correspondence run (all sequences of length <= 4/6 over "
            "3 symbols x all indices in [-9,9]) and an executable statement of the property on the implementation's own results.",
            "The model of Python's slice/find/rfind/list.insert/del (Layer 0) is validated by the same exhaustive runs, not proved; "
            "string indices by non-int values (kept int()/bool/decimal coercion) are not modelled."),
    "C17": ("6/C17", "Theorems (Lean 4, every year >= 1900, no upper bound): toDate and toOaDay of the code model are mutually inverse, the day number grows "
            "by exactly one per calendar day under the Gregorian rule, strictly monotone, anchors 1900-01-01=2 and 1970-01-01=25569, (d+n)-n=d, "
            "(d+n)-d=n, both while-loops terminate with explicit measures; tied to ckl.date by correspondence on the boundary days of every year "
            "(quick) / every calendar day 1900..9999 (thorough) and by datetime.date ordinals as an independent oracle.",
            "PARTIAL for the time of day: the code computes it in binary floating point and rounds to the millisecond; the model carries integer "
            "milliseconds, the float arithmetic is validated by correspondence (all seconds of sample days), not proved."),
}

PENDING = {}


def main():
    props = [json.loads(l) for l in open(os.path.join(VERIF, "properties.jsonl"))]
    checks = []
    na = []
    for p in props:
        pid = p["id"]
        if pid in CLAIMED:
            ref, text, note = CLAIMED[pid]
            checks.append({
                "property_id": pid,
                "quick_cmd": f"./check {pid} quick",
                "thorough_cmd": f"./check {pid} thorough",
                "evidence_file": f"/verif/evidence/{pid}.json",
                "replay_cmd_template": f"./check {pid} --replay {{path}}",
                "engine": "lean4-model+correspondence",
                "level_claimed": {"category": "proof", "text": text, "design_ref": "DESIGN.md section " + ref},
                "level_note": "Trusted base T1-T6 of DESIGN.md section 3 (Lean kernel; axioms propext, Classical.choice, Quot.sound; CPython primitive "
                              "behaviour; the correspondence harness). " + note,
                "technique": "Lean 4 theorems over a hand-written executable model + differential correspondence check against the implementation",
            })
        else:
            na.append({"property_id": pid, "reason": PENDING.get(pid, "check not built yet in this session (model slice pending); see DESIGN.md section 9 for the order of work")})
    man = {
        "version": 1,
        "setup_cmd": "./check --setup",
        "hooks": {
            "guard": "CKL_VERIF",
            "enable": "no hooks are needed: every observation point is reachable from outside (parse_script, Interpreter.interpret, ckl.values, audit hooks)",
            "baseline_off_cmd": "cd /repo && /venv/bin/python -m pytest -ra -q -p no:cacheprovider --timeout=900 --continue-on-collection-errors",
            "source_commits": [],
            "add_only": True,
        },
        "engines": [{"name": "lean4-model+correspondence", "path": "/verif/lean", "serves_properties": sorted(CLAIMED),
                     "kind_free_text": "Lean 4.33 lake project (executable model, theorems, compiled line-protocol driver) + Python harness (/verif/check)"}],
        "checks": checks,
        "notes": "Genuine defects of the pinned tree were repaired by unguarded 'fix:' commits in /repo (see known_findings.json, DESIGN.md section 7).",
        "not_applicable": na,
    }
    with open(os.path.join(VERIF, "MANIFEST.json"), "w") as fh:
        json.dump(man, fh, indent=1)
    print("claimed", sorted(CLAIMED), "not claimed", [x["property_id"] for x in na])


if __name__ == "__main__":
    main()
