import CklVerif.Lemmas.C14EvalResp

/-! C14 (evaluator part) — the state operations commute with the erasure -/
namespace Ckl.C14E
open Ckl

instance : LawfulMonad EvalM := LawfulMonad.mk'
  (id_map := by
    intro α x; funext s
    show EvalM.bind' x (fun a => EvalM.pure' (id a)) s = x s
    unfold EvalM.bind' EvalM.pure'
    cases x s <;> rfl)
  (pure_bind := by intro α β x f; rfl)
  (bind_assoc := by
    intro α β γ x f g; funext s
    show EvalM.bind' (EvalM.bind' x f) g s = EvalM.bind' x (fun a => EvalM.bind' (f a) g) s
    unfold EvalM.bind'
    cases x s <;> rfl)

/-- observation markers: `V1 f (ers a) = f a` for observations `f` that do not see positions -/
def V1 {α β} (f : α → β) (a : α) : β := f a
def V2 {α β γ} (f : α → β → γ) (a : α) (b : β) : γ := f a b
def V3 {α β γ δ} (f : α → β → γ → δ) (a : α) (b : β) (c : γ) : δ := f a b c
def V4 {α β γ δ ε} (f : α → β → γ → δ → ε) (a : α) (b : β) (c : γ) (d : δ) : ε := f a b c d

/-! ### arrays -/

theorem Array.map_modify' {α β} (a : Array α) (f : α → β) (g : β → β) (g' : α → α) (i : Nat)
    (h : ∀ x, f (g' x) = g (f x)) : (a.map f).modify i g = (a.modify i g').map f := by
  apply Array.ext
  · simp
  · intro j h1 h2
    simp [Array.getElem_modify]
    split <;> simp [h]

theorem Array.getD_map' {α β} (a : Array α) (f : α → β) (i : Nat) (d : α) (d' : β) (h : f d = d') :
    (a.map f).getD i d' = f (a.getD i d) := by
  subst h
  simp [Array.getD]
  split <;> simp

/-! ### dictionaries -/
section
variable {β : Type} [Ers β]

@[simp] theorem dictGet_ers (k : String) (l : List (String × β)) :
    Option.map ers (dictGet k l) = dictGet k (List.map ers l) := by
  induction l with
  | nil => rfl
  | cons p l ih =>
    obtain ⟨k', v⟩ := p
    simp only [dictGet, List.map_cons, ers_pair, ers_string]
    split <;> simp [ih]

@[simp] theorem dictPut_ers (k : String) (v : β) (l : List (String × β)) :
    List.map ers (dictPut k v l) = dictPut k (ers v) (List.map ers l) := by
  induction l with
  | nil => rfl
  | cons p l ih =>
    obtain ⟨k', v'⟩ := p
    simp only [dictPut, List.map_cons, ers_pair, ers_string]
    split <;> simp [ih]

@[simp] theorem dictDel_ers (k : String) (l : List (String × β)) :
    List.map ers (dictDel k l) = dictDel k (List.map ers l) := by
  induction l with
  | nil => rfl
  | cons p l ih =>
    obtain ⟨k', v'⟩ := p
    simp only [dictDel, List.map_cons, ers_pair, ers_string]
    split <;> simp [ih]

@[simp] theorem dictHas_ers (k : String) (l : List (String × β)) : dictHas k (List.map ers l) = dictHas k l := by
  simp only [dictHas, ← dictGet_ers, Option.isSome_map]

@[obs_simp] theorem dictHas_obs (k : String) (l : List (String × β)) : dictHas k l = V2 dictHas k (ers l) :=
  (dictHas_ers k l).symm
@[ers_simp] theorem dictGet_ers' (k : String) (l : List (String × β)) : ers (dictGet k l) = dictGet k (ers l) :=
  dictGet_ers k l
@[ers_simp] theorem dictPut_ers' (k : String) (v : β) (l : List (String × β)) :
    ers (dictPut k v l) = dictPut k (ers v) (ers l) := dictPut_ers k v l
@[ers_simp] theorem dictDel_ers' (k : String) (l : List (String × β)) : ers (dictDel k l) = dictDel k (ers l) :=
  dictDel_ers k l
end

/-! ### frames and variables -/

theorem frames_size_ers (s : State) : (ers s).frames.size = s.frames.size := by simp
theorem heap_size_ers (s : State) : (ers s).heap.size = s.heap.size := by simp

theorem frames_size_congr {s s' : State} (h : ers s = ers s') : s.frames.size = s'.frames.size := by
  rw [← frames_size_ers s, h, frames_size_ers]
theorem heap_size_congr {s s' : State} (h : ers s = ers s') : s.heap.size = s'.heap.size := by
  rw [← heap_size_ers s, h, heap_size_ers]

theorem frame_ers (s : State) (e : EnvId) : (ers s).frame e = ers (s.frame e) := by
  simp only [State.frame, ers_state_frames, ers_array]
  exact Array.getD_map' _ _ _ _ _ rfl

@[simp, ers_simp] theorem put_ers (s : State) (e : EnvId) (x : String) (v : RVal) :
    ers (s.put e x v) = (ers s).put e x (ers v) := by
  simp only [State.put]
  show ({ s with frames := _, heap := _, ghost := _ } : State) = _
  simp only [ers_state_frames, ers_array]
  congr 1
  symm
  apply Array.map_modify'
  intro f
  show ({ vars := _, parent := _ } : Frame) = _
  simp

@[simp, ers_simp] theorem remove_ers (s : State) (e : EnvId) (x : String) :
    ers (s.remove e x) = (ers s).remove e x := by
  simp only [State.remove]
  show ({ s with frames := _, heap := _, ghost := _ } : State) = _
  simp only [ers_state_frames, ers_array]
  congr 1
  symm
  apply Array.map_modify'
  intro f
  show ({ vars := _, parent := _ } : Frame) = _
  simp

theorem lookupF_ers (s : State) : ∀ (fuel : Nat) (e : EnvId) (x : String),
    Option.map ers (s.lookupF fuel e x) = (ers s).lookupF fuel e x
  | 0, _, _ => rfl
  | fuel + 1, e, x => by
    simp only [State.lookupF, frame_ers, ers_frame_vars, ers_frame_parent, ers_list, ← dictGet_ers]
    cases dictGet x (s.frame e).vars with
    | some v => rfl
    | none =>
      simp only [Option.map_none]
      cases (s.frame e).parent with
      | none => rfl
      | some p => exact lookupF_ers s fuel p x

@[simp] theorem lookup_ers (s : State) (e : EnvId) (x : String) :
    Option.map ers (s.lookup e x) = (ers s).lookup e x := by
  simp only [State.lookup, lookupF_ers, frames_size_ers]

@[ers_simp] theorem lookup_ers' (s : State) (e : EnvId) (x : String) : ers (s.lookup e x) = (ers s).lookup e x :=
  lookup_ers s e x

@[obs_simp] theorem isDefined_obs (s : State) (e : EnvId) (x : String) :
    s.isDefined e x = V3 State.isDefined (ers s) e x := by
  simp only [V3, State.isDefined, ← lookup_ers, Option.isSome_map]

theorem setF_ers (s : State) : ∀ (fuel : Nat) (e : EnvId) (x : String) (v : RVal),
    Option.map ers (s.setF fuel e x v) = (ers s).setF fuel e x (ers v)
  | 0, _, _, _ => rfl
  | fuel + 1, e, x, v => by
    simp only [State.setF, frame_ers, ers_frame_vars, ers_frame_parent, ers_list, dictHas_ers]
    split
    · simp
    · cases (s.frame e).parent with
      | none => rfl
      | some p => exact setF_ers s fuel p x v

@[simp] theorem set_ers (s : State) (e : EnvId) (x : String) (v : RVal) :
    Option.map ers (s.set e x v) = (ers s).set e x (ers v) := by
  simp only [State.set, setF_ers, frames_size_ers]
@[ers_simp] theorem set_ers' (s : State) (e : EnvId) (x : String) (v : RVal) :
    ers (s.set e x v) = (ers s).set e x (ers v) := set_ers s e x v

theorem baseF_ers (s : State) : ∀ (fuel : Nat) (e : EnvId), (ers s).baseF fuel e = s.baseF fuel e
  | 0, _ => rfl
  | fuel + 1, e => by
    simp only [State.baseF, frame_ers, ers_frame_parent]
    cases (s.frame e).parent with
    | none => rfl
    | some p => exact baseF_ers s fuel p

@[obs_simp] theorem base_obs (s : State) (e : EnvId) : s.base e = V2 State.base (ers s) e := by
  simp only [V2, State.base, baseF_ers, frames_size_ers]

@[obs_simp] theorem localSymbols_obs (s : State) (e : EnvId) :
    s.localSymbols e = V2 State.localSymbols (ers s) e := by
  simp only [V2, State.localSymbols, frame_ers, ers_frame_vars, ers_list, List.map_map]
  rfl

@[simp, ers_simp] theorem newEnv_ers (s : State) (p : EnvId) : ers (s.newEnv p).1 = ((ers s).newEnv p).1 := by
  simp only [State.newEnv]
  show ({ s with frames := _, heap := _, ghost := _ } : State) = _
  simp

theorem newEnv_snd (s : State) (p : EnvId) : (s.newEnv p).2 = s.frames.size := rfl

/-! ### heap -/

@[simp] theorem cell_ers (s : State) (a : Nat) : Option.map ers (s.cell a) = (ers s).cell a := by
  simp [State.cell]
@[ers_simp] theorem cell_ers' (s : State) (a : Nat) : ers (s.cell a) = (ers s).cell a := cell_ers s a

@[simp, ers_simp] theorem alloc_ers (s : State) (c : Cell) : ers (s.alloc c).1 = ((ers s).alloc (ers c)).1 := by
  simp only [State.alloc]
  show ({ s with frames := _, heap := _, ghost := _ } : State) = _
  simp

theorem alloc_snd (s : State) (c : Cell) : (s.alloc c).2 = s.heap.size := rfl

@[simp, ers_simp] theorem setCell_ers (s : State) (a : Nat) (c : Cell) :
    ers (s.setCell a c) = (ers s).setCell a (ers c) := by
  simp only [State.setCell]
  show ({ s with frames := _, heap := _, ghost := _ } : State) = _
  simp

@[simp, ers_simp] theorem write_ers (s : State) (t : List Char) : ers (s.write t) = (ers s).write t := rfl

@[simp, ers_simp] theorem ghostEnter_ers (s : State) (p : Pos) : ers (ghostEnter s p) = ers s := rfl
@[simp, ers_simp] theorem ghostFin_ers (s : State) (p : Pos) : ers (ghostFin s p) = ers s := rfl

end Ckl.C14E
