import CklVerif.Proofs.C06Eval

#print axioms Ckl.C06Eval.rrender_bridge_nonlist
#print axioms Ckl.C06Eval.rrender_bridge
#print axioms Ckl.C06Eval.native_string_nonlist
#print axioms Ckl.C06Eval.native_string_eq
#print axioms Ckl.C06Eval.string_set_perm
#print axioms Ckl.C06Eval.reify_fuel_size
#print axioms Ckl.C06Eval.reify_fuel_indep
