/-
  C08 (full data literals) — definitions: the data values `IsData'` (NULL, booleans, ints, strings,
  and lists, sets and maps of them, sets / maps in canonical form), the token sequence
  `tokensOf v` their text scans to, the literal AST (`NodeIs v n`: "`n` is the literal AST of `v`,
  positions aside"; `nodeOf v`: the one with default positions), and the evaluation fuel `need v`.
-/
import CklVerif.Proofs.C08
namespace Ckl.C08F
open Ckl Ckl.Lexer Ckl.C08

section
variable (dr : DecRenderer)

mutual
  /-- the data values: NULL, booleans, ints whose numeral has at most 4300 digits, strings, and
      lists, sets and maps of data values nested to any depth, where
      * the elements of a set are listed in strictly ascending `<` order (the enumeration order
        `mkSet` produces; strictly ascending lists have no duplicates),
      * the entries of a map are listed in strictly ascending order of their keys (`mkMap`),
      * no key of a map is NULL (the literal `<<<NULL => 1>>>` has the STRING key `'NULL'`).
      Decimals, patterns and dates are not included. -/
  def IsData' : Val → Prop
    | .null => True
    | .bool _ => True
    | .int n => (Nat.toDigits 10 n.natAbs).length ≤ 4300
    | .str _ => True
    | .list xs => IsDataL' xs
    | .set xs => IsDataL' xs ∧ xs.Pairwise (fun a b => vltWith dr a b = true)
    | .map kvs => IsDataM' kvs ∧ kvs.Pairwise (fun a b => vltWith dr a.1 b.1 = true)
    | _ => False
  def IsDataL' : List Val → Prop
    | [] => True
    | x :: xs => IsData' x ∧ IsDataL' xs
  def IsDataM' : List (Val × Val) → Prop
    | [] => True
    | (k, v) :: rest => k ≠ .null ∧ IsData' k ∧ IsData' v ∧ IsDataM' rest
end

end

/-! ### expected tokens -/

/-- token lists of items, joined by the token `,` -/
def sepToks : List (List TV) → List TV
  | [] => []
  | x :: xs => x ++ xs.flatMap (fun y => ([','], ip) :: y)

mutual
  /-- the tokens (value, type) that the text of a data value scans to -/
  def tokensOf : Val → List TV
    | .null => [(['N', 'U', 'L', 'L'], .identifier)]
    | .bool true => [(['T', 'R', 'U', 'E'], .boolean)]
    | .bool false => [(['F', 'A', 'L', 'S', 'E'], .boolean)]
    | .int n => intToks n
    | .str s => [(s, .string)]
    | .list xs => (['['], ip) :: (sepToks (tokensLs xs) ++ [([']'], ip)])
    | .set xs => (['<', '<'], ip) :: (sepToks (tokensLs xs) ++ [(['>', '>'], ip)])
    | .map kvs => (['<', '<', '<'], ip) :: (sepToks (tokensMs kvs) ++ [(['>', '>', '>'], ip)])
    | _ => []
  def tokensLs : List Val → List (List TV)
    | [] => []
    | x :: xs => tokensOf x :: tokensLs xs
  def tokensMs : List (Val × Val) → List (List TV)
    | [] => []
    | (k, v) :: rest => (tokensOf k ++ (['=', '>'], ip) :: tokensOf v) :: tokensMs rest
end

/-! ### the literal AST -/

mutual
  /-- `NodeIs v n`: `n` is the literal AST of the data value `v`, source positions aside: a tree of
      `.list` / `.set` / `.map` nodes with `.lit` leaves, NULL being the identifier `NULL` -/
  def NodeIs : Val → Node → Prop
    | .null, n => ∃ p, n = .ident "NULL" p
    | .bool b, n => ∃ p, n = .lit (.bool b) p
    | .int k, n => ∃ p, n = .lit (.int k) p
    | .str s, n => ∃ p, n = .lit (.str s) p
    | .list xs, n => ∃ ns p, n = .list ns p ∧ NodeIsL xs ns
    | .set xs, n => ∃ ns p, n = .set ns p ∧ NodeIsL xs ns
    | .map kvs, n => ∃ ks vs p, n = .map ks vs p ∧ NodeIsM kvs ks vs
    | _, _ => False
  def NodeIsL : List Val → List Node → Prop
    | [], ns => ns = []
    | x :: xs, ns => ∃ n ns', ns = n :: ns' ∧ NodeIs x n ∧ NodeIsL xs ns'
  def NodeIsM : List (Val × Val) → List Node → List Node → Prop
    | [], ks, vs => ks = [] ∧ vs = []
    | (k, v) :: rest, ks, vs => ∃ kn ks' vn vs', ks = kn :: ks' ∧ vs = vn :: vs' ∧
        NodeIs k kn ∧ NodeIs v vn ∧ NodeIsM rest ks' vs'
end

mutual
  /-- the literal AST with default positions -/
  def nodeOf : Val → Node
    | .null => .ident "NULL" {}
    | .list xs => .list (nodesOf xs) {}
    | .set xs => .set (nodesOf xs) {}
    | .map kvs => .map (keyNodes kvs) (valNodes kvs) {}
    | .bool b => .lit (.bool b) {}
    | .int n => .lit (.int n) {}
    | .dec m e => .lit (.dec m e) {}
    | .str s => .lit (.str s) {}
    | .pat s => .lit (.pat s) {}
    | .date d => .lit (.date d) {}
  def nodesOf : List Val → List Node
    | [] => []
    | x :: xs => nodeOf x :: nodesOf xs
  def keyNodes : List (Val × Val) → List Node
    | [] => []
    | (k, _) :: rest => nodeOf k :: keyNodes rest
  def valNodes : List (Val × Val) → List Node
    | [] => []
    | (_, v) :: rest => nodeOf v :: valNodes rest
end

mutual
  theorem nodeIs_nodeOf (dr : DecRenderer) : ∀ v, IsData' dr v → NodeIs v (nodeOf v)
    | .null, _ => ⟨{}, rfl⟩
    | .bool b, _ => ⟨{}, rfl⟩
    | .int n, _ => ⟨{}, rfl⟩
    | .str s, _ => ⟨{}, rfl⟩
    | .list xs, h => by
      rw [NodeIs, nodeOf]
      exact ⟨_, _, rfl, nodeIsL_nodesOf dr xs (by simpa [IsData'] using h)⟩
    | .set xs, h => by
      rw [NodeIs, nodeOf]
      exact ⟨_, _, rfl, nodeIsL_nodesOf dr xs (by simp only [IsData'] at h; exact h.1)⟩
    | .map kvs, h => by
      rw [NodeIs, nodeOf]
      exact ⟨_, _, _, rfl, nodeIsM_nodesOf dr kvs (by simp only [IsData'] at h; exact h.1)⟩
    | .dec _ _, h => by simp [IsData'] at h
    | .pat _, h => by simp [IsData'] at h
    | .date _, h => by simp [IsData'] at h
  theorem nodeIsL_nodesOf (dr : DecRenderer) : ∀ xs, IsDataL' dr xs → NodeIsL xs (nodesOf xs)
    | [], _ => by simp [NodeIsL, nodesOf]
    | x :: xs, h => by
      simp only [IsDataL'] at h
      rw [NodeIsL, nodesOf]
      exact ⟨_, _, rfl, nodeIs_nodeOf dr x h.1, nodeIsL_nodesOf dr xs h.2⟩
  theorem nodeIsM_nodesOf (dr : DecRenderer) : ∀ kvs, IsDataM' dr kvs →
      NodeIsM kvs (keyNodes kvs) (valNodes kvs)
    | [], _ => by simp [NodeIsM, keyNodes, valNodes]
    | (k, v) :: rest, h => by
      simp only [IsDataM'] at h
      rw [NodeIsM, keyNodes, valNodes]
      exact ⟨_, _, _, _, rfl, rfl, nodeIs_nodeOf dr k h.2.1, nodeIs_nodeOf dr v h.2.2.1,
        nodeIsM_nodesOf dr rest h.2.2.2⟩
end

/-! ### "modulo positions" -/

mutual
  /-- reset the source positions of a literal AST (identifier, literal, list, set and map nodes;
      other nodes are left alone) -/
  def stripPos : Node → Node
    | .lit v _ => .lit v {}
    | .ident x _ => .ident x {}
    | .list ns _ => .list (stripPosL ns) {}
    | .set ns _ => .set (stripPosL ns) {}
    | .map ks vs _ => .map (stripPosL ks) (stripPosL vs) {}
    | n => n
  def stripPosL : List Node → List Node
    | [] => []
    | n :: ns => stripPos n :: stripPosL ns
end

mutual
  /-- `NodeIs v n` says exactly that `n` is `nodeOf v` up to source positions -/
  theorem nodeIs_strip (dr : DecRenderer) : ∀ v, IsData' dr v → ∀ n, NodeIs v n → stripPos n = nodeOf v
    | .null, _, n, h => by obtain ⟨p, rfl⟩ := h; simp [stripPos, nodeOf]
    | .bool b, _, n, h => by obtain ⟨p, rfl⟩ := h; simp [stripPos, nodeOf]
    | .int k, _, n, h => by obtain ⟨p, rfl⟩ := h; simp [stripPos, nodeOf]
    | .str x, _, n, h => by obtain ⟨p, rfl⟩ := h; simp [stripPos, nodeOf]
    | .list xs, hd, n, h => by
      obtain ⟨ns, p, rfl, hns⟩ := h
      simp only [IsData'] at hd
      simp only [stripPos, nodeOf, nodeIsL_strip dr xs hd ns hns]
    | .set xs, hd, n, h => by
      obtain ⟨ns, p, rfl, hns⟩ := h
      simp only [IsData'] at hd
      simp only [stripPos, nodeOf, nodeIsL_strip dr xs hd.1 ns hns]
    | .map kvs, hd, n, h => by
      obtain ⟨ks, vs, p, rfl, hns⟩ := h
      simp only [IsData'] at hd
      have := nodeIsM_strip dr kvs hd.1 ks vs hns
      simp only [stripPos, nodeOf, this.1, this.2]
    | .dec _ _, h, _, _ => by simp [IsData'] at h
    | .pat _, h, _, _ => by simp [IsData'] at h
    | .date _, h, _, _ => by simp [IsData'] at h
  theorem nodeIsL_strip (dr : DecRenderer) : ∀ xs, IsDataL' dr xs → ∀ ns, NodeIsL xs ns →
      stripPosL ns = nodesOf xs
    | [], _, ns, h => by simp only [NodeIsL] at h; subst h; rfl
    | x :: xs, hd, ns, h => by
      obtain ⟨n, ns', rfl, hn, hns⟩ := h
      simp only [IsDataL'] at hd
      simp only [stripPosL, nodesOf, nodeIs_strip dr x hd.1 n hn, nodeIsL_strip dr xs hd.2 ns' hns]
  theorem nodeIsM_strip (dr : DecRenderer) : ∀ kvs, IsDataM' dr kvs → ∀ ks vs, NodeIsM kvs ks vs →
      stripPosL ks = keyNodes kvs ∧ stripPosL vs = valNodes kvs
    | [], _, ks, vs, h => by simp only [NodeIsM] at h; obtain ⟨rfl, rfl⟩ := h; exact ⟨rfl, rfl⟩
    | (k, v) :: rest, hd, ks, vs, h => by
      obtain ⟨kn, ks', vn, vs', rfl, rfl, hkn, hvn, hns⟩ := h
      simp only [IsDataM'] at hd
      have := nodeIsM_strip dr rest hd.2.2.2 ks' vs' hns
      simp only [stripPosL, keyNodes, valNodes, nodeIs_strip dr k hd.2.1 kn hkn,
        nodeIs_strip dr v hd.2.2.1 vn hvn, this.1, this.2, and_self]
end

/-! ### evaluation fuel -/

mutual
  /-- fuel that suffices to evaluate the literal of `v` (one unit per nesting level and per item) -/
  def need : Val → Nat
    | .list xs => needL xs + 1
    | .set xs => needL xs + 1
    | .map kvs => needM kvs + 1
    | _ => 1
  def needL : List Val → Nat
    | [] => 1
    | x :: xs => max (need x) (needL xs) + 1
  def needM : List (Val × Val) → Nat
    | [] => 1
    | (k, v) :: rest => max (max (need k) (need v)) (needM rest) + 1
end

end Ckl.C08F
