/-
  C08 (all containers, decimals included): `C08F.roundtrip_parse` extended to data values that also
  contain decimals (finite binary64 values), at any position of lists, SETS and MAPS (as element,
  key or value), nested to any depth: printing such a value and parsing the text succeeds and
  yields the literal AST of the value (`roundtrip_parseP`); the AST determines the value
  (`NodeIsP_inj`), hence printing is injective on these values (`render_injectiveP`).

  Definitions (`IsDataP`, `tokensOfP`, `NodeIsP`): `Lemmas/C08DecFullDefs.lean`;
  scanner part (`scans_valP`, `data_tokensP`): `Lemmas/C08DecFullScan.lean`;
  parser part (`AtomP`, `LitP`, `LitP.expr`, `LitP.parse`): `Lemmas/C08DecFullParse.lean`;
  bridge (`lit_valP`): `Lemmas/C08DecFullBridge.lean`.
  `decRepr m e` is never evaluated on variables: everything about it comes from
  `C08D.decRepr_spec` (via `C08DL.decToks_spec` / `C08DL.dec_tokens`).
-/
import CklVerif.Lemmas.C08DecFullScan
import CklVerif.Lemmas.C08DecFullBridge
namespace Ckl.C08DF
open Ckl Ckl.Lexer Ckl.Parser Ckl.C08 Ckl.C08D Ckl.C08F

/-- **roundtrip_parseP**: printing a data value (NULL, booleans, ints, strings, decimals, and
    lists / sets / maps of them) and parsing the text (alone or followed by whitespace) succeeds
    and yields the literal AST of the value, positions aside. -/
theorem roundtrip_parseP (file : String) (v : Val) (hv : IsDataP v) (w : List Char)
    (hw : ∀ c ∈ w, c ∈ [' ', '\t', '\r', '\n']) :
    ∃ n, parseScript (render v ++ w) file = .ok n ∧ NodeIsP v n := by
  have hs := data_tokensP file v hv w hw
  unfold scanTV at hs
  cases hsc : scan (render v ++ w) file with
  | error e => rw [hsc] at hs; cases hs
  | ok l =>
    rw [hsc] at hs
    simp only [Option.some.injEq] at hs
    obtain ⟨n, hn, hnn⟩ := lit_valP v hv l hs
    refine ⟨n, ?_, hnn⟩
    rw [parseScript_eq, hsc]
    exact hn.parse _ file

/-- **roundtrip_parseP_unique**: the texts of two data values (each alone or followed by
    whitespace) parse to the same AST only if the values are equal -/
theorem roundtrip_parseP_unique (file : String) (v v' : Val) (hv : IsDataP v) (hv' : IsDataP v')
    (w w' : List Char) (hw : ∀ c ∈ w, c ∈ [' ', '\t', '\r', '\n'])
    (hw' : ∀ c ∈ w', c ∈ [' ', '\t', '\r', '\n'])
    (h : parseScript (render v ++ w) file = parseScript (render v' ++ w') file) : v = v' := by
  obtain ⟨n, hn, hnn⟩ := roundtrip_parseP file v hv w hw
  obtain ⟨n', hn', hnn'⟩ := roundtrip_parseP file v' hv' w' hw'
  rw [hn, hn'] at h
  cases h
  exact NodeIsP_inj v v' n hnn hnn'

/-- **render_injectiveP**: different data values (decimals included, no canonical-order
    assumption on sets / maps) have different texts -/
theorem render_injectiveP (v v' : Val) (hv : IsDataP v) (hv' : IsDataP v')
    (h : render v = render v') : v = v' :=
  roundtrip_parseP_unique "f" v v' hv hv' [] [] (by simp) (by simp) (by rw [h])

/-! ### non-vacuity -/

/-- `<<<'k' => [0.1, <<-0.25, 2>>], 1.5 => <<<>>> >>>`
    (0.1 = 3602879701896397 / 2^55, -0.25 = -1 / 2^2, 1.5 = 3 / 2^1) -/
def exP : Val :=
  .map [(.str ['k'], .list [.dec 3602879701896397 55, .set [.dec (-1) 2, .int 2]]), (.dec 3 1, .map [])]

theorem exP_data : IsDataP exP := by
  simp only [exP, IsDataP, IsDataPL, IsDataPM, and_true, true_and, ne_eq, reduceCtorEq,
    not_false_eq_true]
  refine ⟨⟨?_, ?_, ?_⟩, ?_⟩ <;> decide +kernel

example : ∃ n, parseScript (render exP ++ [' ', '\n']) "f" = .ok n ∧ NodeIsP exP n :=
  roundtrip_parseP "f" exP exP_data [' ', '\n'] (by decide)

example : scanTV (render exP ++ ['\n']) "f" = some (tokensOfP exP) :=
  data_tokensP "f" exP exP_data ['\n'] (by decide)

example : exP ≠ .map [] → render exP ≠ render (.map []) :=
  fun h e => h (render_injectiveP exP (.map []) exP_data (by simp only [IsDataP, IsDataPM]) e)

/-- the AST relation is not vacuous either: a literal AST of `exP` -/
example (p : Pos) : NodeIsP exP
    (.map [.lit (.str ['k']) p, .lit (.dec 3 1) p]
      [.list [.lit (.dec 3602879701896397 55) p, .set [.lit (.dec (-1) 2) p, .lit (.int 2) p] p] p,
       .map [] [] p] p) := by
  simp [exP, NodeIsP, NodeIsPL, NodeIsPM]

/-- the values of `C08F` are covered -/
example : IsDataP (.set [.str ['a'], .set [.int 1]]) :=
  isDataP_of_isData' _ (by simp [IsData', IsDataL']; decide)

-- tests of the executable model (not theorems): the text, the tokens and the AST of the example
#guard render exP = "<<<'k' => [0.1, <<-0.25, 2>>], 1.5 => <<<>>> >>>".toList
#guard tokensOfP exP
  = [(['<', '<', '<'], ip), (['k'], .string), (['=', '>'], ip), (['['], ip),
     (['0', '.', '1'], .decimal), ([','], ip), (['<', '<'], ip), (['-'], .operator),
     (['0', '.', '2', '5'], .decimal), ([','], ip), (['2'], .int), (['>', '>'], ip), ([']'], ip),
     ([','], ip), (['1', '.', '5'], .decimal), (['=', '>'], ip), (['<', '<', '<'], ip),
     (['>', '>', '>'], ip), (['>', '>', '>'], ip)]
#guard C08.scanTV (render exP) "f" = some (tokensOfP exP)
#guard C08.scanTV (render exP ++ [' ', '\n']) "f" = some (tokensOfP exP)
#guard (match parseScript (render exP) "f" with
  | .ok n => toString (repr (C08F.stripPos n)) == toString (repr (C08F.nodeOf exP))
  | .error _ => false)
-- a decimal directly in front of `>>` / `>>>` and as the last key / value
#guard (match parseScript (render (.set [.dec (-1) 2, .dec 3 1])) "f" with
  | .ok n => toString (repr (C08F.stripPos n)) == toString (repr (C08F.nodeOf (.set [.dec (-1) 2, .dec 3 1])))
  | .error _ => false)
#guard (match parseScript (render (.map [(.dec (-3) 1, .dec (-1) 2)])) "f" with
  | .ok n => toString (repr (C08F.stripPos n)) == toString (repr (C08F.nodeOf (.map [(.dec (-3) 1, .dec (-1) 2)])))
  | .error _ => false)

end Ckl.C08DF
