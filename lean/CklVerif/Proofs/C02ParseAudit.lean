/-
  Axiom audit of `Proofs/C02Parse.lean`: every theorem may depend only on
  `propext`, `Classical.choice`, `Quot.sound`.
-/
import CklVerif.Proofs.C02Parse

#print axioms Ckl.C02P.good_all
#print axioms Ckl.C02P.renderAt_eq
#print axioms Ckl.C02P.renderAt_unchanged_iff
#print axioms Ckl.C02P.parse_level
#print axioms Ckl.C02P.plainNode_toNode
#print axioms Ckl.C02P.parseWith_render_tokens
#print axioms Ckl.C02P.parse_render_tokens
#print axioms Ckl.C02P.parse_render
#print axioms Ckl.C02P.toNode_stripParens
#print axioms Ckl.C02P.toNodeL_stripParens
#print axioms Ckl.C02P.toNodeC_stripParens
#print axioms Ckl.C02P.parse_render_parens
#print axioms Ckl.C02P.parse_paren_top
#print axioms Ckl.C02P.toNode_paren
#print axioms Ckl.C02P.sub_left_assoc
#print axioms Ckl.C02P.sub_right_nested
#print axioms Ckl.C02P.add_mul_prec
#print axioms Ckl.C02P.mul_add_prec
#print axioms Ckl.C02P.or_and_prec
#print axioms Ckl.C02P.not_eq_prec
#print axioms Ckl.C02P.neg_mul_prec
#print axioms Ckl.C02P.cmp_chain
#print axioms Ckl.C02P.cmp_single
#print axioms Ckl.C02P.or_flat
#print axioms Ckl.C02P.not_not_error
#print axioms Ckl.C02P.neg_neg_error
