/-
  C14 (spelling part) — the meaning of a program does not depend on the SPELLING of a literal
  or of an operator, nor on an optional trailing semicolon:

  1. int numerals: decimal / `0x…` (lower and upper case digits) / `0b…`, each with `_` separators
     at arbitrary positions, denote the same int (conversion functions, scanner, `parseScript`);
  2. string literals: single- and double-quoted spellings with the scanner's escapes;
  3. `!=` and `<>`;
  4. a trailing `;`.

  The scanner statements build on `Proofs/C14Lexer.lean` (layout) and `Proofs/C08.lean`
  (round trips of the canonical spellings).
-/
import CklVerif.Lemmas.C14SpellNum
import CklVerif.Lemmas.C14SpellStr
import CklVerif.Lemmas.C14SpellOp
import CklVerif.Lemmas.C14SpellParse
import CklVerif.Proofs.C08
import CklVerif.Proofs.C14Lexer
namespace Ckl.C14S
open Ckl Ckl.Lexer Ckl.Parser

/-! ## Part 1: int numerals -/

/-- the canonical decimal numeral of `n` -/
def decDigits (n : Nat) : List Char := Nat.toDigits 10 n
/-- the hex digits of `n`, lower case (`ff`) -/
def hexLower (n : Nat) : List Char := Nat.toDigits 16 n
/-- the hex digits of `n`, upper case (`FF`) -/
def hexUpper (n : Nat) : List Char := (Nat.toDigits 16 n).map Char.toUpper
/-- the binary digits of `n` -/
def binDigits (n : Nat) : List Char := Nat.toDigits 2 n

/-- `u` is the digit string `ds` with `_` inserted at arbitrary positions (also leading, trailing
    and repeated: the scanner removes every `_` before converting) -/
def Underscored (ds u : List Char) : Prop := dropUnderscores u = ds

instance (ds u : List Char) : Decidable (Underscored ds u) := by unfold Underscored; infer_instance

theorem Underscored.refl {ds : List Char} (h : '_' ∉ ds) : Underscored ds ds :=
  dropUnderscores_of_not_mem h

/-- inserting one more `_` anywhere -/
theorem Underscored.insert {ds a b : List Char} (h : Underscored ds (a ++ b)) :
    Underscored ds (a ++ '_' :: b) := by
  unfold Underscored at *; rw [dropUnderscores_insert]; exact h

theorem decDigits_no_underscore (n : Nat) : '_' ∉ decDigits n := by
  intro h; exact absurd (toDigits_mem_digits n _ h) (by decide)
theorem hexLower_no_underscore (n : Nat) : '_' ∉ hexLower n := by
  intro h; exact absurd (toDigits16_mem n _ h) (by decide)
theorem hexUpper_no_underscore (n : Nat) : '_' ∉ hexUpper n := by
  intro h; exact absurd (toDigits16_upper_mem n _ h) (by decide)
theorem binDigits_no_underscore (n : Nat) : '_' ∉ binDigits n := by
  intro h; exact absurd (toDigits2_mem n _ h) (by decide)

/-! ### 1a: the conversion functions

  `litDec u` is `int(u.replace("_", ""))` (scanner state 7 + parser), `litRadix b u` is
  `int(str(int(u.replace("_", ""), b)))` (scanner states 71 / 72 + parser). -/

/-- **decimal**: the decimal numeral of `n`, with `_` anywhere, converts to `n` -/
theorem litDec_spelling (n : Nat) (hlim : n < litLimit) (u : List Char)
    (hu : Underscored (decDigits n) u) : litDec u = some n := by
  unfold litDec; rw [hu]
  exact C08.parseIntLit_toDigits n ((digits_le_iff n).mpr hlim)

/-- **hex, lower case** -/
theorem litRadix_hexLower (n : Nat) (hlim : n < litLimit) (u : List Char)
    (hu : Underscored (hexLower n) u) : litRadix 16 u = some n := by
  have hv : ofDigits 16 (dropUnderscores u) = n := by
    rw [hu]; exact ofDigits_toDigits 16 (by decide) (by decide) n
  rw [litRadix_eq (by rw [hu]; exact Nat.toDigits_ne_nil) (by rw [hv]; exact hlim), hv]

/-- **hex, upper case** -/
theorem litRadix_hexUpper (n : Nat) (hlim : n < litLimit) (u : List Char)
    (hu : Underscored (hexUpper n) u) : litRadix 16 u = some n := by
  have hv : ofDigits 16 (dropUnderscores u) = n := by
    rw [hu]; exact ofDigits_toDigits_upper n
  rw [litRadix_eq (by rw [hu]; simp [hexUpper]) (by rw [hv]; exact hlim), hv]

/-- **binary** -/
theorem litRadix_bin (n : Nat) (hlim : n < litLimit) (u : List Char)
    (hu : Underscored (binDigits n) u) : litRadix 2 u = some n := by
  have hv : ofDigits 2 (dropUnderscores u) = n := by
    rw [hu]; exact ofDigits_toDigits 2 (by decide) (by decide) n
  rw [litRadix_eq (by rw [hu]; exact Nat.toDigits_ne_nil) (by rw [hv]; exact hlim), hv]

/-- **int_spellings_agree**: all spellings of `n` convert to the same int -/
theorem int_spellings_agree (n : Nat) (hlim : n < litLimit) (ud uh uH ub : List Char)
    (hd : Underscored (decDigits n) ud) (hh : Underscored (hexLower n) uh)
    (hH : Underscored (hexUpper n) uH) (hb : Underscored (binDigits n) ub) :
    litDec ud = some n ∧ litRadix 16 uh = some n ∧ litRadix 16 uH = some n ∧
      litRadix 2 ub = some n :=
  ⟨litDec_spelling n hlim ud hd, litRadix_hexLower n hlim uh hh, litRadix_hexUpper n hlim uH hH,
    litRadix_bin n hlim ub hb⟩

/-- any hex digit string (mixed case, leading zeros, `_`) converts to its positional value -/
theorem litRadix_value (base : Nat) (u : List Char) (hne : dropUnderscores u ≠ [])
    (hlim : ofDigits base (dropUnderscores u) < litLimit) :
    litRadix base u = some (ofDigits base (dropUnderscores u)) := litRadix_eq hne hlim

/-- leading zeros are ignored (`0x00ff`) -/
theorem litRadix_leading_zeros (base k : Nat) (ds : List Char) (hne : ds ≠ []) (hu : '_' ∉ ds)
    (hlim : ofDigits base ds < litLimit) :
    litRadix base (List.replicate k '0' ++ ds) = litRadix base ds := by
  have h0 : '_' ∉ List.replicate k '0' ++ ds := by
    intro h
    rcases List.mem_append.mp h with h | h
    · exact absurd (List.eq_of_mem_replicate h) (by decide)
    · exact hu h
  have e1 := dropUnderscores_of_not_mem h0
  have e2 := dropUnderscores_of_not_mem hu
  rw [litRadix_eq (by rw [e1]; simp [hne]) (by rw [e1, ofDigits_leading_zeros]; exact hlim),
    litRadix_eq (by rw [e2]; exact hne) (by rw [e2]; exact hlim), e1, e2, ofDigits_leading_zeros]

/-- the digit limit is needed: beyond it both conversions fail (`ValueError` in CPython) -/
theorem respell_too_long (base : Nat) (u : List Char)
    (h : litLimit ≤ ofDigits base (dropUnderscores u)) : respell base u = none := by
  unfold respell
  simp only
  split
  · rfl
  · rw [if_pos]
    have := (digits_le_iff (ofDigits base (dropUnderscores u)))
    unfold maxStrDigits
    omega

/-- no digits at all (`0x`, `0x_`) is an error -/
theorem respell_no_digits (base : Nat) (u : List Char) (h : dropUnderscores u = []) :
    respell base u = none := by
  unfold respell; simp [h]

/-! non-vacuity: 255, 0, 2^64 -/

example : Underscored (hexLower 255) ['f', '_', 'f'] ∧ Underscored (hexUpper 255) ['F', 'F'] ∧
    Underscored (binDigits 255) ['1', '1', '1', '1', '_', '1', '1', '1', '1'] ∧
    Underscored (decDigits 255) ['2', '5', '5'] := by decide

/-- small numbers are below the limit -/
theorem lt_litLimit {n : Nat} (h : (Nat.toDigits 10 n).length ≤ 4300) : n < litLimit :=
  (digits_le_iff n).mp h

example : litDec ['2', '5', '5'] = some 255 ∧ litRadix 16 ['f', '_', 'f'] = some 255 ∧
    litRadix 16 ['F', 'F'] = some 255 ∧
    litRadix 2 ['1', '1', '1', '1', '_', '1', '1', '1', '1'] = some 255 :=
  int_spellings_agree 255 (lt_litLimit (by decide)) _ _ _ _ (by decide) (by decide) (by decide)
    (by decide)

example : litRadix 16 ['0'] = some 0 ∧ litRadix 2 ['0'] = some 0 ∧ litDec ['0'] = some 0 :=
  ⟨litRadix_hexLower 0 (lt_litLimit (by decide)) _ (by decide),
    litRadix_bin 0 (lt_litLimit (by decide)) _ (by decide),
    litDec_spelling 0 (lt_litLimit (by decide)) _ (by decide)⟩

/-- 2^64 = 18446744073709551616 = 0x1_0000_0000_0000_0000 -/
example : litRadix 16 ['1', '_', '0', '0', '0', '0', '_', '0', '0', '0', '0', '_', '0', '0', '0', '0',
      '_', '0', '0', '0', '0'] = some (2 ^ 64) ∧
    litDec ['1', '8', '_', '4', '4', '6', '_', '7', '4', '4', '_', '0', '7', '3', '_', '7', '0', '9',
      '_', '5', '5', '1', '_', '6', '1', '6'] = some (2 ^ 64) :=
  ⟨litRadix_hexLower (2 ^ 64) (lt_litLimit (by decide)) _ (by decide),
    litDec_spelling (2 ^ 64) (lt_litLimit (by decide)) _ (by decide)⟩

/-! ### 1b: the scanner

  A numeral alone (followed by any whitespace) scans to one `int` token whose value is the
  canonical decimal numeral: hex and binary numerals are re-spelled, `_` is dropped. -/

/-- `0x…` with hex digits of either case and `_` anywhere -/
theorem scan_hex (name : String) (u w : List Char) (hu : ∀ c ∈ u, c ∈ hexDigits ∨ c = '_')
    (hne : dropUnderscores u ≠ []) (hlim : ofDigits 16 (dropUnderscores u) < litLimit)
    (hw : ∀ c ∈ w, c ∈ whitespace) :
    ∃ col, scan ('0' :: 'x' :: u ++ w) name =
      .ok [⟨Nat.toDigits 10 (ofDigits 16 (dropUnderscores u)), .int, ⟨name, 1, col⟩⟩] := by
  apply scan_one_token hw
  intro t ht
  obtain ⟨σ', col, hr, hk, ho⟩ := run_radix_literalU (name := name) radix16 'x' (by decide)
    step70_x (σ := {}) rfl rfl hu hne hlim ht
  exact ⟨σ', col, 0, by simpa using hr, hk, ho⟩

/-- `0b…` with binary digits and `_` anywhere -/
theorem scan_bin (name : String) (u w : List Char) (hu : ∀ c ∈ u, c ∈ ['0', '1'] ∨ c = '_')
    (hne : dropUnderscores u ≠ []) (hlim : ofDigits 2 (dropUnderscores u) < litLimit)
    (hw : ∀ c ∈ w, c ∈ whitespace) :
    ∃ col, scan ('0' :: 'b' :: u ++ w) name =
      .ok [⟨Nat.toDigits 10 (ofDigits 2 (dropUnderscores u)), .int, ⟨name, 1, col⟩⟩] := by
  apply scan_one_token hw
  intro t ht
  obtain ⟨σ', col, hr, hk, ho⟩ := run_radix_literalU (name := name) radix2 'b' (by decide)
    step70_b (σ := {}) rfl rfl hu hne hlim ht
  exact ⟨σ', col, 0, by simpa using hr, hk, ho⟩

/-- a decimal numeral: a digit, then digits and `_` -/
theorem scan_dec (name : String) (d : Char) (rest w : List Char) (hd : d ∈ digits)
    (hrest : ∀ c ∈ rest, DigOrU c) (hw : ∀ c ∈ w, c ∈ whitespace) :
    ∃ col, scan (d :: rest ++ w) name = .ok [⟨dropUnderscores (d :: rest), .int, ⟨name, 1, col⟩⟩] := by
  apply scan_one_token hw
  intro t ht
  obtain ⟨σ', col, hr, hk, ho⟩ := run_int_literal (name := name) (σ := {}) rfl rfl hd hrest ht
  exact ⟨σ', col, 0, by simpa using hr, hk, ho⟩

/-- the first character of a decimal numeral must be a digit: `_1` is an identifier -/
example : C14.tokTV (scan ['_', '1'] "f") = some [(['_', '1'], .identifier)] := by decide

/-- an underscored decimal numeral has the shape the scanner wants -/
theorem dec_shape {n : Nat} {u : List Char} (hu : Underscored (decDigits n) u)
    (hhead : u.head? ≠ some '_') :
    ∃ d rest, u = d :: rest ∧ d ∈ digits ∧ ∀ c ∈ rest, DigOrU c := by
  have hall := mem_of_dropUnderscores hu (al := digits) (toDigits_mem_digits n)
  cases u with
  | nil => exact absurd hu.symm (by simp [dropUnderscores, decDigits])
  | cons d rest =>
    refine ⟨d, rest, rfl, ?_, fun c hc => hall c (List.mem_cons_of_mem _ hc)⟩
    rcases hall d (by simp) with h | h
    · exact h
    · subst h; exact absurd rfl hhead

/-! ### 1c: `parseScript` of the literal alone -/

theorem parseScript_int_of_scan {src : List Char} {file : String} {v : List Char} {col : Int}
    {n : Nat} (hs : scan src file = .ok [⟨v, .int, ⟨file, 1, col⟩⟩])
    (hv : Parser.parseIntLit v = some n) :
    parseScript src file = .ok (.lit (.int n) ⟨file, 1, col⟩) := by
  rw [C08.parseScript_eq, hs]
  exact C01.parse_int file ⟨v, .int, ⟨file, 1, col⟩⟩ n rfl hv

/-- `0x…` denotes the positional value of its digits -/
theorem parseScript_hex (file : String) (u w : List Char) (hu : ∀ c ∈ u, c ∈ hexDigits ∨ c = '_')
    (hne : dropUnderscores u ≠ []) (hlim : ofDigits 16 (dropUnderscores u) < litLimit)
    (hw : ∀ c ∈ w, c ∈ whitespace) :
    ∃ pos, parseScript ('0' :: 'x' :: u ++ w) file =
      .ok (.lit (.int (ofDigits 16 (dropUnderscores u))) pos) := by
  obtain ⟨col, hs⟩ := scan_hex file u w hu hne hlim hw
  exact ⟨_, parseScript_int_of_scan hs (C08.parseIntLit_toDigits _ ((digits_le_iff _).mpr hlim))⟩

/-- `0b…` denotes the positional value of its digits -/
theorem parseScript_bin (file : String) (u w : List Char) (hu : ∀ c ∈ u, c ∈ ['0', '1'] ∨ c = '_')
    (hne : dropUnderscores u ≠ []) (hlim : ofDigits 2 (dropUnderscores u) < litLimit)
    (hw : ∀ c ∈ w, c ∈ whitespace) :
    ∃ pos, parseScript ('0' :: 'b' :: u ++ w) file =
      .ok (.lit (.int (ofDigits 2 (dropUnderscores u))) pos) := by
  obtain ⟨col, hs⟩ := scan_bin file u w hu hne hlim hw
  exact ⟨_, parseScript_int_of_scan hs (C08.parseIntLit_toDigits _ ((digits_le_iff _).mpr hlim))⟩

/-- **parseScript_int_spellings**: for every `n` below the digit limit, the decimal numeral, the
    hex numeral in lower and in upper case, and the binary numeral — each with `_` separators at
    arbitrary positions (the decimal numeral must not start with `_`), each followed by arbitrary
    whitespace — all parse to the same AST, the int literal `n`; only the positions differ. -/
theorem parseScript_int_spellings (file : String) (n : Nat) (hlim : n < litLimit)
    (ud uh uH ub wd wh wH wb : List Char)
    (hd : Underscored (decDigits n) ud) (hhead : ud.head? ≠ some '_')
    (hh : Underscored (hexLower n) uh) (hH : Underscored (hexUpper n) uH)
    (hb : Underscored (binDigits n) ub)
    (hwd : ∀ c ∈ wd, c ∈ whitespace) (hwh : ∀ c ∈ wh, c ∈ whitespace)
    (hwH : ∀ c ∈ wH, c ∈ whitespace) (hwb : ∀ c ∈ wb, c ∈ whitespace) :
    ∃ pd ph pH pb,
      parseScript (ud ++ wd) file = .ok (.lit (.int n) pd) ∧
      parseScript ('0' :: 'x' :: uh ++ wh) file = .ok (.lit (.int n) ph) ∧
      parseScript ('0' :: 'x' :: uH ++ wH) file = .ok (.lit (.int n) pH) ∧
      parseScript ('0' :: 'b' :: ub ++ wb) file = .ok (.lit (.int n) pb) := by
  have hl := (digits_le_iff n).mpr hlim
  -- decimal
  obtain ⟨d, rest, rfl, hdd, hrest⟩ := dec_shape hd hhead
  obtain ⟨cd, hsd⟩ := scan_dec file d rest wd hdd hrest hwd
  have hpd := parseScript_int_of_scan (n := n) hsd (by rw [hd]; exact C08.parseIntLit_toDigits n hl)
  -- hex, lower case
  have hvh : ofDigits 16 (dropUnderscores uh) = n := by
    rw [hh]; exact ofDigits_toDigits 16 (by decide) (by decide) n
  obtain ⟨ph, hph⟩ := parseScript_hex file uh wh (mem_of_dropUnderscores hh (toDigits16_mem n))
    (by rw [hh]; exact Nat.toDigits_ne_nil) (by rw [hvh]; exact hlim) hwh
  -- hex, upper case
  have hvH : ofDigits 16 (dropUnderscores uH) = n := by rw [hH]; exact ofDigits_toDigits_upper n
  obtain ⟨pH, hpH⟩ := parseScript_hex file uH wH (mem_of_dropUnderscores hH (toDigits16_upper_mem n))
    (by rw [hH]; simp [hexUpper]) (by rw [hvH]; exact hlim) hwH
  -- binary
  have hvb : ofDigits 2 (dropUnderscores ub) = n := by
    rw [hb]; exact ofDigits_toDigits 2 (by decide) (by decide) n
  obtain ⟨pb, hpb⟩ := parseScript_bin file ub wb (mem_of_dropUnderscores hb (toDigits2_mem n))
    (by rw [hb]; exact Nat.toDigits_ne_nil) (by rw [hvb]; exact hlim) hwb
  rw [hvh] at hph; rw [hvH] at hpH; rw [hvb] at hpb
  exact ⟨_, ph, pH, pb, hpd, hph, hpH, hpb⟩

/-- `parseScript (hexText n) = parseScript (decText n)` modulo positions, in the plain form -/
theorem parseScript_hex_eq_dec (file : String) (n : Nat) (hlim : n < litLimit) :
    ∃ p1 p2, parseScript ('0' :: 'x' :: hexLower n) file = .ok (.lit (.int n) p1) ∧
      parseScript (decDigits n) file = .ok (.lit (.int n) p2) := by
  obtain ⟨pd, ph, _, _, h1, h2, _, _⟩ := parseScript_int_spellings file n hlim
    (decDigits n) (hexLower n) (hexUpper n) (binDigits n) [] [] [] []
    (Underscored.refl (decDigits_no_underscore n))
    (by
      intro h
      have : '_' ∈ decDigits n := by
        cases hd : decDigits n with
        | nil => rw [hd] at h; cases h
        | cons a b => rw [hd] at h; simp at h; subst h; simp
      exact decDigits_no_underscore n this)
    (Underscored.refl (hexLower_no_underscore n)) (Underscored.refl (hexUpper_no_underscore n))
    (Underscored.refl (binDigits_no_underscore n))
    (fun _ h => nomatch h) (fun _ h => nomatch h) (fun _ h => nomatch h) (fun _ h => nomatch h)
  simp only [List.append_nil] at h1 h2
  exact ⟨ph, pd, h2, h1⟩

/-- non-vacuity: `0xFF`, `0xf_f`, `0b1111_1111`, `2_55` followed by different whitespace -/
example : ∃ pd ph pH pb,
    parseScript (['2', '_', '5', '5'] ++ [' ']) "f" = .ok (.lit (.int 255) pd) ∧
    parseScript ('0' :: 'x' :: ['f', '_', 'f'] ++ []) "f" = .ok (.lit (.int 255) ph) ∧
    parseScript ('0' :: 'x' :: ['F', 'F'] ++ ['\n']) "f" = .ok (.lit (.int 255) pH) ∧
    parseScript ('0' :: 'b' :: ['1', '1', '1', '1', '_', '1', '1', '1', '1'] ++ ['\t', '\r']) "f"
      = .ok (.lit (.int 255) pb) :=
  parseScript_int_spellings "f" 255 (lt_litLimit (by decide)) _ _ _ _ _ _ _ _ (by decide) (by decide)
    (by decide) (by decide) (by decide) (by decide) (by decide) (by decide) (by decide)

/-- the model accepts `_` also in leading, trailing and doubled position of a radix numeral, and
    mixed-case digits; an upper-case prefix `0X` is NOT a numeral -/
example : C14.tokTV (scan ['0', 'x', '_', 'f', '_', '_', 'F', '_'] "f") = some [(['2', '5', '5'], .int)] ∧
    C14.tokTV (scan ['0', 'X', 'F', 'F'] "f") = some [(['0', 'X', 'F', 'F'], .identifier)] ∧
    C14.tokTV (scan ['0', 'B', '1'] "f") = some [(['0', 'B', '1'], .identifier)] ∧
    C14.tokTV (scan ['0', 'x'] "f") = none ∧ C14.tokTV (scan ['0', 'x', '_'] "f") = none := by
  decide

/-! ## Part 2: string literals

  `quoteWith q s` writes the string `s` as a literal delimited by `q`, escaping backslash, the
  delimiter itself and CR / LF / TAB (`quoteWith '\'' s` is what `__repr__` prints, see
  `quoteWith_single`).  Everything is proved once for both quote styles (`Quote`). -/

/-- the two quote styles of the language -/
inductive Style : Char → Lexer.St → Lexer.St → Lexer.St → Lexer.St → Prop
  | single : Style '\'' .s4 .s41 .s411 .s412
  | double : Style '"' .s3 .s31 .s311 .s312

theorem Style.quote {q : Char} {a b c d : Lexer.St} (h : Style q a b c d) : Quote q a b c d := by
  cases h
  · exact quoteS
  · exact quoteD

/-- **string_token_spelling**: in either quote style, the literal `quoteWith q s` makes the scanner
    emit exactly one token, the `string` token with value `s`, and leaves it at a token boundary on
    the same line; the scan continues with `rest`. -/
theorem string_token_spelling {q : Char} {a b c d : Lexer.St} (hq : Style q a b c d) (name : String)
    (σ : LexSt) (h0 : σ.core.state = .s0) (htok : σ.core.token = []) (s rest : List Char) :
    ∃ σ' col, run name σ (quoteWith q s ++ rest) = run name σ' rest ∧ σ'.core = σ.core ∧
      σ'.out = (⟨s, .string, ⟨name, σ.line, col⟩⟩, σ.pos) :: σ.out ∧ σ'.line = σ.line := by
  obtain ⟨σ', col, hr, hk, ho, hl⟩ := run_quoted (name := name) hq.quote h0 htok s
  exact ⟨σ', col, run_append_ok _ hr, hk, ho, hl⟩

/-- the literal alone (followed by any whitespace) scans to the single string token `s` -/
theorem scan_quoteWith {q : Char} {a b c d : Lexer.St} (hq : Style q a b c d) (name : String)
    (s w : List Char) (hw : ∀ c ∈ w, c ∈ whitespace) :
    ∃ col, scan (quoteWith q s ++ w) name = .ok [⟨s, .string, ⟨name, 1, col⟩⟩] := by
  obtain ⟨σ', col, hr, hk, ho, _⟩ := string_token_spelling hq name {} rfl rfl s (w ++ [' '])
  refine ⟨col, ?_⟩
  rw [C08.scan_finish hw hr (by rw [hk]), ho]
  rfl

/-- **quote_styles_scan**: `scan (quoteWith '\'' s) = scan (quoteWith '"' s)` modulo positions: both
    are the single `string` token with value `s`, for ALL `s` -/
theorem quote_styles_scan (name : String) (s w1 w2 : List Char) (hw1 : ∀ c ∈ w1, c ∈ whitespace)
    (hw2 : ∀ c ∈ w2, c ∈ whitespace) :
    ∃ c1 c2, scan (quoteWith '\'' s ++ w1) name = .ok [⟨s, .string, ⟨name, 1, c1⟩⟩] ∧
      scan (quoteWith '"' s ++ w2) name = .ok [⟨s, .string, ⟨name, 1, c2⟩⟩] := by
  obtain ⟨c1, h1⟩ := scan_quoteWith .single name s w1 hw1
  obtain ⟨c2, h2⟩ := scan_quoteWith .double name s w2 hw2
  exact ⟨c1, c2, h1, h2⟩

theorem quote_styles_tokTV (name : String) (s : List Char) :
    C14.tokTV (scan (quoteWith '\'' s) name) = C14.tokTV (scan (quoteWith '"' s) name) := by
  obtain ⟨c1, c2, h1, h2⟩ := quote_styles_scan name s [] [] (fun _ h => nomatch h)
    (fun _ h => nomatch h)
  simp only [List.append_nil] at h1 h2
  rw [h1, h2]; rfl

/-- **parseScript_quote_styles**: both spellings parse to the same AST, the string literal `s` -/
theorem parseScript_quote_styles (file : String) (s w1 w2 : List Char)
    (hw1 : ∀ c ∈ w1, c ∈ whitespace) (hw2 : ∀ c ∈ w2, c ∈ whitespace) :
    ∃ p1 p2, parseScript (quoteWith '\'' s ++ w1) file = .ok (.lit (.str s) p1) ∧
      parseScript (quoteWith '"' s ++ w2) file = .ok (.lit (.str s) p2) := by
  obtain ⟨c1, c2, h1, h2⟩ := quote_styles_scan file s w1 w2 hw1 hw2
  refine ⟨⟨file, 1, c1⟩, ⟨file, 1, c2⟩, ?_, ?_⟩
  · rw [C08.parseScript_eq, h1]; exact C01.parse_string file _ rfl
  · rw [C08.parseScript_eq, h2]; exact C01.parse_string file _ rfl

/-- **quote_style_in_context**: between arbitrary other program text (`u` ending at a token
    boundary), the quote style of a string literal does not change the (value, type) sequence of
    the tokens, nor whether the scan fails -/
theorem quote_style_in_context (name : String) (u v s : List Char) (hu : C14.AtBoundary name u) :
    C14.tokTV (scan (u ++ quoteWith '\'' s ++ v) name) =
      C14.tokTV (scan (u ++ quoteWith '"' s ++ v) name) := by
  rw [C14.tokTV_scan, C14.tokTV_scan]
  have e : ∀ q, u ++ quoteWith q s ++ v ++ [' '] = u ++ (quoteWith q s ++ (v ++ [' '])) := by
    intro q; simp
  rw [e, e]
  cases hr : run name {} u with
  | error err => rw [run_append_error _ hr, run_append_error _ hr]
  | ok σu =>
    have h0 := hu σu hr
    have htok := C14.boundary_token_empty name u σu hr h0
    rw [run_append_ok _ hr, run_append_ok _ hr]
    obtain ⟨σ1, c1, hr1, hk1, ho1, _⟩ := string_token_spelling .single name σu h0 htok s (v ++ [' '])
    obtain ⟨σ2, c2, hr2, hk2, ho2, _⟩ := string_token_spelling .double name σu h0 htok s (v ++ [' '])
    rw [hr1, hr2]
    apply C14.runTV_of_simE
    apply sim_run
    exact ⟨hk1.trans hk2.symm, by rw [ho1, ho2]; rfl⟩

/-- the variant that also writes the other control characters (code < 32) as `\xHH`: in either
    quote style the literal scans to the single `string` token `s`, for ALL `s` -/
theorem scan_quoteHexWith {q : Char} {a b c d : Lexer.St} (hq : Style q a b c d) (name : String)
    (s w : List Char) (hw : ∀ c ∈ w, c ∈ whitespace) :
    ∃ col, scan (quoteHexWith q s ++ w) name = .ok [⟨s, .string, ⟨name, 1, col⟩⟩] := by
  obtain ⟨σ', col, hr, hk, ho, _⟩ := run_quotedHex (name := name) hq.quote (σ := {}) rfl rfl rfl s
  refine ⟨col, ?_⟩
  rw [C08.scan_finish hw (run_append_ok _ hr) (by rw [hk]), ho]
  rfl

/-- all four spellings of a string (two quote styles × control characters raw or `\xHH`) parse
    to the same string literal -/
theorem parseScript_string_spellings (file : String) (s : List Char) :
    ∃ p1 p2 p3 p4, parseScript (quoteWith '\'' s) file = .ok (.lit (.str s) p1) ∧
      parseScript (quoteWith '"' s) file = .ok (.lit (.str s) p2) ∧
      parseScript (quoteHexWith '\'' s) file = .ok (.lit (.str s) p3) ∧
      parseScript (quoteHexWith '"' s) file = .ok (.lit (.str s) p4) := by
  have hnil : ∀ c ∈ ([] : List Char), c ∈ whitespace := fun _ h => nomatch h
  obtain ⟨c1, h1⟩ := scan_quoteWith .single file s [] hnil
  obtain ⟨c2, h2⟩ := scan_quoteWith .double file s [] hnil
  obtain ⟨c3, h3⟩ := scan_quoteHexWith .single file s [] hnil
  obtain ⟨c4, h4⟩ := scan_quoteHexWith .double file s [] hnil
  simp only [List.append_nil] at h1 h2 h3 h4
  refine ⟨⟨file, 1, c1⟩, ⟨file, 1, c2⟩, ⟨file, 1, c3⟩, ⟨file, 1, c4⟩, ?_, ?_, ?_, ?_⟩ <;>
    rw [C08.parseScript_eq] <;> simp only [h1, h2, h3, h4] <;> exact C01.parse_string file _ rfl

/-- non-vacuity: NUL, ESC and a newline -/
example : quoteHexWith '"' ['\x00', 'a', '\x1b', '"', '\n']
    = ['"', '\\', 'x', '0', '0', 'a', '\\', 'x', '1', 'b', '\\', '"', '\\', 'n', '"'] := by decide

/-! ### the escapes denote the same character in both quote styles -/

/-- `\c` for a character `c` other than `x` (and other than a raw newline) denotes `unesc c`:
    `\n` `\r` `\t` are LF CR TAB, every other character stands for itself (`\\`, `\'`, `\"`, `\a` …) -/
theorem scan_escape_pair {q : Char} {a b c d : Lexer.St} (hq : Style q a b c d) (name : String) (x : Char)
    (hx : x ≠ 'x') (hn : x ≠ '\n') (w : List Char) (hw : ∀ c ∈ w, c ∈ whitespace) :
    ∃ col, scan (q :: (['\\', x] ++ [q]) ++ w) name = .ok [⟨[unesc x], .string, ⟨name, 1, col⟩⟩] := by
  obtain ⟨σ', col, hr, hk, ho, _⟩ := run_delimited (name := name) hq.quote (σ := {}) rfl rfl
    ['\\', x] [unesc x] (fun σ1 h1 => run_escape_pair hq.quote (by rw [h1]) hx hn)
  refine ⟨col, ?_⟩
  rw [C08.scan_finish hw (run_append_ok _ hr) (by rw [hk]), ho]
  rfl

/-- `\xHH` denotes the character with code `HH` (two hex digits of either case) -/
theorem scan_hex_escape {q : Char} {a b c d : Lexer.St} (hq : Style q a b c d) (name : String) (h l : Char)
    (hh : h ∈ hexDigits) (hl : l ∈ hexDigits) (w : List Char) (hw : ∀ c ∈ w, c ∈ whitespace) :
    ∃ col, scan (q :: (['\\', 'x', h, l] ++ [q]) ++ w) name =
      .ok [⟨[Char.ofNat (16 * hexVal h + hexVal l)], .string, ⟨name, 1, col⟩⟩] := by
  have hv : ofDigits 16 [h, l] = 16 * hexVal h + hexVal l := by
    simp [ofDigits, Nat.mul_comm]
  obtain ⟨σ', col, hr, hk, ho, _⟩ := run_delimited (name := name) hq.quote (σ := {}) rfl rfl
    ['\\', 'x', h, l] [Char.ofNat (ofDigits 16 [h, l])]
    (fun σ1 h1 => run_hex_escape hq.quote (by rw [h1]) hh hl (by rw [h1]))
  refine ⟨col, ?_⟩
  rw [C08.scan_finish hw (run_append_ok _ hr) (by rw [hk]), ho, hv]
  rfl

/-- **escapes_same_in_both_styles**: every escape sequence the scanner knows denotes the same
    character in `'…'` and in `"…"` -/
theorem escapes_same_in_both_styles (name : String) :
    (∀ x, x ≠ 'x' → x ≠ '\n' → ∃ c1 c2,
      scan ['\'', '\\', x, '\''] name = .ok [⟨[unesc x], .string, ⟨name, 1, c1⟩⟩] ∧
      scan ['"', '\\', x, '"'] name = .ok [⟨[unesc x], .string, ⟨name, 1, c2⟩⟩]) ∧
    (∀ h l, h ∈ hexDigits → l ∈ hexDigits → ∃ c1 c2,
      scan ['\'', '\\', 'x', h, l, '\''] name =
        .ok [⟨[Char.ofNat (16 * hexVal h + hexVal l)], .string, ⟨name, 1, c1⟩⟩] ∧
      scan ['"', '\\', 'x', h, l, '"'] name =
        .ok [⟨[Char.ofNat (16 * hexVal h + hexVal l)], .string, ⟨name, 1, c2⟩⟩]) := by
  constructor
  · intro x hx hn
    obtain ⟨c1, h1⟩ := scan_escape_pair .single name x hx hn [] (fun _ h => nomatch h)
    obtain ⟨c2, h2⟩ := scan_escape_pair .double name x hx hn [] (fun _ h => nomatch h)
    exact ⟨c1, c2, by simpa using h1, by simpa using h2⟩
  · intro h l hh hl
    obtain ⟨c1, h1⟩ := scan_hex_escape .single name h l hh hl [] (fun _ h => nomatch h)
    obtain ⟨c2, h2⟩ := scan_hex_escape .double name h l hh hl [] (fun _ h => nomatch h)
    exact ⟨c1, c2, by simpa using h1, by simpa using h2⟩

example : unesc 'n' = '\n' ∧ unesc 'r' = '\r' ∧ unesc 't' = '\t' ∧ unesc '\\' = '\\' ∧
    unesc '\'' = '\'' ∧ unesc '"' = '"' ∧ unesc 'a' = 'a' := by decide

/-- **quote_style_iso**: a body `b` that contains neither quote character and does not end inside
    an escape sequence means exactly the same between `'…'` and between `"…"`: the two scans are
    EQUAL — same tokens, same positions, same syntax error if there is one (e.g. a malformed
    `\xHH` inside `b`, or anything in `v`). -/
theorem quote_style_iso (name : String) (u b v : List Char) (hu : C14.AtBoundary name u)
    (hq1 : '\'' ∉ b) (hq2 : '"' ∉ b)
    (hend : ∀ σ σ', run name {} u = .ok σ → run name σ ('\'' :: b) = .ok σ' → σ'.core.state = .s4) :
    scan (u ++ '\'' :: (b ++ '\'' :: v)) name = scan (u ++ '"' :: (b ++ '"' :: v)) name := by
  have key : run name {} ((u ++ '\'' :: (b ++ '\'' :: v)) ++ [' ']) =
      run name {} ((u ++ '"' :: (b ++ '"' :: v)) ++ [' ']) := by
    have e : ∀ q : Char, (u ++ q :: (b ++ q :: v)) ++ [' '] = u ++ (q :: (b ++ (q :: (v ++ [' '])))) := by
      intro q; simp
    rw [e, e]
    cases hr : run name {} u with
    | error err => rw [run_append_error _ hr, run_append_error _ hr]
    | ok σu =>
      have h0 := hu σu hr
      rw [run_append_ok _ hr, run_append_ok _ hr]
      obtain ⟨σ1, hf1, hf2, hs1⟩ := feed_open_dq (name := name) h0
      rw [run_cons_ok _ hf1, run_cons_ok _ hf2]
      obtain ⟨hrun, _⟩ := run_dq (name := name) b (σ := σ1) (by simp [InSq, hs1]) hq1 hq2
      cases hb : run name σ1 b with
      | error err =>
        rw [hb] at hrun
        rw [run_append_error _ hb, run_append_error _ hrun]
      | ok σ2 =>
        rw [hb] at hrun
        have hs2 : σ2.core.state = .s4 := hend σu σ2 hr (by rw [run_cons_ok _ hf1]; exact hb)
        rw [run_append_ok _ hb, run_append_ok _ hrun]
        simp only [run]
        rw [feed_close_dq hs2]
  unfold scan scanWithOffsets
  rw [key]

/-- non-vacuity of `quote_style_iso`: the body `a\n\x41#` -/
example : C14.AtBoundary "f" [] ∧
    (∀ σ σ', run "f" {} [] = .ok σ →
      run "f" σ ('\'' :: ['a', '\\', 'n', '\\', 'x', '4', '1', '#']) = .ok σ' → σ'.core.state = .s4) := by
  refine ⟨?_, ?_⟩
  · intro σ h; cases h; rfl
  · intro σ σ' h h'; cases h
    have : σ' = _ := (Except.ok.inj h').symm
    subst this; decide

/-- `quote_style_iso` with a syntactic side condition: every backslash of the body starts a
    complete escape sequence -/
theorem quote_style_iso_complete (name : String) (u b v : List Char) (hu : C14.AtBoundary name u)
    (hq1 : '\'' ∉ b) (hq2 : '"' ∉ b) (hb : EscComplete b) :
    scan (u ++ '\'' :: (b ++ '\'' :: v)) name = scan (u ++ '"' :: (b ++ '"' :: v)) name := by
  apply quote_style_iso name u b v hu hq1 hq2
  intro σ σ' hr hrun
  obtain ⟨σ1, hf1, _, hs1⟩ := feed_open_dq (name := name) (hu σ hr)
  rw [run_cons_ok _ hf1] at hrun
  exact run_escComplete_state hb hq1 hq2 hs1 hrun

/-- non-vacuity: the body `a\n\x41#\\` -/
example : EscComplete ['a', '\\', 'n', '\\', 'x', '4', '1', '#', '\\', '\\'] :=
  .plain (by decide) (.esc (by decide) (.hex (.plain (by decide) (.esc (by decide) .nil))))

/-- the hypothesis `hend` is needed: after `a\` the closing quote is escaped -/
example : C14.tokTV (scan ['\'', 'a', '\\', '\'', ' ', '\''] "f") = some [(['a', '\'', ' '], .string)] ∧
    C14.tokTV (scan ['"', 'a', '\\', '"', ' ', '"'] "f") = some [(['a', '"', ' '], .string)] := by
  decide

/-- non-vacuity: the string `a"b'c\` + newline written in both styles -/
example : quoteWith '\'' ['a', '"', 'b', '\'', 'c', '\\', '\n']
      = ['\'', 'a', '"', 'b', '\\', '\'', 'c', '\\', '\\', '\\', 'n', '\''] ∧
    quoteWith '"' ['a', '"', 'b', '\'', 'c', '\\', '\n']
      = ['"', 'a', '\\', '"', 'b', '\'', 'c', '\\', '\\', '\\', 'n', '"'] ∧
    C14.tokTV (scan (quoteWith '\'' ['a', '"', 'b', '\'', 'c', '\\', '\n']) "f")
      = some [(['a', '"', 'b', '\'', 'c', '\\', '\n'], .string)] ∧
    C14.tokTV (scan (quoteWith '"' ['a', '"', 'b', '\'', 'c', '\\', '\n']) "f")
      = some [(['a', '"', 'b', '\'', 'c', '\\', '\n'], .string)] := by
  decide

/-! ## Part 3: `!=` and `<>` -/

theorem scan_of_run_ok {name : String} {s : List Char} {σ : LexSt}
    (h : run name {} (s ++ [' ']) = .ok σ) : scan s name = .ok (σ.out.reverse.map Prod.fst) := by
  unfold scan scanWithOffsets; rw [h]

theorem scan_of_run_error {name : String} {s : List Char} {e : SynErr}
    (h : run name {} (s ++ [' ']) = .error e) : scan s name = .error e := by
  unfold scan scanWithOffsets; rw [h]

/-- **ne_table**: the table fact the parser uses: both spellings are relational operators and
    both build the call of `not_equals` -/
theorem ne_table (l r : Node) (pos : Pos) :
    relCmp ['!', '='] l r pos = funcCallAB "not_equals" l r pos ∧
    relCmp ['<', '>'] l r pos = funcCallAB "not_equals" l r pos ∧
    ['!', '='] ∈ relops ∧ ['<', '>'] ∈ relops :=
  ⟨relCmp_bang_eq l r pos, relCmp_lt_gt l r pos, by decide, by decide⟩

/-- **ne_spelling_scan**: at a token boundary, `!=` and `<>` both scan to one operator token; all
    other tokens are the same, with the same positions (both spellings have two characters), and
    a syntax error elsewhere in the text is the same -/
theorem ne_spelling_scan (name : String) (u v : List Char) (hu : C14.AtBoundary name u) :
    (∃ e, scan (u ++ '!' :: '=' :: v) name = .error e ∧ scan (u ++ '<' :: '>' :: v) name = .error e) ∨
    (∃ pre post ln c1 c2,
      scan (u ++ '!' :: '=' :: v) name =
        .ok (pre ++ ⟨['!', '='], .operator, ⟨name, ln, c1⟩⟩ :: post) ∧
      scan (u ++ '<' :: '>' :: v) name =
        .ok (pre ++ ⟨['<', '>'], .operator, ⟨name, ln, c2⟩⟩ :: post)) := by
  have e : ∀ a b : Char, (u ++ a :: b :: v) ++ [' '] = u ++ ([a, b] ++ (v ++ [' '])) := by
    intro a b; simp
  cases hr : run name {} u with
  | error err =>
    refine Or.inl ⟨err, scan_of_run_error ?_, scan_of_run_error ?_⟩
    · rw [e, run_append_error _ hr]
    · rw [e, run_append_error _ hr]
  | ok σu =>
    have h0 := hu σu hr
    have htok := C14.boundary_token_empty name u σu hr h0
    have r1 : run name {} ((u ++ '!' :: '=' :: v) ++ [' ']) =
        run name (afterOp name σu ['!', '='] (σu.column + 1 + 1 - 2 - 1)) (v ++ [' ']) := by
      rw [e, run_append_ok _ hr, run_append_ok _ (run_bang_eq h0 htok)]
    have r2 : run name {} ((u ++ '<' :: '>' :: v) ++ [' ']) =
        run name (afterOp name σu ['<', '>'] (σu.column + 1 + 1 - 1)) (v ++ [' ']) := by
      rw [e, run_append_ok _ hr, run_append_ok _ (run_lt_gt h0 htok)]
    have a1 : ∀ (w : List Char) (col : Int), afterOp name σu w col =
        { afterOp name σu [] 0 with
          out := (⟨w, .operator, ⟨name, σu.line, col⟩⟩, σu.pos) :: σu.out } := fun _ _ => rfl
    rw [a1] at r1 r2
    rcases run_out_irrelevant name (afterOp name σu [] 0)
      ((⟨['!', '='], .operator, ⟨name, σu.line, σu.column + 1 + 1 - 2 - 1⟩⟩, σu.pos) :: σu.out)
      ((⟨['<', '>'], .operator, ⟨name, σu.line, σu.column + 1 + 1 - 1⟩⟩, σu.pos) :: σu.out)
      (v ++ [' ']) with ⟨err, h1, h2⟩ | ⟨τ, h1, h2⟩
    · exact Or.inl ⟨err, scan_of_run_error (r1.trans h1), scan_of_run_error (r2.trans h2)⟩
    · refine Or.inr ⟨σu.out.reverse.map Prod.fst, τ.out.reverse.map Prod.fst, σu.line,
        σu.column + 1 + 1 - 2 - 1, σu.column + 1 + 1 - 1, ?_, ?_⟩
      · rw [scan_of_run_ok (r1.trans h1)]; simp [addOut]
      · rw [scan_of_run_ok (r2.trans h2)]; simp [addOut]

/-- **parse_ne_spelling**: with operands that `parse_add_expr` reads (`AddStable`: atoms,
    parenthesised stable expressions), `l != r` and `l <> r` parse to the same AST — the call
    `not_equals(a = l, b = r)` — positioned at the respective operator token -/
theorem parse_ne_spelling (validRe : List Char → Bool) (file : String) {l r : List Token}
    {el er : Node} (hl : AddStable l el) (hr : AddStable r er) (t1 t2 : Token)
    (h1 : C08.IsTok t1 ['!', '='] .operator) (h2 : C08.IsTok t2 ['<', '>'] .operator) :
    parseWith validRe file (l ++ t1 :: r) = .ok (funcCallAB "not_equals" el er t1.pos) ∧
    parseWith validRe file (l ++ t2 :: r) = .ok (funcCallAB "not_equals" el er t2.pos) :=
  ⟨(Stable.of_ne hl hr (t := t1) ⟨h1.2, Or.inl h1.1⟩).parse validRe file,
   (Stable.of_ne hl hr (t := t2) ⟨h2.2, Or.inr h2.1⟩).parse validRe file⟩

/-- the atom-operand case -/
theorem parse_ne_atoms (file : String) {a b : Token} {na nb : Node} (ha : Atom a na) (hb : Atom b nb)
    (t1 t2 : Token) (h1 : C08.IsTok t1 ['!', '='] .operator) (h2 : C08.IsTok t2 ['<', '>'] .operator) :
    parse file [a, t1, b] = .ok (funcCallAB "not_equals" na nb t1.pos) ∧
    parse file [a, t2, b] = .ok (funcCallAB "not_equals" na nb t2.pos) :=
  parse_ne_spelling _ file ha.addStable hb.addStable t1 t2 h1 h2

/-- the literal-operand case: signed ints, strings, booleans, identifiers and (nested) lists of
    these on either side, e.g. `[1, 'a'] != x` versus `[1, 'a'] <> x`, `n != -1` versus `n <> -1` -/
theorem parse_ne_literals (validRe : List Char → Bool) (file : String) {l r : List Token}
    {nl nr : Node} (hl : C08.LitToks l nl) (hr : C08.LitToks r nr) (t1 t2 : Token)
    (h1 : C08.IsTok t1 ['!', '='] .operator) (h2 : C08.IsTok t2 ['<', '>'] .operator) :
    parseWith validRe file (l ++ t1 :: r) = .ok (funcCallAB "not_equals" nl nr t1.pos) ∧
    parseWith validRe file (l ++ t2 :: r) = .ok (funcCallAB "not_equals" nl nr t2.pos) :=
  parse_ne_spelling validRe file (LitToks.addStable hl) (LitToks.addStable hr) t1 t2 h1 h2

/-- when the two operator tokens sit at the same position the ASTs are equal -/
theorem parse_ne_same_pos (validRe : List Char → Bool) (file : String) {l r : List Token}
    {el er : Node} (hl : AddStable l el) (hr : AddStable r er) (p : Pos) :
    parseWith validRe file (l ++ ⟨['!', '='], .operator, p⟩ :: r) =
      parseWith validRe file (l ++ ⟨['<', '>'], .operator, p⟩ :: r) := by
  obtain ⟨h1, h2⟩ := parse_ne_spelling validRe file hl hr ⟨['!', '='], .operator, p⟩
    ⟨['<', '>'], .operator, p⟩ ⟨rfl, rfl⟩ ⟨rfl, rfl⟩
  rw [h1, h2]

/-- **parseScript_ne_atoms**: source level.  If the text with `!=` scans to `atom != atom`, then
    it and the text with `<>` parse to the same `not_equals` call (modulo the operator position) -/
theorem parseScript_ne_atoms (file : String) (u v : List Char) (hu : C14.AtBoundary file u)
    {a t b : Token} {na nb : Node} (ha : Atom a na) (hb : Atom b nb)
    (hscan : scan (u ++ '!' :: '=' :: v) file = .ok [a, t, b]) :
    ∃ p1 p2, parseScript (u ++ '!' :: '=' :: v) file = .ok (funcCallAB "not_equals" na nb p1) ∧
      parseScript (u ++ '<' :: '>' :: v) file = .ok (funcCallAB "not_equals" na nb p2) := by
  rcases ne_spelling_scan file u v hu with ⟨err, h1, _⟩ | ⟨pre, post, ln, c1, c2, h1, h2⟩
  · rw [h1] at hscan; cases hscan
  · rw [h1] at hscan
    have hl : pre ++ ⟨['!', '='], .operator, ⟨file, ln, c1⟩⟩ :: post = [a, t, b] := by
      injection hscan
    have hsplit : pre = [a] ∧ post = [b] := by
      cases pre with
      | nil =>
        simp at hl
        exact absurd (by rw [← hl.1]) ha.type.2
      | cons x pre =>
        cases pre with
        | nil => simp at hl; exact ⟨by rw [hl.1], hl.2.2⟩
        | cons y pre =>
          cases pre with
          | nil =>
            simp at hl
            exact absurd (by rw [← hl.2.2.1]) hb.type.2
          | cons z pre => simp at hl
    obtain ⟨rfl, rfl⟩ := hsplit
    refine ⟨⟨file, ln, c1⟩, ⟨file, ln, c2⟩, ?_, ?_⟩
    · rw [C08.parseScript_eq, h1]
      exact (parse_ne_atoms file ha hb ⟨['!', '='], .operator, ⟨file, ln, c1⟩⟩
        ⟨['<', '>'], .operator, ⟨file, ln, c2⟩⟩ ⟨rfl, rfl⟩ ⟨rfl, rfl⟩).1
    · rw [C08.parseScript_eq, h2]
      exact (parse_ne_atoms file ha hb ⟨['!', '='], .operator, ⟨file, ln, c1⟩⟩
        ⟨['<', '>'], .operator, ⟨file, ln, c2⟩⟩ ⟨rfl, rfl⟩ ⟨rfl, rfl⟩).2

/-- non-vacuity: `x != 1` -/
example : C14.AtBoundary "f" ['x', ' '] ∧
    scan (['x', ' '] ++ '!' :: '=' :: [' ', '1']) "f" =
      .ok [⟨['x'], .identifier, ⟨"f", 1, 1⟩⟩, ⟨['!', '='], .operator, ⟨"f", 1, 1⟩⟩,
           ⟨['1'], .int, ⟨"f", 1, 6⟩⟩] ∧
    Atom ⟨['x'], .identifier, ⟨"f", 1, 1⟩⟩ (.ident "x" ⟨"f", 1, 1⟩) ∧
    Atom ⟨['1'], .int, ⟨"f", 1, 6⟩⟩ (.lit (.int 1) ⟨"f", 1, 6⟩) := by
  refine ⟨?_, rfl, .ident _ rfl, .int _ 1 rfl (by decide)⟩
  intro σ h; have : σ = _ := (Except.ok.inj h).symm; subst this; decide

/-- non-vacuity of the operand class: `(a) != ('s')`, a parenthesised identifier and string -/
example (lp rp a s : Token) (hl : C08.IsTok lp ['('] .interpunction)
    (hr : C08.IsTok rp [')'] .interpunction) (ha : a.type = .identifier) (hs : s.type = .string) :
    AddStable [lp, a, rp] (.ident (str a.value) a.pos) ∧
      AddStable [lp, s, rp] (.lit (.str s.value) s.pos) :=
  ⟨(Stable.of_lit (.ident a ha)).paren_add hl hr, (Stable.of_lit (.str s hs)).paren_add hl hr⟩

/-! ## Part 4: an optional trailing `;` (and redundant parentheses) -/

/-- **scan_trailing_semi**: if the text does not end inside a string, a pattern or a comment, then
    appending `;` (and whitespace) appends the interpunction token `;` and changes nothing else —
    the other tokens keep their positions, a syntax error stays the same -/
theorem scan_trailing_semi (name : String) (src w : List Char) (hw : ∀ c ∈ w, c ∈ whitespace)
    (hsrc : ∀ σ, run name {} src = .ok σ → ¬ InText σ.core.state) :
    (∃ e, scan src name = .error e ∧ scan (src ++ ';' :: w) name = .error e) ∨
    (∃ toks pos, scan src name = .ok toks ∧
      scan (src ++ ';' :: w) name = .ok (toks ++ [⟨[';'], .interpunction, pos⟩])) := by
  have e : (src ++ ';' :: w) ++ [' '] = src ++ (';' :: (w ++ [' '])) := by simp
  cases hr : run name {} src with
  | error err =>
    refine Or.inl ⟨err, scan_of_run_error ?_, scan_of_run_error ?_⟩
    · rw [run_append_error _ hr]
    · rw [e, run_append_error _ hr]
  | ok σ =>
    obtain ⟨herr, hok⟩ := feed_semi (name := name) (hsrc σ hr)
    cases hf : feed name σ ' ' with
    | error err =>
      refine Or.inl ⟨err, scan_of_run_error ?_, scan_of_run_error ?_⟩
      · rw [run_append_ok _ hr, run_cons_error _ hf]
      · rw [e, run_append_ok _ hr, run_cons_error _ (herr err hf)]
    | ok σ1 =>
      obtain ⟨hs0, pos, off, hf2⟩ := hok σ1 hf
      have hws : AllWs (w ++ [' ']) := by
        intro c hc
        rcases List.mem_append.mp hc with h | h
        · exact hw c h
        · simp only [List.mem_singleton] at h; subst h; decide
      obtain ⟨σ3, hr3, _, ho3⟩ := run_filler (name := name) (filler_of_allWs hws)
        (σ := { σ1 with out := (⟨[';'], .interpunction, pos⟩, off) :: σ1.out }) hs0
      refine Or.inr ⟨σ1.out.reverse.map Prod.fst, pos, scan_of_run_ok ?_, ?_⟩
      · rw [run_append_ok _ hr, run_cons_ok _ hf]; rfl
      · have : run name {} ((src ++ ';' :: w) ++ [' ']) = .ok σ3 := by
          rw [e, run_append_ok _ hr, run_cons_ok _ hf2, hr3]
        rw [scan_of_run_ok this, ho3]; simp

/-- the hypothesis is needed: inside a comment the `;` is swallowed -/
example : C14.tokTV (scan (['a', '#', 'c'] ++ [';']) "f") = C14.tokTV (scan ['a', '#', 'c'] "f") := by
  decide

/-- **parse_trailing_semi**: for a program that is one stable expression (a literal, a list of
    literals, a comparison `l != r`, any of these in redundant parentheses …) the trailing `;` is
    consumed by the statement loop of `parse_bare_block`; the AST is the same -/
theorem parse_trailing_semi (validRe : List Char → Bool) (file : String) {ts : List Token} {e : Node}
    (h : Stable ts e) {semi : Token} (hsemi : C08.IsTok semi [';'] .interpunction) :
    parseWith validRe file (ts ++ [semi]) = parseWith validRe file ts := by
  rw [h.parse_semi validRe file hsemi, h.parse validRe file]

/-- **parse_redundant_parens**: `( e )` parses like `e` (and parentheses can be nested, since
    `Stable.paren` returns a `Stable` token list again) -/
theorem parse_redundant_parens (validRe : List Char → Bool) (file : String) {ts : List Token}
    {e : Node} (h : Stable ts e) {lp rp : Token} (hl : C08.IsTok lp ['('] .interpunction)
    (hr : C08.IsTok rp [')'] .interpunction) :
    parseWith validRe file (lp :: (ts ++ [rp])) = parseWith validRe file ts := by
  rw [(h.paren hl hr).parse validRe file, h.parse validRe file]

/-- **parseScript_trailing_semi**: source level.  If `src` scans to a stable expression and does
    not end inside a string / pattern / comment, `src;` (plus whitespace) parses to the SAME AST,
    positions included. -/
theorem parseScript_trailing_semi (file : String) (src w : List Char)
    (hw : ∀ c ∈ w, c ∈ whitespace)
    (hsrc : ∀ σ, run file {} src = .ok σ → ¬ InText σ.core.state)
    {ts : List Token} {e : Node} (hscan : scan src file = .ok ts) (hst : Stable ts e) :
    parseScript (src ++ ';' :: w) file = parseScript src file := by
  rcases scan_trailing_semi file src w hw hsrc with ⟨err, h1, _⟩ | ⟨toks, pos, h1, h2⟩
  · rw [h1] at hscan; cases hscan
  · rw [h1] at hscan; cases hscan
    rw [C08.parseScript_eq, C08.parseScript_eq, h1, h2]
    exact parse_trailing_semi _ file hst ⟨rfl, rfl⟩

/-- non-vacuity: `[1, 'a']` scans to a stable expression and ends outside any text state -/
example : (∀ σ, run "f" {} ['[', '1', ',', ' ', '\'', 'a', '\'', ']'] = .ok σ → ¬ InText σ.core.state) ∧
    scan ['[', '1', ',', ' ', '\'', 'a', '\'', ']'] "f" =
      .ok [⟨['['], .interpunction, ⟨"f", 1, 1⟩⟩, ⟨['1'], .int, ⟨"f", 1, 2⟩⟩,
        ⟨[','], .interpunction, ⟨"f", 1, 3⟩⟩, ⟨['a'], .string, ⟨"f", 1, 5⟩⟩,
        ⟨[']'], .interpunction, ⟨"f", 1, 8⟩⟩] ∧
    Stable [⟨['['], .interpunction, ⟨"f", 1, 1⟩⟩, ⟨['1'], .int, ⟨"f", 1, 2⟩⟩,
        ⟨[','], .interpunction, ⟨"f", 1, 3⟩⟩, ⟨['a'], .string, ⟨"f", 1, 5⟩⟩,
        ⟨[']'], .interpunction, ⟨"f", 1, 8⟩⟩]
      (.list [.lit (.int 1) ⟨"f", 1, 2⟩, .lit (.str ['a']) ⟨"f", 1, 5⟩] ⟨"f", 1, 1⟩) := by
  refine ⟨?_, rfl, Stable.of_lit ?_⟩
  · intro σ h; have : σ = _ := (Except.ok.inj h).symm; subst this; decide
  · exact .list ⟨['['], .interpunction, ⟨"f", 1, 1⟩⟩ ⟨[']'], .interpunction, ⟨"f", 1, 8⟩⟩
      [⟨['1'], .int, ⟨"f", 1, 2⟩⟩] [⟨[','], .interpunction, ⟨"f", 1, 3⟩⟩, ⟨['a'], .string, ⟨"f", 1, 5⟩⟩]
      _ _ ⟨rfl, rfl⟩ ⟨rfl, rfl⟩
      (.int ⟨['1'], .int, ⟨"f", 1, 2⟩⟩ 1 rfl (by decide))
      (.cons ⟨[','], .interpunction, ⟨"f", 1, 3⟩⟩ [⟨['a'], .string, ⟨"f", 1, 5⟩⟩] [] _ _ ⟨rfl, rfl⟩
        (.str ⟨['a'], .string, ⟨"f", 1, 5⟩⟩ rfl) .nil)

/-- a program of several stable expression statements `s₁ ; … ; sₙ`: the trailing `;` is optional -/
theorem parse_trailing_semi_seq (validRe : List Char → Bool) (file : String) {ts rest : List Token}
    {e : Node} {es : List Node} (h1 : Stable ts e) (hrest : StmtSeq rest es) (hne : es ≠ [])
    {semi : Token} (hsemi : C08.IsTok semi [';'] .interpunction) :
    parseWith validRe file (ts ++ (rest ++ [semi])) = parseWith validRe file (ts ++ rest) := by
  obtain ⟨p1, hp1, hpos1⟩ := StmtSeq.parse h1 hrest hne validRe file [semi] (Or.inr ⟨semi, hsemi, rfl⟩)
  obtain ⟨p2, hp2, hpos2⟩ := StmtSeq.parse h1 hrest hne validRe file [] (Or.inl rfl)
  obtain ⟨t0, r0, rfl, _, _⟩ := h1.head
  have e1 := hpos1 t0 (by simp)
  have e2 := hpos2 t0 (by simp)
  rw [List.append_nil] at hp2
  rw [hp1, hp2, e1, e2]

/-- source level, generic in the class of programs: whenever the parser ignores a trailing `;`
    token after the tokens of `src`, `parseScript` ignores a trailing `;` character -/
theorem parseScript_trailing_semi_of_parse (file : String) (src w : List Char)
    (hw : ∀ c ∈ w, c ∈ whitespace)
    (hsrc : ∀ σ, run file {} src = .ok σ → ¬ InText σ.core.state)
    {ts : List Token} (hscan : scan src file = .ok ts)
    (hparse : ∀ semi, C08.IsTok semi [';'] .interpunction →
      parse file (ts ++ [semi]) = parse file ts) :
    parseScript (src ++ ';' :: w) file = parseScript src file := by
  rcases scan_trailing_semi file src w hw hsrc with ⟨err, h1, _⟩ | ⟨toks, pos, h1, h2⟩
  · rw [h1] at hscan; cases hscan
  · rw [h1] at hscan; cases hscan
    rw [C08.parseScript_eq, C08.parseScript_eq, h1, h2]
    exact hparse _ ⟨rfl, rfl⟩

/-- … for sequences of stable expression statements -/
theorem parseScript_trailing_semi_seq (file : String) (src w : List Char)
    (hw : ∀ c ∈ w, c ∈ whitespace)
    (hsrc : ∀ σ, run file {} src = .ok σ → ¬ InText σ.core.state)
    {ts rest : List Token} {e : Node} {es : List Node} (hscan : scan src file = .ok (ts ++ rest))
    (h1 : Stable ts e) (hrest : StmtSeq rest es) (hne : es ≠ []) :
    parseScript (src ++ ';' :: w) file = parseScript src file := by
  apply parseScript_trailing_semi_of_parse file src w hw hsrc hscan
  intro semi hsemi
  have := parse_trailing_semi_seq (fun _ => true) file h1 hrest hne hsemi
  simpa [parse] using this

/-- non-vacuity of the sequence class: tokens of `a; 1` -/
example (a s one : Token) (ha : a.type = .identifier) (hs : C08.IsTok s [';'] .interpunction)
    (h1 : one.type = .int) (hv : parseIntLit one.value = some 1) :
    Stable [a] (.ident (str a.value) a.pos) ∧
      StmtSeq [s, one] [.lit (.int 1) one.pos] ∧ [Node.lit (.int 1) one.pos] ≠ [] :=
  ⟨Stable.of_lit (.ident a ha),
   .cons s [one] [] _ [] hs (Stable.of_lit (.int one 1 h1 hv)) .nil, by simp⟩

/- The general block-level statement, for ALL programs (believed true, checked on ~45 sample
   programs covering every statement form with `#eval`, but NOT proved):

     theorem trailing_semi (file : String) (src w : List Char) (n : Node)
         (hw : ∀ c ∈ w, c ∈ whitespace)
         (hsrc : ∀ σ, run file {} src = .ok σ → ¬ InText σ.core.state)
         (hok : parseScript src file = .ok n) :
         parseScript (src ++ ';' :: w) file = .ok n

   (only success is preserved: an error may change or disappear, see `trailing_semi_not_general`
   below).  Missing: an induction over all ~50 productions of the mutual parser showing that a
   production that succeeds on `toks` leaving nothing succeeds on `toks ++ [;]` with the same
   result leaving `[;]` — with tailored statements for the loops that themselves skip a `;`
   (`bareLoop`, `catchLoop`, `classLoop`).  What is proved is the reduction of the source-level
   statement to that token-level fact: -/
theorem trailing_semi_partial (file : String) (src w : List Char)
    (hw : ∀ c ∈ w, c ∈ whitespace)
    (hsrc : ∀ σ, run file {} src = .ok σ → ¬ InText σ.core.state)
    {ts : List Token} (hscan : scan src file = .ok ts)
    (hparse : ∀ semi, C08.IsTok semi [';'] .interpunction →
      parse file (ts ++ [semi]) = parse file ts) :
    parseScript (src ++ ';' :: w) file = parseScript src file :=
  parseScript_trailing_semi_of_parse file src w hw hsrc hscan hparse

/-- non-vacuity of `trailing_semi_partial`: its hypotheses hold for `[1, 'a']` (see the example
    after `parseScript_trailing_semi`) via `parse_trailing_semi` -/
example (file : String) {ts : List Token} {e : Node} (h : Stable ts e) :
    ∀ semi, C08.IsTok semi [';'] .interpunction → parse file (ts ++ [semi]) = parse file ts :=
  fun _ hsemi => parse_trailing_semi _ file h hsemi

/-! ### the unrestricted statement is FALSE in the model

  `return` alone is a syntax error (the parser wants an expression or a `;` after it), `return;`
  is accepted (a bare final `return;` is NULL since repair 56d80df): appending `;` can turn an error into a
  success — the `;` after a bare `return` is the grammar's "no operand" marker, not an optional one.  So
  `parseScript (src ++ ";") = parseScript src` needs a hypothesis on `src` even when `src` scans
  and ends at a token boundary. -/

set_option linter.unusedSimpArgs false in
theorem return_alone_error :
    ∃ e, parse "f" [⟨['r', 'e', 't', 'u', 'r', 'n'], .keyword, ⟨"f", 1, 1⟩⟩] = .error e := by
  rcases C01.parse_total "f" [⟨['r', 'e', 't', 'u', 'r', 'n'], .keyword, ⟨"f", 1, 1⟩⟩] with
    ⟨n, h⟩ | ⟨e, h, _⟩
  · exfalso
    revert h
    simp [parse, parseWith, parseCore, pBareBlock, bareLoop, pStatement, pExpression, pOr, pAnd, pNot,
      pRel, pAdd, pMul, pUnary, pPred, pPrimary, pPrimaryKw, postfixLoop, mulLoop, addLoop, St.peekn,
      St.tokIs, St.hasNext, takeComment, St.matchIf, St.next, matchOpTable, mulOps, addOps,
      binPredTable, St.matchIf2, St.matchIf3, leLt, wkLt, ltLe, endPosOf, relGuard, isRelop, relops,
      simplifyBlock, unwrapReturn, returnOperand, bind, Except.bind, pure, Except.pure]
  · exact ⟨e, h⟩

set_option linter.unusedSimpArgs false in
theorem return_semi_ok :
    parse "f" [⟨['r', 'e', 't', 'u', 'r', 'n'], .keyword, ⟨"f", 1, 1⟩⟩,
      ⟨[';'], .interpunction, ⟨"f", 1, 7⟩⟩] = .ok (.null ⟨"f", 1, 1⟩) := by
  simp [parse, parseWith, parseCore, pBareBlock, bareLoop, pStatement, pExpression, pOr, pAnd, pNot,
    pRel, pAdd, pMul, pUnary, pPred, pPrimary, pPrimaryKw, postfixLoop, mulLoop, addLoop, St.peekn,
    St.tokIs, St.hasNext, takeComment, St.matchIf, St.next, matchOpTable, mulOps, addOps,
    binPredTable, St.matchIf2, St.matchIf3, leLt, wkLt, ltLe, endPosOf, relGuard, isRelop, relops,
    simplifyBlock, unwrapReturn, returnOperand, bind, Except.bind, pure, Except.pure]

/-- **trailing_semi_not_general**: the source `return` versus `return;` -/
theorem trailing_semi_not_general :
    (∃ e, parseScript ['r', 'e', 't', 'u', 'r', 'n'] "f" = .error e) ∧
    parseScript (['r', 'e', 't', 'u', 'r', 'n'] ++ [';']) "f" = .ok (.null ⟨"f", 1, 1⟩) := by
  constructor
  · obtain ⟨e, he⟩ := return_alone_error
    refine ⟨e, ?_⟩
    rw [C08.parseScript_eq]
    have : scan ['r', 'e', 't', 'u', 'r', 'n'] "f" =
        .ok [⟨['r', 'e', 't', 'u', 'r', 'n'], .keyword, ⟨"f", 1, 1⟩⟩] := rfl
    rw [this]; exact he
  · rw [C08.parseScript_eq]
    have : scan (['r', 'e', 't', 'u', 'r', 'n'] ++ [';']) "f" =
        .ok [⟨['r', 'e', 't', 'u', 'r', 'n'], .keyword, ⟨"f", 1, 1⟩⟩,
          ⟨[';'], .interpunction, ⟨"f", 1, 7⟩⟩] := rfl
    rw [this]; exact return_semi_ok

end Ckl.C14S
