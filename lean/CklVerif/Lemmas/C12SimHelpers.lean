/-
  C12Sim — the non-recursive helpers of the evaluator respect `PermSt`
  (`typeOf`, `getIndex`, `asStringM`, `destructure`, `bindLoopVars`, `spreadValues`,
  `collectionValues`, `assignAll`, `defAll`, `comprResult`, `addSet`, …), and the tactic `sim`.
-/
import CklVerif.Lemmas.C12SimObs

set_option linter.unusedSimpArgs false
set_option linter.unusedVariables false
set_option linter.unusedTactic false
set_option linter.unreachableTactic false

namespace Ckl.C12S
open Ckl Ckl.C12

/-- library facts; extended as they are proved -/
syntax "sim_lib" : tactic
macro_rules | `(tactic| sim_lib) => `(tactic| fail "no library fact applies")

/-- state transformers that keep `PermSt` -/
syntax "sim_st" : tactic
set_option hygiene false in
macro_rules | `(tactic| sim_st) => `(tactic| first
  | exact hst
  | exact PermSt.put hst _ _ _
  | exact PermSt.remove hst _ _
  | exact PermSt.foldl_put hst _ _
  | exact PermSt.foldl_remove hst _ _
  | exact PermSt.write hst _
  | exact PermSt.restoreVars hst _ _)

/-- rewrite the observations of the second state into observations of the first -/
syntax "sim_obs" : tactic
set_option hygiene false in
macro_rules | `(tactic| sim_obs) => `(tactic|
  try simp only [hst.lookup, hst.isDefined, hst.typeName, hst.rveq, hst.memR, hst.mapGet, hst.mapPut, hst.mapDel,
    hst.setAdd, hst.sortedR, hst.sortedEntriesR, hst.rrender, hst.findOwner, hst.rvlt, hst.reify,
    hst.isModuleObj, hst.fnName, hst.fnParams, hst.base, hst.div0Value])

/-- one decomposition step for goals `Sim (do …) (do …)` -/
syntax "sim_step" : tactic
set_option hygiene false in
macro_rules | `(tactic| sim_step) => `(tactic| first
  | with_reducible exact Sim.pure _
  | with_reducible exact Sim.throwE _ _
  | with_reducible exact Sim.throwV _ _ _
  | with_reducible exact Sim.unsupported _
  | with_reducible exact Sim.failM _
  | sim_lib
  | ((with_reducible apply Sim.modifyS); intro s t hst; sim_st)
  | ((with_reducible apply Sim.setS); assumption)
  | (with_reducible apply Sim.getS_bind; intro s t hst; sim_obs)
  | with_reducible apply Sim.bind
  | with_reducible apply Sim.ite
  | intro _
  | split)

macro "sim" : tactic => `(tactic| repeat' sim_step)

/-! ### `EvalBase` -/

theorem allocM_sim {c c' : Cell} (hc : CellR c c') : Sim (allocM c) (allocM c') := by
  constructor
  intro s t hst
  obtain ⟨h1, h2⟩ := hst.alloc hc
  show OutR (Out.ok (RVal.ref (s.alloc c).2) (s.alloc c).1) (Out.ok (RVal.ref (t.alloc c').2) (t.alloc c').1)
  rw [h2]
  exact ⟨rfl, h1⟩

theorem allocM_sim' (c : Cell) : Sim (allocM c) (allocM c) := allocM_sim (CellR.refl c)

macro_rules | `(tactic| sim_lib) => `(tactic| with_reducible exact allocM_sim' _)

theorem newList_sim (xs : List RVal) : Sim (newList xs) (newList xs) := allocM_sim' _

macro_rules | `(tactic| sim_lib) => `(tactic| with_reducible exact newList_sim _)

theorem typeOf_sim (v : RVal) : Sim (typeOf v) (typeOf v) :=
  ⟨fun s t hst => ⟨(hst.typeName v).symm, hst⟩⟩

macro_rules | `(tactic| sim_lib) => `(tactic| with_reducible exact typeOf_sim _)

/-- reading a cell: related cells -/
theorem Sim.cellOf_bind {β} (v : RVal) {f f' : Option Cell → EvalM β}
    (hf : ∀ c c', OCellR c c' → Sim (f c) (f' c')) : Sim (cellOf v >>= f) (cellOf v >>= f') := by
  constructor
  intro s t hst
  cases v with
  | ref a => exact (hf _ _ (hst.cell a)).run s t hst
  | _ => exact (hf none none trivial).run s t hst

theorem getIndex_sim (v : RVal) (p : Pos) : Sim (getIndex v p) (getIndex v p) := by
  unfold getIndex
  sim

macro_rules | `(tactic| sim_lib) => `(tactic| with_reducible exact getIndex_sim _ _)

theorem asStringM_sim (v : RVal) (p : Pos) : Sim (asStringM v p) (asStringM v p) := by
  unfold asStringM
  sim

macro_rules | `(tactic| sim_lib) => `(tactic| with_reducible exact asStringM_sim _ _)

theorem mapM_newList_sim {β} (g : β → List RVal) (l : List β) :
    Sim (l.mapM (fun x => newList (g x))) (l.mapM (fun x => newList (g x))) := by
  induction l with
  | nil => exact Sim.pure _
  | cons x l ih =>
    rw [List.mapM_cons]
    sim
    exact ih

/-! ### helpers of `Eval` -/

/-- the enumeration of a related cell: `F` applied to the same list in both states -/
theorem destructure_sim (v : RVal) (count : Nat) (pos : Pos) :
    Sim (destructure v count pos) (destructure v count pos) := by
  unfold destructure
  apply Sim.cellOf_bind
  intro c c' hc
  rcases hc.cases with rfl | ⟨xs, ys, rfl, rfl, hp, ht⟩ | ⟨xs, ys, rfl, rfl, hp, ht⟩
  · sim
  · dsimp only
    apply Sim.getS_bind
    intro s t hst
    rw [hst.sortedR_tw hp ht]
    sim
  · dsimp only
    sim

macro_rules | `(tactic| sim_lib) => `(tactic| with_reducible exact destructure_sim _ _ _)

theorem bindLoopVars_sim (env : EnvId) (ids : List String) (v : RVal) (pos : Pos) :
    Sim (bindLoopVars env ids v pos) (bindLoopVars env ids v pos) := by
  unfold bindLoopVars
  sim

macro_rules | `(tactic| sim_lib) => `(tactic| with_reducible exact bindLoopVars_sim _ _ _ _)

theorem removeVars_sim (env : EnvId) (ids : List String) : Sim (removeVars env ids) (removeVars env ids) := by
  unfold removeVars
  sim

macro_rules | `(tactic| sim_lib) => `(tactic| with_reducible exact removeVars_sim _ _)

theorem spreadValues_sim (v : RVal) (pos : Pos) : Sim (spreadValues v pos) (spreadValues v pos) := by
  unfold spreadValues
  apply Sim.getS_bind
  intro s t hst
  apply Sim.cellOf_bind
  intro c c' hc
  rcases hc.cases with rfl | ⟨xs, ys, rfl, rfl, hp, ht⟩ | ⟨xs, ys, rfl, rfl, hp, ht⟩
  · sim_obs; sim
  · dsimp only
    rw [hst.sortedR_tw hp ht]
    sim
  · dsimp only
    rw [hst.sortedR_keys_tw hp ht]
    sim

macro_rules | `(tactic| sim_lib) => `(tactic| with_reducible exact spreadValues_sim _ _)

theorem collectionValues_sim (v : RVal) (w : Option String) (pos : Pos) :
    Sim (collectionValues v w pos) (collectionValues v w pos) := by
  unfold collectionValues
  apply Sim.getS_bind
  intro s t hst
  cases v with
  | str cs => exact Sim.pure _
  | ref b =>
    dsimp only
    apply Sim.cellOf_bind
    intro c c' hc
    rcases hc.cases with rfl | ⟨xs, ys, rfl, rfl, hp, ht⟩ | ⟨xs, ys, rfl, rfl, hp, ht⟩
    · sim_obs
      repeat' (first | exact mapM_newList_sim _ _ | sim_step)
    · dsimp only
      rw [hst.sortedR_tw hp ht]
      sim
    · dsimp only
      rw [hst.sortedEntriesR_tw hp ht]
      repeat' (first | exact mapM_newList_sim _ _ | sim_step)
  | _ =>
    dsimp only
    apply Sim.cellOf_bind
    intro c c' hc
    rcases hc.cases with rfl | ⟨xs, ys, rfl, rfl, hp, ht⟩ | ⟨xs, ys, rfl, rfl, hp, ht⟩
    · sim_obs
      repeat' (first | exact mapM_newList_sim _ _ | sim_step)
    · dsimp only
      rw [hst.sortedR_tw hp ht]
      sim
    · dsimp only
      rw [hst.sortedEntriesR_tw hp ht]
      repeat' (first | exact mapM_newList_sim _ _ | sim_step)

macro_rules | `(tactic| sim_lib) => `(tactic| with_reducible exact collectionValues_sim _ _ _)

/-- closure cells are equal in related states -/
theorem renameClosure_sim (v : RVal) (name : String) : Sim (renameClosure v name) (renameClosure v name) := by
  unfold renameClosure
  cases v with
  | closure a =>
    dsimp only
    apply Sim.getS_bind
    intro s t hst
    rcases (hst.cell a).cases with e | ⟨xs, ys, e1, e2, -, -⟩ | ⟨xs, ys, e1, e2, -, -⟩
    · rw [e]
      split
      · apply Sim.modifyS
        intro s t hst
        exact hst.setCell a (CellR.refl _)
      · exact Sim.pure _
    · rw [e1, e2]; exact Sim.pure _
    · rw [e1, e2]; exact Sim.pure _
  | _ => exact Sim.pure _

macro_rules | `(tactic| sim_lib) => `(tactic| with_reducible exact renameClosure_sim _ _)

theorem assignAll_sim (env : EnvId) : ∀ (xs : List String) (items : List RVal) (i : Nat) (last : RVal) (pos : Pos),
    Sim (assignAll env xs items i last pos) (assignAll env xs items i last pos)
  | [], _, _, _, _ => by unfold assignAll; exact Sim.pure _
  | x :: xs, items, i, last, pos => by
    unfold assignAll
    dsimp only
    apply Sim.getS_bind
    intro s t hst
    sim_obs
    rcases hst.set env x (items.getD i .null) with ⟨e1, e2⟩ | ⟨s', t', e1, e2, h'⟩
    · rw [e1, e2]; sim
    · rw [e1, e2]
      repeat' (first | exact assignAll_sim env xs items (i + 1) _ pos | sim_step)

macro_rules | `(tactic| sim_lib) => `(tactic| with_reducible exact assignAll_sim _ _ _ _ _ _)

theorem defAll_sim (env : EnvId) : ∀ (xs : List String) (items : List RVal) (i : Nat) (last : RVal),
    Sim (defAll env xs items i last) (defAll env xs items i last)
  | [], _, _, _ => by unfold defAll; exact Sim.pure _
  | x :: xs, items, i, last => by
    unfold defAll
    dsimp only
    repeat' (first | exact defAll_sim env xs items (i + 1) _ | sim_step)

macro_rules | `(tactic| sim_lib) => `(tactic| with_reducible exact defAll_sim _ _ _ _ _)

/-- set construction: the same items give the SAME stored list in both states -/
theorem addSet_sim (items : List RVal) : Sim (addSet items) (addSet items) := by
  unfold addSet
  apply Sim.getS_bind
  intro s t hst
  have : (fun acc x => setAdd t x acc) = (fun acc x => setAdd s x acc) := by
    funext acc x; exact hst.setAdd x acc
  rw [this]
  exact allocM_sim' _

macro_rules | `(tactic| sim_lib) => `(tactic| with_reducible exact addSet_sim _)

theorem comprResult_sim (kind : ComprKind) (out : List (RVal × RVal)) :
    Sim (comprResult kind out) (comprResult kind out) := by
  unfold comprResult
  cases kind
  · sim
  · sim
  · dsimp only
    apply Sim.getS_bind
    intro s t hst
    have : (fun acc (kv : RVal × RVal) => mapPut t kv.1 kv.2 acc) = (fun acc kv => mapPut s kv.1 kv.2 acc) := by
      funext acc kv; exact hst.mapPut kv.1 kv.2 acc
    rw [this]
    exact allocM_sim' _

macro_rules | `(tactic| sim_lib) => `(tactic| with_reducible exact comprResult_sim _ _)


/-! ### twins: facts used to rewrite the content of the second cell into the content of the first -/

theorem tw_sortedR {xs ys : List RVal} (hp : xs.Perm ys) (ht : AtomTotal xs) (s : State) :
    sortedR s ys = sortedR s xs := (sortedR_perm (ht.totalOn s) hp).symm

theorem tw_memR {xs ys : List RVal} (hp : xs.Perm ys) (s : State) (x : RVal) :
    memR s x ys = memR s x xs := (memR_perm s x hp).symm

theorem tw_mapGet {xs ys : List (RVal × RVal)} (hp : xs.Perm ys) (ht : AtomTotalK xs) (s : State) (k : RVal) :
    mapGet s k ys = mapGet s k xs := (mapGet_perm_unique s k hp (atomTotalK_unique s k ht)).symm

theorem tw_sortedEntriesR {xs ys : List (RVal × RVal)} (hp : xs.Perm ys) (ht : AtomTotalK xs) (s : State) :
    sortedEntriesR s ys = sortedEntriesR s xs := (sortedEntriesR_perm (ht.totalOnKeys s) hp).symm

theorem tw_sortedR_keys {xs ys : List (RVal × RVal)} (hp : xs.Perm ys) (ht : AtomTotalK xs) (s : State) :
    sortedR s (ys.map (·.1)) = sortedR s (xs.map (·.1)) := by
  symm
  apply sortedR_perm _ (hp.map _)
  exact TotalKey.map (g := fun kv : RVal × RVal => kv.1) (ht.totalOnKeys s)

theorem mapM_sim {β γ} (g : β → EvalM γ) (hg : ∀ x, Sim (g x) (g x)) (l : List β) : Sim (l.mapM g) (l.mapM g) := by
  induction l with
  | nil => exact Sim.pure _
  | cons x l ih =>
    rw [List.mapM_cons]
    exact Sim.bind (hg x) (fun _ => Sim.bind ih (fun _ => Sim.pure _))

/-- rewrite the content of the second twin into the content of the first -/
syntax "sim_tw" : tactic
set_option hygiene false in
macro_rules | `(tactic| sim_tw) => `(tactic|
  ((try simp only [tw_sortedR hp ht, tw_memR hp, hp.length_eq.symm]);
   (try simp only [tw_mapGet hp ht, tw_sortedEntriesR hp ht, tw_sortedR_keys hp ht, hp.length_eq.symm])))

/-- joint case analysis when a cell is read -/
syntax "sim_cell" : tactic
set_option hygiene false in
macro_rules | `(tactic| sim_cell) => `(tactic|
  (with_reducible apply Sim.cellOf_bind
   intro c c' hc
   rcases OCellR.cases hc with rfl | ⟨xs, ys, rfl, rfl, hp, ht⟩ | ⟨xs, ys, rfl, rfl, hp, ht⟩ <;> (try dsimp only) <;> sim_tw))

theorem PermSt.withFrames {s t : State} (h : PermSt s t) (fr : Array Frame) :
    PermSt { s with frames := fr } { t with frames := fr } :=
  ⟨rfl, h.modules, h.modstack, h.out, h.nextInst, h.secure, h.ghost, h.heap⟩

end Ckl.C12S
