/-
  driver handler: `(lib OP ARG…)` — the collection and numeric library functions of
  `Model/Lib.lean` (property C19).
  Answers `(ok VALUE)`, `(err)` for the runtime error, `(unsupported)` outside the modelled
  domain.  A rational result (the number a decimal result is computed from) is `(q NUM DEN)`.
-/
import CklVerif.Driver.Codec
import CklVerif.Model.Lib
namespace Ckl
open Sx

namespace LibCmd

/-- outcome of a menu function on one value -/
inductive R (α : Type) where
  | ok (a : α)
  | err
  | unsup

def errSx : Sx := .list [.atom "err"]
def unsupSx : Sx := .list [.atom "unsupported"]

/-- `is_even(n)`: FALSE for non-numerics, `n % 2 == 0` otherwise (exact on dyadics) -/
def isEvenV : Val → Bool
  | .int n => Lib.isEvenM n
  | .dec m e => m % (2 : Int) ^ (e + 1) == 0
  | _ => false

/-- unary menu: `id`, `neg` (`0 - x`), `mod3` (`x % 3`), `first` (`x[0]`), `isEven` (`is_even(x)`) -/
def unary (name : String) (v : Val) : R Val :=
  match name, v with
  | "id", v => .ok v
  | "neg", .int n => .ok (.int (0 - n))
  | "neg", .dec m e => .ok (.dec (0 - m) e)
  | "mod3", .int n => .ok (.int (Int.fmod n 3))
  | "first", .list (h :: _) => .ok h
  | "first", .list [] => .err
  | "first", .str (c :: _) => .ok (.str [c])
  | "first", .str [] => .err
  | "isEven", v => .ok (.bool (isEvenV v))
  | _, _ => .unsup

def knownUnary (name : String) : Bool := ["id", "neg", "mod3", "first", "isEven"].contains name

/-- predicate menu: `isEven`, `id` (on booleans) -/
def predOf (name : String) (v : Val) : R Bool :=
  match name, v with
  | "isEven", v => .ok (isEvenV v)
  | "id", .bool b => .ok b
  | _, _ => .unsup

/-- binary menu on ints: `add`, `mul`, `max2` (`if a > b then a else b`) -/
def binary (name : String) : Option (Int → Int → Int) :=
  match name with
  | "add" => some (fun a b => a + b)
  | "mul" => some (fun a b => a * b)
  | "max2" => some (fun a b => if a > b then a else b)
  | _ => none

/-- `cmp(a, b) == 0` menu: `compare`, `near` (`|a - b| ≤ 1` on ints), `never` -/
def eq0Of (name : String) : Option (Val → Val → Bool) :=
  match name with
  | "compare" => some (fun a b => compareM decRepr a b == 0)
  | "near" => some (fun a b => match a, b with
      | .int x, .int y => decide ((x - y).natAbs ≤ 1)
      | _, _ => false)
  | "never" => some (fun _ _ => false)
  | _ => none

/-- apply `f` to every element; the first `unsup` wins, then the first `err` -/
def checkAll {α} (f : Val → R α) (xs : List Val) : R Unit :=
  if xs.any (fun x => match f x with | .unsup => true | _ => false) then .unsup
  else if xs.any (fun x => match f x with | .err => true | _ => false) then .err
  else .ok ()

def total (f : Val → R Val) (v : Val) : Val := match f v with | .ok r => r | _ => .null
def totalB (f : Val → R Bool) (v : Val) : Bool := match f v with | .ok r => r | _ => false

/-- the enumeration of a list or set argument -/
def elems? : Val → Option (List Val)
  | .list xs => some xs
  | .set xs => some xs
  | _ => none

def ints? (xs : List Val) : Option (List Int) :=
  xs.mapM (fun v => match v with | .int n => some n | _ => none)

def okV (v : Val) : Sx := okSx (encodeVal v)
def okL (xs : List Val) : Sx := okV (.list xs)
def okSet (xs : List Val) : Sx := okV (.set (sortedItems decRepr xs))
def okI (n : Int) : Sx := okV (.int n)
def okOI : Option Int → Sx
  | some n => okI n
  | none => errSx
def okNum : Option Lib.NumRes → Sx
  | some (.int n) => okI n
  | some (.rat a b) => okSx (.list [.atom "q", .atom (toString a), .atom (toString b)])
  | none => errSx

def allNumeric (xs : List Val) : Bool := xs.all Val.isNumerical

end LibCmd
open LibCmd

def handleLibColl (op : String) (args : List Sx) : Option Sx :=
  match op, args with
  | "union", [a, b] => do
      let a ← elems? (← decodeVal a); let b ← elems? (← decodeVal b)
      some (okSet (Lib.unionM a b))
  | "intersection", [a, b] => do
      let a ← elems? (← decodeVal a); let b ← elems? (← decodeVal b)
      some (okSet (Lib.intersectionM a b))
  | "diff", [a, b] => do
      let a ← elems? (← decodeVal a); let b ← elems? (← decodeVal b)
      some (okSet (Lib.diffM a b))
  | "symdiff", [a, b] => do
      let a ← elems? (← decodeVal a); let b ← elems? (← decodeVal b)
      some (okSet (Lib.symmetricDiffM decRepr a b))
  | "unique", [.atom k, a] => do
      let xs ← elems? (← decodeVal a)
      if !knownUnary k then none else
      match checkAll (unary k) xs with
      | .unsup => some unsupSx
      | .err => some errSx
      | .ok _ => some (okL (Lib.uniqueM (total (unary k)) xs))
  | "reverse", [a] => do
      match ← decodeVal a with
      | .list xs => some (okL (Lib.reverseM xs))
      | _ => some unsupSx
  | "flatten", [a] => do
      let xs ← elems? (← decodeVal a)
      some (okL (Lib.flattenM xs))
  | "filter", [.atom p, .atom k, a] => do
      let xs ← elems? (← decodeVal a)
      if !knownUnary k then none else
      match checkAll (unary k) xs with
      | .unsup => some unsupSx
      | .err => some errSx
      | .ok _ =>
        match checkAll (predOf p) (xs.map (total (unary k))) with
        | .unsup => some unsupSx
        | .err => some errSx
        | .ok _ => some (okL (Lib.filterM (totalB (predOf p)) (total (unary k)) xs))
  | "map", [.atom k, a] => do
      let xs ← elems? (← decodeVal a)
      if !knownUnary k then none else
      match checkAll (unary k) xs with
      | .unsup => some unsupSx
      | .err => some errSx
      | .ok _ => some (okL (Lib.mapListM (total (unary k)) xs))
  | "reduce", [.atom f, a] => do
      let f ← binary f
      match ← decodeVal a with
      | .list xs =>
        match ints? xs with
        | some ns => some (okOI (Lib.reduceM f ns))
        | none => some unsupSx
      | _ => some unsupSx
  | "sum", [a] => do
      match ← decodeVal a with
      | .list xs =>
        if !allNumeric xs then some errSx
        else match Lib.sumM xs with
          | some n => some (okI n)
          | none => some unsupSx
      | _ => some unsupSx
  | "prod", [a] => do
      match ← decodeVal a with
      | .list xs =>
        match ints? xs with
        | some ns => some (okOI (Lib.prodM ns))
        | none => some unsupSx
      | _ => some unsupSx
  | "zip", [a, b] => do
      match ← decodeVal a, ← decodeVal b with
      | .list xs, .list ys => some (okL (Lib.zipM xs ys))
      | _, _ => some unsupSx
  | "enumerate", [a] => do
      match ← decodeVal a with
      | .list xs => some (okL (Lib.enumerateM xs))
      | _ => some unsupSx
  | "range", [a, b, s] => do
      match ← decodeVal a, ← decodeVal b, ← decodeVal s with
      | .int a, .int b, .int s => some (okL ((Lib.rangeM a b s).map .int))
      | _, _, _ => some unsupSx
  | "interval", [a, b] => do
      match ← decodeVal a, ← decodeVal b with
      | .int a, .int b => some (okL ((Lib.intervalM a b).map .int))
      | _, _ => some unsupSx
  | "chunks", [a, k] => do
      match ← decodeVal a, ← decodeVal k with
      | .list xs, .int k =>
        match Lib.chunksM xs k with
        | some cs => some (okL (cs.map .list))
        | none => some errSx
      | _, _ => some unsupSx
  | "pairs", [a] => do
      match ← decodeVal a with
      | .list xs => some (okL (Lib.pairsM xs))
      | _ => some unsupSx
  | "grouped", [.atom c, .atom k, a] => do
      let eq0 ← eq0Of c
      if !knownUnary k then none else
      match ← decodeVal a with
      | .list xs =>
        match checkAll (unary k) xs with
        | .unsup => some unsupSx
        | .err => some errSx
        | .ok _ => some (okL ((Lib.groupedM eq0 (total (unary k)) xs).map .list))
      | _ => some unsupSx
  | "count", [a, x] => do
      let xs ← elems? (← decodeVal a); let x ← decodeVal x
      some (okI (Lib.countM xs x))
  | "any", [.atom p, a] => do
      let xs ← elems? (← decodeVal a)
      -- the loop stops at the first hit: only the inspected prefix must be in the domain
      let pre := xs.takeWhile (fun x => !(totalB (predOf p) x))
      let seen := xs.take (pre.length + 1)
      match checkAll (predOf p) seen with
      | .ok _ => some (okV (.bool (Lib.anyM (totalB (predOf p)) xs)))
      | _ => some unsupSx
  | "all", [.atom p, a] => do
      let xs ← elems? (← decodeVal a)
      let pre := xs.takeWhile (fun x => totalB (predOf p) x)
      let seen := xs.take (pre.length + 1)
      match checkAll (predOf p) seen with
      | .ok _ => some (okV (.bool (Lib.allM (totalB (predOf p)) xs)))
      | _ => some unsupSx
  | "permutations", [a] => do
      match ← decodeVal a with
      | .list xs => if xs.length > 7 then some unsupSx else some (okL ((Lib.permutationsM xs).map .list))
      | _ => some unsupSx
  | "first", [a] => do
      match ← decodeVal a with
      | .list xs => some (match Lib.firstM xs with | some v => okV v | none => errSx)
      | _ => some unsupSx
  | "last", [a] => do
      match ← decodeVal a with
      | .list xs => some (match Lib.lastM xs with | some v => okV v | none => errSx)
      | _ => some unsupSx
  | "rest", [a] => do
      match ← decodeVal a with
      | .list xs => some (okL (Lib.restM xs))
      | _ => some unsupSx
  | _, _ => none

def handleLibStat (op : String) (args : List Sx) : Option Sx :=
  match args with
  | [a] => do
      match ← decodeVal a with
      | .list xs =>
        match ints? xs with
        | none => if ["mean", "median", "median_low", "median_high", "min", "max"].contains op
                  then some unsupSx else none
        | some ns =>
          match op with
          | "mean" => some (okNum (Lib.meanM ns))
          | "median" => some (okNum (Lib.medianM ns))
          | "median_low" => some (okOI (Lib.medianLowM ns))
          | "median_high" => some (okOI (Lib.medianHighM ns))
          | "min" => some (okOI (Lib.minIntM ns))
          | "max" => some (okOI (Lib.maxIntM ns))
          | _ => none
      | _ => none
  | _ => none

def handleLibInt (op : String) (args : List Sx) : Option Sx := do
  let vs ← args.mapM decodeVal
  match op, vs with
  | "pow", [.int a, .int n] => if n < 0 then some unsupSx else some (okI (Lib.powM a n.toNat))
  | "gcd", [.int a, .int b] => some (okI (Lib.gcdM a b))
  | "lcm", [.int a, .int b] => some (okOI (Lib.lcmM a b))
  | "abs", [.int a] => some (okI (Lib.absM a))
  | "sign", [.int a] => some (okI (Lib.signM a))
  | "div", [.int a, .int b] => some (okOI (Lib.truncDivM a b))
  | "mod", [.int a, .int b] => some (okOI (Lib.modM a b))
  | "is_even", [.int a] => some (okV (.bool (Lib.isEvenM a)))
  | "is_odd", [.int a] => some (okV (.bool (Lib.isOddM a)))
  | "bit_and", [.int a, .int b] => some (okI (Lib.bitAnd a b))
  | "bit_or", [.int a, .int b] => some (okI (Lib.bitOr a b))
  | "bit_xor", [.int a, .int b] => some (okI (Lib.bitXor a b))
  | "bit_not", [.int a] => some (okI (Lib.bitNot a))
  | "rotl", [.int a, .int n] => some (okI (Lib.rotl a n))
  | "rotr", [.int a, .int n] => some (okI (Lib.rotr a n))
  | "shl", [.int a, .int n] => some (okOI (Lib.shl a n))
  | "shr", [.int a, .int n] => some (okOI (Lib.shr a n))
  | _, _ => none

def handleLib : Sx → Option Sx
  | .list (.atom "lib" :: .atom op :: args) =>
    match handleLibColl op args with
    | some r => some r
    | none =>
      match handleLibStat op args with
      | some r => some r
      | none => handleLibInt op args
  | _ => none

end Ckl
