/-
  C14 (scanner part) — layout independence: whitespace and comments inserted at a
  token boundary do not change the sequence of token types and values (they only
  move positions).
-/
import CklVerif.Lemmas.LexerLayout
namespace Ckl.C14
open Ckl.Lexer

/-- the (value, type) sequence of a scan outcome; `none` for a syntax error -/
def tokTV (r : Except SynErr (List Token)) : Option (List (List Char × TokType)) :=
  match r with
  | .ok l => some (l.map tv)
  | .error _ => none

/-- `u` ends at a token boundary: after consuming `u` (if that is possible without a syntax
    error) the automaton is in state 0.  In state 0 the token buffer is empty, see
    `boundary_token_empty`. -/
def AtBoundary (name : String) (u : List Char) : Prop :=
  ∀ σ, run name {} u = .ok σ → σ.core.state = .s0

/-- in state 0 the token buffer is empty (for every reachable configuration) -/
theorem boundary_token_empty (name : String) (u : List Char) (σ : LexSt)
    (h : run name {} u = .ok σ) (h0 : σ.core.state = .s0) : σ.core.token = [] :=
  ((run_preserved (numInv_preserved name) u numInv_init).1 σ h).1.1 (Or.inl h0)

/-- **ws_at_boundary**: in state 0 a whitespace character changes only the counters
    (`line`, `column`, `startline` and the ghost offsets): the automaton variables and the
    emitted tokens stay the same, nothing is unread, no error. -/
theorem ws_at_boundary (name : String) (σ : LexSt) (ch : Char) (h0 : σ.core.state = .s0)
    (hws : ch ∈ [' ', '\t', '\r', '\n']) :
    feed name σ ch = .ok
      { core := σ.core, out := σ.out,
        line := if ch = '\n' then σ.line + 1 else σ.line,
        column := if ch = '\n' then 0 else σ.column + 1,
        startline := if ch = '\n' then σ.line + 1 else σ.line,
        pos := σ.pos + 1, startOff := σ.pos } := by
  rw [feed_ws h0 hws]
  unfold wsStep LexSt.count
  by_cases hn : ch = '\n' <;> simp [hn]

/-- **comment_skip**: from state 0, `#`, any characters other than newline, and a newline lead
    back to state 0 with the same automaton variables and the same emitted tokens. -/
theorem comment_skip (name : String) (σ : LexSt) (body : List Char) (h0 : σ.core.state = .s0)
    (hb : '\n' ∉ body) :
    ∃ σ', run name σ ('#' :: (body ++ ['\n'])) = .ok σ' ∧ σ'.core = σ.core ∧ σ'.out = σ.out :=
  run_comment h0 hb

def runTV (r : Except SynErr LexSt) : Option (List (List Char × TokType)) :=
  match r with
  | .ok σ => some (σ.out.reverse.map fun p => tv p.1)
  | .error _ => none

theorem tokTV_scan (s : List Char) (name : String) :
    tokTV (scan s name) = runTV (run name {} (s ++ [' '])) := by
  unfold scan scanWithOffsets
  cases run name {} (s ++ [' ']) with
  | error e => rfl
  | ok σ => simp [tokTV, runTV, List.map_map, Function.comp_def]

theorem runTV_of_simE {r r' : Except SynErr LexSt} (h : SimE r r') : runTV r = runTV r' := by
  cases r with
  | error e => cases r' with
    | error e' => rfl
    | ok σ' => exact h.elim
  | ok σ => cases r' with
    | error e' => exact h.elim
    | ok σ' =>
      simp only [runTV, Option.some.injEq, List.map_reverse]
      rw [h.2]

/-- **layout_insertion**: if `u` ends at a token boundary, then inserting a filler `w` made of
    whitespace characters and complete comments `#…\n` between `u` and `v` does not change the
    sequence of token types and values (nor whether the scan fails). -/
theorem layout_insertion (name : String) (u w v : List Char) (hu : AtBoundary name u)
    (hw : Filler w) : tokTV (scan (u ++ w ++ v) name) = tokTV (scan (u ++ v) name) := by
  rw [tokTV_scan, tokTV_scan]
  have e1 : u ++ w ++ v ++ [' '] = u ++ (w ++ (v ++ [' '])) := by simp
  have e2 : u ++ v ++ [' '] = u ++ (v ++ [' ']) := by simp
  rw [e1, e2]
  cases hr : run name {} u with
  | error e => rw [run_append_error _ hr, run_append_error _ hr]
  | ok σu =>
    have h0 := hu σu hr
    rw [run_append_ok _ hr, run_append_ok _ hr]
    obtain ⟨σw, hrw, hk, ho⟩ := run_filler (name := name) hw h0
    rw [run_append_ok _ hrw]
    exact runTV_of_simE (sim_run _ ⟨hk, by rw [ho]⟩)

/-- whitespace-only special case -/
theorem layout_insertion_ws (name : String) (u w v : List Char) (hu : AtBoundary name u)
    (hw : ∀ c ∈ w, c ∈ [' ', '\t', '\r', '\n']) :
    tokTV (scan (u ++ w ++ v) name) = tokTV (scan (u ++ v) name) :=
  layout_insertion name u w v hu (filler_of_allWs hw)

/-- comment special case -/
theorem layout_insertion_comment (name : String) (u body v : List Char) (hu : AtBoundary name u)
    (hb : '\n' ∉ body) :
    tokTV (scan (u ++ ('#' :: (body ++ ['\n'])) ++ v) name) = tokTV (scan (u ++ v) name) := by
  apply layout_insertion name u _ v hu
  have := Filler.comment hb Filler.nil
  simpa using this

/-- **crlf_lf**: at a token boundary, `\r\n` and `\n` give the same token types and values. -/
theorem crlf_lf (name : String) (u v : List Char) (hu : AtBoundary name u) :
    tokTV (scan (u ++ '\r' :: '\n' :: v) name) = tokTV (scan (u ++ '\n' :: v) name) := by
  have := layout_insertion_ws name u ['\r'] ('\n' :: v) hu (by simp)
  simpa using this

/-- a comment that runs to the end of the input (no final newline) is skipped as well -/
theorem comment_at_eof (name : String) (u body : List Char) (hu : AtBoundary name u)
    (hb : '\n' ∉ body) : tokTV (scan (u ++ '#' :: body) name) = tokTV (scan u name) := by
  rw [tokTV_scan, tokTV_scan]
  have e1 : u ++ '#' :: body ++ [' '] = u ++ ('#' :: (body ++ [' '])) := by simp
  rw [e1]
  cases hr : run name {} u with
  | error e => rw [run_append_error _ hr, run_append_error _ hr]
  | ok σu =>
    have h0 := hu σu hr
    rw [run_append_ok _ hr, run_append_ok _ hr]
    obtain ⟨σ1, hf1, hk1, ho1⟩ := feed_comment_start (name := name) h0
    obtain ⟨σ2, hr2, _, ho2⟩ := run_comment_body (name := name) (body ++ [' ']) (σ := σ1)
      (by rw [hk1]) (by simp [hb])
    have hws : feed name σu ' ' = .ok (wsStep σu ' ') := feed_ws h0 (by simp [whitespace])
    rw [run_cons_ok _ hf1, hr2, run_cons_ok _ hws]
    simp only [run, runTV, wsStep, ho2, ho1]

/-- **boundary_after_ws**: a sufficient condition for a token boundary.  If after `u` the
    automaton is not inside a string, a pattern or a comment, then `u` followed by a whitespace
    character ends at a token boundary.  Together with `layout_insertion`: outside strings,
    patterns and comments, anything made of whitespace and comments may be inserted after a
    whitespace character. -/
theorem boundary_after_ws (name : String) (u : List Char) (c : Char)
    (hc : c ∈ [' ', '\t', '\r', '\n'])
    (hu : ∀ σ, run name {} u = .ok σ → ¬ InText σ.core.state) : AtBoundary name (u ++ [c]) := by
  intro σ' hr
  cases hru : run name {} u with
  | error e => rw [run_append_error _ hru] at hr; cases hr
  | ok σ =>
    rw [run_append_ok _ hru] at hr
    cases hf : feed name σ c with
    | error e => rw [run_cons_error _ hf] at hr; cases hr
    | ok σ1 =>
      rw [run_cons_ok _ hf] at hr
      cases hr
      exact feed_ws_state (hu σ hru) hc hf

/-! non-vacuity -/

/-- `a ` ends at a token boundary, and so does `a;` -/
example : AtBoundary "f" ['a', ' '] := by
  intro σ h; have : σ = _ := (Except.ok.inj h).symm; subst this; decide

example :
    tokTV (scan (['a', ';'] ++ [' ', '#', 'c', '\n', '\t', '\r', '\n'] ++ ['b']) "f")
      = some [(['a'], .identifier), ([';'], .interpunction), (['b'], .identifier)]
    ∧ tokTV (scan (['a', ';'] ++ ['b']) "f")
      = some [(['a'], .identifier), ([';'], .interpunction), (['b'], .identifier)] := by
  decide

/-- `boundary_after_ws` applies to `x=1` (the automaton is in the number state 7 after it) -/
example : ∀ σ, run "f" {} ['x', '=', '1'] = .ok σ → ¬ InText σ.core.state := by
  intro σ h; have : σ = _ := (Except.ok.inj h).symm; subst this; decide

/-- the boundary hypothesis is needed: inside a word, whitespace splits the token -/
example : tokTV (scan (['a'] ++ [' '] ++ ['b']) "f") ≠ tokTV (scan (['a'] ++ ['b']) "f") := by
  decide

end Ckl.C14
