import CklVerif.Lemmas.C14EvalErs
import CklVerif.Lemmas.C14EvalAttr

/-! C14 (evaluator part) — computation rules of the erasure -/
namespace Ckl.C14E
set_option linter.unusedSimpArgs false
open Ckl

/-! ### base types -/
@[simp, ers_simp] theorem ers_pos (p : Pos) : ers p = default := rfl
@[simp low, ers_simp low, ers_id] theorem ers_string (x : String) : ers x = x := rfl
@[simp low, ers_simp low, ers_id] theorem ers_nat (x : Nat) : ers x = x := rfl
@[simp low, ers_simp low, ers_id] theorem ers_int (x : Int) : ers x = x := rfl
@[simp low, ers_simp low, ers_id] theorem ers_bool (x : Bool) : ers x = x := rfl
@[simp low, ers_simp low, ers_id] theorem ers_char (x : Char) : ers x = x := rfl
@[simp low, ers_simp low, ers_id] theorem ers_unit (x : Unit) : ers x = x := rfl
@[simp] theorem ers_list {α} [Ers α] (l : List α) : ers l = l.map ers := rfl
@[simp] theorem ers_array {α} [Ers α] (l : Array α) : ers l = l.map ers := rfl
@[simp] theorem ers_option {α} [Ers α] (l : Option α) : ers l = l.map ers := rfl
@[simp, ers_simp] theorem ers_pair {α β} [Ers α] [Ers β] (a : α) (b : β) : ers (a, b) = (ers a, ers b) := rfl
@[simp, ers_simp] theorem ers_fst {α β} [Ers α] [Ers β] (p : α × β) : (ers p).1 = ers p.1 := rfl
@[simp, ers_simp] theorem ers_snd {α β} [Ers α] [Ers β] (p : α × β) : (ers p).2 = ers p.2 := rfl
theorem ers_prod {α β} [Ers α] [Ers β] (p : α × β) : ers p = (ers p.1, ers p.2) := rfl

@[simp] theorem map_ers_chars (l : List Char) : l.map ers = l := by
  induction l with
  | nil => rfl
  | cons a l ih => simp [ih]
@[simp] theorem map_ers_strings (l : List String) : l.map ers = l := by
  induction l with
  | nil => rfl
  | cons a l ih => simp [ih]

/-! `ers`-headed computation rules for containers (the set `ers_simp` never unfolds `ers` to `map`) -/
section
variable {α β : Type} [Ers α] [Ers β]
@[ers_simp] theorem ers_nil : ers ([] : List α) = [] := rfl
@[ers_simp] theorem ers_cons (a : α) (l : List α) : ers (a :: l) = ers a :: ers l := rfl
@[ers_simp] theorem ers_append (l l' : List α) : ers (l ++ l') = ers l ++ ers l' := by simp
@[ers_simp] theorem ers_some (a : α) : ers (some a) = some (ers a) := rfl
@[ers_simp] theorem ers_none : ers (none : Option α) = none := rfl
@[ers_simp, ers_id] theorem ers_chars (l : List Char) : ers l = l := by simp
@[ers_simp, ers_id] theorem ers_strings (l : List String) : ers l = l := by simp
@[ers_simp] theorem ers_getD (l : List α) (i : Nat) (d : α) : ers (l.getD i d) = (ers l).getD i (ers d) := by
  simp [List.getD]
@[ers_simp] theorem ers_getElem? (l : List α) (i : Nat) : ers l[i]? = (ers l)[i]? := by simp
@[ers_simp] theorem ers_replicate (n : Nat) (a : α) : ers (List.replicate n a) = List.replicate n (ers a) := by simp
@[ers_simp] theorem ers_map_snd (l : List (β × α)) : ers (l.map (fun x => x.2)) = (ers l).map (fun x => x.2) := by
  simp [List.map_map, Function.comp_def]
@[ers_simp] theorem ers_map_fst (l : List (α × β)) : ers (l.map (fun x => x.1)) = (ers l).map (fun x => x.1) := by
  simp [List.map_map, Function.comp_def]
@[ers_simp low] theorem ers_map {γ : Type} (f : γ → α) (l : List γ) : ers (l.map f) = l.map (fun a => ers (f a)) := by
  simp [List.map_map, Function.comp_def]
@[ers_simp] theorem ers_getDo (o : Option α) (d : α) : ers (o.getD d) = (ers o).getD (ers d) := by
  cases o <;> rfl
@[ers_simp] theorem ers_toArray (l : List α) : ers l.toArray = (ers l).toArray := by simp
@[ers_simp] theorem ers_toList (l : Array α) : ers l.toList = (ers l).toList := by simp
@[ers_simp] theorem ers_agetD (l : Array α) (i : Nat) (d : α) : ers (l.getD i d) = (ers l).getD i (ers d) := by
  simp [Array.getD]
  split <;> simp
@[ers_simp] theorem ers_asetIfInBounds (l : Array α) (i : Nat) (d : α) :
    ers (l.setIfInBounds i d) = (ers l).setIfInBounds i (ers d) := by simp
@[ers_simp] theorem ers_set (l : List α) (i : Nat) (d : α) : ers (l.set i d) = (ers l).set i (ers d) := by
  simp [List.map_set]
@[ers_simp] theorem ers_dropLast (l : List α) : ers l.dropLast = (ers l).dropLast := by simp [List.map_dropLast]
@[ers_simp] theorem ers_flatten (l : List (List α)) : ers l.flatten = (ers l).flatten := by
  simp [List.map_flatten]
  rfl
@[ers_simp] theorem ers_take (l : List α) (n : Nat) : ers (l.take n) = (ers l).take n := by simp [List.map_take]
@[ers_simp] theorem ers_drop (l : List α) (n : Nat) : ers (l.drop n) = (ers l).drop n := by simp [List.map_drop]
@[ers_simp] theorem ers_eraseIdx (l : List α) (n : Nat) : ers (l.eraseIdx n) = (ers l).eraseIdx n := by
  simp only [ers_list]
  induction l generalizing n with
  | nil => rfl
  | cons a l ih => cases n <;> simp [List.eraseIdx, ih]
@[ers_simp] theorem ers_zip (l : List α) (l' : List β) : ers (l.zip l') = (ers l).zip (ers l') := by
  simp [List.zip_map]
@[ers_id] theorem ers_opt_int (o : Option Int) : ers o = o := by cases o <;> rfl
@[ers_id] theorem ers_opt_string (o : Option String) : ers o = o := by cases o <;> rfl
@[ers_id] theorem ers_opt_chars (o : Option (List Char)) : ers o = o := by cases o <;> simp
@[ers_id] theorem ers_opt_strings (o : List (Option String)) : ers o = o := by
  induction o with
  | nil => rfl
  | cons a l ih => simp only [ers_cons, ers_opt_string, ih]
theorem length_ers (l : List α) : (ers l).length = l.length := by simp
theorem asize_ers (l : Array α) : (ers l).size = l.size := by simp
end

/-! ### nodes -/
@[simp, ers_simp] theorem ers_absent : ers Node.absent = Node.absent := rfl
@[simp, ers_simp] theorem ers_catchAll : ers Node.catchAll = Node.catchAll := rfl
@[simp, ers_simp] theorem ers_nnull {x0} : ers (Node.null x0) = Node.null default := by
  show Node.erase _ = _; (try simp only [Node.erase, eraseN, eraseL_eq_map]) <;> rfl
@[simp, ers_simp] theorem ers_nlit {x0 x1} : ers (Node.lit x0 x1) = Node.lit x0 default := by
  show Node.erase _ = _; (try simp only [Node.erase, eraseN, eraseL_eq_map]) <;> rfl
@[simp, ers_simp] theorem ers_nident {x0 x1} : ers (Node.ident x0 x1) = Node.ident x0 default := by
  show Node.erase _ = _; (try simp only [Node.erase, eraseN, eraseL_eq_map]) <;> rfl
@[simp, ers_simp] theorem ers_nand {x0 x1} : ers (Node.and x0 x1) = Node.and (ers x0) default := by
  show Node.erase _ = _; (try simp only [Node.erase, eraseN, eraseL_eq_map]) <;> rfl
@[simp, ers_simp] theorem ers_nor {x0 x1} : ers (Node.or x0 x1) = Node.or (ers x0) default := by
  show Node.erase _ = _; (try simp only [Node.erase, eraseN, eraseL_eq_map]) <;> rfl
@[simp, ers_simp] theorem ers_nnot {x0 x1} : ers (Node.not x0 x1) = Node.not (ers x0) default := by
  show Node.erase _ = _; (try simp only [Node.erase, eraseN, eraseL_eq_map]) <;> rfl
@[simp, ers_simp] theorem ers_nassign {x0 x1 x2} : ers (Node.assign x0 x1 x2) = Node.assign x0 (ers x1) default := by
  show Node.erase _ = _; (try simp only [Node.erase, eraseN, eraseL_eq_map]) <;> rfl
@[simp, ers_simp] theorem ers_nassignD {x0 x1 x2} : ers (Node.assignD x0 x1 x2) = Node.assignD x0 (ers x1) default := by
  show Node.erase _ = _; (try simp only [Node.erase, eraseN, eraseL_eq_map]) <;> rfl
@[simp, ers_simp] theorem ers_nblock {x0 x1 x2 x3 x4 x5} : ers (Node.block x0 x1 x2 x3 x4 x5) = Node.block (ers x0) (ers x1) (ers x2) (ers x3) x4 default := by
  show Node.erase _ = _; (try simp only [Node.erase, eraseN, eraseL_eq_map]) <;> rfl
@[simp, ers_simp] theorem ers_nbrk {x0} : ers (Node.brk x0) = Node.brk default := by
  show Node.erase _ = _; (try simp only [Node.erase, eraseN, eraseL_eq_map]) <;> rfl
@[simp, ers_simp] theorem ers_ncont {x0} : ers (Node.cont x0) = Node.cont default := by
  show Node.erase _ = _; (try simp only [Node.erase, eraseN, eraseL_eq_map]) <;> rfl
@[simp, ers_simp] theorem ers_ncls {x0 x1 x2} : ers (Node.cls x0 x1 x2) = Node.cls x0 (ers x1) default := by
  show Node.erase _ = _; (try simp only [Node.erase, eraseN, eraseL_eq_map]) <;> rfl
@[simp, ers_simp] theorem ers_ndefn {x0 x1 x2 x3} : ers (Node.defn x0 x1 x2 x3) = Node.defn x0 (ers x1) x2 default := by
  show Node.erase _ = _; (try simp only [Node.erase, eraseN, eraseL_eq_map]) <;> rfl
@[simp, ers_simp] theorem ers_ndefD {x0 x1 x2 x3} : ers (Node.defD x0 x1 x2 x3) = Node.defD x0 (ers x1) x2 default := by
  show Node.erase _ = _; (try simp only [Node.erase, eraseN, eraseL_eq_map]) <;> rfl
@[simp, ers_simp] theorem ers_nderef {x0 x1 x2 x3} : ers (Node.deref x0 x1 x2 x3) = Node.deref (ers x0) (ers x1) (ers x2) default := by
  show Node.erase _ = _; (try simp only [Node.erase, eraseN, eraseL_eq_map]) <;> rfl
@[simp, ers_simp] theorem ers_nderefAssign {x0 x1 x2 x3} : ers (Node.derefAssign x0 x1 x2 x3) = Node.derefAssign (ers x0) (ers x1) (ers x2) default := by
  show Node.erase _ = _; (try simp only [Node.erase, eraseN, eraseL_eq_map]) <;> rfl
@[simp, ers_simp] theorem ers_nderefInvoke {x0 x1 x2 x3 x4} : ers (Node.derefInvoke x0 x1 x2 x3 x4) = Node.derefInvoke (ers x0) x1 x2 (ers x3) default := by
  show Node.erase _ = _; (try simp only [Node.erase, eraseN, eraseL_eq_map]) <;> rfl
@[simp, ers_simp] theorem ers_nslice {x0 x1 x2 x3} : ers (Node.slice x0 x1 x2 x3) = Node.slice (ers x0) (ers x1) (ers x2) default := by
  show Node.erase _ = _; (try simp only [Node.erase, eraseN, eraseL_eq_map]) <;> rfl
@[simp, ers_simp] theorem ers_nerror {x0 x1} : ers (Node.error x0 x1) = Node.error (ers x0) default := by
  show Node.erase _ = _; (try simp only [Node.erase, eraseN, eraseL_eq_map]) <;> rfl
@[simp, ers_simp] theorem ers_nfor {x0 x1 x2 x3 x4} : ers (Node.for x0 x1 x2 x3 x4) = Node.for x0 (ers x1) (ers x2) x3 default := by
  show Node.erase _ = _; (try simp only [Node.erase, eraseN, eraseL_eq_map]) <;> rfl
@[simp, ers_simp] theorem ers_ncall {x0 x1 x2 x3} : ers (Node.call x0 x1 x2 x3) = Node.call (ers x0) x1 (ers x2) default := by
  show Node.erase _ = _; (try simp only [Node.erase, eraseN, eraseL_eq_map]) <;> rfl
@[simp, ers_simp] theorem ers_nite {x0 x1 x2 x3} : ers (Node.ite x0 x1 x2 x3) = Node.ite (ers x0) (ers x1) (ers x2) default := by
  show Node.erase _ = _; (try simp only [Node.erase, eraseN, eraseL_eq_map]) <;> rfl
@[simp, ers_simp] theorem ers_nisIn {x0 x1 x2} : ers (Node.isIn x0 x1 x2) = Node.isIn (ers x0) (ers x1) default := by
  show Node.erase _ = _; (try simp only [Node.erase, eraseN, eraseL_eq_map]) <;> rfl
@[simp, ers_simp] theorem ers_nlambda {x0 x1 x2 x3} : ers (Node.lambda x0 x1 x2 x3) = Node.lambda x0 (ers x1) (ers x2) default := by
  show Node.erase _ = _; (try simp only [Node.erase, eraseN, eraseL_eq_map]) <;> rfl
@[simp, ers_simp] theorem ers_nlist {x0 x1} : ers (Node.list x0 x1) = Node.list (ers x0) default := by
  show Node.erase _ = _; (try simp only [Node.erase, eraseN, eraseL_eq_map]) <;> rfl
@[simp, ers_simp] theorem ers_ncompr {x0 x1 x2 x3 x4 x5 x6 x7 x8 x9 x10 x11} : ers (Node.compr x0 x1 x2 x3 x4 x5 x6 x7 x8 x9 x10 x11) = Node.compr x0 x1 (ers x2) (ers x3) x4 (ers x5) x6 x7 (ers x8) x9 (ers x10) default := by
  show Node.erase _ = _; (try simp only [Node.erase, eraseN, eraseL_eq_map]) <;> rfl
@[simp, ers_simp] theorem ers_nmap {x0 x1 x2} : ers (Node.map x0 x1 x2) = Node.map (ers x0) (ers x1) default := by
  show Node.erase _ = _; (try simp only [Node.erase, eraseN, eraseL_eq_map]) <;> rfl
@[simp, ers_simp] theorem ers_nobject {x0 x1 x2} : ers (Node.object x0 x1 x2) = Node.object x0 (ers x1) default := by
  show Node.erase _ = _; (try simp only [Node.erase, eraseN, eraseL_eq_map]) <;> rfl
@[simp, ers_simp] theorem ers_nrequire {x0 x1 x2 x3 x4} : ers (Node.require x0 x1 x2 x3 x4) = Node.require (ers x0) x1 x2 x3 default := by
  show Node.erase _ = _; (try simp only [Node.erase, eraseN, eraseL_eq_map]) <;> rfl
@[simp, ers_simp] theorem ers_nret {x0 x1} : ers (Node.ret x0 x1) = Node.ret (ers x0) default := by
  show Node.erase _ = _; (try simp only [Node.erase, eraseN, eraseL_eq_map]) <;> rfl
@[simp, ers_simp] theorem ers_nset {x0 x1} : ers (Node.set x0 x1) = Node.set (ers x0) default := by
  show Node.erase _ = _; (try simp only [Node.erase, eraseN, eraseL_eq_map]) <;> rfl
@[simp, ers_simp] theorem ers_nspread {x0 x1} : ers (Node.spread x0 x1) = Node.spread (ers x0) default := by
  show Node.erase _ = _; (try simp only [Node.erase, eraseN, eraseL_eq_map]) <;> rfl
@[simp, ers_simp] theorem ers_nwhile {x0 x1 x2} : ers (Node.while x0 x1 x2) = Node.while (ers x0) (ers x1) default := by
  show Node.erase _ = _; (try simp only [Node.erase, eraseN, eraseL_eq_map]) <;> rfl

/-! ### values -/
@[simp, ers_simp] theorem ers_vnull : ers RVal.null = RVal.null := rfl
@[simp, ers_simp] theorem ers_vbool (b) : ers (RVal.bool b) = RVal.bool b := rfl
@[simp, ers_simp] theorem ers_vint (b) : ers (RVal.int b) = RVal.int b := rfl
@[simp, ers_simp] theorem ers_vdec (m e) : ers (RVal.dec m e) = RVal.dec m e := rfl
@[simp, ers_simp] theorem ers_vstr (b) : ers (RVal.str b) = RVal.str b := rfl
@[simp, ers_simp] theorem ers_vpat (b) : ers (RVal.pat b) = RVal.pat b := rfl
@[simp, ers_simp] theorem ers_vdate (b) : ers (RVal.date b) = RVal.date b := rfl
@[simp, ers_simp] theorem ers_vref (b) : ers (RVal.ref b) = RVal.ref b := rfl
@[simp, ers_simp] theorem ers_vclosure (b) : ers (RVal.closure b) = RVal.closure b := rfl
@[simp, ers_simp] theorem ers_vnative (n i) : ers (RVal.native n i) = RVal.native n i := rfl
@[simp, ers_simp] theorem ers_vnode (n) : ers (RVal.node n) = RVal.node (ers n) := rfl
@[simp, ers_simp] theorem ers_vbrk (p) : ers (RVal.brk p) = RVal.brk default := rfl
@[simp, ers_simp] theorem ers_vcont (p) : ers (RVal.cont p) = RVal.cont default := rfl
@[simp, ers_simp] theorem ers_vret (v p) : ers (RVal.ret v p) = RVal.ret (ers v) default := rfl

/-! ### cells, frames, states, outcomes -/
@[simp, ers_simp] theorem ers_clist (xs) : ers (Cell.list xs) = Cell.list (ers xs) := rfl
@[simp, ers_simp] theorem ers_cset (xs) : ers (Cell.set xs) = Cell.set (ers xs) := rfl
@[simp, ers_simp] theorem ers_cmap (xs) : ers (Cell.map xs) = Cell.map (ers xs) := rfl
@[simp, ers_simp] theorem ers_cobj (xs m) : ers (Cell.obj xs m) = Cell.obj (ers xs) m := rfl
@[simp, ers_simp] theorem ers_cclosure (e ps ds b n) :
    ers (Cell.closure e ps ds b n) = Cell.closure e ps (ers ds) (ers b) n := rfl

@[simp, ers_simp] theorem ers_frame_mk (vs p) : ers ({ vars := vs, parent := p } : Frame) = { vars := ers vs, parent := p } := rfl
@[simp, ers_simp] theorem ers_frame_vars (f : Frame) : (ers f).vars = ers f.vars := rfl
@[simp, ers_simp] theorem ers_frame_parent (f : Frame) : (ers f).parent = f.parent := rfl

@[simp, ers_simp] theorem ers_state_frames (s : State) : (ers s).frames = ers s.frames := rfl
@[simp, ers_simp] theorem ers_state_heap (s : State) : (ers s).heap = ers s.heap := rfl
@[simp, ers_simp] theorem ers_state_modules (s : State) : (ers s).modules = s.modules := rfl
@[simp, ers_simp] theorem ers_state_modstack (s : State) : (ers s).modstack = s.modstack := rfl
@[simp, ers_simp] theorem ers_state_out (s : State) : (ers s).out = s.out := rfl
@[simp, ers_simp] theorem ers_state_nextInst (s : State) : (ers s).nextInst = s.nextInst := rfl
@[simp, ers_simp] theorem ers_state_secure (s : State) : (ers s).secure = s.secure := rfl
@[simp, ers_simp] theorem ers_state_ghost (s : State) : (ers s).ghost = ers s.ghost := rfl
@[simp, ers_simp] theorem ers_ghost_me (g : Ghost) : (ers g).moduleEvals = g.moduleEvals := rfl
@[simp, ers_simp] theorem ers_ghost_enter (g : Ghost) : (ers g).enter = [] := rfl
@[simp, ers_simp] theorem ers_ghost_fin (g : Ghost) : (ers g).fin = [] := rfl

@[simp, ers_simp] theorem ers_ok {α} [Ers α] (a : α) (s) : ers (Out.ok a s) = Out.ok (ers a) (ers s) := rfl
@[simp, ers_simp] theorem ers_err {α} [Ers α] (v m p t s) :
    ers (Out.err v m p t s : Out α) = Out.err (ers v) m default (t.map (fun x => (x.1, default))) (ers s) := rfl
@[simp, ers_simp] theorem ers_fail {α} [Ers α] (f s) : ers (Out.fail f s : Out α) = Out.fail (ers f) (ers s) := rfl
@[simp, ers_simp] theorem ers_foof : ers Fail.oof = Fail.oof := rfl
@[simp, ers_simp] theorem ers_funsupported (w) : ers (Fail.unsupported w) = Fail.unsupported "" := rfl
@[simp, ers_simp] theorem ers_fhost (w) : ers (Fail.host w) = Fail.host w := rfl
@[simp, ers_simp] theorem ers_fsyn (w) : ers (Fail.syn w) = Fail.syn w := rfl

end Ckl.C14E
