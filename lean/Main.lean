/-
  Line-protocol driver: one request per line on stdin, one response per line on
  stdout.  Imports only the executable model (no Mathlib), so it links as an
  executable.
-/
import CklVerif.Driver.Basic
import CklVerif.Driver.SeqDate
import CklVerif.Driver.EvalCmd
import CklVerif.Driver.ParserCmd
import CklVerif.Driver.LexerCmd
import CklVerif.Driver.FrontCmd
import CklVerif.Driver.StrCmd
import CklVerif.Driver.LibCmd
open Ckl

def handlers : List (Sx → Option Sx) := [handleValue, handleSeqDate, handleEval, handleParser, handleLexer, handleFront, handleStr, handleLib]

def dispatch (req : Sx) : Sx :=
  match handlers.findSome? (fun h => h req) with
  | some r => r
  | none => .list [.atom "bad-request"]

partial def loop (h : IO.FS.Stream) (out : IO.FS.Stream) (lib : Option LibSetup) : IO Unit := do
  let line ← h.getLine
  if line.isEmpty then return ()
  match Sx.parse line with
  | none =>
    out.putStrLn (toString (Sx.list [.atom "parse-error"]))
    loop h out lib
  | some req =>
    -- the two stateful requests: `libsetup` builds the real base environment once, `libsession` runs programs on it
    match libSetup req with
    | some (.ok c) =>
      out.putStrLn (toString (Sx.list [.atom "libsetup", .atom "ok"]))
      loop h out (some c)
    | some (.error e) =>
      out.putStrLn (toString e)
      loop h out none
    | none =>
      let resp := match lib.bind (fun c => libSession c req) with
        | some r => r
        | none => dispatch req
      out.putStrLn (toString resp)
      loop h out lib

def main : IO Unit := do
  let stdin ← IO.getStdin
  let stdout ← IO.getStdout
  loop stdin stdout none
  stdout.flush
