import CklVerif.Lemmas.C19SrcMath

/-! C19Src — where function values "made from a generated definition" come from, the lifting of `fn.execute` facts to
    call nodes, and a concrete state satisfying the environment hypothesis -/
namespace Ckl.C19Src
open Ckl Ckl.C03 Ckl.Gen.LibSrc
variable (ld : Loader)

/-- Evaluating a generated `def name(params) body` node in frame `m` (what loading the module does) allocates a function
    value that is `IsSrc … src m`, and binds `name` to it in frame `m`. -/
theorem eval_def_isSrc {name : String} {ps : List String} {ds : List Node} {body : Node} {lp dp : Pos} {info : String}
    (s : State) (m : EnvId) (hm : m < s.frames.size) :
    ∃ s', (∀ fuel, 1 < fuel → eval ld fuel m (.defn name (.lambda ps ds body lp) info dp) s = .ok (.closure s.heap.size) s') ∧
      IsSrc s' (.closure s.heap.size) (.defn name (.lambda ps ds body lp) info dp) m ∧
      dictGet name (s'.frame m).vars = some (.closure s.heap.size) := by
  refine ⟨(((s.alloc (.closure m ps ds body "lambda")).1.put m name (.closure s.heap.size)).setCell s.heap.size
      (.closure m ps ds body name)), ?_, ?_, ?_⟩
  · intro fuel hf
    obtain ⟨g, rfl, hg⟩ := succ_of_lt hf
    obtain ⟨g', rfl, _⟩ := succ_of_lt (show 0 < g by omega)
    rw [eval, EvalM.bind_apply, eval]
    simp [EvalM.bind_apply, modifyS, renameClosure, getS, State.alloc, State.put, State.cell, State.setCell]
    rfl
  · refine ⟨s.heap.size, name, rfl, ?_⟩
    simp [State.alloc, State.put, State.cell, State.setCell, lamParams, lamDefaults, lamBody]
  · have : ((s.alloc (.closure m ps ds body "lambda")).1.put m name (.closure s.heap.size)).frame m
        = { (s.frame m) with vars := dictPut name (.closure s.heap.size) (s.frame m).vars } :=
      frame_put_same _ _ _ hm
    show dictGet name (((s.alloc _).1.put m name _).frame m).vars = _
    rw [this]; exact dictGet_dictPut_same _ _ _

/-! ### from `fn.execute` to call nodes -/

/-- `f(a)` as a NODE: `f` an identifier that resolves to a function value made from the one-parameter definition `src`, `a` a
    node whose evaluation gives `x` without changing the state (an identifier, a literal) -/
theorem eval_call1 {k : Nat} {env : EnvId} {fname : String} {p pos : Pos} {a : Node} {s s' : State} {x v : RVal}
    {fn : RVal} {src : Node} {m : EnvId} {q : String}
    (hfn : s.lookup env fname = some fn) (hsrc : IsSrc s fn src m) (hps : lamParams src = [q])
    (hq : ¬ ("...".toList <:+ q.toList)) (hns : NotSpread a) (ha : Ev ld k env a s (.ok x s))
    (hcall : ∀ env pos, Calls ld (k + 1) fn [(q, x)] env pos s (.ok v s')) :
    ∀ fuel, k + 3 < fuel → eval ld fuel env (.call (.ident fname p) [none] [a] pos) s = .ok v s' := by
  have := Ev.callSrc1 ld (p := p) hfn hsrc hps hq hns ha (hcall env pos)
  rwa [wrapCall_ok] at this

/-! ### a concrete state -/

/-- base frame 0: NULL and the built-ins; module frame 1: the functions made from the generated definitions -/
def exState : State where
  frames := #[
    { vars := [("NULL", .null), ("is_null", .native "is_null" 0), ("less", .native "less" 1),
               ("greater", .native "greater" 2), ("sub", .native "sub" 3), ("add", .native "add" 4),
               ("type", .native "type" 5), ("equals", .native "equals" 6)], parent := none },
    { vars := [("is_int", .closure 0), ("is_decimal", .closure 1), ("is_numeric", .closure 2),
               ("abs", .closure 3), ("sign", .closure 4), ("x", .int (-5))], parent := some 0 }]
  heap := #[
    .closure 1 (lamParams type_is_int) (lamDefaults type_is_int) (lamBody type_is_int) "is_int",
    .closure 1 (lamParams type_is_decimal) (lamDefaults type_is_decimal) (lamBody type_is_decimal) "is_decimal",
    .closure 1 (lamParams type_is_numeric) (lamDefaults type_is_numeric) (lamBody type_is_numeric) "is_numeric",
    .closure 1 (lamParams math_abs) (lamDefaults math_abs) (lamBody math_abs) "abs",
    .closure 1 (lamParams math_sign) (lamDefaults math_sign) (lamBody math_sign) "sign"]
  nextInst := 7

theorem exState_libEnv : LibEnv exState (· = 1) mathNats mathSrcs := by
  refine ⟨?_, ?_, ?_, ?_⟩
  · intro m hm; subst hm; decide
  · intro m hm; subst hm; exact Or.inr ⟨rfl, rfl, rfl⟩
  · intro m hm x hx; subst hm
    simp [mathNats] at hx
    rcases hx with rfl | rfl | rfl | rfl | rfl | rfl | rfl <;> exact ⟨_, Or.inr ⟨rfl, rfl, rfl⟩⟩
  · intro m hm p hp; subst hm
    simp [mathSrcs] at hp
    rcases hp with rfl | rfl | rfl
    · exact ⟨.closure 2, 1, Or.inl rfl, rfl, 2, _, rfl, rfl⟩
    · exact ⟨.closure 0, 1, Or.inl rfl, rfl, 0, _, rfl, rfl⟩
    · exact ⟨.closure 1, 1, Or.inl rfl, rfl, 1, _, rfl, rfl⟩

theorem exState_abs : IsSrc exState (.closure 3) math_abs 1 := ⟨3, _, rfl, rfl⟩
theorem exState_sign : IsSrc exState (.closure 4) math_sign 1 := ⟨4, _, rfl, rfl⟩

end Ckl.C19Src
