/-
  Layer 1 — collection and numeric library functions (property C19).

  The functions written in the language itself (modules/set.ckl, list.ckl,
  core.ckl, stat.ckl, math.ckl) and the arithmetic / bit built-ins of
  functions.py, as executable definitions.  A `for` loop that appends becomes a
  left fold that appends, a `while` loop a (well-founded) recursion in the same
  order; a runtime error of the code is `none`.

  Sets are lists WITHOUT `veq`-duplicates; `set.add` keeps the resident element.
  The enumeration order of a set (`sortedItems`) is applied where the code
  enumerates a set value (`for x in set`, `list(set)`).
  Python ints are `Int`; decimals (floats) are outside this model: functions whose
  result is a decimal return the exact rational it is computed from.
-/
import CklVerif.Model.Value
import CklVerif.Model.Coll
import CklVerif.Model.Seq
import CklVerif.Model.DecRepr
namespace Ckl.Lib

/-! ## sets (modules/set.ckl) -/

/-- `set.add(x)`: CPython keeps the resident element when an equal one is present -/
def setAdd (s : List Val) (x : Val) : List Val := if memV x s then s else s ++ [x]

/-- `append_all(set, items)`: `for item in list(items) do set !> append(item)` -/
def appendAllSet (s items : List Val) : List Val := items.foldl setAdd s

/-- `append_all(lst, items)` on a list -/
def appendAllM {α} (l items : List α) : List α := items.foldl (fun acc x => acc ++ [x]) l

/-- `union(seta, setb)`; the arguments are the enumerations of the two collections -/
def unionM (a b : List Val) : List Val := appendAllSet (appendAllSet [] a) b

/-- `for a in seta do if a in setb then result !> append(a)` -/
def intersectionM (a b : List Val) : List Val :=
  a.foldl (fun acc x => if memV x b then setAdd acc x else acc) []

/-- `for a in seta do if a not in setb then result !> append(a)` -/
def diffM (a b : List Val) : List Val :=
  a.foldl (fun acc x => if !(memV x b) then setAdd acc x else acc) []

/-- `union(diff(seta, setb), diff(setb, seta))`: the two differences are set VALUES, which
    `append_all` enumerates in sorted order -/
def symmetricDiffM (dr : DecRenderer) (a b : List Val) : List Val :=
  unionM (sortedItems dr (diffM a b)) (sortedItems dr (diffM b a))

/-! ## lists (modules/list.ckl, core.ckl) -/

/-- loop of `unique`: `seen` is the set `s` of keys, the result is appended in order -/
def uniqueGo (key : Val → Val) : List Val → List Val → List Val
  | _, [] => []
  | seen, x :: xs =>
    if memV (key x) seen then uniqueGo key seen xs
    else x :: uniqueGo key (key x :: seen) xs

/-- `unique(lst, key)` -/
def uniqueM (key : Val → Val) (xs : List Val) : List Val := uniqueGo key [] xs

/-- `reverse(list)`: `for element in obj do insert_at(result, 0, element)` -/
def reverseM {α} (xs : List α) : List α := xs.foldl (fun acc x => x :: acc) []

/-- `flatten(lst)`: list items are spliced (`append_all`), all others appended -/
def flattenStep (acc : List Val) (x : Val) : List Val :=
  match x with
  | .list ys => appendAllM acc ys
  | v => acc ++ [v]

def flattenM (xs : List Val) : List Val := xs.foldl flattenStep []

/-- `filter(lst, predicate, key)` -/
def filterM {α β} (pred : β → Bool) (key : α → β) (xs : List α) : List α :=
  xs.foldl (fun acc x => if pred (key x) then acc ++ [x] else acc) []

/-- `map_list(lst, f)`: `[f(element) for element in lst]` -/
def mapListM {α β} (f : α → β) : List α → List β
  | [] => []
  | x :: xs => f x :: mapListM f xs

/-- `reduce(list, f)`: error on the empty list; `list[0]` for a singleton; else the left
    fold of `sublist(list, 1)` from `list[0]` -/
def reduceM {α} (f : α → α → α) : List α → Option α
  | [] => none
  | [x] => some x
  | x :: rest => some (rest.foldl f x)

/-- `sum(list)` on ints (`none`: an element that is not an int) -/
def sumStep (acc : Option Int) (v : Val) : Option Int :=
  match acc, v with
  | some r, .int n => some (r + n)
  | _, _ => none

def sumM (xs : List Val) : Option Int := xs.foldl sumStep (some 0)

/-- `prod(list) = reduce(list, mul)` on ints -/
def prodM (xs : List Int) : Option Int := reduceM (fun a b => a * b) xs

/-- `zip(a, b)`: pairs `[a[i], b[i]]` for `i < min(len a, len b)` -/
def zipM : List Val → List Val → List Val
  | x :: xs, y :: ys => .list [x, y] :: zipM xs ys
  | _, _ => []

def enumerateFrom (i : Int) : List Val → List Val
  | [] => []
  | x :: xs => .list [.int i, x] :: enumerateFrom (i + 1) xs

/-- `enumerate(list)`: `[[i, obj[i]] for i in range(length(obj))]` -/
def enumerateM (xs : List Val) : List Val := enumerateFrom 0 xs

/-- `while i < end: result.append(i); i += step` (for `step > 0`) -/
def rangeUp (step e i : Int) : List Int :=
  if 0 < step ∧ i < e then i :: rangeUp step e (i + step) else []
termination_by (e - i).toNat
decreasing_by omega

/-- `while i > end: result.append(i); i += step` (for `step < 0`) -/
def rangeDown (step e i : Int) : List Int :=
  if step < 0 ∧ e < i then i :: rangeDown step e (i + step) else []
termination_by (i - e).toNat
decreasing_by omega

/-- `range(a, b, step)` -/
def rangeM (a b step : Int) : List Int :=
  if step > 0 then rangeUp step b a
  else if step < 0 then rangeDown step b a
  else []

/-- `interval(a, b) = range(a, b + 1)` -/
def intervalM (a b : Int) : List Int := rangeM a (b + 1) 1

/-- loop of `chunks` on a list: `while length(obj) > k` take `sublist(obj, 0, k)` and continue
    with `sublist(obj, k)`; finally append what is left (also when it is empty) -/
def chunksGo {α} (k : Nat) (xs : List α) : List (List α) :=
  if 0 < k ∧ xs.length > k then xs.take k :: chunksGo k (xs.drop k) else [xs]
termination_by xs.length
decreasing_by simp only [List.length_drop]; omega

/-- `chunks(obj, chunk_size)` on a list -/
def chunksM {α} (xs : List α) (k : Int) : Option (List (List α)) :=
  if k ≤ 0 then none else some (chunksGo k.toNat xs)

/-- `pairs(lst)`: `[lst[i], lst[i+1]]` for `i` in `range(length(lst) - 1)` -/
def pairsM : List Val → List Val
  | x :: y :: rest => .list [x, y] :: pairsM (y :: rest)
  | _ => []

/-- loop of `grouped`: `ck` is `current_key` (the key of the FIRST element of the current group,
    not of the previous element), `grp` the current group, `res` the result so far;
    `eq0 a b` stands for `cmp(a, b) == 0` -/
def groupedGo {α β} (eq0 : β → β → Bool) (key : α → β) :
    List α → β → List α → List (List α) → List (List α)
  | [], _, grp, res => if grp.length > 0 then res ++ [grp] else res
  | x :: xs, ck, grp, res =>
    if !(eq0 ck (key x)) then groupedGo eq0 key xs (key x) [x] (res ++ [grp])
    else groupedGo eq0 key xs ck (grp ++ [x]) res

/-- `grouped(lst, cmp, key)` -/
def groupedM {α β} (eq0 : β → β → Bool) (key : α → β) (xs : List α) : List (List α) :=
  match xs with
  | [] => []
  | x :: _ => groupedGo eq0 key xs (key x) [] []

/-- `count(obj, elem)` on a list -/
def countM (xs : List Val) (elem : Val) : Int :=
  xs.foldl (fun r e => if veq e elem then r + 1 else r) 0

/-- `any(lst, pred)` -/
def anyM {α} (pred : α → Bool) : List α → Bool
  | [] => false
  | x :: xs => if pred x then true else anyM pred xs

/-- `all(lst, pred)` -/
def allM {α} (pred : α → Bool) : List α → Bool
  | [] => true
  | x :: xs => if !(pred x) then false else allM pred xs

/-- `first(lst)`: `lst[0]` -/
def firstM {α} (xs : List α) : Option α := Seq.deref xs 0
/-- `last(lst)`: `lst[-1]` -/
def lastM {α} (xs : List α) : Option α := Seq.deref xs (-1)
/-- `rest(lst)`: `sublist(lst, 1)` -/
def restM {α} (xs : List α) : List α := Seq.substr xs 1 none

/-- `temp = lst[i]; lst[i] = lst[j]; lst[j] = temp` -/
def swapIdx {α} (l : List α) (i j : Nat) : List α :=
  match l[i]?, l[j]? with
  | some a, some b => (l.set i b).set j a
  | _, _ => l

/-- `perms(lst, size)` of `permutations` (Heap's algorithm): the state is the shared, mutated
    list and the `result` list.  `size == 1` appends a copy; otherwise, for `i` in `range(size)`:
    recurse with `size - 1`, then swap position `size - 1` with position `0` (odd `size`) or `i`
    (even `size`).  `size == 0` (the empty input) does nothing. -/
def heapGo {α} : Nat → List α × List (List α) → List α × List (List α)
  | 0, st => st
  | 1, (lst, acc) => (lst, acc ++ [lst])
  | n + 2, st =>
    (List.range (n + 2)).foldl (fun st i =>
      let st' := heapGo (n + 1) st
      (swapIdx st'.1 (if (n + 2) % 2 = 1 then 0 else i) (n + 1), st'.2)) st

/-- `permutations(lst)` -/
def permutationsM {α} (xs : List α) : List (List α) := (heapGo xs.length (xs, [])).2

/-! ## integer arithmetic (functions.py, modules/math.ckl) -/

/-- `abs(n)`: `if n < 0 then -n else n` -/
def absM (n : Int) : Int := if n < 0 then -n else n

/-- `sign(n)` -/
def signM (n : Int) : Int := if n < 0 then -1 else if n > 0 then 1 else 0

/-- `pow(x, y)` for ints with `y ≥ 0`: Python `x ** y` -/
def powM (a : Int) (n : Nat) : Int := a ^ n

/-- `mod(a, b)` / `a % b` on ints: Python's floored `%`; `b = 0` is the runtime error -/
def modM (a b : Int) : Option Int := if b = 0 then none else some (Int.fmod a b)

/-- `div(a, b)` / `a / b` on ints (repaired): `abs(a) // abs(b)`, negated when the signs differ -/
def truncDivM (a b : Int) : Option Int :=
  if b = 0 then none
  else
    let q := Int.fdiv (absM a) (absM b)
    some (if (decide (a < 0)) != (decide (b < 0)) then -q else q)

theorem natAbs_fmod_lt (a : Int) {b : Int} (hb : b ≠ 0) : (Int.fmod a b).natAbs < b.natAbs := by
  have h1 := Int.emod_nonneg a hb
  have h2 := Int.emod_lt a hb
  rw [Int.fmod_eq_emod]
  split
  · rename_i h
    rcases h with h | h
    · omega
    · have := Int.emod_eq_zero_of_dvd h; omega
  · rename_i h
    have h3 : a % b ≠ 0 := fun h0 => h (Or.inr (Int.dvd_of_emod_eq_zero h0))
    omega

/-- `gcd(a, b)` of math.ckl: `if b == 0 then abs(a) else gcd(b, a % b)` -/
def gcdM (a b : Int) : Int :=
  if _h : b = 0 then absM a else gcdM b (Int.fmod a b)
termination_by b.natAbs
decreasing_by exact natAbs_fmod_lt a _h

/-- `lcm(a, b) = abs(a * b) / gcd(a, b)` (division by zero error for `gcd = 0`) -/
def lcmM (a b : Int) : Option Int := truncDivM (absM (a * b)) (gcdM a b)

/-- `is_even(n)`: `n % 2 == 0` -/
def isEvenM (n : Int) : Bool := Int.fmod n 2 == 0
/-- `is_odd(n)`: `n % 2 == 1` -/
def isOddM (n : Int) : Bool := Int.fmod n 2 == 1

/-! ## statistics on lists of ints (modules/stat.ckl) -/

/-- an int, or the exact rational `num / den` from which the code computes a decimal
    (`decimal(num) / den`, `num / 2.0`) -/
inductive NumRes where
  | int (n : Int)
  | rat (num den : Int)
deriving DecidableEq, Repr

/-- `sorted(list(lst))` with the default `compare` on ints -/
def sortedInts (xs : List Int) : List Int := sortedM (fun a b => decide (a < b)) id xs

/-- `mean(lst) = decimal(sum(lst)) / length(lst)`; division by zero for the empty list -/
def meanM (xs : List Int) : Option NumRes :=
  if xs.length = 0 then none else some (.rat (xs.foldl (fun r n => r + n) 0) xs.length)

/-- `median(lst)` -/
def medianM (xs : List Int) : Option NumRes :=
  let l := sortedInts xs
  let len : Int := l.length
  let idx := Int.tdiv len 2
  if Int.fmod len 2 = 0 then
    match Seq.deref l (idx - 1), Seq.deref l idx with
    | some a, some b => some (.rat (a + b) 2)
    | _, _ => none
  else (Seq.deref l idx).map .int

/-- `median_low(lst)` -/
def medianLowM (xs : List Int) : Option Int :=
  let l := sortedInts xs
  let len : Int := l.length
  let idx := Int.tdiv len 2
  if Int.fmod len 2 = 0 then Seq.deref l (idx - 1) else Seq.deref l idx

/-- `median_high(lst)` -/
def medianHighM (xs : List Int) : Option Int :=
  let l := sortedInts xs
  Seq.deref l (Int.tdiv (l.length : Int) 2)

/-- `min(list)` / `max(list)` on ints -/
def minIntM (xs : List Int) : Option Int := minM (fun a b => decide (a < b)) id xs
def maxIntM (xs : List Int) : Option Int := maxM (fun a b => decide (a < b)) id xs

/-! ## bit functions (functions.py): Python `& | ^ ~ << >>` on unbounded ints -/

/-- `m & ~n` on naturals -/
def natAndNot (m n : Nat) : Nat := Nat.bitwise (fun a b => a && !b) m n

/-- Python `a & b` (two's complement with infinite sign extension) -/
def pyAnd : Int → Int → Int
  | .ofNat m, .ofNat n => Int.ofNat (m &&& n)
  | .ofNat m, .negSucc n => Int.ofNat (natAndNot m n)
  | .negSucc m, .ofNat n => Int.ofNat (natAndNot n m)
  | .negSucc m, .negSucc n => .negSucc (m ||| n)

/-- Python `a | b` -/
def pyOr : Int → Int → Int
  | .ofNat m, .ofNat n => Int.ofNat (m ||| n)
  | .ofNat m, .negSucc n => .negSucc (natAndNot n m)
  | .negSucc m, .ofNat n => .negSucc (natAndNot m n)
  | .negSucc m, .negSucc n => .negSucc (m &&& n)

/-- Python `a ^ b` -/
def pyXor : Int → Int → Int
  | .ofNat m, .ofNat n => Int.ofNat (m ^^^ n)
  | .ofNat m, .negSucc n => .negSucc (m ^^^ n)
  | .negSucc m, .ofNat n => .negSucc (m ^^^ n)
  | .negSucc m, .negSucc n => Int.ofNat (m ^^^ n)

/-- Python `a << n`, `a >> n` for `n ≥ 0` -/
def pyShl (a : Int) (n : Nat) : Int := a <<< n
def pyShr (a : Int) (n : Nat) : Int := a >>> n

def mask32 : Int := 0xFFFFFFFF

def bitAnd (a b : Int) : Int := pyAnd a b
def bitOr (a b : Int) : Int := pyOr a b
def bitXor (a b : Int) : Int := pyXor a b

/-- `bit_not(a)`: `a = ~a; if a < 0: a += 2 ** 32` -/
def bitNot (a : Int) : Int :=
  let a' := ~~~a
  if a' < 0 then a' + 2 ^ 32 else a'

/-- `bit_rotate_left(a, n)` (repaired):
    `a &= 0xFFFFFFFF; n %= 32; ((a << n) | (a >> (32 - n))) & 0xFFFFFFFF` -/
def rotl (a n : Int) : Int :=
  let a' := pyAnd a mask32
  let n' := Int.fmod n 32
  pyAnd (pyOr (pyShl a' n'.toNat) (pyShr a' (32 - n').toNat)) mask32

/-- `bit_rotate_right(a, n)` (repaired) -/
def rotr (a n : Int) : Int :=
  let a' := pyAnd a mask32
  let n' := Int.fmod n 32
  pyAnd (pyOr (pyShr a' n'.toNat) (pyShl a' (32 - n').toNat)) mask32

/-- `bit_shift_left(a, n) = a << n`; a negative count is the runtime error -/
def shl (a n : Int) : Option Int := if n < 0 then none else some (pyShl a n.toNat)

/-- `bit_shift_right(a, n) = a >> n`; a negative count is the runtime error -/
def shr (a n : Int) : Option Int := if n < 0 then none else some (pyShr a n.toNat)

end Ckl.Lib
