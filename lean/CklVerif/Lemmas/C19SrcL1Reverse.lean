import CklVerif.Lemmas.C19SrcLoop
import CklVerif.Lemmas.C18SrcReverse

/-! C19Src (L1) — the generic `reverse(obj)` of list.ckl: `if is_string(obj) then do … end elif is_list(obj) then do … end
    else error("cannot reverse " + type(obj))`; the two loops sit in nested `do … end` blocks of the `if` chain. -/
set_option linter.unusedSimpArgs false
namespace Ckl.C19Src
open Ckl Ckl.C03 Ckl.C18Src Ckl.Gen.LibSrc
variable (ld : Loader)

/-! ### the parts of the generated term -/

/-- the `then` block of the first branch (string) -/
def revStrBlock_L1 : Node → Node
  | .ite _ (b :: _) _ _ => b
  | _ => .absent
/-- the `then` block of the second branch (list) -/
def revListBlock_L1 : Node → Node
  | .ite _ (_ :: b :: _) _ _ => b
  | _ => .absent
/-- the `else` part: the `error(…)` node -/
def revElse_L1 : Node → Node
  | .ite _ _ e _ => e
  | _ => .absent
/-- position of an `error(…)` node -/
def errorPos_L1 : Node → Pos
  | .error _ p => p
  | _ => default
/-- the literal text the error message starts with -/
def revErrPrefix_L1 : Node → List Char
  | .error (.call _ _ (.lit (.str t) _ :: _) _) _ => t
  | _ => []

example : revErrPrefix_L1 (revElse_L1 (lamBody list_reverse)) = "cannot reverse ".toList := by decide

/-- built-ins the generic `reverse` uses (directly or through `is_string` / `is_list`) -/
def reverseGenNats : List String := ["type", "equals", "add", "insert_at"]
/-- library functions it uses -/
def reverseGenSrcs : List (String × Node) := [("is_string", type_is_string), ("is_list", type_is_list)]

theorem reverseGenNats_type {nats : List String} (hn : ∀ x ∈ reverseGenNats, x ∈ nats) : ∀ x ∈ typeNats, x ∈ nats := by
  intro x hx; apply hn; simp [typeNats] at hx; rcases hx with rfl | rfl <;> decide

/-! ### the two guards -/

/-- `fn.execute(obj = v)` of a type test `type(obj) == 'tn'`, with the fact that the heap is not touched -/
theorem typeTest_calls_heap_L1 {src : Node} {tn : List Char} {p1 p2 p3 p4 p5 p6 : Pos}
    (hps : lamParams src = ["obj"]) (hds : lamDefaults src = [.absent])
    (hbody : lamBody src = .call (.ident "equals" p1) [some "a", some "b"]
        [.call (.ident "type" p2) [none] [.ident "obj" p3] p4, .lit (.str tn) p5] p6)
    {s : State} {M nats srcs fn m} (h : LibEnv s M nats srcs) (hn : ∀ x ∈ typeNats, x ∈ nats) (hm : M m)
    (hsrc : IsSrc s fn src m) (v : RVal) :
    ∃ s', Ext s s' ∧ s'.heap = s.heap ∧
      ∀ env pos, Calls ld 7 fn [("obj", v)] env pos s (.ok (.bool ((typeName s v).toList == tn)) s') := by
  obtain ⟨a, nm, rfl, hcell⟩ := hsrc
  rw [hps, hds, hbody] at hcell
  have ctx := Ctx.callee1 h hm "obj" v
  refine ⟨_, calleeState_ext s m [("obj", v)] ["obj"], calleeState_heap .., fun env pos => ?_⟩
  have hb := typeTest_body ld (tn := tn) (p1 := p1) (p2 := p2) (p3 := p3) (p4 := p4) (p5 := p5) (p6 := p6) ctx.fr
    (ctx.env.nat m hm "type" (hn _ (by decide))) (ctx.env.nat m hm "equals" (hn _ (by decide)))
  rw [typeName_heap (calleeState_heap ..)] at hb
  exact Calls.closure ld hcell rfl (by decide) (by intro p hp; simp at hp; subst hp; rfl) hb

theorem isListR_heap_L1 {s s' : State} (h : s'.heap = s.heap) (v : RVal) : isListR s' v = isListR s v := by
  cases v <;> simp [isListR, State.cell, h]

/-- `is_string(obj)` and then `is_list(obj)` in a call frame binding `obj`: the two conditions of the `if` chain; the heap is not
    touched -/
theorem reverse_guards_L1 {s : State} {M nats srcs c m} (v : RVal) (ctx : Ctx s M nats srcs c m [("obj", v)])
    (hn : ∀ x ∈ reverseGenNats, x ∈ nats) (hs : ∀ p ∈ reverseGenSrcs, p ∈ srcs) :
    ∃ s1, Ext s s1 ∧ s1.heap = s.heap ∧
      (∀ p1 p2 p3, Ev ld 9 c (.call (.ident "is_string" p1) [none] [.ident "obj" p2] p3) s (.ok (.bool v.isString) s1)) ∧
      ∃ s2, Ext s1 s2 ∧ s2.heap = s.heap ∧
        (∀ p1 p2 p3, Ev ld 9 c (.call (.ident "is_list" p1) [none] [.ident "obj" p2] p3) s1 (.ok (.bool (isListR s v)) s2)) := by
  obtain ⟨f1, m1, hl1, hm1, hsrc1⟩ := ctx.src (x := "is_string") (src := type_is_string) (hs _ (by simp [reverseGenSrcs])) (by rfl)
  obtain ⟨s1, e1, hh1, c1⟩ := typeTest_calls_heap_L1 ld (src := type_is_string) rfl rfl rfl ctx.env (reverseGenNats_type hn)
    hm1 hsrc1 v
  rw [typeName_string] at c1
  have ctx1 := ctx.ext e1
  obtain ⟨f2, m2, hl2, hm2, hsrc2⟩ := ctx1.src (x := "is_list") (src := type_is_list) (hs _ (by simp [reverseGenSrcs])) (by rfl)
  obtain ⟨s2, e2, hh2, c2⟩ := typeTest_calls_heap_L1 ld (src := type_is_list) rfl rfl rfl ctx1.env (reverseGenNats_type hn)
    hm2 hsrc2 v
  rw [typeName_list, isListR_heap_L1 hh1] at c2
  refine ⟨s1, e1, hh1, fun p1 p2 p3 => ?_, s2, e2, by rw [hh2, hh1], fun p1 p2 p3 => ?_⟩
  · have E := Ev.callSrc1 ld (k := 6) (p := p1) hl1 hsrc1 rfl (by decide) (by trivial)
      (Ev.ident ld (p := p2) (ctx.var (x := "obj") (by rfl))) (c1 c p3)
    rw [wrapCall_ok] at E
    exact E
  · have E := Ev.callSrc1 ld (k := 6) (p := p1) hl2 hsrc2 rfl (by decide) (by trivial)
      (Ev.ident ld (p := p2) (ctx1.var (x := "obj") (by rfl))) (c2 c p3)
    rw [wrapCall_ok] at E
    exact E

/-! ### the string branch -/

/-- loop invariant of the string branch: `result` holds the reversed prefix, the loop variable `ch` is not bound -/
structure RevGenStrInv_L1 (s : State) (c m : EnvId) (cs : List Char) (i : Nat) (st : State) : Prop where
  ext : Ext s st
  parent : (st.frame c).parent = some m
  clt : c < st.frames.size
  vars : (st.frame c).vars = [("obj", .str cs), ("result", .str (cs.take i).reverse)]

local notation "bps" => blockPos (revStrBlock_L1 (lamBody list_reverse))

/-- `do def result = ""; for ch in obj do result = ch + result end; result end` in a call frame binding `obj` to a string -/
theorem reverse_str_block_L1 {s s0 : State} {M nats srcs m} {cs : List Char}
    (h : LibEnv s M nats srcs) (hm : M m)
    (ctx : Ctx s0 M nats srcs s.frames.size m [("obj", .str cs)]) (e0 : Ext s s0)
    (hn : ∀ x ∈ reverseGenNats, x ∈ nats) :
    ∃ s', Ext s s' ∧ Ev ld (cs.length + 11) s.frames.size (revStrBlock_L1 (lamBody list_reverse)) s0
      (.ok (.str cs.reverse) s') := by
  unfold revStrBlock_L1 lamBody list_reverse
  simp only []
  generalize hK : cs.length + 7 = K
  have hcge : s.frames.size ≤ s.frames.size := Nat.le_refl _
  have ctx1 : Ctx (ghostEnter s0 bps) M nats srcs s.frames.size m [("obj", .str cs)] :=
    ctx.ext ((Ext.refl s0).ghostEnter _)
  have E1 : Ext s (ghostEnter s0 bps) := e0.ghostEnter _
  -- statement 1: `def result = ""`
  let t2 := (ghostEnter s0 bps).put s.frames.size "result" (.str [])
  have S2 : ∀ p1 info p2, Ev ld K s.frames.size (.defn "result" (.lit (.str []) p1) info p2) (ghostEnter s0 bps)
      (.ok (.str []) t2) := by
    intro p1 info p2
    exact Ev.mono ld (Ev.defn ld (k := 0) (by intro a h; cases h) (Ev.litStr ld)) (by omega)
  have hclt1 : s.frames.size < (ghostEnter s0 bps).frames.size := ctx1.clt
  have E2 : Ext s t2 := E1.put hcge _ _
  have inv0 : RevGenStrInv_L1 s s.frames.size m cs 0 t2 := by
    refine ⟨E2, ?_, ?_, ?_⟩
    · show (((ghostEnter s0 bps).put _ _ _).frame _).parent = _
      rw [parent_put]; exact ctx1.fr.parent
    · show _ < ((ghostEnter s0 bps).put _ _ _).frames.size
      rw [frames_size_put]; exact hclt1
    · show (((ghostEnter s0 bps).put _ _ _).frame _).vars = _
      rw [vars_put_same (ghostEnter s0 bps) "result" (.str []) hclt1, ctx1.fr.vars]; rfl
  -- statement 2: the loop
  have hstep : ∀ p1 p2 p3 p4 p5, ∀ (i : Nat) (r : RVal) st ch, RevGenStrInv_L1 s s.frames.size m cs i st → cs[i]? = some ch →
      ∃ r' s', Ev ld 5 s.frames.size (.assign "result" (.call (.ident "add" p1) [some "a", some "b"]
          [.ident "ch" p2, .ident "result" p3] p4) p5) (st.put s.frames.size "ch" (.str [ch])) (.ok r' s') ∧
        isCtl r' = false ∧ RevGenStrInv_L1 s s.frames.size m cs (i + 1) (s'.remove s.frames.size "ch") := by
    intro p1 p2 p3 p4 p5 i r st ch inv hv
    have hvars : ((st.put s.frames.size "ch" (.str [ch])).frame s.frames.size).vars =
        [("obj", .str cs), ("result", .str (cs.take i).reverse), ("ch", .str [ch])] := by
      rw [vars_put_same _ _ _ inv.clt, inv.vars]; simp [dictPut]
    have hpar : ((st.put s.frames.size "ch" (.str [ch])).frame s.frames.size).parent = some m := by
      rw [parent_put]; exact inv.parent
    have eu : Ext s (st.put s.frames.size "ch" (.str [ch])) := inv.ext.put hcge _ _
    have hclt : s.frames.size < (st.put s.frames.size "ch" (.str [ch])).frames.size := by
      rw [frames_size_put]; exact inv.clt
    have cu : Ctx (st.put s.frames.size "ch" (.str [ch])) M nats srcs s.frames.size m
        [("obj", .str cs), ("result", .str (cs.take i).reverse), ("ch", .str [ch])] :=
      Ctx.ofExt h hm eu hvars hpar hclt
    obtain ⟨j, hl⟩ := cu.nat (x := "add") (hn _ (by decide)) (by rfl)
    have A := Ev.natAB ld (k := 0) (p := p1) (pos := p4) hl (by rfl) (by trivial) (by trivial)
      (Ev.ident ld (p := p2) (cu.var (x := "ch") (by rfl))) (Ev.ident ld (p := p3) (cu.var (x := "result") (by rfl)))
      (pure_add _ _ _ _) (nativeAdd_str _ _ _ _)
    rw [wrapCall_ok] at A
    have hdef : (st.put s.frames.size "ch" (.str [ch])).isDefined s.frames.size "result" = true := by
      unfold State.isDefined; rw [cu.var (x := "result") (by rfl)]; rfl
    have B := Ev.assignLocal ld (pos := p5) hdef A (by rw [hvars]; rfl)
    refine ⟨_, _, B, rfl, ?_⟩
    have hclt2 : s.frames.size <
        ((st.put s.frames.size "ch" (.str [ch])).put s.frames.size "result" (.str ([ch] ++ (cs.take i).reverse))).frames.size := by
      rw [frames_size_put]; exact hclt
    refine ⟨(eu.put hcge _ _).remove hcge _, ?_, ?_, ?_⟩
    · rw [frame_remove_same _ _ hclt2]; show ((State.put _ _ _ _).frame _).parent = _
      rw [parent_put]; exact hpar
    · rw [frames_size_remove]; exact hclt2
    · rw [frame_remove_same _ _ hclt2]
      show dictDel "ch" ((State.put _ _ _ _).frame _).vars = _
      rw [vars_put_same _ _ _ hclt, hvars, List.take_add_one, hv]
      simp [dictPut, dictDel]
  have S3 : ∀ p0 p1 p2 p3 p4 p5 what p6, ∃ r t3, Ev ld K s.frames.size
      (.for ["ch"] (.ident "obj" p0) (.assign "result" (.call (.ident "add" p1) [some "a", some "b"]
          [.ident "ch" p2, .ident "result" p3] p4) p5) what p6) t2 (.ok r t3) ∧ isCtl r = false ∧
        RevGenStrInv_L1 s s.frames.size m cs cs.length t3 := by
    intro p0 p1 p2 p3 p4 p5 what p6
    obtain ⟨r, st, ⟨hctl, inv⟩, hloop⟩ := forString_inv ld (kb := 5) (env := s.frames.size) (x := "ch") cs
      (fun i r st => isCtl r = false ∧ RevGenStrInv_L1 s s.frames.size m cs i st)
      (fun i r st ch hI hv => by
        obtain ⟨r', s', h1, h2, h3⟩ := hstep p1 p2 p3 p4 p5 i r st ch hI.2 hv
        exact ⟨r', s', h1, h2, h2, h3⟩)
      cs.length 0 (.bool true) t2 (by omega) ⟨rfl, inv0⟩
    rw [List.drop_zero] at hloop
    have hF := Ev.forStr ld (k := 0) (kl := 5 + cs.length) (what := what) (x := "ch") (pos := p6)
      (by rw [inv0.vars]; rfl)
      (Ev.ident ld (p := p0) (lookup_local (x := "obj") (callFrame_self inv0.parent (h.lt m hm)) (by rw [inv0.vars]; rfl)))
      hloop
    exact ⟨r, st, Ev.mono ld hF (by omega), hctl, inv⟩
  -- the block
  obtain ⟨r3, t3, hS3, hctl3, inv3⟩ := S3 _ _ _ _ _ _ _ _
  have S4 : ∀ p, Ev ld K s.frames.size (.ident "result" p) t3 (.ok (.str cs.reverse) t3) := by
    intro p
    have := Ev.ident ld (k := K) (p := p) (lookup_local (x := "result") (callFrame_self inv3.parent (h.lt m hm))
      (by rw [inv3.vars]; rfl))
    rwa [List.take_length] at this
  refine ⟨ghostFin t3 bps, inv3.ext.ghostFin _, ?_⟩
  exact Ev.mono ld (k := K + 2 + 1 + 1) (Ev.block ld (b := false) (pos := bps)
    (EvBody.cons ld (Ev.mono ld (S2 _ _ _) (show K ≤ K + 2 by omega)) rfl
      (EvBody.cons ld (Ev.mono ld hS3 (show K ≤ K + 1 by omega)) hctl3
        (EvBody.cons ld (S4 _) rfl (EvBody.nil ld))))) (by omega)

/-- the body of the generic `reverse` on a string -/
theorem reverse_body_str {s s0 : State} {M nats srcs m} {cs : List Char}
    (h : LibEnv s M nats srcs) (hm : M m)
    (ctx : Ctx s0 M nats srcs s.frames.size m [("obj", .str cs)]) (e0 : Ext s s0)
    (hn : ∀ x ∈ reverseGenNats, x ∈ nats) (hs : ∀ p ∈ reverseGenSrcs, p ∈ srcs) :
    ∃ s', Ext s s' ∧ Ev ld (cs.length + 13) s.frames.size (lamBody list_reverse) s0 (.ok (.str cs.reverse) s') ∧ True := by
  obtain ⟨s1, e1, _, g1, _⟩ := reverse_guards_L1 ld (.str cs) ctx hn hs
  obtain ⟨s', e', hB⟩ := reverse_str_block_L1 ld h hm (ctx.ext e1) (e0.trans e1) hn
  refine ⟨s', e', ?_, trivial⟩
  unfold revStrBlock_L1 lamBody list_reverse at hB
  simp only [] at hB
  unfold lamBody list_reverse
  simp only []
  exact Ev.ite ld (EvIf.true ld (Ev.mono ld (g1 _ _ _) (by omega)) hB)

/-! ### the list branch -/

/-- loop invariant of the list branch: the result cell `b` (the newest cell) holds the reversed prefix -/
structure RevGenListInv_L1 (s : State) (c m : EnvId) (a b : Nat) (xs : List RVal) (i : Nat) (st : State) : Prop where
  ext : Ext s st
  cellb : st.cell b = some (.list (xs.take i).reverse)
  hsize : st.heap.size = b + 1
  parent : (st.frame c).parent = some m
  clt : c < st.frames.size
  vars : (st.frame c).vars = [("obj", .ref a), ("result", .ref b)] ∨
    ∃ w, (st.frame c).vars = [("obj", .ref a), ("result", .ref b), ("element", w)]

local notation "bpl" => blockPos (revListBlock_L1 (lamBody list_reverse))

/-- `do def result = []; for element in obj do insert_at(result, 0, element); end; result end` in a call frame binding `obj` to a
    list cell -/
theorem reverse_list_block_L1 {s s0 : State} {M nats srcs m} {a : Nat} {xs : List RVal}
    (h : LibEnv s M nats srcs) (hm : M m)
    (ctx : Ctx s0 M nats srcs s.frames.size m [("obj", .ref a)]) (e0 : Ext s s0)
    (hn : ∀ x ∈ reverseGenNats, x ∈ nats) (hc : s.cell a = some (.list xs)) :
    ∃ s', Ext s s' ∧ Ev ld (xs.length + 12) s.frames.size (revListBlock_L1 (lamBody list_reverse)) s0
        (.ok (.ref (s'.heap.size - 1)) s') ∧
      (s.heap.size ≤ s'.heap.size - 1 ∧ s'.cell (s'.heap.size - 1) = some (.list xs.reverse)) := by
  unfold revListBlock_L1 lamBody list_reverse
  simp only []
  generalize hK : xs.length + 8 = K
  have ha : a < s.heap.size := cell_lt hc
  have hcge : s.frames.size ≤ s.frames.size := Nat.le_refl _
  let t1 := ghostEnter s0 bpl
  have ctx1 : Ctx t1 M nats srcs s.frames.size m [("obj", .ref a)] := ctx.ext ((Ext.refl s0).ghostEnter _)
  have E1 : Ext s t1 := e0.ghostEnter _
  -- statement 1: `def result = []`
  let b := t1.heap.size
  let t2 := (t1.alloc (.list [])).1.put s.frames.size "result" (.ref b)
  have S2 : ∀ p1 info p2, Ev ld K s.frames.size (.defn "result" (.list [] p1) info p2) t1 (.ok (.ref b) t2) := by
    intro p1 info p2
    exact Ev.mono ld (Ev.defn ld (k := 1) (by intro a h; cases h) (Ev.listNil ld (k := 0))) (by omega)
  have hclt1 : s.frames.size < t1.frames.size := ctx1.clt
  have E2 : Ext s t2 := (E1.alloc _).put hcge _ _
  have hbge : s.heap.size ≤ b := E1.hsize
  have inv0 : RevGenListInv_L1 s s.frames.size m a b xs 0 t2 := by
    refine ⟨E2, ?_, ?_, ?_, ?_, Or.inl ?_⟩
    · show ((t1.alloc (.list [])).1.put _ _ _).cell b = _
      rw [cell_put, cell_alloc_new]; rfl
    · show ((t1.alloc (.list [])).1.put _ _ _).heap.size = _
      rw [heap_put, heap_size_alloc]
    · show (((t1.alloc (.list [])).1.put _ _ _).frame _).parent = _
      rw [parent_put, frame_alloc]; exact ctx1.fr.parent
    · show _ < ((t1.alloc (.list [])).1.put _ _ _).frames.size
      rw [frames_size_put]; exact hclt1
    · show (((t1.alloc (.list [])).1.put _ _ _).frame _).vars = _
      rw [vars_put_same (t1.alloc (.list [])).1 "result" (.ref b) hclt1, frame_alloc, ctx1.fr.vars]; rfl
  -- statement 2: the loop
  have hstep : ∀ p1 p2 p3 p4 p5, ∀ (i : Nat) (r : RVal) st v, RevGenListInv_L1 s s.frames.size m a b xs i st → xs[i]? = some v →
      ∃ r' s', Ev ld 5 s.frames.size (.call (.ident "insert_at" p1) [none, none, none]
          [.ident "result" p2, .lit (.int 0) p3, .ident "element" p4] p5) (st.put s.frames.size "element" v) (.ok r' s') ∧
        isCtl r' = false ∧ RevGenListInv_L1 s s.frames.size m a b xs (i + 1) s' := by
    intro p1 p2 p3 p4 p5 i r st v inv hv
    have hvars : ((st.put s.frames.size "element" v).frame s.frames.size).vars =
        [("obj", .ref a), ("result", .ref b), ("element", v)] := by
      rw [vars_put_same _ _ _ inv.clt]
      rcases inv.vars with h | ⟨w, h⟩ <;> rw [h] <;> simp [dictPut]
    have hpar : ((st.put s.frames.size "element" v).frame s.frames.size).parent = some m := by
      rw [parent_put]; exact inv.parent
    have eu : Ext s (st.put s.frames.size "element" v) := inv.ext.put hcge _ _
    have cu : Ctx (st.put s.frames.size "element" v) M nats srcs s.frames.size m
        [("obj", .ref a), ("result", .ref b), ("element", v)] :=
      Ctx.ofExt h hm eu hvars hpar (by rw [frames_size_put]; exact inv.clt)
    obtain ⟨j, hl⟩ := cu.nat (x := "insert_at") (hn _ (by decide)) (by rfl)
    have hcb : (st.put s.frames.size "element" v).cell b = some (.list (xs.take i).reverse) := by
      rw [cell_put]; exact inv.cellb
    obtain ⟨mm, hm1, hm2⟩ := insert_at_front b _ v (div0Value (st.put s.frames.size "element" v) s.frames.size) p5 _ hcb
    have A := Ev.nat3 ld (k := 0) (p := p1) (pos := p5) hl (by rfl) (by decide) (by decide) (by decide) (by decide)
      (by trivial) (by trivial) (by trivial)
      (Ev.ident ld (p := p2) (cu.var (x := "result") (by rfl))) (Ev.litInt ld (p := p3) (n := 0))
      (Ev.ident ld (p := p4) (cu.var (x := "element") (by rfl))) hm1 hm2
    rw [wrapCall_ok] at A
    have hblt : b < (st.put s.frames.size "element" v).heap.size := by rw [heap_put, inv.hsize]; exact Nat.lt_succ_self _
    refine ⟨_, _, A, rfl, ⟨eu.setCell hbge _, ?_, ?_, ?_, ?_, Or.inr ⟨v, ?_⟩⟩⟩
    · rw [cell_setCell_same _ _ hblt, List.take_add_one, hv]; simp
    · rw [heap_size_setCell, heap_put]; exact inv.hsize
    · rw [frame_setCell]; exact hpar
    · show _ < (st.put s.frames.size "element" v).frames.size
      rw [frames_size_put]; exact inv.clt
    · rw [frame_setCell]; exact hvars
  have hcellI : ∀ (i : Nat) (r : RVal) st, RevGenListInv_L1 s s.frames.size m a b xs i st → st.cell a = some (.list xs) := by
    intro i r st inv; rw [inv.ext.cell a ha]; exact hc
  have S3 : ∀ p0 p1 p2 p3 p4 p5 what p6, ∃ r t3, Ev ld K s.frames.size
      (.for ["element"] (.ident "obj" p0) (.call (.ident "insert_at" p1) [none, none, none]
          [.ident "result" p2, .lit (.int 0) p3, .ident "element" p4] p5) what p6) t2 (.ok r t3) ∧ isCtl r = false ∧
        Ext s t3 ∧ t3.cell b = some (.list xs.reverse) ∧ t3.heap.size = b + 1 ∧
        ∃ vars, CallFrame t3 s.frames.size m vars ∧ dictGet "result" vars = some (.ref b) ∧ s.frames.size < t3.frames.size := by
    intro p0 p1 p2 p3 p4 p5 what p6
    obtain ⟨r, st, ⟨hctl, inv⟩, hloop⟩ := forListLive_inv ld (kb := 5) (env := s.frames.size) (x := "element") (a := a)
      (pos := p6) xs (fun i r st => isCtl r = false ∧ RevGenListInv_L1 s s.frames.size m a b xs i st)
      (fun i r st hI => hcellI i r st hI.2)
      (fun i r st v hI hv => by
        obtain ⟨r', s', h1, h2, h3⟩ := hstep p1 p2 p3 p4 p5 i r st v hI.2 hv
        exact ⟨r', s', h1, h2, h2, h3⟩)
      xs.length 0 (.bool true) t2 (by omega) ⟨rfl, inv0⟩
    have hvars2 : (t2.frame s.frames.size).vars = [("obj", .ref a), ("result", .ref b)] := by
      show (((t1.alloc (.list [])).1.put _ _ _).frame _).vars = _
      rw [vars_put_same (t1.alloc (.list [])).1 "result" (.ref b) hclt1, frame_alloc, ctx1.fr.vars]; rfl
    have hF := Ev.forList ld (k := 0) (kl := 5 + xs.length + 1) (what := what) (x := "element") (pos := p6)
      (by rw [hvars2]; rfl)
      (Ev.ident ld (p := p0) (lookup_local (x := "obj") (callFrame_self inv0.parent (h.lt m hm)) (by rw [hvars2]; rfl)))
      (hcellI 0 (.bool true) t2 inv0) hloop (hcellI _ r st inv)
    refine ⟨r, _, Ev.mono ld hF (show max 0 (5 + xs.length + 1) + 2 ≤ K by omega), hctl, ?_⟩
    have hcb : st.cell b = some (.list xs.reverse) := by
      have := inv.cellb; rwa [List.take_length] at this
    cases hxs : xs.isEmpty with
    | true =>
      simp only [if_true]
      refine ⟨inv.ext, hcb, inv.hsize, (st.frame s.frames.size).vars, callFrame_self inv.parent (h.lt m hm), ?_, inv.clt⟩
      rcases inv.vars with h | ⟨w, h⟩ <;> rw [h] <;> rfl
    | false =>
      simp only [Bool.false_eq_true, if_false]
      refine ⟨inv.ext.remove hcge _, by rw [cell_remove]; exact hcb, inv.hsize,
        ((st.remove s.frames.size "element").frame s.frames.size).vars,
        callFrame_self (by rw [frame_remove_same _ _ inv.clt]; exact inv.parent) (h.lt m hm), ?_,
        by rw [frames_size_remove]; exact inv.clt⟩
      rw [frame_remove_same _ _ inv.clt]
      rcases inv.vars with h | ⟨w, h⟩ <;> rw [h] <;> rfl
  -- the block
  obtain ⟨r3, t3, hS3, hctl3, E3, hcb3, hsz3, vars3, hfr3, hres3, hclt3⟩ := S3 _ _ _ _ _ _ _ _
  have S4 : ∀ p, Ev ld K s.frames.size (.ident "result" p) t3 (.ok (.ref b) t3) :=
    fun p => Ev.ident ld (lookup_local hfr3 hres3)
  have hb1 : b = (ghostFin t3 bpl).heap.size - 1 := by
    show b = t3.heap.size - 1; rw [hsz3]; rfl
  refine ⟨ghostFin t3 bpl, E3.ghostFin _, ?_, ?_, ?_⟩
  · rw [← hb1]
    exact Ev.mono ld (k := K + 2 + 1 + 1) (Ev.block ld (b := false) (pos := bpl)
      (EvBody.cons ld (Ev.mono ld (S2 _ _ _) (show K ≤ K + 2 by omega)) rfl
        (EvBody.cons ld (Ev.mono ld hS3 (show K ≤ K + 1 by omega)) hctl3
          (EvBody.cons ld (S4 _) rfl (EvBody.nil ld))))) (by omega)
  · rw [← hb1]; exact hbge
  · rw [← hb1]; exact hcb3

/-- the body of the generic `reverse` on a list cell -/
theorem reverse_body_list {s s0 : State} {M nats srcs m} {a : Nat} {xs : List RVal}
    (h : LibEnv s M nats srcs) (hm : M m)
    (ctx : Ctx s0 M nats srcs s.frames.size m [("obj", .ref a)]) (e0 : Ext s s0)
    (hn : ∀ x ∈ reverseGenNats, x ∈ nats) (hs : ∀ p ∈ reverseGenSrcs, p ∈ srcs) (hc : s.cell a = some (.list xs)) :
    ∃ s', Ext s s' ∧ Ev ld (xs.length + 15) s.frames.size (lamBody list_reverse) s0 (.ok (.ref (s'.heap.size - 1)) s') ∧
      (s.heap.size ≤ s'.heap.size - 1 ∧ s'.cell (s'.heap.size - 1) = some (.list xs.reverse)) := by
  obtain ⟨s1, e1, _, g1, s2, e2, _, g2⟩ := reverse_guards_L1 ld (.ref a) ctx hn hs
  have hil : isListR s0 (.ref a) = true := by
    have : s0.cell a = some (.list xs) := by rw [e0.cell a (cell_lt hc)]; exact hc
    simp [isListR, this]
  rw [hil] at g2
  obtain ⟨s', e', hB, hQ⟩ := reverse_list_block_L1 ld h hm ((ctx.ext e1).ext e2) ((e0.trans e1).trans e2) hn hc
  refine ⟨s', e', ?_, hQ⟩
  unfold revListBlock_L1 lamBody list_reverse at hB
  simp only [] at hB
  unfold lamBody list_reverse
  simp only []
  exact Ev.ite ld (EvIf.false ld (Ev.mono ld (g1 _ _ _) (by omega))
    (EvIf.true ld (Ev.mono ld (g2 _ _ _) (by omega)) hB))

/-! ### the error branch -/

/-- the text of the error value -/
def cannotReverseMsg_L1 (tn : String) : List Char := "cannot reverse ".toList ++ tn.toList

/-- `error("cannot reverse " + type(obj))` in the call frame -/
theorem reverse_error_branch_L1 {s : State} {M nats srcs c m} (v : RVal) (ctx : Ctx s M nats srcs c m [("obj", v)])
    (hn : ∀ x ∈ reverseGenNats, x ∈ nats) (p q1 q2 q3 q4 q5 q6 : Pos) :
    Ev ld 8 c (.error (.call (.ident "add" q1) [some "a", some "b"]
        [.lit (.str "cannot reverse ".toList) q2, .call (.ident "type" q3) [none] [.ident "obj" q4] q5] q6) p) s
      (.err (.str (cannotReverseMsg_L1 (typeName s v))) "" p [] s) := by
  obtain ⟨i, hadd⟩ := ctx.nat (x := "add") (hn _ (by decide)) (by rfl)
  obtain ⟨j, hty⟩ := ctx.nat (x := "type") (hn _ (by decide)) (by rfl)
  have T : Ev ld 3 c (.call (.ident "type" q3) [none] [.ident "obj" q4] q5) s (.ok (.str (typeName s v).toList) s) :=
    Ev.nat1 ld (k := 0) hty (by rfl) (by decide) (by trivial) (Ev.ident ld (ctx.var (x := "obj") (by rfl)))
      (pure_type _ _ _) rfl
  have A1 := Ev.natAB ld (k := 3) (p := q1) (pos := q6) hadd (by rfl) (by trivial) (by trivial)
    (Ev.litStr ld (p := q2) (t := "cannot reverse ".toList)) T (pure_add _ _ _ _) (nativeAdd_str _ _ _ _)
  rw [wrapCall_ok] at A1
  exact Ev.error ld A1

/-- the body of the generic `reverse` on a value that is neither a string nor a list -/
theorem reverse_body_err {s : State} {M nats srcs c m} (v : RVal) (h0 : v.isString = false) (h1 : isListR s v = false)
    (ctx : Ctx s M nats srcs c m [("obj", v)]) (hn : ∀ x ∈ reverseGenNats, x ∈ nats) (hs : ∀ p ∈ reverseGenSrcs, p ∈ srcs) :
    ∃ s', Ext s s' ∧ Ev ld 12 c (lamBody list_reverse) s
      (.err (.str (cannotReverseMsg_L1 (typeName s' v))) "" (errorPos_L1 (revElse_L1 (lamBody list_reverse))) [] s') ∧
      s'.heap = s.heap := by
  obtain ⟨s1, e1, _, g1, s2, e2, hh2, g2⟩ := reverse_guards_L1 ld v ctx hn hs
  rw [h0] at g1; rw [h1] at g2
  have ctx2 := (ctx.ext e1).ext e2
  refine ⟨s2, e1.trans e2, ?_, hh2⟩
  have hE := reverse_error_branch_L1 ld v ctx2 hn
  unfold lamBody list_reverse
  simp only [revElse_L1, errorPos_L1]
  exact Ev.ite ld (EvIf.false ld (Ev.mono ld (g1 _ _ _) (by decide))
    (EvIf.false ld (g2 _ _ _) (EvIf.else ld (hE _ _ _ _ _ _ _))))

/-! ### `fn.execute` -/

/-- the generic `reverse` on a string -/
theorem reverse_calls_str {s : State} {M nats srcs fn m} (h : LibEnv s M nats srcs) (hn : ∀ x ∈ reverseGenNats, x ∈ nats)
    (hs : ∀ p ∈ reverseGenSrcs, p ∈ srcs) (hm : M m) (hsrc : IsSrc s fn list_reverse m) (cs : List Char) :
    ∃ s', Ext s s' ∧ ∀ env pos, Calls ld (cs.length + 14) fn [("obj", .str cs)] env pos s (.ok (.str cs.reverse) s') := by
  obtain ⟨s', e, _, c⟩ := calls_of_body1X ld (src := list_reverse) (Q := fun _ => True)
    (r := fun s' => .ok (.str cs.reverse) s') rfl rfl rfl
    (by omega) h hm hsrc (.str cs) (fun _ ctx e0 => reverse_body_str ld h hm ctx e0 hn hs)
  exact ⟨s', e, c⟩

/-- the generic `reverse` on a list cell: a reference to a FRESH cell holding the reversed list -/
theorem reverse_calls_list {s : State} {M nats srcs fn m} (h : LibEnv s M nats srcs) (hn : ∀ x ∈ reverseGenNats, x ∈ nats)
    (hs : ∀ p ∈ reverseGenSrcs, p ∈ srcs) (hm : M m) (hsrc : IsSrc s fn list_reverse m) (a : Nat) (xs : List RVal)
    (hc : s.cell a = some (.list xs)) :
    ∃ s', Ext s s' ∧ (s.heap.size ≤ s'.heap.size - 1 ∧ s'.cell (s'.heap.size - 1) = some (.list xs.reverse)) ∧
      ∀ env pos, Calls ld (xs.length + 16) fn [("obj", .ref a)] env pos s (.ok (.ref (s'.heap.size - 1)) s') :=
  calls_of_body1X ld (src := list_reverse) (r := fun s' => .ok (.ref (s'.heap.size - 1)) s') rfl rfl rfl
    (by omega) h hm hsrc (.ref a) (fun _ ctx e0 => reverse_body_list ld h hm ctx e0 hn hs hc)

/-- the generic `reverse` on anything else: the runtime error `cannot reverse <type>` -/
theorem reverse_calls_err {s : State} {M nats srcs fn m} (h : LibEnv s M nats srcs) (hn : ∀ x ∈ reverseGenNats, x ∈ nats)
    (hs : ∀ p ∈ reverseGenSrcs, p ∈ srcs) (hm : M m) (hsrc : IsSrc s fn list_reverse m)
    (v : RVal) (h0 : v.isString = false) (h1 : isListR s v = false) :
    ∃ s', Ext s s' ∧ s'.heap = s.heap ∧ ∀ env pos, Calls ld 13 fn [("obj", v)] env pos s
      (.err (.str (cannotReverseMsg_L1 (typeName s' v))) "" (errorPos_L1 (revElse_L1 (lamBody list_reverse))) [] s') := by
  obtain ⟨a, nm, rfl, hcell⟩ := hsrc
  have hps : lamParams list_reverse = ["obj"] := rfl
  have hds : lamDefaults list_reverse = [.absent] := rfl
  rw [hps, hds] at hcell
  have ctx0 := Ctx.callee1 h hm "obj" v
  have e0 := calleeState_ext s m [("obj", v)] ["obj"]
  have hh0 := calleeState_heap s m [("obj", v)] ["obj"]
  obtain ⟨s', e', hev, hh⟩ := reverse_body_err ld v h0 (by rw [isListR_heap_L1 hh0]; exact h1) ctx0 hn hs
  refine ⟨s', e0.trans e', by rw [hh, hh0], fun env pos => ?_⟩
  exact Calls.closure ld hcell rfl (by decide) (by intro p hp; simp at hp; subst hp; simp [dictGet]) hev

end Ckl.C19Src
