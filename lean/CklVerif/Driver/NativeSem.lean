/-
  driver: the interpretation `Loader.nativeSem` of the built-ins that the evaluator model does not
  define itself (`callPure`, `sorted`, `bind_native` in Model/Natives.lean / Model/Eval.lean).

  `driverNativeSem name args s` gives the EXACT behaviour of the pure built-ins of functions.py on the
  argument shapes listed below and ABSTAINS (`.fail (.unsupported ("native " ++ name)) s`) everywhere else.
  It reuses the executable models of `Model/Lib.lean` (`bitAnd`, `rotl`, `shl`, `powM`, …) and
  `Model/Str.lean` (`trimM`, `upperM`, `escapeM`, `splitLit`, `sLoop`, …).

  Interpreted (validated against the implementation by /tmp/agents2/LM/validate_natives.py):
    bit_and bit_or bit_xor bit_not bit_rotate_left bit_rotate_right bit_shift_left bit_shift_right
    pow (ints)          int  decimal  boolean      is_not_empty  if_empty  if_null_or_empty
    trim upper lower (ASCII) escape_pattern       pattern matches split split2 (literal patterns and the
    regular-expression fragment `Rx` below)       s (templates whose placeholders hold literals: what `sprintf`
    produces for ints and plain strings)           round (no digits / integral values)  sqrt (exact roots)
    NULL / ill-typed arguments of floor ceiling acos asin atan atan2 cos exp log sin tan
  All conversions int -> double and decimal text -> double are computed exactly on integers (round to nearest,
  ties to even): no `Float` operation is used in this file.

  Shape of a result (`NRes`): a value, a fresh list of strings / list of lists of strings (the only
  results that touch the heap: `split`, `split2`), the runtime error `'ERROR'` of the language, or
  "abstain".  `finish` turns it into an outcome; it refuses (abstains on) any value that is not a scalar
  or a container reference, so the purity of the whole interpretation can be read off `finish` alone
  (`Proofs/DriverNatives.lean`).

  Error position: `nativeSem` is not told the call position; errors are raised at the default position
  `{}` with an empty trace (`invoke` appends the call to the trace).  Host exceptions of the Python code
  (ValueError of `1 << -1`, `math.sqrt(-1)`, `int('x')`, OverflowError of `float(2 ** 1024)` …) are turned
  into the runtime error `'ERROR'` by `invoke` in nodes.py; they are returned as that runtime error here.

  Not interpreted (abstain): anything that needs the evaluator or the environment (`eval`, `parse`, `s`
  with a placeholder that is not a literal, `ls`, `info`), streams and files, dates, random numbers, genuine
  float rounding (`pow` / `sqrt` / `round` … with inexact results, exponent notation in `decimal('1e3')`),
  `floor` / `ceiling` of a number (the implementation stores a Python int inside a ValueDecimal: not a
  value of the model), regular expressions outside the fragment, non-ASCII case mapping and non-ASCII
  digits, results that would be the float `-0.0`, `inf` or `nan`, shift counts / exponents whose result
  would need more than about a megabit, `map` / `object` / `zip_map` (new maps and objects).
-/
import CklVerif.Model.Natives
import CklVerif.Model.Lib
import CklVerif.Model.Str
import CklVerif.Gen.NativeTable
namespace Ckl

/-- `getArgNames()` of every built-in, from the regenerated table -/
def driverNativeArgs (name : String) : Option (List String) := Gen.nativeArgs.lookup name

namespace DN

/-- result of an interpreted built-in before it becomes an outcome -/
inductive NRes where
  | val (v : RVal)
  | strs (xs : List (List Char))            -- a fresh list of strings
  | strss (xs : List (List (List Char)))    -- a fresh list of fresh lists of strings
  | err (msg : String)                      -- CklRuntimeError(ValueString("ERROR"), msg, pos)
  | abstain
deriving Inhabited

/-- early exit with a result (`throw`), or continue -/
abbrev NM := Except NRes

def run (m : NM NRes) : NRes := match m with | .ok r => r | .error r => r

def abstain {α} : NM α := throw .abstain
def raise {α} (msg : String) : NM α := throw (.err msg)
def ret {α} (v : RVal) : NM α := throw (.val v)

/-- `args.get(name)` -/
def need (args : List (String × RVal)) (n : String) : NM RVal :=
  match dictGet n args with
  | some v => pure v
  | none => raise ("Missing argument " ++ n)

/-- `if args.isNull(name): return NULL` -/
def nullGuard (args : List (String × RVal)) (n : String) (r : RVal := .null) : NM Unit :=
  match dictGet n args with
  | some .null => ret r
  | _ => pure ()

/-- `args.getInt(name)` -/
def needInt (args : List (String × RVal)) (n : String) : NM Int := do
  match ← need args n with
  | .int i => pure i
  | _ => raise "Int required"

/-- `args.getString(name)` -/
def needStr (args : List (String × RVal)) (n : String) : NM (List Char) := do
  match ← need args n with
  | .str t => pure t
  | _ => raise "String required"

/-- length of the container behind a reference (`len(obj.value)`); `none`: not a container cell -/
def contLen (s : State) (a : Nat) : Option Nat :=
  match s.cell a with
  | some (.list xs) => some xs.length
  | some (.set xs) => some xs.length
  | some (.map kvs) => some kvs.length
  | some (.obj kvs _) => some kvs.length
  | _ => none

/-! ### integer literals: Python `int(str)` on ASCII input -/

inductive IntLit where
  | ok (n : Nat) (neg : Bool)
  | bad          -- ValueError
  | unk          -- outside the modelled inputs (non-ASCII characters, very long strings)

/-- `Py_ISSPACE` (ASCII input: the characters 28–31 are `str.isspace` but not skipped by `int()` / `float()`) -/
def isIntSpace (c : Char) : Bool := (9 ≤ c.toNat && c.toNat ≤ 13) || c.toNat = 32

/-- digits with single underscores between them; `prevDigit`: the previous character was a digit -/
def digitsU : List Char → Bool → Nat → Option Nat
  | [], prevDigit, acc => if prevDigit then some acc else none
  | c :: cs, prevDigit, acc =>
    if Str.isDigitC c then digitsU cs true (acc * 10 + (c.toNat - 48))
    else if c = '_' ∧ prevDigit then digitsU cs false acc
    else none

def parseIntLit (t : List Char) : IntLit :=
  if t.length > 4000 ∨ !(t.all (fun c => c.toNat < 128)) then .unk
  else
    let u := ((t.dropWhile isIntSpace).reverse.dropWhile isIntSpace).reverse
    let (neg, body) : Bool × List Char := match u with
      | '-' :: r => (true, r)
      | '+' :: r => (false, r)
      | r => (false, r)
    match body with
    | [] => .bad
    | c :: _ =>
      if !Str.isDigitC c then .bad
      else match digitsU body false 0 with
        | some n => .ok n neg
        | none => .bad

def two53 : Int := 9007199254740992

/-- `float(n)` for a natural number, exactly: round to nearest, ties to even, on 53 significant bits.
    The result is the integer value of the double (`none`: it would be ≥ 2^1024, OverflowError / inf). -/
def natToDouble (n : Nat) : Option Nat :=
  if n < 2 ^ 53 then some n
  else
    let shift := n.log2 + 1 - 53
    let q := n >>> shift
    let rem := n % 2 ^ shift
    let half := 2 ^ (shift - 1)
    let q' := if rem > half ∨ (rem = half ∧ q % 2 = 1) then q + 1 else q
    let r := q' * 2 ^ shift
    if r ≥ 2 ^ 1024 then none else some r

/-- the double nearest to `N / D` (ties to even) for `N, D > 0` and a quotient well inside the normal range:
    `(q, e)` with value `q * 2^e`, `2^52 ≤ q ≤ 2^53` -/
def ratToDouble (N D : Nat) : Nat × Int :=
  let e0 : Int := (N.log2 : Int) - (D.log2 : Int) - 53
  let scaled := fun (e : Int) => if e ≥ 0 then (N, D * 2 ^ e.toNat) else (N * 2 ^ (-e).toNat, D)
  let (n0, d0) : Nat × Nat := scaled e0
  let e := if n0 / d0 ≥ 2 ^ 53 then e0 + 1 else e0
  let (n, d) : Nat × Nat := scaled e
  let q := n / d
  let r := n % d
  (if 2 * r > d ∨ (2 * r = d ∧ q % 2 = 1) then q + 1 else q, e)

/-- `[sign] digits . digits` (at least one digit, at most 60 characters, ASCII blanks around): numerator, number of
    fraction digits, sign.  `none`: another text. -/
def parseDecLit (t : List Char) : Option (Nat × Nat × Bool) :=
  if t.length > 60 then none
  else
    let u := ((t.dropWhile isIntSpace).reverse.dropWhile isIntSpace).reverse
    let (neg, body) : Bool × List Char := match u with
      | '-' :: r => (true, r)
      | '+' :: r => (false, r)
      | r => (false, r)
    let ip := body.takeWhile Str.isDigitC
    match body.dropWhile Str.isDigitC with
    | '.' :: fp =>
      if fp.all Str.isDigitC ∧ (ip ≠ [] ∨ fp ≠ []) then some (Str.digitsVal (ip ++ fp) 0, fp.length, neg) else none
    | _ => none

/-! ### a small fragment of Python's regular expressions

  A pattern of the fragment is `^`? ATOM* `$`?; an atom is one ITEM — a literal character, an escaped special
  character, `\t \n \r \f \v`, the dot, or a class `[…]` / `[^…]` of such characters and ranges `a-z` — with an
  optional greedy quantifier `?`, `*`, `+`, `{m}`, `{m,}`, `{m,n}`.  No groups, alternation, inner anchors, lazy or
  possessive quantifiers, `\d \w \s \b`.  Matching is Python's backtracking semantics (greedy, leftmost).
  The anchors are only accepted by `matches` / `pattern` (not by `split`). -/

structure Atom where
  ranges : List (Char × Char)      -- the item matches the characters inside one of the ranges …
  neg : Bool                       -- … or (negated) outside all of them
  min : Nat                        -- at least `min` repetitions
  max : Option Nat                 -- at most `max` (`none`: unbounded)
deriving Repr

structure Rx where
  atStart : Bool     -- leading `^`
  atoms : List Atom
  atEnd : Bool       -- trailing `$`
deriving Repr

def Atom.ok (a : Atom) (c : Char) : Bool :=
  (a.ranges.any (fun r => r.1.toNat ≤ c.toNat && c.toNat ≤ r.2.toNat)) != a.neg

def escChar? (c : Char) : Option Char :=
  if Str.reSpecial.contains c then some c
  else if c = 't' then some '\t' else if c = 'n' then some '\n' else if c = 'r' then some '\r'
  else if c = 'f' then some (Char.ofNat 12) else if c = 'v' then some (Char.ofNat 11)
  else none

/-- one member character of a class: a plain character or an escape -/
def classMember? : List Char → Option (Char × List Char)
  | '\\' :: c :: rest => (escChar? c).map (fun d => (d, rest))
  | c :: rest =>
    if c = '-' ∨ c = '^' ∨ c = '[' ∨ c = ']' ∨ c = '\\' ∨ c = '&' ∨ c = '~' ∨ c = '|' then none
    else some (c, rest)
  | [] => none

/-- the members of a class up to the closing bracket (fuel: the length of the text) -/
def parseClass : Nat → List Char → List (Char × Char) → Option (List (Char × Char) × List Char)
  | 0, _, _ => none
  | _ + 1, ']' :: rest, acc => if acc.isEmpty then none else some (acc.reverse, rest)
  | fuel + 1, text, acc =>
    match classMember? text with
    | none => none
    | some (lo, rest) =>
      match rest with
      | '-' :: rest' =>
        match classMember? rest' with
        | some (hi, rest'') => if lo.toNat ≤ hi.toNat then parseClass fuel rest'' ((lo, hi) :: acc) else none
        | none => none          -- a literal '-' (before the bracket) is left out of the fragment
      | _ => parseClass fuel rest ((lo, lo) :: acc)

/-- `{m}`, `{m,}`, `{m,n}` after the opening brace: bounds and the rest of the text -/
def parseCount (text : List Char) : Option (Nat × Option Nat × List Char) :=
  let lo := text.takeWhile Str.isDigitC
  let r1 := text.dropWhile Str.isDigitC
  if lo = [] ∨ lo.length > 3 then none
  else
    let m := Str.digitsVal lo 0
    match r1 with
    | '}' :: rest => some (m, some m, rest)
    | ',' :: r2 =>
      let hi := r2.takeWhile Str.isDigitC
      match r2.dropWhile Str.isDigitC with
      | '}' :: rest =>
        if hi = [] then some (m, none, rest)
        else if hi.length > 3 then none
        else
          let n := Str.digitsVal hi 0
          if m ≤ n then some (m, some n, rest) else none
      | _ => none
    | _ => none

/-- an optional greedy quantifier; a second quantifier character after it (lazy, possessive, "multiple repeat")
    is outside the fragment -/
def parseQuant (text : List Char) : Option (Nat × Option Nat × List Char) :=
  let q : Option (Nat × Option Nat × List Char × Bool) := match text with
    | '?' :: rest => some (0, some 1, rest, true)
    | '*' :: rest => some (0, none, rest, true)
    | '+' :: rest => some (1, none, rest, true)
    | '{' :: rest => (parseCount rest).map (fun r => (r.1, r.2.1, r.2.2, true))
    | rest => some (1, some 1, rest, false)
  match q with
  | none => none
  | some (lo, hi, rest, quantified) =>
    if quantified then
      match rest with
      | '?' :: _ | '+' :: _ | '*' :: _ | '{' :: _ => none
      | _ => some (lo, hi, rest)
    else some (lo, hi, rest)

/-- parser of the atoms (fuel: the length of the text); `none` = not in the fragment -/
def parseAtoms : Nat → List Char → Option (List Atom)
  | _, [] => some []
  | 0, _ => none
  | fuel + 1, c :: rest =>
    let item : Option (List (Char × Char) × Bool × List Char) :=
      if c = '[' then
        match rest with
        | '^' :: rest' => (parseClass (rest'.length + 1) rest' []).map (fun r => (r.1, true, r.2))
        | _ => (parseClass (rest.length + 1) rest []).map (fun r => (r.1, false, r.2))
      else if c = '\\' then
        match rest with
        | d :: rest' => (escChar? d).map (fun e => ([(e, e)], false, rest'))
        | [] => none
      else if c = '.' then some ([('\n', '\n')], true, rest)
      else if Str.reMeta.contains c then none
      else some ([(c, c)], false, rest)
    match item with
    | none => none
    | some (ranges, neg, rest1) =>
      match parseQuant rest1 with
      | none => none
      | some (lo, hi, rest2) =>
        (parseAtoms fuel rest2).map (fun as => { ranges := ranges, neg := neg, min := lo, max := hi } :: as)

/-- is the final `$` an anchor (it is not escaped: the number of backslashes before it is even) -/
def trailingBackslashes (rev : List Char) : Nat := (rev.takeWhile (· = '\\')).length

def rxOf (pat : List Char) : Option Rx :=
  let (atStart, body) : Bool × List Char := match pat with
    | '^' :: r => (true, r)
    | r => (false, r)
  let (atEnd, body) : Bool × List Char :=
    match body.reverse with
    | '$' :: r => if trailingBackslashes r % 2 = 0 then (true, r.reverse) else (false, body)
    | _ => (false, body)
  (parseAtoms (body.length + 1) body).map (fun as => { atStart := atStart, atoms := as, atEnd := atEnd })

/-- backtracking match of the atoms at the head of the text: the rest after the FIRST match, in Python's preference
    order (greedy), whose rest satisfies `fin` -/
def matchSeq (fin : List Char → Bool) : List Atom → List Char → Option (List Char)
  | [], s => if fin s then some s else none
  | a :: as, s =>
    match a.min, s with
    | m + 1, c :: s' =>
      if a.ok c then matchSeq fin ({ a with min := m, max := a.max.map (· - 1) } :: as) s' else none
    | _ + 1, [] => none
    | 0, c :: s' =>
      if a.max = some 0 then matchSeq fin as (c :: s')
      else if a.ok c then
        (match matchSeq fin ({ a with max := a.max.map (· - 1) } :: as) s' with
         | some r => some r
         | none => matchSeq fin as (c :: s'))
      else matchSeq fin as (c :: s')
    | 0, [] => matchSeq fin as []
termination_by as s => as.length + s.length
decreasing_by all_goals (simp only [wfParam, List.length_cons]; omega)

/-- can the pattern match the empty string (then `re.split` has its empty-match rules: not modelled) -/
def nullable (as : List Atom) : Bool := as.all (fun a => a.min == 0)

/-- `re.split(pattern, s)` for a pattern of the fragment that cannot match the empty string:
    scan left to right, cut at the leftmost matches (fuel: `length s + 1`) -/
def splitRx (as : List Atom) : Nat → List Char → List (List Char)
  | 0, _ => [[]]
  | _ + 1, [] => [[]]
  | fuel + 1, c :: cs =>
    match matchSeq (fun _ => true) as (c :: cs) with
    | some rest =>
      if rest.length < (c :: cs).length then [] :: splitRx as fuel rest
      else Str.consHead c (splitRx as fuel cs)
    | none => Str.consHead c (splitRx as fuel cs)

/-- `splitValue(value, delim)` for a delimiter of the fragment; `none` = not modelled -/
def splitPat (s pat : List Char) : Option (List (List Char)) :=
  if s = [] then some []
  else if pat = [] then some (s.map (fun ch => [ch]))
  else match Str.patLiteral? pat with
    | some sep => some (Str.splitLit s sep)
    | none => match rxOf pat with
      | some rx => if rx.atStart || rx.atEnd || nullable rx.atoms then none else some (splitRx rx.atoms (s.length + 1) s)
      | none => none

/-- `re.match(pattern, s) is not None` for a pattern of the fragment; `$` matches at the end and before a final newline -/
def matchesPat (s pat : List Char) : Option Bool :=
  match Str.patLiteral? pat with
  | some lit => some (Seq.isPrefixB lit s)
  | none => (rxOf pat).map (fun rx =>
      (matchSeq (fun rest => !rx.atEnd || rest == [] || rest == ['\n']) rx.atoms s).isSome)

/-- does the pattern text compile for sure (it is in the fragment) -/
def compiles (pat : List Char) : Bool := (Str.patLiteral? pat).isSome || (rxOf pat).isSome

/-- `args.getAsPattern(name)`: the pattern text.  Only booleans, strings and patterns convert. -/
def needPatText (args : List (String × RVal)) (n : String) : NM (List Char) := do
  match ← need args n with
  | .str t => if compiles t then pure t else abstain     -- `re.compile` may raise
  | .pat t => pure t
  | .bool b => pure (if b then "TRUE".toList else "FALSE".toList)
  | .date _ => raise "Cannot convert to pattern"
  | .null | .int _ | .dec _ _ => raise "Cannot convert to pattern"
  | .ref _ | .closure _ | .native _ _ | .node _ | .brk _ | .cont _ | .ret _ _ => raise "Cannot convert to pattern"

/-- is `asDecimal()` of this value the runtime error for sure -/
def neverDecimal (len : Nat → Option Nat) : RVal → Bool
  | .null | .pat _ | .closure _ | .native _ _ | .node _ | .brk _ | .cont _ | .ret _ _ => true
  | .ref a => (len a).isSome
  | _ => false

/-- `args.getNumerical(name)` as far as the test goes: the numerical value, or the error -/
def needNumerical (args : List (String × RVal)) (n : String) : NM RVal := do
  match ← need args n with
  | .int i => pure (.int i)
  | .dec m e => pure (.dec m e)
  | _ => raise "Numerical required"

def isPerfectSquare (n : Nat) : Bool := n.sqrt * n.sqrt == n

/-- round half to even of `m / 2^e` -/
def roundHalfEven (m : Int) (e : Nat) : Int :=
  let d : Int := (2 : Int) ^ e
  let q := Int.fdiv m d
  let r := Int.fmod m d
  if 2 * r < d then q
  else if 2 * r > d then q + 1
  else if Int.fmod q 2 = 0 then q else q + 1

/-- the expression inside a placeholder of `s` when it is a LITERAL whose value does not depend on the environment:
    a canonical non-negative integer literal, or a quoted string without escapes — the rendered value.
    Everything else needs the evaluator: `unsup`. -/
def litEval (var : List Char) : Str.Res (List Char) :=
  match var with
  | [] => .unsup
  | q :: rest =>
    if Str.isDigitC q then
      if var.all Str.isDigitC ∧ var.length ≤ 1000 ∧ (q ≠ '0' ∨ rest = []) then .ok var else .unsup
    else if (q = '\'' ∨ q = '"') ∧ rest.getLast? = some q then
      let inner := rest.dropLast
      if inner.all (fun c => c ≠ '\\' ∧ c ≠ '\'' ∧ c ≠ '"' ∧ c.toNat ≥ 32) then .ok inner else .unsup
    else .unsup

/-- the interpreted built-ins (the state is looked at through `len`, the lengths of the containers on the heap, only) -/
def nativeResL (name : String) (args : List (String × RVal)) (len : Nat → Option Nat) : NRes := run do
  match name with
  -- bit functions (functions.py FuncBit*)
  | "bit_and" => do let a ← needInt args "a"; let b ← needInt args "b"; pure (.val (.int (Lib.bitAnd a b)))
  | "bit_or" => do let a ← needInt args "a"; let b ← needInt args "b"; pure (.val (.int (Lib.bitOr a b)))
  | "bit_xor" => do let a ← needInt args "a"; let b ← needInt args "b"; pure (.val (.int (Lib.bitXor a b)))
  | "bit_not" => do let a ← needInt args "a"; pure (.val (.int (Lib.bitNot a)))
  | "bit_rotate_left" => do let a ← needInt args "a"; let n ← needInt args "n"; pure (.val (.int (Lib.rotl a n)))
  | "bit_rotate_right" => do let a ← needInt args "a"; let n ← needInt args "n"; pure (.val (.int (Lib.rotr a n)))
  | "bit_shift_left" => do
      let a ← needInt args "a"; let n ← needInt args "n"
      if n > 65536 then abstain        -- memory
      match Lib.shl a n with
      | some r => pure (.val (.int r))
      | none => raise "bit_shift_left failed: ValueError: negative shift count"
  | "bit_shift_right" => do
      let a ← needInt args "a"; let n ← needInt args "n"
      if n > 1048576 then abstain
      match Lib.shr a n with
      | some r => pure (.val (.int r))
      | none => raise "bit_shift_right failed: ValueError: negative shift count"
  -- FuncPow
  | "pow" => do
      nullGuard args "x"; nullGuard args "y"
      let y ← need args "y"; let x ← need args "x"
      match x, y with
      | .int a, .int b =>
        if b ≥ 0 then
          if a = 0 then pure (.val (.int (if b = 0 then 1 else 0)))
          else if a = 1 then pure (.val (.int 1))
          else if a = -1 then pure (.val (.int (if Int.fmod b 2 = 0 then 1 else -1)))
          else if b.toNat * (a.natAbs.log2 + 1) > 300000 then abstain    -- size of the result in bits
          else pure (.val (.int (Lib.powM a b.toNat)))
        else
          -- `int(math.pow(float(x), float(y)))`: only where the conversions to float are exact
          if a.natAbs > 2 ^ 53 ∨ b.natAbs > 2 ^ 53 then abstain
          else if a = 0 then raise "pow failed: ValueError: math domain error"
          else if a = 1 then pure (.val (.int 1))
          else if a = -1 then pure (.val (.int (if Int.fmod b 2 = 0 then 1 else -1)))
          else pure (.val (.int 0))
      | _, _ =>
        -- `asDecimal()` of x, then of y, then `math.pow`: every failure is the runtime error
        if neverDecimal len x || neverDecimal len y then raise "Cannot convert to decimal" else abstain
  -- conversions: FuncInt / FuncDecimal / FuncBoolean (`Value.asInt`, `asDecimal`, `asBoolean`)
  | "int" => do
      match ← need args "obj" with
      | .int i => pure (.val (.int i))
      | .bool b => pure (.val (.int (if b then 1 else 0)))
      | .dec m e => pure (.val (.int (Int.tdiv m ((2 : Int) ^ e))))
      | .null => pure (.val (.int 0))
      | .str t =>
        match parseIntLit t with
        | .ok n neg => pure (.val (.int (if neg then -(n : Int) else n)))
        | .bad => raise "Cannot convert to int"
        | .unk => abstain
      | .ref a => match len a with
        | some n => pure (.val (.int n))
        | none => abstain
      | .date _ => abstain
      | .pat _ | .closure _ | .native _ _ | .node _ | .brk _ | .cont _ | .ret _ _ => raise "Cannot convert to int"
  | "decimal" => do
      match ← need args "obj" with
      | .dec m e => pure (.val (.dec m e))
      | .int i =>
        match natToDouble i.natAbs with
        | some r => pure (.val (.dec (if i < 0 then -(r : Int) else r) 0))
        | none => raise "decimal failed: OverflowError: int too large to convert to float"
      | .bool b => pure (.val (.dec (if b then 1 else 0) 0))
      | .str t =>
        -- `float(str)` on the texts that are integer literals: the correctly rounded value (`inf`, `-0.0`: not values of the model)
        match parseIntLit t with
        | .ok n neg =>
          match natToDouble n with
          | some r => if r = 0 ∧ neg then abstain else pure (.val (.dec (if neg then -(r : Int) else r) 0))
          | none => abstain
        | _ =>
          match parseDecLit t with
          | some (num, k, neg) =>
            if num = 0 then (if neg then abstain else pure (.val (.dec 0 0)))
            else
              let (q, e) := ratToDouble num (10 ^ k)
              let m : Int := if neg then -(q : Int) else q
              pure (.val (if e ≥ 0 then .dec (m * 2 ^ e.toNat) 0 else mkDec m (-e).toNat))
          | none => abstain
      | .date _ => abstain
      | v => if neverDecimal len v then raise "Cannot convert to decimal" else abstain
  | "boolean" => do
      match ← need args "obj" with
      | .bool b => pure (.val (.bool b))
      | .int i => pure (.val (.bool (decide (i ≠ 0))))
      | .str t =>
        if t = ['1'] then pure (.val (.bool true))
        else if t = ['0'] then pure (.val (.bool false))
        else if Str.isAscii t then pure (.val (.bool (Str.upperM t == ['T', 'R', 'U', 'E'])))
        else abstain
      | .ref a => match len a with
        | some n => pure (.val (.bool (decide (n > 0))))
        | none => abstain
      | .null | .dec _ _ | .pat _ | .date _ | .closure _ | .native _ _ | .node _ | .brk _ | .cont _ | .ret _ _ =>
        raise "Cannot convert to boolean"
  -- FuncIsNotEmpty / FuncIfEmpty / FuncIfNullOrEmpty
  | "is_not_empty" => do
      match ← need args "obj" with
      | .null => pure (.val (.bool false))
      | .str t => pure (.val (.bool (!t.isEmpty)))
      | .ref a => match len a with
        | some n => pure (.val (.bool (decide (n > 0))))
        | none => abstain
      | _ => pure (.val (.bool true))
  | "if_empty" => do
      match ← need args "a" with
      | .str [] => do pure (.val (← need args "b"))
      | a => pure (.val a)
  | "if_null_or_empty" => do
      match ← need args "a" with
      | .null => do pure (.val (← need args "b"))
      | .str [] => do pure (.val (← need args "b"))
      | a => pure (.val a)
  -- strings: FuncTrim / FuncUpper / FuncLower / FuncEscapePattern
  | "trim" => do nullGuard args "str"; let t ← needStr args "str"; pure (.val (.str (Str.trimM t)))
  | "upper" => do
      nullGuard args "str"; let t ← needStr args "str"
      if Str.isAscii t then pure (.val (.str (Str.upperM t))) else abstain
  | "lower" => do
      nullGuard args "str"; let t ← needStr args "str"
      if Str.isAscii t then pure (.val (.str (Str.lowerM t))) else abstain
  | "escape_pattern" => do nullGuard args "s"; let t ← needStr args "s"; pure (.val (.str (Str.escapeM t)))
  -- FuncPattern / FuncMatches / FuncSplit / FuncSplit2
  | "pattern" => do let t ← needPatText args "obj"; pure (.val (.pat t))
  | "matches" => do
      nullGuard args "str" (.bool false)
      let t ← needStr args "str"
      let p ← needPatText args "pattern"
      match matchesPat t p with
      | some b => pure (.val (.bool b))
      | none => abstain
  | "split" => do
      nullGuard args "str"
      let t ← needStr args "str"
      let p ← (if dictHas "delim" args then needPatText args "delim" else pure ['[', ' ', '\\', 't', ']', '+'])
      match splitPat t p with
      | some parts => pure (.strs parts)
      | none => abstain
  | "split2" => do
      nullGuard args "str"
      let t ← needStr args "str"
      let p1 ← needPatText args "sep1"
      let p2 ← needPatText args "sep2"
      match splitPat t p1 with
      | none => abstain
      | some parts =>
        match parts.mapM (fun part => splitPat part p2) with
        | some pss => pure (.strss pss)
        | none => abstain
  -- FuncS when every placeholder holds a literal (what `sprintf` produces for ints and plain strings)
  | "s" => do
      nullGuard args "str"
      let t ← needStr args "str"
      let start ← (if dictHas "start" args then needInt args "start" else pure 0)
      let n : Int := t.length
      -- `if start < 0: start = len(s) + start`, then `s.find("{", start)` (a negative start counts from the end once more)
      let st0 : Int := if start < 0 then (let s1 := n + start; if s1 < 0 then (if n + s1 < 0 then 0 else n + s1) else s1) else start
      match Str.sLoop litEval Str.noRound (t.length + 1) t st0 with
      | .ok r => pure (.val (.str r))
      | _ => abstain
  -- math: only the exact cases
  | "sqrt" => do
      nullGuard args "x"
      match ← needNumerical args "x" with
      | .int i =>
        if i < 0 then raise "sqrt failed: ValueError: math domain error"
        else if i ≤ two53 ∧ isPerfectSquare i.toNat then pure (.val (.dec (i.toNat.sqrt : Nat) 0))
        else abstain
      | .dec m e =>
        if m < 0 then raise "sqrt failed: ValueError: math domain error"
        else if e % 2 = 0 ∧ isPerfectSquare m.toNat then pure (.val (mkDec (m.toNat.sqrt : Nat) (e / 2)))
        else abstain
      | _ => abstain
  | "round" => do
      nullGuard args "x"
      let x ← needNumerical args "x"
      let digits ← (if dictHas "digits" args then needInt args "digits" else pure 0)
      if digits < 0 ∨ digits > 300 then abstain
      match x with
      | .int i =>
        match natToDouble i.natAbs with
        | some r => pure (.val (.dec (if i < 0 then -(r : Int) else r) 0))
        | none => raise "round failed: OverflowError: int too large to convert to float"
      | .dec m e =>
        if e = 0 then pure (.val (.dec m e))      -- an integral float is its own rounding, for every `digits ≥ 0`
        else if digits ≠ 0 then abstain
        else
          let r := roundHalfEven m e
          if r = 0 ∧ m < 0 then abstain       -- the float -0.0
          else pure (.val (mkDec r 0))
      | _ => abstain
  | "floor" | "ceiling" | "acos" | "asin" | "atan" | "cos" | "exp" | "log" | "sin" | "tan" => do
      nullGuard args "x"
      let _ ← needNumerical args "x"
      abstain
  | "atan2" => do
      nullGuard args "y"; nullGuard args "x"
      let _ ← needNumerical args "y"
      let _ ← needNumerical args "x"
      abstain
  | _ => abstain

/-- the position-free view of an argument: a control value or a node is reduced to its kind.  No built-in
    interpreted here looks inside one (they are ill-typed arguments everywhere), and `finish` never hands one back. -/
def flat : RVal → RVal
  | .brk _ => .brk {}
  | .cont _ => .cont {}
  | .ret _ _ => .ret .null {}
  | .node _ => .node .absent
  | v => v

def flatArgs (args : List (String × RVal)) : List (String × RVal) := args.map (fun kv => (kv.1, flat kv.2))

/-- the result of a built-in: computed from the position-free view of the arguments and from the lengths of the
    containers on the heap -/
def nativeRes (name : String) (args : List (String × RVal)) (s : State) : NRes :=
  nativeResL name (flatArgs args) (contLen s)

/-- values an interpreted built-in may hand back: scalars and container references -/
def plainB : RVal → Bool
  | .null | .bool _ | .int _ | .dec _ _ | .str _ | .pat _ | .date _ | .ref _ => true
  | _ => false

/-- allocate the inner lists one after the other -/
def allocStrss : List (List (List Char)) → EvalM (List RVal)
  | [] => pure []
  | p :: ps => do
    let r ← newList (p.map RVal.str)
    let rs ← allocStrss ps
    pure (r :: rs)

/-- from result to outcome -/
def finish (name : String) (r : NRes) : EvalM RVal :=
  match r with
  | .val v => if plainB v then pure v else unsupported ("native " ++ name)
  | .strs xs => newList (xs.map RVal.str)
  | .strss xss => do let inner ← allocStrss xss; newList inner
  | .err msg => throwE msg {}
  | .abstain => unsupported ("native " ++ name)

end DN

/-- the driver's interpretation of the built-ins that the evaluator model leaves open -/
def driverNativeSem (name : String) (args : List (String × RVal)) (s : State) : Out RVal :=
  DN.finish name (DN.nativeRes name args s) s

end Ckl
