import CklVerif.Lemmas.C19SrcMapList

/-! C04Compr — one comprehension step (`comprStep`): the ORDER of the effects, as equations.

    The filter is evaluated once and first; for a map comprehension the key before the value; an error (or a failure) of the
    filter, of the key or of the value of a PASSING item is the outcome of the step; an item that fails the filter evaluates
    nothing else (the state after the step is the state after the filter). -/
namespace Ckl.C04Compr
open Ckl Ckl.C19Src
variable (ld : Loader)

/-- the outcome of the element part of a step (after the filter let the item pass): key (map comprehensions only), then value -/
def elemOut (evalAt : Node → EvalM RVal) (kind : ComprKind) (ve ke : Node) (s : State) : Out (Option (RVal × RVal)) :=
  match kind with
  | .map =>
    match evalAt ke s with
    | .ok k s1 =>
      match evalAt ve s1 with
      | .ok v s2 => .ok (some (k, v)) s2
      | .err v m p t s2 => .err v m p t s2
      | .fail e s2 => .fail e s2
    | .err v m p t s1 => .err v m p t s1
    | .fail e s1 => .fail e s1
  | _ =>
    match evalAt ve s with
    | .ok v s1 => .ok (some (.null, v)) s1
    | .err v m p t s1 => .err v m p t s1
    | .fail e s1 => .fail e s1

/-- the outcome of a whole step: the filter first -/
def stepOut (evalAt : Node → EvalM RVal) (kind : ComprKind) (ve ke cond : Node) (pos : Pos) (s : State) :
    Out (Option (RVal × RVal)) :=
  if cond matches .absent then elemOut evalAt kind ve ke s
  else
    match evalAt cond s with
    | .ok (.bool true) s1 => elemOut evalAt kind ve ke s1
    | .ok (.bool false) s1 => .ok none s1
    | .ok c s1 => .err (.str ['E', 'R', 'R', 'O', 'R']) ("Condition must be boolean but got " ++ typeName s1 c) pos [] s1
    | .err v m p t s1 => .err v m p t s1
    | .fail e s1 => .fail e s1

theorem matches_absent {n : Node} (h : n ≠ .absent) : (n matches .absent) = false := by
  cases n <;> first | rfl | exact absurd rfl h

/-- the defining equation of `comprStep`, for every kind at once -/
theorem comprStep_succ (f : Nat) (lenv : EnvId) (kind : ComprKind) (ve ke cond : Node) (pos : Pos) :
    comprStep ld (f + 1) lenv kind ve ke cond pos = (do
      let pass ← (if cond matches .absent then pure true
        else do
          match ← eval ld f lenv cond with
          | .bool b => pure b
          | c => do throwE ("Condition must be boolean but got " ++ (← typeOf c)) pos)
      if pass then do
        let k ← (if kind matches .map then eval ld f lenv ke else pure .null)
        let v ← eval ld f lenv ve
        pure (some (k, v))
      else pure none) := by
  conv => lhs; unfold comprStep
  rfl

/-- the element part as the evaluator runs it -/
theorem elem_eq (f : Nat) (lenv : EnvId) (kind : ComprKind) (ve ke : Node) (s : State) :
    (do let k ← (if kind matches .map then eval ld f lenv ke else pure .null)
        let v ← eval ld f lenv ve
        pure (some (k, v)) : EvalM (Option (RVal × RVal))) s = elemOut (eval ld f lenv) kind ve ke s := by
  unfold elemOut
  cases kind with
  | map =>
    simp only [EvalM.bind_apply, EvalM.pure_apply, if_true]
    cases eval ld f lenv ke s with
    | ok k s1 => simp only []; cases eval ld f lenv ve s1 <;> rfl
    | err => rfl
    | fail => rfl
  | list =>
    simp only [EvalM.bind_apply, EvalM.pure_apply, Bool.false_eq_true, if_false]
    cases eval ld f lenv ve s <;> rfl
  | set =>
    simp only [EvalM.bind_apply, EvalM.pure_apply, Bool.false_eq_true, if_false]
    cases eval ld f lenv ve s <;> rfl

/-- a step without filter -/
theorem comprStep_nofilter (f : Nat) (lenv : EnvId) (kind : ComprKind) (ve ke : Node) (pos : Pos) (s : State) :
    comprStep ld (f + 1) lenv kind ve ke .absent pos s = elemOut (eval ld f lenv) kind ve ke s := by
  rw [comprStep_succ, ← elem_eq]
  simp only [EvalM.bind_apply, EvalM.pure_apply, if_true]

/-- **the order of the effects of one step**: the step IS `stepOut` of the evaluator one fuel unit below -/
theorem comprStep_eq (f : Nat) (lenv : EnvId) (kind : ComprKind) (ve ke cond : Node) (pos : Pos) (s : State) :
    comprStep ld (f + 1) lenv kind ve ke cond pos s = stepOut (eval ld f lenv) kind ve ke cond pos s := by
  by_cases hc : cond = .absent
  · subst hc
    rw [comprStep_nofilter]; simp [stepOut]
  · have hm : (cond matches .absent) = false := matches_absent hc
    rw [comprStep_succ]
    unfold stepOut
    simp only [hm, Bool.false_eq_true, if_false]
    rw [EvalM.bind_apply, EvalM.bind_apply]
    cases hcv : eval ld f lenv cond s with
    | err => rfl
    | fail => rfl
    | ok c s1 =>
      simp only []
      cases c with
      | bool b =>
        cases b with
        | false => rfl
        | true =>
          simp only [EvalM.pure_apply, if_true]
          exact elem_eq ld f lenv kind ve ke s1
      | _ => rfl

theorem comprStep_zero (lenv : EnvId) (kind : ComprKind) (ve ke cond : Node) (pos : Pos) (s : State) :
    comprStep ld 0 lenv kind ve ke cond pos s = .fail .oof s := by
  rw [comprStep]; rfl

/-! ### the readable consequences -/

variable {f : Nat} {lenv : EnvId} {kind : ComprKind} {ve ke cond : Node} {pos : Pos} {s : State}

/-- an error in the filter aborts the step with that error: neither key nor value is evaluated -/
theorem comprStep_filter_err {v m p t s1} (hc : cond ≠ .absent) (h : eval ld f lenv cond s = .err v m p t s1) :
    comprStep ld (f + 1) lenv kind ve ke cond pos s = .err v m p t s1 := by
  rw [comprStep_eq]; simp [stepOut, matches_absent hc, h]

theorem comprStep_filter_fail {e s1} (hc : cond ≠ .absent) (h : eval ld f lenv cond s = .fail e s1) :
    comprStep ld (f + 1) lenv kind ve ke cond pos s = .fail e s1 := by
  rw [comprStep_eq]; simp [stepOut, matches_absent hc, h]

/-- an item that fails the filter: nothing else is evaluated, the state is the state after the filter -/
theorem comprStep_filter_false {s1} (hc : cond ≠ .absent) (h : eval ld f lenv cond s = .ok (.bool false) s1) :
    comprStep ld (f + 1) lenv kind ve ke cond pos s = .ok none s1 := by
  rw [comprStep_eq]; simp [stepOut, matches_absent hc, h]

/-- a filter value that is not boolean: the runtime error at the position of the comprehension -/
theorem comprStep_filter_nonbool {c s1} (hc : cond ≠ .absent) (h : eval ld f lenv cond s = .ok c s1) (hb : ∀ b, c ≠ .bool b) :
    comprStep ld (f + 1) lenv kind ve ke cond pos s =
      throwE ("Condition must be boolean but got " ++ typeName s1 c) pos s1 := by
  rw [comprStep_eq]; simp only [stepOut, matches_absent hc, Bool.false_eq_true, if_false, h]
  cases c with
  | bool b => exact absurd rfl (hb b)
  | _ => rfl

/-- a passing item: the rest of the step is the step WITHOUT filter, run in the state after the filter (the filter is evaluated
    exactly once) -/
theorem comprStep_filter_true {s1} (hc : cond ≠ .absent) (h : eval ld f lenv cond s = .ok (.bool true) s1) :
    comprStep ld (f + 1) lenv kind ve ke cond pos s = comprStep ld (f + 1) lenv kind ve ke .absent pos s1 := by
  rw [comprStep_eq, comprStep_nofilter]; simp [stepOut, matches_absent hc, h]

/-- list / set comprehension, passing item: the outcome of the element expression (value, error or failure) -/
theorem comprStep_elem_ok {v s1} (hk : kind ≠ .map) (h : eval ld f lenv ve s = .ok v s1) :
    comprStep ld (f + 1) lenv kind ve ke .absent pos s = .ok (some (.null, v)) s1 := by
  rw [comprStep_nofilter]; cases kind <;> simp_all [elemOut]

theorem comprStep_elem_err {v m p t s1} (hk : kind ≠ .map) (h : eval ld f lenv ve s = .err v m p t s1) :
    comprStep ld (f + 1) lenv kind ve ke .absent pos s = .err v m p t s1 := by
  rw [comprStep_nofilter]; cases kind <;> simp_all [elemOut]

/-- map comprehension: the key BEFORE the value — an error in the key aborts before the value is evaluated -/
theorem comprStep_key_err {v m p t s1} (h : eval ld f lenv ke s = .err v m p t s1) :
    comprStep ld (f + 1) lenv .map ve ke .absent pos s = .err v m p t s1 := by
  rw [comprStep_nofilter]; simp [elemOut, h]

/-- map comprehension: the value is evaluated in the state the key left -/
theorem comprStep_key_value {k s1 v s2} (h1 : eval ld f lenv ke s = .ok k s1) (h2 : eval ld f lenv ve s1 = .ok v s2) :
    comprStep ld (f + 1) lenv .map ve ke .absent pos s = .ok (some (k, v)) s2 := by
  rw [comprStep_nofilter]; simp [elemOut, h1, h2]

theorem comprStep_value_err {k s1 v m p t s2} (h1 : eval ld f lenv ke s = .ok k s1)
    (h2 : eval ld f lenv ve s1 = .err v m p t s2) :
    comprStep ld (f + 1) lenv .map ve ke .absent pos s = .err v m p t s2 := by
  rw [comprStep_nofilter]; simp [elemOut, h1, h2]

end Ckl.C04Compr
