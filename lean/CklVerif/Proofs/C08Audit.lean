/-
  Axiom audit for C08: every theorem may depend only on `propext`, `Classical.choice`, `Quot.sound`.
-/
import CklVerif.Proofs.C08
open Ckl.C08

#print axioms render_set_perm
#print axioms sortedEntries_perm
#print axioms mkMap_perm
#print axioms render_map_perm
#print axioms render_int
#print axioms render_int_no_point
#print axioms render_dec_has_point
#print axioms render_int_ne_dec
#print axioms decRepr_point
#print axioms render_int_ne_dec_decRepr
#print axioms string_token_roundtrip
#print axioms scan_finish
#print axioms scan_string_literal
#print axioms int_token_roundtrip
#print axioms neg_int_tokens_roundtrip
#print axioms scan_int_nonneg
#print axioms scan_int_neg
#print axioms parseScript_eq
#print axioms scan_word
#print axioms roundtrip_null
#print axioms roundtrip_bool
#print axioms roundtrip_string
#print axioms roundtrip_int_nonneg
#print axioms roundtrip_int_neg
#print axioms roundtrip_int
#print axioms scalar_tokens
#print axioms data_tokens
#print axioms dataL_tokens
#print axioms dataT_tokens
#print axioms list_tokens_roundtrip
#print axioms dec_token_roundtrip
#print axioms roundtrip_dec_partial
#print axioms roundtrip_dec_neg_partial
#print axioms pattern_token_roundtrip
#print axioms roundtrip_pattern
#print axioms scalar_litToks
#print axioms data_litToks
#print axioms dataL_litToks
#print axioms dataT_litToks
#print axioms roundtrip_data
-- lemma library
#print axioms Ckl.Lexer.feed_unread
#print axioms Ckl.Lexer.run_string_literal
#print axioms Ckl.Lexer.run_nat_literal
#print axioms Ckl.Lexer.run_minus
#print axioms Ckl.Lexer.run_dec_gen
#print axioms Ckl.Lexer.run_pattern_literal
#print axioms Ckl.Lexer.run_word
#print axioms Ckl.Lexer.feed_ip
#print axioms parse_of_unary
#print axioms parse_neg_int
#print axioms parse_neg_dec
#print axioms parseWith_pattern
#print axioms parseIntLit_toDigits
#print axioms mkMap_perm_aux
#print axioms sortedEntries_perm_invariant
#print axioms decRepr_has_point
#print axioms expr_of_unary
#print axioms LitToks.expr
#print axioms RestToks.loop
#print axioms LitToks.parse
#print axioms parseIntLit_too_long
