/-
  C17Eval — helper lemmas: what the date built-ins of Model/Natives.lean compute on representable dates,
  reduced to the calendar functions of Model/Date.lean (whose properties are Proofs/C17.lean).
-/
import CklVerif.Proofs.C17
import CklVerif.Lemmas.C17EvalBase
namespace Ckl.C17Eval
set_option linter.unusedSimpArgs false
open Ckl Ckl.Date Ckl.C17

/-- a date value the implementation can hold with the precision `to_date` keeps: a valid calendar date between
    1900-01-01 and 9999-12-31 (day number ≤ `maxOaDay`), a time of day in whole milliseconds -/
structure ValidDT (D : DT) : Prop where
  date : validDate D.y D.mo D.d = true
  last : dtDay D ≤ maxOaDay
  h : D.h < 24
  mi : D.mi < 60
  s : D.s < 60
  ms : D.us % 1000 = 0
  us : D.us < 1000000

/-- at midnight -/
def Midnight (D : DT) : Prop := D.h = 0 ∧ D.mi = 0 ∧ D.s = 0 ∧ D.us = 0

/-- the date `n` days later (earlier for negative `n`), same time of day: `C17.addDays` on the calendar part -/
def shiftDT (D : DT) (n : Int) : DT :=
  let ymd := addDays D.y D.mo D.d n
  { D with y := ymd.1, mo := ymd.2.1, d := ymd.2.2 }

/-- the date with day number `k`, at midnight -/
def ofDay (k : Nat) : DT :=
  let ymd := toDate k
  ⟨ymd.1, ymd.2.1, ymd.2.2, 0, 0, 0, 0⟩

/-- the same day at midnight -/
def atMidnight (D : DT) : DT := ⟨D.y, D.mo, D.d, 0, 0, 0, 0⟩

theorem ValidDT.two_le {D : DT} (h : ValidDT D) : 2 ≤ dtDay D := two_le_toOaDay h.date

theorem ValidDT.millis {D : DT} (h : ValidDT D) : dtMillis? D = some (toMillis D.h D.mi D.s (D.us / 1000)) := by
  unfold dtMillis?; rw [if_pos h.ms]

theorem ofMillis_of_valid {D : DT} (h : ValidDT D) :
    ofMillis (toMillis D.h D.mi D.s (D.us / 1000)) = (D.h, D.mi, D.s, D.us / 1000) :=
  ofMillis_toMillis h.h h.mi h.s (by have := h.us; omega)

theorem us_restore {D : DT} (h : ValidDT D) : D.us / 1000 * 1000 = D.us := by
  have := h.ms; omega

/-- `to_date` of an in-range day number keeps the time of day -/
theorem dateOfDayMs_eq {D : DT} (h : ValidDT D) {k : Int} (h2 : 2 ≤ k) (hk : k ≤ maxOaDay) :
    dateOfDayMs k (toMillis D.h D.mi D.s (D.us / 1000)) =
      .date ⟨(toDate k.toNat).1, (toDate k.toNat).2.1, (toDate k.toNat).2.2, D.h, D.mi, D.s, D.us⟩ := by
  unfold dateOfDayMs
  have hk' : k ≤ 2958465 := hk
  rw [if_neg (by omega), if_neg (by omega), if_neg (by unfold maxOaDay; omega)]
  simp only [ofMillis_of_valid h, us_restore h]

/-- `to_date(to_oa_date(D) + n)` for a representable date and a result inside the calendar -/
theorem dateShift_eq {D : DT} (h : ValidDT D) {n : Int} (h2 : 2 ≤ (dtDay D : Int) + n)
    (hk : (dtDay D : Int) + n ≤ maxOaDay) : dateShift D n = .date (shiftDT D n) := by
  unfold dateShift
  rw [h.millis]
  have hl : (dtDay D : Int) ≤ 2958465 := by have := h.last; unfold maxOaDay at this; omega
  have hk' : (dtDay D : Int) + n ≤ 2958465 := hk
  have h0 := h.two_le
  simp only []
  rw [if_neg (by unfold maxShift; omega), dateOfDayMs_eq h h2 hk]
  simp only [shiftDT, addDays, dtDay]

/-- below the first day / beyond the last day: the runtime error, not a date -/
theorem dateShift_below {D : DT} (h : ValidDT D) {n : Int} (hn : -maxShift ≤ n) (h2 : (dtDay D : Int) + n < 2) :
    ∃ msg, dateShift D n = .err msg := by
  unfold dateShift
  rw [h.millis]
  have hl : (dtDay D : Int) ≤ 2958465 := by have := h.last; unfold maxOaDay at this; omega
  simp only []
  rw [if_neg (by unfold maxShift at *; omega)]
  unfold dateOfDayMs
  rw [if_pos h2]; exact ⟨_, rfl⟩

theorem dateShift_above {D : DT} (h : ValidDT D) {n : Int} (hn : n ≤ maxShift) (h2 : (maxOaDay : Int) < (dtDay D : Int) + n) :
    ∃ msg, dateShift D n = .err msg := by
  unfold dateShift
  rw [h.millis]
  have hl : (dtDay D : Int) ≤ 2958465 := by have := h.last; unfold maxOaDay at this; omega
  have h0 := h.two_le
  have h2' : (2958465 : Int) < (dtDay D : Int) + n := h2
  simp only []
  rw [if_neg (by unfold maxShift at *; omega)]
  unfold dateOfDayMs
  rw [if_neg (by omega), if_neg (by unfold maxShift at hn; omega), if_pos (by unfold maxOaDay; omega)]
  exact ⟨_, rfl⟩

/-- the shifted date is again representable, its day number is `dtDay D + n` -/
theorem shiftDT_valid {D : DT} (h : ValidDT D) {n : Int} (h2 : 2 ≤ (dtDay D : Int) + n)
    (hk : (dtDay D : Int) + n ≤ maxOaDay) :
    ValidDT (shiftDT D n) ∧ (dtDay (shiftDT D n) : Int) = (dtDay D : Int) + n := by
  obtain ⟨hv, ho⟩ := addDays_spec (y := D.y) (m := D.mo) (d := D.d) (k := n) h2
  have hd : (dtDay (shiftDT D n) : Int) = (dtDay D : Int) + n := ho
  refine ⟨⟨hv, ?_, h.h, h.mi, h.s, h.ms, h.us⟩, hd⟩
  have : (dtDay (shiftDT D n) : Int) ≤ maxOaDay := by rw [hd]; exact hk
  exact Int.ofNat_le.mp this

theorem shiftDT_shiftDT_neg {D : DT} (h : ValidDT D) {n : Int} (h2 : 2 ≤ (dtDay D : Int) + n) :
    shiftDT (shiftDT D n) (-n) = D := by
  have := addDays_addDays_neg (k := n) h.date h2
  unfold addDaysT at this
  unfold shiftDT
  simp only [this]

theorem shiftDT_one {D : DT} (h : ValidDT D) :
    shiftDT D 1 = { D with y := (nextDay D.y D.mo D.d).1, mo := (nextDay D.y D.mo D.d).2.1, d := (nextDay D.y D.mo D.d).2.2 } := by
  unfold shiftDT
  simp only [addDays_one h.date]

theorem shiftDT_zero {D : DT} (h : ValidDT D) : shiftDT D 0 = D := by
  unfold shiftDT
  simp only [addDays_zero h.date]

/-- `date - date` of a date and its shift: exactly the number of days -/
theorem dateDiff_shift {D : DT} (h : ValidDT D) {n : Int} (h2 : 2 ≤ (dtDay D : Int) + n)
    (hk : (dtDay D : Int) + n ≤ maxOaDay) : dateDiff (shiftDT D n) D = .int n := by
  obtain ⟨hv, _⟩ := shiftDT_valid h h2 hk
  have hy : 1900 ≤ D.y := by have := h.date; rw [validDate_iff] at this; exact this.1
  have hy' : 1900 ≤ (shiftDT D n).y := by have := hv.date; rw [validDate_iff] at this; exact this.1
  unfold dateDiff
  rw [if_neg (by omega), hv.millis, h.millis]
  simp only []
  have := diffDays_addDays (t := toMillis D.h D.mi D.s (D.us / 1000)) (k := n) h.date h2
  unfold stampT at this
  exact congrArg DateRes.int this

theorem dateDiff_shift_rev {D : DT} (h : ValidDT D) {n : Int} (h2 : 2 ≤ (dtDay D : Int) + n)
    (hk : (dtDay D : Int) + n ≤ maxOaDay) : dateDiff D (shiftDT D n) = .int (-n) := by
  obtain ⟨hv, _⟩ := shiftDT_valid h h2 hk
  have hy : 1900 ≤ D.y := by have := h.date; rw [validDate_iff] at this; exact this.1
  have hy' : 1900 ≤ (shiftDT D n).y := by have := hv.date; rw [validDate_iff] at this; exact this.1
  unfold dateDiff
  rw [if_neg (by omega), hv.millis, h.millis]
  simp only []
  have := diffDays_addDays_rev (t := toMillis D.h D.mi D.s (D.us / 1000)) (k := n) h.date h2
  unfold stampT at this
  exact congrArg DateRes.int this

/-- whole-day stamps: `diffDays` is the difference of the day numbers -/
theorem diffDays_whole (a b : Int) :
    diffDays (a * (msPerDay : Nat) + (0 : Nat)) (b * (msPerDay : Nat) + (0 : Nat)) = a - b := by
  have hM : ((msPerDay : Nat) : Int) ≠ 0 := by unfold msPerDay; decide
  have e1 : a * (msPerDay : Nat) + ((0 : Nat) : Int) - (b * (msPerDay : Nat) + ((0 : Nat) : Int)) = (a - b) * (msPerDay : Nat) := by
    rw [Int.sub_mul]; simp
  have e2 : b * (msPerDay : Nat) + ((0 : Nat) : Int) - (a * (msPerDay : Nat) + ((0 : Nat) : Int)) = (b - a) * (msPerDay : Nat) := by
    rw [Int.sub_mul]; simp
  unfold diffDays
  rw [e1, e2, Int.mul_ediv_cancel _ hM, Int.mul_ediv_cancel _ hM]
  split <;> omega

/-- `date - date` at midnight is the difference of the day numbers -/
theorem dateDiff_midnight {A B : DT} (ha : ValidDT A) (hb : ValidDT B) (ma : Midnight A) (mb : Midnight B) :
    dateDiff A B = .int ((dtDay A : Int) - (dtDay B : Int)) := by
  have hy : 1900 ≤ A.y := by have := ha.date; rw [validDate_iff] at this; exact this.1
  have hy' : 1900 ≤ B.y := by have := hb.date; rw [validDate_iff] at this; exact this.1
  obtain ⟨a1, a2, a3, a4⟩ := ma
  obtain ⟨b1, b2, b3, b4⟩ := mb
  have e0 : toMillis 0 0 0 (0 / 1000) = 0 := by decide
  unfold dateDiff
  rw [if_neg (by omega), ha.millis, hb.millis]
  simp only [a1, a2, a3, a4, b1, b2, b3, b4, e0, stamp, dtDay]
  exact congrArg DateRes.int (diffDays_whole _ _)

theorem asDateRes_int_eq (k : Int) : asDateRes (.int k) = dateOfDayMs k 0 := by
  unfold asDateRes
  rfl

theorem dateOfDayMs_zero {k : Int} (h2 : 2 ≤ k) (hk : k ≤ 2958465) : dateOfDayMs k 0 = .date (ofDay k.toNat) := by
  unfold dateOfDayMs
  rw [if_neg (by omega), if_neg (by omega), if_neg (by unfold maxOaDay; omega)]
  have e : ofMillis 0 = (0, 0, 0, 0) := by decide
  simp only [e, ofDay]

/-- `date(k)` for an in-range day number -/
theorem asDateRes_int {k : Int} (h2 : 2 ≤ k) (hk : k ≤ maxOaDay) : asDateRes (.int k) = .date (ofDay k.toNat) := by
  rw [asDateRes_int_eq]
  exact dateOfDayMs_zero h2 (by unfold maxOaDay at hk; omega)

theorem asDateRes_int_below {k : Int} (h2 : k < 2) : ∃ msg, asDateRes (.int k) = .err msg := by
  rw [asDateRes_int_eq]
  unfold dateOfDayMs
  rw [if_pos h2]; exact ⟨_, rfl⟩

theorem ofDay_valid {k : Nat} (h2 : 2 ≤ k) (hk : k ≤ maxOaDay) : ValidDT (ofDay k) ∧ Midnight (ofDay k) ∧ dtDay (ofDay k) = k := by
  obtain ⟨hv, ho⟩ := toDate_spec h2
  refine ⟨⟨hv, ?_, Nat.zero_lt_succ _, Nat.zero_lt_succ _, Nat.zero_lt_succ _, rfl, Nat.zero_lt_succ _⟩, ⟨rfl, rfl, rfl, rfl⟩, ho⟩
  show oaOf (toDate k) ≤ maxOaDay
  rw [ho]; exact hk

theorem ofDay_dtDay {D : DT} (h : ValidDT D) : ofDay (dtDay D) = atMidnight D := by
  unfold ofDay dtDay atMidnight
  simp only [toDate_toOaDay h.date]

theorem atMidnight_of_midnight {D : DT} (m : Midnight D) : atMidnight D = D := by
  obtain ⟨a1, a2, a3, a4⟩ := m
  cases D; simp only at a1 a2 a3 a4; subst a1 a2 a3 a4; rfl

/-- `datetime.__lt__` on two midnights is the order of the day numbers -/
theorem lt_midnight {A B : DT} (ha : ValidDT A) (hb : ValidDT B) (ma : Midnight A) (mb : Midnight B) :
    A.lt B = true ↔ dtDay A < dtDay B := by
  obtain ⟨a1, a2, a3, a4⟩ := ma
  obtain ⟨b1, b2, b3, b4⟩ := mb
  rw [show (dtDay A < dtDay B) ↔ toOaDay A.y A.mo A.d < toOaDay B.y B.mo B.d from Iff.rfl,
    ← toOaDay_strictMono ha.date hb.date]
  unfold DT.lt DT.toList dateLt
  simp only [a1, a2, a3, a4, b1, b2, b3, b4, natListLt, Nat.lt_irrefl, if_false]
  by_cases h1 : A.y < B.y
  · simp [h1]
  · by_cases h2 : B.y < A.y
    · simp [h1, h2]; omega
    · have e1 : A.y = B.y := by omega
      by_cases h3 : A.mo < B.mo
      · simp [h1, h2, h3, e1]
      · by_cases h4 : B.mo < A.mo
        · simp [h1, h2, h3, h4, e1]; omega
        · have e2 : A.mo = B.mo := by omega
          by_cases h5 : A.d < B.d
          · simp [e1, e2, h5]
          · simp [e1, e2, h5]

end Ckl.C17Eval
