/-
  C06Eval — the bridge: deep equality on heap values (`rveqF` / `rveq`) is `veq` on the
  reified tree values, provided the set cells / map cells of the heap are well formed
  (`HeapOK`: their elements / keys are mutually of one ordered kind and pairwise different).
-/
import CklVerif.Lemmas.C06EvalSort
namespace Ckl.C06E
open Ckl

/-! ### kinds are invariant under `veq` -/

mutual
  theorem sameKind_of_veq : ∀ a b c : Val, veq a b = true → SameKind a c → SameKind b c
    | .list xs, b, c, h, hk => by
      cases b <;> simp only [veq] at h <;> try exact absurd h Bool.false_ne_true
      cases c <;> simp only [SameKind] at hk ⊢
      exact sameKindL_of_veqL xs _ _ h hk
    | .null, _, c, _, hk => by cases c <;> simp [SameKind] at hk
    | .set _, _, c, _, hk => by cases c <;> simp [SameKind] at hk
    | .map _, _, c, _, hk => by cases c <;> simp [SameKind] at hk
    | .bool _, b, c, h, hk => by cases b <;> cases c <;> simp_all [veq, SameKind]
    | .int _, b, c, h, hk => by cases b <;> cases c <;> simp_all [veq, SameKind]
    | .dec _ _, b, c, h, hk => by cases b <;> cases c <;> simp_all [veq, SameKind]
    | .str _, b, c, h, hk => by cases b <;> cases c <;> simp_all [veq, SameKind]
    | .pat _, b, c, h, hk => by cases b <;> cases c <;> simp_all [veq, SameKind]
    | .date _, b, c, h, hk => by cases b <;> cases c <;> simp_all [veq, SameKind]
  theorem sameKindL_of_veqL : ∀ xs ys zs : List Val, veqL xs ys = true → SameKindL xs zs →
      SameKindL ys zs
    | [], ys, zs, h, _ => by cases ys <;> simp [veqL] at h; cases zs <;> simp [SameKindL]
    | _ :: _, [], _, h, _ => by simp [veqL] at h
    | _ :: _, _ :: _, [], _, _ => by simp [SameKindL]
    | x :: xs, y :: ys, z :: zs, h, hk => by
      simp only [veqL, Bool.and_eq_true] at h
      simp only [SameKindL] at hk ⊢
      exact ⟨sameKind_of_veq x y z h.1 hk.1, sameKindL_of_veqL xs ys zs h.2 hk.2⟩
end

/-! ### the condition on the elements of a set / the keys of a map -/

/-- usable as the elements of a set / the keys of a map: mutually of one ordered kind (each one
    also with itself, which excludes NULL, sets and maps) and pairwise different -/
structure KeysOK (vs : List Val) : Prop where
  kind : ∀ a ∈ vs, ∀ b ∈ vs, SameKind a b
  distinct : vs.Pairwise (fun a b => veq a b = false)

theorem KeysOK.nil : KeysOK [] := ⟨by simp, List.Pairwise.nil⟩

theorem ordCompat_of_kind (dr : DecRenderer) {L : List Val}
    (hk : ∀ a ∈ L, ∀ b ∈ L, SameKind a b) : OrdCompat (· ∈ L) (vltWith dr) veq where
  weak := C07.vlt_strictWeakOn dr hk
  inc a b ha hb h1 h2 := by
    cases h : veq a b with
    | true => rfl
    | false =>
      have := vlt_total' dr a b (hk a ha b hb) h h1
      rw [h2] at this; cases this
  comp a b ha hb h := vlt_veq_not_lt dr a b (hk a ha b hb) h
  ksymm a b h := by rw [veq_symm']; exact h
  ktrans := veq_trans'

theorem joint_kind {A B : List Val} (hA : ∀ a ∈ A, ∀ b ∈ A, SameKind a b)
    (hB : ∀ a ∈ B, ∀ b ∈ B, SameKind a b) (hp : ∀ a ∈ A, ∃ b ∈ B, veq a b = true) :
    ∀ x ∈ A ++ B, ∀ y ∈ A ++ B, SameKind x y := by
  have cross : ∀ x ∈ A, ∀ y ∈ B, SameKind x y := by
    intro x hx y hy
    obtain ⟨b, hb, hv⟩ := hp x hx
    exact sameKind_of_veq b x y (by rw [veq_symm']; exact hv) (hB b hb y hy)
  intro x hx y hy
  rcases List.mem_append.mp hx with hx | hx <;> rcases List.mem_append.mp hy with hy | hy
  · exact hA x hx y hy
  · exact cross x hx y hy
  · exact SameKind_symm _ _ (cross y hy x hx)
  · exact hB x hx y hy

/-- **sets**: on well-formed element lists, equality of the set values is mutual containment -/
theorem veq_mkSet (dr : DecRenderer) {A B : List Val} (hA : KeysOK A) (hB : KeysOK B) :
    veq (mkSet dr A) (mkSet dr B) = (A.length == B.length && A.all (fun a => B.any (veq a))) := by
  unfold mkSet sortedItems
  rw [dedup_of_pairwise hA.distinct, dedup_of_pairwise hB.distinct]
  simp only [veq]
  rw [veqL_eq_all2]
  apply Bool.eq_iff_iff.mpr
  constructor
  · intro h
    obtain ⟨h1, h2⟩ := all2_sort_imp A B h
    simp only [Bool.and_eq_true, beq_iff_eq, List.all_eq_true, List.any_eq_true]
    exact ⟨h1, h2⟩
  · intro h
    simp only [Bool.and_eq_true, beq_iff_eq, List.all_eq_true, List.any_eq_true] at h
    have hj := joint_kind hA.kind hB.kind h.2
    exact all2_sort_of (ordCompat_of_kind dr hj) (fun _ _ e => e)
      (fun a ha => List.mem_append_left _ ha) (fun b hb => List.mem_append_right _ hb)
      hA.distinct hB.distinct h.1 h.2

theorem veqE_key {a b : Val × Val} (h : veqE a b = true) : veq a.1 b.1 = true := by
  simp only [veqE, Bool.and_eq_true] at h; exact h.1

/-- **maps**: on well-formed key lists, equality of the map values is mutual containment of the
    entries -/
theorem veq_mkMap (dr : DecRenderer) {A B : List (Val × Val)} (hA : KeysOK (A.map (·.1)))
    (hB : KeysOK (B.map (·.1))) :
    veq (mkMap dr A) (mkMap dr B) = (A.length == B.length && A.all (fun a => B.any (veqE a))) := by
  have dA : A.Pairwise (fun a b => veq a.1 b.1 = false) := List.pairwise_map.mp hA.distinct
  have dB : B.Pairwise (fun a b => veq a.1 b.1 = false) := List.pairwise_map.mp hB.distinct
  unfold mkMap sortedEntries
  rw [assocOfList_of_pairwise dA, assocOfList_of_pairwise dB]
  simp only [veq]
  rw [veqM_eq_all2]
  apply Bool.eq_iff_iff.mpr
  constructor
  · intro h
    obtain ⟨h1, h2⟩ := all2_sort_imp A B h
    simp only [Bool.and_eq_true, beq_iff_eq, List.all_eq_true, List.any_eq_true]
    exact ⟨h1, h2⟩
  · intro h
    simp only [Bool.and_eq_true, beq_iff_eq, List.all_eq_true, List.any_eq_true] at h
    have hp : ∀ k ∈ A.map (·.1), ∃ k' ∈ B.map (·.1), veq k k' = true := by
      intro k hk
      obtain ⟨a, ha, rfl⟩ := List.mem_map.mp hk
      obtain ⟨b, hb, he⟩ := h.2 a ha
      exact ⟨b.1, List.mem_map.mpr ⟨b, hb, rfl⟩, veqE_key he⟩
    have hj := joint_kind hA.kind hB.kind hp
    have oc := (ordCompat_of_kind dr hj).comap (Prod.fst : Val × Val → Val)
    exact all2_sort_of oc (fun _ _ e => veqE_key e)
      (fun a ha => List.mem_append_left _ (List.mem_map.mpr ⟨a, ha, rfl⟩))
      (fun b hb => List.mem_append_right _ (List.mem_map.mpr ⟨b, hb, rfl⟩))
      dA dB h.1 h.2

/-! ### well-formed heaps -/

/-- a set cell / map cell whose elements / keys reify (w.r.t. `f`) holds a `KeysOK` list -/
def CellOK (f : RVal → Option Val) : Cell → Prop
  | .set xs => ∀ vs, xs.mapM f = some vs → KeysOK vs
  | .map kvs => ∀ ks, (kvs.map (·.1)).mapM f = some ks → KeysOK ks
  | _ => True

def HeapOKF (dr : DecRenderer) (h : Array Cell) (N : Nat) : Prop :=
  ∀ (a : Nat) (c : Cell), h[a]? = some c → CellOK (reifyF dr h N) c

/-- **the well-formedness condition on states**: every set cell whose elements are data values
    holds elements that are mutually of one ordered kind and pairwise different (`veq`), and so do
    the keys of every map cell.  (Cells with non-data or cyclic content are not restricted.) -/
def HeapOK (s : State) : Prop := ∀ (a : Nat) (c : Cell), s.heap[a]? = some c → CellOK (reify s) c

theorem heapOK_iff (s : State) : HeapOK s ↔ HeapOKF decRepr s.heap (s.heap.size + 1) := Iff.rfl

/-- the entry reifier of `reifyF` on map cells -/
def pairF (f : RVal → Option Val) (kv : RVal × RVal) : Option (Val × Val) := do
  let k ← f kv.1; let v ← f kv.2; pure (k, v)

theorem pairF_some {f : RVal → Option Val} {kv : RVal × RVal} {p : Val × Val}
    (h : pairF f kv = some p) : f kv.1 = some p.1 ∧ f kv.2 = some p.2 := by
  unfold pairF at h
  cases hk : f kv.1 with
  | none => simp [hk] at h
  | some k =>
    cases hv : f kv.2 with
    | none => simp [hk, hv] at h
    | some v =>
      simp [hk, hv] at h
      subst h; exact ⟨rfl, rfl⟩

theorem pairF_of {f : RVal → Option Val} {kv : RVal × RVal} {k v : Val}
    (hk : f kv.1 = some k) (hv : f kv.2 = some v) : pairF f kv = some (k, v) := by
  simp [pairF, hk, hv]

theorem forall2_keys {f : RVal → Option Val} {kvs : List (RVal × RVal)} {P : List (Val × Val)}
    (h : List.Forall₂ (fun kv p => pairF f kv = some p) kvs P) :
    List.Forall₂ (fun x v => f x = some v) (kvs.map (·.1)) (P.map (·.1)) := by
  induction h with
  | nil => exact List.Forall₂.nil
  | cons hx _ ih => exact List.Forall₂.cons (pairF_some hx).1 ih

theorem forall2_mono {α β} {R S : α → β → Prop} (hRS : ∀ a b, R a b → S a b) {xs : List α}
    {ys : List β} (h : List.Forall₂ R xs ys) : List.Forall₂ S xs ys := by
  induction h with
  | nil => exact List.Forall₂.nil
  | cons hx _ ih => exact List.Forall₂.cons (hRS _ _ hx) ih

/-! ### shapes -/

section
variable (dr : DecRenderer) (h : Array Cell)

theorem reify_ref_shape {n x : Nat} {v : Val} (hv : reifyF dr h n (.ref x) = some v) :
    (∃ l, v = .list l) ∨ (∃ l, v = .set l) ∨ (∃ l, v = .map l) := by
  cases n with
  | zero => simp [reifyF] at hv
  | succ n =>
    rw [reifyF_ref_succ'] at hv
    cases hc : h[x]? with
    | none => rw [hc] at hv; simp [cellVal] at hv
    | some c =>
      rw [hc] at hv
      cases c <;> simp only [cellVal, Option.map_eq_some_iff] at hv
      · obtain ⟨l, _, rfl⟩ := hv; exact Or.inl ⟨l, rfl⟩
      · obtain ⟨l, _, rfl⟩ := hv; exact Or.inr (Or.inl ⟨_, rfl⟩)
      · obtain ⟨l, _, rfl⟩ := hv; exact Or.inr (Or.inr ⟨_, rfl⟩)
      · cases hv
      · cases hv

/-- one of the two values is not a reference -/
theorem rveqF_scalar {n : Nat} {a b : RVal} {va vb : Val}
    (hs : (∀ x, a ≠ .ref x) ∨ (∀ y, b ≠ .ref y))
    (ha : reifyF dr h n a = some va) (hb : reifyF dr h n b = some vb) :
    rveqF h n a b = veq va vb := by
  by_cases hra : ∃ x, a = .ref x
  · obtain ⟨x, rfl⟩ := hra
    have hnb : ∀ y, b ≠ .ref y := by
      rcases hs with hs | hs
      · exact absurd rfl (hs x)
      · exact hs
    have h1 : rveqF h n (.ref x) b = false := by
      cases b <;> cases n <;> simp_all [rveqF]
    rw [h1]
    rcases reify_ref_shape dr h ha with ⟨l, rfl⟩ | ⟨l, rfl⟩ | ⟨l, rfl⟩ <;>
      cases b <;> cases n <;> (try simp [reifyF] at hb) <;>
      first | done | (subst hb; simp [veq]) | exact absurd rfl (hnb _)
  · by_cases hrb : ∃ y, b = .ref y
    · obtain ⟨y, rfl⟩ := hrb
      have h1 : rveqF h n a (.ref y) = false := by
        cases a <;> cases n <;> simp_all [rveqF]
      rw [h1]
      rcases reify_ref_shape dr h hb with ⟨l, rfl⟩ | ⟨l, rfl⟩ | ⟨l, rfl⟩ <;>
        cases a <;> cases n <;> (try simp [reifyF] at ha) <;>
        first | done | (subst ha; simp [veq]) | exact absurd ⟨_, rfl⟩ hra
    · cases a with
      | ref x => exact absurd ⟨x, rfl⟩ hra
      | _ =>
        cases b with
        | ref y => exact absurd ⟨y, rfl⟩ hrb
        | _ =>
          cases n <;> (try simp [reifyF] at ha) <;> (try simp [reifyF] at hb) <;>
            (try subst ha) <;> (try subst hb) <;> simp [rveqF, veq]

/-! ### the bridge, by induction on the fuel -/

theorem rveqF_bridge {N : Nat} (wf : HeapOKF dr h N) : ∀ n, n ≤ N → ∀ (a b : RVal) (va vb : Val),
    reifyF dr h n a = some va → reifyF dr h n b = some vb → rveqF h n a b = veq va vb := by
  intro n
  induction n with
  | zero =>
    intro _ a b va vb ha hb
    apply rveqF_scalar dr h _ ha hb
    left; intro x hx; subst hx; simp [reifyF] at ha
  | succ n ih =>
    intro hn a b va vb ha hb
    have ihn := ih (by omega)
    by_cases hra : ∃ x, a = .ref x
    case neg => exact rveqF_scalar dr h (Or.inl (fun x hx => hra ⟨x, hx⟩)) ha hb
    by_cases hrb : ∃ y, b = .ref y
    case neg => exact rveqF_scalar dr h (Or.inr (fun y hy => hrb ⟨y, hy⟩)) ha hb
    obtain ⟨x, rfl⟩ := hra
    obtain ⟨y, rfl⟩ := hrb
    rw [rveqF_ref_succ]
    by_cases hxy : x = y
    · subst hxy
      rw [ha] at hb
      cases hb
      simp [veq_refl']
    · have hne : (x == y) = false := by simpa using hxy
      simp only [hne, Bool.false_eq_true, if_false]
      rw [reifyF_ref_succ'] at ha hb
      have up : ∀ (v : RVal) (w : Val), reifyF dr h n v = some w → reifyF dr h N v = some w :=
        fun v w hv => reifyF_mono_le dr h (by omega) hv
      cases hcx : h[x]? with
      | none => rw [hcx] at ha; simp [cellVal] at ha
      | some cx =>
        cases hcy : h[y]? with
        | none => rw [hcy] at hb; simp [cellVal] at hb
        | some cy =>
          rw [hcx] at ha; rw [hcy] at hb
          cases cx with
          | obj _ _ => simp [cellVal] at ha
          | closure _ _ _ _ _ => simp [cellVal] at ha
          | list xs =>
            simp only [cellVal, Option.map_eq_some_iff] at ha
            obtain ⟨A, hA, rfl⟩ := ha
            cases cy with
            | obj _ _ => simp [cellVal] at hb
            | closure _ _ _ _ _ => simp [cellVal] at hb
            | list ys =>
              simp only [cellVal, Option.map_eq_some_iff] at hb
              obtain ⟨B, hB, rfl⟩ := hb
              simp only [cellEq, veq]
              rw [veqL_eq_all2]
              exact zip_all_transfer (fun x y a b hx hy => ihn x y a b hx hy)
                (mapM_forall2 hA) (mapM_forall2 hB)
            | set ys =>
              simp only [cellVal, Option.map_eq_some_iff] at hb
              obtain ⟨B, _, rfl⟩ := hb
              simp [cellEq, veq, mkSet]
            | map ys =>
              simp only [cellVal, Option.map_eq_some_iff] at hb
              obtain ⟨B, _, rfl⟩ := hb
              simp [cellEq, veq, mkMap]
          | set xs =>
            simp only [cellVal, Option.map_eq_some_iff] at ha
            obtain ⟨A, hA, rfl⟩ := ha
            cases cy with
            | obj _ _ => simp [cellVal] at hb
            | closure _ _ _ _ _ => simp [cellVal] at hb
            | list ys =>
              simp only [cellVal, Option.map_eq_some_iff] at hb
              obtain ⟨B, _, rfl⟩ := hb
              simp [cellEq, veq, mkSet]
            | map ys =>
              simp only [cellVal, Option.map_eq_some_iff] at hb
              obtain ⟨B, _, rfl⟩ := hb
              simp [cellEq, veq, mkSet, mkMap]
            | set ys =>
              simp only [cellVal, Option.map_eq_some_iff] at hb
              obtain ⟨B, hB, rfl⟩ := hb
              have okA : KeysOK A := wf x _ hcx A (mapM_option_mono (fun v _ w hv => up v w hv) hA)
              have okB : KeysOK B := wf y _ hcy B (mapM_option_mono (fun v _ w hv => up v w hv) hB)
              rw [veq_mkSet dr okA okB]
              have fA := mapM_forall2 hA
              have fB := mapM_forall2 hB
              simp only [cellEq]
              rw [fA.length_eq, fB.length_eq]
              congr 1
              exact all_any_transfer (fun x y a b hx hy => ihn x y a b hx hy) fA fB
          | map xs =>
            simp only [cellVal, Option.map_eq_some_iff] at ha
            obtain ⟨A, hA, rfl⟩ := ha
            cases cy with
            | obj _ _ => simp [cellVal] at hb
            | closure _ _ _ _ _ => simp [cellVal] at hb
            | list ys =>
              simp only [cellVal, Option.map_eq_some_iff] at hb
              obtain ⟨B, _, rfl⟩ := hb
              simp [cellEq, veq, mkMap]
            | set ys =>
              simp only [cellVal, Option.map_eq_some_iff] at hb
              obtain ⟨B, _, rfl⟩ := hb
              simp [cellEq, veq, mkSet, mkMap]
            | map ys =>
              simp only [cellVal, Option.map_eq_some_iff] at hb
              obtain ⟨B, hB, rfl⟩ := hb
              have fA : List.Forall₂ (fun kv p => pairF (reifyF dr h n) kv = some p) xs A :=
                mapM_forall2 hA
              have fB : List.Forall₂ (fun kv p => pairF (reifyF dr h n) kv = some p) ys B :=
                mapM_forall2 hB
              have okA : KeysOK (A.map (·.1)) :=
                wf x _ hcx _ (forall2_mapM (forall2_mono (fun v w hv => up v w hv) (forall2_keys fA)))
              have okB : KeysOK (B.map (·.1)) :=
                wf y _ hcy _ (forall2_mapM (forall2_mono (fun v w hv => up v w hv) (forall2_keys fB)))
              rw [veq_mkMap dr okA okB]
              simp only [cellEq]
              rw [fA.length_eq, fB.length_eq]
              congr 1
              refine all_any_transfer (r := fun kv kv' => rveqF h n kv.1 kv'.1 && rveqF h n kv.2 kv'.2)
                (E := veqE) ?_ fA fB
              intro kv kv' p q hp hq
              have h1 := pairF_some hp
              have h2 := pairF_some hq
              simp only [veqE, ihn _ _ _ _ h1.1 h2.1, ihn _ _ _ _ h1.2 h2.2]

end

/-! ### state level -/

/-- **bridge (equality)**: on a well-formed heap, deep equality of two heap values that reify is
    `veq` of their tree values -/
theorem rveq_eq_veq {s : State} (wf : HeapOK s) {a b : RVal} {va vb : Val}
    (ha : reify s a = some va) (hb : reify s b = some vb) : rveq s a b = veq va vb :=
  rveqF_bridge decRepr s.heap wf (s.heap.size + 1) (Nat.le_refl _) a b va vb ha hb

end Ckl.C06E
