import CklVerif.Lemmas.C14EvalSim

/-! C14 (evaluator part) — computations that respect similarity (`Resp`) and their combinators -/
namespace Ckl.C14E
open Ckl

/-- started in similar states, the two computations end with similar outcomes -/
structure Resp {α} [Ers α] (m m' : EvalM α) : Prop where
  run : ∀ s s', ers s = ers s' → ers (m s) = ers (m' s')

theorem bind_apply {α β} (m : EvalM α) (f : α → EvalM β) (s : State) :
    (m >>= f) s = match m s with
      | .ok a s' => f a s'
      | .err v msg p t s' => .err v msg p t s'
      | .fail k s' => .fail k s' := rfl

theorem pure_apply {α} (a : α) (s : State) : (pure a : EvalM α) s = .ok a s := rfl

namespace Resp
variable {α β : Type} [Ers α] [Ers β]

theorem pure {a a' : α} (h : ers a = ers a') : Resp (Pure.pure a : EvalM α) (Pure.pure a') := by
  constructor; intro s s' hs; simp only [pure_apply, ers_ok, h, hs]

theorem bind {m m' : EvalM α} {f f' : α → EvalM β} (hm : Resp m m')
    (hf : ∀ a a', ers a = ers a' → Resp (f a) (f' a')) : Resp (m >>= f) (m' >>= f') := by
  constructor
  intro s s' hs
  rw [bind_apply, bind_apply]
  rcases Out.sim_cases (hm.run s s' hs) with ⟨a, a', s1, s1', h1, h2, ha, hs1⟩ |
    ⟨v, v', m, p, p', t, t', s1, s1', h1, h2, hv, ht, hs1⟩ | ⟨f, f', s1, s1', h1, h2, hf', hs1⟩
  · rw [h1, h2]; exact (hf a a' ha).run s1 s1' hs1
  · have := hm.run s s' hs; rw [h1, h2] at this ⊢; simp only [ers_err, ers_fail, Out.err.injEq, Out.fail.injEq] at this ⊢; exact this
  · have := hm.run s s' hs; rw [h1, h2] at this ⊢; simp only [ers_err, ers_fail, Out.err.injEq, Out.fail.injEq] at this ⊢; exact this

theorem getS : Resp getS getS := ⟨fun s s' hs => by simp only [Ckl.getS, ers_ok, hs]⟩

theorem getS_bind {f f' : State → EvalM β} (hf : ∀ s s', ers s = ers s' → Resp (f s) (f' s')) :
    Resp (Ckl.getS >>= f) (Ckl.getS >>= f') := bind getS hf

theorem setS {s s' : State} (h : ers s = ers s') : Resp (setS s) (setS s') :=
  ⟨fun _ _ _ => by simp only [Ckl.setS, ers_ok, h]⟩

theorem modifyS {f f' : State → State} (h : ∀ s s', ers s = ers s' → ers (f s) = ers (f' s')) :
    Resp (modifyS f) (modifyS f') := ⟨fun s s' hs => by simp only [Ckl.modifyS, ers_ok, h s s' hs]⟩

theorem throwV {v v' : RVal} {msg msg' : String} {p p' : Pos} (hv : ers v = ers v') (hm : msg = msg') :
    Resp (throwV v msg p : EvalM α) (throwV v' msg' p') :=
  ⟨fun s s' hs => by simp only [Ckl.throwV, ers_err, hv, hm, hs]⟩

theorem throwE {msg msg' : String} {p p' : Pos} (hm : msg = msg') :
    Resp (throwE msg p : EvalM α) (throwE msg' p') := throwV rfl hm

theorem failM {f f' : Fail} (h : ers f = ers f') : Resp (failM f : EvalM α) (failM f') :=
  ⟨fun s s' hs => by simp only [Ckl.failM, ers_fail, h, hs]⟩

theorem unsupported {w w' : String} : Resp (unsupported w : EvalM α) (unsupported w') := failM rfl

theorem ite {c c' : Prop} [Decidable c] [Decidable c'] {a b a' b' : EvalM α} (hc : c ↔ c')
    (ha : c → Resp a a') (hb : ¬ c → Resp b b') : Resp (if c then a else b) (if c' then a' else b') := by
  by_cases h : c
  · rw [if_pos h, if_pos (hc.1 h)]; exact ha h
  · rw [if_neg h, if_neg (fun h' => h (hc.2 h'))]; exact hb h

theorem iteB {c c' : Bool} {a b a' b' : EvalM α} (hc : c = c')
    (ha : c = true → Resp a a') (hb : c = false → Resp b b') :
    Resp (if c then a else b) (if c' then a' else b') := by
  subst hc; cases c <;> simp [ha, hb]

theorem symm {m m' : EvalM α} (h : Resp m m') : Resp m' m := ⟨fun s s' hs => (h.run s' s hs.symm).symm⟩

theorem trans {m1 m2 m3 : EvalM α} (h1 : Resp m1 m2) (h2 : Resp m2 m3) : Resp m1 m3 :=
  ⟨fun s s' hs => (h1.run s s' hs).trans (h2.run s' s' rfl)⟩

/-- a binary operation on values: similarity follows from the diagonal case (same values, other position and
    state) and from insensitivity to erasing either argument -/
theorem of_diag2 {f : RVal → RVal → Pos → EvalM α}
    (D : ∀ x y p p', Resp (f x y p) (f x y p'))
    (Ea : ∀ a b p, Resp (f a b p) (f (ers a) b p))
    (Eb : ∀ a b p, Resp (f a b p) (f a (ers b) p))
    {a a' b b' : RVal} {p p' : Pos} (ha : ers a = ers a') (hb : ers b = ers b') : Resp (f a b p) (f a' b' p') := by
  have h1 : Resp (f a b p) (f (ers a) (ers b) p) := (Ea a b p).trans (Eb (ers a) b p)
  have h2 : Resp (f a' b' p') (f (ers a') (ers b') p') := (Ea a' b' p').trans (Eb (ers a') b' p')
  rw [← ha, ← hb] at h2
  exact h1.trans ((D _ _ p p').trans h2.symm)

theorem of_eq {m m' : EvalM α} (h : m = m') : Resp m m → Resp m m' := h ▸ id

end Resp

end Ckl.C14E
