/-
  C11 (binding part) — inversion of the stages of `evalRequire` (see C11BindDefs): what a
  successful / failed `require` went through.
-/
import CklVerif.Lemmas.C11BindTail
import CklVerif.Lemmas.C11BindFMain
namespace Ckl.C11B
open Ckl Ckl.C05 Ckl.C03

theorem eval_require_eq (ld : Loader) (fuel : Nat) (env : EnvId) (spec : Node) (name : Option String)
    (unq : Bool) (syms : Option (List (String × String))) (pos : Pos) :
    eval ld (fuel + 1) env (.require spec name unq syms pos) =
      evalRequire ld fuel env spec name unq syms pos := by
  simp only [Ckl.eval]

/-! ### stage 1: the module specification -/

/-- an identifier is resolved without touching the state -/
theorem resolveSpec_ident {ld : Loader} {fuel : Nat} {env : EnvId} {n : String} {p pos : Pos}
    {s s1 : State} {ms : String}
    (h : resolveSpec ld fuel env (.ident n p) pos s = .ok ms s1) :
    s1 = s ∧ (ms = n ∨ ∃ t, s.lookup env n = some (.str t) ∧ ms = String.ofList t) := by
  simp only [resolveSpec] at h
  rw [bind_ok (getS_run s)] at h
  cases hl : s.lookup env n with
  | none => rw [hl] at h; cases h; exact ⟨rfl, Or.inl rfl⟩
  | some v =>
    rw [hl] at h
    dsimp only at h
    by_cases hm : isModuleObj s v = true
    · rw [if_pos hm] at h; cases h; exact ⟨rfl, Or.inl rfl⟩
    · rw [if_neg hm] at h
      cases v <;> first | (cases h; done) | skip
      cases h; exact ⟨rfl, Or.inr ⟨_, rfl, rfl⟩⟩

/-- … and so is a string literal -/
theorem resolveSpec_lit (ld : Loader) (fuel : Nat) (env : EnvId) (t : List Char) (p pos : Pos) (s : State) :
    resolveSpec ld (fuel + 1) env (.lit (.str t) p) pos s = .ok (String.ofList t) s := by
  simp only [resolveSpec, Ckl.eval]
  rfl

/-- any other specification is an expression evaluated in the importer's frame -/
theorem resolveSpec_other {ld : Loader} {fuel : Nat} {env : EnvId} {spec : Node} {pos : Pos}
    (hs : ∀ n p, spec ≠ .ident n p) (s : State) :
    endState (resolveSpec ld fuel env spec pos s) = endState (eval ld fuel env spec s) := by
  have h' : ∀ n p, spec = Node.ident n p → False := fun n p e => hs n p e
  simp only [resolveSpec]
  rw [bind_def]
  cases eval ld fuel env spec s with
  | ok v s1 => cases v <;> rfl
  | err v m p t s1 => rfl
  | fail f s1 => rfl

theorem resolveSpec_ident_endState (ld : Loader) (fuel : Nat) (env : EnvId) (n : String) (p pos : Pos)
    (s : State) : endState (resolveSpec ld fuel env (.ident n p) pos s) = s := by
  simp only [resolveSpec]
  rw [bind_ok (getS_run s)]
  cases hl : s.lookup env n with
  | none => rfl
  | some v =>
    dsimp only
    by_cases hm : isModuleObj s v = true
    · rw [if_pos hm]; rfl
    · rw [if_neg hm]; cases v <;> rfl

theorem resolveSpec_fext {ld : Loader} (hN : NativeKeepsFrames ld) (fuel : Nat) (env : EnvId)
    (spec : Node) (pos : Pos) (s : State) : FExt s (endState (resolveSpec ld fuel env spec pos s)) := by
  by_cases h : ∃ n p, spec = Node.ident n p
  · obtain ⟨n, p, rfl⟩ := h
    rw [resolveSpec_ident_endState]; exact FExt.refl s
  · rw [resolveSpec_other (fun n p e => h ⟨n, p, e⟩)]
    exact eval_fext hN fuel env spec s

/-! ### stage 3: push, look up or load, pop -/

theorem popS_pushS (s : State) (ident : String) : popS (pushS s ident) = s := by
  cases s; simp [popS, pushS]

theorem baseF_frames {s t : State} (h : t.frames = s.frames) (n : Nat) (e : EnvId) :
    t.baseF n e = s.baseF n e := by
  induction n generalizing e with
  | zero => rfl
  | succ n ih =>
    simp only [State.baseF, State.frame, h]
    split
    · exact ih _
    · rfl

theorem base_frames {s t : State} (h : t.frames = s.frames) (e : EnvId) : t.base e = s.base e := by
  simp only [State.base, h]; exact baseF_frames h _ e

/-- registration of a freshly evaluated module in the cache (and its ghost counter) -/
def registerS (s : State) (ident : String) (menv : EnvId) : State :=
  { s with modules := s.modules ++ [(ident, menv)],
           ghost := { s.ghost with moduleEvals := bumpS ident s.ghost.moduleEvals } }

/-- the state in which a module's top-level code starts: a NEW empty frame whose parent is the
    base frame of the importer's chain, the module on top of the load stack -/
def moduleStart (s : State) (env : EnvId) (ident : String) : State :=
  pushS (s.newEnv (s.base env)).1 ident

/-- how `loadPop` came by the module frame -/
inductive Loaded (ld : Loader) (fuel : Nat) (env : EnvId) (ident file : String) (s : State)
    (menv : EnvId) (s2 : State) : Prop where
  /-- cache hit: nothing is evaluated, the state is untouched -/
  | cached : s.modules.lookup ident = some menv → s2 = s → Loaded ld fuel env ident file s menv s2
  /-- cache miss: the module AST is evaluated in a new frame, then registered -/
  | fresh (g : Nat) (ast : Node) (v : RVal) (s3 : State) :
      fuel = g + 1 → s.modules.lookup ident = none → ld.find file = some (.ok ast) →
      menv = s.frames.size →
      eval ld g menv ast (moduleStart s env ident) = .ok v s3 →
      s2 = popS (registerS s3 ident menv) → Loaded ld fuel env ident file s menv s2

theorem loadModule_pushS_unfold (ld : Loader) (g : Nat) (env : EnvId) (ident file : String) (pos : Pos)
    (s : State) (hl : s.modules.lookup ident = none) :
    loadModule ld (g + 1) env ident file pos (pushS s ident) =
      (match ld.find file with
       | none =>
         if ld.bundledNames.contains file.toLower then unsupported ("bundled module " ++ file)
         else throwE ("Module " ++ ((file.splitOn "/").getLast!.dropEnd 4).toString ++ " not found") pos
       | some (.error e) => failM (.syn e)
       | some (.ok ast) => do
         let _ ← eval ld g s.frames.size ast
         modifyS (fun t => registerS t ident s.frames.size)
         pure s.frames.size) (moduleStart s env ident) := by
  have hb : (pushS s ident).base env = s.base env := base_frames (s := s) (t := pushS s ident) rfl env
  simp only [Ckl.loadModule]
  rw [bind_ok (getS_run _)]
  have hl' : List.lookup ident (pushS s ident).modules = none := hl
  rw [hl']
  dsimp only
  rw [hb]
  rfl

theorem loadPop_cached (ld : Loader) (fuel : Nat) (env : EnvId) (ident file : String) (pos : Pos)
    (s : State) {e : EnvId} (hl : s.modules.lookup ident = some e) :
    loadPop ld (fuel + 1) env ident file pos s = .ok e s := by
  unfold loadPop
  simp only [Ckl.loadModule]
  rw [bind_ok (getS_run _)]
  have hl' : List.lookup ident (pushS s ident).modules = some e := hl
  rw [hl']
  show Out.ok e (popS (pushS s ident)) = _
  rw [popS_pushS]

theorem loadPop_ok_inv {ld : Loader} {fuel : Nat} {env : EnvId} {ident file : String} {pos : Pos}
    {s s2 : State} {menv : EnvId}
    (h : loadPop ld fuel env ident file pos s = .ok menv s2) :
    Loaded ld fuel env ident file s menv s2 := by
  cases fuel with
  | zero => simp [loadPop, Ckl.loadModule, failM] at h
  | succ g =>
    cases hl : s.modules.lookup ident with
    | some e =>
      rw [loadPop_cached ld g env ident file pos s hl] at h
      cases h; exact .cached hl rfl
    | none =>
      unfold loadPop at h
      rw [loadModule_pushS_unfold ld g env ident file pos s hl] at h
      cases hf : ld.find file with
      | none =>
        rw [hf] at h; dsimp only at h
        by_cases hb : ld.bundledNames.contains file.toLower = true
        · rw [if_pos hb] at h; cases h
        · rw [if_neg hb] at h; cases h
      | some r =>
        cases r with
        | error e => rw [hf] at h; cases h
        | ok ast =>
          rw [hf] at h; dsimp only at h
          rw [bind_def] at h
          cases he : eval ld g s.frames.size ast (moduleStart s env ident) with
          | ok v s3 =>
            rw [he] at h
            have : (Out.ok s.frames.size (popS (registerS s3 ident s.frames.size)) : Out EnvId) = .ok menv s2 := h
            cases this
            exact .fresh g ast v s3 rfl hl hf rfl he rfl
          | err v m p t s3 => rw [he] at h; cases h
          | fail f s3 => rw [he] at h; cases h

/-- a failed load: the module is unknown, or its body raised the error -/
theorem loadPop_err_inv {ld : Loader} {fuel : Nat} {env : EnvId} {ident file : String} {pos : Pos}
    {s s2 : State} {v : RVal} {m : String} {p : Pos} {t : List (String × Pos)}
    (h : loadPop ld fuel env ident file pos s = .err v m p t s2) :
    s.modules.lookup ident = none ∧
    ((ld.find file = none ∧ s2 = (s.newEnv (s.base env)).1) ∨
     (∃ g ast s3, fuel = g + 1 ∧ ld.find file = some (.ok ast) ∧
        eval ld g s.frames.size ast (moduleStart s env ident) = .err v m p t s3 ∧ s2 = popS s3)) := by
  cases fuel with
  | zero => simp [loadPop, Ckl.loadModule, failM] at h
  | succ g =>
    cases hl : s.modules.lookup ident with
    | some e => rw [loadPop_cached ld g env ident file pos s hl] at h; cases h
    | none =>
      refine ⟨rfl, ?_⟩
      unfold loadPop at h
      rw [loadModule_pushS_unfold ld g env ident file pos s hl] at h
      cases hf : ld.find file with
      | none =>
        rw [hf] at h; dsimp only at h
        by_cases hb : ld.bundledNames.contains file.toLower = true
        · rw [if_pos hb] at h; cases h
        · rw [if_neg hb] at h
          have : (Out.err (RVal.str ['E', 'R', 'R', 'O', 'R'])
              ("Module " ++ ((file.splitOn "/").getLast!.dropEnd 4).toString ++ " not found") pos []
              (popS (moduleStart s env ident)) : Out EnvId) = .err v m p t s2 := h
          cases this
          exact Or.inl ⟨rfl, popS_pushS _ _⟩
      | some r =>
        cases r with
        | error e => rw [hf] at h; cases h
        | ok ast =>
          rw [hf] at h; dsimp only at h
          rw [bind_def] at h
          cases he : eval ld g s.frames.size ast (moduleStart s env ident) with
          | ok v' s3 => rw [he] at h; cases h
          | err v' m' p' t' s3 =>
            rw [he] at h
            have : (Out.err v' m' p' t' (popS s3) : Out EnvId) = .err v m p t s2 := h
            cases this
            exact Or.inr ⟨g, ast, s3, rfl, rfl, he, rfl⟩
          | fail f s3 => rw [he] at h; cases h

theorem loadPop_fext {ld : Loader} (hN : NativeKeepsFrames ld) (fuel : Nat) (env : EnvId)
    (ident file : String) (pos : Pos) (s : State) :
    FExt s (endState (loadPop ld fuel env ident file pos s)) := by
  have h := loadModule_fext hN fuel env ident file pos (pushS s ident)
  have h0 : FExt s (pushS s ident) := fext_of_eq rfl rfl
  unfold loadPop
  revert h
  cases loadModule ld fuel env ident file pos (pushS s ident) with
  | ok e s2 => exact fun h => (h0.trans h).trans (fext_of_eq rfl rfl)
  | err v m p t s2 => exact fun h => (h0.trans h).trans (fext_of_eq rfl rfl)
  | fail f s2 => exact fun h => (h0.trans h).trans (fext_of_eq rfl rfl)

/-! ### stages 2–4 -/

theorem requireTail_ok_inv {ld : Loader} {fuel : Nat} {env : EnvId} {name : Option String} {unq : Bool}
    {syms : Option (List (String × String))} {pos : Pos} {ms : String} {s1 s' : State} {v : RVal}
    (h : requireTail ld fuel env name unq syms pos ms s1 = .ok v s') :
    v = .null ∧ s1.modstack.contains (identOf ms) = false ∧
    ∃ menv s2, loadPop ld fuel env (identOf ms) (fileOf ms) pos s1 = .ok menv s2 ∧
      s' = bindS env menv (boundName ms name) unq syms s2 := by
  unfold requireTail at h
  rw [bind_ok (getS_run s1)] at h
  by_cases hc : s1.modstack.contains (identOf ms) = true
  · rw [if_pos hc] at h; cases h
  · rw [if_neg hc] at h
    replace h : (loadPop ld fuel env (identOf ms) (fileOf ms) pos >>= fun menv => do
        modifyS (bindS env menv (boundName ms name) unq syms)
        pure RVal.null) s1 = _ := h
    rw [bind_def] at h
    cases hl : loadPop ld fuel env (identOf ms) (fileOf ms) pos s1 with
    | ok menv s2 =>
      rw [hl] at h
      have : (Out.ok RVal.null (bindS env menv (boundName ms name) unq syms s2) : Out RVal) = .ok v s' := h
      cases this
      exact ⟨rfl, by simpa using hc, menv, s2, rfl, rfl⟩
    | err v' m p t s2 => rw [hl] at h; cases h
    | fail f s2 => rw [hl] at h; cases h

theorem requireTail_err_inv {ld : Loader} {fuel : Nat} {env : EnvId} {name : Option String} {unq : Bool}
    {syms : Option (List (String × String))} {pos : Pos} {ms : String} {s1 s' : State}
    {v : RVal} {m : String} {p : Pos} {t : List (String × Pos)}
    (h : requireTail ld fuel env name unq syms pos ms s1 = .err v m p t s') :
    (s1.modstack.contains (identOf ms) = true ∧ s' = s1) ∨
    (s1.modstack.contains (identOf ms) = false ∧
      loadPop ld fuel env (identOf ms) (fileOf ms) pos s1 = .err v m p t s') := by
  unfold requireTail at h
  rw [bind_ok (getS_run s1)] at h
  by_cases hc : s1.modstack.contains (identOf ms) = true
  · rw [if_pos hc] at h
    have : (Out.err (RVal.str ['E', 'R', 'R', 'O', 'R'])
        ("Found circular module dependency (" ++ identOf ms ++ ")") pos [] s1 : Out RVal) = .err v m p t s' := h
    cases this
    exact Or.inl ⟨hc, rfl⟩
  · rw [if_neg hc] at h
    replace h : (loadPop ld fuel env (identOf ms) (fileOf ms) pos >>= fun menv => do
        modifyS (bindS env menv (boundName ms name) unq syms)
        pure RVal.null) s1 = _ := h
    rw [bind_def] at h
    cases hl : loadPop ld fuel env (identOf ms) (fileOf ms) pos s1 with
    | ok menv s2 => rw [hl] at h; cases h
    | err v' m' p' t' s2 =>
      rw [hl] at h
      have : (Out.err v' m' p' t' s2 : Out RVal) = .err v m p t s' := h
      cases this
      exact Or.inr ⟨by simpa using hc, rfl⟩
    | fail f s2 => rw [hl] at h; cases h

end Ckl.C11B
