/-
  C10 (sessions) — a failed call that changed nothing fails in the same way when repeated, and later
  calls behave as if the failed remainder had never run.

  The model's state carries ghost counters (`State.ghost`: block entries, finally runs, module
  evaluations; bookkeeping for C05 / C11 without counterpart in the implementation).  Every call
  that goes through a block changes them, so "the failed call left the state unchanged" can only
  hold up to these counters (and the output buffer, which every call resets).  That this is
  harmless is a theorem: no function of the evaluator reads the ghost counters
  (`eval_ghost_irrelevant`, by the simultaneous induction over the evaluator, `allR`).
-/
import CklVerif.Lemmas.C10SessGhostEval
import CklVerif.Proofs.C10Sess
namespace Ckl.C10S
open Ckl Ckl.C05

variable {ld : Loader}

/-! ### the unmodelled natives -/

theorem default_nativeGhostFree : NativeGhostFree {} := fun _ _ => R2.unsupported _

theorem nativeGhostFree_of_abstains {ld : Loader}
    (h : ∀ name args, ∃ w, ld.nativeSem name args = fun s => .fail (.unsupported w) s) :
    NativeGhostFree ld := by
  intro name args
  obtain ⟨w, hw⟩ := h name args
  rw [hw]; exact R2.unsupported w

/-! ### the ghost counters are write-only -/

/-- **eval_ghost_irrelevant.**  Evaluated from two states that agree on everything but the ghost
    counters, a node gives the same outcome — value, or error value, message, position and trace,
    or failure — in states that again agree on everything but the ghost counters. -/
theorem eval_ghost_irrelevant (hN : NativeGhostFree ld) (fuel : Nat) (env : EnvId) (n : Node)
    {s s' : State} (h : er s = er s') :
    erO (eval ld fuel env n s) = erO (eval ld fuel env n s') :=
  ((allR hN fuel).eval env n).run s s' h

theorem interpretProg_gi (hN : NativeGhostFree ld) (fuel : Nat) (senv : EnvId) (ast : Node) :
    GI (interpretProg ld fuel senv ast) := by
  have ih := (allR hN fuel).eval
  unfold interpretProg
  r2_auto

/-- two states agree on everything but the ghost counters and the output buffer -/
def SameButGhostOut (s s' : State) : Prop := er { s with out := [] } = er { s' with out := [] }

theorem SameButGhostOut.refl (s : State) : SameButGhostOut s s := rfl
theorem SameButGhostOut.symm {s s' : State} (h : SameButGhostOut s s') : SameButGhostOut s' s := Eq.symm h
theorem SameButGhostOut.trans {a b c : State} (h1 : SameButGhostOut a b) (h2 : SameButGhostOut b c) :
    SameButGhostOut a c := Eq.trans h1 h2
theorem SameButGhostOut.of_er {s s' : State} (h : er s = er s') : SameButGhostOut s s' := by
  unfold SameButGhostOut
  have := eq_wg_of_er h
  rw [this]; rfl

/-- a call from two such states has the same outcome, in states that agree on everything but the
    ghost counters -/
theorem session_step_ghost_irrelevant (hN : NativeGhostFree ld) (fuel : Nat) (senv : EnvId) (ast : Node)
    {s s' : State} (h : SameButGhostOut s s') :
    erO (Session.step ld fuel senv ast s) = erO (Session.step ld fuel senv ast s') :=
  (interpretProg_gi hN fuel senv ast).run _ _ h

/-! ### 5. a failed call repeated -/

/-- **failed_call_same_error_again** (full form).  A call fails from state `s` and leaves `s'`.
    If the failing program changed nothing before failing — precisely: `s'` and `s` agree on
    frames, heap, module cache, module load stack, native-instance counter and security mode, i.e.
    on everything except the ghost counters and the output buffer — then repeating the call from
    `s'` fails with the same error value, message, position and trace, and leaves a state `s''`
    that again agrees with `s'` (so the call can be repeated any number of times). -/
theorem failed_call_same_error_again_ghost (hN : NativeGhostFree ld) {fuel : Nat} {senv : EnvId}
    {ast : Node} {s s' : State} {v : RVal} {m : String} {p : Pos} {t : List (String × Pos)}
    (h : Session.step ld fuel senv ast s = .err v m p t s') (hsame : SameButGhostOut s' s) :
    ∃ s'', Session.step ld fuel senv ast s' = .err v m p t s'' ∧ er s'' = er s' := by
  have h1 := session_step_ghost_irrelevant hN fuel senv ast hsame
  rw [h] at h1
  cases hr : Session.step ld fuel senv ast s' with
  | ok a s2 => rw [hr] at h1; cases h1
  | fail k s2 => rw [hr] at h1; cases h1
  | err v' m' p' t' s2 =>
    rw [hr] at h1
    simp only [erO, Out.err.injEq] at h1
    obtain ⟨rfl, rfl, rfl, rfl, h5⟩ := h1
    exact ⟨s2, rfl, h5⟩

/-- the same for the other failures (syntax error of a required module, host exception, …) -/
theorem failed_call_same_failure_again_ghost (hN : NativeGhostFree ld) {fuel : Nat} {senv : EnvId}
    {ast : Node} {s s' : State} {k : Fail}
    (h : Session.step ld fuel senv ast s = .fail k s') (hsame : SameButGhostOut s' s) :
    ∃ s'', Session.step ld fuel senv ast s' = .fail k s'' ∧ er s'' = er s' := by
  have h1 := session_step_ghost_irrelevant hN fuel senv ast hsame
  rw [h] at h1
  cases hr : Session.step ld fuel senv ast s' with
  | ok a s2 => rw [hr] at h1; cases h1
  | err v' m' p' t' s2 => rw [hr] at h1; cases h1
  | fail k' s2 =>
    rw [hr] at h1
    simp only [erO, Out.fail.injEq] at h1
    obtain ⟨rfl, h5⟩ := h1
    exact ⟨s2, rfl, h5⟩

/-! ### later calls behave as if the failed remainder had never run -/

/-- a top-level block without handlers whose statements all run ends with the value of the last -/
theorem toplevel_block_success {F : Nat} {env : EnvId} {pre : List Node} (tl : Bool) (pos : Pos)
    {s s1 : State} {v : RVal}
    (hpre : RanAll ld F env pre (.bool true) (ghostEnter s pos) v s1) :
    eval ld (F+1) env (.block pre [] [] [] tl pos) s = .ok v (ghostFin s1 pos) := by
  obtain ⟨hlt, _⟩ := evalBody_append ld pre F env [] (.bool true) (ghostEnter s pos) v s1 hpre
  obtain ⟨g, rfl⟩ : ∃ g, F = g + 1 := ⟨F - 1, by omega⟩
  simp only [eval]
  rw [hpre.1]
  dsimp only
  rw [evalFinally_nil]

/-- **failed_remainder_never_ran.**  A program `pre; bad; post` is called; `pre` runs completely
    and `bad` fails without having changed anything (but ghost counters).  Then the state the failed
    call leaves agrees — on everything but the ghost counters — with the state that the program
    `pre` alone would have left; consequently every later call `q` has the same outcome after the
    failed call as it would have after `pre` alone. -/
theorem failed_remainder_never_ran (hN : NativeGhostFree ld) {F fuel : Nat} {senv : EnvId}
    {pre : List Node} {bad : Node} (post : List Node) (tl : Bool) (pos : Pos)
    {s s1 s2 : State} {v w : RVal} {m : String} {p : Pos} {t : List (String × Pos)}
    (hpre : RanAll ld F senv pre (.bool true) (ghostEnter s pos) v s1)
    (hbad : eval ld (F - pre.length - 1) senv bad s1 = .err w m p t s2)
    (hnothing : er s2 = er s1) :
    ∃ sFail sPre,
      eval ld (F+1) senv (.block (pre ++ bad :: post) [] [] [] tl pos) s = .err w m p t sFail ∧
      eval ld (F+1) senv (.block pre [] [] [] tl pos) s = .ok v sPre ∧
      er sFail = er sPre ∧
      ∀ q, erO (Session.step ld fuel senv q sFail) = erO (Session.step ld fuel senv q sPre) := by
  refine ⟨ghostFin s2 pos, ghostFin s1 pos, toplevel_block_failure post tl pos hpre hbad,
    toplevel_block_success tl pos hpre, ?_, fun q => ?_⟩
  · rw [er_ghostFin, er_ghostFin, hnothing]
  · exact session_step_ghost_irrelevant hN fuel senv q
      (SameButGhostOut.of_er (by rw [er_ghostFin, er_ghostFin, hnothing]))

/-! ### non-vacuity -/

section Examples
local macro "ev" : tactic => `(tactic| with_unfolding_all rfl)

example : NativeGhostFree {} := default_nativeGhostFree

/-- `error 'boom'` as a program of its own: a top-level block -/
def exBoomProg : Node := .block [exBoom] [] [] [] true {}

-- the failed call changes the ghost counters (and nothing else) …
#guard (match Session.step {} 9 1 exBoomProg exInit with
  | .err (.str ['b','o','o','m']) _ _ _ s' => s'.ghost.enter.length == 1 && exInit.ghost.enter.length == 0
  | _ => false)
example : ∃ s', Session.step {} 9 1 exBoomProg exInit = .err (.str ['b','o','o','m']) "" { line := 2 } [] s'
    ∧ SameButGhostOut s' exInit ∧ s' ≠ exInit :=
  ⟨_, by ev, by ev, by intro h; have := congrArg (fun s => s.ghost.enter.length) h; revert this; decide⟩
-- … and repeating it gives the same error
example : ∃ s'', Session.step {} 9 1 exBoomProg
      (stOf (Session.step {} 9 1 exBoomProg exInit)) = .err (.str ['b','o','o','m']) "" { line := 2 } [] s'' :=
  let ⟨s'', h, _⟩ := failed_call_same_error_again_ghost (s := exInit) default_nativeGhostFree
    (show Session.step {} 9 1 exBoomProg exInit = .err (.str ['b','o','o','m']) "" { line := 2 } [] _ by ev) (by ev)
  ⟨s'', h⟩

-- `def x = 1; error 'boom'; def y = 2` leaves what `def x = 1` alone leaves
example : ∃ sFail sPre,
    eval {} 5 1 exProg { exInit with out := [] } = .err (.str ['b','o','o','m']) "" { line := 2 } [] sFail ∧
    eval {} 5 1 (.block [exDefX] [] [] [] true {}) { exInit with out := [] } = .ok (.int 1) sPre ∧
    er sFail = er sPre ∧
    ∀ q, erO (Session.step {} 50 1 q sFail) = erO (Session.step {} 50 1 q sPre) :=
  failed_remainder_never_ran default_nativeGhostFree [exDefY] true {} exRanAll exBad rfl

example : erO (eval {} 9 1 exProg exInit) = erO (eval {} 9 1 exProg (ghostEnter exInit { line := 7 })) :=
  eval_ghost_irrelevant default_nativeGhostFree 9 1 exProg rfl

end Examples

end Ckl.C10S
