/-
  C12 helper lemmas: deep equality (`rveqF`) does not see the storage order of a set / map cell.
-/
import CklVerif.Lemmas.C12Reify
namespace Ckl

/-- comparison of two cells, given the comparison of their elements -/
def cellEq (f : RVal → RVal → Bool) : Option Cell → Option Cell → Bool
  | some (.list xs), some (.list ys) =>
      xs.length == ys.length && (xs.zip ys).all (fun p => f p.1 p.2)
  | some (.set xs), some (.set ys) =>
      xs.length == ys.length && xs.all (fun x => ys.any (fun y => f x y))
  | some (.map xs), some (.map ys) =>
      xs.length == ys.length &&
        xs.all (fun kv => ys.any (fun kv' => f kv.1 kv'.1 && f kv.2 kv'.2))
  | some (.obj xs _), some (.obj ys _) =>
      xs.length == ys.length &&
        xs.all (fun kv => ys.any (fun kv' => kv.1 == kv'.1 && f kv.2 kv'.2))
  | _, _ => false

theorem rveqF_ref_succ (h : Array Cell) (n a b : Nat) :
    rveqF h (n + 1) (.ref a) (.ref b) =
      if a == b then true else cellEq (rveqF h n) h[a]? h[b]? := by
  simp only [rveqF]
  split
  · rfl
  · cases h[a]? with
    | none => rfl
    | some c =>
      cases h[b]? with
      | none => cases c <;> rfl
      | some d => cases c <;> cases d <;> rfl

/-- cells that differ only in the storage order of a set / of a map -/
def CellPerm : Cell → Cell → Prop
  | .set xs, .set ys => xs.Perm ys
  | .map xs, .map ys => xs.Perm ys
  | _, _ => False

theorem cellEq_perm_left (f : RVal → RVal → Bool) {c c' : Cell} (hp : CellPerm c c') (d : Option Cell) :
    cellEq f (some c') d = cellEq f (some c) d := by
  cases c <;> cases c' <;> simp only [CellPerm] at hp
  · rcases d with _ | d
    · rfl
    · cases d <;> simp only [cellEq]
      rw [hp.length_eq, hp.all_eq]
  · rcases d with _ | d
    · rfl
    · cases d <;> simp only [cellEq]
      rw [hp.length_eq, hp.all_eq]

theorem cellEq_perm_right (f : RVal → RVal → Bool) {c c' : Cell} (hp : CellPerm c c') (d : Option Cell) :
    cellEq f d (some c') = cellEq f d (some c) := by
  cases c <;> cases c' <;> simp only [CellPerm] at hp
  · rcases d with _ | d
    · rfl
    · cases d <;> simp only [cellEq]
      rw [hp.length_eq]
      congr 2
      funext x
      exact hp.symm.any_eq
  · rcases d with _ | d
    · rfl
    · cases d <;> simp only [cellEq]
      rw [hp.length_eq]
      congr 2
      funext x
      exact hp.symm.any_eq

theorem rveqF_swap {h : Array Cell} {a : Nat} {c c' : Cell} (hc : h[a]? = some c) (hp : CellPerm c c') :
    ∀ (n : Nat) (u v : RVal), rveqF (h.setIfInBounds a c') n u v = rveqF h n u v := by
  have ha : a < h.size := by
    rcases Nat.lt_or_ge a h.size with h1 | h1
    · exact h1
    · rw [Array.getElem?_eq_none h1] at hc; cases hc
  intro n
  induction n with
  | zero => intro u v; cases u <;> cases v <;> simp [rveqF]
  | succ n ih =>
    intro u v
    cases u <;> cases v <;> try (simp [rveqF]; done)
    rename_i x y
    rw [rveqF_ref_succ, rveqF_ref_succ]
    have : rveqF (h.setIfInBounds a c') n = rveqF h n := by funext u v; exact ih u v
    rw [this]
    by_cases hxy : x = y
    · simp [hxy]
    · have hne : (x == y) = false := by simpa using hxy
      simp only [hne, Bool.false_eq_true, if_false]
      by_cases hx : x = a
      · subst hx
        rw [Array.getElem?_setIfInBounds_self_of_lt ha, hc,
          Array.getElem?_setIfInBounds_ne (fun e => hxy e), cellEq_perm_left _ hp]
      · rw [Array.getElem?_setIfInBounds_ne (Ne.symm hx)]
        by_cases hy : y = a
        · subst hy
          rw [Array.getElem?_setIfInBounds_self_of_lt ha, hc, cellEq_perm_right _ hp]
        · rw [Array.getElem?_setIfInBounds_ne (Ne.symm hy)]
end Ckl
