/-
  C14 (redundant parentheses) — "every production leaves a suffix of its input tokens":
  the token-only loops of `ParserBase.lean` (their own inductions), the case-split tactics, and the
  induction hypothesis `Suf k` (one field per production of the mutual block of `Parser.lean`,
  with the rank of its `termination_by`).
-/
import CklVerif.Lemmas.C14ParensSufBase
namespace Ckl.C14X
open Ckl Ckl.Parser

local notation "kw" => (some TokType.keyword)
local notation "ip" => (some TokType.interpunction)
local notation "op" => (some TokType.operator)
local notation "idt" => (some TokType.identifier)

set_option linter.unusedSimpArgs false
set_option linter.unusedVariables false

/-! ### case-split tactics -/

/-- case split on `matchIf`: first goal `none`, second goal `some ⟨s1, h1⟩` with `hs1 : s1.toks <:+ ts` -/
macro "smif " hs:term:max v:term:max ty:term:max " with " s1:ident h1:ident hs1:ident : tactic =>
  `(tactic| rcases matchIf_suf $hs $v $ty with e1 | ⟨⟨$s1:ident, $h1:ident⟩, e1, $hs1:ident⟩ <;> rw [e1] <;>
      (try dsimp only at $hs1:ident) <;> (try dsimp only))

macro "smif2 " hs:term:max v:term:max ty:term:max v2:term:max ty2:term:max " with "
    s1:ident h1:ident hs1:ident : tactic =>
  `(tactic| rcases matchIf2_suf $hs $v $ty $v2 $ty2 with e1 | ⟨⟨$s1:ident, $h1:ident⟩, e1, $hs1:ident⟩ <;>
      rw [e1] <;> (try dsimp only at $hs1:ident) <;> (try dsimp only))

/-- `smif` for `if b then st.matchIf v ty else none` -/
macro "smifg " b:term:max hs:term:max v:term:max ty:term:max " with " s1:ident h1:ident hs1:ident : tactic =>
  `(tactic| rcases matchIf_guard_suf $b $hs $v $ty with e1 | ⟨⟨$s1:ident, $h1:ident⟩, e1, $hs1:ident⟩ <;>
      rw [e1] <;> (try dsimp only at $hs1:ident) <;> (try dsimp only))

macro "smifg2 " b:term:max hs:term:max v:term:max ty:term:max v2:term:max ty2:term:max " with "
    s1:ident h1:ident hs1:ident : tactic =>
  `(tactic| rcases matchIf2_guard_suf $b $hs $v $ty $v2 $ty2 with
      e1 | ⟨⟨$s1:ident, $h1:ident⟩, e1, $hs1:ident⟩ <;>
      rw [e1] <;> (try dsimp only at $hs1:ident) <;> (try dsimp only))

/-- case split on a table of `matchIf` alternatives (`matchOpTable`, `isPredTable`, …) -/
macro "stab " t:term:max " with " fn:ident s1:ident h1:ident hs1:ident : tactic =>
  `(tactic| rcases ($t) with e1 | ⟨$fn:ident, ⟨$s1:ident, $h1:ident⟩, e1, $hs1:ident⟩ <;> rw [e1] <;>
      (try dsimp only at $hs1:ident) <;> (try dsimp only))

/-- destructure `matchWhat` -/
macro "swhat " hs:term:max " with " w:ident s1:ident h1:ident hs1:ident : tactic =>
  `(tactic| (have hw := matchWhat_suf $hs
             revert hw
             generalize matchWhat _ = mw
             obtain ⟨$w:ident, $s1:ident, $h1:ident⟩ := mw
             intro $hs1:ident
             (try dsimp only at $hs1:ident)
             (try dsimp only)))

/-- destructure `takeComment` -/
macro "scomment " hs:term:max " with " w:ident s1:ident h1:ident hs1:ident : tactic =>
  `(tactic| (have hw := takeComment_suf $hs
             revert hw
             generalize takeComment _ = mw
             obtain ⟨$w:ident, $s1:ident, $h1:ident⟩ := mw
             intro $hs1:ident
             (try dsimp only at $hs1:ident)
             (try dsimp only)))

/-- destructure `skipIf` -/
macro "sskip " hs:term:max v:term:max ty:term:max " with " s1:ident h1:ident hs1:ident : tactic =>
  `(tactic| (have hw := skipIf_suf $hs $v $ty
             revert hw
             generalize St.skipIf _ _ _ = mw
             obtain ⟨$s1:ident, $h1:ident⟩ := mw
             intro $hs1:ident
             (try dsimp only at $hs1:ident)
             (try dsimp only)))

/-! ### the loops that only look at tokens -/

theorem identListLoop_suf (c : Ctx) (ck : Bool) :
    ∀ (n : Nat) (st : St) (acc : List (List Char)) (ts : List Token), st.toks.length = n → st.toks <:+ ts →
      SufP (fun o => o.st.toks <:+ ts) (identListLoop c ck st acc) := by
  intro n
  induction n using Nat.strongRecOn with
  | _ n ih =>
    intro st acc ts hn hs
    rw [identListLoop.eq_1 c ck st acc]
    sif hb : st.peekn 1 c!"]" ip
    · sok hs
    · sb (next_suf hs) with t s1 h1 hs1
      cases ck <;> simp only [Bool.false_eq_true, if_false, if_true]
      · sany u2
        sbs (sepUnless_suf hs1 _) with s2 h2 hs2
        sb (ih s2.toks.length (by omega) s2 _ ts rfl hs2) with r s3 h3 hs3
        sok hs3
      · sany u1
        sany u2
        sbs (sepUnless_suf hs1 _) with s2 h2 hs2
        sb (ih s2.toks.length (by omega) s2 _ ts rfl hs2) with r s3 h3 hs3
        sok hs3

theorem forIdents_suf (c : Ctx) (st : St) {ts : List Token} (hs : st.toks <:+ ts) :
    SufP (fun o => o.st.toks <:+ ts) (forIdents c st) := by
  unfold forIdents
  smif hs c!"[" ip with sa ha hsa
  · sb (next_suf hs) with t sa ha hsa
    sany u1
    sok hsa
  · sb (identListLoop_suf c false _ sa [] ts rfl hsa) with ids sb hb hsb
    sbs (expect_suf hsb _ _) with sc hc hsc
    sok hsc

theorem requireSymLoop_suf :
    ∀ (n : Nat) (st : St) (acc : List (String × String)) (ts : List Token), st.toks.length = n →
      st.toks <:+ ts → SufP (fun o => o.st.toks <:+ ts) (requireSymLoop st acc) := by
  intro n
  induction n using Nat.strongRecOn with
  | _ n ih =>
    intro st acc ts hn hs
    rw [requireSymLoop.eq_1 st acc]
    sif hb : st.peekn 1 c!"]" ip
    · sok hs
    · sb (matchIdentifier_suf hs) with sym s1 h1 hs1
      smif hs1 c!"as" kw with s2 h2 hs2
      · sbs (sepUnless_suf hs1 _) with s4 h4 hs4
        sb (ih s4.toks.length (by omega) s4 _ ts rfl hs4) with r s5 h5 hs5
        sok hs5
      · sb (matchIdentifier_suf hs2) with name s3 h3 hs3
        sbs (sepUnless_suf hs3 _) with s4 h4 hs4
        sb (ih s4.toks.length (by omega) s4 _ ts rfl hs4) with r s5 h5 hs5
        sok hs5

theorem derefChain_suf :
    ∀ (n : Nat) (st : St) (fn : Node) (ts : List Token), st.toks.length = n → st.toks <:+ ts →
      SufP (fun o => o.st.toks <:+ ts) (derefChain st fn) := by
  intro n
  induction n using Nat.strongRecOn with
  | _ n ih =>
    intro st fn ts hn hs
    rw [derefChain.eq_1 st fn]
    smif hs c!"->" op with s1 h1 hs1
    · sok hs
    · sb (matchIdentifier_suf hs1) with name s2 h2 hs2
      sb (ih s2.toks.length (by omega) s2 _ ts rfl hs2) with r s3 h3 hs3
      sok hs3

/-! ### the induction hypothesis -/

/-- every production, run on a lexer state of measure `16 * (remaining tokens) + rank < k`, leaves a
    suffix of its input tokens -/
structure Suf (k : Nat) : Prop where
  pBareBlock : ∀ (c : Ctx) (toplevel : Bool) (st : St), st.toks.length * 16 + 12 < k →
    SufLt (pBareBlock c toplevel st) st.toks
  bareLoop : ∀ (c : Ctx) (st : St) (acc : List Node), st.toks.length * 16 + 0 < k →
    SufLe (bareLoop c st acc) st.toks
  pBlock : ∀ (c : Ctx) (st : St), st.toks.length * 16 + 0 < k → SufLt (pBlock c st) st.toks
  blockLoop : ∀ (c : Ctx) (st : St) (acc : List Node), st.toks.length * 16 + 12 < k →
    SufLe (blockLoop c st acc) st.toks
  catchLoop : ∀ (c : Ctx) (st : St) (errs handlers : List Node), st.toks.length * 16 + 0 < k →
    SufLe (catchLoop c st errs handlers) st.toks
  finallyLoop : ∀ (c : Ctx) (st : St) (acc : List Node), st.toks.length * 16 + 12 < k →
    SufLe (finallyLoop c st acc) st.toks
  pStatement : ∀ (c : Ctx) (st : St), st.toks.length * 16 + 11 < k → SufLt (pStatement c st) st.toks
  pDef : ∀ (c : Ctx) (comment : String) (st : St), st.toks.length * 16 + 0 < k →
    SufLt (pDef c comment st) st.toks
  pDefTail : ∀ (c : Ctx) (name : List Char) (comment : String) (pos : Pos) (st : St),
    st.toks.length * 16 + 1 < k → SufLt (pDefTail c name comment pos st) st.toks
  classLoop : ∀ (c : Ctx) (comment : String) (st : St) (acc : List Node), st.toks.length * 16 + 0 < k →
    SufLe (classLoop c comment st acc) st.toks
  pExpression : ∀ (c : Ctx) (st : St), st.toks.length * 16 + 10 < k → SufLt (pExpression c st) st.toks
  ifClause : ∀ (c : Ctx) (st : St), st.toks.length * 16 + 10 < k → SufLt (ifClause c st) st.toks
  ifLoop : ∀ (c : Ctx) (st : St) (conds es : List Node), st.toks.length * 16 + 0 < k →
    SufLe (ifLoop c st conds es) st.toks
  pOr : ∀ (c : Ctx) (st : St), st.toks.length * 16 + 9 < k → SufLt (pOr c st) st.toks
  orLoop : ∀ (c : Ctx) (st : St) (acc : List Node), st.toks.length * 16 + 0 < k →
    SufLe (orLoop c st acc) st.toks
  pAnd : ∀ (c : Ctx) (st : St), st.toks.length * 16 + 8 < k → SufLt (pAnd c st) st.toks
  andLoop : ∀ (c : Ctx) (st : St) (acc : List Node), st.toks.length * 16 + 0 < k →
    SufLe (andLoop c st acc) st.toks
  pNot : ∀ (c : Ctx) (st : St), st.toks.length * 16 + 7 < k → SufLt (pNot c st) st.toks
  pRel : ∀ (c : Ctx) (st : St), st.toks.length * 16 + 6 < k → SufLt (pRel c st) st.toks
  relLoop : ∀ (c : Ctx) (st : St) (lhs : Node) (acc : List Node), st.toks.length * 16 + 0 < k →
    SufLe (relLoop c st lhs acc) st.toks
  pAdd : ∀ (c : Ctx) (st : St), st.toks.length * 16 + 5 < k → SufLt (pAdd c st) st.toks
  addLoop : ∀ (c : Ctx) (st : St) (e : Node), st.toks.length * 16 + 0 < k →
    SufLe (addLoop c st e) st.toks
  pMul : ∀ (c : Ctx) (st : St), st.toks.length * 16 + 4 < k → SufLt (pMul c st) st.toks
  mulLoop : ∀ (c : Ctx) (st : St) (e : Node), st.toks.length * 16 + 0 < k →
    SufLe (mulLoop c st e) st.toks
  pUnary : ∀ (c : Ctx) (st : St), st.toks.length * 16 + 3 < k → SufLt (pUnary c st) st.toks
  pPred : ∀ (c : Ctx) (um : Bool) (st : St), st.toks.length * 16 + 2 < k → SufLt (pPred c um st) st.toks
  applyIsPred : ∀ (c : Ctx) (p : IsPred) (e : Node) (pos : Pos) (st : St), st.toks.length * 16 + 14 < k →
    SufLe (applyIsPred c p e pos st) st.toks
  pCollectMinMax : ∀ (c : Ctx) (fn : String) (e : Node) (pos : Pos) (st : St),
    st.toks.length * 16 + 13 < k → SufLe (pCollectMinMax c fn e pos st) st.toks
  optPrimary : ∀ (c : Ctx) (word : List Char) (dflt : Node) (st : St), st.toks.length * 16 + 12 < k →
    SufLe (optPrimary c word dflt st) st.toks
  pPrimary : ∀ (c : Ctx) (um : Bool) (st : St), st.toks.length * 16 + 1 < k →
    SufLt (pPrimary c um st) st.toks
  pPrimaryKw : ∀ (c : Ctx) (t : Token) (st : St), st.toks.length * 16 + 15 < k →
    SufLe (pPrimaryKw c t st) st.toks
  pListLiteral : ∀ (c : Ctx) (tpos : Pos) (st : St), st.toks.length * 16 + 11 < k →
    SufLt (pListLiteral c tpos st) st.toks
  listLoop : ∀ (c : Ctx) (st : St) (items : List Node) (pending : Option Node),
    st.toks.length * 16 + 0 < k → SufLe (listLoop c st items pending) st.toks
  comprClause : ∀ (c : Ctx) (st : St), st.toks.length * 16 + 0 < k → SufLt (comprClause c st) st.toks
  pComprRest : ∀ (c : Ctx) (kind : ComprKind) (multi : Bool) (closer : List Char) (tpos : Pos)
    (valueExpr keyExpr : Node) (st : St), st.toks.length * 16 + 1 < k →
    SufLt (pComprRest c kind multi closer tpos valueExpr keyExpr st) st.toks
  comprFinish : ∀ (c : Ctx) (mk : Node → Node) (closer : List Char) (st : St),
    st.toks.length * 16 + 0 < k → SufLt (comprFinish c mk closer st) st.toks
  pSetLiteral : ∀ (c : Ctx) (tpos : Pos) (st : St), st.toks.length * 16 + 11 < k →
    SufLt (pSetLiteral c tpos st) st.toks
  setLoop : ∀ (c : Ctx) (st : St) (items : List Node), st.toks.length * 16 + 11 < k →
    SufLe (setLoop c st items) st.toks
  pMapLiteral : ∀ (c : Ctx) (tpos : Pos) (st : St), st.toks.length * 16 + 11 < k →
    SufLt (pMapLiteral c tpos st) st.toks
  mapLoop : ∀ (c : Ctx) (st : St) (ks vs : List Node), st.toks.length * 16 + 11 < k →
    SufLe (mapLoop c st ks vs) st.toks
  pObjectLiteral : ∀ (c : Ctx) (tpos : Pos) (st : St), st.toks.length * 16 + 1 < k →
    SufLt (pObjectLiteral c tpos st) st.toks
  objLoop : ∀ (c : Ctx) (st : St) (ks : List String) (vs : List Node), st.toks.length * 16 + 0 < k →
    SufLe (objLoop c st ks vs) st.toks
  pFn : ∀ (c : Ctx) (pos : Pos) (st : St), st.toks.length * 16 + 0 < k → SufLt (pFn c pos st) st.toks
  paramsLoop : ∀ (c : Ctx) (st : St) (ps : List String) (ds : List Node), st.toks.length * 16 + 0 < k →
    SufLe (paramsLoop c st ps ds) st.toks
  invokeBody : ∀ (c : Ctx) (node : Node) (st : St), st.toks.length * 16 + 0 < k →
    SufLt (invokeBody c node st) st.toks
  argsLoop : ∀ (c : Ctx) (st : St) (names : List (Option String)) (args : List Node),
    st.toks.length * 16 + 11 < k → SufLt (argsLoop c st names args) st.toks
  derefArrow : ∀ (c : Ctx) (node : Node) (st : St), st.toks.length * 16 + 0 < k →
    SufLt (derefArrow c node st) st.toks
  derefBracket : ∀ (c : Ctx) (node : Node) (st : St), st.toks.length * 16 + 11 < k →
    SufLt (derefBracket c node st) st.toks
  postfixLoop : ∀ (c : Ctx) (allowCall allowDeref : Bool) (st : St) (node : Node),
    st.toks.length * 16 + 0 < k → SufLe (postfixLoop c allowCall allowDeref st node) st.toks

/-! ### the recurring `if peekn 1 "do" then pBlock else …` -/

theorem blockOrStmt_suf {k : Nat} (H : Suf k) (c : Ctx) (s : St) {ts : List Token} (hs : s.toks <:+ ts)
    (hk : s.toks.length * 16 + 11 < k) :
    SufP (fun o => o.st.toks <:+ ts) (if s.peekn 1 c!"do" kw then pBlock c s else pStatement c s) := by
  sif hb : s.peekn 1 c!"do" kw
  · exact SufLt.to (H.pBlock c s (by omega)) hs
  · exact SufLt.to (H.pStatement c s (by omega)) hs

theorem blockOrExpr_suf {k : Nat} (H : Suf k) (c : Ctx) (s : St) {ts : List Token} (hs : s.toks <:+ ts)
    (hk : s.toks.length * 16 + 10 < k) :
    SufP (fun o => o.st.toks <:+ ts) (if s.peekn 1 c!"do" kw then pBlock c s else pExpression c s) := by
  sif hb : s.peekn 1 c!"do" kw
  · exact SufLt.to (H.pBlock c s (by omega)) hs
  · exact SufLt.to (H.pExpression c s (by omega)) hs

end Ckl.C14X
