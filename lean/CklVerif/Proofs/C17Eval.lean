/-
  C17Eval — property C17 at the level of the evaluator model.

  "Every date value converts to a day number and back to the same date; the day number grows by exactly one per
   calendar day; int(date) and date(number) are inverse.  Adding or subtracting n days moves a date by n calendar
   days, so (d + n) - n == d and (d + n) - d == n, for every representable date including the first and last day of
   every year."

  Proofs/C17.lean proves this about the calendar functions of Model/Date.lean.  Here the same statements are proved
  about what the EVALUATOR computes: the built-ins `add`, `sub`, `less`, `int`, `date`, `decimal` as `callPure`
  dispatches them (sections 1–6), and the operator nodes `x + n`, `(x + n) - n`, `(x + n) - x` through `eval`
  (section 7); every theorem is derived from a theorem of Proofs/C17.lean (via Lemmas/C17Eval.lean).
  Section 8 runs concrete programs through scanner, parser and evaluator (`#guard`).

  Dates: `ValidDT D` — a valid calendar date from 1900-01-01 to 9999-12-31 with a time of day in whole
  milliseconds (everything the implementation's `to_date` can produce).  Day numbers: `dtDay D = toOaDay …`.
  A result is "in the calendar" when its day number lies in `[2, maxOaDay]` = [1900-01-01, 9999-12-31].
  No theorem is satisfied by an `unsupported` or out-of-fuel outcome: every conclusion names the `.ok` value
  (or, in section 6, the runtime error).
-/
import CklVerif.Lemmas.C17Eval
import CklVerif.Lemmas.C02SemCall
import CklVerif.Lemmas.C19SrcNat
import CklVerif.Proofs.C14EndToEnd
import CklVerif.Driver.EvalCmd
namespace Ckl.C17Eval
open Ckl Ckl.Date Ckl.C17 Ckl.C02S

/-- the result of the built-in `name` on the bound arguments `a`, `b`, started in `s` (what `callFn` runs) -/
def run2 (name : String) (a b : RVal) (pos : Pos) (s : State) : Option (Out RVal) :=
  (callPure name (args2 a b) none pos).map (fun m => m s)

/-- the result of the one-argument built-in `name` on `obj = v` -/
def run1 (name : String) (v : RVal) (pos : Pos) (s : State) : Option (Out RVal) :=
  (callPure name [("obj", v)] none pos).map (fun m => m s)

/-- `dtDay D + n` is a day of the calendar -/
def InCal (D : DT) (n : Int) : Prop := 2 ≤ (dtDay D : Int) + n ∧ (dtDay D : Int) + n ≤ maxOaDay

/-! ### 0. what `callPure` runs -/

theorem run2_add (a b : RVal) (pos : Pos) (s : State) : run2 "add" a b pos s = some (nativeAdd a b pos s) := by
  unfold run2 callPure; simp only [argGet_a, argGet_b, pure_bind, Option.map]

theorem run2_sub (a b : RVal) (pos : Pos) (s : State) : run2 "sub" a b pos s = some (nativeSub a b pos s) := by
  unfold run2 callPure; simp only [argGet_a, argGet_b, pure_bind, Option.map]

theorem run2_less (a b : RVal) (pos : Pos) (s : State) :
    run2 "less" a b pos s = some ((do pure (boolV (← cmpLt a b)) : EvalM RVal) s) := by
  unfold run2 callPure; simp only [argGet_a, argGet_b, pure_bind, Option.map]

theorem run1_date (v : RVal) (pos : Pos) (s : State) : run1 "date" v pos s = some (dateResM (asDateRes v) pos s) := by
  unfold run1
  rw [C14E.callPure_other (by decide), callDate_date]
  rfl

theorem run1_int_date (D : DT) (pos : Pos) (s : State) :
    run1 "int" (.date D) pos s = some (dateResM (dateAsInt D) pos s) := by
  unfold run1
  rw [C14E.callPure_other (by decide), callDate_int]
  rfl

theorem run1_decimal_date (D : DT) (pos : Pos) (s : State) :
    run1 "decimal" (.date D) pos s = some (dateResM (dateAsDecimal D) pos s) := by
  unfold run1
  rw [C14E.callPure_other (by decide), callDate_decimal]
  rfl

/-! ### 1. `d + n`, `d - n`: n calendar days later / earlier, same time of day -/

/-- **`d + n`** is the date `n` calendar days later (`C17.addDays`), again representable, with day number
    `int(d) + n`; the state is unchanged -/
theorem add_days {D : DT} (hv : ValidDT D) {n : Int} (hr : InCal D n) (pos : Pos) (s : State) :
    run2 "add" (.date D) (.int n) pos s = some (.ok (.date (shiftDT D n)) s) ∧
    ValidDT (shiftDT D n) ∧ (dtDay (shiftDT D n) : Int) = (dtDay D : Int) + n := by
  refine ⟨?_, shiftDT_valid hv hr.1 hr.2⟩
  rw [run2_add]
  show some (dateResM (dateShift D n) pos s) = _
  rw [dateShift_eq hv hr.1 hr.2]; rfl

/-- **`d - n`** is the date `n` calendar days earlier -/
theorem sub_days {D : DT} (hv : ValidDT D) {n : Int} (hr : InCal D (-n)) (pos : Pos) (s : State) :
    run2 "sub" (.date D) (.int n) pos s = some (.ok (.date (shiftDT D (-n))) s) ∧
    ValidDT (shiftDT D (-n)) ∧ (dtDay (shiftDT D (-n)) : Int) = (dtDay D : Int) - n := by
  obtain ⟨h1, h2⟩ := shiftDT_valid hv hr.1 hr.2
  refine ⟨?_, h1, by omega⟩
  rw [run2_sub]
  show some (dateResM (dateShift D (-n)) pos s) = _
  rw [dateShift_eq hv hr.1 hr.2]; rfl

/-- **`d + 1` is the next calendar day** (`Date.nextDay`: month ends, leap days, year ends), same time of day -/
theorem add_one_next_day {D : DT} (hv : ValidDT D) (hl : dtDay D < maxOaDay) (pos : Pos) (s : State) :
    run2 "add" (.date D) (.int 1) pos s =
      some (.ok (.date { D with y := (nextDay D.y D.mo D.d).1, mo := (nextDay D.y D.mo D.d).2.1,
                                d := (nextDay D.y D.mo D.d).2.2 }) s) := by
  have h0 := hv.two_le
  have hr : InCal D 1 := ⟨by omega, by have : (dtDay D : Int) < maxOaDay := Int.ofNat_lt.mpr hl; omega⟩
  rw [(add_days hv hr pos s).1, shiftDT_one hv]

/-- `d + 0 == d` -/
theorem add_zero {D : DT} (hv : ValidDT D) (pos : Pos) (s : State) :
    run2 "add" (.date D) (.int 0) pos s = some (.ok (.date D) s) := by
  have h0 := hv.two_le
  have hl : (dtDay D : Int) ≤ maxOaDay := Int.ofNat_le.mpr hv.last
  rw [(add_days hv ⟨by omega, by omega⟩ pos s).1, shiftDT_zero hv]

/-! ### 2. `(d + n) - n == d` and `(d + n) - d == n` -/

/-- **`(d + n) - n == d`**: `d + n` evaluates to a date `D'`, and `D' - n` evaluates to `d` itself (to the
    millisecond), for every representable `d` and every `n` that keeps `d + n` in the calendar -/
theorem add_then_sub {D : DT} (hv : ValidDT D) {n : Int} (hr : InCal D n) (pos pos' : Pos) (s : State) :
    ∃ D', run2 "add" (.date D) (.int n) pos s = some (.ok (.date D') s) ∧
          run2 "sub" (.date D') (.int n) pos' s = some (.ok (.date D) s) := by
  obtain ⟨h1, h2, h3⟩ := add_days hv hr pos s
  refine ⟨shiftDT D n, h1, ?_⟩
  have h0 := hv.two_le
  have hl : (dtDay D : Int) ≤ maxOaDay := Int.ofNat_le.mpr hv.last
  have hr' : InCal (shiftDT D n) (-n) := ⟨by rw [h3]; omega, by rw [h3]; omega⟩
  rw [(sub_days h2 hr' pos' s).1, shiftDT_shiftDT_neg hv hr.1]

/-- **`(d - n) + n == d`** -/
theorem sub_then_add {D : DT} (hv : ValidDT D) {n : Int} (hr : InCal D (-n)) (pos pos' : Pos) (s : State) :
    ∃ D', run2 "sub" (.date D) (.int n) pos s = some (.ok (.date D') s) ∧
          run2 "add" (.date D') (.int n) pos' s = some (.ok (.date D) s) := by
  obtain ⟨h1, h2, h3⟩ := sub_days hv hr pos s
  refine ⟨shiftDT D (-n), h1, ?_⟩
  have h0 := hv.two_le
  have hl : (dtDay D : Int) ≤ maxOaDay := Int.ofNat_le.mpr hv.last
  have hr' : InCal (shiftDT D (-n)) n := ⟨by rw [h3]; omega, by rw [h3]; omega⟩
  have := shiftDT_shiftDT_neg hv hr.1
  rw [Int.neg_neg] at this
  rw [(add_days h2 hr' pos' s).1, this]

/-- **`(d + n) - d == n`** (`date - date`: whole days between the two date-times) -/
theorem add_then_diff {D : DT} (hv : ValidDT D) {n : Int} (hr : InCal D n) (pos pos' : Pos) (s : State) :
    ∃ D', run2 "add" (.date D) (.int n) pos s = some (.ok (.date D') s) ∧
          run2 "sub" (.date D') (.date D) pos' s = some (.ok (.int n) s) := by
  refine ⟨shiftDT D n, (add_days hv hr pos s).1, ?_⟩
  rw [run2_sub]
  show some (dateResM (dateDiff (shiftDT D n) D) pos' s) = _
  rw [dateDiff_shift hv hr.1 hr.2]; rfl

/-- `d - (d + n) == -n` -/
theorem diff_then_add_rev {D : DT} (hv : ValidDT D) {n : Int} (hr : InCal D n) (pos : Pos) (s : State) :
    run2 "sub" (.date D) (.date (shiftDT D n)) pos s = some (.ok (.int (-n)) s) := by
  rw [run2_sub]
  show some (dateResM (dateDiff D (shiftDT D n)) pos s) = _
  rw [dateDiff_shift_rev hv hr.1 hr.2]; rfl

/-- `d1 - d2 == int(d1) - int(d2)` at midnight -/
theorem diff_midnight {A B : DT} (ha : ValidDT A) (hb : ValidDT B) (ma : Midnight A) (mb : Midnight B)
    (pos : Pos) (s : State) :
    run2 "sub" (.date A) (.date B) pos s = some (.ok (.int ((dtDay A : Int) - (dtDay B : Int))) s) := by
  rw [run2_sub]
  show some (dateResM (dateDiff A B) pos s) = _
  rw [dateDiff_midnight ha hb ma mb]; rfl

/-! ### 3. `int(date(k)) == k`, `date(int(d)) == d` -/

/-- `int(d)` is the day number (the time of day is truncated) -/
theorem int_of_date {D : DT} (hv : ValidDT D) (pos : Pos) (s : State) :
    run1 "int" (.date D) pos s = some (.ok (.int (dtDay D)) s) := by
  rw [run1_int_date]; unfold dateAsInt; rw [hv.millis]; rfl

/-- `date(k)` for a day number of the calendar: the date at midnight whose day number is `k` -/
theorem date_of_int {k : Int} (h2 : 2 ≤ k) (hk : k ≤ maxOaDay) (pos : Pos) (s : State) :
    run1 "date" (.int k) pos s = some (.ok (.date (ofDay k.toNat)) s) ∧
    ValidDT (ofDay k.toNat) ∧ Midnight (ofDay k.toNat) ∧ (dtDay (ofDay k.toNat) : Int) = k := by
  obtain ⟨v, m, e⟩ := ofDay_valid (k := k.toNat) (by omega) (by have : k ≤ 2958465 := hk; unfold maxOaDay; omega)
  refine ⟨?_, v, m, by rw [e]; omega⟩
  rw [run1_date, asDateRes_int h2 hk]; rfl

/-- **`int(date(k)) == k`** for every day number of the calendar (1900-01-01 … 9999-12-31) -/
theorem int_date_roundtrip {k : Int} (h2 : 2 ≤ k) (hk : k ≤ maxOaDay) (pos pos' : Pos) (s : State) :
    ∃ D', run1 "date" (.int k) pos s = some (.ok (.date D') s) ∧
          run1 "int" (.date D') pos' s = some (.ok (.int k) s) := by
  obtain ⟨h, v, _, e⟩ := date_of_int h2 hk pos s
  refine ⟨_, h, ?_⟩
  rw [int_of_date v, e]

/-- **`date(int(d)) == d`** for every representable date at midnight -/
theorem date_int_roundtrip {D : DT} (hv : ValidDT D) (hm : Midnight D) (pos pos' : Pos) (s : State) :
    run1 "int" (.date D) pos s = some (.ok (.int (dtDay D)) s) ∧
    run1 "date" (.int (dtDay D)) pos' s = some (.ok (.date D) s) := by
  refine ⟨int_of_date hv pos s, ?_⟩
  have h0 := hv.two_le
  have hl : (dtDay D : Int) ≤ maxOaDay := Int.ofNat_le.mpr hv.last
  rw [(date_of_int (k := dtDay D) (by omega) hl pos' s).1, Int.toNat_natCast, ofDay_dtDay hv,
    atMidnight_of_midnight hm]

/-- with a time of day: `date(int(d))` is `d` at midnight -/
theorem date_int_truncates {D : DT} (hv : ValidDT D) (pos : Pos) (s : State) :
    run1 "date" (.int (dtDay D)) pos s = some (.ok (.date (atMidnight D)) s) := by
  have h0 := hv.two_le
  have hl : (dtDay D : Int) ≤ maxOaDay := Int.ofNat_le.mpr hv.last
  rw [(date_of_int (k := dtDay D) (by omega) hl pos s).1, Int.toNat_natCast, ofDay_dtDay hv]

/-- `decimal(d)` at midnight is the day number as a decimal; `date(date)` is the date -/
theorem decimal_of_date {D : DT} (hm : Midnight D) (pos : Pos) (s : State) :
    run1 "decimal" (.date D) pos s = some (.ok (.dec (dtDay D) 0) s) := by
  rw [run1_decimal_date]; unfold dateAsDecimal
  rw [if_pos (show D.h = 0 ∧ D.mi = 0 ∧ D.s = 0 ∧ D.us = 0 from hm)]; rfl

theorem date_of_date (D : DT) (pos : Pos) (s : State) : run1 "date" (.date D) pos s = some (.ok (.date D) s) := by
  rw [run1_date]; rfl

/-! ### 4. the day number grows by exactly one per calendar day; order -/

/-- `int(d + 1) == int(d) + 1` -/
theorem int_succ {D : DT} (hv : ValidDT D) (hl : dtDay D < maxOaDay) (pos pos' : Pos) (s : State) :
    ∃ D', run2 "add" (.date D) (.int 1) pos s = some (.ok (.date D') s) ∧
          run1 "int" (.date D') pos' s = some (.ok (.int ((dtDay D : Int) + 1)) s) := by
  have h0 := hv.two_le
  have hr : InCal D 1 := ⟨by omega, by have : (dtDay D : Int) < maxOaDay := Int.ofNat_lt.mpr hl; omega⟩
  obtain ⟨h1, h2, h3⟩ := add_days hv hr pos s
  exact ⟨_, h1, by rw [int_of_date h2, h3]⟩

/-- **`d1 < d2 ↔ int(d1) < int(d2)`** for dates at midnight: `less` answers with the order of the day numbers -/
theorem less_iff_int_less {A B : DT} (ha : ValidDT A) (hb : ValidDT B) (ma : Midnight A) (mb : Midnight B)
    (pos : Pos) (s : State) :
    run2 "less" (.date A) (.date B) pos s = some (.ok (.bool (decide (dtDay A < dtDay B))) s) ∧
    run1 "int" (.date A) pos s = some (.ok (.int (dtDay A)) s) ∧
    run1 "int" (.date B) pos s = some (.ok (.int (dtDay B)) s) := by
  refine ⟨?_, int_of_date ha pos s, int_of_date hb pos s⟩
  rw [run2_less]
  show some (Out.ok (RVal.bool (A.lt B)) s) = _
  have := lt_midnight ha hb ma mb
  by_cases h : dtDay A < dtDay B
  · rw [this.2 h, decide_eq_true h]
  · have : A.lt B = false := by
      cases e : A.lt B with
      | false => rfl
      | true => exact absurd (this.1 e) h
    rw [this, decide_eq_false h]

/-! ### 5. the first and last day of every year -/

/-- the last day of a year plus one is the first day of the next year, and back -/
theorem year_end {y : Nat} {D : DT} (hv : ValidDT D) (hD : D.y = y ∧ D.mo = 12 ∧ D.d = 31)
    (hl : dtDay D < maxOaDay) (pos : Pos) (s : State) :
    run2 "add" (.date D) (.int 1) pos s = some (.ok (.date { D with y := y + 1, mo := 1, d := 1 }) s) := by
  rw [add_one_next_day hv hl]
  obtain ⟨e1, e2, e3⟩ := hD
  have hm : monthDays y 11 = 31 := by unfold monthDays; simp [daysPerMonth]
  have : nextDay D.y D.mo D.d = (y + 1, 1, 1) := by
    rw [e1, e2, e3]; unfold nextDay
    simp [hm]
  simp only [this]

/-! ### 6. outside the calendar: the runtime error `'ERROR'`, raised at the call position -/

def IsError (o : Out RVal) (pos : Pos) (s : State) : Prop :=
  ∃ msg, o = .err (.str ['E', 'R', 'R', 'O', 'R']) msg pos [] s

theorem dateResM_err (msg : String) (pos : Pos) (s : State) : IsError (dateResM (.err msg) pos s) pos s := ⟨msg, rfl⟩

/-- `d + n` before 1900-01-01 (for offsets the model answers: down to -10^8 days) -/
theorem add_below_calendar {D : DT} (hv : ValidDT D) {n : Int} (hn : -maxShift ≤ n) (h : (dtDay D : Int) + n < 2)
    (pos : Pos) (s : State) : ∃ o, run2 "add" (.date D) (.int n) pos s = some o ∧ IsError o pos s := by
  obtain ⟨msg, e⟩ := dateShift_below hv hn h
  refine ⟨_, run2_add _ _ _ _, ?_⟩
  show IsError (dateResM (dateShift D n) pos s) pos s
  rw [e]; exact dateResM_err _ _ _

/-- `d + n` after 9999-12-31 (up to 10^8 days) -/
theorem add_above_calendar {D : DT} (hv : ValidDT D) {n : Int} (hn : n ≤ maxShift) (h : (maxOaDay : Int) < (dtDay D : Int) + n)
    (pos : Pos) (s : State) : ∃ o, run2 "add" (.date D) (.int n) pos s = some o ∧ IsError o pos s := by
  obtain ⟨msg, e⟩ := dateShift_above hv hn h
  refine ⟨_, run2_add _ _ _ _, ?_⟩
  show IsError (dateResM (dateShift D n) pos s) pos s
  rw [e]; exact dateResM_err _ _ _

/-- `date(k)` for `k < 2` -/
theorem date_below_calendar {k : Int} (h : k < 2) (pos : Pos) (s : State) :
    ∃ o, run1 "date" (.int k) pos s = some o ∧ IsError o pos s := by
  obtain ⟨msg, e⟩ := asDateRes_int_below h
  refine ⟨_, run1_date _ _ _, ?_⟩
  rw [e]; exact dateResM_err _ _ _

/-- `int + date` is not date arithmetic: the runtime error -/
theorem int_plus_date_error (n : Int) (D : DT) (pos : Pos) (s : State) :
    ∃ o, run2 "add" (.int n) (.date D) pos s = some o ∧ IsError o pos s :=
  ⟨_, run2_add _ _ _ _, ⟨_, rfl⟩⟩

/-! ### 7. through `eval`: the operator nodes

  The parser turns `x + n` into the call `add(a = x, b = n)` (Proofs/C02Parse.lean).  `Operand X v`: the node `X`
  evaluates to `v` with any fuel ≥ 1 and leaves the state unchanged (an identifier bound to `v`, for instance). -/

section eval
variable (ld : Loader)

def Operand (env : EnvId) (s : State) (X : Node) (v : RVal) : Prop :=
  NotSpread X ∧ ∀ F, eval ld (F + 1) env X s = .ok v s

theorem operand_ident {env : EnvId} {s : State} {x : String} {p : Pos} {v : RVal} (h : s.lookup env x = some v) :
    Operand ld env s (.ident x p) v :=
  ⟨(fun _ _ h' => by cases h'), (fun _ => eval_ident_some ld h)⟩

/-- one operator call whose built-in succeeds -/
theorem eval_op2 {F : Nat} {env : EnvId} {fn : String} {inst : Nat} {p1 p2 : Pos} {x y : Node} {s : State}
    {va vb r : RVal}
    (hfn : s.lookup env fn = some (.native fn inst))
    (hnames : nativeArgNames fn = some ["a", "b"])
    (hx : NotSpread x) (hy : NotSpread y)
    (ex : eval ld (F + 2) env x s = .ok va s) (ey : eval ld (F + 1) env y s = .ok vb s)
    (hcall : callFn ld (F + 3) (.native fn inst) (args2 va vb) env p2 s = .ok r s) :
    eval ld (F + 5) env (.call (.ident fn p1) [some "a", some "b"] [x, y] p2) s = .ok r s := by
  rw [eval, EvalM.bind_apply, eval_ident_some ld hfn]
  simp only [RVal.isFunc, Bool.not_true, Bool.false_eq_true, if_false]
  rw [invoke, EvalM.bind_apply, evalArgs_cons ld _ _ _ _ _ _ _ hx, EvalM.bind_apply, ex]
  simp only []
  rw [EvalM.bind_apply, evalArgs_cons ld _ _ _ _ _ _ _ hy, EvalM.bind_apply, ey]
  simp only []
  rw [EvalM.bind_apply, evalArgs_nil, EvalM.pure_apply]
  simp only [EvalM.pure_apply, EvalM.bind_apply, getS, hnames, List.map_nil, List.nil_append, setArgs_ab, hcall]

theorem callFn_of_run2 {F : Nat} {name : String} {inst : Nat} {a b : RVal} {env : EnvId} {pos : Pos} {s : State}
    {o : Out RVal} (hd : div0Value s env = none) (h : run2 name a b pos s = some o) :
    callFn ld (F + 1) (.native name inst) (args2 a b) env pos s = o := by
  unfold run2 at h
  cases hm : callPure name (args2 a b) none pos with
  | none => rw [hm] at h; cases h
  | some m =>
    rw [hm] at h
    rw [callFn_native ld F name inst _ env pos s m (by rw [hd]; exact hm)]
    simpa using h

/-- **`x + n` through `eval`**: the date `n` calendar days later -/
theorem eval_add {F : Nat} {env : EnvId} {s : State} {inst : Nat} {X N : Node} {D : DT} {n : Int} {p1 p2 : Pos}
    (hadd : s.lookup env "add" = some (.native "add" inst)) (hd0 : div0Value s env = none)
    (hX : Operand ld env s X (.date D)) (hN : Operand ld env s N (.int n))
    (hv : ValidDT D) (hr : InCal D n) :
    eval ld (F + 5) env (.call (.ident "add" p1) [some "a", some "b"] [X, N] p2) s = .ok (.date (shiftDT D n)) s :=
  eval_op2 ld hadd rfl hX.1 hN.1 (hX.2 _) (hN.2 _) (callFn_of_run2 ld hd0 (add_days hv hr p2 s).1)

/-- **`(x + n) - n == x` through `eval`** -/
theorem eval_add_then_sub {F : Nat} {env : EnvId} {s : State} {i j : Nat} {X N : Node} {D : DT} {n : Int}
    {p1 p2 p3 p4 : Pos}
    (hadd : s.lookup env "add" = some (.native "add" i)) (hsub : s.lookup env "sub" = some (.native "sub" j))
    (hd0 : div0Value s env = none)
    (hX : Operand ld env s X (.date D)) (hN : Operand ld env s N (.int n))
    (hv : ValidDT D) (hr : InCal D n) :
    eval ld (F + 8) env
      (.call (.ident "sub" p3) [some "a", some "b"]
        [.call (.ident "add" p1) [some "a", some "b"] [X, N] p2, N] p4) s = .ok (.date D) s := by
  obtain ⟨D', h1, h2⟩ := add_then_sub hv hr p2 p4 s
  have e1 : D' = shiftDT D n := by
    have := (add_days hv hr p2 s).1
    rw [this] at h1; injection h1 with h1; injection h1 with h1; injection h1 with h1; exact h1.symm
  subst e1
  exact eval_op2 ld (F := F + 3) hsub rfl (fun _ _ h' => by cases h') hN.1
    (eval_add ld (F := F) hadd hd0 hX hN hv hr) (hN.2 _) (callFn_of_run2 ld hd0 h2)

/-- **`(x + n) - x == n` through `eval`** -/
theorem eval_add_then_diff {F : Nat} {env : EnvId} {s : State} {i j : Nat} {X N : Node} {D : DT} {n : Int}
    {p1 p2 p3 p4 : Pos}
    (hadd : s.lookup env "add" = some (.native "add" i)) (hsub : s.lookup env "sub" = some (.native "sub" j))
    (hd0 : div0Value s env = none)
    (hX : Operand ld env s X (.date D)) (hN : Operand ld env s N (.int n))
    (hv : ValidDT D) (hr : InCal D n) :
    eval ld (F + 8) env
      (.call (.ident "sub" p3) [some "a", some "b"]
        [.call (.ident "add" p1) [some "a", some "b"] [X, N] p2, X] p4) s = .ok (.int n) s := by
  obtain ⟨D', h1, h2⟩ := add_then_diff hv hr p2 p4 s
  have e1 : D' = shiftDT D n := by
    have := (add_days hv hr p2 s).1
    rw [this] at h1; injection h1 with h1; injection h1 with h1; injection h1 with h1; exact h1.symm
  subst e1
  exact eval_op2 ld (F := F + 3) hsub rfl (fun _ _ h' => by cases h') hX.1
    (eval_add ld (F := F) hadd hd0 hX hN hv hr) (hX.2 _) (callFn_of_run2 ld hd0 h2)

/-! one-parameter calls `int(x)`, `date(x)` -/

theorem setArgs_obj (v : RVal) (pos : Pos) (s : State) :
    setArgs ["obj"] [none] [v] pos s = .ok [("obj", v)] s :=
  C19Src.setArgs_pos1 (C19Src.addArgs_plain' _ (by decide))

/-- one call `fn(x)` of a one-parameter built-in that succeeds -/
theorem eval_op1 {F : Nat} {env : EnvId} {fn : String} {inst : Nat} {p1 p2 : Pos} {x : Node} {s : State}
    {va r : RVal}
    (hfn : s.lookup env fn = some (.native fn inst))
    (hnames : nativeArgNames fn = some ["obj"])
    (hx : NotSpread x)
    (ex : eval ld (F + 1) env x s = .ok va s)
    (hcall : callFn ld (F + 2) (.native fn inst) [("obj", va)] env p2 s = .ok r s) :
    eval ld (F + 4) env (.call (.ident fn p1) [none] [x] p2) s = .ok r s := by
  rw [eval, EvalM.bind_apply, eval_ident_some ld hfn]
  simp only [RVal.isFunc, Bool.not_true, Bool.false_eq_true, if_false]
  rw [invoke, EvalM.bind_apply, evalArgs_cons ld _ _ _ _ _ _ _ hx, EvalM.bind_apply, ex]
  simp only []
  rw [EvalM.bind_apply, evalArgs_nil, EvalM.pure_apply]
  simp only [EvalM.pure_apply, EvalM.bind_apply, getS, hnames, List.map_nil, List.nil_append, setArgs_obj, hcall]

theorem callFn_of_run1 {F : Nat} {name : String} {inst : Nat} {v : RVal} {env : EnvId} {pos : Pos} {s : State}
    {o : Out RVal} (hd : div0Value s env = none) (h : run1 name v pos s = some o) :
    callFn ld (F + 1) (.native name inst) [("obj", v)] env pos s = o := by
  unfold run1 at h
  cases hm : callPure name [("obj", v)] none pos with
  | none => rw [hm] at h; cases h
  | some m =>
    rw [hm] at h
    rw [callFn_native ld F name inst _ env pos s m (by rw [hd]; exact hm)]
    simpa using h

/-- **`int(date(k)) == k` through `eval`** -/
theorem eval_int_date {F : Nat} {env : EnvId} {s : State} {i j : Nat} {K : Node} {k : Int} {p1 p2 p3 p4 : Pos}
    (hint : s.lookup env "int" = some (.native "int" i)) (hdate : s.lookup env "date" = some (.native "date" j))
    (hd0 : div0Value s env = none) (hK : Operand ld env s K (.int k)) (h2 : 2 ≤ k) (hk : k ≤ maxOaDay) :
    eval ld (F + 7) env (.call (.ident "int" p3) [none] [.call (.ident "date" p1) [none] [K] p2] p4) s = .ok (.int k) s := by
  obtain ⟨D', h1, h3⟩ := int_date_roundtrip h2 hk p2 p4 s
  have e1 : eval ld (F + 4) env (.call (.ident "date" p1) [none] [K] p2) s = .ok (.date D') s :=
    eval_op1 ld hdate rfl hK.1 (hK.2 _) (callFn_of_run1 ld hd0 h1)
  exact eval_op1 ld (F := F + 3) hint rfl (fun _ _ h' => by cases h') e1 (callFn_of_run1 ld hd0 h3)

/-- **`date(int(x)) == x` through `eval`**, for a date at midnight -/
theorem eval_date_int {F : Nat} {env : EnvId} {s : State} {i j : Nat} {X : Node} {D : DT} {p1 p2 p3 p4 : Pos}
    (hint : s.lookup env "int" = some (.native "int" i)) (hdate : s.lookup env "date" = some (.native "date" j))
    (hd0 : div0Value s env = none) (hX : Operand ld env s X (.date D)) (hv : ValidDT D) (hm : Midnight D) :
    eval ld (F + 7) env (.call (.ident "date" p3) [none] [.call (.ident "int" p1) [none] [X] p2] p4) s = .ok (.date D) s := by
  obtain ⟨h1, h3⟩ := date_int_roundtrip hv hm p2 p4 s
  have e1 : eval ld (F + 4) env (.call (.ident "int" p1) [none] [X] p2) s = .ok (.int (dtDay D)) s :=
    eval_op1 ld hint rfl hX.1 (hX.2 _) (callFn_of_run1 ld hd0 h1)
  exact eval_op1 ld (F := F + 3) hdate rfl (fun _ _ h' => by cases h') e1 (callFn_of_run1 ld hd0 h3)

end eval

/-! ### non-vacuity: concrete representable dates satisfy the hypotheses (first and last day of the calendar, a leap
    day, the last millisecond of the last day) -/

def leapDay : DT := ⟨2024, 2, 29, 0, 0, 0, 0⟩
def firstDay : DT := ⟨1900, 1, 1, 0, 0, 0, 0⟩
def lastDay : DT := ⟨9999, 12, 31, 0, 0, 0, 0⟩
def lastMilli : DT := ⟨9999, 12, 31, 23, 59, 59, 999000⟩
def newYearsEve : DT := ⟨2023, 12, 31, 18, 30, 0, 0⟩

theorem dtDay_lastDay : dtDay lastDay = maxOaDay := by decide +kernel
theorem dtDay_firstDay : dtDay firstDay = 2 := by decide +kernel
theorem dtDay_leapDay : dtDay leapDay = 45351 := by decide +kernel

theorem valid_leapDay : ValidDT leapDay :=
  ⟨by decide, by rw [dtDay_leapDay]; decide, by decide, by decide, by decide, by decide, by decide⟩
theorem valid_firstDay : ValidDT firstDay :=
  ⟨by decide, by rw [dtDay_firstDay]; decide, by decide, by decide, by decide, by decide, by decide⟩
theorem valid_lastDay : ValidDT lastDay :=
  ⟨by decide, by rw [dtDay_lastDay], by decide, by decide, by decide, by decide, by decide⟩
theorem valid_lastMilli : ValidDT lastMilli :=
  ⟨by decide, by show dtDay lastDay ≤ maxOaDay; rw [dtDay_lastDay], by decide, by decide, by decide, by decide, by decide⟩
theorem valid_newYearsEve : ValidDT newYearsEve :=
  ⟨by decide, by show toOaDay 2023 12 31 ≤ maxOaDay; decide +kernel, by decide, by decide, by decide, by decide, by decide⟩

/-- hypotheses of `add_then_sub` / `add_then_diff` / `add_days`: the leap day 2024-02-29 and 366 days, the first day
    of the calendar and the whole calendar forward, the last millisecond and the whole calendar backward -/
example : ValidDT leapDay ∧ InCal leapDay 366 := ⟨valid_leapDay, by unfold InCal; rw [dtDay_leapDay]; decide⟩
example : ValidDT firstDay ∧ InCal firstDay 2958463 := ⟨valid_firstDay, by unfold InCal; rw [dtDay_firstDay]; decide⟩
example : ValidDT lastMilli ∧ InCal lastMilli (-2958463) :=
  ⟨valid_lastMilli, by unfold InCal; rw [show dtDay lastMilli = dtDay lastDay from rfl, dtDay_lastDay]; decide⟩
/-- hypotheses of `sub_days` / `sub_then_add` -/
example : ValidDT lastDay ∧ InCal lastDay (-(2958463 : Int)) :=
  ⟨valid_lastDay, by unfold InCal; rw [dtDay_lastDay]; decide⟩
/-- hypotheses of `add_one_next_day` / `int_succ` / `year_end` (a year end with a time of day) -/
example : ValidDT newYearsEve ∧ dtDay newYearsEve < maxOaDay ∧ (newYearsEve.y = 2023 ∧ newYearsEve.mo = 12 ∧ newYearsEve.d = 31) :=
  ⟨valid_newYearsEve, by show toOaDay 2023 12 31 < maxOaDay; decide +kernel, rfl, rfl, rfl⟩
/-- hypotheses of `int_date_roundtrip` / `date_of_int`: the first and the last day number -/
example : (2 : Int) ≤ 2 ∧ (2 : Int) ≤ maxOaDay ∧ (2 : Int) ≤ (maxOaDay : Int) ∧ ((maxOaDay : Nat) : Int) ≤ maxOaDay := by decide
/-- hypotheses of `date_int_roundtrip` / `less_iff_int_less` / `diff_midnight` -/
example : ValidDT firstDay ∧ Midnight firstDay ∧ ValidDT lastDay ∧ Midnight lastDay :=
  ⟨valid_firstDay, ⟨rfl, rfl, rfl, rfl⟩, valid_lastDay, ⟨rfl, rfl, rfl, rfl⟩⟩
/-- hypotheses of the error theorems -/
example : ValidDT lastDay ∧ (1 : Int) ≤ maxShift ∧ (maxOaDay : Int) < (dtDay lastDay : Int) + 1 :=
  ⟨valid_lastDay, by decide, by rw [dtDay_lastDay]; decide⟩
example : ValidDT firstDay ∧ -maxShift ≤ (-1 : Int) ∧ (dtDay firstDay : Int) + -1 < 2 :=
  ⟨valid_firstDay, by decide, by rw [dtDay_firstDay]; decide⟩

/-- the conclusion of `year_end` on 2023-12-31 18:30: 2024-01-01 18:30 -/
example (pos : Pos) (s : State) :
    run2 "add" (.date newYearsEve) (.int 1) pos s = some (.ok (.date ⟨2024, 1, 1, 18, 30, 0, 0⟩) s) :=
  year_end (y := 2023) valid_newYearsEve ⟨rfl, rfl, rfl⟩ (by show toOaDay 2023 12 31 < maxOaDay; decide +kernel) pos s

/-! ### 8. concrete programs through scanner, parser and evaluator (`#guard`: executed, not proofs)

  `parseScript` + `interpretProg` (`C14X.interpretSource`) in the session frame of an interpreter whose base frame binds
  the modelled built-ins and `date`, `int`, `decimal`; default loader (no interpretation of unmodelled natives). -/

def st0 : State := (initialState true (modelledNatives ++ ["date", "int", "decimal"])).1
def en0 : EnvId := (initialState true (modelledNatives ++ ["date", "int", "decimal"])).2

def runSrc (src : String) : Out RVal := C14X.interpretSource {} 300 en0 src.toList "f" st0

def isTrue (o : Out RVal) : Bool := match o with | .ok (.bool true) _ => true | _ => false
def isInt (o : Out RVal) (n : Int) : Bool := match o with | .ok (.int k) _ => k == n | _ => false
def isStr (o : Out RVal) (t : String) : Bool := match o with | .ok (.str x) _ => x == t.toList | _ => false
def isDate (o : Out RVal) (d : DT) : Bool := match o with | .ok (.date x) _ => x == d | _ => false
def isErr (o : Out RVal) (line : Nat) : Bool :=
  match o with | .err (.str x) _ p _ _ => x == "ERROR".toList && p.line == line | _ => false

-- (d + n) - n == d, (d + n) - d == n: leap day, first and last day of the calendar, with a time of day
#guard isTrue (runSrc "(date('20240229') + 366) - 366 == date('20240229')")
#guard isInt (runSrc "(date('20240229') + 366) - date('20240229')") 366
#guard isTrue (runSrc "(date('19000101') + 2958463) - 2958463 == date('19000101')")
#guard isDate (runSrc "date('19000101') + 2958463") lastDay
#guard isInt (runSrc "(date('19000101') + 2958463) - date('19000101')") 2958463
#guard isTrue (runSrc "(date('99991231235959') - 2958463) + 2958463 == date('99991231235959')")
#guard isInt (runSrc "date('99991231235959') - date('19000101235959')") 2958463
#guard isInt (runSrc "date('20240301000000') - date('20240228235959')") 1
#guard isInt (runSrc "date('20240228235959') - date('20240301000000')") (-1)
-- int / date / decimal
#guard isInt (runSrc "int(date(45000))") 45000
#guard isInt (runSrc "int(date('19000101'))") 2
#guard isInt (runSrc "int(date('99991231'))") 2958465
#guard isInt (runSrc "int(date('20240229123456'))") 45351
#guard isTrue (runSrc "date(int(date('99991231'))) == date('99991231')")
#guard isTrue (runSrc "date(2) == date('19000101') and date(2958465) == date('99991231')")
#guard isTrue (runSrc "decimal(date('20240229')) == 45351")
#guard isStr (runSrc "string(date(45351.5))") "20240229120000"
-- d + 1 is the next calendar day: year ends, leap days, century rule
#guard isStr (runSrc "string(date('20231231') + 1)") "20240101000000"
#guard isStr (runSrc "string(date('20240228') + 1)") "20240229000000"
#guard isStr (runSrc "string(date('21000228') + 1)") "21000301000000"
#guard isStr (runSrc "string(date('20000228') + 1)") "20000229000000"
#guard isStr (runSrc "string(date('20240101') - 1)") "20231231000000"
#guard isStr (runSrc "string(date('20231231183000') + 1)") "20240101183000"
#guard isStr (runSrc "string(date('2023123118') + 1)") "20240101180000"
-- order
#guard isTrue (runSrc "date('19991231') < date('20000101') and int(date('19991231')) < int(date('20000101'))")
#guard isTrue (runSrc "not (date('20000101') < date('19991231')) and date('20000101') >= date('19991231')")
-- outside the calendar, ill-formed texts, other operand kinds: the runtime error 'ERROR' on line 1
#guard isErr (runSrc "date('99991231') + 1") 1
#guard isErr (runSrc "date('19000101') - 1") 1
#guard isErr (runSrc "date(1)") 1
#guard isErr (runSrc "date(2958466)") 1
#guard isErr (runSrc "date('20230229')") 1
#guard isErr (runSrc "date('2023022')") 1
#guard isErr (runSrc "date('abcdefgh')") 1
#guard isErr (runSrc "1 + date('20240229')") 1
#guard isErr (runSrc "date('20240229') - NULL") 1
#guard isErr (runSrc "date(NULL)") 1
-- what stays outside the model is reported as such, never as a value
#guard (match runSrc "date('20240229') + 0.5" with | .fail (.unsupported _) _ => true | _ => false)
#guard (match runSrc "date('20240229') + 100000001" with | .fail (.unsupported _) _ => true | _ => false)
#guard (match runSrc "date()" with | .fail (.unsupported _) _ => true | _ => false)

end Ckl.C17Eval
