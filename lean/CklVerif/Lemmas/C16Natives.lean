/-
  C16: every modelled native other than the five documented mutators only allocates.
-/
import CklVerif.Lemmas.C16Alloc
namespace Ckl

/-- the documented mutators among the modelled natives -/
def mutators : List String := ["append", "insert_at", "delete_at", "remove", "put"]

set_option maxHeartbeats 400000 in
theorem Allocates.callPure (name : String) (args : List (String × RVal)) (div0 : Option RVal) (pos : Pos)
    (m : EvalM RVal) (hn : name ∉ mutators) (h : callPure name args div0 pos = some m) : Allocates m := by
  have := fun c => Allocates.collAsList c
  have := fun x p w => Allocates.floatResult x p w
  have := fun a b p => Allocates.nativeAdd a b p
  have := fun a b p => Allocates.nativeSub a b p
  have := fun a b p => Allocates.nativeMul a b p
  have := fun a b d p => Allocates.nativeDiv a b d p
  have := fun a b p => Allocates.nativeMod a b p
  have := fun a b => Allocates.cmpLt a b
  have := fun a b => Allocates.cmpGt a b
  have := fun a p => Allocates.asListArg a p
  have := fun a p => Allocates.asSetArg a p
  have := fun a => Allocates.listItems a
  have := fun a n p => Allocates.argGet a n p
  have := fun v p => Allocates.asStringM v p
  unfold Ckl.callPure at h
  dsimp only at h
  split at h <;> first
    | (exfalso; simp [mutators] at hn; done)
    | (injection h with h; subst h; alloc!)
    | (exact Allocates.callDate _ _ _ _ h)
    | (cases h)
end Ckl
