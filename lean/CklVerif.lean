import CklVerif.Model.Value
import CklVerif.Model.Coll
import CklVerif.Model.DecRepr
import CklVerif.Driver.Sexp
import CklVerif.Driver.Codec
import CklVerif.Driver.Basic
import CklVerif.Model.Date
import CklVerif.Model.Seq
