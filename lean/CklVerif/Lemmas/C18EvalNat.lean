/-
  C18Eval — the STRING natives of the evaluator model through `callPure`: `contains`, `starts_with`, `ends_with`,
  `chr`, `ord`, `string`, `add` (string + atomic value: the rendering), `greater_equals` / `add` on ints (needed by
  the consistency laws), for ANY argument table that binds the named parameters, any `DIV_0_VALUE`, any call
  position and any state.  One-step model equations only; their meaning is in `Proofs/C18Eval.lean`.
-/
import CklVerif.Lemmas.C15EvalNat
set_option linter.unusedSimpArgs false
namespace Ckl.C18Eval
open Ckl Ckl.C15Eval

/-- the text `string(v)` / `'…' + v` uses for an atomic value: strings and patterns as they are, ints, decimals,
    booleans and dates by `render` (the `__repr__` of the data value); `none` for NULL (its own case in every
    native) and for everything that is not atomic -/
def atomText : RVal → Option (List Char)
  | .str t => some t
  | .pat t => some t
  | .int n => some (render (.int n))
  | .dec m e => some (render (.dec m e))
  | .bool b => some (render (.bool b))
  | .date d => some (render (.date d))
  | _ => none

theorem atomText_isAtomic {v : RVal} {t : List Char} (h : atomText v = some t) : v.isAtomic = true := by
  cases v <;> first | rfl | simp [atomText] at h

theorem atomText_not_null {v : RVal} {t : List Char} (h : atomText v = some t) : v.isNull = false := by
  cases v <;> first | rfl | simp [atomText] at h

theorem asStringM_atom {v : RVal} {t : List Char} (h : atomText v = some t) (pos : Pos) (s : State) :
    asStringM v pos s = .ok t s := by
  cases v <;> simp only [atomText, Option.some.injEq, reduceCtorEq] at h <;> subst h <;> rfl

theorem cellOf_atom {v : RVal} {t : List Char} (h : atomText v = some t) (s : State) :
    cellOf v s = .ok none s := by
  cases v <;> first | rfl | simp [atomText] at h

section
variable {args : List (String × RVal)} {d0 : Option RVal} {pos : Pos} {m : EvalM RVal} {s : State}

/-! ### `contains` on strings -/

theorem contains_str {cs t : List Char}
    (h : callPure "contains" args d0 pos = some m)
    (h1 : dictGet "obj" args = some (.str cs)) (h2 : dictGet "part" args = some (.str t)) :
    m s = .ok (.bool (decide (0 ≤ Seq.find cs t 0))) s := by
  unfold callPure at h
  injection h with h; subst h
  simp only [argGet_of_dictGet pos h1, argGet_of_dictGet pos h2, pure_bind, dictHas_some h1]
  simp only [RVal.isNull, Bool.and_false, Bool.false_eq_true, if_false, EvalM.bind_apply, getS, cellOf,
    EvalM.pure_apply]
  rfl

/-- `contains(NULL, …)` is FALSE (whatever the part) -/
theorem contains_null
    (h : callPure "contains" args d0 pos = some m) (h1 : dictGet "obj" args = some .null) :
    m s = .ok (.bool false) s := by
  unfold callPure at h
  injection h with h; subst h
  simp only [argGet_of_dictGet pos h1, pure_bind, dictHas_some h1]
  simp only [RVal.isNull, Bool.and_true, if_true, EvalM.bind_apply, EvalM.pure_apply]
  rfl

/-- an atomic, non-string container is searched in its TEXT (`contains(1234, '23')`) -/
theorem contains_atom {o : RVal} {text t : List Char}
    (h : callPure "contains" args d0 pos = some m)
    (h1 : dictGet "obj" args = some o) (ho : atomText o = some text) (h2 : dictGet "part" args = some (.str t)) :
    m s = .ok (.bool (decide (0 ≤ Seq.find text t 0))) s := by
  unfold callPure at h
  injection h with h; subst h
  simp only [argGet_of_dictGet pos h1, argGet_of_dictGet pos h2, pure_bind, dictHas_some h1]
  simp only [atomText_not_null ho, Bool.and_false, Bool.false_eq_true, if_false, EvalM.bind_apply, getS,
    cellOf_atom ho, EvalM.pure_apply]
  cases o <;> simp only [atomText, Option.some.injEq, reduceCtorEq] at ho <;> subst ho <;> rfl

/-- the part is not a string: the runtime error naming its type -/
theorem contains_part_not_string {cs : List Char} {v : RVal}
    (h : callPure "contains" args d0 pos = some m)
    (h1 : dictGet "obj" args = some (.str cs)) (h2 : dictGet "part" args = some v) (hv : ∀ t, v ≠ .str t) :
    m s = .err ERR ("String required but got " ++ typeName s v) pos [] s := by
  unfold callPure at h
  injection h with h; subst h
  simp only [argGet_of_dictGet pos h1, argGet_of_dictGet pos h2, pure_bind, dictHas_some h1]
  simp only [RVal.isNull, Bool.and_false, Bool.false_eq_true, if_false, EvalM.bind_apply, getS, cellOf,
    EvalM.pure_apply]
  cases v <;> first | exact absurd rfl (hv _) | rfl

/-! ### `starts_with`, `ends_with` -/

theorem starts_with_str {cs t : List Char}
    (h : callPure "starts_with" args d0 pos = some m)
    (h1 : dictGet "str" args = some (.str cs)) (h2 : dictGet "part" args = some (.str t)) :
    m s = .ok (.bool (Seq.isPrefixB t cs)) s := by
  unfold callPure at h
  injection h with h; subst h
  simp only [argGet_of_dictGet pos h1, argGet_of_dictGet pos h2, pure_bind, dictHas_some h1]
  simp only [RVal.isNull, Bool.and_false, Bool.false_eq_true, if_false, EvalM.bind_apply, EvalM.pure_apply]
  rfl

theorem ends_with_str {cs t : List Char}
    (h : callPure "ends_with" args d0 pos = some m)
    (h1 : dictGet "str" args = some (.str cs)) (h2 : dictGet "part" args = some (.str t)) :
    m s = .ok (.bool (Seq.isPrefixB t.reverse cs.reverse)) s := by
  unfold callPure at h
  injection h with h; subst h
  simp only [argGet_of_dictGet pos h1, argGet_of_dictGet pos h2, pure_bind, dictHas_some h1]
  simp only [RVal.isNull, Bool.and_false, Bool.false_eq_true, if_false, EvalM.bind_apply, EvalM.pure_apply]
  rfl

theorem starts_with_null
    (h : callPure "starts_with" args d0 pos = some m) (h1 : dictGet "str" args = some .null) :
    m s = .ok (.bool false) s := by
  unfold callPure at h
  injection h with h; subst h
  simp only [argGet_of_dictGet pos h1, pure_bind, dictHas_some h1]
  simp only [RVal.isNull, Bool.and_true, if_true, EvalM.bind_apply, EvalM.pure_apply]
  rfl

theorem ends_with_null
    (h : callPure "ends_with" args d0 pos = some m) (h1 : dictGet "str" args = some .null) :
    m s = .ok (.bool false) s := by
  unfold callPure at h
  injection h with h; subst h
  simp only [argGet_of_dictGet pos h1, pure_bind, dictHas_some h1]
  simp only [RVal.isNull, Bool.and_true, if_true, EvalM.bind_apply, EvalM.pure_apply]
  rfl

/-- a non-string, non-NULL operand, or a non-string part: "String required" -/
theorem starts_with_not_string {v w : RVal}
    (h : callPure "starts_with" args d0 pos = some m)
    (h1 : dictGet "str" args = some v) (h2 : dictGet "part" args = some w) (hn : v ≠ .null)
    (hv : (∀ t, v ≠ .str t) ∨ (∀ t, w ≠ .str t)) :
    m s = .err ERR "String required" pos [] s := by
  unfold callPure at h
  injection h with h; subst h
  simp only [argGet_of_dictGet pos h1, argGet_of_dictGet pos h2, pure_bind, dictHas_some h1]
  rcases hv with hv | hv
  · cases v <;> first | exact absurd rfl hn | exact absurd rfl (hv _) | rfl
  · cases v <;> first | exact absurd rfl hn | (cases w <;> first | exact absurd rfl (hv _) | rfl)

theorem ends_with_not_string {v w : RVal}
    (h : callPure "ends_with" args d0 pos = some m)
    (h1 : dictGet "str" args = some v) (h2 : dictGet "part" args = some w) (hn : v ≠ .null)
    (hv : (∀ t, v ≠ .str t) ∨ (∀ t, w ≠ .str t)) :
    m s = .err ERR "String required" pos [] s := by
  unfold callPure at h
  injection h with h; subst h
  simp only [argGet_of_dictGet pos h1, argGet_of_dictGet pos h2, pure_bind, dictHas_some h1]
  rcases hv with hv | hv
  · cases v <;> first | exact absurd rfl hn | exact absurd rfl (hv _) | rfl
  · cases v <;> first | exact absurd rfl hn | (cases w <;> first | exact absurd rfl (hv _) | rfl)

/-! ### `chr`, `ord` -/

/-- the code points `chr` accepts: `range(0x110000)` without the surrogates -/
def ValidCode (n : Int) : Prop := 0 ≤ n ∧ n < 0x110000 ∧ ¬ (0xD800 ≤ n ∧ n < 0xE000)

instance (n : Int) : Decidable (ValidCode n) := by unfold ValidCode; exact inferInstance

theorem chr_valid {n : Int}
    (h : callPure "chr" args d0 pos = some m) (h1 : dictGet "n" args = some (.int n)) (hv : ValidCode n) :
    m s = .ok (.str [Char.ofNat n.toNat]) s := by
  unfold callPure at h
  injection h with h; subst h
  simp only [argGet_of_dictGet pos h1, pure_bind, dictHas_some h1]
  simp only [RVal.isNull, Bool.and_false, Bool.false_eq_true, if_false, EvalM.bind_apply, EvalM.pure_apply]
  unfold ValidCode at hv
  rw [if_pos hv]
  rfl

/-- outside `range(0x110000)`: EXACTLY the runtime error "chr failed: ValueError" -/
theorem chr_out_of_range {n : Int}
    (h : callPure "chr" args d0 pos = some m) (h1 : dictGet "n" args = some (.int n))
    (hv : n < 0 ∨ 0x110000 ≤ n) :
    m s = .err ERR "chr failed: ValueError" pos [] s := by
  unfold callPure at h
  injection h with h; subst h
  simp only [argGet_of_dictGet pos h1, pure_bind, dictHas_some h1]
  simp only [RVal.isNull, Bool.and_false, Bool.false_eq_true, if_false, EvalM.bind_apply, EvalM.pure_apply]
  rw [if_neg (by omega), if_neg (by omega)]
  rfl

/-- a surrogate code point: the MODEL abstains (Python builds a lone-surrogate string the model has no value for) -/
theorem chr_surrogate_abstains {n : Int}
    (h : callPure "chr" args d0 pos = some m) (h1 : dictGet "n" args = some (.int n))
    (hv : 0xD800 ≤ n ∧ n < 0xE000) :
    m s = .fail (.unsupported "lone surrogate") s := by
  unfold callPure at h
  injection h with h; subst h
  simp only [argGet_of_dictGet pos h1, pure_bind, dictHas_some h1]
  simp only [RVal.isNull, Bool.and_false, Bool.false_eq_true, if_false, EvalM.bind_apply, EvalM.pure_apply]
  rw [if_neg (by omega), if_pos hv]
  rfl

theorem chr_null
    (h : callPure "chr" args d0 pos = some m) (h1 : dictGet "n" args = some .null) :
    m s = .ok .null s := by
  unfold callPure at h
  injection h with h; subst h
  simp only [argGet_of_dictGet pos h1, pure_bind, dictHas_some h1]
  simp only [RVal.isNull, Bool.and_true, if_true, EvalM.bind_apply, EvalM.pure_apply]

theorem chr_not_int {v : RVal}
    (h : callPure "chr" args d0 pos = some m) (h1 : dictGet "n" args = some v)
    (hn : v ≠ .null) (hv : ∀ n, v ≠ .int n) :
    m s = .err ERR ("Int required but got " ++ typeName s v) pos [] s := by
  unfold callPure at h
  injection h with h; subst h
  simp only [argGet_of_dictGet pos h1, pure_bind, dictHas_some h1]
  cases v <;> first | exact absurd rfl hn | exact absurd rfl (hv _) | rfl

/-- `ord` of a non-empty string: the code point of its FIRST character -/
theorem ord_cons {c : Char} {cs : List Char}
    (h : callPure "ord" args d0 pos = some m) (h1 : dictGet "ch" args = some (.str (c :: cs))) :
    m s = .ok (.int c.toNat) s := by
  unfold callPure at h
  injection h with h; subst h
  simp only [argGet_of_dictGet pos h1, pure_bind, dictHas_some h1]
  simp only [RVal.isNull, Bool.and_false, Bool.false_eq_true, if_false, EvalM.bind_apply, EvalM.pure_apply]

/-- `ord('')`: EXACTLY the runtime error "ord failed: IndexError" -/
theorem ord_empty
    (h : callPure "ord" args d0 pos = some m) (h1 : dictGet "ch" args = some (.str [])) :
    m s = .err ERR "ord failed: IndexError" pos [] s := by
  unfold callPure at h
  injection h with h; subst h
  simp only [argGet_of_dictGet pos h1, pure_bind, dictHas_some h1]
  simp only [RVal.isNull, Bool.and_false, Bool.false_eq_true, if_false, EvalM.bind_apply, EvalM.pure_apply]
  rfl

theorem ord_null
    (h : callPure "ord" args d0 pos = some m) (h1 : dictGet "ch" args = some .null) :
    m s = .ok .null s := by
  unfold callPure at h
  injection h with h; subst h
  simp only [argGet_of_dictGet pos h1, pure_bind, dictHas_some h1]
  simp only [RVal.isNull, Bool.and_true, if_true, EvalM.bind_apply, EvalM.pure_apply]

theorem ord_not_string {v : RVal}
    (h : callPure "ord" args d0 pos = some m) (h1 : dictGet "ch" args = some v)
    (hn : v ≠ .null) (hv : ∀ t, v ≠ .str t) :
    m s = .err ERR ("String required but got " ++ typeName s v) pos [] s := by
  unfold callPure at h
  injection h with h; subst h
  simp only [argGet_of_dictGet pos h1, pure_bind, dictHas_some h1]
  cases v <;> first | exact absurd rfl hn | exact absurd rfl (hv _) | rfl

/-! ### `string` -/

theorem string_atom {v : RVal} {t : List Char}
    (h : callPure "string" args d0 pos = some m) (h1 : dictGet "obj" args = some v) (hv : atomText v = some t) :
    m s = .ok (.str t) s := by
  unfold callPure at h
  injection h with h; subst h
  simp only [argGet_of_dictGet pos h1, pure_bind]
  simp only [EvalM.bind_apply, asStringM_atom hv, EvalM.pure_apply]

/-- `string(NULL)` is the EMPTY string -/
theorem string_null
    (h : callPure "string" args d0 pos = some m) (h1 : dictGet "obj" args = some .null) :
    m s = .ok (.str []) s := by
  unfold callPure at h
  injection h with h; subst h
  simp only [argGet_of_dictGet pos h1, pure_bind]
  rfl

/-- a container cell or a function: the rendering `rrender` (lists, sets, maps as `render` of the data value —
    C06Eval's `rrender_bridge`) -/
theorem string_rrender {v : RVal} {t : List Char}
    (h : callPure "string" args d0 pos = some m) (h1 : dictGet "obj" args = some v)
    (hk : (∃ a, v = .ref a) ∨ (∃ a, v = .closure a) ∨ (∃ nm i, v = .native nm i))
    (hr : rrender s v = some t) :
    m s = .ok (.str t) s := by
  unfold callPure at h
  injection h with h; subst h
  simp only [argGet_of_dictGet pos h1, pure_bind]
  rcases hk with ⟨a, rfl⟩ | ⟨a, rfl⟩ | ⟨nm, i, rfl⟩ <;>
    simp only [EvalM.bind_apply, asStringM, getS, hr, EvalM.pure_apply]

/-! ### `add`: string + atomic value, atomic value + string, ints; `greater_equals` on ints -/

/-- `'…' + v` for an atomic non-NULL `v`: concatenation with the TEXT of `v` -/
theorem add_str_atom {x t : List Char} {v : RVal}
    (h : callPure "add" args d0 pos = some m)
    (h1 : dictGet "a" args = some (.str x)) (h2 : dictGet "b" args = some v) (hv : atomText v = some t) :
    m s = .ok (.str (x ++ t)) s := by
  unfold callPure at h
  injection h with h; subst h
  simp only [argGet_of_dictGet pos h1, argGet_of_dictGet pos h2, pure_bind]
  unfold nativeAdd
  cases v <;> simp only [atomText, Option.some.injEq, reduceCtorEq] at hv <;> subst hv <;> rfl

/-- `v + '…'` for an atomic non-NULL `v` -/
theorem add_atom_str {y t : List Char} {v : RVal}
    (h : callPure "add" args d0 pos = some m)
    (h1 : dictGet "a" args = some v) (h2 : dictGet "b" args = some (.str y)) (hv : atomText v = some t) :
    m s = .ok (.str (t ++ y)) s := by
  unfold callPure at h
  injection h with h; subst h
  simp only [argGet_of_dictGet pos h1, argGet_of_dictGet pos h2, pure_bind]
  unfold nativeAdd
  cases v <;> simp only [atomText, Option.some.injEq, reduceCtorEq] at hv <;> subst hv <;> rfl

/-- `'…' + NULL` (and `NULL + '…'`) is NULL, not a string -/
theorem add_str_null {x : List Char}
    (h : callPure "add" args d0 pos = some m)
    (h1 : dictGet "a" args = some (.str x)) (h2 : dictGet "b" args = some .null) :
    m s = .ok .null s := by
  unfold callPure at h
  injection h with h; subst h
  simp only [argGet_of_dictGet pos h1, argGet_of_dictGet pos h2, pure_bind]
  rfl

theorem add_null_str {y : List Char}
    (h : callPure "add" args d0 pos = some m)
    (h1 : dictGet "a" args = some .null) (h2 : dictGet "b" args = some (.str y)) :
    m s = .ok .null s := by
  unfold callPure at h
  injection h with h; subst h
  simp only [argGet_of_dictGet pos h1, argGet_of_dictGet pos h2, pure_bind]
  rfl

theorem add_int_int {x y : Int}
    (h : callPure "add" args d0 pos = some m)
    (h1 : dictGet "a" args = some (.int x)) (h2 : dictGet "b" args = some (.int y)) :
    m s = .ok (.int (x + y)) s := by
  unfold callPure at h
  injection h with h; subst h
  simp only [argGet_of_dictGet pos h1, argGet_of_dictGet pos h2, pure_bind]
  rfl

theorem greater_equals_int {x y : Int}
    (h : callPure "greater_equals" args d0 pos = some m)
    (h1 : dictGet "a" args = some (.int x)) (h2 : dictGet "b" args = some (.int y)) :
    m s = .ok (.bool (decide (y ≤ x))) s := by
  unfold callPure at h
  injection h with h; subst h
  simp only [argGet_of_dictGet pos h1, argGet_of_dictGet pos h2, pure_bind]
  have : (cmpLt (.int x) (.int y)) s = .ok (decide (x < y)) s := by
    simp only [cmpLt, EvalM.bind_apply, getS, rvlt, reify, reifyF, Option.bind_eq_bind, Option.bind_some,
      Option.pure_def, vlt, vltWith, EvalM.pure_apply]
  simp only [EvalM.bind_apply, this, EvalM.pure_apply, boolV]
  congr 2
  by_cases hxy : x < y <;> simp [hxy] <;> omega

end
end Ckl.C18Eval
