/-
  C08 (full data literals) — value-level facts about data values in canonical form: `==` is
  syntactic equality on them, `<` is asymmetric on all values, `mkSet` / `mkMap` leave a
  canonical element list / entry list unchanged.
-/
import CklVerif.Lemmas.C08FullDefs
import CklVerif.Lemmas.C06Coll
import CklVerif.Lemmas.C07Val
namespace Ckl.C08F
open Ckl Ckl.C08

variable (dr : DecRenderer)

/-! ### `==` on data values is syntactic equality -/

mutual
  theorem veq_eq_of_data : ∀ a b : Val, IsData' dr a → IsData' dr b → veq a b = true → a = b
    | .null, b, _, hb, h => by cases b <;> simp [veq] at h ⊢
    | .bool x, b, _, hb, h => by cases b <;> simp [veq] at h ⊢; exact h
    | .int x, b, _, hb, h => by
      cases b <;> simp [veq] at h ⊢
      · exact h
      · simp [IsData'] at hb
    | .str x, b, _, hb, h => by cases b <;> simp [veq] at h ⊢; exact h
    | .list xs, b, ha, hb, h => by
      cases b with
      | list ys =>
        simp only [veq] at h
        simp only [IsData'] at ha hb
        rw [veqL_eq_of_data xs ys ha hb h]
      | _ => simp [veq] at h
    | .set xs, b, ha, hb, h => by
      cases b with
      | set ys =>
        simp only [veq] at h
        simp only [IsData'] at ha hb
        rw [veqL_eq_of_data xs ys ha.1 hb.1 h]
      | _ => simp [veq] at h
    | .map xs, b, ha, hb, h => by
      cases b with
      | map ys =>
        simp only [veq] at h
        simp only [IsData'] at ha hb
        rw [veqM_eq_of_data xs ys ha.1 hb.1 h]
      | _ => simp [veq] at h
    | .dec _ _, _, ha, _, _ => by simp [IsData'] at ha
    | .pat _, _, ha, _, _ => by simp [IsData'] at ha
    | .date _, _, ha, _, _ => by simp [IsData'] at ha
  theorem veqL_eq_of_data : ∀ xs ys : List Val, IsDataL' dr xs → IsDataL' dr ys →
      veqL xs ys = true → xs = ys
    | [], [], _, _, _ => rfl
    | [], _ :: _, _, _, h => by simp [veqL] at h
    | _ :: _, [], _, _, h => by simp [veqL] at h
    | x :: xs, y :: ys, ha, hb, h => by
      simp only [IsDataL'] at ha hb
      simp only [veqL, Bool.and_eq_true] at h
      rw [veq_eq_of_data x y ha.1 hb.1 h.1, veqL_eq_of_data xs ys ha.2 hb.2 h.2]
  theorem veqM_eq_of_data : ∀ xs ys : List (Val × Val), IsDataM' dr xs → IsDataM' dr ys →
      veqM xs ys = true → xs = ys
    | [], [], _, _, _ => rfl
    | [], _ :: _, _, _, h => by simp [veqM] at h
    | _ :: _, [], _, _, h => by simp [veqM] at h
    | (k, v) :: xs, (k', v') :: ys, ha, hb, h => by
      simp only [IsDataM'] at ha hb
      simp only [veqM, Bool.and_eq_true] at h
      rw [veq_eq_of_data k k' ha.2.1 hb.2.1 h.1.1, veq_eq_of_data v v' ha.2.2.1 hb.2.2.1 h.1.2,
        veqM_eq_of_data xs ys ha.2.2.2 hb.2.2.2 h.2]
end

/-- different data values are not `==` -/
theorem veq_false_of_ne {a b : Val} (ha : IsData' dr a) (hb : IsData' dr b) (h : a ≠ b) :
    veq a b = false := by
  cases hv : veq a b with
  | false => rfl
  | true => exact absurd (veq_eq_of_data dr a b ha hb hv) h

/-- `a < b` excludes `a = b` -/
theorem ne_of_vlt {a b : Val} (h : vltWith dr a b = true) : a ≠ b := by
  intro e; subst e; rw [vlt_irrefl_all] at h; cases h

/-! ### `<` is asymmetric on all values -/

theorem strLt_asymm : ∀ {a b : List Char}, strLt a b = true → strLt b a = false
  | [], [], _ => rfl
  | [], _ :: _, _ => rfl
  | _ :: _, [], h => by simp [strLt] at h
  | x :: xs, y :: ys, h => by
    simp only [strLt] at h ⊢
    by_cases h1 : x.toNat < y.toNat
    · have h2 : ¬ y.toNat < x.toNat := by omega
      simp [h1, h2]
    · by_cases h2 : y.toNat < x.toNat
      · simp [h1, h2] at h
      · simp only [h1, h2, if_false] at h ⊢
        exact strLt_asymm h

theorem natListLt_asymm : ∀ {a b : List Nat}, natListLt a b = true → natListLt b a = false
  | [], [], _ => rfl
  | [], _ :: _, _ => rfl
  | _ :: _, [], h => by simp [natListLt] at h
  | x :: xs, y :: ys, h => by
    simp only [natListLt] at h ⊢
    by_cases h1 : x < y
    · have h2 : ¬ y < x := by omega
      simp [h1, h2]
    · by_cases h2 : y < x
      · simp [h1, h2] at h
      · simp only [h1, h2, if_false] at h ⊢
        exact natListLt_asymm h

theorem numLt_asymm {a : Int} {p : Nat} {b : Int} {q : Nat} (h : numLt a p b q = true) :
    numLt b q a p = false := by
  simp only [numLt, decide_eq_true_eq, decide_eq_false_iff_not] at h ⊢
  exact Int.not_lt.mpr (Int.le_of_lt h)

mutual
  theorem vlt_asymm_all : ∀ a b : Val, vltWith dr a b = true → vltWith dr b a = false
    | .null, b, h => by cases b <;> simp only [vltWith] at h ⊢ <;> exact strLt_asymm h
    | .bool x, b, h => by
      cases b <;> simp only [vltWith] at h ⊢ <;> first | exact strLt_asymm h | skip
      revert h; cases x <;> rename_i y <;> cases y <;> decide
    | .int x, b, h => by
      cases b <;> simp only [vltWith] at h ⊢ <;> first | exact strLt_asymm h | exact numLt_asymm h | skip
      simp only [decide_eq_true_eq, decide_eq_false_iff_not] at h ⊢; omega
    | .dec m e, b, h => by
      cases b <;> simp only [vltWith] at h ⊢ <;> first | exact strLt_asymm h | exact numLt_asymm h
    | .str x, b, h => by cases b <;> simp only [vltWith] at h ⊢ <;> exact strLt_asymm h
    | .pat x, b, h => by cases b <;> simp only [vltWith] at h ⊢ <;> exact strLt_asymm h
    | .date x, b, h => by
      cases b <;> simp only [vltWith] at h ⊢ <;> first | exact strLt_asymm h | skip
      exact natListLt_asymm h
    | .list xs, b, h => by
      cases b <;> simp only [vltWith] at h ⊢ <;> first | exact strLt_asymm h | skip
      exact vltL_asymm_all xs _ h
    | .set x, b, h => by cases b <;> simp only [vltWith] at h ⊢ <;> exact strLt_asymm h
    | .map x, b, h => by cases b <;> simp only [vltWith] at h ⊢ <;> exact strLt_asymm h
  theorem vltL_asymm_all : ∀ xs ys : List Val, vltL dr xs ys = true → vltL dr ys xs = false
    | [], [], _ => rfl
    | [], _ :: _, _ => by simp [vltL]
    | _ :: _, [], h => by simp [vltL] at h
    | x :: xs, y :: ys, h => by
      simp only [vltL] at h ⊢
      rw [veq_symm' y x]
      cases hxy : veq x y with
      | true =>
        rw [hxy] at h
        simp only [↓reduceIte] at h ⊢
        exact vltL_asymm_all xs ys h
      | false =>
        rw [hxy] at h
        simp only [Bool.false_eq_true, ↓reduceIte] at h ⊢
        exact vlt_asymm_all x y h
end

/-! ### canonical element lists are fixed points of `mkSet` / `mkMap` -/

theorem sortBy_of_pairwise {α} (lt : α → α → Bool) :
    ∀ {xs : List α}, xs.Pairwise (fun a b => lt a b = true) → sortBy lt xs = xs
  | [], _ => rfl
  | [x], _ => rfl
  | x :: y :: ys, h => by
    rw [List.pairwise_cons] at h
    rw [sortBy, sortBy_of_pairwise lt h.2, insertBy, if_pos (h.1 y (by simp))]

theorem pairwise_veq_of_vlt {xs : List Val} (hd : IsDataL' dr xs)
    (h : xs.Pairwise (fun a b => vltWith dr a b = true)) :
    xs.Pairwise (fun a b => veq a b = false) := by
  induction xs with
  | nil => exact List.Pairwise.nil
  | cons x xs ih =>
    simp only [IsDataL'] at hd
    rw [List.pairwise_cons] at h ⊢
    refine ⟨fun y hy => ?_, ih hd.2 h.2⟩
    have hyd : IsData' dr y := by
      clear ih h
      induction xs with
      | nil => simp at hy
      | cons z zs ih2 =>
        simp only [IsDataL'] at hd
        rcases List.mem_cons.mp hy with rfl | hy'
        · exact hd.2.1
        · exact ih2 ⟨hd.1, hd.2.2⟩ hy'
    exact veq_false_of_ne dr hd.1 hyd (ne_of_vlt dr (h.1 y hy))

/-- **mkSet_canon**: a canonical element list is what `mkSet` produces from it -/
theorem mkSet_canon {xs : List Val} (h : IsData' dr (.set xs)) : mkSet dr xs = .set xs := by
  simp only [IsData'] at h
  rw [mkSet, dedup_of_pairwise (pairwise_veq_of_vlt dr h.1 h.2), sortedItems,
    sortBy_of_pairwise _ h.2]

theorem isDataM_keys {kvs : List (Val × Val)} (hd : IsDataM' dr kvs) :
    ∀ e ∈ kvs, IsData' dr e.1 ∧ IsData' dr e.2 ∧ e.1 ≠ .null := by
  induction kvs with
  | nil => intro e he; simp at he
  | cons x xs ih =>
    obtain ⟨k, v⟩ := x
    simp only [IsDataM'] at hd
    intro e he
    rcases List.mem_cons.mp he with rfl | he'
    · exact ⟨hd.2.1, hd.2.2.1, hd.1⟩
    · exact ih hd.2.2.2 e he'

theorem isDataL_mem {xs : List Val} (hd : IsDataL' dr xs) : ∀ x ∈ xs, IsData' dr x := by
  induction xs with
  | nil => intro e he; simp at he
  | cons x xs ih =>
    simp only [IsDataL'] at hd
    intro e he
    rcases List.mem_cons.mp he with rfl | he'
    · exact hd.1
    · exact ih hd.2 e he'

theorem pairwise_keys_veq {kvs : List (Val × Val)} (hd : IsDataM' dr kvs)
    (h : kvs.Pairwise (fun a b => vltWith dr a.1 b.1 = true)) :
    kvs.Pairwise (fun a b => veq a.1 b.1 = false) := by
  have hk := isDataM_keys dr hd
  refine List.Pairwise.imp_of_mem ?_ h
  intro a b ha hb hab
  exact veq_false_of_ne dr (hk a ha).1 (hk b hb).1 (ne_of_vlt dr hab)

/-- **mkMap_canon**: a canonical entry list is what `mkMap` produces from it -/
theorem mkMap_canon {kvs : List (Val × Val)} (h : IsData' dr (.map kvs)) : mkMap dr kvs = .map kvs := by
  simp only [IsData'] at h
  rw [mkMap, assocOfList_distinct (pairwise_keys_veq dr h.1 h.2), sortedEntries,
    sortBy_of_pairwise _ h.2]

end Ckl.C08F
