/-
  C02 — the operator tables and the shape of the expression tower of parser.py are the ones the parser model
  (and therefore the precedence theorem `C02P.parse_render_tokens`) is about.  `Gen/SyntaxTable.lean` is REGENERATED
  from /repo/src/ckl/parser.py on every run.
-/
import CklVerif.Gen.SyntaxTable
import CklVerif.Model.Parser
namespace Ckl.C02G
open Ckl.Gen Ckl.Parser

/-- the (operator, function) arms of one parse function -/
def armsOf (f : String) : List (List Char × String) := (parserBinOps.filter (·.1 = f)).map (·.2)

/-- additive and multiplicative levels: the operator → function tables are the model's `addOps` / `mulOps` -/
theorem add_mul_tables_agree : armsOf "parse_add_expr" = addOps ∧ armsOf "parse_mul_expr" = mulOps := by
  decide +kernel

/-- the loops of the two levels look ahead for exactly the operators they have an arm for -/
theorem peeks_agree :
    parserPeeks = [("parse_add_expr", addOps.map (·.1)), ("parse_mul_expr", mulOps.map (·.1))] := by
  decide +kernel

/-- comparison level: the operator list is the model's `relops`, and each operator maps to the function the
    model's `funcOfRelop` gives (`is` like `==`; `<>`, `!=` and `is not` all to `not_equals`) -/
theorem relops_agree : parserRelops = relops := by decide +kernel

theorem rel_functions_agree :
    parserRelFns = [(['<'], "less"), (['<', '='], "less_equals"), (['>'], "greater"), (['>', '='], "greater_equals"),
      (['=', '='], "equals"), (['i', 's'], "equals"), (['<', '>'], "not_equals"), (['!', '='], "not_equals"),
      (['i', 's', ' ', 'n', 'o', 't'], "not_equals")] := by
  decide +kernel

/-- compound assignment operators reuse the arithmetic functions -/
theorem compound_assign_agree :
    armsOf "parse_primary_expr" = [(['+', '='], "add"), (['-', '='], "sub"), (['*', '='], "mul"), (['/', '='], "div"), (['%', '='], "mod")] := by
  decide +kernel

/-- the expression tower: each level calls only the next tighter level for its operands
    (or < and < not < comparison < additive < multiplicative < unary < predicate < primary);
    in particular both operands of every additive arm are multiplicative expressions and both operands of every
    multiplicative arm are unary expressions (left associativity by iteration, never by recursion into the same level) -/
theorem tower_agree :
    parserTower.map (fun r => (r.1, r.2.eraseDups)) =
    [("parse_expression", ["parse_or_expr", "parse_block"]), ("parse_or_expr", ["parse_and_expr"]),
     ("parse_and_expr", ["parse_not_expr"]), ("parse_not_expr", ["parse_rel_expr"]), ("parse_rel_expr", ["parse_add_expr"]),
     ("parse_add_expr", ["parse_mul_expr"]), ("parse_mul_expr", ["parse_unary_expr"]), ("parse_unary_expr", ["parse_pred_expr"]),
     ("parse_pred_expr", ["parse_primary_expr"])] := by
  decide +kernel

/-- one operand call per arm plus the first operand -/
theorem tower_arity :
    (parserTower.filter (fun r => r.1 = "parse_add_expr" ∨ r.1 = "parse_mul_expr")).map (fun r => (r.1, r.2.length)) =
    [("parse_add_expr", 1 + addOps.length), ("parse_mul_expr", 1 + mulOps.length)] := by
  decide +kernel

end Ckl.C02G
