"""Independent oracle for a core sub-language of checkerlang.

IR (plain nested lists of str/int/bool/None, JSON friendly):

  program  ["prog", [stmt...]]
  literals ["int", n] ["str", s] ["bool", b] ["null"]
  ["var", name]
  ["list", [item...]]            item = expr | ["spread", expr]
  ["set", [expr...]]  ["map", [[k, v]...]]  ["obj", [[member, expr]...]]
  ["bin", op, l, r]              op in + - * / % < <= > >= == !=
  ["and", l, r] ["or", l, r] ["not", e]
  ["if", [[cond, [stmt...]]...], [stmt...] | None]
  ["call", fexpr, [arg...]]      arg = ["pos", e] | ["named", name, e] | ["spread", e]
  ["pipe", lhs, fname, [arg...]]      lhs !> fname(args)
  ["mcall", obj, member, [arg...]]    obj->member(args)
  ["member", obj, name]               obj->name
  ["index", e, i]
  ["fn", [[pname, default|None]...], rest|None, [stmt...]]
  ["lcomp", val, var, what, iter, cond|None]      what in None/"keys"/"values"/"entries"
  ["scomp", val, var, what, iter, cond|None]
  ["mcomp", key, val, var, what, iter, cond|None]
  ["block", [stmt...], [[catchexpr|None, [stmt...]]...], [stmt...]|None]
  ["def", name, e] ["defn", name, params, rest, [stmt...]] ["assign", name, e]
  ["for", [var...], what, iter, [stmt...]] ["while", cond, [stmt...]]
  ["break"] ["continue"] ["return", e] ["error", e]

Built-ins (println, append, length, range, string) are ordinary variables of
the base frame and are called with ["call", ["var", "println"], ...].
Tuples are accepted wherever lists are; the generator produces lists only (so
repr(ir) survives a JSON round trip).

Interface: PROFILES, gen_program(rng, profile, size), to_source(ir),
ref_run(ir, max_steps), render(value), nontrivial(ir, profile),
shrink(ir, still_fails).  ref_run reports the extra outcome "undefined" when a
(hand-written or shrunk) program leaves the part of the language the rules
define: type errors, use of the value of def/assignment/loop/println, missing
index, return/break/continue inside a finally part, duplicate named arguments,
append to a list that is being iterated, ...  gen_program never returns such a
program, nor one whose reference run exceeds 40000 steps.
"""
import sys

PROFILES = ["scoping", "calls", "control", "errors", "mixed"]

# ----------------------------------------------------------------------------
# pretty printer
# ----------------------------------------------------------------------------

_ATOMS = {"str", "bool", "null", "var", "list", "set", "map", "obj", "call",
          "mcall", "member", "index", "lcomp", "scomp", "mcomp"}


def _q(s):
    s = s.replace("\\", "\\\\").replace("'", "\\'").replace("\n", "\\n")
    s = s.replace("\r", "\\r").replace("\t", "\\t")
    return "'" + s + "'"


def _is_atom(n):
    t = n[0]
    if t == "int":
        return n[1] >= 0
    return t in _ATOMS


def _pe(n, ind):
    """expression in operand position: parenthesised unless atomic"""
    if _is_atom(n):
        return _ex(n, ind)
    return "(" + _ex(n, ind) + ")"


def _params(params, rest, ind):
    ps = []
    for p in params:
        if p[1] is None:
            ps.append(p[0])
        else:
            ps.append(p[0] + " = " + _pe(p[1], ind))
    if rest is not None:
        ps.append(rest + "...")
    return "(" + ", ".join(ps) + ")"


def _args(args, ind):
    out = []
    for a in args:
        if a[0] == "pos":
            out.append(_pe(a[1], ind))
        elif a[0] == "named":
            out.append(a[1] + " = " + _pe(a[2], ind))
        else:
            out.append("..." + _spread_target(a[1], ind))
    return "(" + ", ".join(out) + ")"


def _spread_target(e, ind):
    if e[0] == "var":
        return _varname(e[1])
    if e[0] == "list":
        return _ex(e, ind)
    raise ValueError("spread needs identifier or list literal")


def _varname(name):
    return name


def _stmts(stmts, ind):
    pad = "  " * ind
    return (";\n").join(pad + _ex(s, ind) for s in stmts)


def _doblock(stmts, ind):
    if not stmts:
        return "do end"
    return "do\n" + _stmts(stmts, ind + 1) + "\n" + "  " * ind + "end"


def _what(w):
    return "" if w is None else w + " "


def _ex(n, ind=0):
    t = n[0]
    if t == "int":
        return str(n[1])
    if t == "str":
        return _q(n[1])
    if t == "bool":
        return "TRUE" if n[1] else "FALSE"
    if t == "null":
        return "NULL"
    if t == "var":
        return _varname(n[1])
    if t == "list":
        items = []
        for it in n[1]:
            if it[0] == "spread":
                items.append("..." + _spread_target(it[1], ind))
            else:
                items.append(_pe(it, ind))
        return "[" + ", ".join(items) + "]"
    if t == "set":
        if not n[1]:
            return "<<>>"
        return "<< " + ", ".join(_pe(e, ind) for e in n[1]) + " >>"
    if t == "map":
        if not n[1]:
            return "<<<>>>"
        return "<<< " + ", ".join(_pe(k, ind) + " => " + _pe(v, ind) for k, v in n[1]) + " >>>"
    if t == "obj":
        parts = []
        for name, e in n[1]:
            if e[0] == "fn":
                parts.append(name + " = " + _ex(e, ind))
            else:
                parts.append(name + " = " + _pe(e, ind))
        return "<* " + ", ".join(parts) + " *>"
    if t == "bin":
        return _pe(n[2], ind) + " " + n[1] + " " + _pe(n[3], ind)
    if t == "and":
        return _pe(n[1], ind) + " and " + _pe(n[2], ind)
    if t == "or":
        return _pe(n[1], ind) + " or " + _pe(n[2], ind)
    if t == "not":
        return "not " + _pe(n[1], ind)
    if t == "if":
        s = ""
        for i, (c, b) in enumerate(n[1]):
            s += ("if " if i == 0 else " elif ") + _pe(c, ind) + " then " + _doblock(b, ind)
        if n[2] is not None:
            s += " else " + _doblock(n[2], ind)
        return s
    if t == "call":
        return _pe(n[1], ind) + _args(n[2], ind)
    if t == "pipe":
        return _pe(n[1], ind) + " !> " + n[2] + _args(n[3], ind)
    if t == "mcall":
        return _pe(n[1], ind) + "->" + n[2] + _args(n[3], ind)
    if t == "member":
        return _pe(n[1], ind) + "->" + n[2]
    if t == "index":
        return _pe(n[1], ind) + "[" + _pe(n[2], ind) + "]"
    if t == "fn":
        return "fn" + _params(n[1], n[2], ind) + " " + _doblock(n[3], ind)
    if t == "lcomp":
        return ("[" + _pe(n[1], ind) + " for " + n[2] + " in " + _what(n[3]) + _pe(n[4], ind)
                + ("" if n[5] is None else " if " + _pe(n[5], ind)) + "]")
    if t == "scomp":
        return ("<< " + _pe(n[1], ind) + " for " + n[2] + " in " + _what(n[3]) + _pe(n[4], ind)
                + ("" if n[5] is None else " if " + _pe(n[5], ind)) + " >>")
    if t == "mcomp":
        return ("<<< " + _pe(n[1], ind) + " => " + _pe(n[2], ind) + " for " + n[3] + " in "
                + _what(n[4]) + _pe(n[5], ind)
                + ("" if n[6] is None else " if " + _pe(n[6], ind)) + " >>>")
    if t == "block":
        pad = "  " * ind
        s = "do\n"
        if n[1]:
            s += _stmts(n[1], ind + 1) + "\n"
        for ce, h in n[2]:
            s += pad + "catch " + ("all" if ce is None else _pe(ce, ind)) + " " + _doblock(h, ind) + "\n"
        if n[3] is not None:
            s += pad + "finally\n"
            if n[3]:
                s += _stmts(n[3], ind + 1) + "\n"
        return s + pad + "end"
    if t == "def":
        if n[2][0] == "if":
            return "def " + n[1] + " = " + _ex(n[2], ind)
        return "def " + n[1] + " = " + _pe(n[2], ind)
    if t == "defn":
        return "def " + n[1] + _params(n[2], n[3], ind) + " " + _doblock(n[4], ind)
    if t == "assign":
        return n[1] + " = " + _pe(n[2], ind)
    if t == "for":
        v = n[1][0] if len(n[1]) == 1 else "[" + ", ".join(n[1]) + "]"
        return "for " + v + " in " + _what(n[2]) + _pe(n[3], ind) + " " + _doblock(n[4], ind)
    if t == "while":
        return "while " + _pe(n[1], ind) + " " + _doblock(n[2], ind)
    if t == "break":
        return "break"
    if t == "continue":
        return "continue"
    if t == "return":
        return "return " + _pe(n[1], ind)
    if t == "error":
        return "error " + _pe(n[1], ind)
    raise ValueError("unknown node " + repr(t))


def to_source(ir):
    assert ir[0] == "prog"
    return _stmts(ir[1], 0) + "\n"


# ----------------------------------------------------------------------------
# values
# ----------------------------------------------------------------------------

class VList:
    __slots__ = ("items", "iterating")

    def __init__(self, items):
        self.items = items
        self.iterating = 0


class VSet:
    __slots__ = ("items",)          # dict key -> value, key = (kind, payload)

    def __init__(self):
        self.items = {}


class VMap:
    __slots__ = ("items",)          # dict key -> (keyvalue, value)

    def __init__(self):
        self.items = {}


class VObj:
    __slots__ = ("members",)

    def __init__(self):
        self.members = {}


class VFunc:
    __slots__ = ("name", "params", "rest", "body", "env")

    def __init__(self, name, params, rest, body, env):
        self.name, self.params, self.rest, self.body, self.env = name, params, rest, body, env


class VBuiltin:
    __slots__ = ("name",)

    def __init__(self, name):
        self.name = name


class _Unspec:
    """value the rules leave open (def, assignment, loops, println, ...)"""
    def __repr__(self):
        return "<unspecified>"


UNSPEC = _Unspec()


class Undefined(Exception):
    """the program leaves the part of the language the rules define"""


class _StepLimit(Exception):
    pass


class _CklErr(Exception):
    def __init__(self, value):
        self.value = value


class _Break(Exception):
    pass


class _Continue(Exception):
    pass


class _Return(Exception):
    def __init__(self, value):
        self.value = value


def _kind(v):
    if v is None:
        return "null"
    if v is True or v is False:
        return "bool"
    if isinstance(v, int):
        return "int"
    if isinstance(v, str):
        return "str"
    if isinstance(v, VList):
        return "list"
    if isinstance(v, VSet):
        return "set"
    if isinstance(v, VMap):
        return "map"
    if isinstance(v, VObj):
        return "obj"
    if isinstance(v, (VFunc, VBuiltin)):
        return "func"
    raise Undefined("use of an unspecified value")


def _key(v):
    k = _kind(v)
    if k in ("int", "str"):
        return (k, v)
    raise Undefined("set element / map key of kind " + k)


def _sorted_keys(keys):
    kinds = {k[0] for k in keys}
    if len(kinds) > 1:
        raise Undefined("mixed key kinds have no order")
    return sorted(keys, key=lambda k: k[1])


def _eq(a, b):
    ka, kb = _kind(a), _kind(b)
    if ka != kb:
        if "func" in (ka, kb) or "obj" in (ka, kb):
            raise Undefined("comparison of functions/objects")
        return False
    if ka in ("null",):
        return True
    if ka in ("bool", "int", "str"):
        return a == b
    if ka == "list":
        return len(a.items) == len(b.items) and all(_eq(x, y) for x, y in zip(a.items, b.items))
    if ka == "set":
        return set(a.items) == set(b.items)
    if ka == "map":
        return (set(a.items) == set(b.items)
                and all(_eq(a.items[k][1], b.items[k][1]) for k in a.items))
    raise Undefined("comparison of functions/objects")


def render(v):
    k = _kind(v)
    if k == "null":
        return "NULL"
    if k == "bool":
        return "TRUE" if v else "FALSE"
    if k == "int":
        return str(v)
    if k == "str":
        return _q(v)
    if k == "list":
        return "[" + ", ".join(render(x) for x in v.items) + "]"
    if k == "set":
        return "<<" + ", ".join(render(v.items[x]) for x in _sorted_keys(v.items)) + ">>"
    if k == "map":
        return "<<<" + ", ".join(render(v.items[x][0]) + " => " + render(v.items[x][1])
                                 for x in _sorted_keys(v.items)) + ">>>"
    if k == "func":
        return "<#" + v.name + ">"
    raise Undefined("rendering of an object")


def _check_data(v):
    """final values / printed values must be data"""
    k = _kind(v)
    if k in ("func", "obj"):
        raise Undefined("function/object used as data")
    if k == "list":
        for x in v.items:
            _check_data(x)
    elif k == "set":
        for x in v.items.values():
            _check_data(x)
    elif k == "map":
        for kv, x in v.items.values():
            _check_data(x)


def _weight(v, limit=100000):
    """rough size of the rendering; raises _StepLimit for absurdly large values"""
    total = 0
    stack = [v]
    while stack:
        x = stack.pop()
        if isinstance(x, str):
            total += len(x) + 2
        elif isinstance(x, bool) or x is None:
            total += 5
        elif isinstance(x, int):
            total += x.bit_length() // 3 + 2
        elif isinstance(x, VList):
            stack.extend(x.items)
            total += 2
        elif isinstance(x, VSet):
            stack.extend(x.items.values())
        elif isinstance(x, VMap):
            for kv in x.items.values():
                stack.extend(kv)
        else:
            total += 8
        if total > limit:
            raise _StepLimit()
    return total


def _text(v):
    _check_data(v)
    _weight(v)
    if isinstance(v, str):
        return v
    return render(v)


class _Env:
    __slots__ = ("vars", "parent", "returned")

    def __init__(self, parent):
        self.vars = {}
        self.parent = parent
        self.returned = False

    def find(self, name):
        e = self
        while e is not None:
            if name in e.vars:
                return e
            e = e.parent
        return None


_BUILTINS = ("println", "append", "length", "range", "string")


# ----------------------------------------------------------------------------
# reference interpreter
# ----------------------------------------------------------------------------

class _Interp:
    def __init__(self, max_steps):
        self.max_steps = max_steps
        self.steps = 0
        self.out = []
        self.prot = 0                # protected blocks whose body is running
        self.outsize = 0
        self.seen = None             # ids of evaluated nodes (coverage), if wanted
        self.stats = {"closure_after_return": False, "multi_mode_call": False,
                      "comp_over_setmap": False, "nested_raise": False}

    # -- helpers ------------------------------------------------------------
    def rt_error(self):
        self.note_raise()
        raise _CklErr("ERROR")

    def note_raise(self):
        if self.prot >= 2:
            self.stats["nested_raise"] = True

    def run_stmts(self, stmts, env):
        result = True
        for s in stmts:
            result = self.ev(s, env)
        return result

    def truth(self, v):
        if v is True or v is False:
            return v
        raise Undefined("condition is not a boolean")

    def used(self, v):
        if v is UNSPEC:
            raise Undefined("use of an unspecified value")
        return v

    # -- evaluation -----------------------------------------------------------
    def ev(self, n, env):
        self.steps += 1
        if self.steps > self.max_steps:
            raise _StepLimit()
        if self.seen is not None:
            self.seen.add(id(n))
        return getattr(self, "ev_" + n[0])(n, env)

    def ev_int(self, n, env):
        return n[1]

    def ev_str(self, n, env):
        return n[1]

    def ev_bool(self, n, env):
        return bool(n[1])

    def ev_null(self, n, env):
        return None

    def ev_var(self, n, env):
        e = env.find(n[1])
        if e is None:
            self.rt_error()
        return e.vars[n[1]]

    def ev_list(self, n, env):
        items = []
        for it in n[1]:
            if it[0] == "spread":
                v = self.ev(it[1], env)
                if not isinstance(v, VList):
                    raise Undefined("spread of a non-list")
                items.extend(v.items)
            else:
                items.append(self.used(self.ev(it, env)))
        return VList(items)

    def ev_set(self, n, env):
        s = VSet()
        for e in n[1]:
            v = self.used(self.ev(e, env))
            s.items.setdefault(_key(v), v)
        return s

    def ev_map(self, n, env):
        m = VMap()
        for ke, ve in n[1]:
            if ke[0] == "var":
                raise Undefined("identifier key in a map literal")
            k = self.used(self.ev(ke, env))
            v = self.used(self.ev(ve, env))
            if _key(k) in m.items:
                raise Undefined("duplicate map key")
            m.items[_key(k)] = (k, v)
        return m

    def ev_obj(self, n, env):
        o = VObj()
        for name, e in n[1]:
            if name in o.members:
                raise Undefined("duplicate member")
            v = self.used(self.ev(e, env))
            if name == "_proto_" and not isinstance(v, VObj):
                raise Undefined("_proto_ is not an object")
            o.members[name] = v
        return o

    def ev_bin(self, n, env):
        op = n[1]
        a = self.used(self.ev(n[2], env))
        b = self.used(self.ev(n[3], env))
        if op == "==":
            return _eq(a, b)
        if op == "!=":
            return not _eq(a, b)
        ka, kb = _kind(a), _kind(b)
        if op == "+":
            if ka == kb == "int":
                return a + b
            if ka == kb == "str":
                if len(a) + len(b) > 20000:
                    raise _StepLimit()
                return a + b
            if ka == kb == "list":
                if len(a.items) + len(b.items) > 5000:
                    raise _StepLimit()
                return VList(a.items + b.items)
            raise Undefined("+ on " + ka + " and " + kb)
        if ka != "int" or kb != "int":
            raise Undefined(op + " on " + ka + " and " + kb)
        if op == "-":
            return a - b
        if op == "*":
            if a.bit_length() + b.bit_length() > 2048:
                raise _StepLimit()       # astronomically large numbers: give up ("timeout")
            return a * b
        if op == "/":
            if b == 0:
                self.rt_error()
            q = abs(a) // abs(b)
            return q if (a < 0) == (b < 0) else -q
        if op == "%":
            if b == 0:
                self.rt_error()
            return a % b
        if op == "<":
            return a < b
        if op == "<=":
            return a <= b
        if op == ">":
            return a > b
        if op == ">=":
            return a >= b
        raise Undefined("operator " + op)

    def ev_and(self, n, env):
        if not self.truth(self.ev(n[1], env)):
            return False
        return self.truth(self.ev(n[2], env))

    def ev_or(self, n, env):
        if self.truth(self.ev(n[1], env)):
            return True
        return self.truth(self.ev(n[2], env))

    def ev_not(self, n, env):
        return not self.truth(self.ev(n[1], env))

    def ev_if(self, n, env):
        for c, b in n[1]:
            if self.truth(self.ev(c, env)):
                return self.run_stmts(b, env)
        if n[2] is not None:
            return self.run_stmts(n[2], env)
        return UNSPEC

    # -- calls ----------------------------------------------------------------
    def eval_args(self, args, env, modes):
        out = []
        for a in args:
            if a[0] == "pos":
                out.append(("pos", None, self.used(self.ev(a[1], env))))
                modes.add("positional")
            elif a[0] == "named":
                out.append(("named", a[1], self.used(self.ev(a[2], env))))
                modes.add("named")
            else:
                v = self.ev(a[1], env)
                if not isinstance(v, VList):
                    raise Undefined("spread of a non-list")
                modes.add("spread")
                for x in v.items:
                    out.append(("pos", None, x))
        return out

    def ev_call(self, n, env):
        f = self.used(self.ev(n[1], env))
        modes = set()
        args = self.eval_args(n[2], env, modes)
        return self.apply(f, args, modes)

    def ev_pipe(self, n, env):
        first = self.used(self.ev(n[1], env))
        modes = {"pipeline"}
        e = env.find(n[2])
        if e is None:
            raise Undefined("pipeline into an undefined function")
        f = e.vars[n[2]]
        args = [("pos", None, first)] + self.eval_args(n[3], env, modes)
        return self.apply(f, args, modes)

    def lookup_member(self, obj, name):
        depth = 0
        while obj is not None:
            if name in obj.members:
                return True, obj.members[name]
            obj = obj.members.get("_proto_")
            depth += 1
            if depth > 50:
                raise Undefined("cyclic prototype chain")
        return False, None

    def ev_mcall(self, n, env):
        obj = self.used(self.ev(n[1], env))
        if not isinstance(obj, VObj):
            raise Undefined("method call on a non-object")
        found, f = self.lookup_member(obj, n[2])
        if not found or not isinstance(f, VFunc):
            raise Undefined("method missing or not a function")
        modes = {"method"}
        args = [("pos", None, obj)] + self.eval_args(n[3], env, modes)
        return self.apply(f, args, modes)

    def ev_member(self, n, env):
        obj = self.used(self.ev(n[1], env))
        if not isinstance(obj, VObj):
            raise Undefined("member read on a non-object")
        found, v = self.lookup_member(obj, n[2])
        return v if found else None

    def apply(self, f, args, modes):
        if isinstance(f, VBuiltin):
            if any(a[0] != "pos" for a in args):
                raise Undefined("named argument for a built-in")
            return self.builtin(f.name, [a[2] for a in args])
        if not isinstance(f, VFunc):
            raise Undefined("call of a non-function")
        e = f.env
        while e is not None:
            if e.returned:
                self.stats["closure_after_return"] = True
            e = e.parent
        # rule 5
        named, positional = [], []
        seen_named = False
        bad_order = False
        for kind, name, v in args:
            if kind == "named":
                if any(name == x[0] for x in named):
                    raise Undefined("argument named twice")
                named.append((name, v))
                seen_named = True
            else:
                if seen_named:
                    bad_order = True
                positional.append(v)
        if bad_order:
            self.rt_error()
        frame = _Env(f.env)
        pnames = [p[0] for p in f.params]
        for name, v in named:
            if name not in pnames:
                self.rt_error()
            frame.vars[name] = v
        unbound = [p for p in pnames if p not in frame.vars]
        k = min(len(unbound), len(positional))
        for i in range(k):
            frame.vars[unbound[i]] = positional[i]
        surplus = positional[k:]
        if f.rest is not None:
            frame.vars[f.rest + "..."] = VList(list(surplus))
            modes.add("rest")
        elif surplus:
            self.rt_error()
        try:
            for pname, default in f.params:
                if pname in frame.vars:
                    continue
                if default is None:
                    self.rt_error()
                modes.add("default")
                frame.vars[pname] = self.used(self.ev(default, frame))
            if len(modes) >= 2:
                self.stats["multi_mode_call"] = True
            try:
                return self.run_stmts(f.body, frame)
            except _Return as r:
                return r.value
            except (_Break, _Continue):
                raise Undefined("break/continue leaves a function")
        finally:
            frame.returned = True

    def builtin(self, name, a):
        if name == "println":
            if len(a) != 1:
                raise Undefined("println arity")
            self.out.append(_text(a[0]) + "\n")
            self.outsize += len(self.out[-1])
            if self.outsize > 300000:
                raise _StepLimit()
            return UNSPEC
        if name == "string":
            if len(a) != 1:
                raise Undefined("string arity")
            return _text(a[0])
        if name == "append":
            if len(a) != 2 or not isinstance(a[0], VList):
                raise Undefined("append needs a list")
            if a[0].iterating:
                raise Undefined("append to a list that is being iterated")
            a[0].items.append(a[1])
            return a[0]
        if name == "length":
            if len(a) != 1:
                raise Undefined("length arity")
            k = _kind(a[0])
            if k == "str":
                return len(a[0])
            if k in ("list", "set", "map"):
                return len(a[0].items)
            raise Undefined("length of " + k)
        if name == "range":
            if len(a) != 1 or _kind(a[0]) != "int":
                raise Undefined("range needs one int")
            if a[0] > 10000:
                raise _StepLimit()
            return VList(list(range(a[0])))
        raise Undefined("builtin " + name)

    def ev_index(self, n, env):
        c = self.used(self.ev(n[1], env))
        i = self.used(self.ev(n[2], env))
        if isinstance(c, VList):
            if _kind(i) != "int" or not 0 <= i < len(c.items):
                raise Undefined("list index out of the defined range")
            return c.items[i]
        if isinstance(c, VMap):
            k = _key(i)
            if k not in c.items:
                raise Undefined("missing map key")
            return c.items[k][1]
        raise Undefined("indexing of " + _kind(c))

    def ev_fn(self, n, env):
        return VFunc("lambda", n[1], n[2], n[3], env)

    # -- iteration ------------------------------------------------------------
    def elements(self, v, what, comp=False):
        """returns (list of elements, list-to-unlock or None)"""
        if isinstance(v, VMap):
            keys = _sorted_keys(v.items)
            if what == "keys":
                return [v.items[k][0] for k in keys]
            if what == "values":
                return [v.items[k][1] for k in keys]
            if what == "entries":
                return [VList([v.items[k][0], v.items[k][1]]) for k in keys]
            raise Undefined("iteration over a map needs keys/values/entries")
        if what is not None:
            raise Undefined("keys/values/entries on a non-map")
        if isinstance(v, VList):
            return v.items
        if isinstance(v, VSet):
            return [v.items[k] for k in _sorted_keys(v.items)]
        if isinstance(v, str):
            return list(v)
        raise Undefined("iteration over " + _kind(v))

    def ev_for(self, n, env):
        names, what, body = n[1], n[2], n[4]
        coll = self.used(self.ev(n[3], env))
        elems = self.elements(coll, what)
        if (what == "entries") != (len(names) == 2) or len(names) > 2:
            raise Undefined("loop variable shape")
        lock = coll if isinstance(coll, VList) else None
        if lock is not None:
            lock.iterating += 1
        try:
            for x in list(elems):
                if len(names) == 2:
                    env.vars[names[0]] = x.items[0]
                    env.vars[names[1]] = x.items[1]
                else:
                    env.vars[names[0]] = x
                try:
                    self.run_stmts(body, env)
                except _Break:
                    break
                except _Continue:
                    continue
        finally:
            if lock is not None:
                lock.iterating -= 1
            for nm in names:
                env.vars.pop(nm, None)
        return UNSPEC

    def ev_while(self, n, env):
        while self.truth(self.ev(n[1], env)):
            try:
                self.run_stmts(n[2], env)
            except _Break:
                break
            except _Continue:
                continue
        return UNSPEC

    def comp(self, var, what, iterexpr, cond, env, emit):
        coll = self.used(self.ev(iterexpr, env))
        if isinstance(coll, (VSet, VMap)):
            self.stats["comp_over_setmap"] = True
        elems = self.elements(coll, what)
        lock = coll if isinstance(coll, VList) else None
        if lock is not None:
            lock.iterating += 1
        child = _Env(env)
        try:
            for x in list(elems):
                child.vars[var] = x
                # like the equivalent loop `for x in c do if cond then emit`: the filter first, the element only when it passes
                if cond is None or self.truth(self.ev(cond, child)):
                    yield emit(child)
        finally:
            if lock is not None:
                lock.iterating -= 1

    def ev_lcomp(self, n, env):
        res = []
        for v in self.comp(n[2], n[3], n[4], n[5], env, lambda c: self.used(self.ev(n[1], c))):
            res.append(v)
        return VList(res)

    def ev_scomp(self, n, env):
        s = VSet()
        for v in self.comp(n[2], n[3], n[4], n[5], env, lambda c: self.used(self.ev(n[1], c))):
            s.items.setdefault(_key(v), v)
        return s

    def ev_mcomp(self, n, env):
        m = VMap()

        def emit(c):
            k = self.used(self.ev(n[1], c))
            v = self.used(self.ev(n[2], c))
            return (k, v)
        for k, v in self.comp(n[3], n[4], n[5], n[6], env, emit):
            if _key(k) in m.items:
                raise Undefined("duplicate key in map comprehension")
            m.items[_key(k)] = (k, v)
        return m

    # -- blocks, errors -------------------------------------------------------
    def ev_block(self, n, env):
        stmts, catches, fin = n[1], n[2], n[3]
        if not catches and fin is None:
            return self.run_stmts(stmts, env)
        try:
            self.prot += 1
            try:
                try:
                    result = self.run_stmts(stmts, env)
                finally:
                    self.prot -= 1
            except _CklErr as err:
                handler = None
                for ce, h in catches:
                    if ce is None or _eq(self.used(self.ev(ce, env)), err.value):
                        handler = h
                        break
                if handler is None:
                    raise
                result = self.run_stmts(handler, env)
            return result
        finally:
            if fin is not None:
                try:
                    self.run_stmts(fin, env)
                except (_Return, _Break, _Continue):
                    # the rules only say what an ERROR raised in finally does
                    raise Undefined("return/break/continue leaves a finally part")

    def ev_def(self, n, env):
        env.vars[n[1]] = self.used(self.ev(n[2], env))
        return UNSPEC

    def ev_defn(self, n, env):
        env.vars[n[1]] = VFunc(n[1], n[2], n[3], n[4], env)
        return UNSPEC

    def ev_assign(self, n, env):
        e = env.find(n[1])
        if e is None:
            self.rt_error()
        e.vars[n[1]] = self.used(self.ev(n[2], env))
        return UNSPEC

    def ev_break(self, n, env):
        raise _Break()

    def ev_continue(self, n, env):
        raise _Continue()

    def ev_return(self, n, env):
        raise _Return(self.ev(n[1], env))

    def ev_error(self, n, env):
        v = self.used(self.ev(n[1], env))
        _check_data(v)
        self.note_raise()
        raise _CklErr(v)


def _execute(ir, max_steps, coverage=False):
    it = _Interp(max_steps)
    if coverage:
        it.seen = set()
    base = _Env(None)
    for b in _BUILTINS:
        base.vars[b] = VBuiltin(b)
    top = _Env(base)
    stmts = list(ir[1])
    res = {"outcome": None, "value": "", "output": ""}
    old = sys.getrecursionlimit()
    if old < 20000:
        sys.setrecursionlimit(20000)
    try:
        if stmts and stmts[-1][0] == "return":
            stmts[-1] = stmts[-1][1]
        try:
            v = it.run_stmts(stmts, top)
            _check_data(v)
            _weight(v)
            res["outcome"], res["value"] = "value", render(v)
        except _CklErr as e:
            _weight(e.value)
            res["outcome"], res["value"] = "error", render(e.value)
        except (_Return, _Break, _Continue):
            raise Undefined("return/break/continue reaches the top level")
    except Undefined as u:
        res["outcome"], res["value"] = "undefined", str(u)
    except (_StepLimit, RecursionError, MemoryError):
        res["outcome"] = "timeout"
    finally:
        sys.setrecursionlimit(old)
    res["output"] = "".join(it.out)
    if coverage:
        total = sum(1 for _ in _nodes(ir)) - 1
        it.stats["coverage"] = len(it.seen) / max(1, total)
    return res, it.stats


def ref_run(ir, max_steps=200000):
    """outcome is "value", "error", "timeout", or "undefined" (the program does
    something the language rules do not define; never produced by gen_program)"""
    return _execute(ir, max_steps)[0]


# ----------------------------------------------------------------------------
# generator
# ----------------------------------------------------------------------------
# Every name carries its type (so shadowing across scopes stays type safe):
_NAME_TYPES = {}
for _n in ("a", "b", "c", "d", "x", "y", "z", "n"):
    _NAME_TYPES[_n] = "int"
for _n in ("sa", "sb", "sc"):
    _NAME_TYPES[_n] = "str"
for _n in ("pa", "pb"):
    _NAME_TYPES[_n] = "bool"
for _n in ("la", "lb", "lc"):
    _NAME_TYPES[_n] = "list"         # list of int
for _n in ("ta", "tb"):
    _NAME_TYPES[_n] = "slist"        # list of str
for _n in ("qa", "qb"):
    _NAME_TYPES[_n] = "set"          # set of int
for _n in ("qs",):
    _NAME_TYPES[_n] = "sset"         # set of str
for _n in ("ma", "mb"):
    _NAME_TYPES[_n] = "map"          # str -> int
for _n in ("mi",):
    _NAME_TYPES[_n] = "imap"         # int -> int
for _n in ("oa", "ob", "oc"):
    _NAME_TYPES[_n] = "obj"
for _n in ("ka", "kb"):
    _NAME_TYPES[_n] = "k"            # closure () -> int
for _n in ("ua", "ub"):
    _NAME_TYPES[_n] = "u"            # closure (int) -> int
_NAME_TYPES["lv"] = "dec"          # decreasing recursion argument
_FN_NAMES = ["f", "g", "h", "f2", "g2", "h2", "f3", "g3"]
_DATA_TYPES = ["int", "str", "bool", "list", "slist", "set", "sset", "map", "imap"]
_STRS = ["", "a", "b", "ab", "x", "zz", "it's", "q\n", "ERROR", "boom", "k1", "\\"]
_KEYS = ["a", "b", "c", "k", "zz", "B"]
_BIG = [2 ** 63, 2 ** 64 + 1, 10 ** 20, -(2 ** 63) - 1, 2 ** 100]

_WEIGHTS = {
    "scoping": dict(defv=3, assign=4, trace=2, fndef=6, call=5, closure=5, iff=1.5, forl=1,
                    whilel=0.5, block=0.5, obj=0.3, append=1, comp=0.3, raisee=0.2, rterr=0.2,
                    badcall=0.2, mcall=0.3, shadow=3),
    "calls": dict(defv=2, assign=1, trace=1, fndef=4, call=9, closure=1, iff=1, forl=1,
                  whilel=0.3, block=1, obj=2, append=1, comp=0.3, raisee=0.2, rterr=0.2,
                  badcall=4, mcall=4, shadow=0.5),
    "control": dict(defv=2, assign=3, trace=2, fndef=2, call=2, closure=0.3, iff=4, forl=7,
                    whilel=3, block=0.7, obj=0.2, append=2, comp=4, raisee=0.2, rterr=0.1,
                    badcall=0.1, mcall=0.2, shadow=0.3),
    "errors": dict(defv=2, assign=2, trace=2, fndef=3, call=3, closure=0.3, iff=2, forl=2,
                   whilel=1, block=9, obj=0.2, append=1, comp=0.3, raisee=4, rterr=3,
                   badcall=1, mcall=0.2, shadow=0.3),
    "mixed": dict(defv=2, assign=2, trace=2, fndef=3, call=3, closure=2, iff=2, forl=3,
                  whilel=1, block=3, obj=1, append=1, comp=1.5, raisee=1, rterr=1,
                  badcall=1, mcall=1.5, shadow=1),
}


def _I(n):
    return ["int", n]


def _S(s):
    return ["str", s]


def _V(name):
    return ["var", name]


def _call(fname, *args):
    return ["call", _V(fname), [["pos", a] for a in args]]


def _println(e):
    return _call("println", e)


def _tostr(e):
    return _call("string", e)


def _trace(tag, e=None):
    if e is None:
        return _println(_S(tag))
    return _println(["bin", "+", _S(tag + " "), _tostr(e)])


class _Frame:
    def __init__(self, kind, parent):
        self.kind = kind             # "top" | "fn"
        self.parent = parent
        self.defs = {}               # definitely defined names -> info
        self.maybe = set()           # names possibly defined
        self.loopvars = set()
        self.called = set()          # function names referenced from here or below


class _Sig:
    def __init__(self, params, rest, ret):
        self.params = params         # [[name, default_ir|None], ...]
        self.rest = rest
        self.ret = ret


class _Gen:
    def __init__(self, rng, profile, size):
        self.rng = rng
        self.profile = profile
        self.kinds_profile = profile
        self.w = dict(_WEIGHTS[profile])
        self.size = size
        self.budget = size
        self.frame = _Frame("top", None)
        self.fresh = 0
        self.fresh_types = {}
        self.sigs = {}
        self.inprogress = []
        self.locked = set()
        self.fn_depth = 0
        self.loop_depth = 0
        self.nest = 0
        self.blk_depth = 0
        self.no_calls = 0            # >0: pure expressions only
        self.obj_depth = {}
        self.ret_types = []
        self.hidden = set()
        self.no_return = 0
        self.undef = 0
        self.max_fn_depth = 4 if profile in ("scoping", "mixed") else 2
        self.max_loop = 3 if profile in ("control", "mixed") else 2
        self.max_blk = 4 if profile in ("errors", "mixed") else 2

    # -- small helpers --------------------------------------------------------
    def chance(self, p):
        return self.rng.random() < p

    def pick(self, seq):
        return seq[self.rng.randrange(len(seq))]

    def wpick(self, pairs):
        total = sum(w for _, w in pairs)
        r = self.rng.random() * total
        for v, w in pairs:
            r -= w
            if r < 0:
                return v
        return pairs[-1][0]

    def newname(self, prefix, typ):
        self.fresh += 1
        name = prefix + str(self.fresh)
        self.fresh_types[name] = typ
        return name

    def typeof(self, name):
        if name in _NAME_TYPES:
            return _NAME_TYPES[name]
        if name in self.fresh_types:
            return self.fresh_types[name]
        if name in self.sigs:
            return "fn"
        return None

    # -- scope model ------------------------------------------------------------
    def visible(self, typ):
        """names of the type that are definitely defined and resolve unambiguously"""
        out = []
        seen = set()
        f = self.frame
        same_fn = True
        while f is not None:
            for name in f.defs:
                if name in seen:
                    continue
                if not same_fn and name in f.loopvars:
                    continue
                if name in self.hidden:
                    continue
                if self.typeof(name) == typ:
                    out.append(name)
                seen.add(name)
            seen |= f.maybe
            if f.kind != "comp":
                same_fn = False
            f = f.parent
        return sorted(out)

    def is_visible(self, name):
        return name in self.visible(self.typeof(name))

    def define(self, name, info=True):
        self.frame.defs[name] = info

    def callable_fns(self, ret=None):
        out = []
        for name in self.visible("fn"):
            if name in self.inprogress:
                continue
            if ret is not None and self.sigs[name].ret != ret:
                continue
            out.append(name)
        return out

    def note_call(self, name):
        f = self.frame
        while f is not None:
            f.called.add(name)
            f = f.parent

    class _Nested:
        """names defined inside a conditional construct are only 'maybe' defined after it"""
        def __init__(self, g):
            self.g = g

        def __enter__(self):
            self.saved = dict(self.g.frame.defs)
            self.frame = self.g.frame
            self.g.nest += 1

        def __exit__(self, *a):
            fr = self.frame
            for name in list(fr.defs):
                if name not in self.saved:
                    del fr.defs[name]
                    fr.maybe.add(name)
            self.g.nest -= 1

    def nested(self):
        return _Gen._Nested(self)

    # -- literals ---------------------------------------------------------------
    def lit_int(self):
        r = self.rng.random()
        if r < 0.04:
            return _I(self.pick(_BIG))
        if r < 0.2:
            return _I(self.rng.randrange(-9, 0))
        return _I(self.rng.randrange(0, 13))

    def lit_str(self):
        return _S(self.pick(_STRS))

    def small_n(self):
        return self.wpick([(0, 1), (1, 2), (2, 4), (3, 4), (4, 1.5)])

    def lit(self, typ):
        r = self.rng
        if typ == "int":
            return self.lit_int()
        if typ == "str":
            return self.lit_str()
        if typ == "bool":
            return ["bool", self.chance(0.5)]
        if typ == "list":
            return ["list", [self.lit_int() for _ in range(self.small_n())]]
        if typ == "slist":
            return ["list", [self.lit_str() for _ in range(self.small_n())]]
        if typ == "set":
            return ["set", [_I(r.randrange(-3, 9)) for _ in range(self.small_n())]]
        if typ == "sset":
            return ["set", [_S(self.pick(_KEYS)) for _ in range(self.small_n())]]
        if typ == "map":
            keys = r.sample(_KEYS, self.small_n())
            return ["map", [[_S(k), self.lit_int()] for k in keys]]
        if typ == "imap":
            keys = r.sample(range(-2, 8), self.small_n())
            return ["map", [[_I(k), self.lit_int()] for k in keys]]
        raise ValueError(typ)

    # -- expressions -------------------------------------------------------------
    def expr(self, typ, d=2):
        return getattr(self, "e_" + typ)(d)

    def var_or_lit(self, typ):
        vs = self.visible(typ)
        if vs and self.chance(0.75):
            return _V(self.pick(vs))
        return self.lit(typ)

    def e_int(self, d):
        if d <= 0:
            return self.var_or_lit("int")
        opts = [("leaf", 4), ("arith", 4), ("length", 1), ("ifx", 0.5), ("divmod", 1),
                ("index", 0.6)]
        if not self.no_calls:
            if self.callable_fns("int"):
                opts.append(("call", 2.5 if self.profile in ("calls", "scoping") else 1.2))
            if self.visible("k") or self.visible("u"):
                opts.append(("clos", 1.5))
            if self.visible("obj"):
                opts.append(("obj", 1.2))
        c = self.wpick(opts)
        if c == "leaf":
            return self.var_or_lit("int")
        if c == "arith":
            return ["bin", self.pick(["+", "-", "*", "+"]), self.e_int(d - 1), self.e_int(d - 1)]
        if c == "divmod":
            if self.profile in ("errors", "mixed") and self.chance(0.15 if self.blk_depth > 0 else 0.01):
                div = self.pick([_I(0), ["bin", "-", self.var_or_lit("int"), self.var_or_lit("int")]])
            else:
                div = _I(self.pick([1, 2, 3, 5, 7, -2, -3]))
            return ["bin", self.pick(["/", "%"]), self.e_int(d - 1), div]
        if c == "length":
            t = self.pick(["list", "str", "set", "map", "slist"])
            return _call("length", self.expr(t, d - 1))
        if c == "ifx":
            return ["if", [[self.e_bool(d - 1), [self.e_int(d - 1)]]], [self.e_int(d - 1)]]
        if c == "index":
            return self.index_expr(d - 1)
        if c == "call":
            return self.gen_call(self.pick(self.callable_fns("int")), d - 1)
        if c == "clos":
            ks, us = self.visible("k"), self.visible("u")
            if ks and (not us or self.chance(0.5)):
                return ["call", _V(self.pick(ks)), []]
            return ["call", _V(self.pick(us)), [["pos", self.e_int(d - 1)]]]
        if c == "obj":
            return self.obj_int_expr(d - 1)
        raise AssertionError(c)

    def index_expr(self, d):
        """an index that certainly exists: l[i], m[k]"""
        c = self.pick(["list", "map", "imap", "var"])
        if c == "list":
            n = self.rng.randrange(1, 4)
            return ["index", ["list", [self.e_int(min(d, 1)) for _ in range(n)]],
                    _I(self.rng.randrange(0, n))]
        if c == "map":
            keys = self.rng.sample(_KEYS, self.rng.randrange(1, 4))
            return ["index", ["map", [[_S(k), self.lit_int()] for k in keys]], _S(self.pick(keys))]
        if c == "imap":
            keys = self.rng.sample(range(-2, 8), self.rng.randrange(1, 4))
            return ["index", ["map", [[_I(k), self.lit_int()] for k in keys]], _I(self.pick(keys))]
        vs = self.visible("list")
        if not vs:
            return self.lit_int()
        v, j = self.pick(vs), self.rng.randrange(0, 3)
        return ["if", [[["bin", ">", _call("length", _V(v)), _I(j)], [["index", _V(v), _I(j)]]]],
                [self.lit_int()]]

    def e_str(self, d):
        if d <= 0:
            return self.var_or_lit("str")
        opts = [("leaf", 3), ("cat", 2), ("ofint", 2), ("ofany", 1)]
        if not self.no_calls and self.callable_fns("str"):
            opts.append(("call", 2))
        c = self.wpick(opts)
        if c == "leaf":
            return self.var_or_lit("str")
        if c == "cat":
            return ["bin", "+", self.e_str(d - 1), self.e_str(d - 1)]
        if c == "ofint":
            return _tostr(self.e_int(d - 1))
        if c == "ofany":
            return _tostr(self.expr(self.pick(_DATA_TYPES), d - 1))
        return self.gen_call(self.pick(self.callable_fns("str")), d - 1)

    def e_bool(self, d):
        if d <= 0:
            if self.chance(0.5):
                return self.var_or_lit("bool")
            return ["bin", self.pick(["<", "<=", ">", ">=", "==", "!="]),
                    self.var_or_lit("int"), self.lit_int()]
        c = self.wpick([("cmp", 5), ("eq", 2), ("logic", 2), ("not", 1), ("leaf", 1)])
        if c == "cmp":
            return ["bin", self.pick(["<", "<=", ">", ">=", "==", "!="]),
                    self.e_int(d - 1), self.e_int(d - 1)]
        if c == "eq":
            t = self.pick(["str", "list", "set", "map", "bool", "slist"])
            return ["bin", self.pick(["==", "!="]), self.expr(t, d - 1), self.expr(t, d - 1)]
        if c == "logic":
            return [self.pick(["and", "or"]), self.e_bool(d - 1), self.e_bool(d - 1)]
        if c == "not":
            return ["not", self.e_bool(d - 1)]
        return self.var_or_lit("bool")

    def list_like(self, typ, elem, d):
        if d <= 0:
            return self.var_or_lit(typ)
        opts = [("leaf", 3), ("lit", 3), ("cat", 1.5), ("comp", 1.5)]
        if typ == "list":
            opts.append(("range", 1.5))
            if not self.no_calls and self.callable_fns("list"):
                opts.append(("call", 2))
        c = self.wpick(opts)
        if c == "leaf":
            return self.var_or_lit(typ)
        if c == "lit":
            items = []
            for _ in range(self.rng.randrange(0, 4)):
                vs = self.visible(typ)
                if vs and self.chance(0.2):
                    items.append(["spread", _V(self.pick(vs))])
                elif self.chance(0.1):
                    items.append(["spread", self.lit(typ)])
                else:
                    items.append(self.expr(elem, d - 1))
            return ["list", items]
        if c == "cat":
            return ["bin", "+", self.list_like(typ, elem, d - 1), self.list_like(typ, elem, d - 1)]
        if c == "range":
            return _call("range", _I(self.small_n()))
        if c == "comp":
            return self.gen_comp("l", elem, d - 1)
        return self.gen_call(self.pick(self.callable_fns("list")), d - 1)

    def e_list(self, d):
        return self.list_like("list", "int", d)

    def e_slist(self, d):
        return self.list_like("slist", "str", d)

    def e_set(self, d):
        if d <= 0 or self.chance(0.4):
            return self.var_or_lit("set")
        if self.chance(0.5):
            return ["set", [self.e_int(d - 1) for _ in range(self.rng.randrange(0, 4))]]
        return self.gen_comp("s", "int", d - 1)

    def e_sset(self, d):
        if d <= 0 or self.chance(0.4):
            return self.var_or_lit("sset")
        if self.chance(0.5):
            return ["set", [self.e_str(d - 1) for _ in range(self.rng.randrange(0, 4))]]
        return self.gen_comp("s", "str", d - 1)

    def e_map(self, d):
        if d <= 0 or self.chance(0.4):
            return self.var_or_lit("map")
        if self.chance(0.6):
            keys = self.rng.sample(_KEYS, self.rng.randrange(0, 4))
            return ["map", [[_S(k), self.e_int(d - 1)] for k in keys]]
        return self.gen_mapcomp("str", d - 1)

    def e_imap(self, d):
        if d <= 0 or self.chance(0.4):
            return self.var_or_lit("imap")
        if self.chance(0.6):
            keys = self.rng.sample(range(-2, 8), self.rng.randrange(0, 4))
            return ["map", [[_I(k), self.e_int(d - 1)] for k in keys]]
        return self.gen_mapcomp("int", d - 1)

    # iterables: returns (what, iter_expr, [element types]) ---------------------
    def gen_iterable(self, d, for_comp=False):
        c = self.wpick([("list", 4), ("range", 3), ("str", 2), ("set", 2), ("sset", 1),
                        ("keys", 1.5), ("values", 1.5), ("entries", 1.0 if not for_comp else 0.5),
                        ("slist", 1), ("ikeys", 0.7)])
        if c == "list":
            return None, self.e_list(d), ["int"]
        if c == "slist":
            return None, self.e_slist(d), ["str"]
        if c == "range":
            return None, _call("range", _I(self.small_n())), ["int"]
        if c == "str":
            return None, self.e_str(min(d, 1)), ["str"]
        if c == "set":
            return None, self.e_set(d), ["int"]
        if c == "sset":
            return None, self.e_sset(d), ["str"]
        if c == "keys":
            return "keys", self.e_map(d), ["str"]
        if c == "ikeys":
            return "keys", self.e_imap(d), ["int"]
        if c == "values":
            return "values", self.pick([self.e_map, self.e_imap])(d), ["int"]
        if self.chance(0.5):
            return "entries", self.e_map(d), ["str", "int"]
        return "entries", self.e_imap(d), ["int", "int"]

    def comp_scope(self, var, typ):
        """a comprehension variable lives in a child scope: model it as a frame"""
        fr = _Frame("comp", self.frame)
        fr.defs[var] = True
        return fr

    def gen_comp(self, shape, elem, d):
        what, it, ets = self.gen_iterable(d, True)
        if what == "entries":
            what, ets = "keys", [ets[0]]
        # the comprehension variable may shadow an existing name of the right type
        pool = [n for n, t in _NAME_TYPES.items() if t == ets[0]]
        var = self.pick(pool) if pool and self.chance(0.45) else self.newname("v", ets[0])
        saved = self.frame
        self.frame = self.comp_scope(var, ets[0])
        pure = self.chance(0.5)
        if pure:
            self.no_calls += 1
        try:
            val = self.expr(elem, min(d, 1))
            cond = self.e_bool(min(d, 1)) if self.chance(0.6) else None
            if self.chance(0.3):
                # rule 11: the value is computed before the condition is tested
                val = ["block", [_trace("val", _V(var)), val], [], None]
                cond = ["bin", self.pick(["!=", "==", "<", ">"]), _V(var),
                        self.lit(ets[0])] if ets[0] == "int" or self.chance(0.5) else cond
                if cond is not None and cond[1] in ("<", ">") and ets[0] != "int":
                    cond[1] = "!="
        finally:
            if pure:
                self.no_calls -= 1
            self.frame = saved
        tag = "lcomp" if shape == "l" else "scomp"
        return [tag, val, var, what, it, cond]

    def gen_mapcomp(self, keytyp, d):
        # keys must be distinct: iterate over something with distinct elements
        # and use the element itself (or an injective function of it) as key
        if keytyp == "int":
            c = self.pick(["range", "set", "ikeys"])
            if c == "range":
                what, it = None, _call("range", _I(self.small_n()))
            elif c == "set":
                what, it = None, self.e_set(d)
            else:
                what, it = "keys", self.e_imap(d)
        else:
            if self.chance(0.5):
                what, it = None, self.e_sset(d)
            else:
                what, it = "keys", self.e_map(d)
        var = self.newname("v", keytyp)
        saved = self.frame
        self.frame = self.comp_scope(var, keytyp)
        self.no_calls += 1
        try:
            if keytyp == "int":
                key = self.pick([_V(var), ["bin", "+", _V(var), self.lit_int()],
                                 ["bin", "*", _V(var), _I(2)]])
            else:
                key = self.pick([_V(var), ["bin", "+", _V(var), _S("_")]])
            val = self.e_int(min(d, 1))
            cond = self.e_bool(min(d, 1)) if self.chance(0.5) else None
        finally:
            self.no_calls -= 1
            self.frame = saved
        return ["mcomp", key, val, var, what, it, cond]

    # -- closures as values -------------------------------------------------------
    def e_dec(self, d):
        return _I(self.rng.randrange(0, 4))

    def closure_vars(self, typ):
        return [n for n in self.visible(typ) if n not in self.inprogress]

    def e_k(self, d):
        return self.e_clos("k", d)

    def e_u(self, d):
        return self.e_clos("u", d)

    def e_clos(self, typ, d):
        opts = [("lambda", 2)]
        if self.closure_vars(typ):
            opts.append(("var", 2))
        if not self.no_calls and self.callable_fns(typ):
            opts.append(("call", 4))
        c = self.wpick(opts)
        if c == "var":
            name = self.pick(self.closure_vars(typ))
            self.note_call(name)
            return _V(name)
        if c == "call":
            return self.gen_call(self.pick(self.callable_fns(typ)), d)
        return self.gen_lambda(typ, d - 1)

    def gen_lambda(self, typ, d=2):
        """fn() ... -> int   or   fn(y) ... -> int ; may assign captured variables"""
        params = []
        fr = _Frame("fn", self.frame)
        if typ == "u":
            p = self.pick(["x", "y", "n"])
            has_def = self.chance(0.15)
            params.append([p, self.lit_int() if has_def else None])
            fr.defs[p] = True
        saved = (self.frame, self.loop_depth, self.blk_depth)
        self.frame, self.loop_depth, self.blk_depth = fr, 0, 0
        self.fn_depth += 1
        self.ret_types.append("int")
        pure = d <= 0
        if pure:
            self.no_calls += 1
        d = max(0, min(d, 2))
        try:
            body = []
            targets = [n for n in self.visible("int") if n in _NAME_TYPES and n != "lv"]
            if targets and self.chance(0.7):
                t = self.pick(targets)
                body.append(["assign", t, ["bin", self.pick(["+", "+", "*", "-"]), _V(t),
                                           self.e_int(min(d, 1))]])
            if self.chance(0.5):
                body.append(_trace("lam", self.e_int(min(d, 1))))
            body.append(self.e_int(d))
        finally:
            if pure:
                self.no_calls -= 1
            self.ret_types.pop()
            self.fn_depth -= 1
            self.frame, self.loop_depth, self.blk_depth = saved
        return ["fn", params, None, body]

    # -- signatures and calls ------------------------------------------------------
    def new_sig(self, ret):
        r = self.rng
        n = self.wpick([(0, 1), (1, 3), (2, 4), (3, 3), (4, 1)])
        pool = ["a", "b", "c", "d", "x", "y", "z", "n"]
        if self.chance(0.3):
            pool = pool + ["sa", "sb", "la", "pa"]
        if self.profile in ("scoping", "mixed") and self.chance(0.3):
            pool = pool + ["ua", "ka"]
        names = r.sample(pool, n)
        pdef = 0.45 if self.profile in ("calls", "mixed") else 0.25
        params = [[nm, self.chance(pdef) and self.typeof(nm) not in ("k", "u")] for nm in names]
        rest = None
        if self.chance(0.4 if self.profile in ("calls", "mixed") else 0.15):
            rest = self.pick(["rest", "more"])
        return _Sig(params, rest, ret)

    def gen_call(self, name, d, pipeline_ok=True):
        """a well-formed call of the named function (rule 5)"""
        sig = self.sigs[name]
        self.note_call(name)
        r = self.rng
        params = sig.params
        pnamed = {"calls": 0.3, "mixed": 0.25}.get(self.profile, 0.1)
        named = [p for p in params if self.chance(pnamed)]
        rest_params = [p for p in params if p not in named]
        # positional prefix of the non-named parameters; the others need defaults
        k = len(rest_params)
        while k > 0 and rest_params[k - 1][1] and self.chance(0.5):
            k -= 1
        pos = []
        for p in rest_params[:k]:
            pos.append(["pos", self.expr(self.typeof(p[0]), d)])
        if sig.rest is not None and k == len(rest_params):
            for _ in range(self.wpick([(0, 3), (1, 2), (2, 2), (3, 1)])):
                pos.append(["pos", self.e_int(min(d, 1))])
        # spread: replace a run of positional arguments by a list literal / variable
        if pos and self.chance({"calls": 0.3, "mixed": 0.2}.get(self.profile, 0.05)):
            i = r.randrange(0, len(pos))
            j = r.randrange(i, len(pos)) + 1
            pos[i:j] = [["spread", ["list", [a[1] for a in pos[i:j]]]]]
        elif (sig.rest is not None and k == len(rest_params) and self.visible("list")
              and self.chance(0.3)):
            pos.append(["spread", _V(self.pick(self.visible("list")))])
        nargs = [["named", p[0], self.expr(self.typeof(p[0]), d)] for p in named]
        r.shuffle(nargs)
        args = pos + nargs
        if (pipeline_ok and args and args[0][0] == "pos"
                and self.chance({"calls": 0.25, "mixed": 0.2}.get(self.profile, 0.05))):
            return ["pipe", args[0][1], name, args[1:]]
        return ["call", _V(name), args]

    def gen_badcall(self, name):
        """an ill-formed call: raises one of the binding errors of rule 5"""
        sig = self.sigs[name]
        self.note_call(name)
        params = sig.params
        kinds = ["unknown", "order"]
        if sig.rest is None:
            kinds.append("toomany")
        if any(not p[1] for p in params):
            kinds.append("missing")
        kind = self.pick(kinds)
        full = [["pos", self.expr(self.typeof(p[0]), 1)] for p in params]
        if kind == "toomany":
            return ["call", _V(name), full + [["pos", self.e_int(1)] for _ in range(self.rng.randrange(1, 3))]]
        if kind == "missing":
            req = [i for i, p in enumerate(params) if not p[1]]
            i = self.pick(req)
            # everything before positionally, everything after by name, parameter i absent
            args = full[:i] + [["named", p[0], self.expr(self.typeof(p[0]), 1)]
                               for p in params[i + 1:] if self.chance(0.7)]
            return ["call", _V(name), args]
        if kind == "unknown":
            k = self.rng.randrange(0, len(params) + 1)
            return ["call", _V(name), full[:k] + [["named", self.pick(["zz", "w", "self", "rest"]),
                                                  self.e_int(1)]]]
        # positional after named
        if params:
            i = self.rng.randrange(0, len(params))
            args = [["named", params[i][0], self.expr(self.typeof(params[i][0]), 1)]]
            args += [["pos", self.e_int(1)]]
            if self.chance(0.3):
                args = full[:i] + args
        else:
            args = [["named", "zz", self.e_int(1)], ["pos", self.e_int(1)]]
        return ["call", _V(name), args]

    # -- objects ---------------------------------------------------------------------
    def method(self, which):
        slf = ["var", "self"]
        if which == "mget":
            field = self.pick(["va", "vb"])
            e = ["member", slf, field]
            if self.chance(0.5):
                e = ["bin", self.pick(["+", "*", "-"]), e, self.var_or_lit("int")]
            return ["fn", [["self", None]], None, [_trace("mget", ["member", slf, field]), e]]
        if which == "madd":
            base = (["mcall", slf, "mget", []] if self.chance(0.5)
                    else ["member", slf, self.pick(["va", "vb"])])
            return ["fn", [["self", None], ["x", self.lit_int()]], None,
                    [_trace("madd", _V("x")), ["bin", "+", base, _V("x")]]]
        if which == "mpush":
            val = _V("x") if self.chance(0.6) else ["mcall", slf, "madd", [["pos", _V("x")]]]
            return ["fn", [["self", None], ["x", None]], None,
                    [_call("append", ["member", slf, "vl"], val),
                     _call("length", ["member", slf, "vl"])]]
        raise ValueError(which)

    def gen_objlit(self, proto):
        members = []
        if proto is None:
            names = ["va", "vb", "vl", "mget", "madd", "mpush"]
        else:
            members.append(["_proto_", _V(proto)])
            names = [m for m in ["va", "vb", "vl", "mget", "madd", "mpush"]
                     if self.chance(0.55 if m in ("va", "vb") else 0.2)]
        self.rng.shuffle(names)
        for m in names:
            if m in ("va", "vb"):
                members.append([m, self.e_int(1)])
            elif m == "vl":
                members.append([m, self.lit("list")])
            else:
                members.append([m, self.method(m)])
        if proto is not None and self.chance(0.5):
            # keep _proto_ anywhere in the literal
            p = members.pop(0)
            members.insert(self.rng.randrange(0, len(members) + 1), p)
        return ["obj", members]

    def pick_obj(self):
        objs = self.visible("obj")
        deep = [o for o in objs if self.obj_depth.get(o, 0) >= 1]
        return self.pick(deep) if deep and self.chance(0.7) else self.pick(objs)

    def obj_int_expr(self, d):
        o = self.pick_obj()
        self.note_call(o)
        ov = _V(o)
        c = self.wpick([("field", 2), ("mget", 2), ("madd", 3), ("mpush", 1.5), ("len", 1)])
        if c == "field":
            return ["member", ov, self.pick(["va", "vb"])]
        if c == "mget":
            return ["mcall", ov, "mget", []]
        if c == "madd":
            m = self.pick(["none", "pos", "named"])
            if m == "none":
                return ["mcall", ov, "madd", []]
            if m == "pos":
                return ["mcall", ov, "madd", [["pos", self.e_int(d)]]]
            return ["mcall", ov, "madd", [["named", "x", self.e_int(d)]]]
        if c == "mpush":
            return ["mcall", ov, "mpush", [["pos", self.e_int(d)]]]
        return _call("length", ["member", ov, "vl"])

    # -- statements --------------------------------------------------------------------
    def gen_stmts(self, n, value_type=None):
        out = []
        for _ in range(n):
            if self.budget <= 0:
                break
            out.extend(self.gen_stmt())
        if value_type is not None:
            out.append(self.value_tail(value_type))
        return out

    def value_tail(self, typ):
        if (self.fn_depth > 0 and self.ret_types and self.ret_types[-1] == typ
                and not self.no_return and self.chance(0.25)):
            return ["return", self.expr(typ, 2)]
        return self.expr(typ, 2)

    def jump_stmt(self):
        """break / continue / return, usually guarded by a condition"""
        opts = []
        if self.loop_depth > 0:
            opts += [("break", 2), ("continue", 2)]
        if self.fn_depth > 0 and self.ret_types and not self.no_return:
            opts += [("return", 1.5)]
        if not opts:
            return []
        c = self.wpick(opts)
        if c == "return":
            st = ["return", self.expr(self.ret_types[-1], 1)]
        else:
            st = [c]
        self.budget -= 1
        if self.chance(0.9):
            pre = [_trace(c)] if self.chance(0.3) else []
            cond = self.e_bool(1)
            ivars = [n for n in self.frame.loopvars if n in self.frame.defs and self.typeof(n) == "int"]
            if ivars and self.chance(0.6):
                cond = ["bin", self.pick(["==", ">", ">=", "<", "!="]), _V(self.pick(sorted(ivars))),
                        _I(self.rng.randrange(0, 4))]
            return [["if", [[cond, pre + [st]]], None]]
        return [st]

    def gen_stmt(self):
        w = self.w
        opts = [("defv", w["defv"]), ("assign", w["assign"]), ("trace", w["trace"]),
                ("iff", w["iff"] if self.nest < 4 else 0),
                ("forl", w["forl"] if self.loop_depth < self.max_loop and self.nest < 5 else 0),
                ("whilel", w["whilel"] if self.loop_depth < self.max_loop and self.nest < 5 else 0),
                ("block", w["block"] if self.blk_depth < self.max_blk and self.nest < 6 else 0),
                ("append", w["append"]), ("comp", w["comp"]),
                ("raisee", w["raisee"]), ("rterr", w["rterr"]),
                ("obj", w["obj"] if len(self.visible("obj")) < 3 else w["obj"] / 4),
                ("closure", w["closure"]),
                ("fndef", w["fndef"] if self.fn_depth < self.max_fn_depth else 0),
                ("rec", 0.6 if self.fn_depth < 2 and self.profile in ("scoping", "mixed", "calls") else 0.1)]
        if self.callable_fns():
            opts += [("call", w["call"]), ("badcall", w["badcall"])]
        if self.visible("obj"):
            opts.append(("mcall", w["mcall"]))
        if self.loop_depth > 0 or self.fn_depth > 0:
            jw = {"control": 5, "mixed": 2.5, "errors": 2}.get(self.profile, 1.2)
            opts.append(("jump", jw))
        if self.fn_depth > 0:
            opts.append(("shadow", w["shadow"]))
        kind = self.wpick(opts)
        self.budget -= 1
        return getattr(self, "s_" + kind)()

    # plain statements
    def s_jump(self):
        self.budget += 1
        return self.jump_stmt()

    def pick_data_type(self):
        return self.wpick([("int", 5), ("str", 2), ("bool", 1), ("list", 3), ("slist", 0.7),
                           ("set", 1), ("sset", 0.5), ("map", 1), ("imap", 0.5)])

    def s_defv(self):
        typ = self.pick_data_type()
        pool = [n for n, t in _NAME_TYPES.items() if t == typ]
        name = self.pick(pool)
        e = self.expr(typ, 2)
        self.define(name)
        return [["def", name, e]]

    def s_shadow(self):
        """define, in this function frame, a name that an outer frame also binds"""
        here = set(self.frame.defs) | self.frame.maybe
        cands = []
        f = self.frame.parent
        while f is not None:
            for n in list(f.defs) + sorted(f.maybe):
                if n in _NAME_TYPES and _NAME_TYPES[n] in _DATA_TYPES and n not in here:
                    cands.append(n)
            f = f.parent
        if not cands:
            return self.s_defv()
        name = self.pick(sorted(set(cands)))
        e = self.expr(_NAME_TYPES[name], 2)
        self.define(name)
        return [["def", name, e]]

    def s_assign(self):
        cands = []
        for typ in _DATA_TYPES:
            for n in self.visible(typ):
                if n in _NAME_TYPES:
                    cands.append(n)
        if not cands:
            return self.s_defv()
        name = self.pick(cands)
        typ = _NAME_TYPES[name]
        if typ == "int" and self.chance(0.6):
            e = ["bin", self.pick(["+", "-", "*", "+"]), _V(name), self.e_int(1)]
        elif typ == "str" and self.chance(0.5):
            e = ["bin", "+", _V(name), self.e_str(1)]
        elif typ in ("list", "slist") and self.chance(0.5):
            e = ["bin", "+", _V(name), self.expr(typ, 1)]
        else:
            e = self.expr(typ, 2)
        return [["assign", name, e]]

    def s_trace(self):
        typ = self.pick_data_type()
        tag = self.pick(["t", "v", "at", "p"]) + str(self.rng.randrange(0, 10))
        if typ == "str" and self.chance(0.5):
            return [_println(self.e_str(2))]
        if self.chance(0.3):
            return [_println(self.expr(typ, 2))]
        return [_trace(tag, self.expr(typ, 2))]

    def s_append(self):
        typ = self.pick(["list", "list", "slist"])
        cands = [n for n in self.visible(typ) if n not in self.locked]
        if not cands:
            return self.s_defv()
        name = self.pick(cands)
        elem = "int" if typ == "list" else "str"
        e = _call("append", _V(name), self.expr(elem, 1))
        if self.chance(0.25):
            # the returned list is the same list: alias it
            other = self.pick([n for n, t in _NAME_TYPES.items() if t == typ])
            if other != name and other not in self.locked:
                self.define(other)
                return [["def", other, e]]
        return [e]

    def s_comp(self):
        c = self.pick(["list", "slist", "set", "sset", "map", "imap"])
        if c in ("list", "slist"):
            e = self.gen_comp("l", "int" if c == "list" else "str", 2)
        elif c in ("set", "sset"):
            e = self.gen_comp("s", "int" if c == "set" else "str", 2)
        else:
            e = self.gen_mapcomp("str" if c == "map" else "int", 2)
        if self.chance(0.5):
            return [_trace("comp", e)]
        name = self.pick([n for n, t in _NAME_TYPES.items() if t == c])
        if name in self.locked:
            return [_trace("comp", e)]
        self.define(name)
        return [["def", name, e]]

    def s_iff(self):
        branches = []
        nb = self.wpick([(1, 4), (2, 2), (3, 1)])
        for _ in range(nb):
            cond = self.e_bool(2)
            with self.nested():
                body = self.gen_stmts(self.rng.randrange(1, 4))
            branches.append([cond, body])
        els = None
        if self.chance(0.5):
            with self.nested():
                els = self.gen_stmts(self.rng.randrange(1, 3))
        return [["if", branches, els]]

    def s_forl(self):
        what, it, ets = self.gen_iterable(1)
        lock = it[1] if it[0] == "var" and self.typeof(it[1]) in ("list", "slist") else None
        names = [self.newname("i", t) for t in ets]
        newly = lock is not None and lock not in self.locked
        if newly:
            self.locked.add(lock)
        self.loop_depth += 1
        with self.nested():
            for nm in names:
                self.frame.defs[nm] = True
                self.frame.loopvars.add(nm)
            body = [_trace("it", _V(names[0]) if len(names) == 1 else ["list", [_V(x) for x in names]])]
            if what == "keys" and it[0] == "var" and self.chance(0.7):
                body.append(_trace("at", ["index", it, _V(names[0])]))
            body += self.gen_stmts(self.rng.randrange(1, 4))
            if self.chance(0.3):
                body += self.jump_stmt()
                if self.chance(0.5):
                    body += self.gen_stmts(1)
        self.loop_depth -= 1
        for nm in names:
            self.frame.defs.pop(nm, None)
            self.frame.maybe.discard(nm)
            self.frame.loopvars.discard(nm)
        if newly:
            self.locked.discard(lock)
        return [["for", names, what, it, body]]

    def s_whilel(self):
        w = self.newname("w", "wcnt")
        k = self.rng.randrange(1, 5)
        cond = ["bin", "<", _V(w), _I(k)]
        if self.chance(0.3):
            cond = ["and", cond, self.e_bool(1)]
        self.define(w)
        self.loop_depth += 1
        with self.nested():
            body = [["assign", w, ["bin", "+", _V(w), _I(1)]], _trace("wh", _V(w))]
            body += self.gen_stmts(self.rng.randrange(1, 4))
            if self.chance(0.3):
                body += self.jump_stmt()
        self.loop_depth -= 1
        return [["def", w, _I(0)], ["while", cond, body]]

    # errors ---------------------------------------------------------------------------
    def error_value(self):
        c = self.wpick([("int", 4), ("str", 3), ("bool", 1), ("null", 1), ("list", 1), ("expr", 1)])
        if c == "int":
            return _I(self.pick([1, 2, 12, 12, 7]))
        if c == "str":
            return _S(self.pick(["boom", "ERROR", "e1", "12"]))
        if c == "bool":
            return ["bool", self.chance(0.5)]
        if c == "null":
            return ["null"]
        if c == "list":
            return ["list", [self.lit_int(), self.lit_str()]]
        return self.e_int(1)

    def catch_expr(self):
        c = self.wpick([("int", 4), ("str", 3), ("var", 1)])
        if c == "int":
            return _I(self.pick([1, 2, 12, 12, 7]))
        if c == "str":
            return _S(self.pick(["boom", "ERROR", "ERROR", "e1", "12"]))
        vs = self.visible("int") + self.visible("str")
        if vs:
            return _V(self.pick(vs))
        return _S("ERROR")

    def raise_site(self):
        """a statement that raises (an error statement or a runtime error)"""
        c = self.wpick([("error", 5), ("undef", 2), ("div", 2), ("assign", 1), ("badcall", 1)])
        if c == "error":
            return ["error", self.error_value()]
        if c == "undef":
            self.undef += 1
            return self.pick([_println(_V("undef%d" % self.undef)),
                              ["def", "x", ["bin", "+", _V("undef%d" % self.undef), _I(1)]]])
        if c == "div":
            return _trace("div", ["bin", self.pick(["/", "%"]), self.e_int(1),
                                  self.pick([_I(0), ["bin", "-", _I(3), _I(3)]])])
        if c == "assign":
            self.undef += 1
            # rule 3: the existence check precedes the evaluation of the right side
            rhs = ["block", [_trace("rhs evaluated"), self.e_int(1)], [], None]
            if self.callable_fns("int") and self.chance(0.5):
                rhs = self.gen_call(self.pick(self.callable_fns("int")), 1)
            return ["assign", "nodef%d" % self.undef, rhs]
        fns = self.callable_fns()
        if fns:
            return _println(self.gen_badcall(self.pick(fns)))
        return ["error", self.error_value()]

    def guarded(self, st, p_guard):
        if self.chance(p_guard):
            return ["if", [[self.e_bool(1), [st]]], None]
        return st

    def protect(self, st):
        """raises outside of any handler end the program early: mostly wrap them"""
        if self.blk_depth > 0 or self.chance(0.1):
            return [self.guarded(st, 0.3 if self.blk_depth > 0 else 0.8)]
        ce = self.pick([None, None, _S("ERROR"), self.catch_expr()])
        catches = [[ce, [_trace("caught")]]]
        if ce is not None and self.chance(0.7):
            catches.append([None, [_trace("caught all")]])
        fin = [_trace("fin")] if self.chance(0.4) else None
        pre = self.gen_stmts(1) if self.chance(0.4) else []
        return [["block", pre + [self.guarded(st, 0.3), _trace("after raise")], catches, fin]]

    def s_raisee(self):
        return self.protect(["error", self.error_value()])

    def s_rterr(self):
        return self.protect(self.raise_site())

    def s_badcall(self):
        fns = self.callable_fns()
        call = self.gen_badcall(self.pick(fns))
        st = self.pick([_println(call), call, _trace("bad", call)])
        if self.chance(0.85):
            handler = [_trace("caught bad")]
            ce = None if self.chance(0.6) else _S("ERROR")
            return [["block", [st, _trace("not reached")], [[ce, handler]], None]]
        return [self.guarded(st, 0.8)]

    def recatch_template(self):
        """an error raised by a handler skips the later clauses of its own block
        (whose finally part still runs) and is caught by the enclosing block"""
        v = self.pick([_I(1), _I(12), _S("boom"), _S("ERROR")])
        w = self.pick([x for x in [_I(2), _I(7), _S("e1"), _S("ERROR")] if x != v])
        first = ["error", v] if v != _S("ERROR") or self.chance(0.5) else _println(_V("undef0"))
        second = ["error", w] if w != _S("ERROR") or self.chance(0.5) else ["assign", "nodef0", _I(1)]
        inner_catches = [[v, [_trace("caught first"), second, _trace("not reached")]],
                         [w, [_trace("wrong clause")]]]
        if self.chance(0.5):
            inner_catches.append([None, [_trace("wrong clause all")]])
        fin = [_trace("fin inner")] if self.chance(0.7) else None
        inner = ["block", [_trace("try"), first], inner_catches, fin]
        outer_catches = [[w, [_trace("caught second")]]] if self.chance(0.6) else []
        outer_catches.append([None, [_trace("caught second by all")]])
        return [["block", [inner, _trace("not reached")], outer_catches,
                 [_trace("fin outer")] if self.chance(0.5) else None]]

    def s_block(self, value_type=None):
        if value_type is None and self.chance(0.1):
            return self.recatch_template()
        self.blk_depth += 1
        with self.nested():
            body = [_trace("try")] if self.chance(0.4) else []
            nb = self.rng.randrange(1, 4)
            pos = self.rng.randrange(0, nb + 1)
            praise = {"errors": 0.8, "mixed": 0.6}.get(self.profile, 0.4)
            for i in range(nb + 1):
                if i == pos and self.chance(praise):
                    body.append(self.guarded(self.raise_site(), 0.35))
                if i < nb:
                    body += self.gen_stmts(1)
            if value_type is not None:
                body.append(self.expr(value_type, 1))
        self.blk_depth -= 1
        catches = []
        for _ in range(self.wpick([(0, 2), (1, 4), (2, 2)])):
            catches.append([self.catch_expr(), self.handler(value_type)])
        if self.chance(0.06):
            # TRUE is not 1, '12' is not 12, NULL is not 0: such a clause must not match
            ev, ce = self.pick([(["bool", True], _I(1)), (["bool", False], _I(0)),
                                (_S("12"), _I(12)), (_I(12), _S("12")), (["null"], _I(0)),
                                (["list", [_I(1)]], _I(1))])
            body.insert(self.rng.randrange(0, len(body) + 1) if value_type is None else 0,
                        ["error", ev])
            catches.insert(0, [ce, self.handler(value_type)])
        if self.chance(0.45 if self.blk_depth > 0 else 0.8) or (not catches and self.chance(0.3)):
            catches.append([None, self.handler(value_type)])
        if len(catches) >= 2 and self.chance(0.2):
            # an error raised by a handler is not caught by the later clauses of the same block
            later = catches[self.rng.randrange(1, len(catches))][0]
            catches[0][1].insert(self.rng.randrange(0, len(catches[0][1]) + 1),
                                 ["error", later if later is not None and later[0] != "var"
                                  else self.error_value()])
        fin = None
        if self.chance(0.5) or not catches:
            # no return/break/continue directly in a finally part (not covered by the rules)
            saved_loop = self.loop_depth
            self.loop_depth = 0
            self.no_return += 1
            with self.nested():
                fin = [_trace("fin")]
                if self.chance(0.5):
                    fin += self.gen_stmts(1)
                if self.chance(0.15 if self.blk_depth > 0 else 0.03):
                    fin.append(self.guarded(self.raise_site(), 0.5))
            self.no_return -= 1
            self.loop_depth = saved_loop
        return [["block", body, catches, fin]]

    def handler(self, value_type):
        with self.nested():
            h = [_trace("caught")] if self.chance(0.8) else []
            if self.chance(0.5):
                h += self.gen_stmts(1)
            r = self.rng.random()
            if r < (0.2 if self.blk_depth > 0 else 0.04):
                h.append(self.guarded(self.raise_site(), 0.3))
            elif r < 0.3:
                h += self.jump_stmt()
            if value_type is not None:
                h.append(self.expr(value_type, 1))
        return h

    # functions ------------------------------------------------------------------------
    def free_names(self, pool):
        fr = self.frame
        return [n for n in pool if n not in fr.defs and n not in fr.maybe
                and n not in fr.called and n not in self.inprogress]

    def pick_ret(self):
        cw = {"scoping": 3.5, "mixed": 1.2}.get(self.profile, 0.3)
        return self.wpick([("int", 6), ("str", 1.2), ("list", 1.5), ("k", cw), ("u", cw)])

    def s_fndef(self):
        cands = self.free_names(_FN_NAMES)
        if not cands:
            return self.s_defv()
        outer = [n for n in cands if n in self.sigs]
        if outer and self.fn_depth > 0 and self.chance(0.6 if self.profile == "scoping" else 0.3):
            name = self.pick(outer)          # shadow a function name of an outer scope
        else:
            name = self.pick(cands[:4] if self.chance(0.7) else cands)
        if name not in self.sigs:
            self.sigs[name] = self.new_sig(self.pick_ret())
        out = [self.build_fn(name, self.sigs[name])]
        # use the function right away, so that its body is not dead code
        for _ in range(self.wpick([(0, 1), (1, 5), (2, 2)])):
            if name in self.callable_fns():
                out += self.s_call(name)
        return out

    def enter_fn(self, fr, ret):
        saved = (self.frame, self.loop_depth, self.blk_depth, self.nest, self.no_return)
        self.frame, self.loop_depth, self.blk_depth, self.nest, self.no_return = fr, 0, 0, 0, 0
        self.fn_depth += 1
        self.ret_types.append(ret)
        return saved

    def leave_fn(self, saved):
        self.ret_types.pop()
        self.fn_depth -= 1
        self.frame, self.loop_depth, self.blk_depth, self.nest, self.no_return = saved

    def build_fn(self, name, sig):
        self.define(name)
        self.inprogress.append(name)
        fr = _Frame("fn", self.frame)
        saved = self.enter_fn(fr, sig.ret)
        try:
            params = []
            for i, (pn, hasdef) in enumerate(sig.params):
                default = None
                if hasdef:
                    # a default never mentions a parameter declared after it (the
                    # real interpreter evaluates it before those are bound)
                    self.hidden = set(q[0] for q in sig.params[i + 1:])
                    if sig.rest is not None:
                        self.hidden.add(sig.rest + "...")
                    pure = self.chance(0.75)
                    self.no_calls += 1 if pure else 0
                    default = self.expr(self.typeof(pn), 1)
                    self.no_calls -= 1 if pure else 0
                    self.hidden = set()
                params.append([pn, default])
                fr.defs[pn] = True
            if sig.rest is not None:
                self.fresh_types[sig.rest + "..."] = "list"
                fr.defs[sig.rest + "..."] = True
            shown = [_V(p[0]) for p in sig.params if self.typeof(p[0]) in _DATA_TYPES + ["dec"]]
            if sig.rest is not None:
                shown.append(_V(sig.rest + "..."))
            body = [_trace(name, ["list", shown])]
            nst = self.rng.randrange(1, 5 if self.profile == "scoping" else 4)
            body += self.gen_stmts(nst)
            if sig.ret in ("k", "u"):
                if self.chance(0.5):
                    loc = self.pick(["c", "n", "x"])
                    body.append(["def", loc, self.e_int(1)])
                    self.define(loc)
                if self.chance(0.75):
                    body.append(self.gen_lambda(sig.ret))
                elif self.chance(0.5) and self.fn_depth < self.max_fn_depth:
                    # return an inner named function
                    inner = self.inner_fn(sig.ret)
                    body += inner
                else:
                    body.append(self.e_clos(sig.ret, 1))
            else:
                body.append(self.value_tail(sig.ret))
        finally:
            self.leave_fn(saved)
            self.inprogress.remove(name)
        return ["defn", name, params, sig.rest, body]

    def inner_fn(self, typ):
        name = self.newname("in", "fn")
        lam = self.gen_lambda(typ)
        return [["defn", name, lam[1], None, lam[3]], _V(name)]

    def s_rec(self):
        name = self.newname("rec", "fn")
        has_a = self.chance(0.6)
        sig = _Sig([["lv", False]] + ([["a", self.chance(0.3)]] if has_a else []), None, "int")
        self.define(name)
        self.inprogress.append(name)
        fr = _Frame("fn", self.frame)
        fr.defs["lv"] = True
        saved = self.enter_fn(fr, "int")
        try:
            params = [["lv", None]]
            if has_a:
                params.append(["a", self.lit_int() if sig.params[1][1] else None])
                fr.defs["a"] = True
            body = [_trace(name, _V("lv"))]
            with self.nested():
                base = self.gen_stmts(self.rng.randrange(0, 2)) + [self.e_int(1)]
            with self.nested():
                step = self.gen_stmts(self.rng.randrange(0, 3))
                rc = ["call", _V(name), [["pos", ["bin", "-", _V("lv"), _I(1)]]]
                      + ([["pos", self.e_int(1)]] if has_a else [])]
                loc = self.pick(["x", "y", "z"])
                step.append(["def", loc, rc])
                self.define(loc)
                step.append(_trace("back", ["list", [_V("lv"), _V(loc)]]))
                step.append(["bin", self.pick(["+", "*", "-"]), _V(loc), self.e_int(1)])
            body.append(["if", [[["bin", "<=", _V("lv"), _I(0)], base]], step])
        finally:
            self.leave_fn(saved)
            self.inprogress.remove(name)
        self.sigs[name] = sig
        out = [["defn", name, params, None, body]]
        if self.chance(0.8):
            out.append(_trace("rec", self.gen_call(name, 1)))
        return out

    def s_call(self, name=None):
        if name is None:
            name = self.pick(self.callable_fns())
        e = self.gen_call(name, 2)
        ret = self.sigs[name].ret
        if ret in ("k", "u"):
            cands = self.free_names([n for n, t in _NAME_TYPES.items() if t == ret])
            if cands and self.chance(0.8):
                v = self.pick(cands)
                self.define(v)
                out = [["def", v, e]]
                if self.chance(0.6):
                    out.append(_trace("clos", self.call_closure(v)))
                return out
            if ret == "k":
                return [_trace("imm", ["call", e, []])]
            return [_trace("imm", ["call", e, [["pos", self.e_int(1)]]])]
        c = self.wpick([("trace", 4), ("def", 3), ("assign", 2), ("bare", 1)])
        pool = [n for n, t in _NAME_TYPES.items() if t == ret]
        if c == "trace":
            return [_trace("call", e)]
        if c == "def":
            v = self.pick(pool)
            self.define(v)
            return [["def", v, e]]
        if c == "assign":
            vs = [n for n in self.visible(ret) if n in _NAME_TYPES]
            if vs:
                return [["assign", self.pick(vs), e]]
        return [e]

    def call_closure(self, v):
        self.note_call(v)
        if self.typeof(v) == "k":
            return ["call", _V(v), []]
        return ["call", _V(v), [["pos", self.e_int(1)]]]

    def s_closure(self):
        have = self.closure_vars("k") + self.closure_vars("u")
        if have and self.chance(0.5):
            v = self.pick(have)
            return [_trace("clos", self.call_closure(v))]
        typ = self.pick(["k", "u"])
        cands = self.free_names([n for n, t in _NAME_TYPES.items() if t == typ])
        if not cands:
            return self.s_trace()
        v = self.pick(cands)
        self.inprogress.append(v)
        try:
            e = self.e_clos(typ, 1)
        finally:
            self.inprogress.remove(v)
        self.define(v)
        out = [["def", v, e]]
        if self.chance(0.5):
            out.append(_trace("clos", self.call_closure(v)))
        return out

    def s_obj(self):
        cands = self.free_names(["oa", "ob", "oc"])
        if not cands:
            return self.s_trace()
        name = self.pick(cands)
        protos = [o for o in self.visible("obj") if self.obj_depth.get(o, 0) < 2
                  and o not in self.inprogress]
        proto = None
        if protos and self.chance(0.8):
            deep = [o for o in protos if self.obj_depth.get(o, 0) == 1]
            proto = self.pick(deep) if deep and self.chance(0.7) else self.pick(protos)
        self.inprogress.append(name)
        try:
            lit = self.gen_objlit(proto)
        finally:
            self.inprogress.remove(name)
        depth = 0 if proto is None else self.obj_depth.get(proto, 0) + 1
        if proto is not None:
            self.note_call(proto)
        self.obj_depth[name] = max(self.obj_depth.get(name, 0), depth)
        self.define(name)
        return [["def", name, lit]]

    def s_mcall(self):
        if not self.visible("obj"):
            return self.s_trace()
        o = self.pick_obj()
        c = self.wpick([("int", 6), ("missing", 1), ("vl", 1)])
        if c == "int":
            return [_trace("m", self.obj_int_expr(1))]
        self.note_call(o)
        if c == "missing":
            # (a bare NULL is not printed: the real println/string give '' for it)
            return [_println(["list", [["member", _V(o), self.pick(["zz", "vc", "mnone"])]]])]
        return [_trace("vl", ["member", _V(o), "vl"])]

    # whole program ----------------------------------------------------------------------
    def program(self):
        stmts = []
        for typ, name, p in (("int", "a", 1.0), ("int", "b", 0.7), ("str", "sa", 0.8),
                             ("list", "la", 0.9), ("set", "qa", 0.4), ("map", "ma", 0.4),
                             ("imap", "mi", 0.2), ("sset", "qs", 0.2), ("slist", "ta", 0.2),
                             ("bool", "pa", 0.3)):
            if self.chance(p):
                stmts.append(["def", name, self.lit(typ)])
                self.define(name)
        seeds = {"calls": 2, "scoping": 2, "errors": 1, "mixed": 1, "control": 0}[self.profile]
        for _ in range(seeds):
            stmts += self.s_fndef()
        if self.profile in ("calls", "mixed") and self.chance(0.6):
            for _ in range(self.wpick([(1, 2), (2, 3), (3, 3)])):
                stmts += self.s_obj()
            stmts += self.s_mcall()
        guard = 0
        while self.budget > 0 and guard < 100:
            guard += 1
            stmts += self.gen_stmt()
        items = []
        for _ in range(self.rng.randrange(2, 6)):
            items.append(self.expr(self.pick_data_type(), 1))
        final = ["list", items] if self.chance(0.85) else self.expr(self.pick_data_type(), 2)
        if self.chance(0.15):
            final = ["return", final]
        stmts.append(final)
        return ["prog", stmts]


def gen_program(rng, profile, size):
    """random program of the profile; `size` is roughly the number of statements.
    Only programs whose behaviour the rules define (reference outcome value/error)
    are returned; every random choice comes from rng."""
    if profile not in PROFILES:
        raise ValueError("unknown profile " + repr(profile))
    last = None
    for attempt in range(200):
        g = _Gen(rng, profile, size)
        ir = g.program()
        res, stats = _execute(ir, 40000, coverage=True)
        if res["outcome"] not in ("value", "error"):
            continue
        last = ir
        if attempt < 8 and not _nontrivial(ir, profile, stats):
            continue
        if attempt < 6 and stats["coverage"] < 0.6:
            continue                 # mostly dead code: try again
        return ir
    if last is not None:
        return last
    return ["prog", [["def", "a", ["int", 1]], ["list", [["var", "a"]]]]]


# ----------------------------------------------------------------------------
# generic traversal, nontrivial, shrink
# ----------------------------------------------------------------------------
# field kinds: x leaf, e expr, E optional expr, S stmt list, O optional stmt list,
# L list of exprs (items may be ["spread", e]), A args, P params, B if-branches,
# C catches, K [k, v] pairs, M [name, e] members
_SCHEMA = {
    "prog": "S", "int": "x", "str": "x", "bool": "x", "null": "", "var": "x",
    "list": "L", "set": "L", "map": "K", "obj": "M", "bin": "xee", "and": "ee", "or": "ee",
    "not": "e", "if": "BO", "call": "eA", "pipe": "exA", "mcall": "exA", "member": "ex",
    "index": "ee", "fn": "PxS", "lcomp": "exxeE", "scomp": "exxeE", "mcomp": "eexxeE",
    "block": "SCO", "def": "xe", "defn": "xPxS", "assign": "xe", "for": "xxeS",
    "while": "eS", "break": "", "continue": "", "return": "e", "error": "e", "spread": "e",
}


def _slots(node, path=()):
    """yields (path, kind) with kind 'S' (statement list) or 'e' (expression node)"""
    schema = _SCHEMA[node[0]]
    for i, k in enumerate(schema, 1):
        sub, p = node[i], path + (i,)
        if k == "e" or (k == "E" and sub is not None):
            yield p, "e"
            yield from _slots(sub, p)
        elif k == "S" or (k == "O" and sub is not None):
            yield p, "S"
            for j, st in enumerate(sub):
                yield p + (j,), "e"
                yield from _slots(st, p + (j,))
        elif k == "L":
            for j, it in enumerate(sub):
                if it[0] == "spread":
                    yield from _slots(it, p + (j,))
                else:
                    yield p + (j,), "e"
                    yield from _slots(it, p + (j,))
        elif k == "A":
            for j, a in enumerate(sub):
                idx = 2 if a[0] == "named" else 1
                if a[0] != "spread":
                    yield p + (j, idx), "e"
                yield from _slots(a[idx], p + (j, idx))
        elif k == "P":
            for j, prm in enumerate(sub):
                if prm[1] is not None:
                    yield p + (j, 1), "e"
                    yield from _slots(prm[1], p + (j, 1))
        elif k == "B":
            for j, (c, b) in enumerate(sub):
                yield p + (j, 0), "e"
                yield from _slots(c, p + (j, 0))
                yield p + (j, 1), "S"
                for m, st in enumerate(b):
                    yield p + (j, 1, m), "e"
                    yield from _slots(st, p + (j, 1, m))
        elif k == "C":
            for j, (c, b) in enumerate(sub):
                if c is not None:
                    yield p + (j, 0), "e"
                    yield from _slots(c, p + (j, 0))
                yield p + (j, 1), "S"
                for m, st in enumerate(b):
                    yield p + (j, 1, m), "e"
                    yield from _slots(st, p + (j, 1, m))
        elif k == "K":
            for j, kv in enumerate(sub):
                for m in (0, 1):
                    yield p + (j, m), "e"
                    yield from _slots(kv[m], p + (j, m))
        elif k == "M":
            for j, kv in enumerate(sub):
                yield p + (j, 1), "e"
                yield from _slots(kv[1], p + (j, 1))


def _get(ir, path):
    for i in path:
        ir = ir[i]
    return ir


def _nodes(ir):
    yield ir
    for path, kind in _slots(ir):
        if kind == "e":
            yield _get(ir, path)


def _contains_tag(node, tags):
    return any(n[0] in tags for n in _nodes(node))


def _scope_bindings(ir):
    """for each scope (top level, every function/lambda): the set of names it binds"""
    scopes = []

    def visit(node, cur):
        t = node[0]
        if t in ("fn", "defn"):
            if t == "defn":
                cur.add(node[1])
            params, rest, body = (node[1], node[2], node[3]) if t == "fn" else (node[2], node[3], node[4])
            mine = set(p[0] for p in params)
            if rest is not None:
                mine.add(rest + "...")
            scopes.append(mine)
            for p in params:
                if p[1] is not None:
                    visit(p[1], mine)
            for st in body:
                visit(st, mine)
            return
        if t == "def":
            cur.add(node[1])
        elif t == "for":
            cur.update(node[1])
        sub = list(_direct(node))
        for ch in sub:
            visit(ch, cur)

    top = set()
    scopes.append(top)
    for st in ir[1]:
        visit(st, top)
    return scopes


def _direct(node):
    """direct child nodes (expressions and statements)"""
    plen = None
    for path, kind in _slots(node):
        if kind != "e":
            continue
        if plen is not None and len(path) > plen and path[:plen] == last:
            continue
        yield _get(node, path)
        plen, last = len(path), path


def _static_facts(ir):
    scopes = _scope_bindings(ir)
    counts = {}
    for sc in scopes:
        for nm in sc:
            counts[nm] = counts.get(nm, 0) + 1
    same_name = any(c >= 2 for c in counts.values())
    loop_jump = False
    for n in _nodes(ir):
        if n[0] in ("for", "while"):
            body = n[4] if n[0] == "for" else n[2]
            if any(_contains_tag(st, ("break", "continue", "return")) for st in body):
                loop_jump = True
                break
    return same_name, loop_jump


def _nontrivial(ir, profile, stats):
    same_name, loop_jump = _static_facts(ir)
    facts = {
        "scoping": same_name or stats["closure_after_return"],
        "calls": stats["multi_mode_call"],
        "control": loop_jump or stats["comp_over_setmap"],
        "errors": stats["nested_raise"],
    }
    if profile == "mixed":
        return any(facts.values())
    return bool(facts[profile])


def nontrivial(ir, profile):
    """scoping: two scopes bind the same name, or a closure is called after the
    call that created it has returned; calls: one call uses two binding modes;
    control: a loop contains break/continue/return or a comprehension runs over
    a set/map; errors: an error is raised while at least two protected blocks
    (catch/finally) are active; mixed: any of these."""
    res, stats = _execute(ir, 200000)
    return _nontrivial(ir, profile, stats)


def _copy(ir):
    if isinstance(ir, (list, tuple)):
        return [_copy(x) for x in ir]
    return ir


def _set(ir, path, value):
    ir = _copy(ir)
    tgt = ir
    for i in path[:-1]:
        tgt = tgt[i]
    tgt[path[-1]] = value
    return ir


def _size(ir):
    if isinstance(ir, (list, tuple)):
        return 1 + sum(_size(x) for x in ir)
    return 1


def _bodies(node):
    """statement lists nested directly in a statement (for hoisting)"""
    t = node[0]
    if t == "if":
        out = [b for _, b in node[1]]
        if node[2] is not None:
            out.append(node[2])
        return out
    if t == "for":
        return [node[4]]
    if t == "while":
        return [node[2]]
    if t == "block":
        out = [node[1]] + [h for _, h in node[2]]
        if node[3] is not None:
            out.append(node[3])
        return out
    return []


def shrink(ir, still_fails, max_tests=3000):
    """greedy reducer: removes statements, hoists bodies of compound statements,
    drops handlers, replaces sub-expressions by literals or by their own
    sub-expressions, as long as still_fails(ir) stays true"""
    ir = _copy(ir)
    tests = [0]

    def ok(cand):
        if tests[0] >= max_tests:
            return False
        tests[0] += 1
        try:
            return bool(still_fails(cand))
        except Exception:
            return False

    lits = [["int", 0], ["int", 1], ["str", ""], ["bool", True], ["list", []], ["null"]]
    changed = True
    while changed and tests[0] < max_tests:
        changed = False
        # 1. statements: remove, or replace by a nested body
        for path, kind in sorted(_slots(ir), key=lambda pk: -len(pk[0])):
            if kind != "S":
                continue
            try:
                lst = _get(ir, path)
            except (IndexError, TypeError):
                continue
            if not isinstance(lst, list):
                continue
            i = len(lst) - 1
            while i >= 0:
                lst = _get(ir, path)
                if i >= len(lst):
                    i = len(lst) - 1
                    if i < 0:
                        break
                cand = _set(ir, path, lst[:i] + lst[i + 1:])
                if ok(cand):
                    ir, changed = cand, True
                else:
                    for body in _bodies(lst[i]):
                        cand = _set(ir, path, lst[:i] + _copy(body) + lst[i + 1:])
                        if ok(cand):
                            ir, changed = cand, True
                            break
                i -= 1
            if changed:
                break
        if changed:
            continue
        # 2. handlers / finally parts / elif branches
        for n_path, kind in list(_slots(ir)):
            if kind != "e":
                continue
            node = _get(ir, n_path)
            cands = []
            if node[0] == "block":
                for j in range(len(node[2])):
                    cands.append(["block", node[1], node[2][:j] + node[2][j + 1:], node[3]])
                if node[3] is not None:
                    cands.append(["block", node[1], node[2], None])
            elif node[0] == "if":
                for j in range(len(node[1])):
                    if len(node[1]) > 1:
                        cands.append(["if", node[1][:j] + node[1][j + 1:], node[2]])
                if node[2] is not None:
                    cands.append(["if", node[1], None])
            elif node[0] in ("call", "pipe", "mcall"):
                ai = 2 if node[0] == "call" else 3
                for j in range(len(node[ai])):
                    c = list(node)
                    c[ai] = node[ai][:j] + node[ai][j + 1:]
                    cands.append(c)
            elif node[0] in ("list", "set", "map", "obj"):
                for j in range(len(node[1])):
                    cands.append([node[0], node[1][:j] + node[1][j + 1:]])
            for c in cands:
                cand = _set(ir, n_path, _copy(c))
                if ok(cand):
                    ir, changed = cand, True
                    break
            if changed:
                break
        if changed:
            continue
        # 3. expressions: replace by a literal or by one of their children
        for n_path, kind in list(_slots(ir)):
            if kind != "e":
                continue
            node = _get(ir, n_path)
            if node[0] in ("int", "str", "bool", "null", "defn", "def", "for", "while"):
                if node[0] != "int" or node[1] in (0, 1):
                    continue
            repl = [l for l in lits if l != node]
            repl += [ch for ch in _direct(node) if _size(ch) < _size(node)]
            for r in repl:
                if _size(r) >= _size(node):
                    continue
                cand = _set(ir, n_path, _copy(r))
                if ok(cand):
                    ir, changed = cand, True
                    break
            if changed:
                break
    return ir
