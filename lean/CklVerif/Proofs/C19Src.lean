/-
  C19Src — theorems about the SOURCE of the bundled library (src/ckl/modules/*.ckl).

  `Gen/LibSrc.lean` is regenerated on every run by `harness/extract/libsrc.py`: it contains, for chosen library functions,
  the AST the real parser builds for the current text of the module, as a term of the model's `Node` type
  (`Ckl.Gen.LibSrc.math_abs`, …).  The theorems below are about THOSE terms, evaluated by the model evaluator `eval` /
  `callFn` (`Model/Eval.lean`): no hand-written mirror of the function is involved.  If the source of a function changes so
  that the statement becomes false (e.g. `n < 0` to `n <= 0` in `abs`), this file stops building.

  Reading guide.
  * `IsSrc s fn src m`: `fn` is a function value whose parameter list, defaults and body are those of the generated definition
    `src`, closed over frame `m` — what evaluating the node `src` in frame `m` creates (`def_creates_isSrc`).
  * `LibEnv s M nats srcs` (the hypothesis on the state): from every module frame in `M`, `NULL` is NULL, each name in `nats`
    resolves to the built-in of that name and each `(name, src)` in `srcs` to a function made from `src`, closed over a frame of `M`.
    `mathNats`/`mathSrcs` are the lists `abs` and `sign` need.  `exState_libEnv` exhibits a state satisfying it.
  * `Ext s s'`: every frame, heap cell and the output of `s` are unchanged in `s'` (the call only adds frames / cells).
  * The fuel bound is explicit: the statements hold for every fuel above the given constant.
-/
import CklVerif.Lemmas.C19SrcSetup
import CklVerif.Lemmas.C19Int
import CklVerif.Lemmas.C19SrcList
import CklVerif.Lemmas.C19List
namespace Ckl.C19Src
open Ckl Ckl.Lib Ckl.Gen.LibSrc
variable (ld : Loader)

/-! ## 0  the hypothesis is about the right objects and is satisfiable -/

/-- Evaluating a generated definition in a module frame creates a function value that satisfies `IsSrc`, bound to its name. -/
theorem def_creates_isSrc {name : String} {ps : List String} {ds : List Node} {body : Node} {lp dp : Pos} {info : String}
    (s : State) (m : EnvId) (hm : m < s.frames.size) :
    ∃ s', (∀ fuel, 1 < fuel → eval ld fuel m (.defn name (.lambda ps ds body lp) info dp) s = .ok (.closure s.heap.size) s') ∧
      IsSrc s' (.closure s.heap.size) (.defn name (.lambda ps ds body lp) info dp) m ∧
      dictGet name (s'.frame m).vars = some (.closure s.heap.size) := eval_def_isSrc ld s m hm

/-- a concrete state (base frame with NULL and seven built-ins, one module frame with five library functions) satisfies the
    environment hypothesis of the `abs` / `sign` theorems -/
theorem libEnv_satisfiable : LibEnv exState (· = 1) mathNats mathSrcs ∧ IsSrc exState (.closure 3) math_abs 1 ∧
    IsSrc exState (.closure 4) math_sign 1 := ⟨exState_libEnv, exState_abs, exState_sign⟩

/-! ## 1  type.ckl -/

/-- `is_int(v)`: TRUE exactly for ints — for every value `v` -/
theorem is_int_src {s : State} {M nats srcs fn m} (h : LibEnv s M nats srcs) (hn : ∀ x ∈ typeNats, x ∈ nats) (hm : M m)
    (hsrc : IsSrc s fn type_is_int m) (v : RVal) :
    ∃ s', Ext s s' ∧ ∀ fuel env pos, 7 < fuel → callFn ld fuel fn [("obj", v)] env pos s = .ok (.bool v.isInt) s' :=
  let ⟨s', e, c⟩ := is_int_calls ld h hn hm hsrc v; ⟨s', e, fun fuel env pos hf => c env pos fuel hf⟩

/-- `is_decimal(v)` -/
theorem is_decimal_src {s : State} {M nats srcs fn m} (h : LibEnv s M nats srcs) (hn : ∀ x ∈ typeNats, x ∈ nats) (hm : M m)
    (hsrc : IsSrc s fn type_is_decimal m) (v : RVal) :
    ∃ s', Ext s s' ∧ ∀ fuel env pos, 7 < fuel → callFn ld fuel fn [("obj", v)] env pos s = .ok (.bool v.isDecimal) s' :=
  let ⟨s', e, c⟩ := is_decimal_calls ld h hn hm hsrc v; ⟨s', e, fun fuel env pos hf => c env pos fuel hf⟩

/-- `is_list(v)`: TRUE exactly for references to list cells -/
theorem is_list_src {s : State} {M nats srcs fn m} (h : LibEnv s M nats srcs) (hn : ∀ x ∈ typeNats, x ∈ nats) (hm : M m)
    (hsrc : IsSrc s fn type_is_list m) (v : RVal) :
    ∃ s', Ext s s' ∧ ∀ fuel env pos, 7 < fuel → callFn ld fuel fn [("obj", v)] env pos s = .ok (.bool (isListR s v)) s' :=
  let ⟨s', e, c⟩ := is_list_calls ld h hn hm hsrc v; ⟨s', e, fun fuel env pos hf => c env pos fuel hf⟩

/-- `is_numeric(v) = is_int(v) or is_decimal(v)`: calls the two library functions above through the environment -/
theorem is_numeric_src {s : State} {M nats srcs fn m} (h : LibEnv s M nats srcs) (hn : ∀ x ∈ typeNats, x ∈ nats)
    (hs : ∀ p ∈ numericSrcs, p ∈ srcs) (hm : M m) (hsrc : IsSrc s fn type_is_numeric m) (v : RVal) :
    ∃ s', Ext s s' ∧ ∀ fuel env pos, 13 < fuel → callFn ld fuel fn [("obj", v)] env pos s = .ok (.bool v.isNumerical) s' :=
  let ⟨s', e, c⟩ := is_numeric_calls ld h hn hs hm hsrc v; ⟨s', e, fun fuel env pos hf => c env pos fuel hf⟩

/-! ## 2  math.ckl: `abs`, `sign` -/

/-- **The source of `abs` computes |n|** on every int `n`, for every fuel above 21, in every state satisfying the environment
    hypothesis; nothing that existed before the call is changed. -/
theorem abs_src_int {s : State} {M nats srcs fn m} (h : LibEnv s M nats srcs) (hn : ∀ x ∈ mathNats, x ∈ nats)
    (hs : ∀ p ∈ mathSrcs, p ∈ srcs) (hm : M m) (hsrc : IsSrc s fn math_abs m) (n : Int) :
    ∃ s', Ext s s' ∧ ∀ fuel env pos, 21 < fuel →
      callFn ld fuel fn [("n", .int n)] env pos s = .ok (.int (n.natAbs : Int)) s' :=
  let ⟨s', e, c⟩ := abs_calls_int ld h hn hs hm hsrc n; ⟨s', e, fun fuel env pos hf => c env pos fuel hf⟩

/-- … which is the hand-written mirror `Lib.absM` of C19 (`C19.absM_spec`) -/
theorem abs_src_eq_mirror {s : State} {M nats srcs fn m} (h : LibEnv s M nats srcs) (hn : ∀ x ∈ mathNats, x ∈ nats)
    (hs : ∀ p ∈ mathSrcs, p ∈ srcs) (hm : M m) (hsrc : IsSrc s fn math_abs m) (n : Int) :
    ∃ s', Ext s s' ∧ ∀ fuel env pos, 21 < fuel →
      callFn ld fuel fn [("n", .int n)] env pos s = .ok (.int (absM n)) s' := by
  rw [C19.absM_eq_natAbs]; exact abs_src_int ld h hn hs hm hsrc n

/-- `abs(NULL) = NULL` -/
theorem abs_src_null {s : State} {M nats srcs fn m} (h : LibEnv s M nats srcs) (hn : ∀ x ∈ mathNats, x ∈ nats)
    (hm : M m) (hsrc : IsSrc s fn math_abs m) :
    ∃ s', Ext s s' ∧ ∀ fuel env pos, 21 < fuel → callFn ld fuel fn [("n", .null)] env pos s = .ok .null s' :=
  let ⟨s', e, c⟩ := abs_calls_null ld h hn hm hsrc; ⟨s', e, fun fuel env pos hf => c env pos fuel hf⟩

/-- **The source of `sign` computes sgn n** on every int -/
theorem sign_src_int {s : State} {M nats srcs fn m} (h : LibEnv s M nats srcs) (hn : ∀ x ∈ mathNats, x ∈ nats)
    (hs : ∀ p ∈ mathSrcs, p ∈ srcs) (hm : M m) (hsrc : IsSrc s fn math_sign m) (n : Int) :
    ∃ s', Ext s s' ∧ ∀ fuel env pos, 21 < fuel →
      callFn ld fuel fn [("n", .int n)] env pos s = .ok (.int n.sign) s' :=
  let ⟨s', e, c⟩ := sign_calls_int ld h hn hs hm hsrc n; ⟨s', e, fun fuel env pos hf => c env pos fuel hf⟩

theorem sign_src_eq_mirror {s : State} {M nats srcs fn m} (h : LibEnv s M nats srcs) (hn : ∀ x ∈ mathNats, x ∈ nats)
    (hs : ∀ p ∈ mathSrcs, p ∈ srcs) (hm : M m) (hsrc : IsSrc s fn math_sign m) (n : Int) :
    ∃ s', Ext s s' ∧ ∀ fuel env pos, 21 < fuel →
      callFn ld fuel fn [("n", .int n)] env pos s = .ok (.int (signM n)) s' := by
  rw [C19.signM_eq_sign]; exact sign_src_int ld h hn hs hm hsrc n

/-- `sign(NULL) = NULL` -/
theorem sign_src_null {s : State} {M nats srcs fn m} (h : LibEnv s M nats srcs) (hn : ∀ x ∈ mathNats, x ∈ nats)
    (hm : M m) (hsrc : IsSrc s fn math_sign m) :
    ∃ s', Ext s s' ∧ ∀ fuel env pos, 21 < fuel → callFn ld fuel fn [("n", .null)] env pos s = .ok .null s' :=
  let ⟨s', e, c⟩ := sign_calls_null ld h hn hm hsrc; ⟨s', e, fun fuel env pos hf => c env pos fuel hf⟩

/-- **`abs` of a value that is neither NULL nor a number** (a string, a boolean, a list, a function, …): the runtime error
    raised by `error(...)`, whose VALUE is the text `argument is not numerical (<type>)` and whose position is that of the
    `error` node in the source; no `ok` outcome, no out-of-fuel, no `unsupported`. -/
theorem abs_src_not_numeric {s : State} {M nats srcs fn m} (h : LibEnv s M nats srcs) (hn : ∀ x ∈ mathNats, x ∈ nats)
    (hs : ∀ p ∈ mathSrcs, p ∈ srcs) (hm : M m) (hsrc : IsSrc s fn math_abs m)
    (v : RVal) (h0 : v.isNull = false) (h1 : v.isNumerical = false) :
    ∃ s', Ext s s' ∧ ∀ fuel env pos, 21 < fuel → callFn ld fuel fn [("n", v)] env pos s =
      .err (.str (notNumericalMsg (typeName s' v))) "" (errPos (lamBody math_abs)) [] s' :=
  let ⟨s', e, c⟩ := abs_calls_err ld h hn hs hm hsrc v h0 h1; ⟨s', e, fun fuel env pos hf => c env pos fuel hf⟩

theorem sign_src_not_numeric {s : State} {M nats srcs fn m} (h : LibEnv s M nats srcs) (hn : ∀ x ∈ mathNats, x ∈ nats)
    (hs : ∀ p ∈ mathSrcs, p ∈ srcs) (hm : M m) (hsrc : IsSrc s fn math_sign m)
    (v : RVal) (h0 : v.isNull = false) (h1 : v.isNumerical = false) :
    ∃ s', Ext s s' ∧ ∀ fuel env pos, 21 < fuel → callFn ld fuel fn [("n", v)] env pos s =
      .err (.str (notNumericalMsg (typeName s' v))) "" (errPos (lamBody math_sign)) [] s' :=
  let ⟨s', e, c⟩ := sign_calls_err ld h hn hs hm hsrc v h0 h1; ⟨s', e, fun fuel env pos hf => c env pos fuel hf⟩

/-- non-vacuity of the error case: a string argument; the message text for it -/
example : (RVal.str ['x']).isNull = false ∧ (RVal.str ['x']).isNumerical = false := ⟨rfl, rfl⟩
example (s : State) : notNumericalMsg (typeName s (.str ['x'])) = "argument is not numerical (string)".toList := by
  show notNumericalMsg "string" = _; decide

/-! ## 2b  list.ckl: `rest` -/

/-- **The source of `rest` returns the tail**: called on (a reference to) a list cell holding `xs`, it returns a reference to a
    FRESH cell (address = old heap size) that holds `xs.tail`; the argument cell and everything else is unchanged (`Ext`). -/
theorem rest_src {s : State} {M nats srcs fn m} (h : LibEnv s M nats srcs) (hn : ∀ x ∈ listNats, x ∈ nats)
    (hm : M m) (hsrc : IsSrc s fn list_rest m) (a : Nat) (xs : List RVal) (hc : s.cell a = some (.list xs)) :
    ∃ s', Ext s s' ∧ s'.cell s.heap.size = some (.list xs.tail) ∧
      ∀ fuel env pos, 6 < fuel → callFn ld fuel fn [("lst", .ref a)] env pos s = .ok (.ref s.heap.size) s' := by
  obtain ⟨s', e, hcell, c⟩ := rest_calls ld h hn hm hsrc a xs hc
  rw [C19.restM_eq] at hcell
  exact ⟨s', e, hcell, fun fuel env pos hf => c env pos fuel hf⟩

/-- a concrete state for `rest_src`: `sublist` in the base frame, `rest` (cell 0) in the module frame, a list cell (1) -/
def exState2 : State where
  frames := #[{ vars := [("NULL", .null), ("sublist", .native "sublist" 0)], parent := none },
              { vars := [("rest", .closure 0)], parent := some 0 }]
  heap := #[.closure 1 (lamParams list_rest) (lamDefaults list_rest) (lamBody list_rest) "rest",
            .list [.int 1, .int 2, .int 3]]

example : LibEnv exState2 (· = 1) listNats [] ∧ IsSrc exState2 (.closure 0) list_rest 1 ∧
    exState2.cell 1 = some (.list [.int 1, .int 2, .int 3]) := by
  refine ⟨⟨?_, ?_, ?_, ?_⟩, ⟨0, _, rfl, rfl⟩, rfl⟩
  · intro m hm; subst hm; decide
  · intro m hm; subst hm; exact Or.inr ⟨rfl, rfl, rfl⟩
  · intro m hm x hx; subst hm
    simp [listNats] at hx; subst hx; exact ⟨_, Or.inr ⟨rfl, rfl, rfl⟩⟩
  · intro m hm p hp; cases hp

/-! ## 3  the same as CALL NODES -/

/-- `abs(a)` as a node, evaluated in any frame `env` in which the identifier `abs` resolves to the function made from the
    generated source: if the argument node `a` evaluates to the int `n` (without changing the state: an identifier, a literal),
    the call evaluates to |n| for every fuel above `k + 23` (`k` = fuel bound of the argument). -/
theorem abs_call_node {s : State} {M nats srcs fn m} (h : LibEnv s M nats srcs) (hn : ∀ x ∈ mathNats, x ∈ nats)
    (hs : ∀ p ∈ mathSrcs, p ∈ srcs) (hm : M m) (hsrc : IsSrc s fn math_abs m)
    {env : EnvId} {fname : String} (hfn : s.lookup env fname = some fn)
    {a : Node} (hns : NotSpread a) {k : Nat} {n : Int} (ha : ∀ f, k < f → eval ld f env a s = .ok (.int n) s) (p pos : Pos) :
    ∃ s', Ext s s' ∧ ∀ fuel, k + 23 < fuel →
      eval ld fuel env (.call (.ident fname p) [none] [a] pos) s = .ok (.int (n.natAbs : Int)) s' := by
  obtain ⟨s', e, c⟩ := abs_calls_int ld h hn hs hm hsrc n
  refine ⟨s', e, ?_⟩
  exact eval_call1 ld (k := k + 20) hfn hsrc rfl (by decide) hns (fun f hf => ha f (by omega))
    (fun env pos => Calls.mono ld (c env pos) (by omega))

theorem sign_call_node {s : State} {M nats srcs fn m} (h : LibEnv s M nats srcs) (hn : ∀ x ∈ mathNats, x ∈ nats)
    (hs : ∀ p ∈ mathSrcs, p ∈ srcs) (hm : M m) (hsrc : IsSrc s fn math_sign m)
    {env : EnvId} {fname : String} (hfn : s.lookup env fname = some fn)
    {a : Node} (hns : NotSpread a) {k : Nat} {n : Int} (ha : ∀ f, k < f → eval ld f env a s = .ok (.int n) s) (p pos : Pos) :
    ∃ s', Ext s s' ∧ ∀ fuel, k + 23 < fuel →
      eval ld fuel env (.call (.ident fname p) [none] [a] pos) s = .ok (.int n.sign) s' := by
  obtain ⟨s', e, c⟩ := sign_calls_int ld h hn hs hm hsrc n
  refine ⟨s', e, ?_⟩
  exact eval_call1 ld (k := k + 20) hfn hsrc rfl (by decide) hns (fun f hf => ha f (by omega))
    (fun env pos => Calls.mono ld (c env pos) (by omega))

/-- non-vacuity: in the concrete state `exState` (where `x` is −5 in the module frame) the program `abs(x)` evaluates to 5 and
    `sign(x)` to −1, for every fuel above 23 -/
example : ∃ s', Ext exState s' ∧ ∀ fuel, 23 < fuel →
    eval ld fuel 1 (.call (.ident "abs" {}) [none] [.ident "x" {}] {}) exState = .ok (.int 5) s' :=
  abs_call_node ld (n := -5) exState_libEnv (fun _ h => h) (fun _ h => h) rfl exState_abs (env := 1) (fname := "abs") rfl
    (a := .ident "x" {}) trivial (k := 0) (Ev.ident ld (v := .int (-5)) rfl) {} {}

example : ∃ s', Ext exState s' ∧ ∀ fuel, 23 < fuel →
    eval ld fuel 1 (.call (.ident "sign" {}) [none] [.ident "x" {}] {}) exState = .ok (.int (-1)) s' :=
  sign_call_node ld (n := -5) exState_libEnv (fun _ h => h) (fun _ h => h) rfl exState_sign (env := 1) (fname := "sign") rfl
    (a := .ident "x" {}) trivial (k := 0) (Ev.ident ld (v := .int (-5)) rfl) {} {}

end Ckl.C19Src
