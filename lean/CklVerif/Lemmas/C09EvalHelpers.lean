/-
  C09 (evaluator level): the helper programs of the evaluator (everything that does not evaluate
  nodes) preserve the invariant and return clean values when given clean values.
-/
import CklVerif.Lemmas.C09EvalAuto
namespace Ckl.C09E
open Ckl

variable {E : List String} {b : Bool}

/-! ### EvalBase -/

theorem Pres.bindNamed (sp : ArgSpec) (pos : Pos) (ns : List (Option String)) (vs : List RVal)
    (args : List (String × RVal)) (hv : Cl.cl E vs) (ha : Cl.cl E args) :
    Pres E b (bindNamed sp pos ns vs args) := by
  induction ns generalizing vs args with
  | nil => unfold Ckl.bindNamed; pa_auto
  | cons n ns ih =>
    cases vs with
    | nil => unfold Ckl.bindNamed; pa_auto
    | cons v vs => unfold Ckl.bindNamed; pa_auto
macro_rules | `(tactic| pa_lemma) => `(tactic| ((with_reducible apply Pres.bindNamed) <;> cl_try))

theorem Pres.bindPositional (sp : ArgSpec) (pos : Pos) (ns : List (Option String)) (vs : List RVal)
    (kw : Bool) (args : List (String × RVal)) (rest : List RVal)
    (hv : Cl.cl E vs) (ha : Cl.cl E args) (hr : Cl.cl E rest) :
    Pres E b (bindPositional sp pos ns vs kw args rest) := by
  induction ns generalizing vs kw args rest with
  | nil => unfold Ckl.bindPositional; pa_auto
  | cons n ns ih =>
    cases vs with
    | nil => unfold Ckl.bindPositional; pa_auto
    | cons v vs => unfold Ckl.bindPositional; pa_auto
macro_rules | `(tactic| pa_lemma) => `(tactic| ((with_reducible apply Pres.bindPositional) <;> cl_try))

theorem Pres.setArgs (ps : List String) (ns : List (Option String)) (vs : List RVal) (pos : Pos)
    (hv : Cl.cl E vs) : Pres E b (setArgs ps ns vs pos) := by
  unfold Ckl.setArgs; pa_auto
macro_rules | `(tactic| pa_lemma) => `(tactic| ((with_reducible apply Pres.setArgs) <;> cl_try))

theorem Pres.argGet (args : List (String × RVal)) (n : String) (pos : Pos) (ha : Cl.cl E args) :
    Pres E b (argGet args n pos) := by
  unfold Ckl.argGet; pa_auto
macro_rules | `(tactic| pa_lemma) => `(tactic| ((with_reducible apply Pres.argGet) <;> cl_try))

theorem Pres.getIndex (v : RVal) (pos : Pos) : Pres E b (getIndex v pos) := by
  unfold Ckl.getIndex; pa_auto
macro_rules | `(tactic| pa_lemma) => `(tactic| with_reducible exact Pres.getIndex _ _)

theorem Pres.asStringM (v : RVal) (pos : Pos) : Pres E b (asStringM v pos) := by
  unfold Ckl.asStringM; pa_auto
macro_rules | `(tactic| pa_lemma) => `(tactic| with_reducible exact Pres.asStringM _ _)


/-! ### Natives.lean helpers -/

theorem Pres.floatResult (x : Float) (pos : Pos) (w : String) : Pres E b (floatResult x pos w) := by
  unfold Ckl.floatResult; pa_auto
macro_rules | `(tactic| pa_lemma) => `(tactic| with_reducible exact Pres.floatResult _ _ _)

theorem Pres.listItems (v : RVal) : Pres E b (listItems v) := by
  unfold Ckl.listItems; pa_auto
macro_rules | `(tactic| pa_lemma) => `(tactic| with_reducible exact Pres.listItems _)

theorem Pres.collAsList (c : Cell) (hc : Cl.cl E c) : Pres E b (collAsList c) := by
  unfold Ckl.collAsList; pa_auto
macro_rules | `(tactic| pa_lemma) => `(tactic| ((with_reducible apply Pres.collAsList) <;> cl_try))

theorem Pres.addSet (xs : List RVal) (hx : Cl.cl E xs) : Pres E b (addSet xs) := by
  unfold Ckl.addSet; pa_auto
macro_rules | `(tactic| pa_lemma) => `(tactic| ((with_reducible apply Pres.addSet) <;> cl_try))

theorem Pres.cmpLt (x y : RVal) : Pres E b (cmpLt x y) := by
  unfold Ckl.cmpLt; pa_auto
macro_rules | `(tactic| pa_lemma) => `(tactic| with_reducible exact Pres.cmpLt _ _)

theorem Pres.cmpGt (x y : RVal) : Pres E b (cmpGt x y) := by
  unfold Ckl.cmpGt; pa_auto
macro_rules | `(tactic| pa_lemma) => `(tactic| with_reducible exact Pres.cmpGt _ _)

theorem Pres.asListArg (v : RVal) (pos : Pos) (hv : Cl.cl E v) : Pres E b (asListArg v pos) := by
  unfold Ckl.asListArg; pa_auto
macro_rules | `(tactic| pa_lemma) => `(tactic| ((with_reducible apply Pres.asListArg) <;> cl_try))

theorem Pres.asSetArg (v : RVal) (pos : Pos) (hv : Cl.cl E v) : Pres E b (asSetArg v pos) := by
  unfold Ckl.asSetArg; pa_auto
macro_rules | `(tactic| pa_lemma) => `(tactic| ((with_reducible apply Pres.asSetArg) <;> cl_try))

/-! ### Eval.lean helpers -/

theorem Pres.destructure (v : RVal) (n : Nat) (pos : Pos) : Pres E b (destructure v n pos) := by
  unfold Ckl.destructure; pa_auto
macro_rules | `(tactic| pa_lemma) => `(tactic| with_reducible exact Pres.destructure _ _ _)

theorem Pres.bindLoopVars (env : EnvId) (ids : List String) (v : RVal) (pos : Pos) (hv : Cl.cl E v) :
    Pres E b (bindLoopVars env ids v pos) := by
  unfold Ckl.bindLoopVars; pa_auto
macro_rules | `(tactic| pa_lemma) => `(tactic| ((with_reducible apply Pres.bindLoopVars) <;> cl_try))

theorem Pres.removeVars (env : EnvId) (ids : List String) : Pres E b (removeVars env ids) := by
  unfold Ckl.removeVars; pa_auto
macro_rules | `(tactic| pa_lemma) => `(tactic| with_reducible exact Pres.removeVars _ _)

theorem Pres.spreadValues (v : RVal) (pos : Pos) : Pres E b (spreadValues v pos) := by
  unfold Ckl.spreadValues; pa_auto
macro_rules | `(tactic| pa_lemma) => `(tactic| with_reducible exact Pres.spreadValues _ _)

theorem Pres.collectionValues (v : RVal) (w : Option String) (pos : Pos) :
    Pres E b (collectionValues v w pos) := by
  unfold Ckl.collectionValues; pa_auto
macro_rules | `(tactic| pa_lemma) => `(tactic| with_reducible exact Pres.collectionValues _ _ _)

theorem Pres.renameClosure (v : RVal) (n : String) : Pres E b (renameClosure v n) := by
  unfold Ckl.renameClosure; pa_auto
macro_rules | `(tactic| pa_lemma) => `(tactic| with_reducible exact Pres.renameClosure _ _)

theorem Pres.assignAll (env : EnvId) (xs : List String) (items : List RVal) (i : Nat) (last : RVal)
    (pos : Pos) (hi : Cl.cl E items) (hl : Cl.cl E last) : Pres E b (assignAll env xs items i last pos) := by
  induction xs generalizing i last with
  | nil => unfold Ckl.assignAll; pa_auto
  | cons x xs ih => unfold Ckl.assignAll; pa_auto
macro_rules | `(tactic| pa_lemma) => `(tactic| ((with_reducible apply Pres.assignAll) <;> cl_try))

theorem Pres.defAll (env : EnvId) (xs : List String) (items : List RVal) (i : Nat) (last : RVal)
    (hi : Cl.cl E items) (hl : Cl.cl E last) : Pres E b (defAll env xs items i last) := by
  induction xs generalizing i last with
  | nil => unfold Ckl.defAll; pa_auto
  | cons x xs ih => unfold Ckl.defAll; pa_auto
macro_rules | `(tactic| pa_lemma) => `(tactic| ((with_reducible apply Pres.defAll) <;> cl_try))

theorem Pres.comprResult (k : ComprKind) (out : List (RVal × RVal)) (ho : Cl.cl E out) :
    Pres E b (comprResult k out) := by
  unfold Ckl.comprResult; pa_auto
macro_rules | `(tactic| pa_lemma) => `(tactic| ((with_reducible apply Pres.comprResult) <;> cl_try))

end Ckl.C09E
