import CklVerif.Lemmas.C14EvalStep3

/-! C14 (evaluator part) — induction steps: function calls -/
namespace Ckl.C14E
open Ckl
set_option linter.unusedVariables false

variable {ld : Loader} {fuel : Nat}

theorem bumpInst_resp :
    Resp (modifyS (fun s => { s with nextInst := s.nextInst + 1 })) (modifyS (fun s => { s with nextInst := s.nextInst + 1 })) := by
  apply Resp.modifyS
  intro t t' ht
  exact congrArg (fun u : State => ({ u with nextInst := u.nextInst + 1 } : State)) ht

macro_rules | `(tactic| resp_lib) => `(tactic| exact bumpInst_resp)

theorem callFn_step1 (hn : NativeSim ld) (ih : SAll ld fuel) {fn fn' : RVal} {b b' : List (String × RVal)} (env : EnvId)
    {p p' : Pos} (hf : ers fn = ers fn') (hb : ers b = ers b') :
    Resp (callFn ld (fuel + 1) fn b env p) (callFn ld (fuel + 1) fn' b' env p') := by
  ih_intro ih
  sim_cases hf <;> unfold Ckl.callFn <;> try (resp; done)
  · -- closure
    resp!
  · -- native
    rename_i name inst
    apply Resp.getS_bind
    intro s s' hs
    have hp := callPure_resp name (p := p) (p' := p') hb (show ers (div0Value s env) = ers (div0Value s' env) by ers_tac)
    generalize callPure name b (div0Value s env) p = o at hp
    generalize callPure name b' (div0Value s' env) p' = o' at hp
    rcases o with _ | m <;> rcases o' with _ | m' <;> simp only [PureSim] at hp
    · dsimp only
      have hsec : s.secure = s'.secure := by rw [secure_obs s, secure_obs s', hs]
      have hni : s.nextInst = s'.nextInst := by rw [nextInst_obs s, nextInst_obs s', hs]
      simp only [hsec, hni]
      resp!
    · exact hp


theorem invoke_step1 (ih : SAll ld fuel) {fn fn' : RVal} {pre pre' : List RVal} (names : List (Option String))
    (args : List Node) (env : EnvId) {p p' : Pos} (hf : ers fn = ers fn') (hpre : ers pre = ers pre') :
    Resp (invoke ld (fuel + 1) fn pre names args env p) (invoke ld (fuel + 1) fn' pre' names (ers args) env p') := by
  ih_intro ih
  unfold Ckl.invoke
  resp!
  · rw [map_none_obs pre, map_none_obs pre', hpre]
    apply setArgs_resp
    ers_tac
  · rename_i bound bound' hbound _
    constructor
    intro s1 s1' hs1
    have h := (ih.callFn env hf hbound (p := p) (p' := p')).run s1 s1' hs1
    show ers (match callFn ld fuel fn bound env p s1 with | .err v m p1 t s2 => _ | .fail (.syn e) s2 => _ | .fail (.host k) s2 => _ | other => other) = ers (match callFn ld fuel fn' bound' env p' s1' with | .err v m p1 t s2 => _ | .fail (.syn e) s2 => _ | .fail (.host k) s2 => _ | other => other)
    generalize callFn ld fuel _ bound env p s1 = o at h ⊢
    generalize callFn ld fuel _ bound' env p' s1' = o' at h ⊢
    rcases Out.sim_cases h with ⟨a, a', s2, s2', rfl, rfl, h1, h2⟩ |
      ⟨v, v', m, q, q', t, t', s2, s2', rfl, rfl, h1, h2, h3⟩ | ⟨f, f', s2, s2', rfl, rfl, h1, h2⟩
    · exact h
    · simp only [ers_err, h1, h3, List.map_append, ers_trace h2, List.map_cons, List.map_nil]
      rw [fnName_obs s2, fnName_obs s2', h3, hf]
    · rcases Fail.sim_cases h1 with ⟨rfl, rfl⟩ | ⟨w, w', rfl, rfl⟩ | ⟨k, rfl, rfl⟩ | ⟨e, rfl, rfl⟩
      · exact h
      · exact h
      · simp only [ers_err, h2, List.map_nil]
        rw [fnName_obs s2, fnName_obs s2', h2, hf]
      · simp only [ers_err, h2, List.map_nil]

end Ckl.C14E
