/-
  C02 (syntactic half) — the precedence tower.

  `ClosedRaw k S N`: on every token list spelled `S`, followed by any rest that level `k` does not
  consume, the production of level `k` returns an AST that is `N` up to positions, and leaves the rest.
  `ContAddRaw` / `ContMulRaw`: the same for the left-associative loops in "continuation" form (the
  production equals its loop continued behind the operand), which is what makes `a - b - c`
  compositional.  The lifting lemmas `closed_*` carry a result from one level to the next weaker one.
-/
import CklVerif.Lemmas.C02ParseEqns
namespace Ckl.C02P
open Ckl Ckl.Parser

/-- the production of level `k` (or 0, and 1, not 2, comparison 3, additive 4, multiplicative 5,
    unary 6, primary 7), without the length proofs -/
def pLevel (k : Nat) (c : Ctx) (st : St) : Except PErr (Node × St) :=
  match k with
  | 0 => plain (pOr c st)
  | 1 => plain (pAnd c st)
  | 2 => plain (pNot c st)
  | 3 => plain (pRel c st)
  | 4 => plain (pAdd c st)
  | 5 => plain (pMul c st)
  | 6 => plain (pUnary c st)
  | _ => plain (pPred c false st)

def ClosedRaw (k : Nat) (S : List Sp) (N : Node) : Prop :=
  ∀ (c : Ctx) (p : Pos) (ts rest : List Token), ts.map sp = S → Follow k rest →
    ∃ n q, erase n = N ∧ pLevel k c ⟨p, ts ++ rest⟩ = .ok (n, ⟨q, rest⟩)

def ContAddRaw (S : List Sp) (N : Node) : Prop :=
  ∀ (c : Ctx) (p : Pos) (ts rest : List Token), ts.map sp = S → Follow 5 rest →
    ∃ n q, erase n = N ∧ plain (pAdd c ⟨p, ts ++ rest⟩) = plainLe (addLoop c ⟨q, rest⟩ n)

def ContMulRaw (S : List Sp) (N : Node) : Prop :=
  ∀ (c : Ctx) (p : Pos) (ts rest : List Token), ts.map sp = S → Follow 6 rest →
    ∃ n q, erase n = N ∧ plain (pMul c ⟨p, ts ++ rest⟩) = plainLe (mulLoop c ⟨q, rest⟩ n)

/-- the first spelling of `S` satisfies `P` -/
def Head (P : Sp → Prop) (S : List Sp) : Prop := ∃ s tl, S = s :: tl ∧ P s

theorem Head.imp {P Q : Sp → Prop} {S : List Sp} (h : Head P S) (hpq : ∀ s, P s → Q s) : Head Q S := by
  obtain ⟨s, tl, rfl, hs⟩ := h; exact ⟨s, tl, rfl, hpq s hs⟩

theorem Head.append {P : Sp → Prop} {S : List Sp} (h : Head P S) (T : List Sp) : Head P (S ++ T) := by
  obtain ⟨s, tl, rfl, hs⟩ := h; exact ⟨s, tl ++ T, rfl, hs⟩

theorem map_sp_cons {ts : List Token} {s : Sp} {S : List Sp} (h : ts.map sp = s :: S) :
    ∃ t tl, ts = t :: tl ∧ sp t = s ∧ tl.map sp = S := by
  cases ts with
  | nil => simp at h
  | cons t tl => simp at h; exact ⟨t, tl, rfl, h.1, h.2⟩

theorem map_sp_append {ts : List Token} {A B : List Sp} (h : ts.map sp = A ++ B) :
    ∃ ta tb, ts = ta ++ tb ∧ ta.map sp = A ∧ tb.map sp = B := List.map_eq_append_iff.1 h

theorem map_sp_nil {ts : List Token} (h : ts.map sp = []) : ts = [] := by simpa using h

/-- `stops` of a token with a known spelling -/
theorem stops_of_sp {k : Nat} {t : Token} {s : Sp} (h : sp t = s)
    (hs : stops k ⟨s.1, s.2, default⟩ = true) : stops k t = true := by
  rw [stops_congr (t' := ⟨s.1, s.2, default⟩)]
  · exact hs
  · rw [h]; rfl

theorem follow_cons {k : Nat} {t : Token} {tl : List Token} {s : Sp} (h : sp t = s)
    (hs : stops k ⟨s.1, s.2, default⟩ = true) : Follow k (t :: tl) := stops_of_sp h hs

theorem stops_mulOp (o : MulOp) : stops 6 ⟨o.sp.1, o.sp.2, default⟩ = true := by cases o <;> rfl
theorem stops_addOp (o : AddOp) : stops 5 ⟨o.sp.1, o.sp.2, default⟩ = true := by cases o <;> rfl
theorem stops_relOp (o : RelOp) : stops 4 ⟨o.sp.1, o.sp.2, default⟩ = true := by cases o <;> rfl
theorem stops_and : stops 2 ⟨andSp.1, andSp.2, default⟩ = true := rfl
theorem stops_or : stops 1 ⟨orSp.1, orSp.2, default⟩ = true := rfl
theorem stops_rp : stops 0 ⟨RP.1, RP.2, default⟩ = true := rfl

/-! ### lifting a result to the next weaker level -/

theorem closed_7_6 {S : List Sp} {N : Node} (h : ClosedRaw 7 S N) (hd : Head (fun s => s.2 ≠ .operator) S) :
    ClosedRaw 6 S N := by
  intro c p ts rest hts hf
  obtain ⟨s, tl, rfl, hs⟩ := hd
  obtain ⟨n, q, hn, hp⟩ := h c p ts rest hts (hf.mono (by omega))
  obtain ⟨t, ts', rfl, ht, _⟩ := map_sp_cons hts
  refine ⟨n, q, hn, ?_⟩
  have : t.type ≠ .operator := by rw [← ht] at hs; exact hs
  simp only [pLevel, List.cons_append] at hp ⊢
  rw [pUnary_plain c p t _ this]; exact hp

theorem closed_6_contMul {S : List Sp} {N : Node} (h : ClosedRaw 6 S N) : ContMulRaw S N := by
  intro c p ts rest hts hf
  obtain ⟨n, q, hn, hp⟩ := h c p ts rest hts hf
  refine ⟨n, q, hn, ?_⟩
  simp only [pLevel] at hp
  rw [pMul_plain, hp]; rfl

theorem contMul_closed_5 {S : List Sp} {N : Node} (h : ContMulRaw S N) : ClosedRaw 5 S N := by
  intro c p ts rest hts hf
  obtain ⟨n, q, hn, hp⟩ := h c p ts rest hts (hf.mono (by omega))
  refine ⟨n, q, hn, ?_⟩
  simp only [pLevel]
  rw [hp, mulLoop_stop c q rest n hf]

theorem closed_5_contAdd {S : List Sp} {N : Node} (h : ClosedRaw 5 S N) : ContAddRaw S N := by
  intro c p ts rest hts hf
  obtain ⟨n, q, hn, hp⟩ := h c p ts rest hts hf
  refine ⟨n, q, hn, ?_⟩
  simp only [pLevel] at hp
  rw [pAdd_plain, hp]; rfl

theorem contAdd_closed_4 {S : List Sp} {N : Node} (h : ContAddRaw S N) : ClosedRaw 4 S N := by
  intro c p ts rest hts hf
  obtain ⟨n, q, hn, hp⟩ := h c p ts rest hts (hf.mono (by omega))
  refine ⟨n, q, hn, ?_⟩
  simp only [pLevel]
  rw [hp, addLoop_stop c q rest n hf]

theorem closed_4_3 {S : List Sp} {N : Node} (h : ClosedRaw 4 S N) : ClosedRaw 3 S N := by
  intro c p ts rest hts hf
  obtain ⟨n, q, hn, hp⟩ := h c p ts rest hts (hf.mono (by omega))
  refine ⟨n, q, hn, ?_⟩
  simp only [pLevel] at hp ⊢
  rw [pRel_plain, hp]
  simp [Except.bind, relGuard_stop q rest hf]

theorem closed_3_2 {S : List Sp} {N : Node} (h : ClosedRaw 3 S N) (hd : Head (fun s => s ≠ notSp) S) :
    ClosedRaw 2 S N := by
  intro c p ts rest hts hf
  obtain ⟨s, tl, rfl, hs⟩ := hd
  obtain ⟨n, q, hn, hp⟩ := h c p ts rest hts (hf.mono (by omega))
  obtain ⟨t, ts', rfl, ht, _⟩ := map_sp_cons hts
  refine ⟨n, q, hn, ?_⟩
  simp only [pLevel, List.cons_append] at hp ⊢
  rw [pNot_plain c p t _ (by rw [ht]; exact hs)]; exact hp

theorem closed_2_1 {S : List Sp} {N : Node} (h : ClosedRaw 2 S N) : ClosedRaw 1 S N := by
  intro c p ts rest hts hf
  obtain ⟨n, q, hn, hp⟩ := h c p ts rest hts (hf.mono (by omega))
  refine ⟨n, q, hn, ?_⟩
  simp only [pLevel] at hp ⊢
  rw [pAnd_plain, hp]
  simp [Except.bind, (and_stop (q := q) hf).1]

theorem closed_1_0 {S : List Sp} {N : Node} (h : ClosedRaw 1 S N) : ClosedRaw 0 S N := by
  intro c p ts rest hts hf
  obtain ⟨n, q, hn, hp⟩ := h c p ts rest hts (hf.mono (by omega))
  refine ⟨n, q, hn, ?_⟩
  simp only [pLevel] at hp ⊢
  rw [pOr_plain, hp]
  simp [Except.bind, (or_stop (q := q) hf).1]

/-! ### parentheses -/

def exprHeadSp (s : Sp) : Bool := s.2 != .string && (s.2 != .keyword || s.1 == ['n', 'o', 't'])

theorem exprHead_of_sp {t : Token} {s : Sp} (h : sp t = s) (hs : exprHeadSp s = true) : exprHead t = true := by
  rw [← h] at hs; exact hs

theorem paren_closed {S : List Sp} {N : Node} (h : ClosedRaw 0 S N) (hd : Head (fun s => exprHeadSp s = true) S) :
    ClosedRaw 7 (LP :: S ++ [RP]) N := by
  intro c p ts rest hts hf
  obtain ⟨s, tl, rfl, hs⟩ := hd
  obtain ⟨t, ts1, rfl, ht, hts1⟩ := map_sp_cons hts
  obtain ⟨ts2, ts3, rfl, hts2, hts3⟩ := map_sp_append hts1
  obtain ⟨t3, ts4, rfl, ht3, hts4⟩ := map_sp_cons hts3
  have := map_sp_nil hts4; subst this
  obtain ⟨t2, ts5, rfl, ht2, _⟩ := map_sp_cons hts2
  have hf0 : Follow 0 (t3 :: rest) := follow_cons ht3 stops_rp
  obtain ⟨n, q, hn, hp⟩ := h c t.pos (t2 :: ts5) (t3 :: rest) hts2 hf0
  refine ⟨n, t3.pos, hn, ?_⟩
  simp only [pLevel, List.cons_append] at hp
  simp only [sp, LP, RP, Prod.mk.injEq] at ht ht3
  have hb := pBareBlock_of_or c false t.pos t2 (ts5 ++ t3 :: rest) n q (t3 :: rest)
    (exprHead_of_sp ht2 hs) hp
    (by intro t' tl' h'; cases h'; simp [St.tokIs, ht3.1])
  have hprim := pPrimary_paren c false p t t3 (t2 :: ts5 ++ t3 :: rest) rest n q ht.1 ht.2
    (by simpa using hb) ht3.1 ht3.2 hf
  have := pPred_of_primary c false _ n t3.pos rest hprim hf
  have e : (t :: (t2 :: ts5 ++ [t3])) ++ rest = t :: (t2 :: ts5 ++ t3 :: rest) := by simp
  simp only [pLevel]
  rw [e]; exact this

/-! ### towers: everything a result at level `j` implies for the weaker levels -/

/-- at every level up to `j` the spelling `S` parses to `N`; the continuation forms where they apply -/
def Tower (j : Nat) (S : List Sp) (N : Node) : Prop :=
  (∀ k, k ≤ j → ClosedRaw k S N) ∧ (4 ≤ j → ContAddRaw S N) ∧ (5 ≤ j → ContMulRaw S N)

theorem tower_0 {S N} (h : ClosedRaw 0 S N) : Tower 0 S N :=
  ⟨fun k hk => by obtain rfl : k = 0 := by omega
                  exact h, fun h => by omega, fun h => by omega⟩

theorem tower_1 {S N} (h : ClosedRaw 1 S N) : Tower 1 S N :=
  ⟨fun k hk => by
    rcases (by omega : k = 0 ∨ k = 1) with rfl | rfl
    · exact closed_1_0 h
    · exact h, fun h => by omega, fun h => by omega⟩

theorem tower_2 {S N} (h : ClosedRaw 2 S N) : Tower 2 S N :=
  ⟨fun k hk => by
    rcases (by omega : k ≤ 1 ∨ k = 2) with h1 | rfl
    · exact (tower_1 (closed_2_1 h)).1 k h1
    · exact h, fun h => by omega, fun h => by omega⟩

theorem tower_3 {S N} (h : ClosedRaw 3 S N) (hd : Head (fun s => s ≠ notSp) S) : Tower 3 S N :=
  ⟨fun k hk => by
    rcases (by omega : k ≤ 2 ∨ k = 3) with h1 | rfl
    · exact (tower_2 (closed_3_2 h hd)).1 k h1
    · exact h, fun h => by omega, fun h => by omega⟩

theorem tower_4 {S N} (h : ContAddRaw S N) (hd : Head (fun s => s ≠ notSp) S) : Tower 4 S N :=
  ⟨fun k hk => by
    rcases (by omega : k ≤ 3 ∨ k = 4) with h1 | rfl
    · exact (tower_3 (closed_4_3 (contAdd_closed_4 h)) hd).1 k h1
    · exact contAdd_closed_4 h, fun _ => h, fun h => by omega⟩

theorem tower_5 {S N} (h : ContMulRaw S N) (hd : Head (fun s => s ≠ notSp) S) : Tower 5 S N :=
  ⟨fun k hk => by
    rcases (by omega : k ≤ 4 ∨ k = 5) with h1 | rfl
    · exact (tower_4 (closed_5_contAdd (contMul_closed_5 h)) hd).1 k h1
    · exact contMul_closed_5 h, fun _ => closed_5_contAdd (contMul_closed_5 h), fun _ => h⟩

theorem tower_6 {S N} (h : ClosedRaw 6 S N) (hd : Head (fun s => s ≠ notSp) S) : Tower 6 S N :=
  have t5 := tower_5 (closed_6_contMul h) hd
  ⟨fun k hk => by
    rcases (by omega : k ≤ 5 ∨ k = 6) with h1 | rfl
    · exact t5.1 k h1
    · exact h, fun _ => t5.2.1 (by omega), fun _ => closed_6_contMul h⟩

theorem tower_7 {S N} (h : ClosedRaw 7 S N) (hd : Head (fun s => s.2 ≠ .operator ∧ s ≠ notSp) S) : Tower 7 S N :=
  have t6 := tower_6 (closed_7_6 h (hd.imp fun _ h => h.1)) (hd.imp fun _ h => h.2)
  ⟨fun k hk => by
    rcases (by omega : k ≤ 6 ∨ k = 7) with h1 | rfl
    · exact t6.1 k h1
    · exact h, fun _ => t6.2.1 (by omega), fun _ => t6.2.2 (by omega)⟩

end Ckl.C02P
