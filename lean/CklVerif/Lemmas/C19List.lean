/-
  C19 — list functions of modules/list.ckl and core.ckl: `unique`, `reverse`, `flatten`, `filter`,
  `map_list`, `reduce`, `sum`, `prod`, `zip`, `enumerate`, `pairs`, `count`, `any`, `all`, `first`,
  `last`, `rest`.
-/
import CklVerif.Model.Lib
import CklVerif.Proofs.C06
namespace Ckl.C19
open Ckl Ckl.Lib

/-! ### unique -/

theorem uniqueGo_sublist (key : Val → Val) (seen xs : List Val) : (uniqueGo key seen xs).Sublist xs := by
  induction xs generalizing seen with
  | nil => simp [uniqueGo]
  | cons x xs ih =>
    unfold uniqueGo
    split
    · exact (ih seen).trans (List.sublist_cons_self x xs)
    · exact (ih _).cons_cons x

theorem uniqueGo_not_seen (key : Val → Val) (seen xs : List Val) :
    ∀ y ∈ uniqueGo key seen xs, memV (key y) seen = false := by
  induction xs generalizing seen with
  | nil => simp [uniqueGo]
  | cons x xs ih =>
    unfold uniqueGo
    split
    · exact ih seen
    · rename_i h
      intro y hy
      rcases List.mem_cons.mp hy with rfl | hy
      · simpa using h
      · have := ih _ y hy
        rw [memV_cons] at this
        simp only [Bool.or_eq_false_iff] at this
        exact this.2

theorem uniqueGo_keys_pairwise (key : Val → Val) (seen xs : List Val) :
    (uniqueGo key seen xs).Pairwise (fun a b => veq (key a) (key b) = false) := by
  induction xs generalizing seen with
  | nil => simp [uniqueGo]
  | cons x xs ih =>
    unfold uniqueGo
    split
    · exact ih seen
    · refine List.Pairwise.cons ?_ (ih _)
      intro y hy
      have := uniqueGo_not_seen key _ xs y hy
      rw [memV_cons] at this
      simp only [Bool.or_eq_false_iff] at this
      rw [veq_symm']; exact this.1

theorem uniqueGo_covers (key : Val → Val) (seen xs : List Val) :
    ∀ x ∈ xs, memV (key x) seen = true ∨ memV (key x) ((uniqueGo key seen xs).map key) = true := by
  induction xs generalizing seen with
  | nil => simp
  | cons x xs ih =>
    intro z hz
    unfold uniqueGo
    split
    · rename_i h
      rcases List.mem_cons.mp hz with rfl | hz
      · exact Or.inl h
      · exact ih seen z hz
    · rcases List.mem_cons.mp hz with rfl | hz
      · right; rw [List.map_cons, memV_cons, veq_refl']; rfl
      · rcases ih (key x :: seen) z hz with h | h
        · rw [memV_cons] at h
          rcases Bool.or_eq_true_iff.mp h with h | h
          · right; rw [List.map_cons, memV_cons, h]; rfl
          · exact Or.inl h
        · right; rw [List.map_cons, memV_cons, h]; simp

theorem uniqueGo_first (key : Val → Val) (seen xs : List Val) :
    ∀ y ∈ uniqueGo key seen xs, xs.find? (fun x => veq (key x) (key y)) = some y := by
  induction xs generalizing seen with
  | nil => simp [uniqueGo]
  | cons x xs ih =>
    intro y hy
    have hns := uniqueGo_not_seen key seen (x :: xs) y hy
    unfold uniqueGo at hy
    split at hy
    · rename_i h
      have hxy : veq (key x) (key y) = false := by
        cases e : veq (key x) (key y) with
        | false => rfl
        | true => rw [memV_congr' e seen, hns] at h; exact absurd h (by simp)
      rw [List.find?_cons, hxy]
      exact ih seen y hy
    · rcases List.mem_cons.mp hy with rfl | hy
      · rw [List.find?_cons, veq_refl']
      · have := uniqueGo_not_seen key _ xs y hy
        rw [memV_cons] at this
        simp only [Bool.or_eq_false_iff] at this
        have hxy : veq (key x) (key y) = false := by rw [veq_symm']; exact this.1
        rw [List.find?_cons, hxy]
        exact ih _ y hy

/-! ### reverse, flatten, filter, map_list, reduce -/

theorem reverseM_eq {α} (xs : List α) : reverseM xs = xs.reverse := by
  unfold reverseM
  have : ∀ acc : List α, xs.foldl (fun acc x => x :: acc) acc = xs.reverse ++ acc := by
    induction xs with
    | nil => simp
    | cons x xs ih => intro acc; simp [ih]
  simp

theorem appendAllM_eq {α} (l items : List α) : appendAllM l items = l ++ items := by
  unfold appendAllM
  induction items generalizing l with
  | nil => simp
  | cons x xs ih => simp [ih]

/-- what one element of the argument of `flatten` contributes -/
def spliceOf : Val → List Val
  | .list ys => ys
  | v => [v]

theorem flattenM_eq (xs : List Val) : flattenM xs = xs.flatMap spliceOf := by
  unfold flattenM
  have : ∀ acc : List Val, xs.foldl flattenStep acc = acc ++ xs.flatMap spliceOf := by
    induction xs with
    | nil => simp
    | cons x xs ih =>
      intro acc
      rw [List.foldl_cons, ih, List.flatMap_cons, ← List.append_assoc]
      congr 1
      cases x <;> simp [flattenStep, spliceOf, appendAllM_eq]
  simpa using this []

theorem filterM_eq {α β} (pred : β → Bool) (key : α → β) (xs : List α) :
    filterM pred key xs = xs.filter (fun x => pred (key x)) := by
  unfold filterM
  have : ∀ acc : List α,
      xs.foldl (fun acc x => if pred (key x) then acc ++ [x] else acc) acc =
        acc ++ xs.filter (fun x => pred (key x)) := by
    induction xs with
    | nil => simp
    | cons x xs ih =>
      intro acc
      rw [List.foldl_cons, ih, List.filter_cons]
      split <;> simp
  simpa using this []

theorem mapListM_eq {α β} (f : α → β) (xs : List α) : mapListM f xs = xs.map f := by
  induction xs with
  | nil => rfl
  | cons x xs ih => simp [mapListM, ih]

theorem reduceM_nil {α} (f : α → α → α) : reduceM f [] = none := rfl

theorem reduceM_cons {α} (f : α → α → α) (x : α) (rest : List α) :
    reduceM f (x :: rest) = some (rest.foldl f x) := by
  cases rest <;> rfl

/-! ### sum, prod -/

theorem sumM_foldl_none (xs : List Val) : xs.foldl sumStep (none : Option Int) = none := by
  induction xs with
  | nil => rfl
  | cons x xs ih => rw [List.foldl_cons]; exact ih

theorem sumM_ints (ns : List Int) : sumM (ns.map .int) = some ns.sum := by
  unfold sumM
  have : ∀ r : Int, (ns.map Val.int).foldl sumStep (some r) = some (r + ns.sum) := by
    induction ns with
    | nil => simp
    | cons n ns ih => intro r; simp only [List.map_cons, List.foldl_cons, sumStep, ih, List.sum_cons]; congr 1; omega
  simpa using this 0

/-- `sum` fails (in the int-only model) exactly when some element is not an int -/
theorem sumM_eq_none_iff (xs : List Val) : sumM xs = none ↔ ∃ v ∈ xs, ∀ n, v ≠ .int n := by
  unfold sumM
  have : ∀ r : Int, (xs.foldl sumStep (some r) = none ↔ ∃ v ∈ xs, ∀ n, v ≠ .int n) := by
    induction xs with
    | nil => simp
    | cons x xs ih =>
      intro r
      rw [List.foldl_cons]
      cases x with
      | int n =>
        simp only [sumStep, ih, List.mem_cons]
        constructor
        · rintro ⟨v, hv, h⟩; exact ⟨v, Or.inr hv, h⟩
        · rintro ⟨v, hv | hv, h⟩
          · exact absurd hv (h n)
          · exact ⟨v, hv, h⟩
      | _ =>
        simp only [sumStep, sumM_foldl_none, true_iff]
        exact ⟨_, List.mem_cons_self, by intro n h; cases h⟩
  exact this 0

theorem foldl_mul_eq (x : Int) (rest : List Int) : rest.foldl (fun a b => a * b) x = x * rest.prod := by
  induction rest generalizing x with
  | nil => simp
  | cons y ys ih => rw [List.foldl_cons, ih, List.prod_cons, Int.mul_assoc]

theorem prodM_eq (x : Int) (rest : List Int) : prodM (x :: rest) = some (x :: rest).prod := by
  unfold prodM
  rw [reduceM_cons, foldl_mul_eq, List.prod_cons]

theorem prodM_nil : prodM [] = none := rfl

/-! ### zip, enumerate, pairs -/

theorem zipM_eq (a b : List Val) : zipM a b = (List.zip a b).map (fun p => Val.list [p.1, p.2]) := by
  induction a generalizing b with
  | nil => cases b <;> simp [zipM]
  | cons x xs ih =>
    cases b with
    | nil => simp [zipM]
    | cons y ys => simp [zipM, ih]

theorem enumerateFrom_length (i : Int) (xs : List Val) : (enumerateFrom i xs).length = xs.length := by
  induction xs generalizing i with
  | nil => rfl
  | cons x xs ih => simp [enumerateFrom, ih]

theorem enumerateFrom_getElem? (i : Int) (xs : List Val) (k : Nat) :
    (enumerateFrom i xs)[k]? = xs[k]?.map (fun x => Val.list [.int (i + k), x]) := by
  induction xs generalizing i k with
  | nil => simp [enumerateFrom]
  | cons x xs ih =>
    cases k with
    | zero => simp [enumerateFrom]
    | succ k =>
      simp only [enumerateFrom, List.getElem?_cons_succ, ih]
      congr 1
      funext x
      congr 3
      push_cast
      omega

theorem pairsM_eq (xs : List Val) :
    pairsM xs = (List.zip xs xs.tail).map (fun p => Val.list [p.1, p.2]) := by
  induction xs with
  | nil => simp [pairsM]
  | cons x xs ih =>
    cases xs with
    | nil => simp [pairsM]
    | cons y ys => simp only [pairsM, ih, List.tail_cons, List.zip_cons_cons, List.map_cons]

/-! ### count, any, all, first, last, rest -/

theorem countM_eq (xs : List Val) (e : Val) : countM xs e = (xs.countP (fun x => veq x e) : Int) := by
  unfold countM
  have : ∀ r : Int, xs.foldl (fun r x => if veq x e then r + 1 else r) r =
      r + (xs.countP (fun x => veq x e) : Int) := by
    induction xs with
    | nil => simp
    | cons x xs ih =>
      intro r
      rw [List.foldl_cons, ih, List.countP_cons]
      split
      · simp; omega
      · simp
  simpa using this 0

theorem anyM_eq {α} (p : α → Bool) (xs : List α) : anyM p xs = xs.any p := by
  induction xs with
  | nil => rfl
  | cons x xs ih => simp only [anyM, ih, List.any_cons]; cases p x <;> simp

theorem allM_eq {α} (p : α → Bool) (xs : List α) : allM p xs = xs.all p := by
  induction xs with
  | nil => rfl
  | cons x xs ih => simp only [allM, ih, List.all_cons]; cases p x <;> simp

theorem firstM_eq {α} (xs : List α) : firstM xs = xs.head? := by
  cases xs with
  | nil => simp [firstM, Seq.deref]
  | cons x xs => simp [firstM, Seq.deref]

theorem lastM_eq {α} (xs : List α) : lastM xs = xs.getLast? := by
  cases xs with
  | nil => simp [lastM, Seq.deref]
  | cons x xs =>
    have h1 : (-1 + (((x :: xs).length : Nat) : Int)).toNat = xs.length := by
      simp only [List.length_cons]; omega
    have h0 : ¬ ((-1 + (((x :: xs).length : Nat) : Int)) < 0 ∨
        (-1 + (((x :: xs).length : Nat) : Int)) ≥ (((x :: xs).length : Nat) : Int)) := by
      simp only [List.length_cons]; omega
    unfold lastM Seq.deref
    simp only [show ((-1 : Int) < 0) from by decide, if_true]
    rw [if_neg h0, h1, List.getLast?_eq_getElem?]
    simp

theorem restM_eq {α} (xs : List α) : restM xs = xs.tail := by
  cases xs with
  | nil => simp [restM, Seq.substr]
  | cons x xs =>
    simp only [restM, Seq.substr, Seq.pySlice, List.length_cons, Option.getD_none]
    have h1 : ¬ ((1 : Int) < 0) := by omega
    have h2 : ¬ ((1 : Int) > ((xs.length + 1 : Nat) : Int)) := by omega
    have h3 : ¬ (((xs.length + 1 : Nat) : Int) < 0) := by omega
    simp only [h1, h2, h3, if_false, gt_iff_lt, Int.lt_irrefl]
    simp

end Ckl.C19
