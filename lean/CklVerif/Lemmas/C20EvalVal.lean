import CklVerif.Lemmas.C20EvalPos
import CklVerif.Lemmas.C07Sort
import CklVerif.Model.Eval

/-!
  C20 (evaluator part) — the data operations of the model only move values around: whatever list,
  dictionary or state they build holds values (hence positions) that were already there.
-/
namespace Ckl
variable {P : Pos → Prop}

/-! ### values -/

theorem ValOK.null : ValOK P .null := trivial
theorem ValOK.ofAtom {v : RVal} (h : v.isAtomic = true) : ValOK P v := by cases v <;> first | trivial | cases h
theorem ValOK.ofFunc {v : RVal} (h : v.isFunc = true) : ValOK P v := by cases v <;> first | trivial | cases h

/-! ### lists of values -/

theorem ValsOK.nil : ValsOK P [] := fun _ h => nomatch h
theorem ValsOK.cons {x : RVal} {xs : List RVal} (hx : ValOK P x) (h : ValsOK P xs) : ValsOK P (x :: xs) := by
  intro y hy; rcases List.mem_cons.mp hy with rfl | hy
  · exact hx
  · exact h y hy
theorem ValsOK.head {x : RVal} {xs : List RVal} (h : ValsOK P (x :: xs)) : ValOK P x := h x List.mem_cons_self
theorem ValsOK.tail {x : RVal} {xs : List RVal} (h : ValsOK P (x :: xs)) : ValsOK P xs :=
  fun y hy => h y (List.mem_cons_of_mem _ hy)
theorem ValsOK.append {xs ys : List RVal} (h1 : ValsOK P xs) (h2 : ValsOK P ys) : ValsOK P (xs ++ ys) := by
  intro y hy; rcases List.mem_append.mp hy with h | h
  · exact h1 y h
  · exact h2 y h
theorem ValsOK.sub {xs ys : List RVal} (h : ValsOK P xs) (hs : ∀ y ∈ ys, y ∈ xs) : ValsOK P ys :=
  fun y hy => h y (hs y hy)
theorem ValsOK.filter {xs : List RVal} (h : ValsOK P xs) (f : RVal → Bool) : ValsOK P (xs.filter f) :=
  h.sub (fun _ hy => (List.mem_filter.mp hy).1)
theorem ValsOK.take {xs : List RVal} (h : ValsOK P xs) (n : Nat) : ValsOK P (xs.take n) :=
  h.sub (fun _ hy => List.mem_of_mem_take hy)
theorem ValsOK.drop {xs : List RVal} (h : ValsOK P xs) (n : Nat) : ValsOK P (xs.drop n) :=
  h.sub (fun _ hy => List.mem_of_mem_drop hy)
theorem ValsOK.eraseIdx {xs : List RVal} (h : ValsOK P xs) (n : Nat) : ValsOK P (xs.eraseIdx n) :=
  h.sub (fun _ hy => List.mem_of_mem_eraseIdx hy)
theorem ValsOK.set {xs : List RVal} (h : ValsOK P xs) (n : Nat) {v : RVal} (hv : ValOK P v) : ValsOK P (xs.set n v) := by
  intro y hy; rcases List.mem_or_eq_of_mem_set hy with h1 | rfl
  · exact h y h1
  · exact hv
theorem ValsOK.getElem? {xs : List RVal} (h : ValsOK P xs) {n : Nat} {v : RVal} (hv : xs[n]? = some v) : ValOK P v :=
  h v (List.mem_of_getElem? hv)
theorem ValsOK.getD {xs : List RVal} (h : ValsOK P xs) (n : Nat) : ValOK P (xs.getD n .null) := by
  rw [List.getD_eq_getElem?_getD]
  cases hx : xs[n]? with
  | none => exact trivial
  | some v => exact h.getElem? hx
theorem ValsOK.rangeGetD {xs : List RVal} (h : ValsOK P xs) (count : Nat) :
    ValsOK P ((List.range count).map (fun i => xs.getD i .null)) := by
  intro y hy
  rcases List.mem_map.mp hy with ⟨i, _, rfl⟩
  exact h.getD i
theorem ValsOK.replicateFlatten {xs : List RVal} (h : ValsOK P xs) (n : Nat) :
    ValsOK P (List.replicate n xs).flatten := by
  intro y hy
  rcases List.mem_flatten.mp hy with ⟨l, hl, hyl⟩
  rw [(List.mem_replicate.mp hl).2] at hyl
  exact h y hyl
theorem ValsOK.replicateNull (n : Nat) : ValsOK P (List.replicate n RVal.null) := by
  intro y hy; rw [(List.mem_replicate.mp hy).2]; exact trivial
theorem ValsOK.ofAll {xs : List RVal} (h : ∀ x ∈ xs, ValOK P x) : ValsOK P xs := h
theorem ValsOK.map {α} {l : List α} {f : α → RVal} (h : ∀ a ∈ l, ValOK P (f a)) : ValsOK P (l.map f) := by
  intro y hy; rcases List.mem_map.mp hy with ⟨a, ha, rfl⟩; exact h a ha

/-! sequence operations -/

theorem ValsOK.deref {xs : List RVal} (h : ValsOK P xs) {i : Int} {v : RVal} (hv : Seq.deref xs i = some v) :
    ValOK P v := by
  unfold Seq.deref at hv
  dsimp only at hv
  repeat' split at hv
  all_goals first | cases hv | exact h.getElem? hv
theorem ValsOK.pySlice {xs : List RVal} (h : ValsOK P xs) (a b : Int) : ValsOK P (Seq.pySlice xs a b) :=
  (h.drop _).take _
theorem ValsOK.slice {xs : List RVal} (h : ValsOK P xs) (a : Int) (b : Option Int) : ValsOK P (Seq.slice xs a b) :=
  h.pySlice _ _
theorem ValsOK.substr {xs : List RVal} (h : ValsOK P xs) (a : Int) (b : Option Int) : ValsOK P (Seq.substr xs a b) := by
  unfold Seq.substr
  dsimp only
  repeat' split
  all_goals first | exact ValsOK.nil | exact h.pySlice _ _
theorem ValsOK.insertAt {xs : List RVal} (h : ValsOK P xs) (i : Int) {v : RVal} (hv : ValOK P v) :
    ValsOK P (Seq.insertAt xs i v) := by
  unfold Seq.insertAt
  dsimp only
  repeat' split
  all_goals first | exact h | exact (h.take _).append ((h.drop _).cons hv)
theorem ValsOK.deleteAt {xs : List RVal} (h : ValsOK P xs) (i : Int) :
    ValOK P ((Seq.deleteAt xs i).1.getD .null) ∧ ValsOK P (Seq.deleteAt xs i).2 := by
  have key : ∀ n : Nat, ValOK P (xs[n]?.getD .null) := by
    intro n
    cases hx : xs[n]? with
    | none => exact trivial
    | some v => exact h.getElem? hx
  unfold Seq.deleteAt
  dsimp only
  repeat' split
  all_goals first | exact ⟨trivial, h⟩ | exact ⟨key _, h.eraseIdx _⟩

/-! ### string-keyed dictionaries -/

theorem DictOK.nil : DictOK P [] := fun _ h => nomatch h
theorem DictOK.cons {k : String} {v : RVal} {d : List (String × RVal)} (hv : ValOK P v) (h : DictOK P d) :
    DictOK P ((k, v) :: d) := by
  intro y hy; rcases List.mem_cons.mp hy with rfl | hy
  · exact hv
  · exact h y hy
theorem DictOK.get {d : List (String × RVal)} (h : DictOK P d) {k : String} {v : RVal} (hv : dictGet k d = some v) :
    ValOK P v := by
  induction d with
  | nil => cases hv
  | cons kv d ih =>
    unfold dictGet at hv
    split at hv
    · cases hv; exact h kv List.mem_cons_self
    · exact ih (fun y hy => h y (List.mem_cons_of_mem _ hy)) hv
theorem DictOK.getD {d : List (String × RVal)} (h : DictOK P d) (k : String) : ValOK P ((dictGet k d).getD .null) := by
  cases hv : dictGet k d with
  | none => exact trivial
  | some v => exact h.get hv
theorem DictOK.put {d : List (String × RVal)} (h : DictOK P d) (k : String) {v : RVal} (hv : ValOK P v) :
    DictOK P (dictPut k v d) := by
  induction d with
  | nil => exact DictOK.cons hv DictOK.nil
  | cons kv d ih =>
    unfold dictPut
    have ht : DictOK P d := fun y hy => h y (List.mem_cons_of_mem _ hy)
    split
    · exact DictOK.cons hv ht
    · exact DictOK.cons (h kv List.mem_cons_self) (ih ht)
theorem DictOK.del {d : List (String × RVal)} (h : DictOK P d) (k : String) : DictOK P (dictDel k d) := by
  induction d with
  | nil => exact DictOK.nil
  | cons kv d ih =>
    unfold dictDel
    have ht : DictOK P d := fun y hy => h y (List.mem_cons_of_mem _ hy)
    split
    · exact ht
    · exact DictOK.cons (h kv List.mem_cons_self) (ih ht)
theorem DictOK.vals {d : List (String × RVal)} (h : DictOK P d) : ValsOK P (d.map (·.2)) :=
  ValsOK.map (fun a ha => h a ha)
theorem DictOK.zip {ks : List String} {vs : List RVal} (h : ValsOK P vs) : DictOK P (ks.zip vs) :=
  fun kv hkv => h kv.2 (List.of_mem_zip hkv).2
theorem DictOK.foldPut {kvs : List (String × RVal)} (h : DictOK P kvs) {acc : List (String × RVal)}
    (ha : DictOK P acc) : DictOK P (kvs.foldl (fun acc kv => dictPut kv.1 kv.2 acc) acc) := by
  induction kvs generalizing acc with
  | nil => exact ha
  | cons kv kvs ih =>
    rw [List.foldl_cons]
    exact ih (fun y hy => h y (List.mem_cons_of_mem _ hy)) (ha.put _ (h kv List.mem_cons_self))
theorem DictOK.filter {d : List (String × RVal)} (h : DictOK P d) (f : String × RVal → Bool) : DictOK P (d.filter f) :=
  fun y hy => h y ((List.mem_filter.mp hy).1)

/-! ### maps and sets -/

theorem PairsOK.nil : PairsOK P [] := fun _ h => nomatch h
theorem PairsOK.cons {k v : RVal} {kvs : List (RVal × RVal)} (hk : ValOK P k) (hv : ValOK P v) (h : PairsOK P kvs) :
    PairsOK P ((k, v) :: kvs) := by
  intro y hy; rcases List.mem_cons.mp hy with rfl | hy
  · exact ⟨hk, hv⟩
  · exact h y hy
theorem PairsOK.tail {kv : RVal × RVal} {kvs : List (RVal × RVal)} (h : PairsOK P (kv :: kvs)) : PairsOK P kvs :=
  fun y hy => h y (List.mem_cons_of_mem _ hy)
theorem PairsOK.append {xs ys : List (RVal × RVal)} (h1 : PairsOK P xs) (h2 : PairsOK P ys) : PairsOK P (xs ++ ys) := by
  intro y hy; rcases List.mem_append.mp hy with h | h
  · exact h1 y h
  · exact h2 y h
theorem PairsOK.get {s : State} {kvs : List (RVal × RVal)} (h : PairsOK P kvs) {k v : RVal}
    (hv : mapGet s k kvs = some v) : ValOK P v := by
  induction kvs with
  | nil => cases hv
  | cons kv kvs ih =>
    unfold mapGet at hv
    split at hv
    · cases hv; exact (h kv List.mem_cons_self).2
    · exact ih h.tail hv
theorem PairsOK.put {s : State} {kvs : List (RVal × RVal)} (h : PairsOK P kvs) {k v : RVal} (hk : ValOK P k)
    (hv : ValOK P v) : PairsOK P (mapPut s k v kvs) := by
  induction kvs with
  | nil => exact PairsOK.cons hk hv PairsOK.nil
  | cons kv kvs ih =>
    unfold mapPut
    split
    · exact PairsOK.cons (h kv List.mem_cons_self).1 hv h.tail
    · exact PairsOK.cons (h kv List.mem_cons_self).1 (h kv List.mem_cons_self).2 (ih h.tail)
theorem PairsOK.del {s : State} {kvs : List (RVal × RVal)} (h : PairsOK P kvs) (k : RVal) : PairsOK P (mapDel s k kvs) := by
  induction kvs with
  | nil => exact PairsOK.nil
  | cons kv kvs ih =>
    unfold mapDel
    split
    · exact h.tail
    · exact PairsOK.cons (h kv List.mem_cons_self).1 (h kv List.mem_cons_self).2 (ih h.tail)
theorem PairsOK.keys {kvs : List (RVal × RVal)} (h : PairsOK P kvs) : ValsOK P (kvs.map (·.1)) :=
  ValsOK.map (fun a ha => (h a ha).1)
theorem PairsOK.vals {kvs : List (RVal × RVal)} (h : PairsOK P kvs) : ValsOK P (kvs.map (·.2)) :=
  ValsOK.map (fun a ha => (h a ha).2)
theorem PairsOK.sub {xs ys : List (RVal × RVal)} (h : PairsOK P xs) (hs : ∀ y ∈ ys, y ∈ xs) : PairsOK P ys :=
  fun y hy => h y (hs y hy)
theorem PairsOK.foldPut {s : State} {out : List (RVal × RVal)} (h : PairsOK P out) {acc : List (RVal × RVal)}
    (ha : PairsOK P acc) : PairsOK P (out.foldl (fun acc kv => mapPut s kv.1 kv.2 acc) acc) := by
  induction out generalizing acc with
  | nil => exact ha
  | cons kv kvs ih =>
    rw [List.foldl_cons]
    exact ih h.tail (ha.put (h kv List.mem_cons_self).1 (h kv List.mem_cons_self).2)

theorem ValsOK.setAdd {s : State} {xs : List RVal} (h : ValsOK P xs) {x : RVal} (hx : ValOK P x) :
    ValsOK P (setAdd s x xs) := by
  unfold Ckl.setAdd
  split
  · exact h
  · exact h.append (ValsOK.cons hx ValsOK.nil)
theorem ValsOK.foldSetAdd {s : State} {items : List RVal} (h : ValsOK P items) {acc : List RVal} (ha : ValsOK P acc) :
    ValsOK P (items.foldl (fun acc x => Ckl.setAdd s x acc) acc) := by
  induction items generalizing acc with
  | nil => exact ha
  | cons x xs ih =>
    rw [List.foldl_cons]
    exact ih h.tail (ha.setAdd h.head)

theorem ValsOK.of_mem {xs : List RVal} (h : ValsOK P xs) {x : RVal} (hx : x ∈ xs) : ValOK P x := h x hx
theorem DictOK.snd_of_mem {d : List (String × RVal)} (h : DictOK P d) {kv : String × RVal} (hx : kv ∈ d) :
    ValOK P kv.2 := h kv hx
theorem PairsOK.fst_of_mem {d : List (RVal × RVal)} (h : PairsOK P d) {kv : RVal × RVal} (hx : kv ∈ d) :
    ValOK P kv.1 := (h kv hx).1
theorem PairsOK.snd_of_mem {d : List (RVal × RVal)} (h : PairsOK P d) {kv : RVal × RVal} (hx : kv ∈ d) :
    ValOK P kv.2 := (h kv hx).2
theorem ValsOK.zip_fst {xs ys : List RVal} (h : ValsOK P xs) {p : RVal × RVal} (hp : p ∈ xs.zip ys) : ValOK P p.1 :=
  h p.1 (List.of_mem_zip hp).1
theorem ValsOK.zip_snd {xs ys : List RVal} (h : ValsOK P ys) {p : RVal × RVal} (hp : p ∈ xs.zip ys) : ValOK P p.2 :=
  h p.2 (List.of_mem_zip hp).2

/-! ### sorting by data keys returns a permutation -/

theorem mapM_option_snd {α β} {f : α → Option β} : ∀ {xs : List α} {ys : List (β × α)},
    xs.mapM (fun x => do let v ← f x; pure (v, x)) = some ys → ys.map (·.2) = xs
  | [], ys, h => by
    rw [List.mapM_nil] at h; cases h; rfl
  | x :: xs, ys, h => by
    rw [List.mapM_cons] at h
    cases hf : f x with
    | none => rw [hf] at h; cases h
    | some v =>
      rw [hf] at h
      cases hr : xs.mapM (fun x => do let v ← f x; pure (v, x)) with
      | none => rw [hr] at h; cases h
      | some zs =>
        rw [hr] at h
        cases h
        simp [mapM_option_snd hr]

theorem sortKeyedGen_mem {α} {key : α → Option Val} {xs ys : List α}
    (h : (do let keyed ← xs.mapM (fun x => do let v ← key x; pure (v, x))
             pure ((sortBy (fun a b => vlt a.1 b.1) keyed).map (·.2)) : Option (List α)) = some ys) :
    ∀ y ∈ ys, y ∈ xs := by
  cases hk : xs.mapM (fun x => do let v ← key x; pure (v, x)) with
  | none => rw [hk] at h; cases h
  | some keyed =>
    rw [hk] at h
    cases h
    intro y hy
    rcases List.mem_map.mp hy with ⟨kv, hkv, rfl⟩
    have := (sortBy_perm' (fun a b => vlt a.1 b.1) keyed).mem_iff.mp hkv
    rw [← mapM_option_snd hk]
    exact List.mem_map.mpr ⟨kv, this, rfl⟩

theorem sortedR_mem {s : State} {xs ys : List RVal} (h : sortedR s xs = some ys) : ∀ y ∈ ys, y ∈ xs :=
  sortKeyedGen_mem (key := reify s) h
theorem sortedEntriesR_mem {s : State} {xs ys : List (RVal × RVal)} (h : sortedEntriesR s xs = some ys) :
    ∀ y ∈ ys, y ∈ xs :=
  sortKeyedGen_mem (key := fun (kv : RVal × RVal) => reify s kv.1) h

theorem ValsOK.sortedR' {s : State} {xs ys : List RVal} (hs : Ckl.sortedR s xs = some ys) (h : ValsOK P xs) :
    ValsOK P ys := h.sub (sortedR_mem hs)
theorem PairsOK.sortedEntriesR' {s : State} {xs ys : List (RVal × RVal)} (hs : Ckl.sortedEntriesR s xs = some ys)
    (h : PairsOK P xs) : PairsOK P ys := h.sub (sortedEntriesR_mem hs)
theorem ValsOK.sortedR {s : State} {xs ys : List RVal} (h : ValsOK P xs) (hs : sortedR s xs = some ys) : ValsOK P ys :=
  h.sub (sortedR_mem hs)
theorem PairsOK.sortedEntriesR {s : State} {xs ys : List (RVal × RVal)} (h : PairsOK P xs)
    (hs : sortedEntriesR s xs = some ys) : PairsOK P ys :=
  h.sub (sortedEntriesR_mem hs)

/-! ### environments -/

theorem StOK.frame {s : State} (h : StOK P s) (e : EnvId) : FrameOK P (s.frame e) := by
  unfold State.frame
  rw [Array.getD_eq_getD_getElem?]
  cases hf : s.frames[e]? with
  | none => exact DictOK.nil
  | some f => exact h.frames_ok e f hf

theorem StOK.lookupF {s : State} (h : StOK P s) : ∀ (fuel : Nat) (e : EnvId) (x : String) (v : RVal),
    s.lookupF fuel e x = some v → ValOK P v
  | 0, _, _, _, hv => by simp [State.lookupF] at hv
  | fuel + 1, e, x, v, hv => by
    unfold State.lookupF at hv
    dsimp only at hv
    split at hv
    · rename_i w hw
      cases hv
      exact (h.frame e).get hw
    · split at hv
      · exact StOK.lookupF h fuel _ x v hv
      · cases hv

theorem StOK.lookup {s : State} (h : StOK P s) {e : EnvId} {x : String} {v : RVal} (hv : s.lookup e x = some v) :
    ValOK P v := h.lookupF _ e x v hv

theorem StOK.lookupD {s : State} (h : StOK P s) (e : EnvId) (x : String) : ValOK P ((s.lookup e x).getD .null) := by
  cases hv : s.lookup e x with
  | none => exact trivial
  | some v => exact h.lookup hv

theorem StOK.modifyFrame {s : State} (h : StOK P s) (e : EnvId) (g : Frame → Frame)
    (hg : ∀ f, FrameOK P f → FrameOK P (g f)) : StOK P { s with frames := s.frames.modify e g } := by
  refine ⟨h.heap_ok, fun i f hf => ?_⟩
  dsimp only at hf
  rw [Array.getElem?_modify] at hf
  split at hf
  · cases hx : s.frames[i]? with
    | none => rw [hx] at hf; cases hf
    | some f0 => rw [hx] at hf; cases hf; exact hg f0 (h.frames_ok i f0 hx)
  · exact h.frames_ok i f hf

theorem StOK.put {s : State} (h : StOK P s) (e : EnvId) (x : String) {v : RVal} (hv : ValOK P v) :
    StOK P (s.put e x v) :=
  h.modifyFrame e _ (fun _ hf => DictOK.put hf x hv)

theorem StOK.remove {s : State} (h : StOK P s) (e : EnvId) (x : String) : StOK P (s.remove e x) :=
  h.modifyFrame e _ (fun _ hf => DictOK.del hf x)

theorem StOK.setF {s : State} (h : StOK P s) {v : RVal} (hv : ValOK P v) : ∀ (fuel : Nat) (e : EnvId) (x : String)
    (s' : State), s.setF fuel e x v = some s' → StOK P s'
  | 0, _, _, _, hs => by simp [State.setF] at hs
  | fuel + 1, e, x, s', hs => by
    unfold State.setF at hs
    dsimp only at hs
    split at hs
    · cases hs; exact h.put e x hv
    · split at hs
      · exact StOK.setF h hv fuel _ x s' hs
      · cases hs

theorem StOK.set {s s' : State} (h : StOK P s) {e : EnvId} {x : String} {v : RVal} (hv : ValOK P v)
    (hs : s.set e x v = some s') : StOK P s' := h.setF hv _ e x s' hs

theorem StOK.newEnv {s : State} (h : StOK P s) (parent : EnvId) : StOK P (s.newEnv parent).1 := by
  refine ⟨h.heap_ok, fun i f hf => ?_⟩
  unfold State.newEnv at hf
  dsimp only at hf
  rw [Array.getElem?_push] at hf
  split at hf
  · cases hf; exact DictOK.nil
  · exact h.frames_ok i f hf

theorem StOK.foldl {α} {s : State} (h : StOK P s) (f : State → α → State) (xs : List α)
    (hf : ∀ s x, x ∈ xs → StOK P s → StOK P (f s x)) : StOK P (xs.foldl f s) := by
  induction xs generalizing s with
  | nil => exact h
  | cons x xs ih =>
    rw [List.foldl_cons]
    exact ih (hf s x List.mem_cons_self h) (fun s y hy => hf s y (List.mem_cons_of_mem _ hy))

/-! ### the same facts with the equation / membership hypothesis first (for proof search) -/

theorem DictOK.get' {d : List (String × RVal)} {k : String} {v : RVal} (hv : dictGet k d = some v) (h : DictOK P d) :
    ValOK P v := h.get hv
theorem PairsOK.get' {s : State} {kvs : List (RVal × RVal)} {k v : RVal} (hv : mapGet s k kvs = some v)
    (h : PairsOK P kvs) : ValOK P v := h.get hv
theorem ValsOK.getElem?' {xs : List RVal} {n : Nat} {v : RVal} (hv : xs[n]? = some v) (h : ValsOK P xs) : ValOK P v :=
  h.getElem? hv
theorem ValsOK.deref' {xs : List RVal} {i : Int} {v : RVal} (hv : Seq.deref xs i = some v) (h : ValsOK P xs) :
    ValOK P v := h.deref hv
theorem StOK.lookup' {s : State} {e : EnvId} {x : String} {v : RVal} (hv : s.lookup e x = some v) (h : StOK P s) :
    ValOK P v := h.lookup hv
theorem StOK.set' {s s' : State} {e : EnvId} {x : String} {v : RVal} (hs : s.set e x v = some s') (h : StOK P s)
    (hv : ValOK P v) : StOK P s' := h.set hv hs
theorem ValsOK.of_mem' {xs : List RVal} {x : RVal} (hx : x ∈ xs) (h : ValsOK P xs) : ValOK P x := h x hx
theorem DictOK.snd_of_mem' {d : List (String × RVal)} {kv : String × RVal} (hx : kv ∈ d) (h : DictOK P d) :
    ValOK P kv.2 := h kv hx
theorem PairsOK.fst_of_mem' {d : List (RVal × RVal)} {kv : RVal × RVal} (hx : kv ∈ d) (h : PairsOK P d) :
    ValOK P kv.1 := (h kv hx).1
theorem PairsOK.snd_of_mem' {d : List (RVal × RVal)} {kv : RVal × RVal} (hx : kv ∈ d) (h : PairsOK P d) :
    ValOK P kv.2 := (h kv hx).2
theorem ValsOK.zip_fst' {xs ys : List RVal} {p : RVal × RVal} (hp : p ∈ xs.zip ys) (h : ValsOK P xs) : ValOK P p.1 :=
  h.zip_fst hp
theorem ValsOK.zip_snd' {xs ys : List RVal} {p : RVal × RVal} (hp : p ∈ xs.zip ys) (h : ValsOK P ys) : ValOK P p.2 :=
  h.zip_snd hp
theorem StOK.cellList' {s : State} {a : Nat} {xs} (hc : s.cell a = some (.list xs)) (h : StOK P s) : ValsOK P xs :=
  h.cell hc
theorem StOK.cellSet' {s : State} {a : Nat} {xs} (hc : s.cell a = some (.set xs)) (h : StOK P s) : ValsOK P xs :=
  h.cell hc
theorem StOK.cellMap' {s : State} {a : Nat} {kvs} (hc : s.cell a = some (.map kvs)) (h : StOK P s) : PairsOK P kvs :=
  h.cell hc
theorem StOK.cellObj' {s : State} {a : Nat} {kvs m} (hc : s.cell a = some (.obj kvs m)) (h : StOK P s) :
    DictOK P kvs := h.cell hc
theorem ValsOK.mapAtom {α} {l : List α} {f : α → RVal} (h : ∀ a, (f a).isAtomic = true) : ValsOK P (l.map f) :=
  ValsOK.map (fun a _ => ValOK.ofAtom (h a))

theorem ValsOK.deleteAt1 {xs : List RVal} (h : ValsOK P xs) (i : Int) : ValOK P ((Seq.deleteAt xs i).1.getD .null) :=
  (h.deleteAt i).1
theorem ValsOK.deleteAt2 {xs : List RVal} (h : ValsOK P xs) (i : Int) : ValsOK P (Seq.deleteAt xs i).2 :=
  (h.deleteAt i).2
theorem StOK.of_eq' {s s' : State} (h : StOK P s) (he : s'.heap = s.heap) (hf : s'.frames = s.frames) : StOK P s' :=
  h.of_eq he hf

theorem ValsOK.cons_iff {x : RVal} {xs : List RVal} : ValsOK P (x :: xs) ↔ ValOK P x ∧ ValsOK P xs :=
  ⟨fun h => ⟨h.head, h.tail⟩, fun h => ValsOK.cons h.1 h.2⟩
theorem ValsOK.nil_iff : ValsOK P [] ↔ True := ⟨fun _ => trivial, fun _ => ValsOK.nil⟩
theorem PairsOK.cons_iff {kv : RVal × RVal} {kvs : List (RVal × RVal)} :
    PairsOK P (kv :: kvs) ↔ (ValOK P kv.1 ∧ ValOK P kv.2) ∧ PairsOK P kvs :=
  ⟨fun h => ⟨h kv List.mem_cons_self, h.tail⟩, fun h => PairsOK.cons h.1.1 h.1.2 h.2⟩
theorem PairsOK.nil_iff : PairsOK P [] ↔ True := ⟨fun _ => trivial, fun _ => PairsOK.nil⟩
theorem DictOK.cons_iff {kv : String × RVal} {d : List (String × RVal)} :
    DictOK P (kv :: d) ↔ ValOK P kv.2 ∧ DictOK P d :=
  ⟨fun h => ⟨h kv List.mem_cons_self, fun y hy => h y (List.mem_cons_of_mem _ hy)⟩, fun h => DictOK.cons h.1 h.2⟩
theorem DictOK.nil_iff : DictOK P [] ↔ True := ⟨fun _ => trivial, fun _ => DictOK.nil⟩

theorem ValsOK.arrGetD {arr : Array RVal} (h : ValsOK P arr.toList) (i : Nat) : ValOK P (arr.getD i .null) := by
  have := h.getD i
  rwa [List.getD_eq_getElem?_getD, Array.getElem?_toList, ← Array.getD_eq_getD_getElem?] at this
theorem ValsOK.arrSet {arr : Array RVal} (h : ValsOK P arr.toList) (i : Nat) {v : RVal} (hv : ValOK P v) :
    ValsOK P (arr.setIfInBounds i v).toList := by
  rw [Array.toList_setIfInBounds]
  exact h.set i hv
theorem DictOK.mapLookupD {s : State} (hs : StOK P s) (e : EnvId) (l : List String) :
    DictOK P (l.map (fun n => (n, (s.lookup e n).getD .null))) := by
  intro kv hkv
  rcases List.mem_map.mp hkv with ⟨n, _, rfl⟩
  exact hs.lookupD e n

theorem StOK.findOwnerF {s : State} (hs : StOK P s) : ∀ (fuel : Nat) (v : RVal) (key : String) (seen : List Nat)
    (kvs : List (String × RVal)), Ckl.findOwnerF s fuel v key seen = some kvs → DictOK P kvs
  | 0, _, _, _, _, h => by simp [Ckl.findOwnerF] at h
  | fuel + 1, v, key, seen, kvs, h => by
    cases v with
    | ref a =>
      unfold Ckl.findOwnerF at h
      split at h
      · cases h
      · split at h
        · rename_i kvs0 m hc
          split at h
          · cases h; exact hs.cell hc
          · split at h
            · exact StOK.findOwnerF hs fuel _ key _ kvs h
            · cases h
        · cases h
    | _ => simp [Ckl.findOwnerF] at h

theorem StOK.findOwner' {s : State} {v : RVal} {key : String} {kvs : List (String × RVal)}
    (h : Ckl.findOwner s v key = some kvs) (hs : StOK P s) : DictOK P kvs :=
  hs.findOwnerF _ v key [] kvs h

/-! ### the bindings a `for` loop hides and restores -/

theorem StOK.hiddenVars {s : State} (hs : StOK P s) (env : EnvId) (ids : List String) :
    DictOK P (Ckl.hiddenVars s env ids) := by
  intro kv hkv
  unfold Ckl.hiddenVars at hkv
  rcases List.mem_filterMap.mp hkv with ⟨x, _, hx⟩
  cases hg : dictGet x (s.frame env).vars with
  | none => rw [hg] at hx; cases hx
  | some v =>
    rw [hg] at hx
    cases hx
    exact (hs.frame env).get hg

theorem StOK.restoreVars {s : State} (hs : StOK P s) (env : EnvId) {hidden : List (String × RVal)}
    (hh : DictOK P hidden) : StOK P (Ckl.restoreVars env hidden s) := by
  unfold Ckl.restoreVars
  exact StOK.foldl hs _ _ (fun s' kv hkv hs' => hs'.put env kv.1 (hh kv hkv))

end Ckl
