/- AST and token <-> S-expression codec (driver protocol; no theorem depends on it).

  node     ::= (TAG POS field…)          POS ::= @LINE:COL   (only when positions are requested, else omitted)
  field    ::= node | (L node…) | s:HEX | ~ | T | F | (N s:HEX…) | (O s:HEX|~ …) | (v VAL)
-/
import CklVerif.Model.Ast
import CklVerif.Driver.Codec
namespace Ckl
open Sx

def sxStr (s : String) : Sx := .atom ("s:" ++ encodeStr s.toList)
def sxOptStr : Option String → Sx
  | some s => sxStr s
  | none => .atom "~"
def sxBool (b : Bool) : Sx := .atom (if b then "T" else "F")
def sxNames (ns : List String) : Sx := .list (.atom "N" :: ns.map sxStr)
def sxOptNames (ns : List (Option String)) : Sx := .list (.atom "O" :: ns.map sxOptStr)
def sxPos (p : Pos) : Sx := .atom ("@" ++ toString p.line ++ ":" ++ toString p.col)

mutual
  partial def encodeNode (wp : Bool) : Node → Sx
    | .absent => .atom "~"
    | .catchAll => .atom "all"
    | .null p => mk wp "null" p []
    | .lit v p => mk wp "lit" p [.list [.atom "v", encodeVal v]]
    | .ident n p => mk wp "id" p [sxStr n]
    | .and es p => mk wp "and" p [encL wp es]
    | .or es p => mk wp "or" p [encL wp es]
    | .not e p => mk wp "not" p [encodeNode wp e]
    | .assign n e p => mk wp "assign" p [sxStr n, encodeNode wp e]
    | .assignD ns e p => mk wp "assignD" p [sxNames ns, encodeNode wp e]
    | .block es ce ch fin tl p => mk wp "block" p [encL wp es, encL wp ce, encL wp ch, encL wp fin, sxBool tl]
    | .brk p => mk wp "break" p []
    | .cont p => mk wp "continue" p []
    | .cls n ms p => mk wp "class" p [sxStr n, encL wp ms]
    | .defn n e info p => mk wp "def" p [sxStr n, encodeNode wp e, sxStr info]
    | .defD ns e info p => mk wp "defD" p [sxNames ns, encodeNode wp e, sxStr info]
    | .deref e i d p => mk wp "deref" p [encodeNode wp e, encodeNode wp i, encodeNode wp d]
    | .derefAssign e i v p => mk wp "derefAssign" p [encodeNode wp e, encodeNode wp i, encodeNode wp v]
    | .derefInvoke o m ns as p => mk wp "derefInvoke" p [encodeNode wp o, sxStr m, sxOptNames ns, encL wp as]
    | .slice e a b p => mk wp "slice" p [encodeNode wp e, encodeNode wp a, encodeNode wp b]
    | .error e p => mk wp "error" p [encodeNode wp e]
    | .for ids e b w p => mk wp "for" p [sxNames ids, encodeNode wp e, encodeNode wp b, sxStr w]
    | .call f ns as p => mk wp "call" p [encodeNode wp f, sxOptNames ns, encL wp as]
    | .ite cs es el p => mk wp "if" p [encL wp cs, encL wp es, encodeNode wp el]
    | .isIn e c p => mk wp "in" p [encodeNode wp e, encodeNode wp c]
    | .lambda ps ds b p => mk wp "lambda" p [sxNames ps, encL wp ds, encodeNode wp b]
    | .list items p => mk wp "list" p [encL wp items]
    | .compr k sh ve ke i1 l1 w1 i2 l2 w2 c p =>
        mk wp "compr" p [.atom (match k with | .list => "list" | .set => "set" | .map => "map"),
          .atom (match sh with | .single => "single" | .product => "product" | .parallel => "parallel"),
          encodeNode wp ve, encodeNode wp ke, sxStr i1, encodeNode wp l1, sxOptStr w1,
          sxStr i2, encodeNode wp l2, sxOptStr w2, encodeNode wp c]
    | .map ks vs p => mk wp "map" p [encL wp ks, encL wp vs]
    | .object ks vs p => mk wp "object" p [sxNames ks, encL wp vs]
    | .require s n u syms p => mk wp "require" p [encodeNode wp s, sxOptStr n, sxBool u,
        match syms with
        | none => .atom "~"
        | some l => .list (.atom "N" :: l.flatMap (fun ab => [sxStr ab.1, sxStr ab.2]))]
    | .ret e p => mk wp "return" p [encodeNode wp e]
    | .set items p => mk wp "set" p [encL wp items]
    | .spread e p => mk wp "spread" p [encodeNode wp e]
    | .while c b p => mk wp "while" p [encodeNode wp c, encodeNode wp b]
  partial def encL (wp : Bool) (xs : List Node) : Sx := .list (.atom "L" :: xs.map (encodeNode wp))
  partial def mk (wp : Bool) (tag : String) (p : Pos) (fields : List Sx) : Sx :=
    .list (.atom tag :: (if wp then [sxPos p] else []) ++ fields)
end

/-- `(tok TYPE s:HEX LINE COL)` -/
def decodeToken (file : String) : Sx → Option Token
  | .list [.atom "tok", .atom ty, .atom v, l, c] => do
      let ty ← TokType.ofName? ty
      let v ← if v.startsWith "s:" then decodeStr (v.drop 2).toString else none
      let l ← atomNat? l; let c ← atomInt? c
      some ⟨v, ty, ⟨file, l, c⟩⟩
  | _ => none

def encodeToken (t : Token) : Sx :=
  .list [.atom "tok", .atom t.type.name, .atom ("s:" ++ encodeStr t.value), .atom (toString t.pos.line), .atom (toString t.pos.col)]

end Ckl
