/-
  C08Dec — the search loop of `shortestDigits` always returns: 17 significant digits identify a
  binary64 value (`found17`, `found`); on the way: `decPt_spec` (`10^(k-1) ≤ v < 10^k`) and
  `scaleFloor_spec` (`scaleFloor v s = ⌊v · 10^s⌋`).
-/
import CklVerif.Lemmas.C08DecRat
namespace Ckl.C08D
open Ckl Ckl.Parser

/-! ## numeric facts -/

theorem num_lo : (10 : ℚ) ^ (-400 : ℤ) < (2 : ℚ) ^ (-1074 : ℤ) := by
  have h27 : (2 : ℚ) ^ (27 : ℕ) < (10 : ℚ) ^ (9 : ℕ) := by norm_num
  have h : (2 : ℚ) ^ (1074 : ℕ) < (10 : ℚ) ^ (400 : ℕ) :=
    calc (2 : ℚ) ^ (1074 : ℕ) ≤ (2 : ℚ) ^ (27 * 40 : ℕ) := pow_le_pow_right₀ (by norm_num) (by norm_num)
      _ = ((2 : ℚ) ^ (27 : ℕ)) ^ (40 : ℕ) := pow_mul _ _ _
      _ < ((10 : ℚ) ^ (9 : ℕ)) ^ (40 : ℕ) := pow_lt_pow_left₀ h27 (by positivity) (by norm_num)
      _ = (10 : ℚ) ^ (9 * 40 : ℕ) := (pow_mul _ _ _).symm
      _ ≤ (10 : ℚ) ^ (400 : ℕ) := pow_le_pow_right₀ (by norm_num) (by norm_num)
  have e1 : (10 : ℚ) ^ (-400 : ℤ) = ((10 : ℚ) ^ (400 : ℕ))⁻¹ := by
    rw [← zpow_natCast, ← zpow_neg]; rfl
  have e2 : (2 : ℚ) ^ (-1074 : ℤ) = ((2 : ℚ) ^ (1074 : ℕ))⁻¹ := by
    rw [← zpow_natCast, ← zpow_neg]; rfl
  rw [e1, e2]
  exact (inv_lt_inv₀ (by positivity) (by positivity)).2 h

theorem num_hi : ((2 : ℚ) ^ (1024 : ℕ)) < (10 : ℚ) ^ (399 : ℤ) := by
  have e1 : (10 : ℚ) ^ (399 : ℤ) = (10 : ℚ) ^ (399 : ℕ) := by
    rw [← zpow_natCast]; rfl
  rw [e1]
  have h27 : (2 : ℚ) ^ (27 : ℕ) < (10 : ℚ) ^ (9 : ℕ) := by norm_num
  calc (2 : ℚ) ^ (1024 : ℕ) ≤ (2 : ℚ) ^ (27 * 38 : ℕ) := pow_le_pow_right₀ (by norm_num) (by norm_num)
    _ = ((2 : ℚ) ^ (27 : ℕ)) ^ (38 : ℕ) := pow_mul _ _ _
    _ < ((10 : ℚ) ^ (9 : ℕ)) ^ (38 : ℕ) := pow_lt_pow_left₀ h27 (by positivity) (by norm_num)
    _ = (10 : ℚ) ^ (9 * 38 : ℕ) := (pow_mul _ _ _).symm
    _ ≤ (10 : ℚ) ^ (399 : ℕ) := pow_le_pow_right₀ (by norm_num) (by norm_num)

/-! ## `decPt` -/

theorem ratLt_pow10_iff (a e : Nat) (k : Int) :
    ratLt (a, 2 ^ e) (pow10Rat 1 k) = true ↔ (a : ℚ) / 2 ^ e < (10 : ℚ) ^ k := by
  rw [ratLt_iff _ _ (Nat.pow_pos (by decide)) (pow10Rat_pos _ _), rv_v, rv_pow10Rat, Nat.cast_one, one_mul]

set_option exponentiation.threshold 1100 in
theorem v_bounds (a e : Nat) (ha : 0 < a) (hd : IsDoubleN a e) :
    (10 : ℚ) ^ (-400 : ℤ) < (a : ℚ) / 2 ^ e ∧ (a : ℚ) / 2 ^ e < (10 : ℚ) ^ (399 : ℤ) := by
  constructor
  · obtain ⟨hv, hE, hM, _, _⟩ := toBin64_spec a e ha hd
    rw [hv]
    generalize (toBin64 a e).1 = M at *
    generalize (toBin64 a e).2 = E at *
    have h1 : (1 : ℚ) ≤ (M : ℚ) := by exact_mod_cast hM
    have h2 : (2 : ℚ) ^ (-1074 : ℤ) ≤ (2 : ℚ) ^ E := zpow_le_zpow_right₀ (by norm_num) hE
    have h3 : (0 : ℚ) < (2 : ℚ) ^ E := zpow_pos (by norm_num) E
    have h4 := num_lo
    nlinarith
  · have h1 : (a : ℚ) < (2 : ℚ) ^ (1024 : ℕ) := by
      rcases hd with ⟨_, h, _⟩ | ⟨_, _, _, h⟩
      · exact_mod_cast h
      · have h53 : (a : ℚ) < (2 : ℚ) ^ (53 : ℕ) := by exact_mod_cast h
        exact lt_of_lt_of_le h53 (pow_le_pow_right₀ (by norm_num) (by norm_num))
    have h2 : (1 : ℚ) ≤ (2 : ℚ) ^ e := one_le_pow₀ (by norm_num)
    have h3 : (a : ℚ) / 2 ^ e ≤ (a : ℚ) := div_le_self (by positivity) h2
    exact lt_of_le_of_lt h3 (lt_trans h1 num_hi)

/-- **decPt_spec**: on a positive double `v = a / 2^e`, `decPt` is the decimal exponent:
    `10^(k-1) ≤ v < 10^k` -/
theorem decPt_spec (a e : Nat) (ha : 0 < a) (hd : IsDoubleN a e) :
    (10 : ℚ) ^ (decPt (a, 2 ^ e) - 1) ≤ (a : ℚ) / 2 ^ e ∧ (a : ℚ) / 2 ^ e < (10 : ℚ) ^ (decPt (a, 2 ^ e)) := by
  obtain ⟨hlo, hhi⟩ := v_bounds a e ha hd
  rw [decPt_eq]
  obtain ⟨h1, h2, h3, h4⟩ := firstK_spec (fun k => ratLt (a, 2 ^ e) (pow10Rat 1 k)) 800 (-400)
  generalize firstK (fun k => ratLt (a, 2 ^ e) (pow10Rat 1 k)) 800 (-400) = k at *
  have c_false : ∀ j : Int, ratLt (a, 2 ^ e) (pow10Rat 1 j) = false → (10 : ℚ) ^ j ≤ (a : ℚ) / 2 ^ e := by
    intro j hj
    by_contra hcon
    have := (ratLt_pow10_iff a e j).2 (not_le.1 hcon)
    rw [hj] at this; exact Bool.false_ne_true this
  -- k > -400
  have hk1 : -400 < k := by
    rcases Int.lt_or_eq_of_le h1 with h | h
    · exact h
    · exfalso
      have hc := h4 (by omega)
      rw [← h] at hc
      have := (ratLt_pow10_iff a e (-400)).1 hc
      exact absurd this (not_lt.2 (le_of_lt hlo))
  -- k < 400
  have hk2 : k < -400 + (800 : ℕ) := by
    by_contra hcon
    have h399 := c_false 399 (h3 399 (by omega) (by omega))
    exact absurd hhi (not_lt.2 h399)
  exact ⟨c_false (k - 1) (h3 (k - 1) (by omega) (by omega)), (ratLt_pow10_iff a e k).1 (h4 hk2)⟩

/-! ## `scaleFloor` -/

theorem natdiv_spec (n D : Nat) (hD : 0 < D) :
    ((n / D : ℕ) : ℚ) ≤ (n : ℚ) / D ∧ (n : ℚ) / D < ((n / D : ℕ) : ℚ) + 1 := by
  have hD' : (0 : ℚ) < D := by exact_mod_cast hD
  have h1 : (n / D) * D ≤ n := Nat.div_mul_le_self n D
  have h2 : n < (n / D + 1) * D := by
    rw [Nat.mul_comm]; exact Nat.lt_mul_div_succ n hD
  constructor
  · rw [le_div_iff₀ hD']; exact_mod_cast h1
  · rw [div_lt_iff₀ hD']; exact_mod_cast h2

/-- **scaleFloor_spec**: `scaleFloor v s = ⌊v · 10^s⌋` -/
theorem scaleFloor_spec (v : Nat × Nat) (hv : 0 < v.2) (s : Int) :
    (scaleFloor v s : ℚ) ≤ rv v * (10 : ℚ) ^ s ∧ rv v * (10 : ℚ) ^ s < (scaleFloor v s : ℚ) + 1 := by
  have hv' : (v.2 : ℚ) ≠ 0 := by exact_mod_cast hv.ne'
  unfold scaleFloor rv
  split
  · rename_i h
    have e : (v.1 : ℚ) / v.2 * (10 : ℚ) ^ s = ((v.1 * 10 ^ s.toNat : ℕ) : ℚ) / v.2 := by
      rw [← ten_pow_toNat s h]; push_cast; ring
    rw [e]
    exact natdiv_spec _ _ hv
  · rename_i h
    have hp : 0 < v.2 * 10 ^ (-s).toNat := Nat.mul_pos hv (Nat.pow_pos (by decide))
    have e : (v.1 : ℚ) / v.2 * (10 : ℚ) ^ s = (v.1 : ℚ) / ((v.2 * 10 ^ (-s).toNat : ℕ) : ℚ) := by
      have : (10 : ℚ) ^ s = ((10 : ℚ) ^ (-s).toNat)⁻¹ := by
        rw [ten_pow_toNat (-s) (by omega), zpow_neg, inv_inv]
      rw [this]; push_cast; rw [div_mul_eq_div_div, div_eq_mul_inv ((v.1 : ℚ) / v.2)]
    rw [e]
    exact natdiv_spec _ _ hp

/-! ## seventeen digits suffice -/

/-- the rational core: a decimal grid of mesh `g ≤ v / 10^16` around `v = m · u` (`1 ≤ m < 2^53`) has a
    point strictly inside the rounding interval: the grid point above `v` or the grid point at or below `v` -/
theorem grid_core (m u v g c1 c2 lo hi : ℚ) (hu : 0 < u) (hm1 : 1 ≤ m) (hm2 : m < 2 ^ 53) (hv : v = m * u)
    (hg : g * 10 ^ 16 ≤ v) (h1 : c1 ≤ v) (h2 : v < c2) (h12 : c2 - c1 = g)
    (hhi : hi = (m + 1 / 2) * u)
    (hlo : lo = (m - 1 / 2) * u ∨ (m = 2 ^ 52 ∧ lo = (2 ^ 52 - 1 / 4) * u)) :
    (lo < c2 ∧ c2 < hi) ∨ (0 < c1 ∧ lo < c1 ∧ c1 < hi) := by
  have hmu : m * u < 2 ^ 53 * u := mul_lt_mul_of_pos_right hm2 hu
  have hgu : g < u := by
    have : (2 : ℚ) ^ 53 < 10 ^ 16 := by norm_num
    nlinarith
  rcases hlo with hlo | ⟨hm, hlo⟩
  · have hlo0 : 0 < lo := by rw [hlo]; nlinarith
    by_cases hc : c2 - v ≤ g / 2
    · left; subst hv hhi hlo; constructor <;> linarith
    · right; subst hv hhi hlo; refine ⟨?_, ?_, ?_⟩ <;> linarith
  · have hgu2 : g < u / 2 := by
      subst hm
      have e : (2 : ℚ) ^ 52 * u * 2 = 2 ^ 53 * u := by ring
      have : (2 : ℚ) ^ 53 < 10 ^ 16 := by norm_num
      nlinarith
    have hlo0 : 0 < lo := by rw [hlo]; nlinarith
    by_cases hc : c2 - v ≤ g / 2
    · left; subst hv hhi hlo hm; constructor <;> linarith
    · right; subst hv hhi hlo hm; refine ⟨?_, ?_, ?_⟩ <;> linarith

theorem found17_aux (a e : Nat) (ha : 0 < a) (hd : IsDoubleN a e) (k : Int)
    (hk : (10 : ℚ) ^ (k - 1) ≤ (a : ℚ) / 2 ^ e ∧ (a : ℚ) / 2 ^ e < (10 : ℚ) ^ k) :
    (ok1 a e k 17 || ok2 a e k 17) = true := by
  obtain ⟨hv, hE, hM, hM53, _⟩ := toBin64_spec a e ha hd
  have hin := inside_iff a e ha hd
  unfold ok1 ok2
  generalize hs : ((17 : ℕ) : ℤ) - k = s
  have hsf := scaleFloor_spec (a, 2 ^ e) (Nat.pow_pos (by decide)) s
  rw [rv_v] at hsf
  generalize scaleFloor (a, 2 ^ e) s = f at *
  have hin1 := hin (pow10Rat f (-s)) (pow10Rat_pos _ _)
  have hin2 := hin (pow10Rat (f + 1) (-s)) (pow10Rat_pos _ _)
  rw [rv_pow10Rat] at hin1 hin2
  clear hin
  generalize (toBin64 a e).1 = M at *
  generalize (toBin64 a e).2 = E at *
  generalize (a : ℚ) / 2 ^ e = v at *
  have h10 : (10 : ℚ) ≠ 0 := by norm_num
  have hg0 : (0 : ℚ) < (10 : ℚ) ^ (-s) := zpow_pos (by norm_num) _
  have hsg : (10 : ℚ) ^ s * (10 : ℚ) ^ (-s) = 1 := by
    rw [← zpow_add₀ h10, add_neg_cancel, zpow_zero]
  have hg16 : (10 : ℚ) ^ (-s) * 10 ^ 16 = (10 : ℚ) ^ (k - 1) := by
    rw [← zpow_natCast (10 : ℚ) 16, ← zpow_add₀ h10]; congr 1; omega
  generalize (10 : ℚ) ^ (-s) = g at *
  have hc1 : (f : ℚ) * g ≤ v := by
    have := mul_le_mul_of_nonneg_right hsf.1 (le_of_lt hg0)
    rwa [mul_assoc, hsg, mul_one] at this
  have hc2 : v < ((f + 1 : ℕ) : ℚ) * g := by
    have := mul_lt_mul_of_pos_right hsf.2 hg0
    rw [mul_assoc, hsg, mul_one] at this
    push_cast; exact this
  have hu : (0 : ℚ) < (2 : ℚ) ^ E := zpow_pos (by norm_num) E
  have hm1 : (1 : ℚ) ≤ (M : ℚ) := by exact_mod_cast hM
  have hm2 : (M : ℚ) < 2 ^ 53 := by exact_mod_cast hM53
  have hlo : dLo M E = ((M : ℚ) - 1 / 2) * (2 : ℚ) ^ E ∨
      ((M : ℚ) = 2 ^ 52 ∧ dLo M E = ((2 : ℚ) ^ 52 - 1 / 4) * (2 : ℚ) ^ E) := by
    unfold dLo
    split
    · rename_i h
      right; exact ⟨by rw [h.1]; norm_num, rfl⟩
    · left; rfl
  rcases grid_core (M : ℚ) ((2 : ℚ) ^ E) v g ((f : ℚ) * g) (((f + 1 : ℕ) : ℚ) * g) (dLo M E) (dHi M E)
      hu hm1 hm2 hv (by rw [hg16]; exact hk.1) hc1 hc2 (by push_cast; ring) rfl hlo with hA | hB
  · rw [Bool.or_eq_true]; right
    exact hin2.2 ⟨⟨le_of_lt hA.1, le_of_lt hA.2⟩, fun _ => hA⟩
  · rw [Bool.or_eq_true]; left
    rw [Bool.and_eq_true]
    refine ⟨decide_eq_true ?_, hin1.2 ⟨⟨le_of_lt hB.2.1, le_of_lt hB.2.2⟩, fun _ => hB.2⟩⟩
    rcases Nat.eq_zero_or_pos f with h0 | h0
    · exfalso; rw [h0] at hB; simp only [Nat.cast_zero, zero_mul, lt_self_iff_false, false_and] at hB
    · exact h0

/-- **found17**: the 17-digit round of the search of `shortestDigits` succeeds -/
theorem found17 (a e : Nat) (ha : 0 < a) (hd : IsDoubleN a e) :
    (ok1 a e (decPt (a, 2 ^ e)) 17 || ok2 a e (decPt (a, 2 ^ e)) 17) = true := by
  have hk := decPt_spec a e ha hd
  generalize decPt (a, 2 ^ e) = k at *
  exact found17_aux a e ha hd k hk

/-- **found**: the search loop `for n in [1:18]` of `shortestDigits` always returns -/
theorem found (a e : Nat) (ha : 0 < a) (hd : IsDoubleN a e) :
    ∃ n, (List.range' 1 17).find? (fun n => ok1 a e (decPt (a, 2 ^ e)) n || ok2 a e (decPt (a, 2 ^ e)) n) = some n := by
  have h17 := found17 a e ha hd
  generalize decPt (a, 2 ^ e) = k at *
  rw [← Option.isSome_iff_exists, List.find?_isSome]
  exact ⟨17, by rw [List.mem_range']; exact ⟨16, by omega, rfl⟩, h17⟩

/-- non-vacuity: `1.5 = 3 / 2^1` meets the hypotheses of `found17` / `found` -/
example : 0 < 3 ∧ IsDoubleN 3 1 := by decide

end Ckl.C08D
