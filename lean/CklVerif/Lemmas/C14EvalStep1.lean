import CklVerif.Lemmas.C14EvalAll

/-! C14 (evaluator part) — induction steps: the list-walking functions -/
namespace Ckl.C14E
open Ckl
set_option linter.unusedVariables false

variable {ld : Loader} {fuel : Nat}

/-- bring the induction hypotheses into the context, one per function -/
macro "ih_intro " ih:ident : tactic => `(tactic|
  (have h_eval := @SAll.eval _ _ $ih; have h_evalAnd := @SAll.evalAnd _ _ $ih; have h_evalOr := @SAll.evalOr _ _ $ih
   have h_evalIf := @SAll.evalIf _ _ $ih; have h_evalSeq := @SAll.evalSeq _ _ $ih; have h_evalItems := @SAll.evalItems _ _ $ih
   have h_evalPairs := @SAll.evalPairs _ _ $ih; have h_evalBody := @SAll.evalBody _ _ $ih
   have h_evalFinally := @SAll.evalFinally _ _ $ih; have h_tryHandlers := @SAll.tryHandlers _ _ $ih
   have h_invoke := @SAll.invoke _ _ $ih; have h_evalArgs := @SAll.evalArgs _ _ $ih; have h_callFn := @SAll.callFn _ _ $ih
   have h_bindParams := @SAll.bindParams _ _ $ih; have h_evalFor := @SAll.evalFor _ _ $ih; have h_forItems := @SAll.forItems _ _ $ih
   have h_forListLive := @SAll.forListLive _ _ $ih; have h_forString := @SAll.forString _ _ $ih
   have h_whileLoop := @SAll.whileLoop _ _ $ih; have h_comprStep := @SAll.comprStep _ _ $ih
   have h_comprLoop := @SAll.comprLoop _ _ $ih; have h_comprProduct := @SAll.comprProduct _ _ $ih
   have h_comprParallel := @SAll.comprParallel _ _ $ih; have h_nativeSorted := @SAll.nativeSorted _ _ $ih
   have h_sortedOuter := @SAll.sortedOuter _ _ $ih; have h_sortedInner := @SAll.sortedInner _ _ $ih
   have h_call1 := @SAll.call1 _ _ $ih; have h_call2 := @SAll.call2 _ _ $ih; have h_evalRequire := @SAll.evalRequire _ _ $ih
   have h_loadModule := @SAll.loadModule _ _ $ih))

theorem evalAnd_step1 (ih : SAll ld fuel) (env : EnvId) (es : List Node) (p p' : Pos) :
    Resp (evalAnd ld (fuel + 1) env es p) (evalAnd ld (fuel + 1) env (ers es) p') := by
  ih_intro ih
  cases es <;> simp only [ers_nil, ers_cons] <;> unfold Ckl.evalAnd <;> resp!


theorem evalOr_step1 (ih : SAll ld fuel) (env : EnvId) (es : List Node) (p p' : Pos) :
    Resp (evalOr ld (fuel + 1) env es p) (evalOr ld (fuel + 1) env (ers es) p') := by
  ih_intro ih
  cases es <;> simp only [ers_nil, ers_cons] <;> unfold Ckl.evalOr <;> resp!

theorem evalIf_step1 (ih : SAll ld fuel) (env : EnvId) (cs xs : List Node) (el : Node) (p p' : Pos) :
    Resp (evalIf ld (fuel + 1) env cs xs el p) (evalIf ld (fuel + 1) env (ers cs) (ers xs) (ers el) p') := by
  ih_intro ih
  cases cs <;> cases xs <;> simp only [ers_nil, ers_cons] <;> unfold Ckl.evalIf <;> resp!

theorem evalSeq_step1 (ih : SAll ld fuel) (env : EnvId) (ns : List Node) :
    Resp (evalSeq ld (fuel + 1) env ns) (evalSeq ld (fuel + 1) env (ers ns)) := by
  ih_intro ih
  cases ns <;> simp only [ers_nil, ers_cons] <;> unfold Ckl.evalSeq <;> resp!

theorem evalPairs_step1 (ih : SAll ld fuel) (env : EnvId) (ks vs : List Node) :
    Resp (evalPairs ld (fuel + 1) env ks vs) (evalPairs ld (fuel + 1) env (ers ks) (ers vs)) := by
  ih_intro ih
  cases ks <;> cases vs <;> simp only [ers_nil, ers_cons] <;> unfold Ckl.evalPairs <;> resp!

theorem evalBody_step1 (ih : SAll ld fuel) (env : EnvId) (ns : List Node) {l l' : RVal} (hl : ers l = ers l') :
    Resp (evalBody ld (fuel + 1) env ns l) (evalBody ld (fuel + 1) env (ers ns) l') := by
  ih_intro ih
  cases ns <;> simp only [ers_nil, ers_cons] <;> unfold Ckl.evalBody <;> resp!

theorem evalFinally_step1 (ih : SAll ld fuel) (env : EnvId) (ns : List Node) :
    Resp (evalFinally ld (fuel + 1) env ns) (evalFinally ld (fuel + 1) env (ers ns)) := by
  ih_intro ih
  cases ns <;> simp only [ers_nil, ers_cons] <;> unfold Ckl.evalFinally <;> resp!


open Lean Meta Elab Term in
/-- the auxiliary matcher of the evaluator for `n matches .absent` / `n matches .catchAll` (found by its type,
    so that the lemmas below do not depend on the numbering of the auxiliary definitions) -/
elab "node_matcher% " c:ident : term => do
  let env ← getEnv
  let want := `Ckl.Node ++ c.getId
  for (n, ci) in env.constants.toList do
    let s := n.toString
    if (s.startsWith "Ckl.eval.match_" || s.startsWith "Ckl.tryHandlers.match_") then
      if let some info := (← Lean.Meta.getMatcherInfo? n) then
        if info.numDiscrs == 1 && info.altNumParams.size == 2 then
          if (ci.type.find? (·.isConstOf want)).isSome then
            return mkConst n [levelOne]
  throwError "node_matcher%: not found"

def isAbsent (d : Node) : Bool := d matches .absent
def isCatchAll (d : Node) : Bool := d matches .catchAll

@[obs_simp] theorem isAbsent_obs (d : Node) :
    (node_matcher% absent) (fun _ => Bool) d (fun _ => true) (fun _ => false) = V1 isAbsent (ers d) := by
  cases d <;> rfl
@[obs_simp] theorem isCatchAll_obs (d : Node) :
    (node_matcher% catchAll) (fun _ => Bool) d (fun _ => true) (fun _ => false) = V1 isCatchAll (ers d) := by
  cases d <;> rfl

theorem ers_trace {t t' : List (String × Pos)} (ht : t.map (·.1) = t'.map (·.1)) :
    t.map (fun x => (x.1, (default : Pos))) = t'.map (fun x => (x.1, (default : Pos))) := by
  have := congrArg (List.map (fun (x : String) => (x, (default : Pos)))) ht
  simpa [List.map_map, Function.comp_def] using this

theorem Resp.errOut {α} [Ers α] {v v' : RVal} (msg : String) {p p' : Pos} {t t' : List (String × Pos)}
    (hv : ers v = ers v') (ht : t.map (·.1) = t'.map (·.1)) :
    Resp (fun s => (.err v msg p t s : Out α)) (fun s => .err v' msg p' t' s) :=
  ⟨fun s s' hs => by simp only [ers_err, hv, hs, ers_trace ht]⟩

theorem tryHandlers_step1 (ih : SAll ld fuel) (env : EnvId) (cs hs : List Node) {v v' : RVal} (msg : String)
    {p p' : Pos} {t t' : List (String × Pos)} (hv : ers v = ers v') (ht : t.map (·.1) = t'.map (·.1)) :
    Resp (tryHandlers ld (fuel + 1) env cs hs v msg p t) (tryHandlers ld (fuel + 1) env (ers cs) (ers hs) v' msg p' t') := by
  ih_intro ih
  cases cs <;> cases hs <;> simp only [ers_nil, ers_cons] <;> unfold Ckl.tryHandlers <;>
    first | exact Resp.errOut _ hv ht | resp!

end Ckl.C14E
