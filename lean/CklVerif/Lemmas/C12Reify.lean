/-
  C12 helper lemmas: reification (`reifyF`) is monotone in the fuel, and it does not see the
  storage order of a set cell / map cell whose keys are totally ordered.
-/
import CklVerif.Lemmas.C12Sort
namespace Ckl

theorem mapM_option_mono {α β} {f g : α → Option β} {xs : List α} {vs : List β}
    (hfg : ∀ x ∈ xs, ∀ v, f x = some v → g x = some v) (h : xs.mapM f = some vs) :
    xs.mapM g = some vs := by
  induction xs generalizing vs with
  | nil => simpa using h
  | cons x xs ih =>
    rw [List.mapM_cons] at h ⊢
    cases hx : f x with
    | none => rw [hx] at h; cases h
    | some v =>
      rw [hx] at h
      cases hxs : xs.mapM f with
      | none => rw [hxs] at h; cases h
      | some ws =>
        rw [hxs] at h
        rw [hfg x (by simp) v hx, ih (fun y hy => hfg y (by simp [hy])) hxs]
        exact h

variable (dr : DecRenderer) (h : Array Cell)

theorem reifyF_ref_succ (fuel : Nat) (a : Nat) :
    reifyF dr h (fuel + 1) (.ref a) =
      match h[a]? with
      | some (.list xs) => (xs.mapM (reifyF dr h fuel)).map .list
      | some (.set xs) => (xs.mapM (reifyF dr h fuel)).map (mkSet dr)
      | some (.map kvs) =>
          (kvs.mapM (fun (kv : RVal × RVal) => do let k ← reifyF dr h fuel kv.1; let v ← reifyF dr h fuel kv.2; pure (k, v))).map (mkMap dr)
      | _ => none := by
  simp only [reifyF]
  cases h[a]? with
  | none => rfl
  | some c => cases c <;> rfl

theorem reifyF_ref_zero (a : Nat) : reifyF dr h 0 (.ref a) = none := by
  simp [reifyF]

theorem reifyF_mono : ∀ (n : Nat) (v : RVal) (w : Val),
    reifyF dr h n v = some w → reifyF dr h (n + 1) v = some w := by
  intro n
  induction n with
  | zero =>
    intro v w hv
    cases v <;> simp_all [reifyF]
  | succ n ih =>
    intro v w hv
    cases v with
    | ref a =>
      rw [reifyF_ref_succ] at hv ⊢
      cases hc : h[a]? with
      | none => rw [hc] at hv; cases hv
      | some c =>
        rw [hc] at hv
        cases c with
        | list xs =>
          simp only [Option.map_eq_some_iff] at hv ⊢
          obtain ⟨vs, h1, h2⟩ := hv
          exact ⟨vs, mapM_option_mono (fun x _ v hx => ih x v hx) h1, h2⟩
        | set xs =>
          simp only [Option.map_eq_some_iff] at hv ⊢
          obtain ⟨vs, h1, h2⟩ := hv
          exact ⟨vs, mapM_option_mono (fun x _ v hx => ih x v hx) h1, h2⟩
        | map kvs =>
          simp only [Option.map_eq_some_iff] at hv ⊢
          obtain ⟨vs, h1, h2⟩ := hv
          refine ⟨vs, mapM_option_mono ?_ h1, h2⟩
          intro kv _ p hp
          cases hk : reifyF dr h n kv.1 with
          | none => simp [hk] at hp
          | some k =>
            cases hv' : reifyF dr h n kv.2 with
            | none => simp [hk, hv'] at hp
            | some v' =>
              simp [hk, hv'] at hp
              simp [ih _ _ hk, ih _ _ hv', hp]
        | obj _ _ => cases hv
        | closure _ _ _ _ _ => cases hv
    | _ => simp_all [reifyF]


theorem reifyF_mono_le {n m : Nat} (hnm : n ≤ m) {v : RVal} {w : Val}
    (hv : reifyF dr h n v = some w) : reifyF dr h m v = some w := by
  induction hnm with
  | refl => exact hv
  | step _ ih => exact reifyF_mono dr h _ v w ih

/-- two successful reifications of one value agree, whatever the fuel -/
theorem reifyF_agree {n m : Nat} {v : RVal} {w w' : Val}
    (h1 : reifyF dr h n v = some w) (h2 : reifyF dr h m v = some w') : w = w' := by
  have a := reifyF_mono_le dr h (Nat.le_max_left n m) h1
  have b := reifyF_mono_le dr h (Nat.le_max_right n m) h2
  rw [a] at b; exact Option.some.inj b

/-- the data value of a cell, given the reifier of its elements -/
def cellVal (f : RVal → Option Val) : Option Cell → Option Val
  | some (.list xs) => (xs.mapM f).map .list
  | some (.set xs) => (xs.mapM f).map (mkSet dr)
  | some (.map kvs) =>
      (kvs.mapM (fun (kv : RVal × RVal) => do let k ← f kv.1; let v ← f kv.2; pure (k, v))).map (mkMap dr)
  | _ => none

theorem reifyF_ref_succ' (fuel : Nat) (a : Nat) :
    reifyF dr h (fuel + 1) (.ref a) = cellVal dr (reifyF dr h fuel) h[a]? := by
  rw [reifyF_ref_succ]
  cases h[a]? with
  | none => rfl
  | some c => cases c <;> rfl

/-- replacing a cell by one with the same data value (at every fuel) changes no reification -/
theorem reifyF_swap {a : Nat} {c c' : Cell} (hc : h[a]? = some c)
    (hcv : ∀ n, cellVal dr (reifyF dr h n) (some c') = cellVal dr (reifyF dr h n) (some c)) :
    ∀ (n : Nat) (v : RVal), reifyF dr (h.setIfInBounds a c') n v = reifyF dr h n v := by
  intro n
  induction n with
  | zero => intro v; cases v <;> simp [reifyF]
  | succ n ih =>
    intro v
    cases v with
    | ref b =>
      rw [reifyF_ref_succ', reifyF_ref_succ', funext ih]
      have ha : a < h.size := by
        rcases Nat.lt_or_ge a h.size with h1 | h1
        · exact h1
        · rw [Array.getElem?_eq_none h1] at hc; cases hc
      by_cases hb : b = a
      · subst hb
        rw [Array.getElem?_setIfInBounds_self_of_lt ha, hc]
        exact hcv n
      · rw [Array.getElem?_setIfInBounds_ne (Ne.symm hb)]
    | _ => simp [reifyF]

/-! ### maps: `mkMap` does not depend on the entry order -/

theorem assocPut_fresh (k v : Val) (m : List (Val × Val)) (hf : ∀ kv ∈ m, veq k kv.1 = false) :
    assocPut k v m = m ++ [(k, v)] := by
  induction m with
  | nil => rfl
  | cons kv m ih =>
    obtain ⟨k', v'⟩ := kv
    have h1 : veq k k' = false := hf (k', v') (by simp)
    simp only [assocPut, h1, Bool.false_eq_true, if_false, List.cons_append]
    rw [ih (fun kv hkv => hf kv (by simp [hkv]))]

theorem foldl_assocPut_fresh (kvs acc : List (Val × Val))
    (hpw : (acc ++ kvs).Pairwise (fun a b => veq a.1 b.1 = false)) :
    kvs.foldl (fun acc kv => assocPut kv.1 kv.2 acc) acc = acc ++ kvs := by
  induction kvs generalizing acc with
  | nil => simp
  | cons kv kvs ih =>
    simp only [List.foldl_cons]
    have hfresh : ∀ p ∈ acc, veq kv.1 p.1 = false := by
      intro p hp
      rw [List.pairwise_append] at hpw
      rw [veq_symm']
      exact hpw.2.2 p hp kv (by simp)
    rw [assocPut_fresh kv.1 kv.2 acc hfresh]
    have : acc ++ [(kv.1, kv.2)] ++ kvs = acc ++ kv :: kvs := by simp
    rw [ih (acc ++ [(kv.1, kv.2)]) (by rw [this]; exact hpw), this]

theorem assocOfList_of_pairwise {kvs : List (Val × Val)}
    (hpw : kvs.Pairwise (fun a b => veq a.1 b.1 = false)) : assocOfList kvs = kvs := by
  unfold assocOfList
  simpa using foldl_assocPut_fresh kvs [] (by simpa using hpw)

/-- the map value does not depend on the order of the entries when the keys are totally ordered -/
theorem mkMap_perm {kvs kvs' : List (Val × Val)} (hp : kvs.Perm kvs')
    (hpw : kvs.Pairwise (fun a b => SameKind a.1 b.1 ∧ veq a.1 b.1 = false)) :
    mkMap dr kvs = mkMap dr kvs' := by
  have hne : kvs.Pairwise (fun a b => veq a.1 b.1 = false) := hpw.imp (fun h => h.2)
  have hne' : kvs'.Pairwise (fun a b => veq a.1 b.1 = false) :=
    (hp.pairwise_iff (fun {x y} h => by rw [veq_symm']; exact h)).mp hne
  unfold mkMap sortedEntries
  rw [assocOfList_of_pairwise hne, assocOfList_of_pairwise hne']
  congr 1
  exact C07.sortBy_perm_invariant (fst_strictTotal dr hpw) hp



theorem mapM_option_cases {α β} (f : α → Option β) (xs : List α) :
    (∃ x ∈ xs, f x = none) ∨ (∀ x ∈ xs, ∃ v, f x = some v) := by
  by_cases hx : ∃ x ∈ xs, f x = none
  · left; exact hx
  · right
    intro x hxm
    cases hfx : f x with
    | none => exact absurd ⟨x, hxm, hfx⟩ hx
    | some v => exact ⟨v, rfl⟩

theorem cellVal_set_perm {xs ys : List RVal} {N : Nat} (hp : xs.Perm ys)
    (H : TotalKey (reifyF dr h N) xs) (n : Nat) :
    cellVal dr (reifyF dr h n) (some (.set ys)) = cellVal dr (reifyF dr h n) (some (.set xs)) := by
  simp only [cellVal]
  rcases mapM_option_cases (reifyF dr h n) xs with ⟨x, hx, hnone⟩ | hall
  · rw [mapM_option_none hx hnone, mapM_option_none (hp.mem_iff.mp hx) hnone]
  · have hg : ∀ x ∈ xs, reifyF dr h n x = some ((reifyF dr h n x).getD .null) := by
      intro x hx; obtain ⟨v, hv⟩ := hall x hx; simp [hv]
    rw [mapM_option_some hg, mapM_option_some (fun y hy => hg y (hp.mem_iff.mpr hy))]
    simp only [Option.map_some]
    congr 1
    have hN : ∀ x ∈ xs, reifyF dr h N x = some ((reifyF dr h n x).getD .null) := by
      intro x hx
      obtain ⟨v, hv⟩ := H.keyed x hx
      rw [hv, reifyF_agree dr h hv (hg x hx)]
    symm
    apply C07.mkSet_perm dr (hp.map _)
    · rw [List.pairwise_map]
      exact H.kind.imp_of_mem (fun {x y} hx hy hxy => hxy _ _ (hN x hx) (hN y hy))
    · rw [List.pairwise_map]
      exact H.distinct.imp_of_mem (fun {x y} hx hy hxy => hxy _ _ (hN x hx) (hN y hy))

theorem cellVal_map_perm {kvs kvs' : List (RVal × RVal)} {N : Nat} (hp : kvs.Perm kvs')
    (H : TotalKey (fun kv => reifyF dr h N kv.1) kvs) (n : Nat) :
    cellVal dr (reifyF dr h n) (some (.map kvs')) = cellVal dr (reifyF dr h n) (some (.map kvs)) := by
  simp only [cellVal]
  generalize hF : (fun (kv : RVal × RVal) => (do
      let k ← reifyF dr h n kv.1; let v ← reifyF dr h n kv.2; pure (k, v) : Option (Val × Val))) = F
  rcases mapM_option_cases F kvs with ⟨x, hx, hnone⟩ | hall
  · rw [mapM_option_none hx hnone, mapM_option_none (hp.mem_iff.mp hx) hnone]
  · have hg : ∀ x ∈ kvs, F x = some ((F x).getD (.null, .null)) := by
      intro x hx; obtain ⟨v, hv⟩ := hall x hx; simp [hv]
    rw [mapM_option_some hg, mapM_option_some (fun y hy => hg y (hp.mem_iff.mpr hy))]
    simp only [Option.map_some]
    congr 1
    have hN : ∀ x ∈ kvs, reifyF dr h N x.1 = some ((F x).getD (.null, .null)).1 := by
      intro x hx
      obtain ⟨v, hv⟩ := H.keyed x hx
      obtain ⟨p, hp'⟩ := hall x hx
      rw [hp']
      subst hF
      simp only at hp'
      cases hk : reifyF dr h n x.1 with
      | none => simp [hk] at hp'
      | some k =>
        cases hv2 : reifyF dr h n x.2 with
        | none => simp [hk, hv2] at hp'
        | some v2 =>
          simp [hk, hv2] at hp'
          subst hp'
          simp only [Option.getD_some]
          rw [hv, reifyF_agree dr h hv hk]
    symm
    apply mkMap_perm dr (hp.map _)
    rw [List.pairwise_map]
    exact (H.kind.and H.distinct).imp_of_mem (fun {x y} hx hy hxy =>
      ⟨hxy.1 _ _ (hN x hx) (hN y hy), hxy.2 _ _ (hN x hx) (hN y hy)⟩)


end Ckl
