/-
  C14 (redundant parentheses) — suffix lemmas, part D: blocks and their loops, statements, `def`,
  classes, `if`.
-/
import CklVerif.Lemmas.C14ParensSufHyp
namespace Ckl.C14X
open Ckl Ckl.Parser

local notation "kw" => (some TokType.keyword)
local notation "ip" => (some TokType.interpunction)
local notation "op" => (some TokType.operator)
local notation "idt" => (some TokType.identifier)

set_option linter.unusedSimpArgs false
set_option linter.unusedVariables false

variable {ts : List Token}

theorem suf_pBareBlock (c : Ctx) (tl : Bool) (st : St) (H : Suf (st.toks.length * 16 + 12))
    (hs : st.toks <:+ ts) : SufP (fun o => o.st.toks <:+ ts) (pBareBlock c tl st) := by
  rw [pBareBlock]
  sb (blockOrStmt_suf H c st hs (by omega)) with e s1 h1 hs1
  sif hb : (!s1.hasNext)
  · sok hs1
  · sbh (H.bareLoop c s1 _ (by omega)) hs1 with es s2 h2 hs2
    sok hs2

theorem suf_bareLoop (c : Ctx) (st : St) (acc : List Node) (H : Suf (st.toks.length * 16 + 0))
    (hs : st.toks <:+ ts) : SufP (fun o => o.st.toks <:+ ts) (bareLoop c st acc) := by
  rw [bareLoop]
  smif hs c!";" ip with s1 h1 hs1
  · sok hs
  · sif hb : (!s1.hasNext)
    · sok hs1
    · sb (blockOrStmt_suf H c s1 hs1 (by omega)) with e s2 h2 hs2
      sbh (H.bareLoop c s2 _ (by omega)) hs2 with r s3 h3 hs3
      sok hs3

theorem suf_pBlock (c : Ctx) (st : St) (H : Suf (st.toks.length * 16 + 0)) (hs : st.toks <:+ ts) :
    SufP (fun o => o.st.toks <:+ ts) (pBlock c st) := by
  rw [pBlock]
  sbs (expect_suf hs _ _) with s1 h1 hs1
  sbh (H.blockLoop c s1 _ (by omega)) hs1 with es s2 h2 hs2
  sbh2 (H.catchLoop c s2 _ _ (by omega)) hs2 with ce ch s3 h3 hs3
  sbrLe ts with fin s4 h4 hs4
  · smif hs3 c!"finally" kw with s h hs'
    · sok hs3
    · exact suf_wkLe (SufLe.to (H.finallyLoop c s _ (by omega)) hs')
  sbs (expect_suf hs4 _ _) with s5 h5 hs5
  sok hs5

theorem suf_blockLoop (c : Ctx) (st : St) (acc : List Node) (H : Suf (st.toks.length * 16 + 12))
    (hs : st.toks <:+ ts) : SufP (fun o => o.st.toks <:+ ts) (blockLoop c st acc) := by
  rw [blockLoop]
  sif hb : isEndCatchFinally st
  · sok hs
  · sb (blockOrStmt_suf H c st hs (by omega)) with e s1 h1 hs1
    sif hb2 : isEndCatchFinally s1
    · sok hs1
    · sbs (expect_suf hs1 _ _) with s2 h2 hs2
      sbh (H.blockLoop c s2 _ (by omega)) hs2 with r s3 h3 hs3
      sok hs3

theorem suf_catchLoop (c : Ctx) (st : St) (errs handlers : List Node) (H : Suf (st.toks.length * 16 + 0))
    (hs : st.toks <:+ ts) : SufP (fun o => o.st.toks <:+ ts) (catchLoop c st errs handlers) := by
  rw [catchLoop]
  smif hs c!"catch" kw with s1 h1 hs1
  · sok hs
  · sbrLe ts with err s2 h2 hs2
    · smif hs1 c!"all" idt with s h0 hs'
      · exact suf_ltLe (SufLt.to (H.pExpression c s1 (by omega)) hs1)
      · sok hs'
    sb (blockOrStmt_suf H c s2 hs2 (by omega)) with ex s3 h3 hs3
    sskip hs3 c!";" ip with s4 h4 hs4
    sbh (H.catchLoop c s4 _ _ (by omega)) hs4 with r s5 h5 hs5
    sok hs5

theorem suf_finallyLoop (c : Ctx) (st : St) (acc : List Node) (H : Suf (st.toks.length * 16 + 12))
    (hs : st.toks <:+ ts) : SufP (fun o => o.st.toks <:+ ts) (finallyLoop c st acc) := by
  rw [finallyLoop]
  sif hb : st.peekn 1 c!"end" kw
  · sok hs
  · sb (blockOrStmt_suf H c st hs (by omega)) with e s1 h1 hs1
    sif hb2 : s1.peekn 1 c!"end" kw
    · sok hs1
    · sbs (expect_suf hs1 _ _) with s2 h2 hs2
      sbh (H.finallyLoop c s2 _ (by omega)) hs2 with r s3 h3 hs3
      sok hs3

theorem suf_pStatement (c : Ctx) (st : St) (H : Suf (st.toks.length * 16 + 11)) (hs : st.toks <:+ ts) :
    SufP (fun o => o.st.toks <:+ ts) (pStatement c st) := by
  rw [pStatement]
  sif hb : (!st.hasNext)
  · serr
  scomment hs with comment s0 h0 hs0
  smif hs0 c!"require" kw with s1 h1 hs1
  · smif hs0 c!"def" kw with s1 h1 hs1
    · smif hs0 c!"for" kw with s1 h1 hs1
      · smif hs0 c!"while" kw with s1 h1 hs1
        · exact suf_wkLt (SufLt.to (H.pExpression c s0 (by omega)) hs0)
        · sbh (H.pOr c s1 (by omega)) hs1 with e s2 h2 hs2
          sbh (H.pBlock c s2 (by omega)) hs2 with b s3 h3 hs3
          sok hs3
      · sb (forIdents_suf c s1 hs1) with ids s2 h2 hs2
        sbs (expect_suf hs2 _ _) with s3 h3 hs3
        swhat hs3 with what s4 h4 hs4
        sbh (H.pExpression c s4 (by omega)) hs4 with e s5 h5 hs5
        sif hd : s5.peekn 1 c!"do" kw
        · sbh (H.pBlock c s5 (by omega)) hs5 with b s6 h6 hs6
          sok hs6
        · sbh (H.pExpression c s5 (by omega)) hs5 with b s6 h6 hs6
          sok hs6
    · exact suf_wkLt (SufLt.to (H.pDef c _ s1 (by omega)) hs1)
  · sbh (H.pExpression c s1 (by omega)) hs1 with spec s2 h2 hs2
    smif hs2 c!"unqualified" idt with s3 h3 hs3
    · smif2 hs2 c!"import" idt c!"[" ip with s3 h3 hs3
      · smif hs2 c!"as" kw with s3 h3 hs3
        · sok hs2
        · sb (matchIdentifier_suf hs3) with name s4 h4 hs4
          sok hs4
      · sb (requireSymLoop_suf _ s3 [] ts rfl hs3) with syms s4 h4 hs4
        sbs (expect_suf hs4 _ _) with s5 h5 hs5
        sok hs5
    · sok hs3

theorem suf_pDefTail (c : Ctx) (name : List Char) (comment : String) (pos : Pos) (st : St)
    (H : Suf (st.toks.length * 16 + 1)) (hs : st.toks <:+ ts) :
    SufP (fun o => o.st.toks <:+ ts) (pDefTail c name comment pos st) := by
  rw [pDefTail]
  sif hb : st.peekn 1 c!"(" ip
  · sbh (H.pFn c pos st (by omega)) hs with fn0 s1 h1 hs1
    sok hs1
  · sbs (expect_suf hs _ _) with s1 h1 hs1
    sbh (H.pExpression c s1 (by omega)) hs1 with e s2 h2 hs2
    sok hs2

theorem suf_pDef (c : Ctx) (comment : String) (st : St) (H : Suf (st.toks.length * 16 + 0))
    (hs : st.toks <:+ ts) : SufP (fun o => o.st.toks <:+ ts) (pDef c comment st) := by
  rw [pDef]
  dsimp only
  smif hs c!"[" ip with s1 h1 hs1
  · sb (next_suf hs) with t s1 h1 hs1
    sany isClass
    sif hcl : isClass
    · sb (next_suf hs1) with t2 s2 h2 hs2
      sany u1
      sany u2
      sbs (expect_suf hs2 _ _) with s3 h3 hs3
      sbh (H.classLoop c comment s3 _ (by omega)) hs3 with members s4 h4 hs4
      sbs (expect_suf hs4 _ _) with s5 h5 hs5
      sok hs5
    · sany u1
      sany u2
      sbh (H.pDefTail c t.value comment st.prev s1 (by omega)) hs1 with d s2 h2 hs2
      sok hs2
  · sb (identListLoop_suf c true _ s1 [] ts rfl hs1) with ids s2 h2 hs2
    sbs (expect_suf hs2 _ _) with s3 h3 hs3
    sbs (expect_suf hs3 _ _) with s4 h4 hs4
    sbh (H.pExpression c s4 (by omega)) hs4 with e s5 h5 hs5
    sok hs5

theorem suf_classLoop (c : Ctx) (comment : String) (st : St) (acc : List Node)
    (H : Suf (st.toks.length * 16 + 0)) (hs : st.toks <:+ ts) :
    SufP (fun o => o.st.toks <:+ ts) (classLoop c comment st acc) := by
  rw [classLoop]
  sif hb : st.peekn 1 c!"end" kw
  · sok hs
  · smif hs c!"def" kw with s1 h1 hs1
    · sb (next_suf hs) with t s1 h1 hs1
      serr
    · sb (next_suf hs1) with t s2 h2 hs2
      sany u1
      sany u2
      sbh (H.pDefTail c t.value comment s1.prev s2 (by omega)) hs2 with d s3 h3 hs3
      sskip hs3 c!";" ip with s4 h4 hs4
      sbh (H.classLoop c comment s4 _ (by omega)) hs4 with r s5 h5 hs5
      sok hs5

theorem suf_ifClause (c : Ctx) (st : St) (H : Suf (st.toks.length * 16 + 10)) (hs : st.toks <:+ ts) :
    SufP (fun o => o.st.toks <:+ ts) (ifClause c st) := by
  rw [ifClause]
  sbh (H.pOr c st (by omega)) hs with cond s1 h1 hs1
  sbs (expect_suf hs1 _ _) with s2 h2 hs2
  sif hb : s2.peekn 1 c!"do" kw
  · sbh (H.pBlock c s2 (by omega)) hs2 with e s3 h3 hs3
    sok hs3
  · sbh (H.pOr c s2 (by omega)) hs2 with e s3 h3 hs3
    sok hs3

theorem suf_ifLoop (c : Ctx) (st : St) (cs es : List Node) (H : Suf (st.toks.length * 16 + 0))
    (hs : st.toks <:+ ts) : SufP (fun o => o.st.toks <:+ ts) (ifLoop c st cs es) := by
  rw [ifLoop]
  rcases matchIf_orElse_suf hs c!"if" kw c!"elif" kw with e1 | ⟨⟨s1, h1⟩, e1, hs1⟩ <;> rw [e1]
  · sok hs
  · dsimp only at hs1 ⊢
    sbh2 (H.ifClause c s1 (by omega)) hs1 with cond e s2 h2 hs2
    sbh (H.ifLoop c s2 _ _ (by omega)) hs2 with r s3 h3 hs3
    sok hs3

theorem suf_pExpression (c : Ctx) (st : St) (H : Suf (st.toks.length * 16 + 10)) (hs : st.toks <:+ ts) :
    SufP (fun o => o.st.toks <:+ ts) (pExpression c st) := by
  rw [pExpression]
  smif hs c!"if" kw with s1 h1 hs1
  · exact SufLt.to (H.pOr c st (by omega)) hs
  · sbh2 (H.ifClause c s1 (by omega)) hs1 with cond e s2 h2 hs2
    sbh2 (H.ifLoop c s2 _ _ (by omega)) hs2 with conds es s3 h3 hs3
    smif hs3 c!"else" kw with s4 h4 hs4
    · sok hs3
    · sif hb : s4.peekn 1 c!"do" kw
      · sbh (H.pBlock c s4 (by omega)) hs4 with el s5 h5 hs5
        sok hs5
      · sbh (H.pOr c s4 (by omega)) hs4 with el s5 h5 hs5
        sok hs5

end Ckl.C14X
