import CklVerif.Model.Seq

/-!
  C15 helper lemmas: `take p ++ v :: drop p` is `List.insertIdx`, and its inverse `eraseIdx`.
-/
namespace Ckl.C15

variable {α : Type}

theorem take_cons_drop_eq_insertIdx (l : List α) (p : Nat) (v : α) (h : p ≤ l.length) :
    l.take p ++ v :: l.drop p = l.insertIdx p v := by
  induction p generalizing l with
  | zero => simp
  | succ p ih =>
    cases l with
    | nil => simp at h
    | cons c cs =>
      simp only [List.take_succ_cons, List.drop_succ_cons, List.cons_append,
        List.insertIdx_succ_cons]
      rw [ih cs (by simpa using h)]

/-- re-inserting the erased element at the same place restores the list -/
theorem insertIdx_eraseIdx_getElem (l : List α) (p : Nat) (h : p < l.length) :
    (l.eraseIdx p).insertIdx p l[p] = l := by
  induction p generalizing l with
  | zero =>
    cases l with
    | nil => simp at h
    | cons c cs => simp
  | succ p ih =>
    cases l with
    | nil => simp at h
    | cons c cs =>
      simp only [List.eraseIdx_cons_succ, List.insertIdx_succ_cons, List.getElem_cons_succ]
      rw [ih cs (by simpa using h)]

end Ckl.C15
