import CklVerif.Lemmas.C20EvalLib

/-!
  C20 (evaluator part) — the modelled built-ins: every error they raise carries the position
  they were called with, with an empty stack trace; every value they return or store was among their
  arguments or in the state.
-/
namespace Ckl
attribute [local irreducible] ValsOK DictOK PairsOK
set_option linter.unusedSectionVars false
set_option linter.unusedVariables false

section
variable {E : String → Pos → List (String × Pos) → Prop} {P : Pos → Prop}

namespace PosOK
theorem floatResult (x : Float) (pos : Pos) (w : String) : PosOK E P (floatResult x pos w) := by
  unfold Ckl.floatResult; posok
theorem listItems {v : RVal} (hv : ValOK P v) : PosOK E P (listItems v) := by unfold Ckl.listItems; posok
theorem collAsList {c : Cell} (hc : CellOK P c) : PosOK E P (collAsList c) := by unfold Ckl.collAsList; posok
theorem cmpLt (a b : RVal) : PosOK E P (cmpLt a b) := by unfold Ckl.cmpLt; posok
theorem dateResM (r : DateRes) {pos : Pos} (h : ∀ msg, E msg pos []) : PosOK E P (dateResM r pos) := by
  unfold Ckl.dateResM; posok
theorem callDate (name : String) (args : List (String × RVal)) {pos : Pos} (h : ∀ msg, E msg pos []) (m : EvalM RVal)
    (hm : callDate name args pos = some m) : PosOK E P m := by
  unfold Ckl.callDate at hm
  split at hm <;> first | (injection hm with hm; subst hm; exact dateResM _ h) | (cases hm)
end PosOK
end

macro_rules | `(tactic| posok_lib) => `(tactic| (apply PosOK.floatResult <;> first | vok | eok))
macro_rules | `(tactic| posok_lib) => `(tactic| (apply PosOK.listItems <;> first | vok | eok))
macro_rules | `(tactic| posok_lib) => `(tactic| (apply PosOK.collAsList <;> first | vok | eok))
macro_rules | `(tactic| posok_lib) => `(tactic| (apply PosOK.cmpLt <;> first | vok | eok))
macro_rules | `(tactic| posok_lib) => `(tactic| (apply PosOK.dateResM <;> first | vok | eok))

section
variable {E : String → Pos → List (String × Pos) → Prop} {P : Pos → Prop}
namespace PosOK
theorem cmpGt (a b : RVal) : PosOK E P (cmpGt a b) := by unfold Ckl.cmpGt; posok
theorem asListArg {v : RVal} (hv : ValOK P v) {pos : Pos} (h : ∀ msg, E msg pos []) : PosOK E P (asListArg v pos) := by
  unfold Ckl.asListArg; posok
theorem asSetArg {v : RVal} (hv : ValOK P v) {pos : Pos} (h : ∀ msg, E msg pos []) : PosOK E P (asSetArg v pos) := by
  unfold Ckl.asSetArg; posok
theorem isColl_get {c : Option Cell} (hi : isColl c = true) (hc : VC.ok P c) : CellOK P c.get! := by
  cases c with
  | none => cases hi
  | some x => exact hc x rfl
theorem nativeAdd {a b : RVal} (ha : ValOK P a) (hb : ValOK P b) {pos : Pos} (h : ∀ msg, E msg pos []) :
    PosOK E P (nativeAdd a b pos) := by
  unfold Ckl.nativeAdd; posok
  all_goals (apply PosOK.collAsList; apply isColl_get <;> assumption)
theorem nativeSub {a b : RVal} (ha : ValOK P a) (hb : ValOK P b) {pos : Pos} (h : ∀ msg, E msg pos []) :
    PosOK E P (nativeSub a b pos) := by
  unfold Ckl.nativeSub; posok
theorem nativeMul {a b : RVal} (ha : ValOK P a) (hb : ValOK P b) {pos : Pos} (h : ∀ msg, E msg pos []) :
    PosOK E P (nativeMul a b pos) := by
  unfold Ckl.nativeMul; posok
theorem nativeDiv {a b : RVal} (ha : ValOK P a) (hb : ValOK P b) {d : Option RVal} (hd : VC.ok P d) {pos : Pos}
    (h : ∀ msg, E msg pos []) : PosOK E P (nativeDiv a b d pos) := by
  unfold Ckl.nativeDiv; posok
theorem nativeMod {a b : RVal} (ha : ValOK P a) (hb : ValOK P b) {pos : Pos} (h : ∀ msg, E msg pos []) :
    PosOK E P (nativeMod a b pos) := by
  unfold Ckl.nativeMod; posok
end PosOK
end

macro_rules | `(tactic| posok_lib) => `(tactic| (apply PosOK.cmpGt <;> first | vok | eok))
macro_rules | `(tactic| posok_lib) => `(tactic| (apply PosOK.asListArg <;> first | vok | eok))
macro_rules | `(tactic| posok_lib) => `(tactic| (apply PosOK.asSetArg <;> first | vok | eok))
macro_rules | `(tactic| posok_lib) => `(tactic| (apply PosOK.nativeAdd <;> first | vok | eok))
macro_rules | `(tactic| posok_lib) => `(tactic| (apply PosOK.nativeSub <;> first | vok | eok))
macro_rules | `(tactic| posok_lib) => `(tactic| (apply PosOK.nativeMul <;> first | vok | eok))
macro_rules | `(tactic| posok_lib) => `(tactic| (apply PosOK.nativeDiv <;> first | vok | eok))
macro_rules | `(tactic| posok_lib) => `(tactic| (apply PosOK.nativeMod <;> first | vok | eok))

theorem ValsOK.rm {P : Pos → Prop} (el : RVal) (s : State) : ∀ {xs : List RVal}, ValsOK P xs →
    ValsOK P (callPure.rm el s xs)
  | [], _ => by unfold callPure.rm; exact ValsOK.nil
  | y :: ys, h => by
    unfold callPure.rm
    split
    · exact h.tail
    · exact ValsOK.cons h.head (ValsOK.rm el s h.tail)

set_option maxHeartbeats 400000 in
/-- every modelled built-in: an error carries the call position `pos` (as `E _ pos []` allows), the
    state invariant is kept, and the value returned was among the arguments or in the state -/
theorem PosOK.callPure {E : String → Pos → List (String × Pos) → Prop} {P : Pos → Prop}
    (name : String) {args : List (String × RVal)} (ha : DictOK P args) {div0 : Option RVal} (hd : VC.ok P div0)
    {pos : Pos} (h : ∀ msg, E msg pos [])
    (m : EvalM RVal) (hm : callPure name args div0 pos = some m) : PosOK E P m := by
  unfold Ckl.callPure at hm
  dsimp only at hm
  split at hm <;> first | (injection hm with hm; subst hm; posok) | (exact PosOK.callDate _ _ h _ hm) | (cases hm)
  apply PosOK.modifyS
  intro s hs
  refine hs.setCell _ (ValsOK.rm _ _ ?_)
  vok

end Ckl
