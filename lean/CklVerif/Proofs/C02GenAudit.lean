import CklVerif.Proofs.C02Gen
#print axioms Ckl.C02.is_not_is_negation
#print axioms Ckl.C02.predTable_nonempty
