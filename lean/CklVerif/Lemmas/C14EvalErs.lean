import CklVerif.Model.Eval

/-!
  C14 (evaluator part) — erasure of source positions.

  `ers x` replaces every `Pos` stored in `x` by `default` (AST nodes, control values, closure
  cells, error outcomes, traces) and forgets the position-keyed ghost counters of a state.
  Two objects are *similar* (`NodeSim`, `RValSim`, `StateSim`, `OutSim`) when their erasures are
  equal, i.e. when they are equal up to positions.
-/
namespace Ckl.C14E
open Ckl

class Ers (α : Type) where
  ers : α → α
export Ers (ers)

instance : Ers Pos := ⟨fun _ => default⟩
instance : Ers String := ⟨id⟩
instance : Ers Nat := ⟨id⟩
instance : Ers Int := ⟨id⟩
instance : Ers Bool := ⟨id⟩
instance : Ers Char := ⟨id⟩
instance : Ers Unit := ⟨id⟩
instance {α} [Ers α] : Ers (List α) := ⟨List.map ers⟩
instance {α} [Ers α] : Ers (Array α) := ⟨Array.map ers⟩
instance {α} [Ers α] : Ers (Option α) := ⟨Option.map ers⟩
instance {α β} [Ers α] [Ers β] : Ers (α × β) := ⟨fun p => (ers p.1, ers p.2)⟩

mutual
def eraseN : Node → Node
  | .absent => .absent
  | .catchAll => .catchAll
  | .null _ => .null default
  | .lit v _ => .lit v default
  | .ident x _ => .ident x default
  | .and es _ => .and (eraseL es) default
  | .or es _ => .or (eraseL es) default
  | .not e _ => .not (eraseN e) default
  | .assign x e _ => .assign x (eraseN e) default
  | .assignD xs e _ => .assignD xs (eraseN e) default
  | .block es ce ch fin tl _ => .block (eraseL es) (eraseL ce) (eraseL ch) (eraseL fin) tl default
  | .brk _ => .brk default
  | .cont _ => .cont default
  | .cls x ms _ => .cls x (eraseL ms) default
  | .defn x e i _ => .defn x (eraseN e) i default
  | .defD xs e i _ => .defD xs (eraseN e) i default
  | .deref e i d _ => .deref (eraseN e) (eraseN i) (eraseN d) default
  | .derefAssign e i v _ => .derefAssign (eraseN e) (eraseN i) (eraseN v) default
  | .derefInvoke o m ns as _ => .derefInvoke (eraseN o) m ns (eraseL as) default
  | .slice e a b _ => .slice (eraseN e) (eraseN a) (eraseN b) default
  | .error e _ => .error (eraseN e) default
  | .for ids e b w _ => .for ids (eraseN e) (eraseN b) w default
  | .call f ns as _ => .call (eraseN f) ns (eraseL as) default
  | .ite cs xs el _ => .ite (eraseL cs) (eraseL xs) (eraseN el) default
  | .isIn e c _ => .isIn (eraseN e) (eraseN c) default
  | .lambda ps ds b _ => .lambda ps (eraseL ds) (eraseN b) default
  | .list is _ => .list (eraseL is) default
  | .compr k sh ve ke i1 l1 w1 i2 l2 w2 c _ =>
      .compr k sh (eraseN ve) (eraseN ke) i1 (eraseN l1) w1 i2 (eraseN l2) w2 (eraseN c) default
  | .map ks vs _ => .map (eraseL ks) (eraseL vs) default
  | .object ks vs _ => .object ks (eraseL vs) default
  | .require sp n u sy _ => .require (eraseN sp) n u sy default
  | .ret e _ => .ret (eraseN e) default
  | .set is _ => .set (eraseL is) default
  | .spread e _ => .spread (eraseN e) default
  | .while c b _ => .while (eraseN c) (eraseN b) default
def eraseL : List Node → List Node
  | [] => []
  | n :: ns => eraseN n :: eraseL ns
end

end Ckl.C14E

namespace Ckl
/-- every `Pos` of the AST replaced by `default` -/
def Node.erase (n : Node) : Node := C14E.eraseN n
end Ckl

namespace Ckl.C14E

instance : Ers Node := ⟨Node.erase⟩

theorem eraseL_eq_map (ns : List Node) : eraseL ns = ns.map Node.erase := by
  induction ns with
  | nil => rfl
  | cons n ns ih => simp [eraseL, ih, Node.erase]

def eraseV : RVal → RVal
  | .null => .null
  | .bool b => .bool b
  | .int n => .int n
  | .dec m e => .dec m e
  | .str s => .str s
  | .pat s => .pat s
  | .date d => .date d
  | .ref a => .ref a
  | .closure a => .closure a
  | .native n i => .native n i
  | .node n => .node n.erase
  | .brk _ => .brk default
  | .cont _ => .cont default
  | .ret v _ => .ret (eraseV v) default

instance : Ers RVal := ⟨eraseV⟩

def eraseC : Cell → Cell
  | .list xs => .list (ers xs)
  | .set xs => .set (ers xs)
  | .map kvs => .map (ers kvs)
  | .obj kvs m => .obj (ers kvs) m
  | .closure e ps ds b n => .closure e ps (ers ds) (ers b) n

instance : Ers Cell := ⟨eraseC⟩

instance : Ers Frame := ⟨fun f => { vars := ers f.vars, parent := f.parent }⟩

/-- the position-keyed counters are forgotten; the module counter (keyed by name) is kept -/
instance : Ers Ghost := ⟨fun g => { enter := [], fin := [], moduleEvals := g.moduleEvals }⟩

instance : Ers State := ⟨fun s => { s with frames := ers s.frames, heap := ers s.heap, ghost := ers s.ghost }⟩

/-- the text of `unsupported` is a diagnostic of the model (one site embeds a line number) -/
instance : Ers Fail := ⟨fun f => match f with
  | .unsupported _ => .unsupported ""
  | f => f⟩

instance {α} [Ers α] : Ers (Out α) := ⟨fun o => match o with
  | .ok a s => .ok (ers a) (ers s)
  | .err v m _ t s => .err (ers v) m default (t.map (fun x => (x.1, default))) (ers s)
  | .fail f s => .fail (ers f) (ers s)⟩

/-! ### the similarity relations -/

/-- equal up to positions -/
def NodeSim (a b : Node) : Prop := a.erase = b.erase
/-- equal up to the positions of control values and of `ValueNode` payloads -/
def RValSim (a b : RVal) : Prop := ers a = ers b
/-- same frames, same heap shape, equal data, closures with similar defaults and body, same
    modules, module stack, output, instance counter, secure flag; ghost counters ignored -/
def StateSim (a b : State) : Prop := ers a = ers b
/-- `.ok v s ~ .ok v' s'` with similar value and state; `.err v m p t s ~ .err v' m p' t' s'` with
    similar error value, EQUAL message, traces of equal length with equal function names, similar
    states; `.fail f s ~ .fail f' s'` with the same kind of failure (and the same text, except for
    `unsupported`) -/
def OutSim {α} [Ers α] (a b : Out α) : Prop := ers a = ers b

end Ckl.C14E
