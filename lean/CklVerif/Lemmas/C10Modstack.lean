/-
  C10 — the module load stack is unwound on every exit: instance of the generic logic.
-/
import CklVerif.Lemmas.C10GenMain
namespace Ckl.C10
open Ckl Ckl.C05 Ckl.Gen

/-- the invariant: the load stack is the same as at the start -/
def IStack : Rel where
  R s s' := s'.modstack = s.modstack
  refl _ := rfl
  trans h1 h2 := h2.trans h1
  keep h1 h2 := (congrArg Obs.modstack h2).trans h1
  block h0 h1 h2 := h2.trans (h1.trans h0)

/-- hypothesis on the unmodelled natives -/
def NativeKeepsModstack (ld : Loader) : Prop :=
  ∀ name args s, GPost IStack s (ld.nativeSem name args s)

/-- specification of `loadModule` for this invariant: the same as for every other function -/
def LS (ld : Loader) (fuel : Nat) : Prop :=
  ∀ s0 env ident file pos, GTr IStack s0 (loadModule ld fuel env ident file pos)

theorem ls_zero (ld : Loader) : LS ld 0 := by
  intro s0 env ident file pos
  simp only [loadModule]; exact GTr.failM _

theorem dropLast_push (l : List String) (x : String) : (l ++ [x]).dropLast = l := by
  simp

/-- push, load, pop: the pop undoes the push on every outcome -/
theorem frag (ld : Loader) (fuel : Nat) (h : LS ld fuel) : Frag IStack ld fuel := by
  intro s0 env ident file pos k hk s hs _
  have hl := (h (({ s with modstack := s.modstack ++ [ident] } : State)) env ident file pos).run _ (IStack.refl _)
  rw [bind_def]
  show GPost IStack s0 (((fun s1 => _) >>= k) _)
  rw [bind_def]
  revert hl
  cases loadModule ld fuel env ident file pos { s with modstack := s.modstack ++ [ident] } with
  | ok e s2 =>
    intro hl
    refine (hk e).run _ ?_
    show s2.modstack.dropLast = s0.modstack
    rw [show s2.modstack = s.modstack ++ [ident] from hl, dropLast_push]; exact hs
  | err v m p t s2 =>
    intro hl
    show s2.modstack.dropLast = s0.modstack
    rw [show s2.modstack = s.modstack ++ [ident] from hl, dropLast_push]; exact hs
  | fail f s2 =>
    intro hl hf
    show s2.modstack.dropLast = s0.modstack
    rw [show s2.modstack = s.modstack ++ [ident] from hl hf, dropLast_push]; exact hs

theorem load_step (ld : Loader) (fuel : Nat) (ih : AllG IStack ld (LS ld) fuel) : LS ld (fuel + 1) := by
  have ih1 := ih.eval
  intro s0 env ident file pos
  simp only [loadModule]; gtr_auto
  all_goals exact ⟨fun s hs => hs⟩

theorem allStack {ld : Loader} (hNat : NativeKeepsModstack ld) : ∀ fuel, AllG IStack ld (LS ld) fuel :=
  allG (fun s0 name args => GTr.of_post (hNat name args) s0) (ls_zero ld) (frag ld) (load_step ld)

end Ckl.C10
