import CklVerif.Proofs.C13EndToEnd

#print axioms Ckl.E2E.interpret_no_host
#print axioms Ckl.E2E.interpret_total
#print axioms Ckl.E2E.interpret_kind
#print axioms Ckl.E2E.interpret_total_of_not_abstains
#print axioms Ckl.E2E.interpretProg_cases
#print axioms Ckl.E2E.runtime_error_origin
#print axioms Ckl.E2E.runtime_error_catchable
#print axioms Ckl.E2E.Ex13.tx_parses
#print axioms Ckl.E2E.Ex13.tx_err
