/-
  C05, end to end — an uncaught `error v` in a source text ends `Interpreter.interpret` with a runtime error
  carrying exactly `v`.

  * `uncaught_error_reaches_interpret_src`: `C05.uncaught_error_reaches_interpret` restated for `interpretSource`;
  * a concrete, infinite family of texts for non-vacuity — scanned, parsed and evaluated inside the theorem:
      `error_literal_reaches_interpret`  the text `error <v>` for EVERY data value `v` (`C08F.IsData'`: NULL, booleans,
                                         ints, strings, nested lists / sets / maps): the call ends with a runtime error
                                         whose error value reifies to exactly `v`, empty message, no stack trace;
      `error_int_reaches_interpret`      `error <int literal>` for every int `z` (numeral of at most 4300 digits, the
                                         limit of the implementation's `int(...)`, beyond which the text is a syntax
                                         error): error value exactly `.int z`, state unchanged, position: file, line 1;
      `error_str_reaches_interpret`      `error '<string literal>'` for every string.
  Pieces: the C08 literal theorems (`C08F.scans_val`, `C08F.lit_val`, `C08F.roundtrip_eval`), the parser chain for
  the keyword `error` (`Lemmas/E2EErrLit.lean`), `C05.error_raises_value`, `C20.scan_line_correct`.
-/
import CklVerif.Lemmas.E2EBase
import CklVerif.Lemmas.E2EErrScan
import CklVerif.Proofs.C05
import CklVerif.Proofs.C20Lexer
namespace Ckl.E2E
open Ckl Ckl.C08F

/-- **uncaught_error_reaches_interpret_src**: if the evaluation of the text's AST ends with the runtime error
    `v` (no handler caught it), `interpret` on the text ends with exactly that error: the same value, message,
    position, stack trace and state -/
theorem uncaught_error_reaches_interpret_src {ld : Loader} {fuel : Nat} {senv : EnvId} {src : List Char} {file : String}
    {ast : Node} {s s' : State} {v : RVal} {m : String} {p : Pos} {t : List (String × Pos)}
    (hp : parseScript src file = .ok ast) (h : eval ld fuel senv ast s = .err v m p t s') :
    interpretSource ld fuel senv src file s = .err v m p t s' := by
  rw [interpretSource_ok hp]; exact C05.uncaught_error_reaches_interpret ld h

/-- the text `error <e>`: when the operand evaluates to `v`, the call ends with the runtime error `v` -/
theorem error_text_reaches_interpret {ld : Loader} {fuel : Nat} {senv : EnvId} {src : List Char} {file : String}
    {e : Node} {pos : Pos} {s s' : State} {v : RVal}
    (hp : parseScript src file = .ok (.error e pos)) (h : eval ld fuel senv e s = .ok v s') :
    interpretSource ld (fuel + 1) senv src file s = .err v "" pos [] s' :=
  uncaught_error_reaches_interpret_src hp (C05.error_raises_value ld h)

/-- **error_literal_reaches_interpret**: for EVERY data value `v`, the text `error <v>` (alone or followed by white
    space), interpreted with enough fuel for the literal in a frame from which `NULL` is visible, ends with a runtime
    error whose error value `r` is exactly `v` (`reify s' r = some v`: the value itself for scalars, a freshly
    allocated list / set / map cell holding `v` otherwise), with the empty message of `error`, no stack trace, at the
    position of the keyword (file `file`), having only appended the literal's cells to the heap. -/
theorem error_literal_reaches_interpret (ld : Loader) (v : Val) (hv : IsData' decRepr v) (w : List Char)
    (hw : ∀ c ∈ w, c ∈ [' ', '\t', '\r', '\n']) (fuel : Nat) (hf : need v ≤ fuel) (senv : EnvId) (file : String)
    (s : State) (hnull : s.lookup senv "NULL" = some .null) :
    ∃ r p s', interpretSource ld (fuel + 1) senv (errorText decRepr v ++ w) file s = .err r "" p [] s' ∧
      reify s' r = some v ∧ HeapExt s s' ∧ p.file = file := by
  obtain ⟨terr, rest, n, hsc, _, hn, hp⟩ := parseScript_errorText decRepr file v hv w hw
  obtain ⟨r, s', he, hx, v', h1, h2, _⟩ := roundtrip_eval ld v hv n hn fuel hf senv s hnull
  obtain ⟨o, _, hfile⟩ := C20.scan_line_correct _ file _ hsc terr (List.mem_cons_self ..)
  exact ⟨r, terr.pos, s', error_text_reaches_interpret hp he, by rw [h1, h2], hx, hfile⟩

theorem newline_not_mem_renderInt (z : Int) : '\n' ∉ renderInt z := by
  have hd : ∀ n : Nat, '\n' ∉ natDigits n := by
    intro n h
    have := Lexer.toDigits_mem_digits n '\n' h
    revert this; decide
  unfold renderInt
  split
  · intro h
    rcases List.mem_cons.mp h with h | h
    · revert h; decide
    · exact hd _ h
  · exact hd _

/-- **error_int_reaches_interpret**: for every int `z` whose numeral has at most 4300 digits, every loader, fuel,
    session frame, file name and state: the text `error <z>` ends with the runtime error whose error value is
    exactly the int `z`, with empty message and empty stack trace, in the unchanged state, reported in the file at
    line 1. -/
theorem error_int_reaches_interpret (ld : Loader) (z : Int) (hz : (Nat.toDigits 10 z.natAbs).length ≤ 4300)
    (fuel : Nat) (senv : EnvId) (file : String) (s : State) :
    ∃ p, interpretSource ld (fuel + 2) senv (errPre ++ renderInt z) file s = .err (.int z) "" p [] s ∧
      p.file = file ∧ p.line = 1 := by
  obtain ⟨terr, rest, n, hsc, _, hn, hp⟩ := parseScript_errorText decRepr file (.int z) hz [] (by simp)
  simp only [errorText, renderWith, List.append_nil] at hsc hp
  obtain ⟨q, rfl⟩ := hn
  have he : eval ld (fuel + 1) senv (.lit (.int z) q) s = .ok (.int z) s := by unfold Ckl.eval; rfl
  obtain ⟨o, hline, hfile⟩ := C20.scan_line_correct _ file _ hsc terr (List.mem_cons_self ..)
  refine ⟨terr.pos, error_text_reaches_interpret hp he, hfile, ?_⟩
  have hno : '\n' ∉ errPre ++ renderInt z := by
    intro h
    rcases List.mem_append.mp h with h | h
    · revert h; decide
    · exact newline_not_mem_renderInt z h
  have : ((errPre ++ renderInt z).take o).count '\n' = 0 :=
    List.count_eq_zero.mpr (fun h => hno (List.mem_of_mem_take h))
  omega

/-- the same for string literals: `error '<x>'` ends with the runtime error whose value is the string `x` -/
theorem error_str_reaches_interpret (ld : Loader) (x : List Char) (fuel : Nat) (senv : EnvId) (file : String) (s : State) :
    ∃ p, interpretSource ld (fuel + 2) senv (errPre ++ renderWith decRepr (.str x)) file s = .err (.str x) "" p [] s ∧
      p.file = file := by
  obtain ⟨terr, rest, n, hsc, _, hn, hp⟩ := parseScript_errorText decRepr file (.str x) trivial [] (by simp)
  simp only [errorText, List.append_nil] at hsc hp
  obtain ⟨q, rfl⟩ := hn
  have he : eval ld (fuel + 1) senv (.lit (.str x) q) s = .ok (.str x) s := by unfold Ckl.eval; rfl
  obtain ⟨o, _, hfile⟩ := C20.scan_line_correct _ file _ hsc terr (List.mem_cons_self ..)
  exact ⟨terr.pos, error_text_reaches_interpret hp he, hfile⟩

/-- the error is an error VALUE of the language: the same text inside `do … catch <z> <h> end` would be handled —
    here, at the top level, nothing catches it, and the two statements of C05 meet: the value that `error` raised
    is the value `interpret` reports -/
theorem error_int_value_is_reported (ld : Loader) (z : Int) (hz : (Nat.toDigits 10 z.natAbs).length ≤ 4300)
    (fuel : Nat) (senv : EnvId) (file : String) (s : State) :
    kind (interpretSource ld (fuel + 2) senv (errPre ++ renderInt z) file s) = .runtimeError ∧
    finalState (interpretSource ld (fuel + 2) senv (errPre ++ renderInt z) file s) = s := by
  obtain ⟨p, h, _⟩ := error_int_reaches_interpret ld z hz fuel senv file s
  rw [h]; exact ⟨rfl, rfl⟩

/-! ### `finally` runs exactly once per entered block — for every source text, for every session -/

theorem nextState_ends {o : Out RVal} {s' : State} (h : nextState o = some s') : C05.Ends o s' := by
  cases o with
  | ok a t => cases h; rfl
  | err v m p t u => cases h; rfl
  | fail f t => cases f <;> first | (cases h; rfl) | cases h

/-- **finally_exactly_once_src** (`C05.interpret_balanced` from source): whatever the text — accepted or rejected
    by the front end — and however the call ends (value, runtime error caught or not, syntax error, host exception
    turned into a runtime error), for every block position the number of block entries and the number of `finally`
    runs grew by the same amount during the call.  (Nothing is claimed when the model abstains.) -/
theorem finally_exactly_once_src {ld : Loader} (hNat : C05.NativeBalanced ld) {fuel : Nat} {senv : EnvId}
    {src : List Char} {file : String} {s s' : State} (h : C05.Ends (interpretSource ld fuel senv src file s) s') :
    C05.Balanced s s' := by
  cases hp : parseScript src file with
  | error e => rw [interpretSource_error hp] at h; cases h; exact C05.Balanced.refl s
  | ok ast => rw [interpretSource_ok hp] at h; exact C05.interpret_balanced hNat h

/-- … and over a whole session of texts: starting from agreeing counters (a fresh interpreter), after any session
    the counter of entries and the counter of `finally` runs agree at every block position -/
theorem session_finally_exactly_once {ld : Loader} (hNat : C05.NativeBalanced ld) (fuel : Nat) (senv : EnvId)
    (file : String) : ∀ (texts : List (List Char)) (s s' : State),
      runSessionSrc ld fuel senv file texts s = some s' → C05.Balanced s s' := by
  intro texts
  induction texts with
  | nil => intro s s' h; cases h; exact C05.Balanced.refl s
  | cons src rest ih =>
    intro s s' h
    simp only [runSessionSrc] at h
    cases hn : nextState (interpretSource ld fuel senv src file s) with
    | none => rw [hn] at h; cases h
    | some s1 =>
      rw [hn] at h
      exact (finally_exactly_once_src hNat (nextState_ends hn)).trans (ih s1 s' h)

theorem session_counters_agree {ld : Loader} (hNat : C05.NativeBalanced ld) {fuel : Nat} {senv : EnvId} {file : String}
    {texts : List (List Char)} {s s' : State} (h : runSessionSrc ld fuel senv file texts s = some s')
    (h0 : ∀ p, C05.cnt s.ghost.enter p = C05.cnt s.ghost.fin p) (p : Pos) :
    C05.cnt s'.ghost.enter p = C05.cnt s'.ghost.fin p :=
  C05.counters_agree (session_finally_exactly_once hNat fuel senv file texts s s' h) h0 p

/-! ### non-vacuity -/

namespace Ex05
def st0 : State × EnvId := initialState true modelledNatives
def run (src : String) : Out RVal := interpretSource {} 100 st0.2 src.toList "t.ckl" st0.1

-- the family, run: ints (positive, negative, zero), a string, a list
#guard (match run "error 42" with | .err (.int 42) m p t _ => m == "" && p.line == 1 && t.isEmpty | _ => false)
#guard (match run "error -7" with | .err (.int (-7)) _ _ _ _ => true | _ => false)
#guard (match run "error 0" with | .err (.int 0) _ _ _ _ => true | _ => false)
#guard (match run "error 'boom'" with | .err (.str v) _ _ _ _ => v == "boom".toList | _ => false)
#guard (match run "error [1, 'a']" with
  | .err r _ _ _ s' => (reify s' r).map render == some "[1, 'a']".toList | _ => false)
-- the texts of the theorems are these texts
#guard errPre ++ renderInt 42 == "error 42".toList
#guard errPre ++ renderInt (-7) == "error -7".toList
#guard errorText decRepr (.list [.int 1, .str "a".toList]) == "error [1, 'a']".toList
-- a CAUGHT error does not reach `interpret`
#guard (match run "do error 42; catch 42 'handled'; end" with | .ok (.str v) _ => v == "handled".toList | _ => false)
-- an error raised on line 3 of a 3-line text
#guard (match run "def x = 1;\ndef y = 2;\nerror x + y" with | .err (.int 3) _ p _ _ => p.line == 3 | _ => false)

-- instances of the theorems: the hypotheses are met
example : (Nat.toDigits 10 (42 : Int).natAbs).length ≤ 4300 := by decide
example (ld : Loader) (fuel : Nat) (senv : EnvId) (file : String) (s : State) :
    ∃ p, interpretSource ld (fuel + 2) senv (errPre ++ renderInt (-7)) file s = .err (.int (-7)) "" p [] s ∧
      p.file = file ∧ p.line = 1 :=
  error_int_reaches_interpret ld (-7) (by decide) fuel senv file s
example : IsData' decRepr (.list [.int 1, .str ['a']]) := by simp [IsData', IsDataL']; decide
/-- a state in which `NULL` is visible from frame 0 -/
def sN : State := { frames := #[{ vars := [("NULL", .null)] }] }
example : sN.lookup 0 "NULL" = some .null := rfl
example (ld : Loader) : ∃ r p s', interpretSource ld (4 + 1) 0 (errorText decRepr (.list [.int 1, .str ['a']]) ++ []) "f" sN
      = .err r "" p [] s' ∧ reify s' r = some (.list [.int 1, .str ['a']]) ∧ HeapExt sN s' ∧ p.file = "f" :=
  error_literal_reaches_interpret ld _ (by simp [IsData', IsDataL']; decide) [] (by simp) 4 (by decide) 0 "f" sN rfl
-- `finally` runs once although the error passes through the block; both blocks sit at line 1, column 1 of their
-- text: one counter, value 2, for entries and for `finally` runs
#guard (match runSessionSrc {} 100 st0.2 "t.ckl" ["do error 1; finally println('f'); end".toList, "1 +".toList,
    "do 1; finally println('g'); end".toList] st0.1 with
  | some s' => s'.out == "f\ng\n".toList && s'.ghost.enter.map (·.2) == [2] &&
      s'.ghost.enter.all (fun e => C05.cnt s'.ghost.fin e.1 == e.2)
  | none => false)
example : C05.NativeBalanced ({} : Loader) := C05.default_nativeSem_balanced
example {texts s'} (h : runSessionSrc {} 100 st0.2 "t.ckl" texts st0.1 = some s')
    (h0 : ∀ p, C05.cnt st0.1.ghost.enter p = C05.cnt st0.1.ghost.fin p) (p : Pos) :
    C05.cnt s'.ghost.enter p = C05.cnt s'.ghost.fin p :=
  session_counters_agree C05.default_nativeSem_balanced h h0 p
end Ex05

end Ckl.E2E
