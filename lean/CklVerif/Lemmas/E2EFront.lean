/-
  E2E — the front end on a source text: where the positions of the AST and of a syntax error come from.

  Composition of `Proofs/C20Lexer.lean` (`token_line_correct`, `token_start`, `error_line_correct`) with
  `Proofs/C14Parse.lean` (`positions_from_tokens`, `error_position_from_tokens`).
-/
import CklVerif.Lemmas.E2EBase
import CklVerif.Proofs.C20Lexer
import CklVerif.Proofs.C14Parse
namespace Ckl.E2E
open Ckl

/-- `p` is the position of a token of the text `src` scanned under the name `file`: the scanner emits a token
    `t` with `t.pos = p` whose first character sits at offset `o` of `src`; that character is no white space;
    the line of `p` is one plus the number of line breaks among the first `o` characters of `src` (the line on
    which the token starts, as `C20.token_line_correct` defines it), and the file of `p` is `file` -/
def TokenPos (src : List Char) (file : String) (p : Pos) : Prop :=
  ∃ l t o, Lexer.scanWithOffsets src file = .ok l ∧ (t, o) ∈ l ∧ t.pos = p ∧
    p.line = 1 + (src.take o).count '\n' ∧ p.file = file ∧ ∃ c, src[o]? = some c ∧ c ∉ [' ', '\t', '\r', '\n']

theorem TokenPos.line_pos {src : List Char} {file : String} {p : Pos} (h : TokenPos src file p) : 1 ≤ p.line := by
  obtain ⟨_, _, _, _, _, _, hl, _⟩ := h; omega

theorem TokenPos.file_eq {src : List Char} {file : String} {p : Pos} (h : TokenPos src file p) : p.file = file := by
  obtain ⟨_, _, _, _, _, _, _, hf, _⟩ := h; exact hf

/-- the line is a line of the text: at most one plus the number of its line breaks -/
theorem TokenPos.line_le {src : List Char} {file : String} {p : Pos} (h : TokenPos src file p) :
    p.line ≤ 1 + src.count '\n' := by
  obtain ⟨_, _, o, _, _, _, hl, _⟩ := h
  have : (src.take o).count '\n' ≤ src.count '\n' := (List.take_sublist o src).count_le _
  omega

theorem tokenPos_of_mem {src : List Char} {file : String} {l : List (Token × Nat)} {t : Token} {o : Nat}
    (h : Lexer.scanWithOffsets src file = .ok l) (hm : (t, o) ∈ l) : TokenPos src file t.pos :=
  ⟨l, t, o, h, hm, rfl, (C20.token_line_correct src file l h t o hm).1, (C20.token_line_correct src file l h t o hm).2,
    C20.token_start src file l h t o hm⟩

theorem scan_ok_offsets {src : List Char} {file : String} {toks : List Token} (h : Lexer.scan src file = .ok toks) :
    ∃ l, Lexer.scanWithOffsets src file = .ok l ∧ toks = l.map Prod.fst := by
  unfold Lexer.scan at h
  cases hl : Lexer.scanWithOffsets src file with
  | error e => rw [hl] at h; cases h
  | ok l => rw [hl] at h; cases h; exact ⟨l, rfl, rfl⟩

theorem scan_error_offsets {src : List Char} {file : String} {e : SynErr} (h : Lexer.scan src file = .error e) :
    Lexer.scanWithOffsets src file = .error e := by
  unfold Lexer.scan at h
  cases hl : Lexer.scanWithOffsets src file with
  | error e' => rw [hl] at h; cases h; rfl
  | ok l => rw [hl] at h; cases h

/-- the position of every token of a successful scan is a `TokenPos` -/
theorem tokenPos_of_scan {src : List Char} {file : String} {toks : List Token} (h : Lexer.scan src file = .ok toks)
    {p : Pos} (hp : p ∈ toks.map (·.pos)) : TokenPos src file p := by
  obtain ⟨l, hl, rfl⟩ := scan_ok_offsets h
  obtain ⟨t, ht, rfl⟩ := List.mem_map.mp hp
  obtain ⟨⟨t', o⟩, hm, rfl⟩ := List.mem_map.mp ht
  exact tokenPos_of_mem hl hm

/-- where the scanner reports an error: it fails at a character `c` of the text (or at the blank appended to
    it) after consuming the prefix `pre` successfully; the reported line is the line of `c` (the next line when
    `c` is itself a line break: an invalid `\x` escape) or the line on which the token being scanned started
    (an invalid hex / binary literal) — `C20.error_line_correct` -/
def ScanErrorAt (src : List Char) (file : String) (e : SynErr) : Prop :=
  ∃ pre c rest σ, src ++ [' '] = pre ++ c :: rest ∧ Lexer.run file {} pre = .ok σ ∧ Lexer.feed file σ c = .error e ∧
    e.pos.file = file ∧
    (e.pos.line = 1 + (pre ++ [c]).count '\n' ∨ e.pos.line = 1 + (pre.take σ.startOff).count '\n')

theorem scanErrorAt_of_scan {src : List Char} {file : String} {e : SynErr} (h : Lexer.scan src file = .error e) :
    ScanErrorAt src file e :=
  C20.error_line_correct src file e (scan_error_offsets h)

theorem ScanErrorAt.line_pos {src : List Char} {file : String} {e : SynErr} (h : ScanErrorAt src file e) :
    1 ≤ e.pos.line := by
  obtain ⟨_, _, _, _, _, _, _, _, h | h⟩ := h <;> omega

/-- a syntax error of the parser is reported at a token of the text -/
theorem parse_error_tokenPos {src : List Char} {file : String} {toks : List Token} {e : SynErr}
    (hs : Lexer.scan src file = .ok toks) (hp : Parser.parse file toks = .error e) : TokenPos src file e.pos :=
  tokenPos_of_scan hs (C14P.error_position_from_tokens _ file toks e hp)

/-- every position of the AST of a text is the position of a token of the text; the only exception is the text
    without tokens (empty, white space, comments), whose AST is `null` at the start `⟨file, 1, 1⟩` of the file -/
theorem ast_pos_tokenPos {src : List Char} {file : String} {toks : List Token} {ast : Node}
    (hs : Lexer.scan src file = .ok toks) (hp : Parser.parse file toks = .ok ast) :
    ∀ p ∈ C14P.positions ast, TokenPos src file p ∨ (toks = [] ∧ ast = .null ⟨file, 1, 1⟩ ∧ p = ⟨file, 1, 1⟩) := by
  intro p hpm
  rcases C14P.positions_from_tokens _ file toks ast hp p hpm with h | ⟨h1, h2⟩
  · exact Or.inl (tokenPos_of_scan hs h)
  · subst h1
    have : ast = .null ⟨file, 1, 1⟩ := by
      have : Parser.parse file [] = .ok (Node.null ⟨file, 1, 1⟩) := rfl
      rw [this] at hp; exact (Except.ok.inj hp).symm
    exact Or.inr ⟨rfl, this, h2⟩

end Ckl.E2E
