/-
  Layer 1 — evaluator plumbing: outcome type, the evaluation monad, argument
  binding (`Args.addArgs/setArgs`), value helpers shared by nodes and natives.
-/
import CklVerif.Model.Env
import CklVerif.Model.Seq
namespace Ckl

inductive Fail where
  | oof                          -- out of fuel: a non-terminating (or too long) program
  | unsupported (what : String)  -- outside the modelled subset
  | host (kind : String)         -- a host-language exception would escape
  | syn (e : SynErr)             -- CklSyntaxError raised during evaluation (require of a broken module)
deriving Inhabited, Repr

inductive Out (α : Type) where
  | ok (a : α) (s : State)
  | err (v : RVal) (msg : String) (pos : Pos) (trace : List (String × Pos)) (s : State)  -- CklRuntimeError
  | fail (f : Fail) (s : State)
deriving Inhabited

abbrev EvalM (α : Type) := State → Out α

namespace EvalM
@[inline] def pure' {α} (a : α) : EvalM α := fun s => .ok a s
@[inline] def bind' {α β} (m : EvalM α) (f : α → EvalM β) : EvalM β := fun s =>
  match m s with
  | .ok a s' => f a s'
  | .err v msg p t s' => .err v msg p t s'
  | .fail k s' => .fail k s'
instance : Monad EvalM where
  pure := pure'
  bind := bind'
end EvalM

def getS : EvalM State := fun s => .ok s s
def setS (s : State) : EvalM Unit := fun _ => .ok () s
def modifyS (f : State → State) : EvalM Unit := fun s => .ok () (f s)
def throwV {α} (v : RVal) (msg : String) (pos : Pos) : EvalM α := fun s => .err v msg pos [] s
/-- `CklRuntimeError(ValueString("ERROR"), msg, pos)` -/
def throwE {α} (msg : String) (pos : Pos) : EvalM α := throwV (.str ['E', 'R', 'R', 'O', 'R']) msg pos
def failM {α} (f : Fail) : EvalM α := fun s => .fail f s
def unsupported {α} (what : String) : EvalM α := failM (.unsupported what)

def allocM (c : Cell) : EvalM RVal := fun s => let (s', a) := s.alloc c; .ok (.ref a) s'
def newList (xs : List RVal) : EvalM RVal := allocM (.list xs)

def cellOf (v : RVal) : EvalM (Option Cell) := fun s =>
  match v with
  | .ref a => .ok (s.cell a) s
  | _ => .ok none s

/-- `value.type()` -/
def typeName (s : State) : RVal → String
  | .null => "null" | .bool _ => "boolean" | .int _ => "int" | .dec _ _ => "decimal"
  | .str _ => "string" | .pat _ => "pattern" | .date _ => "date"
  | .closure _ => "func" | .native _ _ => "func" | .node _ => "node"
  | .brk _ => "break" | .cont _ => "continue" | .ret _ _ => "return"
  | .ref a => match s.cell a with
    | some (.list _) => "list" | some (.set _) => "set" | some (.map _) => "map"
    | some (.obj _ _) => "object" | _ => "?"

def typeOf (v : RVal) : EvalM String := fun s => .ok (typeName s v) s

/-! ### deep equality on heap values (`__eq__`) -/

/-- equality with fuel on the nesting depth; data values agree with `veq` on their
    reification (validated by correspondence); functions compare by identity -/
def rveqF (h : Array Cell) : Nat → RVal → RVal → Bool
  | _, .null, .null => true
  | _, .bool a, .bool b => a == b
  | _, .int a, .int b => decide (a = b)
  | _, .int a, .dec m e => numEq a 0 m e
  | _, .dec m e, .int b => numEq m e b 0
  | _, .dec m e, .dec m' e' => numEq m e m' e'
  | _, .str a, .str b => a == b
  | _, .pat a, .pat b => a == b
  | _, .date a, .date b => a == b
  | _, .closure a, .closure b => a == b
  | _, .native _ i, .native _ j => i == j
  | 0, _, _ => false
  | fuel + 1, .ref a, .ref b =>
    if a == b then true else
    match h[a]?, h[b]? with
    | some (.list xs), some (.list ys) =>
        xs.length == ys.length && (xs.zip ys).all (fun p => rveqF h fuel p.1 p.2)
    | some (.set xs), some (.set ys) =>
        xs.length == ys.length && xs.all (fun x => ys.any (fun y => rveqF h fuel x y))
    | some (.map xs), some (.map ys) =>
        xs.length == ys.length &&
          xs.all (fun kv => ys.any (fun kv' => rveqF h fuel kv.1 kv'.1 && rveqF h fuel kv.2 kv'.2))
    | some (.obj xs _), some (.obj ys _) =>
        xs.length == ys.length &&
          xs.all (fun kv => ys.any (fun kv' => kv.1 == kv'.1 && rveqF h fuel kv.2 kv'.2))
    | _, _ => false
  | _, _, _ => false

def rveq (s : State) (a b : RVal) : Bool := rveqF s.heap (s.heap.size + 1) a b

def memR (s : State) (x : RVal) (xs : List RVal) : Bool := xs.any (fun y => rveq s x y)

def mapGet (s : State) (k : RVal) : List (RVal × RVal) → Option RVal
  | [] => none
  | (k', v) :: rest => if rveq s k k' then some v else mapGet s k rest

def mapPut (s : State) (k v : RVal) : List (RVal × RVal) → List (RVal × RVal)
  | [] => [(k, v)]
  | (k', v') :: rest => if rveq s k k' then (k', v) :: rest else (k', v') :: mapPut s k v rest

def mapDel (s : State) (k : RVal) : List (RVal × RVal) → List (RVal × RVal)
  | [] => []
  | (k', v') :: rest => if rveq s k k' then rest else (k', v') :: mapDel s k rest

def setAdd (s : State) (x : RVal) (xs : List RVal) : List RVal :=
  if memR s x xs then xs else xs ++ [x]

/-! ### order and rendering via reification -/

/-- `a < b` (`__lt__`); `none` when a non-data value is involved -/
def rvlt (s : State) (a b : RVal) : Option Bool := do
  let x ← reify s a; let y ← reify s b; pure (vlt x y)

/-- enumeration order of a set / of map keys: `sorted(...)`; `none` for non-data elements -/
def sortedR (s : State) (xs : List RVal) : Option (List RVal) := do
  let keyed ← xs.mapM (fun x => do let v ← reify s x; pure (v, x))
  pure ((sortBy (fun a b => vlt a.1 b.1) keyed).map (·.2))

def sortedEntriesR (s : State) (kvs : List (RVal × RVal)) : Option (List (RVal × RVal)) := do
  let keyed ← kvs.mapM (fun kv => do let v ← reify s kv.1; pure (v, kv))
  pure ((sortBy (fun a b => vlt a.1 b.1) keyed).map (·.2))

/-- `str(value)`: rendering; objects and functions are rendered here, data through `render` -/
def rrenderF (s : State) : Nat → RVal → Option (List Char)
  | _, .closure a => match s.cell a with
    | some (.closure _ _ _ _ name) => some ("<#" ++ name ++ ">").toList
    | _ => none
  | _, .native name _ => some ("<#" ++ name ++ ">").toList
  | _, .brk _ => some "break".toList
  | _, .cont _ => some "continue".toList
  | 0, _ => none
  | fuel + 1, .ret v _ => (rrenderF s fuel v).map (fun t => "return ".toList ++ t)
  | fuel + 1, .ref a =>
    match s.cell a with
    | some (.obj kvs _) =>
        if dictHas "_str_" kvs || dictHas "_proto_" kvs then none   -- `_str_` dispatch is not modelled
        else do
          let parts ← (kvs.filter (fun kv => !kv.1.startsWith "_")).mapM
            (fun kv => do let t ← rrenderF s fuel kv.2; pure (kv.1.toList ++ ['='] ++ t))
          pure ("<*".toList ++ joinSep [',', ' '] parts ++ "*>".toList)
    | some (.list xs) => do
        let parts ← xs.mapM (rrenderF s fuel)
        pure ('[' :: (joinSep [',', ' '] parts ++ [']']))
    | _ => (reify s (.ref a)).map render
  | _, v => (reify s v).map render

def rrender (s : State) (v : RVal) : Option (List Char) := rrenderF s (s.heap.size + 1) v

/-! ### argument binding: `Args.addArgs`, `Args.setArgs`, `getNextPositionalArgName` -/

structure ArgSpec where
  argNames : List String
  restArgName : Option String

def addArgs (names : List String) : ArgSpec :=
  names.foldl (fun sp n => if n.endsWith "..." then { sp with restArgName := some n }
                           else { sp with argNames := sp.argNames ++ [n] }) ⟨[], none⟩

def nextPositional (argNames : List String) (args : List (String × RVal)) : Option String :=
  argNames.find? (fun n => !dictHas n args)

/-- truthiness of a Python name in `if names[i]:` — `None` and `""` are falsy -/
def nameGiven : Option String → Option String
  | some n => if n = "" then none else some n
  | none => none

/-- pass 1 of setArgs: named arguments -/
def bindNamed (sp : ArgSpec) (pos : Pos) :
    List (Option String) → List RVal → List (String × RVal) → EvalM (List (String × RVal))
  | n :: ns, v :: vs, args =>
    match nameGiven n with
    | some name =>
      if sp.argNames.contains name then bindNamed sp pos ns vs (dictPut name v args)
      else throwE ("Argument " ++ name ++ " is unknown") pos
    | none => bindNamed sp pos ns vs args
  | _, _, args => pure args

/-- pass 2 of setArgs: positionals in order, surplus to `rest` -/
def bindPositional (sp : ArgSpec) (pos : Pos) :
    List (Option String) → List RVal → Bool → List (String × RVal) → List RVal →
    EvalM (List (String × RVal) × List RVal)
  | n :: ns, v :: vs, inKeywords, args, rest =>
    match nameGiven n with
    | none =>
      if inKeywords then throwE "Positional arguments need to be placed before named arguments" pos
      else match nextPositional sp.argNames args with
        | none =>
          if sp.restArgName.isNone then throwE "Too many arguments" pos
          else bindPositional sp pos ns vs inKeywords args (rest ++ [v])
        | some argName => bindPositional sp pos ns vs inKeywords (dictPut argName v args) rest
    | some name =>
      if sp.argNames.contains name then bindPositional sp pos ns vs true (dictPut name v args) rest
      else throwE ("Argument " ++ name ++ " is unknown") pos
  | _, _, _, args, rest => pure (args, rest)

/-- `Args(pos).addArgs(fn.getArgNames()).setArgs(names, values)` -/
def setArgs (paramNames : List String) (names : List (Option String)) (values : List RVal) (pos : Pos) :
    EvalM (List (String × RVal)) := do
  let sp := addArgs paramNames
  let a1 ← bindNamed sp pos names values []
  let (a2, rest) ← bindPositional sp pos names values false a1 []
  match sp.restArgName with
  | some r => do
      let lst ← newList rest
      pure (dictPut r lst a2)
  | none => pure a2

/-- `args.get(name)` -/
def argGet (args : List (String × RVal)) (name : String) (pos : Pos) : EvalM RVal :=
  match dictGet name args with
  | some v => pure v
  | none => throwE ("Missing argument " ++ name) pos

/-! ### conversions used by nodes -/

/-- `getIndex(idx, pos)`: `int(idx.value)` with the host failures turned into the runtime error -/
def getIndex (idx : RVal) (pos : Pos) : EvalM Int := do
  match idx with
  | .int n => pure n
  | .bool b => pure (if b then 1 else 0)
  | .dec m e => pure (Int.tdiv m ((2 : Int) ^ e))
  | .str _ => unsupported "index given as string (int(str))"
  | .pat _ => unsupported "index given as pattern (int(str))"
  | v => do let t ← typeOf v; throwE ("Invalid index " ++ t) pos

/-- `value.asString().value` for the kinds the nodes use it on -/
def asStringM (v : RVal) (pos : Pos) : EvalM (List Char) := do
  match v with
  | .str s => pure s
  | .null => pure []
  | .pat s => pure s
  | .brk _ | .cont _ | .ret _ _ => throwE "Cannot convert to String" pos
  | .node _ => unsupported "string of a node"
  | v => do
    let s ← getS
    match rrender s v with
    | some t => pure t
    | none => unsupported "rendering of this value"

end Ckl
