/-
  Generic logic (see C10Gen): the modelled built-in functions (`callPure`) keep `obs` unchanged.
-/
import CklVerif.Lemmas.C10GenHelpers
namespace Ckl.Gen
open Ckl Ckl.C05

variable {I : Rel} {s0 : State}

theorem GTr.dateResM (r : DateRes) (pos : Pos) : GTr I s0 (dateResM r pos) := by
  unfold Ckl.dateResM; gtr_auto
macro_rules | `(tactic| gtr_lemma) => `(tactic| exact GTr.dateResM _ _)

theorem GTr.callDate (name : String) (args : List (String × RVal)) (pos : Pos) (m : EvalM RVal)
    (h : callDate name args pos = some m) : GTr I s0 m := by
  unfold Ckl.callDate at h
  split at h <;> first | (injection h with h; subst h; exact GTr.dateResM _ _) | (cases h)

theorem GTr.nativeAdd (a b : RVal) (pos : Pos) : GTr I s0 (nativeAdd a b pos) := by
  unfold Ckl.nativeAdd; gtr_auto
macro_rules | `(tactic| gtr_lemma) => `(tactic| exact GTr.nativeAdd _ _ _)

theorem GTr.nativeSub (a b : RVal) (pos : Pos) : GTr I s0 (nativeSub a b pos) := by
  unfold Ckl.nativeSub; gtr_auto
macro_rules | `(tactic| gtr_lemma) => `(tactic| exact GTr.nativeSub _ _ _)

theorem GTr.nativeMul (a b : RVal) (pos : Pos) : GTr I s0 (nativeMul a b pos) := by
  unfold Ckl.nativeMul; gtr_auto
macro_rules | `(tactic| gtr_lemma) => `(tactic| exact GTr.nativeMul _ _ _)

theorem GTr.nativeDiv (a b : RVal) (d : Option RVal) (pos : Pos) : GTr I s0 (nativeDiv a b d pos) := by
  unfold Ckl.nativeDiv; gtr_auto
macro_rules | `(tactic| gtr_lemma) => `(tactic| exact GTr.nativeDiv _ _ _ _)

theorem GTr.nativeMod (a b : RVal) (pos : Pos) : GTr I s0 (nativeMod a b pos) := by
  unfold Ckl.nativeMod; gtr_auto
macro_rules | `(tactic| gtr_lemma) => `(tactic| exact GTr.nativeMod _ _ _)


/-- every modelled pure native keeps `obs` -/
theorem GTr.callPure (name : String) (args : List (String × RVal)) (d : Option RVal) (pos : Pos)
    (m : EvalM RVal) (h : callPure name args d pos = some m) : GTr I s0 m := by
  unfold Ckl.callPure at h
  split at h
  all_goals first | (cases h) | (exact GTr.callDate _ _ _ _ h)
  all_goals gtr_auto

end Ckl.Gen
