/-
  C09 (evaluator level): `callPure`, first half of the name table.
-/
import CklVerif.Lemmas.C09EvalNatives
import CklVerif.Lemmas.C17EvalBase
namespace Ckl.C09E
open Ckl

variable {E : List String} {b : Bool}

def groupA : List String :=
  ["add", "sub", "mul", "div", "mod", "equals", "not_equals", "less", "greater", "less_equals",
   "greater_equals", "compare", "type"]

def groupB : List String :=
  ["identity", "string", "length", "is_null", "is_not_null", "is_empty", "if_null", "append", "insert_at",
   "delete_at", "remove", "put"]

set_option maxHeartbeats 400000 in
theorem callPure_groupA (name : String) (args : List (String × RVal)) (d : Option RVal) (pos : Pos)
    (m : EvalM RVal) (h : callPure name args d pos = some m) (hn : name ∈ groupA)
    (ha : Cl.cl E args) (hd : Cl.cl E d) : Pres E b m := by
  unfold Ckl.callPure at h
  split at h
  all_goals first
    | (exfalso; simp only [groupA, List.mem_cons, List.mem_nil_iff, String.reduceEq, or_false, or_self] at hn; done)
    | (exfalso; rcases callDate_some_name h with rfl | rfl | rfl <;> simp [groupA] at hn; done)
    | (cases h <;> pa_auto)

set_option maxHeartbeats 400000 in
theorem callPure_groupB (name : String) (args : List (String × RVal)) (d : Option RVal) (pos : Pos)
    (m : EvalM RVal) (h : callPure name args d pos = some m) (hn : name ∈ groupB)
    (ha : Cl.cl E args) : Pres E b m := by
  unfold Ckl.callPure at h
  split at h
  all_goals first
    | (exfalso; simp only [groupB, List.mem_cons, List.mem_nil_iff, String.reduceEq, or_false, or_self] at hn; done)
    | (exfalso; rcases callDate_some_name h with rfl | rfl | rfl <;> simp [groupB] at hn; done)
    | (cases h <;> pa_auto)

end Ckl.C09E
