/-
  E2E — the text `error <data literal>`: scanner + parser.  For every data value `v` (NULL, booleans, ints of at
  most 4300 digits, strings, nested lists / sets / maps of these — `C08F.IsData'`), the text `error ` followed by
  the printed form of `v` (and optional white space) parses to `NodeError(<literal AST of v>)`.
  Built from the C08 literal theorems: `C08F.scans_val` (scanner), `C08F.lit_val` + `Lit.expr` (parser).
-/
import CklVerif.Proofs.C08Full
import CklVerif.Lemmas.E2EErrLit
namespace Ckl.E2E
open Ckl Ckl.Lexer Ckl.C08 Ckl.C08F

/-- `error ` -/
def errPre : List Char := ['e', 'r', 'r', 'o', 'r', ' ']

/-- at a token boundary `error ` makes the scanner emit the keyword token `error` -/
theorem pre_error : Pre errPre [(['e', 'r', 'r', 'o', 'r'], .keyword)] := by
  intro name σ h0 htok rest
  obtain ⟨σ1, col, hr1, hk1, ho1, _⟩ := run_word (name := name) h0 htok (c := 'e') (by decide)
    (cs := ['r', 'r', 'o', 'r']) (by decide) (t := ' ') (by decide) rest
  obtain ⟨σ2, hr2, hk2, ho2⟩ := Pre.blank name σ1 (by rw [hk1]; exact h0) (by rw [hk1]; exact htok) rest
  refine ⟨σ2, ?_, by rw [hk2, hk1], ?_⟩
  · show run name σ ('e' :: (['r', 'r', 'o', 'r'] ++ ' ' :: rest)) = _
    rw [hr1]; exact hr2
  · rw [ho2, outTV_push ho1]; simp; rfl

/-- the text `error <v>` -/
def errorText (dr : DecRenderer) (v : Val) : List Char := errPre ++ renderWith dr v

/-- **scan**: the text `error <v>`, alone or followed by white space, scans to the keyword `error` followed by
    the tokens of the literal -/
theorem scan_errorText (dr : DecRenderer) (name : String) (v : Val) (hv : IsData' dr v) (w : List Char)
    (hw : ∀ c ∈ w, c ∈ [' ', '\t', '\r', '\n']) :
    scanTV (errorText dr v ++ w) name = some ((['e', 'r', 'r', 'o', 'r'], .keyword) :: tokensOf v) := by
  obtain ⟨t, tl, htl, ht, htg⟩ : ∃ t tl, w ++ [' '] = t :: tl ∧ t ∈ numEnd ∧ t ≠ '>' := by
    cases w with
    | nil => exact ⟨' ', [], rfl, by decide, by decide⟩
    | cons a w' =>
      refine ⟨a, w' ++ [' '], rfl, whitespace_numEnd a (hw a (by simp)), ?_⟩
      have := hw a (by simp)
      intro e; subst e; revert this; decide
  have hsc : Scans (errorText dr v) ([(['e', 'r', 'r', 'o', 'r'], .keyword)] ++ tokensOf v) :=
    Scans.pre pre_error (scans_val dr v hv)
  obtain ⟨σ', hr, hk, ho⟩ := hsc name {} rfl rfl t ht (fun _ => htg) tl
  rw [← htl] at hr
  unfold scanTV
  rw [scan_finish hw hr (by rw [hk])]
  have : outTV σ' = (['e', 'r', 'r', 'o', 'r'], .keyword) :: tokensOf v := by rw [ho]; rfl
  simp only [← this, outTV, List.map_map]
  rfl

/-- **parse**: … and parses to `NodeError` of the literal AST of `v`, at the position of the keyword, which is
    the first token of the scan -/
theorem parseScript_errorText (dr : DecRenderer) (file : String) (v : Val) (hv : IsData' dr v) (w : List Char)
    (hw : ∀ c ∈ w, c ∈ [' ', '\t', '\r', '\n']) :
    ∃ terr rest n, scan (errorText dr v ++ w) file = .ok (terr :: rest) ∧ IsErrorKw terr ∧ C08F.NodeIs v n ∧
      parseScript (errorText dr v ++ w) file = .ok (.error n terr.pos) := by
  have hs := scan_errorText dr file v hv w hw
  unfold scanTV at hs
  cases hsc : scan (errorText dr v ++ w) file with
  | error e => rw [hsc] at hs; cases hs
  | ok l =>
    rw [hsc] at hs
    simp only [Option.some.injEq] at hs
    cases l with
    | nil => cases hs
    | cons terr rest =>
      simp only [List.map_cons, List.cons.injEq] at hs
      obtain ⟨h1, h2⟩ := hs
      have hkw : IsErrorKw terr := by
        simp only [tv, Prod.mk.injEq] at h1; exact h1
      obtain ⟨n, hn, hnn⟩ := lit_val dr v hv rest h2
      refine ⟨terr, rest, n, rfl, hkw, hnn, ?_⟩
      rw [parseScript_eq, hsc]
      apply parse_error_of_expr _ file terr rest n hkw
      intro c p _
      have hex := Lit.expr c hn [] Stop.nil
      rw [List.append_nil] at hex
      obtain ⟨q, hq⟩ := hex
      exact ⟨q, hq p⟩

end Ckl.E2E
