/-
  C12Sim — the simultaneous induction over the evaluator for CALL-FREE programs.

  `cfN n`: the node `n` contains no function call (`call`, `derefInvoke`), no `require` and no
  element assignment (`derefAssign`) outside lambda bodies (a lambda body is never run when nothing
  is called).  For such programs 19 of the 30 functions of the mutual block are reachable:
  `eval evalAnd evalOr evalIf evalSeq evalItems evalPairs evalBody evalFinally tryHandlers evalFor
  forItems forListLive forString whileLoop comprStep comprLoop comprProduct comprParallel`.
-/
import CklVerif.Lemmas.C12SimHelpers

set_option linter.unusedSimpArgs false
set_option linter.unusedVariables false
set_option linter.unusedTactic false
set_option linter.unreachableTactic false

namespace Ckl.C12S
open Ckl Ckl.C12

mutual
/-- call-free: no `call`, `derefInvoke`, `require`, `derefAssign` outside lambda bodies -/
def cfN : Node → Bool
  | .absent => true
  | .catchAll => true
  | .null _ => true
  | .lit _ _ => true
  | .ident _ _ => true
  | .and es _ => cfL es
  | .or es _ => cfL es
  | .not e _ => cfN e
  | .assign _ e _ => cfN e
  | .assignD _ e _ => cfN e
  | .block es ce ch fin _ _ => cfL es && cfL ce && cfL ch && cfL fin
  | .brk _ => true
  | .cont _ => true
  | .cls _ ms _ => cfL ms
  | .defn _ e _ _ => cfN e
  | .defD _ e _ _ => cfN e
  | .deref e i d _ => cfN e && cfN i && cfN d
  | .derefAssign _ _ _ _ => false
  | .derefInvoke _ _ _ _ _ => false
  | .slice e a b _ => cfN e && cfN a && cfN b
  | .error e _ => cfN e
  | .for _ e b _ _ => cfN e && cfN b
  | .call _ _ _ _ => false
  | .ite cs xs el _ => cfL cs && cfL xs && cfN el
  | .isIn e c _ => cfN e && cfN c
  | .lambda _ _ _ _ => true
  | .list is _ => cfL is
  | .compr _ _ ve ke _ l1 _ _ l2 _ c _ => cfN ve && cfN ke && cfN l1 && cfN l2 && cfN c
  | .map ks vs _ => cfL ks && cfL vs
  | .object _ vs _ => cfL vs
  | .require _ _ _ _ _ => false
  | .ret e _ => cfN e
  | .set is _ => cfL is
  | .spread e _ => cfN e
  | .while c b _ => cfN c && cfN b
def cfL : List Node → Bool
  | [] => true
  | n :: ns => cfN n && cfL ns
end

/-- the 19 functions reachable from call-free programs respect `PermSt` at fuel `fuel` -/
structure SAll (ld : Loader) (fuel : Nat) : Prop where
  eval : ∀ (env : EnvId) (n : Node), cfN n = true → Sim (eval ld fuel env n) (eval ld fuel env n)
  evalAnd : ∀ (env : EnvId) (es : List Node) (p : Pos), cfL es = true →
    Sim (evalAnd ld fuel env es p) (evalAnd ld fuel env es p)
  evalOr : ∀ (env : EnvId) (es : List Node) (p : Pos), cfL es = true →
    Sim (evalOr ld fuel env es p) (evalOr ld fuel env es p)
  evalIf : ∀ (env : EnvId) (cs xs : List Node) (el : Node) (p : Pos), cfL cs = true → cfL xs = true → cfN el = true →
    Sim (evalIf ld fuel env cs xs el p) (evalIf ld fuel env cs xs el p)
  evalSeq : ∀ (env : EnvId) (ns : List Node), cfL ns = true → Sim (evalSeq ld fuel env ns) (evalSeq ld fuel env ns)
  evalItems : ∀ (env : EnvId) (ns : List Node) (p : Pos), cfL ns = true →
    Sim (evalItems ld fuel env ns p) (evalItems ld fuel env ns p)
  evalPairs : ∀ (env : EnvId) (ks vs : List Node), cfL ks = true → cfL vs = true →
    Sim (evalPairs ld fuel env ks vs) (evalPairs ld fuel env ks vs)
  evalBody : ∀ (env : EnvId) (ns : List Node) (l : RVal), cfL ns = true →
    Sim (evalBody ld fuel env ns l) (evalBody ld fuel env ns l)
  evalFinally : ∀ (env : EnvId) (ns : List Node), cfL ns = true →
    Sim (evalFinally ld fuel env ns) (evalFinally ld fuel env ns)
  tryHandlers : ∀ (env : EnvId) (cs hs : List Node) (v : RVal) (msg : String) (p : Pos) (t : List (String × Pos)),
    cfL cs = true → cfL hs = true →
    Sim (tryHandlers ld fuel env cs hs v msg p t) (tryHandlers ld fuel env cs hs v msg p t)
  evalFor : ∀ (env : EnvId) (ids : List String) (e body : Node) (what : String) (p : Pos), cfN e = true → cfN body = true →
    Sim (evalFor ld fuel env ids e body what p) (evalFor ld fuel env ids e body what p)
  forItems : ∀ (env : EnvId) (ids : List String) (xs : List RVal) (body : Node) (r : RVal) (p : Pos), cfN body = true →
    Sim (forItems ld fuel env ids xs body r p) (forItems ld fuel env ids xs body r p)
  forListLive : ∀ (env : EnvId) (ids : List String) (a i : Nat) (body : Node) (r : RVal) (p : Pos), cfN body = true →
    Sim (forListLive ld fuel env ids a i body r p) (forListLive ld fuel env ids a i body r p)
  forString : ∀ (env : EnvId) (x : String) (cs : List Char) (body : Node) (r : RVal), cfN body = true →
    Sim (forString ld fuel env x cs body r) (forString ld fuel env x cs body r)
  whileLoop : ∀ (env : EnvId) (c body : Node) (p : Pos), cfN c = true → cfN body = true →
    Sim (whileLoop ld fuel env c body p) (whileLoop ld fuel env c body p)
  comprStep : ∀ (lenv : EnvId) (kind : ComprKind) (ve ke cond : Node) (p : Pos),
    cfN ve = true → cfN ke = true → cfN cond = true →
    Sim (comprStep ld fuel lenv kind ve ke cond p) (comprStep ld fuel lenv kind ve ke cond p)
  comprLoop : ∀ (lenv : EnvId) (kind : ComprKind) (ve ke cond : Node) (p : Pos) (l : List (String × List RVal))
    (acc : List (RVal × RVal)), cfN ve = true → cfN ke = true → cfN cond = true →
    Sim (comprLoop ld fuel lenv kind ve ke cond p l acc) (comprLoop ld fuel lenv kind ve ke cond p l acc)
  comprProduct : ∀ (lenv : EnvId) (kind : ComprKind) (ve ke cond : Node) (p : Pos) (x1 : String) (vs : List RVal)
    (x2 : String) (ws : List RVal) (acc : List (RVal × RVal)), cfN ve = true → cfN ke = true → cfN cond = true →
    Sim (comprProduct ld fuel lenv kind ve ke cond p x1 vs x2 ws acc)
      (comprProduct ld fuel lenv kind ve ke cond p x1 vs x2 ws acc)
  comprParallel : ∀ (lenv : EnvId) (kind : ComprKind) (ve ke cond : Node) (p : Pos) (x1 : String) (vs : List RVal)
    (x2 : String) (ws : List RVal) (acc : List (RVal × RVal)), cfN ve = true → cfN ke = true → cfN cond = true →
    Sim (comprParallel ld fuel lenv kind ve ke cond p x1 vs x2 ws acc)
      (comprParallel ld fuel lenv kind ve ke cond p x1 vs x2 ws acc)

theorem sAll_zero (ld : Loader) : SAll ld 0 := by
  constructor <;> intros <;> first
    | (unfold Ckl.eval; exact Sim.failM _)
    | (unfold Ckl.evalAnd; exact Sim.failM _)
    | (unfold Ckl.evalOr; exact Sim.failM _)
    | (unfold Ckl.evalIf; exact Sim.failM _)
    | (unfold Ckl.evalSeq; exact Sim.failM _)
    | (unfold Ckl.evalItems; exact Sim.failM _)
    | (unfold Ckl.evalPairs; exact Sim.failM _)
    | (unfold Ckl.evalBody; exact Sim.failM _)
    | (unfold Ckl.evalFinally; exact Sim.failM _)
    | (unfold Ckl.tryHandlers; exact Sim.failM _)
    | (unfold Ckl.evalFor; exact Sim.failM _)
    | (unfold Ckl.forItems; exact Sim.failM _)
    | (unfold Ckl.forListLive; exact Sim.failM _)
    | (unfold Ckl.forString; exact Sim.failM _)
    | (unfold Ckl.whileLoop; exact Sim.failM _)
    | (unfold Ckl.comprStep; exact Sim.failM _)
    | (unfold Ckl.comprLoop; exact Sim.failM _)
    | (unfold Ckl.comprProduct; exact Sim.failM _)
    | (unfold Ckl.comprParallel; exact Sim.failM _)

/-- discharge a call-freeness side goal from the hypotheses in the context -/
macro "cf_tac" : tactic => `(tactic| first | assumption | (simp only [*]) | (simp_all [cfN, cfL]))

/-- apply the induction hypothesis -/
syntax "ih_step" : tactic
set_option hygiene false in
macro_rules | `(tactic| ih_step) => `(tactic| first
  | ((with_reducible refine SAll.eval ih _ _ ?_) <;> cf_tac)
  | ((with_reducible refine SAll.evalAnd ih _ _ _ ?_) <;> cf_tac)
  | ((with_reducible refine SAll.evalOr ih _ _ _ ?_) <;> cf_tac)
  | ((with_reducible refine SAll.evalIf ih _ _ _ _ _ ?_ ?_ ?_) <;> cf_tac)
  | ((with_reducible refine SAll.evalSeq ih _ _ ?_) <;> cf_tac)
  | ((with_reducible refine SAll.evalItems ih _ _ _ ?_) <;> cf_tac)
  | ((with_reducible refine SAll.evalPairs ih _ _ _ ?_ ?_) <;> cf_tac)
  | ((with_reducible refine SAll.evalBody ih _ _ _ ?_) <;> cf_tac)
  | ((with_reducible refine SAll.evalFinally ih _ _ ?_) <;> cf_tac)
  | ((with_reducible refine SAll.tryHandlers ih _ _ _ _ _ _ _ ?_ ?_) <;> cf_tac)
  | ((with_reducible refine SAll.evalFor ih _ _ _ _ _ _ ?_ ?_) <;> cf_tac)
  | ((with_reducible refine SAll.forItems ih _ _ _ _ _ _ ?_) <;> cf_tac)
  | ((with_reducible refine SAll.forListLive ih _ _ _ _ _ _ _ ?_) <;> cf_tac)
  | ((with_reducible refine SAll.forString ih _ _ _ _ _ ?_) <;> cf_tac)
  | ((with_reducible refine SAll.whileLoop ih _ _ _ _ ?_ ?_) <;> cf_tac)
  | ((with_reducible refine SAll.comprStep ih _ _ _ _ _ _ ?_ ?_ ?_) <;> cf_tac)
  | ((with_reducible refine SAll.comprLoop ih _ _ _ _ _ _ _ _ ?_ ?_ ?_) <;> cf_tac)
  | ((with_reducible refine SAll.comprProduct ih _ _ _ _ _ _ _ _ _ _ _ ?_ ?_ ?_) <;> cf_tac)
  | ((with_reducible refine SAll.comprParallel ih _ _ _ _ _ _ _ _ _ _ _ ?_ ?_ ?_) <;> cf_tac))

macro "sim!" : tactic => `(tactic| repeat' (first | ih_step | (with_reducible apply mapM_sim) | sim_cell | sim_step))

variable {ld : Loader} {fuel : Nat}

/-! ### the list-walking functions -/

theorem evalAnd_step (ih : SAll ld fuel) (env : EnvId) (es : List Node) (p : Pos) (hcf : cfL es = true) :
    Sim (evalAnd ld (fuel + 1) env es p) (evalAnd ld (fuel + 1) env es p) := by
  cases es <;> simp only [cfL, Bool.and_eq_true] at hcf <;> unfold Ckl.evalAnd <;> sim!

theorem evalOr_step (ih : SAll ld fuel) (env : EnvId) (es : List Node) (p : Pos) (hcf : cfL es = true) :
    Sim (evalOr ld (fuel + 1) env es p) (evalOr ld (fuel + 1) env es p) := by
  cases es <;> simp only [cfL, Bool.and_eq_true] at hcf <;> unfold Ckl.evalOr <;> sim!

theorem evalIf_step (ih : SAll ld fuel) (env : EnvId) (cs xs : List Node) (el : Node) (p : Pos)
    (h1 : cfL cs = true) (h2 : cfL xs = true) (h3 : cfN el = true) :
    Sim (evalIf ld (fuel + 1) env cs xs el p) (evalIf ld (fuel + 1) env cs xs el p) := by
  cases cs <;> cases xs <;> simp only [cfL, Bool.and_eq_true] at h1 h2 <;> unfold Ckl.evalIf <;> sim!

theorem evalSeq_step (ih : SAll ld fuel) (env : EnvId) (ns : List Node) (hcf : cfL ns = true) :
    Sim (evalSeq ld (fuel + 1) env ns) (evalSeq ld (fuel + 1) env ns) := by
  cases ns <;> simp only [cfL, Bool.and_eq_true] at hcf <;> unfold Ckl.evalSeq <;> sim!

theorem evalItems_step (ih : SAll ld fuel) (env : EnvId) (ns : List Node) (p : Pos) (hcf : cfL ns = true) :
    Sim (evalItems ld (fuel + 1) env ns p) (evalItems ld (fuel + 1) env ns p) := by
  cases ns with
  | nil => unfold Ckl.evalItems; sim!
  | cons n ns =>
    simp only [cfL, Bool.and_eq_true] at hcf
    unfold Ckl.evalItems
    cases n <;> simp only [cfN, Bool.and_eq_true, Bool.false_eq_true, false_and] at hcf <;> sim!

theorem evalPairs_step (ih : SAll ld fuel) (env : EnvId) (ks vs : List Node) (h1 : cfL ks = true) (h2 : cfL vs = true) :
    Sim (evalPairs ld (fuel + 1) env ks vs) (evalPairs ld (fuel + 1) env ks vs) := by
  cases ks <;> cases vs <;> simp only [cfL, Bool.and_eq_true] at h1 h2 <;> unfold Ckl.evalPairs <;> sim!

theorem evalBody_step (ih : SAll ld fuel) (env : EnvId) (ns : List Node) (l : RVal) (hcf : cfL ns = true) :
    Sim (evalBody ld (fuel + 1) env ns l) (evalBody ld (fuel + 1) env ns l) := by
  cases ns <;> simp only [cfL, Bool.and_eq_true] at hcf <;> unfold Ckl.evalBody <;> sim!

theorem evalFinally_step (ih : SAll ld fuel) (env : EnvId) (ns : List Node) (hcf : cfL ns = true) :
    Sim (evalFinally ld (fuel + 1) env ns) (evalFinally ld (fuel + 1) env ns) := by
  cases ns <;> simp only [cfL, Bool.and_eq_true] at hcf <;> unfold Ckl.evalFinally <;> sim!

theorem Sim.errOut {α} (v : RVal) (msg : String) (p : Pos) (t : List (String × Pos)) :
    Sim (fun s => (.err v msg p t s : Out α)) (fun s => .err v msg p t s) :=
  ⟨fun _ _ h => ⟨rfl, rfl, rfl, rfl, h⟩⟩

theorem tryHandlers_step (ih : SAll ld fuel) (env : EnvId) (cs hs : List Node) (v : RVal) (msg : String) (p : Pos)
    (t : List (String × Pos)) (h1 : cfL cs = true) (h2 : cfL hs = true) :
    Sim (tryHandlers ld (fuel + 1) env cs hs v msg p t) (tryHandlers ld (fuel + 1) env cs hs v msg p t) := by
  cases cs <;> cases hs <;> simp only [cfL, Bool.and_eq_true] at h1 h2 <;> unfold Ckl.tryHandlers <;>
    first | (with_reducible exact Sim.errOut _ _ _ _) | sim!

/-! ### loops -/

theorem forItems_step (ih : SAll ld fuel) (env : EnvId) (ids : List String) (xs : List RVal) (body : Node) (r : RVal)
    (p : Pos) (hcf : cfN body = true) :
    Sim (forItems ld (fuel + 1) env ids xs body r p) (forItems ld (fuel + 1) env ids xs body r p) := by
  cases xs <;> unfold Ckl.forItems <;> sim!

theorem forListLive_step (ih : SAll ld fuel) (env : EnvId) (ids : List String) (a i : Nat) (body : Node) (r : RVal)
    (p : Pos) (hcf : cfN body = true) :
    Sim (forListLive ld (fuel + 1) env ids a i body r p) (forListLive ld (fuel + 1) env ids a i body r p) := by
  unfold Ckl.forListLive
  apply Sim.getS_bind
  intro s t hst
  rcases (hst.cell a).cases with e | ⟨xs, ys, e1, e2, -, -⟩ | ⟨xs, ys, e1, e2, -, -⟩
  · rw [e]; sim!
  · rw [e1, e2]; sim!
  · rw [e1, e2]; sim!

theorem forString_step (ih : SAll ld fuel) (env : EnvId) (x : String) (cs : List Char) (body : Node) (r : RVal)
    (hcf : cfN body = true) :
    Sim (forString ld (fuel + 1) env x cs body r) (forString ld (fuel + 1) env x cs body r) := by
  cases cs <;> unfold Ckl.forString <;> sim!

theorem whileLoop_step (ih : SAll ld fuel) (env : EnvId) (c body : Node) (p : Pos) (h1 : cfN c = true)
    (h2 : cfN body = true) :
    Sim (whileLoop ld (fuel + 1) env c body p) (whileLoop ld (fuel + 1) env c body p) := by
  unfold Ckl.whileLoop; sim!

theorem evalFor_step (ih : SAll ld fuel) (env : EnvId) (ids : List String) (e body : Node) (what : String) (p : Pos)
    (h1 : cfN e = true) (h2 : cfN body = true) :
    Sim (evalFor ld (fuel + 1) env ids e body what p) (evalFor ld (fuel + 1) env ids e body what p) := by
  unfold Ckl.evalFor; sim!

/-! ### comprehensions -/

theorem comprStep_step (ih : SAll ld fuel) (lenv : EnvId) (kind : ComprKind) (ve ke cond : Node) (p : Pos)
    (h1 : cfN ve = true) (h2 : cfN ke = true) (h3 : cfN cond = true) :
    Sim (comprStep ld (fuel + 1) lenv kind ve ke cond p) (comprStep ld (fuel + 1) lenv kind ve ke cond p) := by
  unfold Ckl.comprStep; sim!

theorem comprLoop_step (ih : SAll ld fuel) (lenv : EnvId) (kind : ComprKind) (ve ke cond : Node) (p : Pos)
    (l : List (String × List RVal)) (acc : List (RVal × RVal))
    (h1 : cfN ve = true) (h2 : cfN ke = true) (h3 : cfN cond = true) :
    Sim (comprLoop ld (fuel + 1) lenv kind ve ke cond p l acc) (comprLoop ld (fuel + 1) lenv kind ve ke cond p l acc) := by
  rcases l with _ | ⟨⟨x, _ | ⟨v, vs⟩⟩, _ | ⟨y, l⟩⟩ <;> unfold Ckl.comprLoop <;> sim!

theorem comprProduct_step (ih : SAll ld fuel) (lenv : EnvId) (kind : ComprKind) (ve ke cond : Node) (p : Pos)
    (x1 : String) (vs : List RVal) (x2 : String) (ws : List RVal) (acc : List (RVal × RVal))
    (h1 : cfN ve = true) (h2 : cfN ke = true) (h3 : cfN cond = true) :
    Sim (comprProduct ld (fuel + 1) lenv kind ve ke cond p x1 vs x2 ws acc)
      (comprProduct ld (fuel + 1) lenv kind ve ke cond p x1 vs x2 ws acc) := by
  cases vs <;> unfold Ckl.comprProduct <;> sim!

theorem comprParallel_step (ih : SAll ld fuel) (lenv : EnvId) (kind : ComprKind) (ve ke cond : Node) (p : Pos)
    (x1 : String) (vs : List RVal) (x2 : String) (ws : List RVal) (acc : List (RVal × RVal))
    (h1 : cfN ve = true) (h2 : cfN ke = true) (h3 : cfN cond = true) :
    Sim (comprParallel ld (fuel + 1) lenv kind ve ke cond p x1 vs x2 ws acc)
      (comprParallel ld (fuel + 1) lenv kind ve ke cond p x1 vs x2 ws acc) := by
  cases vs <;> cases ws <;> unfold Ckl.comprParallel <;> sim!

end Ckl.C12S
