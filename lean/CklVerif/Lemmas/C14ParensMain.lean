/-
  C14 (redundant parentheses) — assembling the 51 extension lemmas by well-founded induction on the
  parser's own termination measure.
-/
import CklVerif.Lemmas.C14ParensSimA
import CklVerif.Lemmas.C14ParensSimB
import CklVerif.Lemmas.C14ParensSimC
import CklVerif.Lemmas.C14ParensSimD
import CklVerif.Lemmas.C14ParensSimE
namespace Ckl.C14X
open Ckl Ckl.Parser

/-- every production of the parser is stable under appending a stopper (and anything after it) -/
theorem hyp_all (x : Ext) : ∀ k, Hyp x k := by
  intro k
  induction k using Nat.strongRecOn with
  | _ k ih =>
    exact {
      pBareBlock := fun tl hc hs hk => sim_pBareBlock tl (ih _ hk) hc hs
      bareLoop := fun hc hs hk => sim_bareLoop (ih _ hk) hc hs
      pBlock := fun hc hs hk => sim_pBlock (ih _ hk) hc hs
      blockLoop := fun hc hs hk => sim_blockLoop (ih _ hk) hc hs
      catchLoop := fun hc hs hk => sim_catchLoop (ih _ hk) hc hs
      finallyLoop := fun hc hs hk => sim_finallyLoop (ih _ hk) hc hs
      pStatement := fun hc hs hk => sim_pStatement (ih _ hk) hc hs
      pDef := fun comment hc hs hk => sim_pDef comment (ih _ hk) hc hs
      pDefTail := fun name comment pos hc hs hk => sim_pDefTail name comment pos (ih _ hk) hc hs
      classLoop := fun comment hc hs hk => sim_classLoop comment (ih _ hk) hc hs
      pExpression := fun hc hs hk => sim_pExpression (ih _ hk) hc hs
      ifClause := fun hc hs hk => sim_ifClause (ih _ hk) hc hs
      ifLoop := fun hc hs hk => sim_ifLoop (ih _ hk) hc hs
      pOr := fun hc hs hk => sim_pOr (ih _ hk) hc hs
      orLoop := fun hc hs hk => sim_orLoop (ih _ hk) hc hs
      pAnd := fun hc hs hk => sim_pAnd (ih _ hk) hc hs
      andLoop := fun hc hs hk => sim_andLoop (ih _ hk) hc hs
      pNot := fun hc hs hk => sim_pNot (ih _ hk) hc hs
      pRel := fun hc hs hk => sim_pRel (ih _ hk) hc hs
      relLoop := fun hc hs hk => sim_relLoop (ih _ hk) hc hs
      pAdd := fun hc hs hk => sim_pAdd (ih _ hk) hc hs
      addLoop := fun hc hs hk => sim_addLoop (ih _ hk) hc hs
      pMul := fun hc hs hk => sim_pMul (ih _ hk) hc hs
      mulLoop := fun hc hs hk => sim_mulLoop (ih _ hk) hc hs
      pUnary := fun hc hs hk => sim_pUnary (ih _ hk) hc hs
      pPred := fun um hc hs hk => sim_pPred um (ih _ hk) hc hs
      applyIsPred := fun p pos hc hs hk => sim_applyIsPred p pos (ih _ hk) hc hs
      pCollectMinMax := fun fn pos hc hs hk => sim_pCollectMinMax fn pos (ih _ hk) hc hs
      optPrimary := fun word hw hc hs hk => sim_optPrimary word hw (ih _ hk) hc hs
      pPrimary := fun um hc hs hk => sim_pPrimary um (ih _ hk) hc hs
      pPrimaryKw := fun t hc hs hk => sim_pPrimaryKw t (ih _ hk) hc hs
      pListLiteral := fun tpos hc hs hk => sim_pListLiteral tpos (ih _ hk) hc hs
      listLoop := fun hc hs hk => sim_listLoop (ih _ hk) hc hs
      comprClause := fun hc hs hk => sim_comprClause (ih _ hk) hc hs
      pComprRest := fun kind multi closer tpos hc hs hk =>
        sim_pComprRest kind multi closer tpos (ih _ hk) hc hs
      comprFinish := fun closer hc hs hk => sim_comprFinish closer (ih _ hk) hc hs
      pSetLiteral := fun tpos hc hs hk => sim_pSetLiteral tpos (ih _ hk) hc hs
      setLoop := fun hc hs hk => sim_setLoop (ih _ hk) hc hs
      pMapLiteral := fun tpos hc hs hk => sim_pMapLiteral tpos (ih _ hk) hc hs
      mapLoop := fun hc hs hk => sim_mapLoop (ih _ hk) hc hs
      pObjectLiteral := fun tpos hc hs hk => sim_pObjectLiteral tpos (ih _ hk) hc hs
      objLoop := fun ks hc hs hk => sim_objLoop ks (ih _ hk) hc hs
      pFn := fun pos hc hs hk => sim_pFn pos (ih _ hk) hc hs
      paramsLoop := fun ps hc hs hk => sim_paramsLoop ps (ih _ hk) hc hs
      invokeBody := fun hc hs hk => sim_invokeBody (ih _ hk) hc hs
      argsLoop := fun names hc hs hk => sim_argsLoop names (ih _ hk) hc hs
      derefArrow := fun hc hs hk => sim_derefArrow (ih _ hk) hc hs
      derefBracket := fun hc hs hk => sim_derefBracket (ih _ hk) hc hs
      postfixLoop := fun ac ad hc hs hk => sim_postfixLoop ac ad (ih _ hk) hc hs }


/-- the induction hypothesis with no bound: usable for every lexer state -/
theorem hyp_at (x : Ext) (n : Nat) : Hyp x (n * 16 + 16) := hyp_all x _

end Ckl.C14X
