/-
  Layer 2 — parser, part 1: the token-stream helpers of `src/ckl/lexer.py`
  (`hasNext, next, peek, eat, getPos, getPosNext, getPosEnd, peekn, peekOne,
  matchIf, match, matchIdentifier`), literal conversion (`int(..)`, `float(..)`),
  error construction, and the pure (non-recursive) pieces of `src/ckl/parser.py`.

  The "lexer object" of the Python code is modelled by
    * `St`  : the remaining tokens and the position of the previously consumed token
              (`getPos()`; at `nextToken == 0` this is the first token's position);
    * `Ctx` : the position of the last token (`getPosEnd()`) and the regex validity oracle.
  `lexer.previous()` is modelled by keeping the earlier `St` (look-ahead without consuming).
-/
import CklVerif.Model.Ast
namespace Ckl
namespace Parser

/-- `c!"abc"` is the explicit character list `['a','b','c']` (expanded at elaboration time) -/
scoped macro:max "c!" s:str : term => do
  let cs := s.getString.toList
  let elems : Array (Lean.TSyntax `term) := cs.toArray.map fun c => ⟨(Lean.Syntax.mkCharLit c).raw⟩
  `([$elems,*])

/-- the termination measure of the parser is `(remaining tokens, rank)`, ordered lexicographically -/
theorem lexLt {a b r1 r2 : Nat} (h : a < b ∨ (a = b ∧ r1 < r2)) :
    Prod.Lex (fun a₁ a₂ : Nat => a₁ < a₂) (fun a₁ a₂ : Nat => a₁ < a₂) (a, r1) (b, r2) := by
  rcases h with h | ⟨h, h'⟩
  · exact Prod.Lex.left _ _ h
  · subst h; exact Prod.Lex.right _ h'

/-! ### errors -/

def eofMsg : String := "Unexpected end of input"

/-- `SynErr.eof` is set exactly for the messages "Unexpected end of input…" -/
def eofFlag (msg : String) : Bool := msg.startsWith eofMsg

/-- a syntax error whose message is not empty and whose `eof` flag is the one of its message -/
abbrev PErr := { e : SynErr // e.msg ≠ "" ∧ e.eof = eofFlag e.msg }

/-- all error sites go through `mkErr` (an empty message would be replaced by a default text) -/
def mkErr (msg : String) (pos : Pos) : PErr :=
  if h : msg = "" then ⟨⟨"syntax error", pos, eofFlag "syntax error"⟩, (by decide : ("syntax error" : String) ≠ ""), rfl⟩
  else ⟨⟨msg, pos, eofFlag msg⟩, h, rfl⟩

def errEof (pos : Pos) : PErr := mkErr eofMsg pos

theorem mkErr_msg_ne (msg : String) (pos : Pos) : (mkErr msg pos).val.msg ≠ "" := (mkErr msg pos).property.1

/-- (historical) message prefix that marked the one place where the pinned parser.py died with a
    host exception (`[x for x in y] = 3` → AttributeError); repaired in /repo by 8a1e95e, the model
    now reports the repaired syntax error -/
def hostPrefix : String := "HOST AttributeError"

/-! ### lexer state -/

structure St where
  prev : Pos
  toks : List Token
deriving Inhabited

structure Ctx where
  endPos : Pos
  validRe : List Char → Bool

/-- `Token.__repr__` -/
def tokRepr (t : Token) : String := String.ofList (escapeStr t.value) ++ " (" ++ t.type.name ++ ")"

def str (cs : List Char) : String := String.ofList cs

/-- a result together with the new lexer state, which has strictly fewer tokens than `n` -/
structure OutLt (α : Type) (n : Nat) where
  val : α
  st : St
  h : st.toks.length < n

/-- a result together with the new lexer state, which has at most `n` tokens -/
structure OutLe (α : Type) (n : Nat) where
  val : α
  st : St
  h : st.toks.length ≤ n

abbrev R (α : Type) (n : Nat) := Except PErr (OutLt α n)
abbrev Rle (α : Type) (n : Nat) := Except PErr (OutLe α n)

def wkLt {α : Type} {m n : Nat} (h : m ≤ n) : R α m → R α n
  | .ok o => .ok ⟨o.val, o.st, Nat.lt_of_lt_of_le o.h h⟩
  | .error e => .error e

def wkLe {α : Type} {m n : Nat} (h : m ≤ n) : Rle α m → Rle α n
  | .ok o => .ok ⟨o.val, o.st, Nat.le_trans o.h h⟩
  | .error e => .error e

def ltLe {α : Type} {m n : Nat} (h : m ≤ n) : R α m → Rle α n
  | .ok o => .ok ⟨o.val, o.st, Nat.le_of_lt (Nat.lt_of_lt_of_le o.h h)⟩
  | .error e => .error e

def leLt {α : Type} {m n : Nat} (h : m < n) : Rle α m → R α n
  | .ok o => .ok ⟨o.val, o.st, Nat.lt_of_le_of_lt o.h h⟩
  | .error e => .error e

namespace St

def hasNext (s : St) : Bool := !s.toks.isEmpty

/-- `getPos()` -/
def pos (s : St) : Pos := s.prev

/-- `getPosNext()` -/
def posNext (s : St) : Pos :=
  match s.toks with
  | t :: _ => t.pos
  | [] => s.prev

def tokIs (t : Token) (v : List Char) (ty : Option TokType) : Bool :=
  match ty with
  | none => t.value == v && (t.type == .identifier || t.type == .keyword)
  | some ty => t.value == v && t.type == ty

/-- `peekn(n, token, tokentype)` (n ≥ 1) -/
def peekn (s : St) (n : Nat) (v : List Char) (ty : Option TokType) : Bool :=
  match s.toks[n - 1]? with
  | some t => tokIs t v ty
  | none => false

/-- `peekOne(1, tokens, tokentype)` -/
def peekOne (s : St) (vs : List (List Char)) (ty : Option TokType) : Bool :=
  vs.any fun v => s.peekn 1 v ty

/-- `next()` -/
def next (c : Ctx) (s : St) : R Token s.toks.length :=
  match h : s.toks with
  | [] => .error (errEof c.endPos)
  | t :: rest => .ok ⟨t, ⟨t.pos, rest⟩, by simp⟩

/-- `peek()` -/
def peek (c : Ctx) (s : St) : Except PErr Token :=
  match s.toks with
  | [] => .error (errEof c.endPos)
  | t :: _ => .ok t

/-- `matchIf(token, tokentype)` with a single token -/
def matchIf (s : St) (v : List Char) (ty : Option TokType) : Option { s' : St // s'.toks.length < s.toks.length } :=
  match h : s.toks with
  | [] => none
  | t :: rest => if tokIs t v ty then some ⟨⟨t.pos, rest⟩, by simp⟩ else none

/-- `matchIf([v1, v2], [ty1, ty2])` -/
def matchIf2 (s : St) (v1 : List Char) (ty1 : Option TokType) (v2 : List Char) (ty2 : Option TokType) :
    Option { s' : St // s'.toks.length < s.toks.length } :=
  match h : s.toks with
  | t1 :: t2 :: rest =>
    if tokIs t1 v1 ty1 && tokIs t2 v2 ty2 then some ⟨⟨t2.pos, rest⟩, by simp; omega⟩ else none
  | _ => none

/-- `matchIf([v1, v2, v3], [ty1, ty2, ty3])` -/
def matchIf3 (s : St) (v1 : List Char) (ty1 : Option TokType) (v2 : List Char) (ty2 : Option TokType)
    (v3 : List Char) (ty3 : Option TokType) : Option { s' : St // s'.toks.length < s.toks.length } :=
  match h : s.toks with
  | t1 :: t2 :: t3 :: rest =>
    if tokIs t1 v1 ty1 && tokIs t2 v2 ty2 && tokIs t3 v3 ty3 then some ⟨⟨t3.pos, rest⟩, by simp; omega⟩ else none
  | _ => none

/-- `if peekn(1, v, ty): eat(1)` -/
def skipIf (s : St) (v : List Char) (ty : Option TokType) : { s' : St // s'.toks.length ≤ s.toks.length } :=
  match s.matchIf v ty with
  | some ⟨s', h⟩ => ⟨s', Nat.le_of_lt h⟩
  | none => ⟨s, Nat.le_refl _⟩

/-- `match(token, tokentype)` -/
def expect (s : St) (v : List Char) (ty : TokType) : Except PErr { s' : St // s'.toks.length < s.toks.length } :=
  match h : s.toks with
  | [] => .error (errEof s.prev)
  | t :: rest =>
    if t.value != v || t.type != ty then
      .error (mkErr ("Expected " ++ str v ++ " but got " ++ tokRepr t) t.pos)
    else .ok ⟨⟨t.pos, rest⟩, by simp⟩

/-- `matchIdentifier()` -/
def matchIdentifier (s : St) : R (List Char) s.toks.length :=
  match h : s.toks with
  | [] => .error (errEof s.prev)
  | t :: rest =>
    if t.type != .identifier then .error (mkErr ("Expected identifier but got " ++ tokRepr t) t.pos)
    else .ok ⟨t.value, ⟨t.pos, rest⟩, by simp⟩

end St

/-! ### checks of parser.py / nodes.py -/

def checkRedefineKeyword (t : Token) : Except PErr Unit :=
  if t.type == .keyword then .error (mkErr ("Cannot redefine keyword '" ++ tokRepr t ++ "'") t.pos) else .ok ()

def checkExpectedIdentifier (t : Token) : Except PErr Unit :=
  if t.type != .identifier then .error (mkErr ("Expected identifier but got '" ++ tokRepr t ++ "'") t.pos) else .ok ()

def sysPrefix : List Char := c!"checkerlang_"

/-- `NodeAssign.__init__` -/
def mkAssign (name : List Char) (e : Node) (pos : Pos) : Except PErr Node :=
  if sysPrefix.isPrefixOf name then .error (mkErr ("Cannot assign to system variable " ++ str name) pos)
  else .ok (.assign (str name) e pos)

/-- `NodeAssignDestructuring.__init__` -/
def mkAssignD (names : List String) (e : Node) (pos : Pos) : Except PErr Node :=
  match names.find? (fun n => sysPrefix.isPrefixOf n.toList) with
  | some n => .error (mkErr ("Cannot assign to system variable " ++ n) pos)
  | none => .ok (.assignD names e pos)

/-! ### `func_call*` -/

def funcCall1 (fn : String) (a : String) (ea : Node) (pos : Pos) : Node :=
  .call (.ident fn pos) [some a] [ea] pos

def funcCall2 (fn : String) (a : String) (ea : Node) (b : String) (eb : Node) (pos : Pos) : Node :=
  .call (.ident fn pos) [some a, some b] [ea, eb] pos

def funcCall3 (fn : String) (a : String) (ea : Node) (b : String) (eb : Node) (c : String) (ec : Node) (pos : Pos) : Node :=
  .call (.ident fn pos) [some a, some b, some c] [ea, eb, ec] pos

/-- `func_call(fn, exprA, exprB, pos)` with `exprB` given -/
def funcCallAB (fn : String) (ea eb : Node) (pos : Pos) : Node := funcCall2 fn "a" ea "b" eb pos

/-- `func_call(fn, exprA, None, pos)` -/
def funcCallObj (fn : String) (ea : Node) (pos : Pos) : Node := funcCall1 fn "obj" ea pos

def strLit (s : List Char) (pos : Pos) : Node := .lit (.str s) pos

/-! ### `return` unwrapping (`parse`, `NodeLambda.setBody`) -/

/-- `lastexpr.expression or NodeNull(lastexpr.pos)`: the operand of a final `return`; a bare `return;` is NULL -/
def returnOperand (e : Node) (p : Pos) : Node :=
  match e with
  | .absent => .null p
  | e => e

/-- replace a trailing `NodeReturn` of a list of expressions by its expression -/
def unwrapLastReturn : List Node → List Node
  | [] => []
  | [.ret e p] => [returnOperand e p]
  | [x] => [x]
  | x :: y :: rest => x :: unwrapLastReturn (y :: rest)

/-- the common part of `parse` and `NodeLambda.setBody` -/
def unwrapReturn : Node → Node
  | .block es ce ch fin tl p => .block (unwrapLastReturn es) ce ch fin tl p
  | .ret e p => returnOperand e p
  | n => n

/-- `if len(exprs) == 1 and not hasFinally and not hasCatch: return exprs[0]` -/
def simplifyBlock (es ce ch fin : List Node) (toplevel : Bool) (pos : Pos) : Node :=
  match es, ce, fin with
  | [e], [], [] => e
  | _, _, _ => .block es ce ch fin toplevel pos

/-- `symbols[symbol] = symbolname` on an insertion-ordered dict -/
def dictSet (d : List (String × String)) (k v : String) : List (String × String) :=
  if d.any (fun kv => kv.1 == k) then d.map (fun kv => if kv.1 == k then (k, v) else kv)
  else d ++ [(k, v)]

/-! ### literal conversion -/

def isDigit (c : Char) : Bool := '0' ≤ c && c ≤ '9'

def digitsVal (cs : List Char) : Nat := cs.foldl (fun acc c => acc * 10 + (c.toNat - 48)) 0

/-- `int(token.value)` for a decimal numeral; `none` = `ValueError`.  More than 4300 digits hit
    CPython's int-string conversion limit. -/
def parseIntLit (cs : List Char) : Option Nat :=
  if cs.isEmpty || !cs.all isDigit || cs.length > 4300 then none else some (digitsVal cs)

/-- round-half-even quotient -/
def divRoundEven (a b : Nat) : Nat :=
  let q := a / b
  let r := a % b
  if 2 * r > b || (2 * r == b && q % 2 == 1) then q + 1 else q

/-- strip common factors of two: `m / 2^e` normalised so that `m` is odd or `e = 0` -/
def normDyadic : Nat → Nat → Nat × Nat
  | m, 0 => (m, 0)
  | m, e + 1 => if m % 2 == 0 then normDyadic (m / 2) e else (m, e + 1)

/-- the IEEE binary64 value nearest (ties to even) to `num / den` (`den > 0`) as an exact dyadic
    `m / 2^e`; `none` when the result overflows to infinity -/
def nearestDouble (num den : Nat) : Option (Nat × Nat) :=
  if num == 0 then some (0, 0) else
  -- floor(log2(num/den)) is `d` or `d - 1`
  let d : Int := (Nat.log2 num : Int) - (Nat.log2 den : Int)
  let ge (k : Int) : Bool :=           -- num/den ≥ 2^k
    if k ≥ 0 then num ≥ den * 2 ^ k.toNat else num * 2 ^ (-k).toNat ≥ den
  let fl : Int := if ge d then d else d - 1
  -- exponent of the unit in the last place, clamped at the subnormal range
  let x : Int := max (fl - 52) (-1074)
  let a := if x < 0 then num * 2 ^ (-x).toNat else num
  let b := if x < 0 then den else den * 2 ^ x.toNat
  let q := divRoundEven a b
  if x ≥ 0 then
    let v := q * 2 ^ x.toNat
    if v ≥ 2 ^ 1024 then none else some (v, 0)
  else some (normDyadic q (-x).toNat)

/-- `float(token.value)` for a token `digits '.' digits` (the only shape the scanner produces) -/
def parseDecimal (cs : List Char) : Option (Int × Nat) :=
  let ip := cs.takeWhile isDigit
  match cs.dropWhile isDigit with
  | '.' :: fp =>
    if ip.isEmpty || !fp.all isDigit then none
    else match nearestDouble (digitsVal (ip ++ fp)) (10 ^ fp.length) with
      | some (m, e) => some ((m : Int), e)
      | none => none
  | _ => none

/-! ### the `is [not] P` predicate table of `parse_pred_expr` -/

inductive IsPred where
  | isIn                                   -- `in`
  | simple (fn : String)                   -- is_empty / is_zero / is_negative
  | minmax (fn : String)                   -- is_numerical / is_alphanumerical (+ min_len/max_len/exact_len)
  | valid (fn : String) (fmt : List Char)  -- is_valid_date / is_valid_time
  | type (name : List Char)                -- type(x) == 'name'

/-- the type names tested after `date`/`time`, in the order of the `elif` chain (the second
    `date` arm of parser.py is unreachable because `date` is matched earlier) -/
def typePreds : List (List Char) :=
  [c!"string", c!"int", c!"decimal", c!"boolean", c!"pattern", c!"date", c!"None", c!"func", c!"input",
   c!"output", c!"list", c!"set", c!"map", c!"object", c!"node"]

def matchFirstIdent (s : St) : List (List Char) → Option (List Char × { s' : St // s'.toks.length < s.toks.length })
  | [] => none
  | v :: vs =>
    match s.matchIf v (some .identifier) with
    | some s' => some (v, s')
    | none => matchFirstIdent s vs

/-- the `elif lexer.matchIf(..)` chain after `is` (`negated = false`) or `is not` (`negated = true`) -/
def isPredTable (s : St) (negated : Bool) : Option (IsPred × { s' : St // s'.toks.length < s.toks.length }) :=
  let i := some TokType.identifier
  match s.matchIf c!"in" (if negated then none else some .keyword) with
  | some s' => some (.isIn, s')
  | none =>
  match s.matchIf c!"empty" i with
  | some s' => some (.simple "is_empty", s')
  | none =>
  match s.matchIf c!"zero" i with
  | some s' => some (.simple "is_zero", s')
  | none =>
  match s.matchIf c!"negative" i with
  | some s' => some (.simple "is_negative", s')
  | none =>
  match s.matchIf c!"numerical" i with
  | some s' => some (.minmax "is_numerical", s')
  | none =>
  match s.matchIf c!"alphanumerical" i with
  | some s' => some (.minmax "is_alphanumerical", s')
  | none =>
  match s.matchIf3 c!"date" i c!"with" i c!"hour" i with
  | some s' => some (.valid "is_valid_date" c!"yyyyMMddHH", s')
  | none =>
  match s.matchIf c!"date" i with
  | some s' => some (.valid "is_valid_date" c!"yyyyMMdd", s')
  | none =>
  match s.matchIf c!"time" i with
  | some s' => some (.valid "is_valid_time" c!"HHmm", s')
  | none =>
  match matchFirstIdent s typePreds with
  | some (v, s') => some (.type v, s')
  | none => none

/-- the compound assignment operators -/
def compoundOps : List (List Char × String) :=
  [(c!"+=", "add"), (c!"-=", "sub"), (c!"*=", "mul"), (c!"/=", "div"), (c!"%=", "mod")]

/-- `if matchIf(v1, "operator") … elif matchIf(v2, "operator") …` over a table `(v, fn)` -/
def matchOpTable (s : St) : List (List Char × String) → Option (String × { s' : St // s'.toks.length < s.toks.length })
  | [] => none
  | (v, fn) :: rest =>
    match s.matchIf v (some .operator) with
    | some s' => some (fn, s')
    | none => matchOpTable s rest

def addOps : List (List Char × String) := [(c!"+", "add"), (c!"-", "sub")]
def mulOps : List (List Char × String) := [(c!"*", "mul"), (c!"/", "div"), (c!"%", "mod")]

/-- `elif lexer.matchIf(["]", "+="], ["interpunction", "operator"]) …` -/
def matchBracketCompound (s : St) : Option (String × { s' : St // s'.toks.length < s.toks.length }) :=
  go compoundOps
where go : List (List Char × String) → Option (String × { s' : St // s'.toks.length < s.toks.length })
  | [] => none
  | (v, fn) :: rest =>
    match s.matchIf2 c!"]" (some .interpunction) v (some .operator) with
    | some s' => some (fn, s')
    | none => go rest

/-- `what = None; if matchIf("keys") … elif matchIf("values") … elif matchIf("entries") …` -/
def matchWhat (s : St) : Option String × { s' : St // s'.toks.length ≤ s.toks.length } :=
  match s.matchIf c!"keys" (some .identifier) with
  | some ⟨s', h⟩ => (some "keys", ⟨s', Nat.le_of_lt h⟩)
  | none =>
  match s.matchIf c!"values" (some .identifier) with
  | some ⟨s', h⟩ => (some "values", ⟨s', Nat.le_of_lt h⟩)
  | none =>
  match s.matchIf c!"entries" (some .identifier) with
  | some ⟨s', h⟩ => (some "entries", ⟨s', Nat.le_of_lt h⟩)
  | none => (none, ⟨s, Nat.le_refl _⟩)

/-- `if not peekn(1, closer, "interpunction"): match(",", "interpunction")` -/
def sepUnless (s : St) (closer : List Char) : Except PErr { s' : St // s'.toks.length ≤ s.toks.length } :=
  if s.peekn 1 closer (some .interpunction) then .ok ⟨s, Nat.le_refl _⟩
  else match s.expect c!"," .interpunction with
    | .ok ⟨s', h⟩ => .ok ⟨s', Nat.le_of_lt h⟩
    | .error e => .error e

/-- the string literal directly before `def` becomes the info text of the definition -/
def takeComment (st : St) : List Char × { s : St // s.toks.length ≤ st.toks.length } :=
  match h : st.toks with
  | t :: rest =>
    if t.type == .string && st.peekn 2 c!"def" (some .keyword) then (t.value, ⟨⟨t.pos, rest⟩, by simp⟩)
    else ([], ⟨st, by simp [h]⟩)
  | [] => ([], ⟨st, by simp [h]⟩)

/-- `peekn(1,"end") or peekn(1,"catch") or peekn(1,"finally")` -/
def isEndCatchFinally (s : St) : Bool :=
  s.peekn 1 c!"end" (some .keyword) || s.peekn 1 c!"catch" (some .keyword) || s.peekn 1 c!"finally" (some .keyword)

/-! ### loops that only look at tokens -/

/-- `while not peekn(1, "]"): token = next(); [check_redefine_keyword]; check_expected_identifier; …;
    if not peekn(1, "]"): match(",")`  (destructuring `def [..]` / `for [..]`) -/
def identListLoop (c : Ctx) (checkKw : Bool) (st : St) (acc : List (List Char)) : Rle (List (List Char)) st.toks.length :=
  if st.peekn 1 c!"]" (some .interpunction) then .ok ⟨acc, st, Nat.le_refl _⟩
  else do
    let ⟨t, s1, h1⟩ ← st.next c
    if checkKw then checkRedefineKeyword t
    checkExpectedIdentifier t
    let ⟨s2, h2⟩ ← sepUnless s1 c!"]"
    let ⟨r, s3, h3⟩ ← identListLoop c checkKw s2 (acc ++ [t.value])
    return ⟨r, s3, by omega⟩
termination_by st.toks.length
decreasing_by omega

/-- the identifiers of a `for` statement -/
def forIdents (c : Ctx) (st : St) : R (List (List Char)) st.toks.length :=
  match st.matchIf c!"[" (some .interpunction) with
  | some ⟨sa, ha⟩ => do
    let ⟨ids, sb, hb⟩ ← identListLoop c false sa []
    let ⟨sc, hc⟩ ← sb.expect c!"]" .interpunction
    return ⟨ids, sc, by omega⟩
  | none => do
    let ⟨t, sa, ha⟩ ← st.next c
    checkExpectedIdentifier t
    return ⟨[t.value], sa, ha⟩

/-- the symbol list of `require m import [a, b as c]` -/
def requireSymLoop (st : St) (acc : List (String × String)) : Rle (List (String × String)) st.toks.length :=
  if st.peekn 1 c!"]" (some .interpunction) then .ok ⟨acc, st, Nat.le_refl _⟩
  else do
    let ⟨sym, s1, h1⟩ ← st.matchIdentifier
    match s1.matchIf c!"as" (some .keyword) with
    | some ⟨s2, h2⟩ => do
      let ⟨name, s3, h3⟩ ← s2.matchIdentifier
      let ⟨s4, h4⟩ ← sepUnless s3 c!"]"
      let ⟨r, s5, h5⟩ ← requireSymLoop s4 (dictSet acc (str sym) (str name))
      return ⟨r, s5, by omega⟩
    | none => do
      let ⟨s4, h4⟩ ← sepUnless s1 c!"]"
      let ⟨r, s5, h5⟩ ← requireSymLoop s4 (dictSet acc (str sym) (str sym))
      return ⟨r, s5, by omega⟩
termination_by st.toks.length
decreasing_by all_goals omega

/-- `while matchIf("->", "operator"): fn = NodeDeref(fn, NodeLiteral(ValueString(matchIdentifier()), getPos()), None, getPos())` -/
def derefChain (st : St) (fn : Node) : Rle Node st.toks.length :=
  match st.matchIf c!"->" (some .operator) with
  | none => .ok ⟨fn, st, Nat.le_refl _⟩
  | some ⟨s1, h1⟩ => do
    let ⟨name, s2, h2⟩ ← s1.matchIdentifier
    let ⟨r, s3, h3⟩ ← derefChain s2 (.deref fn (strLit name s2.prev) .absent s2.prev)
    return ⟨r, s3, by omega⟩
termination_by st.toks.length
decreasing_by omega

/-! ### relational operators -/

def relops : List (List Char) := [c!"==", c!"!=", c!"<>", c!"<", c!"<=", c!">", c!">=", c!"is"]

def isRelop (t : Token) : Bool := relops.contains t.value && (t.type == .operator || t.type == .keyword)

/-- `hasNext() and peek().value in relops and peek().type in ["operator", "keyword"]` -/
def relGuard (s : St) : Bool :=
  match s.toks with
  | t :: _ => isRelop t
  | [] => false

/-- loop head of `parse_rel_expr`: the operator (with `is not` joined) and the state after it -/
def relopNext (c : Ctx) (st : St) : Except PErr (Option (List Char × { s' : St // s'.toks.length < st.toks.length })) :=
  match h : st.toks with
  | [] => .ok none
  | t :: rest =>
    if !isRelop t then .ok none
    else if t.value == c!"is" then
      match rest with
      | [] => .error (errEof c.endPos)
      | t2 :: rest2 =>
        if t2.value == c!"not" then .ok (some (c!"is not", ⟨⟨t2.pos, rest2⟩, by simp; omega⟩))
        else .ok (some (t.value, ⟨⟨t.pos, t2 :: rest2⟩, by simp⟩))
    else .ok (some (t.value, ⟨⟨t.pos, rest⟩, by simp⟩))

/-- the comparison node of one relational step (`cmp = None` cannot happen) -/
def relCmp (relop : List Char) (lhs rhs : Node) (pos : Pos) : Node :=
  if relop == c!"<" then funcCallAB "less" lhs rhs pos
  else if relop == c!"<=" then funcCallAB "less_equals" lhs rhs pos
  else if relop == c!">" then funcCallAB "greater" lhs rhs pos
  else if relop == c!">=" then funcCallAB "greater_equals" lhs rhs pos
  else if relop == c!"==" || relop == c!"is" then funcCallAB "equals" lhs rhs pos
  else if relop == c!"<>" || relop == c!"!=" || relop == c!"is not" then funcCallAB "not_equals" lhs rhs pos
  else .absent

/-! ### binary predicates of `parse_pred_expr` (`in`, `starts with`, …) -/

inductive BinPred where
  | isIn (neg : Bool)
  | call (neg : Bool) (fn a b : String)

def binPredTable (s : St) : Option (BinPred × { s' : St // s'.toks.length < s.toks.length }) :=
  let i := some TokType.identifier
  let k := some TokType.keyword
  match s.matchIf2 c!"not" k c!"in" k with
  | some s' => some (.isIn true, s')
  | none =>
  match s.matchIf c!"in" k with
  | some s' => some (.isIn false, s')
  | none =>
  match s.matchIf3 c!"starts" i c!"not" k c!"with" i with
  | some s' => some (.call true "starts_with" "str" "part", s')
  | none =>
  match s.matchIf2 c!"starts" i c!"with" i with
  | some s' => some (.call false "starts_with" "str" "part", s')
  | none =>
  match s.matchIf3 c!"ends" i c!"not" k c!"with" i with
  | some s' => some (.call true "ends_with" "str" "part", s')
  | none =>
  match s.matchIf2 c!"ends" i c!"with" i with
  | some s' => some (.call false "ends_with" "str" "part", s')
  | none =>
  match s.matchIf2 c!"contains" i c!"not" k with
  | some s' => some (.call true "contains" "obj" "part", s')
  | none =>
  match s.matchIf c!"contains" i with
  | some s' => some (.call false "contains" "obj" "part", s')
  | none =>
  match s.matchIf2 c!"matches" i c!"not" k with
  | some s' => some (.call true "matches" "str" "pattern", s')
  | none =>
  match s.matchIf c!"matches" i with
  | some s' => some (.call false "matches" "str" "pattern", s')
  | none => none

/-- the identifier names of the items of a list literal, or the first item that is no identifier -/
def identNames : List Node → Except Node (List String)
  | [] => .ok []
  | .ident n _ :: rest => (identNames rest).map (n :: ·)
  | x :: _ => .error x

/-- `isinstance(key, NodeIdentifier)`: bare identifiers as map-literal keys become string literals -/
def mapKey : Node → Node
  | .ident n p => .lit (.str n.toList) p
  | k => k

end Parser
end Ckl
