/-
  Layer 1 — runtime values, heap, environments (functions.py `Environment`,
  values.py containers).  Lists, sets, maps and objects live in an object heap and
  are shared by reference; closures too (they carry a mutable name).
  Control signals (`break`, `continue`, `return v`) are first-class values, exactly
  as in the code (ValueControlBreak/Continue/Return).
-/
import CklVerif.Model.Ast
import CklVerif.Model.Coll
import CklVerif.Model.DecRepr
namespace Ckl

inductive RVal where
  | null
  | bool (b : Bool)
  | int (n : Int)
  | dec (m : Int) (e : Nat)
  | str (s : List Char)
  | pat (s : List Char)
  | date (d : DT)
  | ref (a : Nat)                         -- list / set / map / object cell
  | closure (a : Nat)                     -- FuncLambda cell
  | native (name : String) (inst : Nat)   -- a bound built-in (instance id = identity)
  | node (n : Node)                       -- ValueNode (result of `parse`)
  | brk (pos : Pos)
  | cont (pos : Pos)
  | ret (v : RVal) (pos : Pos)
deriving Inhabited, Repr

abbrev EnvId := Nat

inductive Cell where
  | list (xs : List RVal)
  | set (xs : List RVal)                               -- insertion order, pairwise not equal
  | map (kvs : List (RVal × RVal))                     -- insertion order
  | obj (kvs : List (String × RVal)) (isModule : Bool) -- insertion order
  | closure (env : EnvId) (params : List String) (defaults : List Node) (body : Node) (name : String)
deriving Inhabited, Repr

structure Frame where
  vars : List (String × RVal) := []      -- a Python dict: insertion order, assignment keeps the slot
  parent : Option EnvId := none
deriving Inhabited, Repr

/-- ghost counters for C05 / C11: block entries, finally runs, module evaluations -/
structure Ghost where
  enter : List (Pos × Nat) := []
  fin : List (Pos × Nat) := []
  moduleEvals : List (String × Nat) := []
deriving Inhabited, Repr

structure State where
  frames : Array Frame := #[]
  heap : Array Cell := #[]
  modules : List (String × EnvId) := []   -- base.modules
  modstack : List String := []            -- base.modulestack
  out : List Char := []                   -- text written to stdout (reversed chunks appended)
  nextInst : Nat := 0
  secure : Bool := true
  ghost : Ghost := {}
deriving Inhabited, Repr

namespace RVal
def isNull : RVal → Bool | .null => true | _ => false
def isInt : RVal → Bool | .int _ => true | _ => false
def isDecimal : RVal → Bool | .dec _ _ => true | _ => false
def isNumerical (v : RVal) : Bool := v.isInt || v.isDecimal
def isString : RVal → Bool | .str _ => true | _ => false
def isBoolean : RVal → Bool | .bool _ => true | _ => false
def isFunc : RVal → Bool | .closure _ => true | .native _ _ => true | _ => false
def isReturn : RVal → Bool | .ret _ _ => true | _ => false
def isBreak : RVal → Bool | .brk _ => true | _ => false
def isContinue : RVal → Bool | .cont _ => true | _ => false
def isAtomic : RVal → Bool
  | .str _ | .int _ | .dec _ _ | .bool _ | .date _ | .pat _ | .null => true
  | _ => false
end RVal

/-! ### association lists as Python dicts -/

def dictGet {β} (k : String) : List (String × β) → Option β
  | [] => none
  | (k', v) :: rest => if k = k' then some v else dictGet k rest

def dictPut {β} (k : String) (v : β) : List (String × β) → List (String × β)
  | [] => [(k, v)]
  | (k', v') :: rest => if k = k' then (k', v) :: rest else (k', v') :: dictPut k v rest

def dictDel {β} (k : String) : List (String × β) → List (String × β)
  | [] => []
  | (k', v') :: rest => if k = k' then rest else (k', v') :: dictDel k rest

def dictHas {β} (k : String) (d : List (String × β)) : Bool := (dictGet k d).isSome

/-! ### environments -/

namespace State

def frame (s : State) (e : EnvId) : Frame := s.frames.getD e {}

/-- `Environment.newEnv()` -/
def newEnv (s : State) (parent : EnvId) : State × EnvId :=
  ({ s with frames := s.frames.push { vars := [], parent := some parent } }, s.frames.size)

/-- `Environment.put` -/
def put (s : State) (e : EnvId) (name : String) (v : RVal) : State :=
  { s with frames := s.frames.modify e (fun f => { f with vars := dictPut name v f.vars }) }

/-- `Environment.remove` (the code raises KeyError when absent; callers guard) -/
def remove (s : State) (e : EnvId) (name : String) : State :=
  { s with frames := s.frames.modify e (fun f => { f with vars := dictDel name f.vars }) }

/-- chain walk with fuel = number of frames + 1 (parents always have smaller ids) -/
def lookupF (s : State) : Nat → EnvId → String → Option RVal
  | 0, _, _ => none
  | fuel + 1, e, name =>
    let f := s.frame e
    match dictGet name f.vars with
    | some v => some v
    | none => match f.parent with
      | some p => lookupF s fuel p name
      | none => none

/-- `Environment.get` / `isDefined` -/
def lookup (s : State) (e : EnvId) (name : String) : Option RVal := lookupF s (s.frames.size + 1) e name

def isDefined (s : State) (e : EnvId) (name : String) : Bool := (s.lookup e name).isSome

/-- `Environment.set`: update the nearest frame on the chain that defines the name -/
def setF (s : State) : Nat → EnvId → String → RVal → Option State
  | 0, _, _, _ => none
  | fuel + 1, e, name, v =>
    let f := s.frame e
    if dictHas name f.vars then some (s.put e name v)
    else match f.parent with
      | some p => setF s fuel p name v
      | none => none

def set (s : State) (e : EnvId) (name : String) (v : RVal) : Option State := setF s (s.frames.size + 1) e name v

/-- `Environment.getBase` -/
def baseF (s : State) : Nat → EnvId → EnvId
  | 0, e => e
  | fuel + 1, e => match (s.frame e).parent with
    | some p => baseF s fuel p
    | none => e

def base (s : State) (e : EnvId) : EnvId := baseF s (s.frames.size + 1) e

def localSymbols (s : State) (e : EnvId) : List String := (s.frame e).vars.map (·.1)

/-! heap -/

def alloc (s : State) (c : Cell) : State × Nat := ({ s with heap := s.heap.push c }, s.heap.size)
def cell (s : State) (a : Nat) : Option Cell := s.heap[a]?
def setCell (s : State) (a : Nat) (c : Cell) : State := { s with heap := s.heap.setIfInBounds a c }

def write (s : State) (txt : List Char) : State := { s with out := s.out ++ txt }

end State

/-! ### reification: heap value -> data value (for equality, order, rendering of data) -/

/-- `none` when the value contains a function, object, node or control signal, or is
    deeper than the fuel (cyclic containers) -/
def reifyF (dr : DecRenderer) (h : Array Cell) : Nat → RVal → Option Val
  | _, .null => some .null
  | _, .bool b => some (.bool b)
  | _, .int n => some (.int n)
  | _, .dec m e => some (.dec m e)
  | _, .str s => some (.str s)
  | _, .pat s => some (.pat s)
  | _, .date d => some (.date d)
  | 0, _ => none
  | fuel + 1, .ref a =>
    match h[a]? with
    | some (.list xs) => (xs.mapM (reifyF dr h fuel)).map .list
    | some (.set xs) => (xs.mapM (reifyF dr h fuel)).map (mkSet dr)
    | some (.map kvs) =>
        (kvs.mapM (fun (kv : RVal × RVal) => do let k ← reifyF dr h fuel kv.1; let v ← reifyF dr h fuel kv.2; pure (k, v))).map (mkMap dr)
    | _ => none
  | _, _ => none

def reify (s : State) (v : RVal) : Option Val := reifyF decRepr s.heap (s.heap.size + 1) v

end Ckl
