/-
  C08 (decimals) — every finite binary64 value round-trips through print and parse.

  `decRepr m e` is the model of `repr(float)` + positional expansion (shortest digit string that
  reads back as the same double, in exact integer arithmetic), `parseDecimal` / `nearestDouble` the
  model of `float(str)` (round to nearest, ties to even).  `Proofs/C08.lean` part 6 proves the
  round trip of a decimal literal through scanner and parser UNDER TWO HYPOTHESES (`hshape`: the
  renderer writes `digits⁺ . digits*`; `hval`: `float()` of that text is the same double).  This
  file discharges both for every double, without any bound.

  Part 1: `IsDouble m e` — the pairs `(m, e)` (value `m / 2^e`) that are finite binary64 values in
          the model's normal form; `nearestDouble_isDouble`, `parseDecimal_isDouble`: everything the
          reader produces is such a value.
  Part 2: `decRepr_shape`: the text of a double is `-`? `digits⁺ . digits*`.
  Part 3: `nearestDouble_of_inside`: round-to-nearest-even maps every rational of the rounding
          interval of a double (the interval `shortestDigits` tests) to that double — subnormals
          and the narrower gap below a power of two included.
  Part 4: `shortestDigits_found`: 17 significant digits always suffice (the `for n in [1:18]` loop
          of `shortestDigits` always returns; the fallback after it is dead code);
          `shortestDigits_inside`: the returned digits denote a decimal inside the interval.
  Part 5: `decRepr_roundtrip` (`float(repr(x)) = x`), `roundtrip_dec` (scanner + parser: the text
          parses to the literal of the same decimal; a negative one via the folded unary minus),
          `roundtrip_dec_text` (… which renders to the same text again), `decRepr_injective`.
  Part 6: evaluation: the literal evaluates to the same decimal (`dec_lit_eval`), hence
          print ∘ eval ∘ parse ∘ scan ∘ print = print for decimals (`roundtrip_dec_pipeline`), and
          `roundtrip_text_dec`: the theorem `C08F.roundtrip_text` extended from `IsData'` to
          `IsData' ∨ double` (decimals NESTED in lists / sets / maps are not covered).
  Part 7: (nested) lists of NULL / booleans / ints / strings / DECIMALS through scanner and parser
          (`roundtrip_data_dec`, extending `C08.roundtrip_data`), and injectivity of printing on them.
  Part 8: … and through the evaluator: `roundtrip_eval_dec` (the literal AST evaluates to a heap value
          that reifies to exactly the value, has its type name, and prints as the same text),
          `roundtrip_text_list_dec` (print ∘ eval ∘ parse ∘ scan ∘ print = print).
  Part 9: ALL container kinds with decimals inside through scanner and parser: `roundtrip_parse_dec`
          (`C08F.roundtrip_parse` extended: NULL, booleans, ints, strings, doubles, and lists / sets /
          maps of them nested to any depth — doubles as elements, keys or values),
          `render_injective_all`.  (Evaluation of sets / maps holding decimals is NOT covered.)
  Non-vacuity examples and sample tests (labelled) at the end.
-/
import CklVerif.Lemmas.C08DecMain
import CklVerif.Lemmas.C08DecList
import CklVerif.Lemmas.C08DecListEval
import CklVerif.Lemmas.C08DecFull
import CklVerif.Proofs.C08
import CklVerif.Proofs.C08Full
namespace Ckl.C08Dec
open Ckl Ckl.Parser Ckl.Lexer Ckl.C08D

/-! ## Part 1: the doubles -/

/-- **nearestDouble_isDouble**: whatever `float()` returns is a double in normal form
    (`m` odd or `e = 0`; at most 53 significant bits; a multiple of `2^-1074`; below `2^1024`) -/
theorem nearestDouble_isDouble (num den m e : Nat) (hden : 0 < den)
    (h : nearestDouble num den = some (m, e)) : IsDouble (m : Int) e := by
  unfold IsDouble; rw [Int.natAbs_natCast]
  exact nearestDouble_isDoubleN num den m e hden h

/-- **parseDecimal_isDouble**: every decimal literal the parser accepts denotes a (non-negative) double -/
theorem parseDecimal_isDouble (cs : List Char) (m : Int) (e : Nat) (h : parseDecimal cs = some (m, e)) :
    IsDouble m e ∧ 0 ≤ m := by
  unfold parseDecimal at h
  simp only at h
  split at h
  · split at h
    · cases h
    · rename_i fp _ _
      cases hn : nearestDouble (digitsVal (List.takeWhile isDigit cs ++ fp)) (10 ^ fp.length) with
      | none => rw [hn] at h; cases h
      | some p =>
        obtain ⟨m', e'⟩ := p
        rw [hn] at h
        simp only [Option.some.injEq, Prod.mk.injEq] at h
        obtain ⟨rfl, rfl⟩ := h
        exact ⟨nearestDouble_isDouble _ _ _ _ (Nat.pow_pos (by decide)) hn, Int.natCast_nonneg _⟩
  · cases h

/-- non-vacuity / tests: 0, 0.1, the smallest subnormal, the smallest normal, 2^53, the largest
    double are doubles; 2^53 + 1, 2^-1075, 2/2 (not normalised), 2^1024 are not -/
example : IsDouble 0 0 ∧ IsDouble 3602879701896397 55 ∧ IsDouble 1 1074 ∧ IsDouble 1 1022 ∧
    IsDouble (-(2 ^ 53)) 0 ∧ IsDouble (2 ^ 1024 - 2 ^ 971) 0 ∧ ¬ IsDouble (2 ^ 53 + 1) 0 ∧
    ¬ IsDouble 1 1075 ∧ ¬ IsDouble 2 1 ∧ ¬ IsDouble (2 ^ 1024) 0 := by decide +kernel

/-! ## Part 2: the shape of the text -/

/-- **decRepr_shape**: the text of a double is an optional `-` (exactly when it is negative)
    followed by a non-empty digit string, a `.`, and a digit string -/
theorem decRepr_shape (m : Int) (e : Nat) (hd : IsDouble m e) :
    ∃ a b, decRepr m e = (if m < 0 then ['-'] else []) ++ (a ++ '.' :: b) ∧ a ≠ [] ∧
      (∀ c ∈ a, c ∈ digits) ∧ (∀ c ∈ b, c ∈ digits) := by
  obtain ⟨a, b, h1, h2, h3, h4, _⟩ := decRepr_spec m e hd
  exact ⟨a, b, h1, h2, h3, h4⟩

/-! ## Part 3: round-to-nearest-even -/

/-- **nearestDouble_of_inside**: if the positive rational `num / den` lies in the rounding interval
    of the positive double `a / 2^e` — between the midpoints to its two neighbours, the midpoints
    included exactly when the 53-bit mantissa is even; this is the test `inside` of
    `shortestDigits`, see `C08D.inside_iff` for its reading over ℚ — then `float()` returns exactly
    that double. -/
theorem nearestDouble_of_inside (a e : Nat) (ha : 0 < a) (hd : IsDouble (a : Int) e) (num den : Nat)
    (hden : 0 < den) (hin : inside a e (num, den) = true) : nearestDouble num den = some (a, e) := by
  unfold IsDouble at hd; rw [Int.natAbs_natCast] at hd
  exact C08D.nearestDouble_of_inside a e ha hd num den hden hin

/-! ## Part 4: the shortest digits -/

/-- **shortestDigits_found**: for every positive double some candidate with at most 17 significant
    digits lies in the rounding interval, i.e. the loop of `shortestDigits` returns -/
theorem shortestDigits_found (a e : Nat) (ha : 0 < a) (hd : IsDouble (a : Int) e) : Found a e := by
  unfold IsDouble at hd; rw [Int.natAbs_natCast] at hd
  exact found a e ha hd

/-- **shortestDigits_inside**: `shortestDigits a e` is the digit string (trailing zeros stripped) and
    decimal-point position of a positive integer `p` with `n` digits before scaling such that the
    decimal `p · 10^(k-n)` lies in the rounding interval of `a / 2^e` -/
theorem shortestDigits_inside (a e : Nat) (ha : 0 < a) (hd : IsDouble (a : Int) e) :
    ∃ (k : Int) (n p : Nat), 0 < p ∧ inside a e (pow10Rat p (-((n : Int) - k))) = true ∧
      shortestDigits a e = out k n p :=
  C08D.shortestDigits_inside a e (shortestDigits_found a e ha hd)

/-! ## Part 5: the round trip -/

/-- **decRepr_roundtrip**: `float(repr(x)) = x` for every double: the text of `|m| / 2^e` (the text of
    `m / 2^e` without its sign) reads back as `(|m|, e)` -/
theorem decRepr_roundtrip (m : Int) (e : Nat) (hd : IsDouble m e) :
    parseDecimal (decRepr (m.natAbs : Int) e) = some ((m.natAbs : Int), e) := by
  have hd' : IsDouble (m.natAbs : Int) e := by unfold IsDouble at hd ⊢; rwa [Int.natAbs_natCast]
  obtain ⟨a, b, h1, _, _, _, h5⟩ := decRepr_spec (m.natAbs : Int) e hd'
  rw [if_neg (by omega), List.nil_append] at h1
  rw [h1, h5, Int.natAbs_natCast]

/-- **roundtrip_dec**: for every double, the rendered text — alone or followed by whitespace —
    scans and parses to the literal of the same decimal (a negative one is written with a leading
    `-`, which the parser folds into the literal) -/
theorem roundtrip_dec (file : String) (m : Int) (e : Nat) (hd : IsDouble m e) (w : List Char)
    (hw : ∀ c ∈ w, c ∈ [' ', '\t', '\r', '\n']) :
    ∃ pos, parseScript (render (.dec m e) ++ w) file = .ok (.lit (.dec m e) pos) := by
  obtain ⟨a, b, h1, h2, h3, h4, h5⟩ := decRepr_spec m e hd
  by_cases hm : m < 0
  · rw [if_pos hm] at h1
    have hv : parseDecimal (a ++ '.' :: b) = some (-m, e) := by
      rw [h5]; congr 2; omega
    exact C08.roundtrip_dec_neg_partial decRepr file m e a b h1 h2 h3 h4 hv w hw
  · rw [if_neg hm, List.nil_append] at h1
    have hv : parseDecimal (a ++ '.' :: b) = some (m, e) := by
      rw [h5]; congr 2; omega
    exact C08.roundtrip_dec_partial decRepr file m e a b h1 h2 h3 h4 hv w hw

/-- **roundtrip_dec_text**: … and the value read back is equal to the original, a decimal again,
    and renders to the same text again -/
theorem roundtrip_dec_text (file : String) (m : Int) (e : Nat) (hd : IsDouble m e) (w : List Char)
    (hw : ∀ c ∈ w, c ∈ [' ', '\t', '\r', '\n']) :
    ∃ pos v, parseScript (render (.dec m e) ++ w) file = .ok (.lit v pos) ∧ v = .dec m e ∧
      render v = render (.dec m e) := by
  obtain ⟨pos, h⟩ := roundtrip_dec file m e hd w hw
  exact ⟨pos, _, h, rfl, rfl⟩

/-- **decRepr_injective**: distinct doubles print differently -/
theorem decRepr_injective (m m' : Int) (e e' : Nat) (hd : IsDouble m e) (hd' : IsDouble m' e')
    (h : decRepr m e = decRepr m' e') : m = m' ∧ e = e' := by
  obtain ⟨a, b, h1, h2, h3, _, h5⟩ := decRepr_spec m e hd
  obtain ⟨a', b', h1', h2', h3', _, h5'⟩ := decRepr_spec m' e' hd'
  rw [h1, h1'] at h
  -- the first character of the unsigned part is a digit, not `-`
  have hhead : ∀ (x y : List Char), x ≠ [] → (∀ c ∈ x, c ∈ digits) → ∀ t, '-' :: t ≠ x ++ y := by
    intro x y hx hdx t heq
    cases x with
    | nil => exact hx rfl
    | cons c x' =>
      simp only [List.cons_append, List.cons.injEq] at heq
      have := hdx c (by simp)
      rw [← heq.1] at this
      revert this; decide
  by_cases hm : m < 0 <;> by_cases hm' : m' < 0
  · rw [if_pos hm, if_pos hm'] at h
    simp only [List.singleton_append, List.cons.injEq, true_and] at h
    rw [h, h5'] at h5
    simp only [Option.some.injEq, Prod.mk.injEq] at h5
    omega
  · rw [if_pos hm, if_neg hm'] at h
    exact absurd h (hhead a' _ h2' h3' _)
  · rw [if_neg hm, if_pos hm'] at h
    exact absurd h.symm (hhead a _ h2 h3 _)
  · rw [if_neg hm, if_neg hm'] at h
    simp only [List.nil_append] at h
    rw [h, h5'] at h5
    simp only [Option.some.injEq, Prod.mk.injEq] at h5
    omega

/-! ## Part 6: evaluation -/

/-- **dec_lit_eval**: the literal of a decimal evaluates (any state, any environment, one unit of
    fuel) to the same decimal without touching the state; the runtime value reifies to the data
    value, has type name `decimal`, and `str(…)` of it is the rendered text -/
theorem dec_lit_eval (ld : Loader) (m : Int) (e : Nat) (p : Pos) (fuel : Nat) (env : EnvId) (s : State) :
    eval ld (fuel + 1) env (.lit (.dec m e) p) s = .ok (.dec m e) s ∧
      reify s (.dec m e) = some (.dec m e) ∧ typeName s (.dec m e) = (Val.dec m e).typeName ∧
      rrender s (.dec m e) = some (render (.dec m e)) := by
  have hr : reify s (.dec m e) = some (.dec m e) := by
    unfold reify reifyF; rfl
  refine ⟨by simp only [eval, pure, EvalM.pure'], hr, rfl, ?_⟩
  unfold rrender
  simp only [rrenderF, reify, reifyF, Option.map_some]

/-- **roundtrip_dec_eval**: for every double, evaluating the rendered text yields a value equal to
    the original, of the same type, that renders to the same text again -/
theorem roundtrip_dec_eval (ld : Loader) (file : String) (m : Int) (e : Nat) (hd : IsDouble m e)
    (w : List Char) (hw : ∀ c ∈ w, c ∈ [' ', '\t', '\r', '\n']) (fuel : Nat) (env : EnvId) (s : State) :
    ∃ n r, parseScript (render (.dec m e) ++ w) file = .ok n ∧ eval ld (fuel + 1) env n s = .ok r s ∧
      reify s r = some (.dec m e) ∧ typeName s r = (Val.dec m e).typeName ∧
      rrender s r = some (render (.dec m e)) := by
  obtain ⟨pos, hp⟩ := roundtrip_dec file m e hd w hw
  obtain ⟨h1, h2, h3, h4⟩ := dec_lit_eval ld m e pos fuel env s
  exact ⟨_, _, hp, h1, h2, h3, h4⟩

/-- **roundtrip_dec_pipeline**: print ∘ eval ∘ parse ∘ scan ∘ print = print on doubles -/
theorem roundtrip_dec_pipeline (ld : Loader) (m : Int) (e : Nat) (hd : IsDouble m e) (w : List Char)
    (hw : ∀ c ∈ w, c ∈ [' ', '\t', '\r', '\n']) (fuel : Nat) (env : EnvId) (s : State) :
    C08F.pipeline ld (fuel + 1) env s (render (.dec m e) ++ w) = some (render (.dec m e)) := by
  obtain ⟨n, r, hp, he, _, _, hr⟩ := roundtrip_dec_eval ld "-" m e hd w hw fuel env s
  unfold C08F.pipeline
  rw [hp]
  simp only [he]
  exact hr

/-- the data values of `C08F.IsData'` (NULL, booleans, ints, strings, lists, canonical sets and
    maps of them), or a double -/
def IsDataOrDec (v : Val) : Prop := C08F.IsData' decRepr v ∨ ∃ m e, v = .dec m e ∧ IsDouble m e

/-- **roundtrip_text_dec**: `C08F.roundtrip_text` with decimals: printing a data value or a
    decimal, then scanning, parsing and evaluating the text and printing the result gives the same
    text -/
theorem roundtrip_text_dec (ld : Loader) (v : Val) (hv : IsDataOrDec v) (w : List Char)
    (hw : ∀ c ∈ w, c ∈ [' ', '\t', '\r', '\n']) (fuel : Nat) (hf : C08F.need v + 1 ≤ fuel) (env : EnvId)
    (s : State) (hnull : s.lookup env "NULL" = some .null) :
    C08F.pipeline ld fuel env s (render v ++ w) = some (render v) := by
  rcases hv with hv | ⟨m, e, rfl, hd⟩
  · exact C08F.roundtrip_text ld v hv w hw fuel (by omega) env s hnull
  · obtain ⟨f, rfl⟩ : ∃ f, fuel = f + 1 := ⟨fuel - 1, by omega⟩
    exact roundtrip_dec_pipeline ld m e hd w hw f env s

/-! ## Part 7: lists with decimals through scanner and parser -/

/-- **list_tokens_dec**: the text of a (nested) list of NULL, booleans, ints, strings and doubles, alone
    or followed by whitespace, scans to exactly the expected tokens (a negative decimal gives the
    operator token `-` followed by the decimal token of its absolute value) -/
theorem list_tokens_dec (name : String) (v : Val) (hv : C08DL.IsDataD v) (w : List Char)
    (hw : ∀ c ∈ w, c ∈ [' ', '\t', '\r', '\n']) :
    C08.scanTV (render v ++ w) name = some (C08DL.dataToksD v) :=
  C08DL.list_tokens_roundtripD name v hv w hw

/-- **roundtrip_data_dec**: `C08.roundtrip_data` with decimals: for every value built from NULL,
    booleans, ints (numerals of at most 4300 digits), strings, doubles and arbitrarily nested
    lists, printing it and parsing the text succeeds and yields the literal AST of the value -/
theorem roundtrip_data_dec (file : String) (v : Val) (hv : C08DL.IsDataD v) (hd : C08DL.DigitsOKD v)
    (w : List Char) (hw : ∀ c ∈ w, c ∈ [' ', '\t', '\r', '\n']) :
    ∃ n, parseScript (render v ++ w) file = .ok n ∧ C08DL.NodeIsD v n :=
  C08DL.roundtrip_dataD file v hv hd w hw

/-- **render_injective_dec**: different such values have different texts (even up to trailing
    whitespace) -/
theorem render_injective_dec (file : String) (v v' : Val) (hv : C08DL.IsDataD v) (hd : C08DL.DigitsOKD v)
    (hv' : C08DL.IsDataD v') (hd' : C08DL.DigitsOKD v') (h : render v = render v') : v = v' :=
  C08DL.roundtrip_dataD_unique file v v' hv hd hv' hd' [] [] (by simp) (by simp) (by rw [h])

/-! ## Part 8: lists with decimals through the evaluator -/

/-- **roundtrip_eval_dec**: for every value `v` built from NULL, booleans, ints, strings, doubles and
    nested lists, and every literal AST `n` of `v`, in any state and environment where `NULL`
    denotes null and with at least `needD v` units of fuel, the evaluation of `n` succeeds, only
    appends cells to the heap, and the result reifies to EXACTLY `v`, has the type name of `v`, and
    `str(…)` of it is the text of `v` -/
theorem roundtrip_eval_dec (ld : Loader) (v : Val) (hv : C08DL.IsDataD v) (n : Node) (hn : C08DL.NodeIsD v n)
    (fuel : Nat) (hf : C08DL.needD v ≤ fuel) (env : EnvId) (s : State)
    (hnull : s.lookup env "NULL" = some .null) :
    ∃ r s', eval ld fuel env n s = .ok r s' ∧ C08F.HeapExt s s' ∧ reify s' r = some v ∧
      typeName s' r = v.typeName ∧ rrender s' r = some (render v) :=
  C08DL.roundtrip_evalD ld v hv n hn fuel hf env s hnull

/-- **roundtrip_text_list_dec**: printing such a value, then scanning, parsing and evaluating the
    text and printing the result gives the same text -/
theorem roundtrip_text_list_dec (ld : Loader) (v : Val) (hv : C08DL.IsDataD v) (hd : C08DL.DigitsOKD v)
    (w : List Char) (hw : ∀ c ∈ w, c ∈ [' ', '\t', '\r', '\n']) (fuel : Nat) (hf : C08DL.needD v ≤ fuel)
    (env : EnvId) (s : State) (hnull : s.lookup env "NULL" = some .null) :
    C08F.pipeline ld fuel env s (render v ++ w) = some (render v) :=
  C08DL.roundtrip_textD ld v hv hd w hw fuel hf env s hnull

/-- … and the value obtained is the original one, of the same type -/
theorem roundtrip_value_list_dec (ld : Loader) (v : Val) (hv : C08DL.IsDataD v) (hd : C08DL.DigitsOKD v)
    (w : List Char) (hw : ∀ c ∈ w, c ∈ [' ', '\t', '\r', '\n']) (fuel : Nat) (hf : C08DL.needD v ≤ fuel)
    (env : EnvId) (s : State) (hnull : s.lookup env "NULL" = some .null) :
    ∃ n r s', parseScript (render v ++ w) "-" = .ok n ∧ eval ld fuel env n s = .ok r s' ∧
      reify s' r = some v ∧ typeName s' r = v.typeName ∧ rrender s' r = some (render v) :=
  C08DL.roundtrip_valueD ld v hv hd w hw fuel hf env s hnull

/-! ## Part 9: lists, sets and maps with decimals through scanner and parser -/

/-- **data_tokens_dec**: the text of a data value (NULL, booleans, ints ≤ 4300 digits, strings,
    doubles, lists / sets / maps of such values, no NULL map key), alone or followed by
    whitespace, scans without error to exactly `tokensOfP v` -/
theorem data_tokens_dec (name : String) (v : Val) (hv : C08DF.IsDataP v) (w : List Char)
    (hw : ∀ c ∈ w, c ∈ [' ', '\t', '\r', '\n']) :
    C08.scanTV (render v ++ w) name = some (C08DF.tokensOfP v) :=
  C08DF.data_tokensP name v hv w hw

/-- **roundtrip_parse_dec**: printing such a value and parsing the text (alone or followed by
    whitespace) succeeds and yields the literal AST of the value, positions aside -/
theorem roundtrip_parse_dec (file : String) (v : Val) (hv : C08DF.IsDataP v) (w : List Char)
    (hw : ∀ c ∈ w, c ∈ [' ', '\t', '\r', '\n']) :
    ∃ n, parseScript (render v ++ w) file = .ok n ∧ C08DF.NodeIsP v n :=
  C08DF.roundtrip_parseP file v hv w hw

/-- **render_injective_all**: different data values (decimals anywhere inside) have different texts -/
theorem render_injective_all (v v' : Val) (hv : C08DF.IsDataP v) (hv' : C08DF.IsDataP v')
    (h : render v = render v') : v = v' :=
  C08DF.render_injectiveP v v' hv hv' h

/-- the data values of `C08F` are among them -/
theorem isDataP_of_isData' (v : Val) (h : C08F.IsData' decRepr v) : C08DF.IsDataP v :=
  C08DF.isDataP_of_isData' v h

/-! ## Non-vacuity and tests

  The hypotheses `IsDouble m e` are decidable; the theorems are instantiated at 0.1, -0.25, the
  smallest subnormal 5e-324, the smallest normal 2^-1022, 2^53, 1e22, 1e23 (as read by `float`), the
  largest double, and a tie `k + 0.25`-style value.  The `#guard`s are TESTS of the executable
  model on those tricky values (the printed text, and that it reads back). -/

/-- 0.1 = 3602879701896397 / 2^55 -/
example : ∃ pos, parseScript (render (.dec 3602879701896397 55) ++ []) "f"
    = .ok (.lit (.dec 3602879701896397 55) pos) :=
  roundtrip_dec "f" _ _ (by decide +kernel) [] (by simp)

/-- -0.25, followed by a blank and a newline -/
example : ∃ pos, parseScript (render (.dec (-1) 2) ++ [' ', '\n']) "f" = .ok (.lit (.dec (-1) 2) pos) :=
  roundtrip_dec "f" _ _ (by decide +kernel) _ (by decide)

/-- the smallest subnormal and the largest double -/
example : (∃ pos, parseScript (render (.dec 1 1074) ++ []) "f" = .ok (.lit (.dec 1 1074) pos)) ∧
    (∃ pos, parseScript (render (.dec (2 ^ 1024 - 2 ^ 971) 0) ++ []) "f"
      = .ok (.lit (.dec (2 ^ 1024 - 2 ^ 971) 0) pos)) :=
  ⟨roundtrip_dec "f" _ _ (by decide +kernel) [] (by simp),
   roundtrip_dec "f" _ _ (by decide +kernel) [] (by simp)⟩

example : parseDecimal (decRepr (((-3602879701896397 : Int)).natAbs : Int) 55)
    = some ((((-3602879701896397 : Int)).natAbs : Int), 55) :=
  decRepr_roundtrip _ _ (by decide +kernel)

example : Found 3602879701896397 55 := shortestDigits_found _ _ (by decide) (by decide +kernel)

example : C08F.pipeline {} 1 0 { frames := #[{}] } (render (.dec 3602879701896397 55) ++ [' '])
    = some (render (.dec 3602879701896397 55)) :=
  roundtrip_dec_pipeline {} _ _ (by decide +kernel) _ (by decide) 0 0 _

example : IsDataOrDec (.dec (-1) 2) ∧ IsDataOrDec (.list [.int 1]) :=
  ⟨Or.inr ⟨_, _, rfl, by decide +kernel⟩, Or.inl (by simp [C08F.IsData', C08F.IsDataL']; decide)⟩

/-- `[0.1, -0.25, [1, 'a', 1.5], NULL]` -/
example : ∃ n, parseScript (render (.list [.dec 3602879701896397 55, .dec (-1) 2,
      .list [.int 1, .str ['a'], .dec 3 1], .null]) ++ ['\n']) "f" = .ok n ∧
    C08DL.NodeIsD (.list [.dec 3602879701896397 55, .dec (-1) 2, .list [.int 1, .str ['a'], .dec 3 1], .null]) n :=
  roundtrip_data_dec "f" _
    (by simp only [C08DL.IsDataD, C08DL.IsDataDL, and_true, true_and]; decide +kernel)
    (by simp [C08DL.DigitsOKD, C08DL.DigitsOKDL]; decide) _ (by decide)

/-- `[0.1, -0.25, [1, 'a', 1.5], NULL]` through the whole pipeline -/
example : C08F.pipeline {} 100 0 C08F.s0 (render C08DL.exD ++ ['\n']) = some (render C08DL.exD) :=
  roundtrip_text_list_dec {} _ C08DL.exD_data C08DL.exD_digits _ (by decide) 100
    (by rw [C08DL.exD_need]; decide) 0 _ C08F.s0_null

/-- `<<<'k' => [0.1, <<-0.25, 2>>], 1.5 => <<<>>> >>>` -/
example : ∃ n, parseScript (render C08DF.exP ++ [' ', '\n']) "f" = .ok n ∧ C08DF.NodeIsP C08DF.exP n :=
  roundtrip_parse_dec "f" _ C08DF.exP_data _ (by decide)

-- tests of the executable model (not theorems)
#guard C08F.pipeline {} 50 0 C08F.s0 "[0.1, -0.25, <<1.5>>]".toList == some "[0.1, -0.25, <<1.5>>]".toList
#guard decRepr 3602879701896397 55 = ['0', '.', '1']
#guard decRepr (-1) 2 = ['-', '0', '.', '2', '5']
#guard decRepr 0 0 = ['0', '.', '0']
#guard decRepr (2 ^ 53) 0 = ['9', '0', '0', '7', '1', '9', '9', '2', '5', '4', '7', '4', '0', '9', '9', '2', '.', '0']
#guard (decRepr 1 1074).length = 326 ∧ (decRepr 1 1074).getLast? = some '5'      -- 5e-324
#guard (decRepr 1 1022).drop 309 = ['2', '2', '2', '5', '0', '7', '3', '8', '5', '8', '5', '0', '7', '2', '0', '1', '4']
#guard decRepr (10 ^ 22) 0 = '1' :: List.replicate 22 '0' ++ ['.', '0']
#guard (nearestDouble (10 ^ 23) 1).map (fun p => decRepr p.1 p.2) = some ('1' :: List.replicate 23 '0' ++ ['.', '0'])
#guard (nearestDouble 9007199254740993 1) = some (2 ^ 53, 0)                      -- tie to even
#guard (decRepr (2 ^ 1024 - 2 ^ 971) 0).take 17 = ['1', '7', '9', '7', '6', '9', '3', '1', '3', '4', '8', '6', '2', '3', '1', '5', '7']
#guard [(3602879701896397, 55), (1, 1074), (1, 1022), (2 ^ 53, 0), (10 ^ 22, 0), (2 ^ 1024 - 2 ^ 971, 0),
        (4503599627370497, 52), (4503599627370496, 0), (9007199254740991, 1074), (5, 2), (2 ^ 52 + 1, 53)].all
      (fun p => parseDecimal (decRepr (p.1 : Int) p.2) == some ((p.1 : Int), p.2))

end Ckl.C08Dec
