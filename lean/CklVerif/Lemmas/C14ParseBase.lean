/-
  C14 / C20 (parser half) — the relational framework.

  For a position renaming `f : Pos → Pos` we relate two runs of the parser: the second run sees
  the same tokens with every position `p` replaced by `f p` (`SRel`, `CRel`).  The claim proved
  production by production (files `C14ParseSim*.lean`) is *equivariance*: the second run yields
  the AST of the first with every position renamed by `f` (`mapPos f`), or an error with the same
  message whose position is renamed by `f`.

    * `f = fun _ => default` gives "the AST depends on positions only by copying them" (C14);
    * `f = id` on a set `S` of positions and constant outside gives "every position of the AST
      is in `S`" (C20: the parser never invents a position).
-/
import CklVerif.Model.Parser
namespace Ckl.C14P
open Ckl Ckl.Parser

/-! ### renaming positions -/

def tokMap (f : Pos → Pos) (t : Token) : Token := ⟨t.value, t.type, f t.pos⟩

@[simp] theorem tokMap_value (f : Pos → Pos) (t : Token) : (tokMap f t).value = t.value := rfl
@[simp] theorem tokMap_type (f : Pos → Pos) (t : Token) : (tokMap f t).type = t.type := rfl
@[simp] theorem tokMap_pos (f : Pos → Pos) (t : Token) : (tokMap f t).pos = f t.pos := rfl

mutual
/-- apply `f` to every position of an AST -/
def mapPos (f : Pos → Pos) : Node → Node
  | .absent => .absent
  | .catchAll => .catchAll
  | .null p => .null (f p)
  | .lit v p => .lit v (f p)
  | .ident n p => .ident n (f p)
  | .and es p => .and (mapPosL f es) (f p)
  | .or es p => .or (mapPosL f es) (f p)
  | .not e p => .not (mapPos f e) (f p)
  | .assign n e p => .assign n (mapPos f e) (f p)
  | .assignD ns e p => .assignD ns (mapPos f e) (f p)
  | .block es ce ch fin tl p => .block (mapPosL f es) (mapPosL f ce) (mapPosL f ch) (mapPosL f fin) tl (f p)
  | .brk p => .brk (f p)
  | .cont p => .cont (f p)
  | .cls n ms p => .cls n (mapPosL f ms) (f p)
  | .defn n e i p => .defn n (mapPos f e) i (f p)
  | .defD ns e i p => .defD ns (mapPos f e) i (f p)
  | .deref e i d p => .deref (mapPos f e) (mapPos f i) (mapPos f d) (f p)
  | .derefAssign e i v p => .derefAssign (mapPos f e) (mapPos f i) (mapPos f v) (f p)
  | .derefInvoke o m ns as p => .derefInvoke (mapPos f o) m ns (mapPosL f as) (f p)
  | .slice e a b p => .slice (mapPos f e) (mapPos f a) (mapPos f b) (f p)
  | .error e p => .error (mapPos f e) (f p)
  | .for ids e b w p => .for ids (mapPos f e) (mapPos f b) w (f p)
  | .call fn ns as p => .call (mapPos f fn) ns (mapPosL f as) (f p)
  | .ite cs es el p => .ite (mapPosL f cs) (mapPosL f es) (mapPos f el) (f p)
  | .isIn e c p => .isIn (mapPos f e) (mapPos f c) (f p)
  | .lambda ps ds b p => .lambda ps (mapPosL f ds) (mapPos f b) (f p)
  | .list is p => .list (mapPosL f is) (f p)
  | .compr k s v ke i1 l1 w1 i2 l2 w2 c p =>
    .compr k s (mapPos f v) (mapPos f ke) i1 (mapPos f l1) w1 i2 (mapPos f l2) w2 (mapPos f c) (f p)
  | .map ks vs p => .map (mapPosL f ks) (mapPosL f vs) (f p)
  | .object ks vs p => .object ks (mapPosL f vs) (f p)
  | .require s n u sy p => .require (mapPos f s) n u sy (f p)
  | .ret e p => .ret (mapPos f e) (f p)
  | .set is p => .set (mapPosL f is) (f p)
  | .spread e p => .spread (mapPos f e) (f p)
  | .while c b p => .while (mapPos f c) (mapPos f b) (f p)
def mapPosL (f : Pos → Pos) : List Node → List Node
  | [] => []
  | x :: xs => mapPos f x :: mapPosL f xs
end

@[simp] theorem mapPosL_nil (f : Pos → Pos) : mapPosL f [] = [] := rfl
@[simp] theorem mapPosL_cons (f : Pos → Pos) (x : Node) (xs : List Node) :
    mapPosL f (x :: xs) = mapPos f x :: mapPosL f xs := rfl

@[simp] theorem mapPosL_append (f : Pos → Pos) (xs ys : List Node) :
    mapPosL f (xs ++ ys) = mapPosL f xs ++ mapPosL f ys := by
  induction xs with
  | nil => simp
  | cons x xs ih => simp [ih]

theorem mapPosL_eq_map (f : Pos → Pos) (xs : List Node) : mapPosL f xs = xs.map (mapPos f) := by
  induction xs with
  | nil => rfl
  | cons x xs ih => simp [ih]

/-! ### related lexer states and contexts -/

structure SRel (f : Pos → Pos) (s s' : St) : Prop where
  prev : s'.prev = f s.prev
  toks : s'.toks = s.toks.map (tokMap f)

structure CRel (f : Pos → Pos) (c c' : Ctx) : Prop where
  endPos : c'.endPos = f c.endPos
  validRe : c'.validRe = c.validRe

theorem SRel.length {f : Pos → Pos} {s s' : St} (h : SRel f s s') : s'.toks.length = s.toks.length := by
  rw [h.toks, List.length_map]

/-- related errors: same message, renamed position (the `eof` flag is a function of the message) -/
def PRel (f : Pos → Pos) (e e' : PErr) : Prop := e'.val.msg = e.val.msg ∧ e'.val.pos = f e.val.pos

theorem PRel.eof {f : Pos → Pos} {e e' : PErr} (h : PRel f e e') : e'.val.eof = e.val.eof := by
  rw [e'.property.2, e.property.2, h.1]

theorem mkErr_rel (f : Pos → Pos) (msg : String) (p : Pos) : PRel f (mkErr msg p) (mkErr msg (f p)) := by
  unfold mkErr
  split <;> exact ⟨rfl, rfl⟩

theorem mkErr_rel' {f : Pos → Pos} {msg msg' : String} {p p' : Pos} (hm : msg' = msg) (hp : p' = f p) :
    PRel f (mkErr msg p) (mkErr msg' p') := by
  subst hm hp; exact mkErr_rel f _ _

theorem errEof_rel {f : Pos → Pos} {p p' : Pos} (hp : p' = f p) : PRel f (errEof p) (errEof p') :=
  mkErr_rel' rfl hp

/-! ### related outcomes -/

/-- both runs succeed with related results, or both fail with related errors -/
def ERel {A A' : Type} (f : Pos → Pos) (r : A → A' → Prop) : Except PErr A → Except PErr A' → Prop
  | .ok a, .ok a' => r a a'
  | .error e, .error e' => PRel f e e'
  | _, _ => False

@[simp] theorem ERel_ok {A A' : Type} {f : Pos → Pos} {r : A → A' → Prop} {a : A} {a' : A'} :
    ERel f r (.ok a) (.ok a') ↔ r a a' := Iff.rfl
@[simp] theorem ERel_error {A A' : Type} {f : Pos → Pos} {r : A → A' → Prop} {e e' : PErr} :
    ERel f r (.error e : Except PErr A) (.error e' : Except PErr A') ↔ PRel f e e' := Iff.rfl
@[simp] theorem ERel_pure {A A' : Type} {f : Pos → Pos} {r : A → A' → Prop} {a : A} {a' : A'} :
    ERel f r (pure a : Except PErr A) (pure a' : Except PErr A') ↔ r a a' := Iff.rfl
@[simp] theorem ERel_throw {A A' : Type} {f : Pos → Pos} {r : A → A' → Prop} {e e' : PErr} :
    ERel f r (throw e : Except PErr A) (throw e' : Except PErr A') ↔ PRel f e e' := Iff.rfl

theorem ERel.ok {A A' : Type} {f : Pos → Pos} {r : A → A' → Prop} {a : A} {a' : A'} (h : r a a') :
    ERel f r (.ok a) (.ok a') := h
theorem ERel.pure {A A' : Type} {f : Pos → Pos} {r : A → A' → Prop} {a : A} {a' : A'} (h : r a a') :
    ERel f r (Pure.pure a : Except PErr A) (Pure.pure a' : Except PErr A') := h
theorem ERel.error {A A' : Type} {f : Pos → Pos} {r : A → A' → Prop} {e e' : PErr} (h : PRel f e e') :
    ERel f r (.error e : Except PErr A) (.error e' : Except PErr A') := h

theorem ERel.bind {A A' B B' : Type} {f : Pos → Pos} {r : A → A' → Prop} {q : B → B' → Prop}
    {x : Except PErr A} {x' : Except PErr A'} {k : A → Except PErr B} {k' : A' → Except PErr B'}
    (hx : ERel f r x x') (hk : ∀ a a', r a a' → ERel f q (k a) (k' a')) :
    ERel f q (x >>= k) (x' >>= k') := by
  cases x with
  | error e => cases x' with
    | error e' => exact hx
    | ok a' => exact hx.elim
  | ok a => cases x' with
    | error e' => exact hx.elim
    | ok a' => exact hk a a' hx

theorem ERel.mono {A A' : Type} {f : Pos → Pos} {r q : A → A' → Prop} {x : Except PErr A} {x' : Except PErr A'}
    (hx : ERel f r x x') (h : ∀ a a', r a a' → q a a') : ERel f q x x' := by
  cases x with
  | error e => cases x' with
    | error e' => exact hx
    | ok a' => exact hx.elim
  | ok a => cases x' with
    | error e' => exact hx.elim
    | ok a' => exact h a a' hx

/-- related results of a production: related values and related remaining lexer states -/
def OLt {α α' : Type} {n m : Nat} (f : Pos → Pos) (ra : α → α' → Prop) (o : OutLt α n) (o' : OutLt α' m) : Prop :=
  ra o.val o'.val ∧ SRel f o.st o'.st

def OLe {α α' : Type} {n m : Nat} (f : Pos → Pos) (ra : α → α' → Prop) (o : OutLe α n) (o' : OutLe α' m) : Prop :=
  ra o.val o'.val ∧ SRel f o.st o'.st

/-- related states in the subtypes returned by `matchIf`, `expect`, … -/
def SSub {P : St → Prop} {Q : St → Prop} (f : Pos → Pos) (a : { s : St // P s }) (a' : { s : St // Q s }) : Prop :=
  SRel f a.1 a'.1

/-- the value relations: `n' = mapPos f n`, `es' = mapPosL f es` -/
@[reducible] def NR (f : Pos → Pos) (n n' : Node) : Prop := n' = mapPos f n
@[reducible] def LR (f : Pos → Pos) (es es' : List Node) : Prop := es' = mapPosL f es

theorem ERel_wkLt {α α' : Type} {f : Pos → Pos} {ra : α → α' → Prop} {m n m' n' : Nat} {h : m ≤ n} {h' : m' ≤ n'}
    {x : R α m} {x' : R α' m'} (hx : ERel f (OLt f ra) x x') : ERel f (OLt f ra) (wkLt h x) (wkLt h' x') := by
  cases x with
  | error e => cases x' with
    | error e' => exact hx
    | ok a' => exact hx.elim
  | ok a => cases x' with
    | error e' => exact hx.elim
    | ok a' => exact hx

theorem ERel_wkLe {α α' : Type} {f : Pos → Pos} {ra : α → α' → Prop} {m n m' n' : Nat} {h : m ≤ n} {h' : m' ≤ n'}
    {x : Rle α m} {x' : Rle α' m'} (hx : ERel f (OLe f ra) x x') : ERel f (OLe f ra) (wkLe h x) (wkLe h' x') := by
  cases x with
  | error e => cases x' with
    | error e' => exact hx
    | ok a' => exact hx.elim
  | ok a => cases x' with
    | error e' => exact hx.elim
    | ok a' => exact hx

theorem ERel_ltLe {α α' : Type} {f : Pos → Pos} {ra : α → α' → Prop} {m n m' n' : Nat} {h : m ≤ n} {h' : m' ≤ n'}
    {x : R α m} {x' : R α' m'} (hx : ERel f (OLt f ra) x x') : ERel f (OLe f ra) (ltLe h x) (ltLe h' x') := by
  cases x with
  | error e => cases x' with
    | error e' => exact hx
    | ok a' => exact hx.elim
  | ok a => cases x' with
    | error e' => exact hx.elim
    | ok a' => exact hx

theorem ERel_leLt {α α' : Type} {f : Pos → Pos} {ra : α → α' → Prop} {m n m' n' : Nat} {h : m < n} {h' : m' < n'}
    {x : Rle α m} {x' : Rle α' m'} (hx : ERel f (OLe f ra) x x') : ERel f (OLt f ra) (leLt h x) (leLt h' x') := by
  cases x with
  | error e => cases x' with
    | error e' => exact hx
    | ok a' => exact hx.elim
  | ok a => cases x' with
    | error e' => exact hx.elim
    | ok a' => exact hx

end Ckl.C14P
