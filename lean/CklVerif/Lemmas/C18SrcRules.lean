import CklVerif.Lemmas.C19SrcLoop

/-!
  C18Src — rules the `Ev` calculus of C19Src did not have and the string library (string.ckl) needs:
  iteration over the characters of a string (`forString`, invariant rule + the `for` node), the string built-ins
  `find` / `substr` / `length` / `string` / `add` on strings, argument binding with a trailing NAMED argument
  (`find(s, a, start = e)`, `replace(x, a, b, start = e)`), call frames with three / four parameters, a parameter DEFAULT
  (`start = 0`), two-element list literals and the destructuring assignment `[x, y] = e`.
  All position-generic, "premises at k ⟹ conclusion at k + c".
-/
set_option linter.unusedSimpArgs false
namespace Ckl.C18Src
open Ckl Ckl.C03 Ckl.C19Src
variable (ld : Loader)

/-! ### `for ch in <string> do body` -/

/-- **Invariant rule for the loop over the characters of a string.**  `I i r s`: the invariant before the iteration with index `i`
    (`r` the value of the previous iteration).  The model binds the loop variable to the one-character string, evaluates the body
    and REMOVES the variable again after every iteration that ends normally; the step must re-establish the invariant for `i + 1`
    in the state after that removal. -/
theorem forString_inv {kb : Nat} {env : EnvId} {x : String} {body : Node} (cs : List Char)
    (I : Nat → RVal → State → Prop)
    (hstep : ∀ i r s c, I i r s → cs[i]? = some c →
      ∃ r' s', Ev ld kb env body (s.put env x (.str [c])) (.ok r' s') ∧ isCtl r' = false ∧ I (i + 1) r' (s'.remove env x)) :
    ∀ (n i : Nat) (r : RVal) (s : State), i + n = cs.length → I i r s →
      ∃ r' s', I cs.length r' s' ∧
        ∀ f, kb + n < f → forString ld f env x (cs.drop i) body r s = .ok r' s' := by
  intro n
  induction n with
  | zero =>
    intro i r s hi hI
    refine ⟨r, s, by rw [← hi]; simpa using hI, fun f hf => ?_⟩
    obtain ⟨g, rfl, _⟩ := succ_of_lt hf
    have : cs.drop i = [] := by rw [List.drop_eq_nil_iff]; omega
    rw [this, forString]; rfl
  | succ n ih =>
    intro i r s hi hI
    have hlt : i < cs.length := by omega
    obtain ⟨r1, s1, hb, hctl, hI1⟩ := hstep i r s cs[i] hI (List.getElem?_eq_getElem hlt)
    obtain ⟨r2, s2, hI2, hloop⟩ := ih (i + 1) r1 (s1.remove env x) (by omega) hI1
    refine ⟨r2, s2, hI2, fun f hf => ?_⟩
    obtain ⟨g, rfl, hg⟩ := succ_of_lt hf
    rw [List.drop_eq_getElem_cons hlt, forString]
    simp only [EvalM.bind_apply, modifyS, hb g (by omega)]
    unfold isCtl at hctl
    simp only [Bool.or_eq_false_iff] at hctl
    simp only [hctl.1.2, hctl.1.1, hctl.2, Bool.false_eq_true, if_false]
    exact hloop g (by omega)

/-- the `for` node over a string value, given the loop proper; the loop variable was not bound in the frame before -/
theorem Ev.forStr {k kl env x e body what pos s s1 cs r s2}
    (hhid : dictGet x (s.frame env).vars = none)
    (he : Ev ld k env e s (.ok (.str cs) s1))
    (hloop : ∀ f, kl < f → forString ld f env x cs body (.bool true) s1 = .ok r s2) :
    Ev ld (max k kl + 2) env (.for [x] e body what pos) s (.ok r s2) := by
  intro f hf; obtain ⟨g, rfl, hg⟩ := succ_of_lt hf
  obtain ⟨g1, rfl, hg1⟩ := succ_of_lt (show max k kl < g by omega)
  rw [eval]
  have hh : hiddenVars s env [x] = [] := by simp [hiddenVars, hhid]
  have : evalFor ld (g1 + 1) env [x] e body what pos s = .ok r s2 := by
    rw [evalFor, EvalM.bind_apply, he g1 (by omega)]
    simp only [List.headD_cons, hloop g1 (by omega)]
  simp only [this, hh, restoreVars, List.foldl_nil]

/-! ### string built-ins -/

theorem pure_length_str (cs : List Char) (d pos) (s : State) :
    ∃ m, callPure "length" [("obj", .str cs)] d pos = some m ∧ m s = .ok (.int (cs.length : Int)) s :=
  ⟨_, rfl, rfl⟩

theorem pure_find_start (cs t : List Char) (st : Int) (d pos) (s : State) :
    ∃ m, callPure "find" [("start", .int st), ("obj", .str cs), ("part", .str t)] d pos = some m ∧
      m s = .ok (.int (Seq.find cs t st)) s := by
  refine ⟨_, rfl, ?_⟩
  simp [argGet, dictGet, dictHas, RVal.isNull, EvalM.bind_apply, EvalM.pure_apply]

theorem pure_substr2 (cs : List Char) (a : Int) (d pos) (s : State) :
    ∃ m, callPure "substr" [("str", .str cs), ("startidx", .int a)] d pos = some m ∧
      m s = .ok (.str (Seq.substr cs a none)) s := by
  refine ⟨_, rfl, ?_⟩
  simp [argGet, dictGet, dictHas, RVal.isNull, EvalM.bind_apply, EvalM.pure_apply]

theorem pure_substr3 (cs : List Char) (a b : Int) (d pos) (s : State) :
    ∃ m, callPure "substr" [("str", .str cs), ("startidx", .int a), ("endidx", .int b)] d pos = some m ∧
      m s = .ok (.str (Seq.substr cs a (some b))) s := by
  refine ⟨_, rfl, ?_⟩
  simp [argGet, dictGet, dictHas, RVal.isNull, EvalM.bind_apply, EvalM.pure_apply]

theorem pure_string (v : RVal) (d pos) :
    callPure "string" [("obj", v)] d pos = some (do pure (.str (← asStringM v pos))) := by rfl

theorem nativeAdd_int (a b : Int) (pos : Pos) (s : State) : nativeAdd (.int a) (.int b) pos s = .ok (.int (a + b)) s := by
  simp [nativeAdd, EvalM.bind_apply, getS, RVal.isNull]
  rfl

/-! ### argument binding with a trailing named argument -/

theorem setArgs_pos2_named {p q r : String} {rest : List String} {x y z : RVal} {pos : Pos} {s : State}
    (hpq : p ≠ q) (hpr : p ≠ r) (hqr : q ≠ r) (hr : r ≠ "") (hmem : r ∈ p :: q :: rest)
    (hsp : addArgs (p :: q :: rest) = ⟨p :: q :: rest, none⟩) :
    setArgs (p :: q :: rest) [none, none, some r] [x, y, z] pos s = .ok [(r, z), (p, x), (q, y)] s := by
  have hqp : ¬ q = p := fun h => hpq h.symm
  have hrp : ¬ r = p := fun h => hpr h.symm
  have hrq : ¬ r = q := fun h => hqr h.symm
  have hc : (p :: q :: rest).contains r = true := by simpa using hmem
  simp [setArgs, hsp, bindNamed, bindPositional, nameGiven, nextPositional, dictHas, dictGet, dictPut,
    EvalM.bind_apply, EvalM.pure_apply, hpq, hpr, hqr, hqp, hrp, hrq, hr] at hc ⊢
  simp [hc, hpq, hpr, hqr, hqp, hrp, hrq, EvalM.bind_apply, EvalM.pure_apply, dictGet, dictPut, dictHas]

/-! ### `[x, y] = [y, x]`: a two-element list literal of variables, destructuring assignment to variables of the frame -/

theorem isDefined_of_dictHas {s : State} {env : EnvId} {x : String} (h : dictHas x (s.frame env).vars = true) :
    s.isDefined env x = true := by
  unfold State.isDefined State.lookup
  rw [State.lookupF]
  unfold dictHas at h
  cases hg : dictGet x (s.frame env).vars with
  | none => rw [hg] at h; cases h
  | some v => rfl

theorem set_of_dictHas {s : State} {env : EnvId} {x : String} (v : RVal) (h : dictHas x (s.frame env).vars = true) :
    s.set env x v = some (s.put env x v) := by
  unfold State.set; rw [State.setF]; simp only [h, if_true]

theorem dictHas_put_other {s : State} {env : EnvId} {x y : String} (v : RVal) (hne : x ≠ y)
    (h : dictHas y (s.frame env).vars = true) : dictHas y ((s.put env x v).frame env).vars = true := by
  unfold dictHas at h ⊢
  rw [dictGet_vars_put_other_name s env env v hne]; exact h

/-- the swap `[x, y] = [y, x]` of two variables of the frame: a list cell `[vy, vx]` is allocated, then `x := vy`, `y := vx`;
    the value of the statement is the last value assigned -/
theorem Ev.swap2 {k env x y p1 p2 p3 p4 s vx vy}
    (hlx : s.lookup env x = some vx) (hly : s.lookup env y = some vy)
    (hhx : dictHas x (s.frame env).vars = true) (hhy : dictHas y (s.frame env).vars = true) (hne : x ≠ y) :
    Ev ld (k + 4) env (.assignD [x, y] (.list [.ident y p1, .ident x p2] p3) p4) s
      (.ok vx (((s.alloc (.list [vy, vx])).1.put env x vy).put env y vx)) := by
  intro f hf
  obtain ⟨g, rfl⟩ : ∃ g, f = g + 5 := ⟨f - 5, by omega⟩
  have hitems : evalItems ld (g + 3) env [.ident y p1, .ident x p2] p3 s = .ok [vy, vx] s := by
    rw [evalItems]
    · simp only [EvalM.bind_apply, Ev.ident ld hly (k := 0) (g + 2) (by omega)]
      rw [evalItems]
      · simp only [EvalM.bind_apply, Ev.ident ld hlx (k := 0) (g + 1) (by omega)]
        rw [evalItems]; rfl
      · intro _ _ h; cases h
    · intro _ _ h; cases h
  have hlist : eval ld (g + 4) env (.list [.ident y p1, .ident x p2] p3) s
      = .ok (.ref s.heap.size) (s.alloc (.list [vy, vx])).1 := by
    rw [eval, EvalM.bind_apply, hitems]; rfl
  rw [eval]
  simp only [EvalM.bind_apply, hlist]
  have hcell : cellOf (.ref s.heap.size) (s.alloc (.list [vy, vx])).1 = .ok (some (.list [vy, vx])) (s.alloc (.list [vy, vx])).1 := by
    simp [cellOf, cell_alloc_new]
  simp only [hcell, EvalM.pure_apply]
  have h1 : dictHas x ((s.alloc (.list [vy, vx])).1.frame env).vars = true := hhx
  have h2 : dictHas y (((s.alloc (.list [vy, vx])).1.put env x vy).frame env).vars = true :=
    dictHas_put_other vy hne hhy
  simp only [assignAll, EvalM.bind_apply, getS, isDefined_of_dictHas h1, set_of_dictHas _ h1, isDefined_of_dictHas h2,
    set_of_dictHas _ h2, setS, List.getD_cons_zero, List.getD_cons_succ, Bool.not_true, Bool.false_eq_true, if_false,
    EvalM.pure_apply]

end Ckl.C18Src
