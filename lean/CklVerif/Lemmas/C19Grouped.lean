/-
  C19 — `grouped`: the finer law.  `current_key` is the key of the FIRST element of the current
  group (not of the previous element): every element of a group compares equal to the group's first
  element, and the first elements of adjacent groups compare different.
-/
import CklVerif.Lemmas.C19Loops
namespace Ckl.C19
open Ckl Ckl.Lib

/-- `R` holds between every two neighbours -/
def Adjacent {α} (R : α → α → Prop) : List α → Prop
  | [] => True
  | [_] => True
  | a :: b :: rest => R a b ∧ Adjacent R (b :: rest)

variable {α β : Type} (eq0 : β → β → Bool) (key : α → β)

theorem groupedGo_res (xs : List α) (ck : β) (grp : List α) (res : List (List α)) :
    groupedGo eq0 key xs ck grp res = res ++ groupedGo eq0 key xs ck grp [] := by
  induction xs generalizing ck grp res with
  | nil =>
    unfold groupedGo
    split <;> simp
  | cons x xs ih =>
    unfold groupedGo
    split
    · rw [ih _ _ (res ++ [grp]), ih _ _ ([] ++ [grp])]; simp
    · rw [ih]

/-- every element after the first compares equal (`cmp == 0`) to the first -/
def GroupOK (g : List α) : Prop :=
  ∀ h t, g = h :: t → ∀ y ∈ t, eq0 (key h) (key y) = true

/-- the first elements of two neighbouring groups compare different -/
def Boundary (g1 g2 : List α) : Prop :=
  ∀ h1 h2, g1.head? = some h1 → g2.head? = some h2 → eq0 (key h1) (key h2) = false

theorem groupedGo_fine (xs : List α) (h : α) (t : List α)
    (ht : ∀ y ∈ t, eq0 (key h) (key y) = true) :
    ∃ g rest, groupedGo eq0 key xs (key h) (h :: t) [] = g :: rest ∧ g.head? = some h ∧
      (∀ g' ∈ g :: rest, GroupOK eq0 key g') ∧ Adjacent (Boundary eq0 key) (g :: rest) := by
  induction xs generalizing h t with
  | nil =>
    refine ⟨h :: t, [], by simp [groupedGo], rfl, ?_, trivial⟩
    intro g' hg'
    rw [List.mem_singleton] at hg'
    subst hg'
    intro h' t' e y hy
    cases e
    exact ht y hy
  | cons x xs ih =>
    unfold groupedGo
    split
    · rename_i hne
      obtain ⟨g, rest, e, hh, hok, hadj⟩ := ih x [] (by simp)
      rw [groupedGo_res, e]
      refine ⟨h :: t, g :: rest, by simp, rfl, ?_, ?_⟩
      · intro g' hg'
        rcases List.mem_cons.mp hg' with rfl | hg'
        · intro h' t' e' y hy; cases e'; exact ht y hy
        · exact hok g' hg'
      · refine ⟨?_, hadj⟩
        intro h1 h2 e1 e2
        simp only [List.head?_cons, Option.some.injEq] at e1
        rw [hh, Option.some.injEq] at e2
        subst e1 e2
        simpa using hne
    · rename_i heq
      have heq' : eq0 (key h) (key x) = true := by simpa using heq
      have := ih h (t ++ [x]) (by
        intro y hy
        rcases List.mem_append.mp hy with hy | hy
        · exact ht y hy
        · rw [List.mem_singleton] at hy; subst hy; exact heq')
      simpa using this

/-- `grouped` when `cmp(k, k) == 0` for the first key: non-empty groups, each headed by an element
    every other element of the group compares equal to, adjacent heads comparing different -/
theorem groupedM_fine (x : α) (xs : List α) (hrefl : eq0 (key x) (key x) = true) :
    (∀ g ∈ groupedM eq0 key (x :: xs), GroupOK eq0 key g) ∧
    Adjacent (Boundary eq0 key) (groupedM eq0 key (x :: xs)) := by
  simp only [groupedM]
  unfold groupedGo
  simp only [hrefl, Bool.not_true, Bool.false_eq_true, if_false, List.nil_append]
  obtain ⟨g, rest, e, _, hok, hadj⟩ := groupedGo_fine eq0 key xs x [] (by simp)
  rw [e]
  exact ⟨hok, hadj⟩

end Ckl.C19
