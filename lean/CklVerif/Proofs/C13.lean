import CklVerif.Lemmas.C13Eval
import CklVerif.Lemmas.C13Run
import CklVerif.Lemmas.C13Call
import CklVerif.Driver.EvalCmd
import CklVerif.Proofs.C15

/-!
  C13 — only language-level errors escape evaluation.

  `ld.nativeSem` is an ARBITRARY interpretation of the unmodelled built-ins; it may return
  `.fail (.host k)` (a host-language exception).  The theorems below hold for every `ld`.

  Vocabulary (`CklVerif/Lemmas/C13NoHost.lean`):
  * `Out.NH o      := ∀ k s', o ≠ .fail (.host k) s'`
  * `NoHost m      := ∀ s, (m s).NH`                      (a structure with field `nh`)
  * `NHAll ld fuel :=` the conjunction of `NoHost` for the 24 node-reachable functions of the
    mutual block at fuel `fuel` (`CklVerif/Lemmas/C13Step.lean`), proved for all fuels by
    `nhAll` (`CklVerif/Lemmas/C13Eval.lean`).
-/
namespace Ckl.C13
open Ckl

variable (ld : Loader)

/-! ## 1. `invoke` is the containment boundary -/

/-- Whatever `callFn` returns — in particular `.fail (.host k)` — the wrapper that `invoke` puts
    around the call does not return a host failure (it turns it into the runtime error). -/
theorem invoke_boundary (fuel : Nat) (fn : RVal) (bound : List (String × RVal)) (env : EnvId)
    (pos : Pos) (s1 : State) (k : String) (s' : State) :
    (match callFn ld fuel fn bound env pos s1 with
      | .err v m p t s2 => .err v m p (t ++ [(fnName s2 fn, pos)]) s2
      | .fail (.syn e) s2 => .err (.str "ERROR".toList) e.msg pos [] s2
      | .fail (.host k) s2 => .err (.str "ERROR".toList) (fnName s2 fn ++ " failed: " ++ k) pos [] s2
      | other => other : Out RVal) ≠ .fail (.host k) s' :=
  invoke_wrap_NH ld fuel fn bound env pos s1 k s'

/-- a host failure of the callee becomes exactly this runtime error -/
theorem invoke_boundary_host (fuel : Nat) (fn : RVal) (bound : List (String × RVal)) (env : EnvId)
    (pos : Pos) (s1 s2 : State) (k : String)
    (h : callFn ld fuel fn bound env pos s1 = .fail (.host k) s2) :
    (match callFn ld fuel fn bound env pos s1 with
      | .err v m p t s2 => .err v m p (t ++ [(fnName s2 fn, pos)]) s2
      | .fail (.syn e) s2 => .err (.str "ERROR".toList) e.msg pos [] s2
      | .fail (.host k) s2 => .err (.str "ERROR".toList) (fnName s2 fn ++ " failed: " ++ k) pos [] s2
      | other => other : Out RVal)
      = .err (.str "ERROR".toList) (fnName s2 fn ++ " failed: " ++ k) pos [] s2 := by
  rw [h]

/-- Standalone form (no induction): if the evaluation of the argument expressions is not itself
    a host failure, then `invoke` does not return a host failure — whatever `callFn` does. -/
theorem invoke_contains_of_args (fuel : Nat) (fn : RVal) (pre : List RVal) (names : List (Option String))
    (args : List Node) (env : EnvId) (pos : Pos) (s : State)
    (hargs : ∀ k s', evalArgs ld fuel env names args pos s ≠ .fail (.host k) s') :
    ∀ k s', invoke ld (fuel + 1) fn pre names args env pos s ≠ .fail (.host k) s' := by
  have hw := fun bound => NoHost.ofFun (invoke_wrap_NH ld fuel fn bound env pos)
  intro k s'
  unfold Ckl.invoke
  rw [EvalM.bind_apply]
  cases h : evalArgs ld fuel env names args pos s with
  | ok a s1 =>
    dsimp only
    refine NoHost.ne (m := _) ?_ s1 k s'
    nohost!
  | err v m p t s1 => intro h'; cases h'
  | fail f s1 =>
    intro h'
    injection h' with h1 h2
    subst h1 h2
    exact hargs _ _ h

/-! non-vacuity: a loader whose unmodelled natives all raise a host exception.  The callee
    really returns `.fail (.host "boom")`, and `invoke` turns it into the runtime error. -/
def ldBoom : Loader := { nativeSem := fun _ _ s => .fail (.host "boom") s, nativeArgs := fun _ => some [] }

theorem boom_call : callFn ldBoom 1 (.native "foo" 0) [] 0 {} {} = .fail (.host "boom") {} := by
  rw [callFn]; rfl
theorem boom_args : evalArgs ldBoom 1 0 [] [] {} {} = .ok ([], []) {} := by
  unfold Ckl.evalArgs; rfl
theorem boom_invoke : invoke ldBoom 2 (.native "foo" 0) [] [] [] 0 {} {}
    = .err (.str "ERROR".toList) "foo failed: boom" {} [] {} := by
  rw [invoke]
  have h1 : nativeArgNames "foo" = none := rfl
  have h2 : setArgs [] [] [] {} ({} : State) = .ok [] {} := rfl
  have h3 : ldBoom.nativeArgs "foo" = some [] := rfl
  simp only [EvalM.bind_apply, boom_args, h1, h3, getS_apply, EvalM.pure_apply, List.map_nil,
    List.append_nil, h2, boom_call]
  rfl
example : ∃ k s2, callFn ldBoom 1 (.native "foo" 0) [] 0 {} {} = .fail (.host k) s2 := ⟨_, _, boom_call⟩
example : ∀ k s', evalArgs ldBoom 1 0 [] [] {} {} ≠ .fail (.host k) s' := by
  intro k s' h; rw [boom_args] at h; cases h

/-- `invoke` never returns a host failure (for every interpretation of the natives) -/
theorem invoke_contains (fuel : Nat) (fn : RVal) (pre : List RVal) (names : List (Option String))
    (args : List Node) (env : EnvId) (pos : Pos) (s : State) (k : String) (s' : State) :
    invoke ld fuel fn pre names args env pos s ≠ .fail (.host k) s' :=
  ((nhAll ld fuel).invoke fn pre names args env pos).ne s k s'

/-! ## 2. no host failure escapes evaluation -/

/-- flagship: for every loader (hence every interpretation of the unmodelled natives), fuel,
    environment, node and state, evaluation does not end in a host failure -/
theorem eval_no_host (fuel : Nat) (env : EnvId) (n : Node) (s : State) (k : String) (s' : State) :
    eval ld fuel env n s ≠ .fail (.host k) s' :=
  ((nhAll ld fuel).eval env n).ne s k s'

theorem evalAnd_no_host (fuel env es pos) (s : State) (k : String) (s' : State) :
    evalAnd ld fuel env es pos s ≠ .fail (.host k) s' := ((nhAll ld fuel).evalAnd env es pos).ne s k s'
theorem evalOr_no_host (fuel env es pos) (s : State) (k : String) (s' : State) :
    evalOr ld fuel env es pos s ≠ .fail (.host k) s' := ((nhAll ld fuel).evalOr env es pos).ne s k s'
theorem evalIf_no_host (fuel env cs xs els pos) (s : State) (k : String) (s' : State) :
    evalIf ld fuel env cs xs els pos s ≠ .fail (.host k) s' :=
  ((nhAll ld fuel).evalIf env cs xs els pos).ne s k s'
theorem evalSeq_no_host (fuel env ns) (s : State) (k : String) (s' : State) :
    evalSeq ld fuel env ns s ≠ .fail (.host k) s' := ((nhAll ld fuel).evalSeq env ns).ne s k s'
theorem evalItems_no_host (fuel env ns pos) (s : State) (k : String) (s' : State) :
    evalItems ld fuel env ns pos s ≠ .fail (.host k) s' := ((nhAll ld fuel).evalItems env ns pos).ne s k s'
theorem evalPairs_no_host (fuel env ks vs) (s : State) (k : String) (s' : State) :
    evalPairs ld fuel env ks vs s ≠ .fail (.host k) s' := ((nhAll ld fuel).evalPairs env ks vs).ne s k s'
theorem evalBody_no_host (fuel env ns last) (s : State) (k : String) (s' : State) :
    evalBody ld fuel env ns last s ≠ .fail (.host k) s' := ((nhAll ld fuel).evalBody env ns last).ne s k s'
theorem evalFinally_no_host (fuel env ns) (s : State) (k : String) (s' : State) :
    evalFinally ld fuel env ns s ≠ .fail (.host k) s' := ((nhAll ld fuel).evalFinally env ns).ne s k s'
theorem tryHandlers_no_host (fuel env cs hs v msg p t) (s : State) (k : String) (s' : State) :
    tryHandlers ld fuel env cs hs v msg p t s ≠ .fail (.host k) s' :=
  ((nhAll ld fuel).tryHandlers env cs hs v msg p t).ne s k s'
theorem evalArgs_no_host (fuel env names args pos) (s : State) (k : String) (s' : State) :
    evalArgs ld fuel env names args pos s ≠ .fail (.host k) s' :=
  ((nhAll ld fuel).evalArgs env names args pos).ne s k s'
theorem bindParams_no_host (fuel lenv ps ds bound pos) (s : State) (k : String) (s' : State) :
    bindParams ld fuel lenv ps ds bound pos s ≠ .fail (.host k) s' :=
  ((nhAll ld fuel).bindParams lenv ps ds bound pos).ne s k s'
theorem evalFor_no_host (fuel env ids e body what pos) (s : State) (k : String) (s' : State) :
    evalFor ld fuel env ids e body what pos s ≠ .fail (.host k) s' :=
  ((nhAll ld fuel).evalFor env ids e body what pos).ne s k s'
theorem forItems_no_host (fuel env ids xs body result pos) (s : State) (k : String) (s' : State) :
    forItems ld fuel env ids xs body result pos s ≠ .fail (.host k) s' :=
  ((nhAll ld fuel).forItems env ids xs body result pos).ne s k s'
theorem forListLive_no_host (fuel env ids a i body result pos) (s : State) (k : String) (s' : State) :
    forListLive ld fuel env ids a i body result pos s ≠ .fail (.host k) s' :=
  ((nhAll ld fuel).forListLive env ids a i body result pos).ne s k s'
theorem forString_no_host (fuel env x cs body result) (s : State) (k : String) (s' : State) :
    forString ld fuel env x cs body result s ≠ .fail (.host k) s' :=
  ((nhAll ld fuel).forString env x cs body result).ne s k s'
theorem whileLoop_no_host (fuel env c body pos) (s : State) (k : String) (s' : State) :
    whileLoop ld fuel env c body pos s ≠ .fail (.host k) s' :=
  ((nhAll ld fuel).whileLoop env c body pos).ne s k s'
theorem comprStep_no_host (fuel lenv kind ve ke cond pos) (s : State) (k : String) (s' : State) :
    comprStep ld fuel lenv kind ve ke cond pos s ≠ .fail (.host k) s' :=
  ((nhAll ld fuel).comprStep lenv kind ve ke cond pos).ne s k s'
theorem comprLoop_no_host (fuel lenv kind ve ke cond pos l acc) (s : State) (k : String) (s' : State) :
    comprLoop ld fuel lenv kind ve ke cond pos l acc s ≠ .fail (.host k) s' :=
  ((nhAll ld fuel).comprLoop lenv kind ve ke cond pos l acc).ne s k s'
theorem comprProduct_no_host (fuel lenv kind ve ke cond pos x1 vs x2 ws acc) (s : State) (k : String)
    (s' : State) :
    comprProduct ld fuel lenv kind ve ke cond pos x1 vs x2 ws acc s ≠ .fail (.host k) s' :=
  ((nhAll ld fuel).comprProduct lenv kind ve ke cond pos x1 vs x2 ws acc).ne s k s'
theorem comprParallel_no_host (fuel lenv kind ve ke cond pos x1 vs x2 ws acc) (s : State) (k : String)
    (s' : State) :
    comprParallel ld fuel lenv kind ve ke cond pos x1 vs x2 ws acc s ≠ .fail (.host k) s' :=
  ((nhAll ld fuel).comprParallel lenv kind ve ke cond pos x1 vs x2 ws acc).ne s k s'
theorem evalRequire_no_host (fuel env spec name unq syms pos) (s : State) (k : String) (s' : State) :
    evalRequire ld fuel env spec name unq syms pos s ≠ .fail (.host k) s' :=
  ((nhAll ld fuel).evalRequire env spec name unq syms pos).ne s k s'
theorem loadModule_no_host (fuel env ident modulefile pos) (s : State) (k : String) (s' : State) :
    loadModule ld fuel env ident modulefile pos s ≠ .fail (.host k) s' :=
  ((nhAll ld fuel).loadModule env ident modulefile pos).ne s k s'

/-- a whole program that calls a native raising a host exception ends in the RUNTIME error
    (the statement of `eval_no_host` is not vacuous: the host failure really occurs inside) -/
theorem boom_program :
    let st : State := { frames := #[{ vars := [("foo", .native "foo" 0)] }] }
    eval ldBoom 3 0 (.call (.ident "foo" {}) [] [] {}) st
      = .err (.str "ERROR".toList) "foo failed: boom" {} [] st := by
  intro st
  have hcall : callFn ldBoom 1 (.native "foo" 0) [] 0 {} st = .fail (.host "boom") st := by
    rw [callFn]; rfl
  have hargs : evalArgs ldBoom 1 0 [] [] {} st = .ok ([], []) st := by
    unfold Ckl.evalArgs; rfl
  have hid : eval ldBoom 2 0 (.ident "foo" {}) st = .ok (.native "foo" 0) st := by rw [eval]; rfl
  have h1 : nativeArgNames "foo" = none := rfl
  have h2 : setArgs [] [] [] {} st = .ok [] st := rfl
  have h3 : ldBoom.nativeArgs "foo" = some [] := rfl
  have hinv : invoke ldBoom 2 (.native "foo" 0) [] [] [] 0 {} st
      = .err (.str "ERROR".toList) "foo failed: boom" {} [] st := by
    rw [invoke]
    simp only [EvalM.bind_apply, hargs, h1, h3, getS_apply, EvalM.pure_apply, List.map_nil,
      List.append_nil, h2, hcall]
    rfl
  rw [eval, EvalM.bind_apply, hid]
  exact hinv
/-- the whole mutual statement as one conjunction-structure -/
theorem all_no_host (fuel : Nat) : NHAll ld fuel := nhAll ld fuel

/-- corollary for the session interpreter: a program run ends in a value, a runtime error,
    out-of-fuel, `unsupported` or a syntax error of a required module — never in a host failure -/
theorem interpret_no_host (fuel : Nat) (senv : EnvId) (ast : Node) (s : State) (k : String) (s' : State) :
    interpretProg ld fuel senv ast s ≠ .fail (.host k) s' := by
  have h : NoHost (interpretProg ld fuel senv ast) := by
    unfold interpretProg
    have := (nhAll ld fuel).eval
    nohost!
  exact h.ne s k s'

/-- the possible outcomes of a program run, positively -/
theorem interpret_outcome (fuel : Nat) (senv : EnvId) (ast : Node) (s : State) :
    (∃ v s', interpretProg ld fuel senv ast s = .ok v s') ∨
    (∃ v m p t s', interpretProg ld fuel senv ast s = .err v m p t s') ∨
    (∃ s', interpretProg ld fuel senv ast s = .fail .oof s') ∨
    (∃ w s', interpretProg ld fuel senv ast s = .fail (.unsupported w) s') ∨
    (∃ e s', interpretProg ld fuel senv ast s = .fail (.syn e) s') := by
  have h := interpret_no_host ld fuel senv ast s
  cases hr : interpretProg ld fuel senv ast s with
  | ok v s' => exact Or.inl ⟨v, s', rfl⟩
  | err v m p t s' => exact Or.inr (Or.inl ⟨v, m, p, t, s', rfl⟩)
  | fail f s' =>
    cases f with
    | oof => exact Or.inr (Or.inr (Or.inl ⟨s', rfl⟩))
    | unsupported w => exact Or.inr (Or.inr (Or.inr (Or.inl ⟨w, s', rfl⟩)))
    | host k => exact absurd hr (h k s')
    | syn e => exact Or.inr (Or.inr (Or.inr (Or.inr ⟨e, s', rfl⟩)))

/-! ## 3. a runtime error is catchable -/

/-- A block with a `catch all` clause turns a runtime error of its body into the handler's
    result.  (Fuel bookkeeping: the block at fuel `fuel+2` runs its body at `fuel+1` and the
    handler, through `tryHandlers`, at `fuel`.  The statement with the same fuel for body and
    handler is false, see `runtime_error_is_catchable_fuel_counterexample`.) -/
theorem runtime_error_is_catchable (fuel : Nat) (env : EnvId) (es : List Node) (h : Node) (tl : Bool)
    (pos : Pos) (s s1 s2 : State) (v : RVal) (m : String) (p : Pos) (t : List (String × Pos)) (hv : RVal)
    (hbody : evalBody ld (fuel + 1) env es (.bool true) (ghostEnter s pos) = .err v m p t s1)
    (hh : eval ld fuel env h s1 = .ok hv s2) :
    eval ld (fuel + 2) env (.block es [.catchAll] [h] [] tl pos) s = .ok hv (ghostFin s2 pos) := by
  have ht : tryHandlers ld (fuel + 1) env [.catchAll] [h] v m p t s1 = .ok hv s2 := by
    rw [tryHandlers]
    exact hh
  have hf : ∀ s, evalFinally ld (fuel + 1) env [] s = .ok () s := by
    intro s; rw [evalFinally]; rfl
  rw [eval]
  simp only [hbody, ht, hf]

/-- more generally, with a `finally` part: the handler's value is the result provided the
    finally statements succeed -/
theorem runtime_error_is_catchable_finally (fuel : Nat) (env : EnvId) (es fin : List Node) (h : Node)
    (tl : Bool) (pos : Pos) (s s1 s2 s3 : State) (v : RVal) (m : String) (p : Pos)
    (t : List (String × Pos)) (hv : RVal)
    (hbody : evalBody ld (fuel + 1) env es (.bool true) (ghostEnter s pos) = .err v m p t s1)
    (hh : eval ld fuel env h s1 = .ok hv s2)
    (hfin : evalFinally ld (fuel + 1) env fin (ghostFin s2 pos) = .ok () s3) :
    eval ld (fuel + 2) env (.block es [.catchAll] [h] fin tl pos) s = .ok hv s3 := by
  have ht : tryHandlers ld (fuel + 1) env [.catchAll] [h] v m p t s1 = .ok hv s2 := by
    rw [tryHandlers]
    exact hh
  rw [eval]
  simp only [hbody, ht, hfin]

/-- without any catch clause the error passes through the block unchanged (after `finally`) -/
theorem runtime_error_uncaught (fuel : Nat) (env : EnvId) (es : List Node) (tl : Bool)
    (pos : Pos) (s s1 : State) (v : RVal) (m : String) (p : Pos) (t : List (String × Pos))
    (hbody : evalBody ld (fuel + 1) env es (.bool true) (ghostEnter s pos) = .err v m p t s1) :
    eval ld (fuel + 2) env (.block es [] [] [] tl pos) s = .err v m p t (ghostFin s1 pos) := by
  have ht : tryHandlers ld (fuel + 1) env [] [] v m p t s1 = .err v m p t s1 := by
    unfold Ckl.tryHandlers; rfl
  have hf : ∀ s, evalFinally ld (fuel + 1) env [] s = .ok () s := by
    intro s; rw [evalFinally]; rfl
  rw [eval]
  simp only [hbody, ht, hf]

/-! non-vacuity for section 3, and the fuel counterexample -/

/-- the body `x` (an undefined symbol) is a runtime error -/
theorem body_undefined_x (ld : Loader) (hb : ld.baseNames = []) :
    evalBody ld 2 0 [.ident "x" {}] (.bool true) (ghostEnter {} {})
      = throwE "Symbol 'x' not defined" {} (ghostEnter {} {}) := by
  rw [evalBody, EvalM.bind_apply, eval]
  simp only [EvalM.bind_apply, getS_apply, hb]
  rfl

example : eval {} 3 0 (.block [.ident "x" {}] [.catchAll] [.lit (.int 7) {}] [] false {}) {}
    = .ok (.int 7) (ghostFin (ghostEnter {} {}) {}) :=
  runtime_error_is_catchable {} 1 0 [.ident "x" {}] (.lit (.int 7) {}) false {} {} _ _ _ _ _ _ _
    (body_undefined_x {} rfl) (by rw [eval]; rfl)

example : eval {} 3 0 (.block [.ident "x" {}] [.catchAll] [.lit (.int 7) {}] [.lit (.int 8) {}] false {}) {}
    = .ok (.int 7) (ghostFin (ghostEnter {} {}) {}) :=
  runtime_error_is_catchable_finally {} 1 0 [.ident "x" {}] [.lit (.int 8) {}] (.lit (.int 7) {}) false {} {}
    _ _ _ _ _ _ _ _ (body_undefined_x {} rfl) (by rw [eval]; rfl)
    (by rw [evalFinally, EvalM.bind_apply, eval, evalFinally]; rfl)

example : eval {} 3 0 (.block [.ident "x" {}] [] [] [] false {}) {}
    = throwE "Symbol 'x' not defined" {} (ghostFin (ghostEnter {} {}) {}) :=
  runtime_error_uncaught {} 1 0 [.ident "x" {}] false {} {} _ _ _ _ _ (body_undefined_x {} rfl)

/-- Why the fuel offsets in `runtime_error_is_catchable` are needed: with the SAME fuel for body
    and handler the conclusion fails — body errs at fuel 2, the handler `not TRUE` succeeds at
    fuel 2, yet the block at fuel 3 runs out of fuel (the handler only gets fuel 1). -/
theorem runtime_error_is_catchable_fuel_counterexample :
    evalBody {} 2 0 [.ident "x" {}] (.bool true) (ghostEnter {} {})
      = throwE "Symbol 'x' not defined" {} (ghostEnter {} {}) ∧
    eval {} 2 0 (.not (.lit (.bool true) {}) {}) (ghostEnter {} {}) = .ok (.bool false) (ghostEnter {} {}) ∧
    eval {} 3 0 (.block [.ident "x" {}] [.catchAll] [.not (.lit (.bool true) {}) {}] [] false {}) {}
      = .fail .oof (ghostEnter {} {}) := by
  refine ⟨body_undefined_x {} rfl, by rw [eval, EvalM.bind_apply, eval]; rfl, ?_⟩
  have ht : ∀ v m p t s1, tryHandlers {} 2 0 [.catchAll] [.not (.lit (.bool true) {}) {}] v m p t s1
      = .fail .oof s1 := by
    intro v m p t s1
    rw [tryHandlers]
    show eval {} 1 0 (.not (.lit (.bool true) {}) {}) s1 = _
    rw [eval, EvalM.bind_apply, eval]
    rfl
  rw [eval]
  simp only [body_undefined_x {} rfl, throwE_apply, ht]

/-! ## 4. indices are guarded -/

theorem getIndex_int (n : Int) (pos : Pos) (s : State) : getIndex (.int n) pos s = .ok n s := rfl
theorem getIndex_bool (b : Bool) (pos : Pos) (s : State) :
    getIndex (.bool b) pos s = .ok (if b then 1 else 0) s := rfl
theorem getIndex_dec (m : Int) (e : Nat) (pos : Pos) (s : State) :
    getIndex (.dec m e) pos s = .ok (Int.tdiv m ((2 : Int) ^ e)) s := rfl

/-- the index kinds `getIndex` accepts -/
def IsIndexKind : RVal → Prop
  | .int _ | .bool _ | .dec _ _ => True
  | _ => False

/-- `getIndex` returns `.ok` only for int / bool / decimal indices (state unchanged); for a string
    or pattern index the model abstains (`unsupported`: Python's `int(str)`); every other value
    is the runtime error "Invalid index <type>".  Never a host failure. -/
theorem index_guarded (idx : RVal) (pos : Pos) (s : State) :
    (IsIndexKind idx ∧ ∃ i, getIndex idx pos s = .ok i s) ∨
    (¬ IsIndexKind idx ∧ ∃ w, getIndex idx pos s = .fail (.unsupported w) s) ∨
    (¬ IsIndexKind idx ∧ getIndex idx pos s = throwE ("Invalid index " ++ typeName s idx) pos s) := by
  cases idx with
  | int n => exact Or.inl ⟨trivial, n, rfl⟩
  | bool b => exact Or.inl ⟨trivial, _, rfl⟩
  | dec m e => exact Or.inl ⟨trivial, _, rfl⟩
  | str x => exact Or.inr (Or.inl ⟨fun h => h, _, rfl⟩)
  | pat x => exact Or.inr (Or.inl ⟨fun h => h, _, rfl⟩)
  | _ => exact Or.inr (Or.inr ⟨fun h => h, rfl⟩)

/-- `.ok` only for the three numeric kinds -/
theorem getIndex_ok_only (idx : RVal) (pos : Pos) (s : State) (i : Int) (s' : State)
    (h : getIndex idx pos s = .ok i s') : IsIndexKind idx ∧ s' = s := by
  rcases index_guarded idx pos s with ⟨hk, j, hj⟩ | ⟨_, w, hw⟩ | ⟨_, he⟩
  · rw [hj] at h; injection h with h1 h2; exact ⟨hk, h2.symm⟩
  · rw [hw] at h; cases h
  · rw [he] at h; cases h

theorem getIndex_no_host (idx : RVal) (pos : Pos) (s : State) (k : String) (s' : State) :
    getIndex idx pos s ≠ .fail (.host k) s' := (NoHost.getIndex idx pos).ne s k s'

/-- `deref` on a list cell with an int index: the element, or the runtime error
    "Index out of bounds" — nothing else -/
theorem deref_total (fuel : Nat) (env : EnvId) (e idxN : Node) (pos : Pos) (s s1 s2 : State)
    (i : Int) (a : Nat) (xs : List RVal)
    (hidx : eval ld fuel env idxN s = .ok (.int i) s1)
    (hv : eval ld fuel env e s1 = .ok (.ref a) s2)
    (hcell : s2.cell a = some (.list xs)) :
    eval ld (fuel + 1) env (.deref e idxN .absent pos) s =
      match Seq.deref xs i with
      | some x => .ok x s2
      | none => throwE "Index out of bounds" pos s2 := by
  rw [eval]
  have hc : cellOf (.ref a) s2 = .ok (some (.list xs)) s2 := by
    show Out.ok (s2.cell a) s2 = _
    rw [hcell]
  simp only [EvalM.bind_apply, hidx, hv, RVal.isNull, Bool.false_eq_true, if_false, hc, Bool.not_true,
    getIndex_int]
  cases Seq.deref xs i <;> rfl

/-- with the C15 facts about `Seq.deref`: an index in `0 ≤ i < n` yields that element -/
theorem deref_in_range (fuel : Nat) (env : EnvId) (e idxN : Node) (pos : Pos) (s s1 s2 : State)
    (i : Int) (a : Nat) (xs : List RVal)
    (hidx : eval ld fuel env idxN s = .ok (.int i) s1)
    (hv : eval ld fuel env e s1 = .ok (.ref a) s2)
    (hcell : s2.cell a = some (.list xs))
    (h0 : 0 ≤ i) (h1 : i < xs.length) :
    ∃ x, xs[i.toNat]? = some x ∧ eval ld (fuel + 1) env (.deref e idxN .absent pos) s = .ok x s2 := by
  have hd := (Ckl.C15.deref_nonneg xs i h0 h1).1
  have hlt : i.toNat < xs.length := by omega
  refine ⟨xs[i.toNat], List.getElem?_eq_getElem hlt, ?_⟩
  rw [deref_total ld fuel env e idxN pos s s1 s2 i a xs hidx hv hcell, hd, List.getElem?_eq_getElem hlt]

/-- a negative index `-n ≤ i < 0` counts from the end, once -/
theorem deref_negative (fuel : Nat) (env : EnvId) (e idxN : Node) (pos : Pos) (s s1 s2 : State)
    (i : Int) (a : Nat) (xs : List RVal)
    (hidx : eval ld fuel env idxN s = .ok (.int i) s1)
    (hv : eval ld fuel env e s1 = .ok (.ref a) s2)
    (hcell : s2.cell a = some (.list xs))
    (h0 : -(xs.length : Int) ≤ i) (h1 : i < 0) :
    ∃ x, xs[(i + xs.length).toNat]? = some x ∧
      eval ld (fuel + 1) env (.deref e idxN .absent pos) s = .ok x s2 := by
  have hd := (Ckl.C15.deref_neg xs i h0 h1).1
  have hlt : (i + xs.length).toNat < xs.length := by omega
  refine ⟨xs[(i + xs.length).toNat], List.getElem?_eq_getElem hlt, ?_⟩
  rw [deref_total ld fuel env e idxN pos s s1 s2 i a xs hidx hv hcell, hd, List.getElem?_eq_getElem hlt]

/-- every other index is the runtime error "Index out of bounds" (never a host `IndexError`) -/
theorem deref_out_of_bounds (fuel : Nat) (env : EnvId) (e idxN : Node) (pos : Pos) (s s1 s2 : State)
    (i : Int) (a : Nat) (xs : List RVal)
    (hidx : eval ld fuel env idxN s = .ok (.int i) s1)
    (hv : eval ld fuel env e s1 = .ok (.ref a) s2)
    (hcell : s2.cell a = some (.list xs))
    (h : (xs.length : Int) ≤ i ∨ i < -(xs.length : Int)) :
    eval ld (fuel + 1) env (.deref e idxN .absent pos) s = throwE "Index out of bounds" pos s2 := by
  rw [deref_total ld fuel env e idxN pos s s1 s2 i a xs hidx hv hcell, Ckl.C15.deref_out_of_range xs i h]

/-! non-vacuity for section 4: the list `l = [10, 20]` in frame 0 -/
def stL : State := { frames := #[{ vars := [("l", .ref 0)] }], heap := #[.list [.int 10, .int 20]] }

theorem stL_l : eval {} 1 0 (.ident "l" {}) stL = .ok (.ref 0) stL := by rw [eval]; rfl
theorem stL_idx (i : Int) : eval {} 1 0 (.lit (.int i) {}) stL = .ok (.int i) stL := by rw [eval]; rfl

example : getIndex (.int 3) {} stL = .ok 3 stL := rfl
example : IsIndexKind (.int 3) ∧ stL = stL := getIndex_ok_only (.int 3) {} stL 3 stL rfl
example : ¬ IsIndexKind (.null) ∧ getIndex .null {} stL = throwE "Invalid index null" {} stL :=
  ⟨fun h => h, rfl⟩
example : eval {} 2 0 (.deref (.ident "l" {}) (.lit (.int 1) {}) .absent {}) stL = .ok (.int 20) stL :=
  deref_total {} 1 0 _ _ {} stL stL stL 1 0 _ (stL_idx 1) stL_l rfl
example : ∃ x, [RVal.int 10, .int 20][(1 : Int).toNat]? = some x ∧
    eval {} 2 0 (.deref (.ident "l" {}) (.lit (.int 1) {}) .absent {}) stL = .ok x stL :=
  deref_in_range {} 1 0 _ _ {} stL stL stL 1 0 _ (stL_idx 1) stL_l rfl (by decide) (by decide)
example : ∃ x, [RVal.int 10, .int 20][((-2 : Int) + 2).toNat]? = some x ∧
    eval {} 2 0 (.deref (.ident "l" {}) (.lit (.int (-2)) {}) .absent {}) stL = .ok x stL :=
  deref_negative {} 1 0 _ _ {} stL stL stL (-2) 0 _ (stL_idx (-2)) stL_l rfl (by decide) (by decide)
example : eval {} 2 0 (.deref (.ident "l" {}) (.lit (.int 2) {}) .absent {}) stL
    = throwE "Index out of bounds" {} stL :=
  deref_out_of_bounds {} 1 0 _ _ {} stL stL stL 2 0 _ (stL_idx 2) stL_l rfl (Or.inl (by decide))

/-! ## 5. the only source of host failures is `ld.nativeSem`

  `callFn`, `nativeSorted`, `sortedOuter`, `sortedInner`, `call1`, `call2` can return a host failure
  (see `boom_call`), but only one produced by the interpretation of the unmodelled natives: the
  modelled part of the evaluator — including all modelled natives (`callPure`) — never creates one. -/

/-- the modelled natives never end in a host failure -/
theorem callPure_no_host (name : String) (args : List (String × RVal)) (div0 : Option RVal) (pos : Pos)
    (m : EvalM RVal) (h : callPure name args div0 pos = some m) (s : State) (k : String) (s' : State) :
    m s ≠ .fail (.host k) s' :=
  (NoHost.callPure name args div0 pos m h).ne s k s'

example : ∃ m, callPure "add" [("a", .int 1), ("b", .int 2)] none {} = some m := ⟨_, rfl⟩

/-- if `ld.nativeSem` never returns a host failure, `callFn` never does -/
theorem callFn_no_host_of_sem
    (hsem : ∀ name args s k s', ld.nativeSem name args s ≠ .fail (.host k) s')
    (fuel : Nat) (fn : RVal) (bound : List (String × RVal)) (env : EnvId) (pos : Pos)
    (s : State) (k : String) (s' : State) :
    callFn ld fuel fn bound env pos s ≠ .fail (.host k) s' :=
  ((nhCall ld (fun name args => ⟨hsem name args⟩) fuel).callFn fn bound env pos).ne s k s'

/-- likewise the native `sorted` and its helpers -/
theorem sorted_no_host_of_sem
    (hsem : ∀ name args s k s', ld.nativeSem name args s ≠ .fail (.host k) s') (fuel : Nat) :
    (∀ bound env pos s k s', nativeSorted ld fuel bound env pos s ≠ .fail (.host k) s') ∧
    (∀ cmp key senv pos arr i s k s', sortedOuter ld fuel cmp key senv pos arr i s ≠ .fail (.host k) s') ∧
    (∀ cmp key senv pos arr v j s k s', sortedInner ld fuel cmp key senv pos arr v j s ≠ .fail (.host k) s') ∧
    (∀ f x env pos s k s', call1 ld fuel f x env pos s ≠ .fail (.host k) s') ∧
    (∀ f x y env pos s k s', call2 ld fuel f x y env pos s ≠ .fail (.host k) s') := by
  have h := nhCall ld (fun name args => ⟨hsem name args⟩) fuel
  exact ⟨fun bound env pos => (h.nativeSorted bound env pos).ne,
    fun cmp key senv pos arr i => (h.sortedOuter cmp key senv pos arr i).ne,
    fun cmp key senv pos arr v j => (h.sortedInner cmp key senv pos arr v j).ne,
    fun f x env pos => (h.call1 f x env pos).ne,
    fun f x y env pos => (h.call2 f x y env pos).ne⟩

/-- the driver's default interpretation (every unmodelled native abstains with `unsupported`)
    meets the hypothesis, so for it no function at all returns a host failure -/
theorem default_sem_no_host (name : String) (args : List (String × RVal)) (s : State) (k : String)
    (s' : State) : ({} : Loader).nativeSem name args s ≠ .fail (.host k) s' := by
  intro h; cases h

example (fuel fn bound env pos s k s') : callFn ({} : Loader) fuel fn bound env pos s ≠ .fail (.host k) s' :=
  callFn_no_host_of_sem {} default_sem_no_host fuel fn bound env pos s k s'

end Ckl.C13
