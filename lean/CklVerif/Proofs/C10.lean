/-
  C10 — a failed `require` leaves no residue on the module load stack.

  `evalRequire` pushes the module identifier on `State.modstack` (Python: `base.modulestack`)
  before loading and pops it on EVERY exit (value, runtime error, syntax error, host exception);
  nothing else touches the stack.  Hence every function of the evaluator leaves the stack as it
  found it, a whole `interpret` call does, and so does any sequence of `interpret` calls: a failed
  `require` can never make a later `require` report a circular dependency.
-/
import CklVerif.Lemmas.C10Modstack
import CklVerif.Proofs.C05
namespace Ckl.C10
open Ckl Ckl.C05 Ckl.Gen

/-- from the logic's postcondition to the statement about `Ends` outcomes -/
theorem gpost_ends {I : Rel} {α} {s s' : State} {o : Out α} (h : GPost I s o) (he : Ends o s') :
    I.R s s' := by
  cases o with
  | ok a t => cases he; exact h
  | err v m p t u => cases he; exact h
  | fail f t =>
    cases f with
    | oof => exact he.elim
    | unsupported w => exact he.elim
    | host k => cases he; exact h trivial
    | syn e => cases he; exact h trivial

/-- the statement, one field per function of the evaluator's mutual block
    (`Ends o s'`: `o` is a value, a runtime error, a syntax failure or a host failure, and `s'`
    is its final state; nothing is claimed for out-of-fuel / unsupported) -/
structure ModstackPreserved (ld : Loader) (fuel : Nat) : Prop where
  eval : ∀ env n s s', Ends (eval ld fuel env n s) s' → s'.modstack = s.modstack
  evalAnd : ∀ env es pos s s', Ends (evalAnd ld fuel env es pos s) s' → s'.modstack = s.modstack
  evalOr : ∀ env es pos s s', Ends (evalOr ld fuel env es pos s) s' → s'.modstack = s.modstack
  evalIf : ∀ env cs xs els pos s s', Ends (evalIf ld fuel env cs xs els pos s) s' → s'.modstack = s.modstack
  evalSeq : ∀ env ns s s', Ends (evalSeq ld fuel env ns s) s' → s'.modstack = s.modstack
  evalItems : ∀ env ns pos s s', Ends (evalItems ld fuel env ns pos s) s' → s'.modstack = s.modstack
  evalPairs : ∀ env ks vs s s', Ends (evalPairs ld fuel env ks vs s) s' → s'.modstack = s.modstack
  evalBody : ∀ env ns last s s', Ends (evalBody ld fuel env ns last s) s' → s'.modstack = s.modstack
  evalFinally : ∀ env ns s s', Ends (evalFinally ld fuel env ns s) s' → s'.modstack = s.modstack
  tryHandlers : ∀ env cs hs v msg p t s s', Ends (tryHandlers ld fuel env cs hs v msg p t s) s' → s'.modstack = s.modstack
  invoke : ∀ fn pre names args env pos s s', Ends (invoke ld fuel fn pre names args env pos s) s' → s'.modstack = s.modstack
  evalArgs : ∀ env names args pos s s', Ends (evalArgs ld fuel env names args pos s) s' → s'.modstack = s.modstack
  callFn : ∀ fn bound env pos s s', Ends (callFn ld fuel fn bound env pos s) s' → s'.modstack = s.modstack
  bindParams : ∀ lenv ps ds bound pos s s', Ends (bindParams ld fuel lenv ps ds bound pos s) s' → s'.modstack = s.modstack
  evalFor : ∀ env ids e body what pos s s', Ends (evalFor ld fuel env ids e body what pos s) s' → s'.modstack = s.modstack
  forItems : ∀ env ids xs body r pos s s', Ends (forItems ld fuel env ids xs body r pos s) s' → s'.modstack = s.modstack
  forListLive : ∀ env ids a i body r pos s s', Ends (forListLive ld fuel env ids a i body r pos s) s' → s'.modstack = s.modstack
  forString : ∀ env x cs body r s s', Ends (forString ld fuel env x cs body r s) s' → s'.modstack = s.modstack
  whileLoop : ∀ env c body pos s s', Ends (whileLoop ld fuel env c body pos s) s' → s'.modstack = s.modstack
  comprStep : ∀ lenv kind ve ke cond pos s s', Ends (comprStep ld fuel lenv kind ve ke cond pos s) s' → s'.modstack = s.modstack
  comprLoop : ∀ lenv kind ve ke cond pos l acc s s', Ends (comprLoop ld fuel lenv kind ve ke cond pos l acc s) s' → s'.modstack = s.modstack
  comprProduct : ∀ lenv kind ve ke cond pos x1 vs x2 ws acc s s', Ends (comprProduct ld fuel lenv kind ve ke cond pos x1 vs x2 ws acc s) s' → s'.modstack = s.modstack
  comprParallel : ∀ lenv kind ve ke cond pos x1 vs x2 ws acc s s', Ends (comprParallel ld fuel lenv kind ve ke cond pos x1 vs x2 ws acc s) s' → s'.modstack = s.modstack
  nativeSorted : ∀ bound env pos s s', Ends (nativeSorted ld fuel bound env pos s) s' → s'.modstack = s.modstack
  sortedOuter : ∀ cmp key senv pos arr i s s', Ends (sortedOuter ld fuel cmp key senv pos arr i s) s' → s'.modstack = s.modstack
  sortedInner : ∀ cmp key senv pos arr v j s s', Ends (sortedInner ld fuel cmp key senv pos arr v j s) s' → s'.modstack = s.modstack
  call1 : ∀ f x env pos s s', Ends (call1 ld fuel f x env pos s) s' → s'.modstack = s.modstack
  call2 : ∀ f x y env pos s s', Ends (call2 ld fuel f x y env pos s) s' → s'.modstack = s.modstack
  evalRequire : ∀ env spec name unq syms pos s s', Ends (evalRequire ld fuel env spec name unq syms pos s) s' → s'.modstack = s.modstack
  loadModule : ∀ env ident file pos s s', Ends (loadModule ld fuel env ident file pos s) s' → s'.modstack = s.modstack

/-- **C10.**  Every function of the evaluator leaves the module load stack unchanged on every
    exit.  `hNat`: the (arbitrary) interpretation of the unmodelled natives does so as well. -/
theorem modstack_preserved {ld : Loader} (hNat : NativeKeepsModstack ld) (fuel : Nat) :
    ModstackPreserved ld fuel := by
  have h0 := allStack hNat fuel
  exact {
    eval := fun env n s s' h => gpost_ends ((h0.eval s env n).run s (IStack.refl s)) h
    evalAnd := fun env es pos s s' h => gpost_ends ((h0.evalAnd s env es pos).run s (IStack.refl s)) h
    evalOr := fun env es pos s s' h => gpost_ends ((h0.evalOr s env es pos).run s (IStack.refl s)) h
    evalIf := fun env cs xs els pos s s' h => gpost_ends ((h0.evalIf s env cs xs els pos).run s (IStack.refl s)) h
    evalSeq := fun env ns s s' h => gpost_ends ((h0.evalSeq s env ns).run s (IStack.refl s)) h
    evalItems := fun env ns pos s s' h => gpost_ends ((h0.evalItems s env ns pos).run s (IStack.refl s)) h
    evalPairs := fun env ks vs s s' h => gpost_ends ((h0.evalPairs s env ks vs).run s (IStack.refl s)) h
    evalBody := fun env ns last s s' h => gpost_ends ((h0.evalBody s env ns last).run s (IStack.refl s)) h
    evalFinally := fun env ns s s' h => gpost_ends ((h0.evalFinally s env ns).run s (IStack.refl s)) h
    tryHandlers := fun env cs hs v msg p t s s' h => gpost_ends ((h0.tryHandlers s env cs hs v msg p t).run s (IStack.refl s)) h
    invoke := fun fn pre names args env pos s s' h => gpost_ends ((h0.invoke s fn pre names args env pos).run s (IStack.refl s)) h
    evalArgs := fun env names args pos s s' h => gpost_ends ((h0.evalArgs s env names args pos).run s (IStack.refl s)) h
    callFn := fun fn bound env pos s s' h => gpost_ends ((h0.callFn s fn bound env pos).run s (IStack.refl s)) h
    bindParams := fun lenv ps ds bound pos s s' h => gpost_ends ((h0.bindParams s lenv ps ds bound pos).run s (IStack.refl s)) h
    evalFor := fun env ids e body what pos s s' h => gpost_ends ((h0.evalFor s env ids e body what pos).run s (IStack.refl s)) h
    forItems := fun env ids xs body r pos s s' h => gpost_ends ((h0.forItems s env ids xs body r pos).run s (IStack.refl s)) h
    forListLive := fun env ids a i body r pos s s' h => gpost_ends ((h0.forListLive s env ids a i body r pos).run s (IStack.refl s)) h
    forString := fun env x cs body r s s' h => gpost_ends ((h0.forString s env x cs body r).run s (IStack.refl s)) h
    whileLoop := fun env c body pos s s' h => gpost_ends ((h0.whileLoop s env c body pos).run s (IStack.refl s)) h
    comprStep := fun lenv kind ve ke cond pos s s' h => gpost_ends ((h0.comprStep s lenv kind ve ke cond pos).run s (IStack.refl s)) h
    comprLoop := fun lenv kind ve ke cond pos l acc s s' h => gpost_ends ((h0.comprLoop s lenv kind ve ke cond pos l acc).run s (IStack.refl s)) h
    comprProduct := fun lenv kind ve ke cond pos x1 vs x2 ws acc s s' h => gpost_ends ((h0.comprProduct s lenv kind ve ke cond pos x1 vs x2 ws acc).run s (IStack.refl s)) h
    comprParallel := fun lenv kind ve ke cond pos x1 vs x2 ws acc s s' h => gpost_ends ((h0.comprParallel s lenv kind ve ke cond pos x1 vs x2 ws acc).run s (IStack.refl s)) h
    nativeSorted := fun bound env pos s s' h => gpost_ends ((h0.nativeSorted s bound env pos).run s (IStack.refl s)) h
    sortedOuter := fun cmp key senv pos arr i s s' h => gpost_ends ((h0.sortedOuter s cmp key senv pos arr i).run s (IStack.refl s)) h
    sortedInner := fun cmp key senv pos arr v j s s' h => gpost_ends ((h0.sortedInner s cmp key senv pos arr v j).run s (IStack.refl s)) h
    call1 := fun f x env pos s s' h => gpost_ends ((h0.call1 s f x env pos).run s (IStack.refl s)) h
    call2 := fun f x y env pos s s' h => gpost_ends ((h0.call2 s f x y env pos).run s (IStack.refl s)) h
    evalRequire := fun env spec name unq syms pos s s' h => gpost_ends ((h0.evalRequire s env spec name unq syms pos).run s (IStack.refl s)) h
    loadModule := fun env ident file pos s s' h => gpost_ends ((h0.loadModule s env ident file pos).run s (IStack.refl s)) h }

/-- the driver's default interpretation of the unmodelled natives abstains -/
theorem default_nativeSem_keeps_modstack : NativeKeepsModstack {} := by
  intro name args s
  exact fun h => h.elim

theorem nativeKeepsModstack_of_abstains {ld : Loader}
    (h : ∀ name args s, ∃ w, ld.nativeSem name args s = .fail (.unsupported w) s) :
    NativeKeepsModstack ld := by
  intro name args s
  obtain ⟨w, hw⟩ := h name args s
  rw [hw]; exact fun h => h.elim

/-- a whole program run through `Interpreter.interpret` -/
theorem interpret_modstack {ld : Loader} (hNat : NativeKeepsModstack ld) {fuel senv ast s s'}
    (h : Ends (interpretProg ld fuel senv ast s) s') : s'.modstack = s.modstack := by
  have he := (modstack_preserved hNat fuel).eval senv ast s
  unfold interpretProg at h
  rw [bind_def] at h
  cases hr : eval ld fuel senv ast s with
  | ok v s1 =>
    rw [hr] at h he
    have : s1 = s' := by
      cases v <;> exact h
    exact he s' this
  | err v m p t s1 => rw [hr] at h he; exact he s' h
  | fail f s1 => rw [hr] at h he; exact he s' h

/-! ### sessions: any sequence of `interpret` calls on one interpreter -/

/-- the state an outcome leaves behind; `none` when the model abstains (out of fuel, unsupported) -/
def nextState : Out RVal → Option State
  | .ok _ s' => some s'
  | .err _ _ _ _ s' => some s'
  | .fail (.syn _) s' => some s'
  | .fail (.host _) s' => some s'
  | .fail _ _ => none

/-- run the programs one after the other on the same interpreter, each continuing with the state
    the previous one left behind — whatever its outcome was -/
def runSession (ld : Loader) (fuel : Nat) (senv : EnvId) : List Node → State → Option State
  | [], s => some s
  | p :: ps, s =>
    match nextState (interpretProg ld fuel senv p s) with
    | some s' => runSession ld fuel senv ps s'
    | none => none

theorem nextState_ends {o : Out RVal} {s' : State} (h : nextState o = some s') : Ends o s' := by
  cases o with
  | ok a t => cases h; rfl
  | err v m p t u => cases h; rfl
  | fail f t =>
    cases f with
    | oof => cases h
    | unsupported w => cases h
    | host k => cases h; rfl
    | syn e => cases h; rfl

theorem session_modstack {ld : Loader} (hNat : NativeKeepsModstack ld) {fuel senv} :
    ∀ (progs : List Node) (s s' : State), runSession ld fuel senv progs s = some s' →
      s'.modstack = s.modstack := by
  intro progs
  induction progs with
  | nil => intro s s' h; cases h; rfl
  | cons p ps ih =>
    intro s s' h
    simp only [runSession] at h
    cases hn : nextState (interpretProg ld fuel senv p s) with
    | none => rw [hn] at h; cases h
    | some s1 =>
      rw [hn] at h
      exact (ih s1 s' h).trans (interpret_modstack hNat (nextState_ends hn))

/-- starting with an empty load stack, the stack is empty again after ANY sequence of interpret
    calls, failed `require`s included -/
theorem modstack_empty_between_calls {ld : Loader} (hNat : NativeKeepsModstack ld) {fuel senv}
    {progs : List Node} {s s' : State} (h0 : s.modstack = [])
    (h : runSession ld fuel senv progs s = some s') : s'.modstack = [] :=
  (session_modstack hNat progs s s' h).trans h0

/-- … so the circular-dependency test of a later `require` never fires because of an earlier,
    failed one -/
theorem no_stale_circular_dependency {ld : Loader} (hNat : NativeKeepsModstack ld) {fuel senv}
    {progs : List Node} {s s' : State} (h0 : s.modstack = [])
    (h : runSession ld fuel senv progs s = some s') (ident : String) :
    s'.modstack.contains ident = false := by
  rw [modstack_empty_between_calls hNat h0 h]; rfl

/-! ### non-vacuity -/

example : NativeKeepsModstack {} := default_nativeSem_keeps_modstack

theorem ldBroken_keeps : NativeKeepsModstack ldBroken :=
  nativeKeepsModstack_of_abstains (fun name _ _ => ⟨"native " ++ name, rfl⟩)

/-- `require broken` at top level (the module has a syntax error) -/
def reqBroken : Node := .require (.lit (.str ['b','r','o','k','e','n']) {}) none false none {}
/-- `require miss` (no such module): a runtime error -/
def reqMissing : Node := .require (.lit (.str ['m','i','s','s']) {}) none false none {}

-- both requires fail (syntax failure resp. runtime error), the session continues, and the
-- load stack is empty afterwards (checked by evaluation: string operations do not reduce in
-- the kernel)
#guard (match interpretProg ldBroken 50 0 reqBroken st0 with
  | .fail (.syn _) s' => s'.modstack.isEmpty | _ => false)
#guard (match interpretProg ldBroken 50 0 reqMissing st0 with
  | .err _ _ _ _ s' => s'.modstack.isEmpty | _ => false)
#guard (match runSession ldBroken 50 0 [reqBroken, reqMissing, callBroken, reqBroken] st0 with
  | some s' => s'.modstack.isEmpty | none => false)

example {s'} (h : runSession ldBroken 50 0 [reqBroken, reqMissing, callBroken, reqBroken] st0 = some s') :
    s'.modstack = [] :=
  modstack_empty_between_calls ldBroken_keeps rfl h

/-! ### an aborted `for` loop leaves no loop variable behind -/

/-- a Python dict has no duplicate keys -/
def NodupKeys {β} (d : List (String × β)) : Prop := (d.map Prod.fst).Nodup

theorem dictGet_none_of_not_mem {β} {x : String} {d : List (String × β)}
    (h : x ∉ d.map Prod.fst) : dictGet x d = none := by
  induction d with
  | nil => rfl
  | cons hd tl ih =>
    obtain ⟨k, v⟩ := hd
    simp only [List.map_cons, List.mem_cons, not_or] at h
    simp only [dictGet, h.1, if_false]
    exact ih h.2

theorem keys_dictDel_subset {β} (x : String) (d : List (String × β)) :
    ∀ k, k ∈ (dictDel x d).map Prod.fst → k ∈ d.map Prod.fst := by
  induction d with
  | nil => intro k h; exact h
  | cons hd tl ih =>
    obtain ⟨k', v⟩ := hd
    intro k h
    simp only [dictDel] at h
    split at h
    · exact List.mem_cons_of_mem _ h
    · simp only [List.map_cons, List.mem_cons] at h ⊢
      rcases h with h | h
      · exact Or.inl h
      · exact Or.inr (ih k h)

theorem nodupKeys_dictDel {β} (x : String) {d : List (String × β)} (h : NodupKeys d) :
    NodupKeys (dictDel x d) := by
  induction d with
  | nil => exact h
  | cons hd tl ih =>
    obtain ⟨k', v⟩ := hd
    have h' : k' ∉ tl.map Prod.fst ∧ NodupKeys tl := by
      simpa [NodupKeys] using h
    simp only [dictDel]
    split
    · exact h'.2
    · show ((k', v) :: dictDel x tl |>.map Prod.fst).Nodup
      simp only [List.map_cons, List.nodup_cons]
      exact ⟨fun hm => h'.1 (keys_dictDel_subset x tl k' hm), ih h'.2⟩

theorem not_mem_dictDel {β} (x : String) {d : List (String × β)} (h : NodupKeys d) :
    x ∉ (dictDel x d).map Prod.fst := by
  induction d with
  | nil => simp [dictDel]
  | cons hd tl ih =>
    obtain ⟨k', v⟩ := hd
    have h' : k' ∉ tl.map Prod.fst ∧ NodupKeys tl := by
      simpa [NodupKeys] using h
    simp only [dictDel]
    split
    · rename_i hx; subst hx; exact h'.1
    · rename_i hx
      simp only [List.map_cons, List.mem_cons, not_or]
      exact ⟨hx, ih h'.2⟩

/-- the frame `env` after removing `x` -/
theorem frame_remove (s : State) (env : EnvId) (x : String) :
    ((s.remove env x).frame env).vars = dictDel x (s.frame env).vars := by
  unfold State.remove State.frame
  simp only [Array.getD_eq_getD_getElem?, Array.getElem?_modify, if_true]
  cases s.frames[env]? with
  | none => rfl
  | some f => rfl

theorem removeAll_frame (env : EnvId) (ids : List String) (s : State)
    (h : NodupKeys (s.frame env).vars) :
    NodupKeys ((ids.foldl (fun s x => s.remove env x) s).frame env).vars ∧
    ∀ x ∈ ids, x ∉ ((ids.foldl (fun s x => s.remove env x) s).frame env).vars.map Prod.fst := by
  induction ids generalizing s with
  | nil => exact ⟨h, fun _ hx => absurd hx (by simp)⟩
  | cons y ys ih =>
    have h1 : NodupKeys ((s.remove env y).frame env).vars := by
      rw [frame_remove]; exact nodupKeys_dictDel y h
    obtain ⟨hn, hall⟩ := ih (s.remove env y) h1
    refine ⟨hn, fun x hx => ?_⟩
    rcases List.mem_cons.mp hx with rfl | hx
    · -- removed first; later removals only delete keys
      have h0 : x ∉ ((s.remove env x).frame env).vars.map Prod.fst := by
        rw [frame_remove]; exact not_mem_dictDel x h
      have mono : ∀ (l : List String) (s : State), x ∉ (s.frame env).vars.map Prod.fst →
          x ∉ ((l.foldl (fun s x => s.remove env x) s).frame env).vars.map Prod.fst := by
        intro l
        induction l with
        | nil => intro s h; exact h
        | cons z zs ihz =>
          intro s h
          refine ihz (s.remove env z) ?_
          rw [frame_remove]; exact fun hm => h (keys_dictDel_subset z _ x hm)
      exact mono ys _ h0
    · exact hall x hx

/-- the hidden bindings are exactly bindings the loop identifiers had in frame `env` before the loop -/
theorem hiddenVars_spec (s : State) (env : EnvId) (ids : List String) :
    ∀ xv ∈ hiddenVars s env ids, xv.1 ∈ ids ∧ dictGet xv.1 (s.frame env).vars = some xv.2 := by
  intro xv hxv
  unfold hiddenVars at hxv
  rw [List.mem_filterMap] at hxv
  obtain ⟨x, hx, hm⟩ := hxv
  cases hg : dictGet x (s.frame env).vars with
  | none => rw [hg] at hm; cases hm
  | some v => rw [hg] at hm; cases hm; exact ⟨hx, hg⟩

/-- **for-cleanup.**  When a `for` statement ends with a runtime error, the error state is the
    one of the loop proper with all loop variables removed from frame `env` (if that frame is a
    proper dict — no duplicate keys — none of the loop variables is bound in it at that point) and
    then the bindings the loop had hidden put back: nothing but what was bound before the loop. -/
theorem for_cleanup_on_error {ld : Loader} {fuel env ids e body what pos s v m p t s'}
    (h : eval ld (fuel+1) env (.for ids e body what pos) s = .err v m p t s') :
    ∃ s1, evalFor ld fuel env ids e body what pos s = .err v m p t s1 ∧
      s' = restoreVars env (hiddenVars s env ids) (ids.foldl (fun s x => s.remove env x) s1) ∧
      (NodupKeys (s1.frame env).vars →
        ∀ x ∈ ids, dictGet x ((ids.foldl (fun s x => s.remove env x) s1).frame env).vars = none) := by
  simp only [eval] at h
  cases hr : evalFor ld fuel env ids e body what pos s with
  | ok a s1 => rw [hr] at h; cases h
  | fail f s1 => rw [hr] at h; cases f <;> cases h
  | err v1 m1 p1 t1 s1 =>
    rw [hr] at h
    cases h
    refine ⟨s1, rfl, rfl, fun hn x hx => ?_⟩
    exact dictGet_none_of_not_mem ((removeAll_frame env ids s1 hn).2 x hx)


/-- `for x in [12] do error 12` in the session frame -/
def forErr : Node := .for ["x"] (.list [n12] {}) nErr12 "" {}

-- the loop body fails, the error leaves the loop, `x` is not bound in the session frame afterwards
#guard (match eval {} 20 1 forErr (initialState true []).1 with
  | .err (.int 12) _ _ _ s' => (dictGet "x" (s'.frame 1).vars).isNone
  | _ => false)
-- … whereas it is bound at the moment of the failure (state of the loop proper)
#guard (match evalFor {} 19 1 ["x"] (.list [n12] {}) nErr12 "" {} (initialState true []).1 with
  | .err (.int 12) _ _ _ s1 => (dictGet "x" (s1.frame 1).vars).isSome
  | _ => false)

example {v m p t s'} (h : eval {} 20 1 forErr (initialState true []).1 = .err v m p t s') :
    ∃ s1, evalFor {} 19 1 ["x"] (.list [n12] {}) nErr12 "" {} (initialState true []).1 = .err v m p t s1 ∧
      (NodupKeys (s1.frame 1).vars →
        dictGet "x" ((["x"].foldl (fun s x => s.remove 1 x) s1).frame 1).vars = none) := by
  obtain ⟨s1, h1, _, h3⟩ := for_cleanup_on_error h
  exact ⟨s1, h1, fun hn => h3 hn "x" (by simp)⟩

-- a variable the loop variable had hidden is bound again, to its old value, after the failed loop
#guard (match eval {} 20 1 forErr ((initialState true []).1.put 1 "x" (.int 7)) with
  | .err (.int 12) _ _ _ s' => (match dictGet "x" (s'.frame 1).vars with | some (.int 7) => true | _ => false)
  | _ => false)
-- ... and after a loop that ends normally
#guard (match eval {} 20 1 (.for ["x"] (.list [n12] {}) n12 "" {}) ((initialState true []).1.put 1 "x" (.int 7)) with
  | .ok _ s' => (match dictGet "x" (s'.frame 1).vars with | some (.int 7) => true | _ => false)
  | _ => false)

end Ckl.C10
