/-
  C14 (optional semicolons) — a trailing `;` after a script.

  `parse_bare_block` reads `statement (; statement)*` and lets the input end after a `;`.  So
  appending one `;` to a script that parses — and that is not empty and does not already end with
  a `;` — changes nothing: every statement but the last is parsed as before (it is followed by the
  same tokens), the last one is followed by the stopper `;` instead of the end of the input
  (extension lemma), and the loop then stops behind the new `;`.
-/
import CklVerif.Lemmas.C14ParensClimb
import CklVerif.Lemmas.C14ParensSufMain
namespace Ckl.C14X
open Ckl Ckl.Parser
open Ckl.C02P (plain plainLe plain_eq_ok plainLe_eq_ok Follow)

local notation "kw" => (some TokType.keyword)
local notation "ip" => (some TokType.interpunction)

set_option linter.unusedSimpArgs false
set_option linter.unusedVariables false

/-- the token list does not end with a `;` -/
def NoSemiEnd (ts : List Token) : Prop := ∀ t, ts.getLast? = some t → St.tokIs t c!";" ip = false

theorem NoSemiEnd.suffix {r s : List Token} (h : NoSemiEnd s) (hr : r <:+ s) : NoSemiEnd r := by
  intro t ht
  obtain ⟨pre, rfl⟩ := hr
  apply h t
  cases r with
  | nil => simp at ht
  | cons a l => rw [List.getLast?_append, ht]; rfl

theorem matchIf_some_toks {s : St} {v : List Char} {ty : Option TokType} {a : { s' : St // s'.toks.length < s.toks.length }}
    (h : s.matchIf v ty = some a) : ∃ t, s.toks = t :: a.1.toks ∧ St.tokIs t v ty = true := by
  obtain ⟨p, ts⟩ := s
  cases ts with
  | nil => simp [St.matchIf] at h
  | cons t tl =>
    simp only [St.matchIf] at h
    split at h
    · rename_i hb
      simp only [Option.some.injEq] at h
      subst h
      exact ⟨t, rfl, hb⟩
    · cases h

theorem blockOrStmt_suffix (c : Ctx) (s : St) {o : OutLt Node s.toks.length}
    (h : (if s.peekn 1 c!"do" kw then pBlock c s else pStatement c s) = .ok o) : o.st.toks <:+ s.toks := by
  split at h
  · exact pBlock_suffix c s h
  · exact pStatement_suffix c s h

/-- the extension by one `;` -/
def semiExt (semi : Token) (hsemi : IsSemi semi) : Ext := ⟨semi, [], hsemi.stop⟩

/-- the statement loop of `parse_bare_block` that ran to the end of the input runs to the end of the
    input extended by a `;`, with the same statements -/
theorem bareLoop_semi (c c' : Ctx) (hv : c'.validRe = c.validRe) (semi : Token) (hsemi : IsSemi semi) :
    ∀ (k : Nat) (st st' : St) (acc : List Node), st.toks.length = k → SRel (semiExt semi hsemi) st st' →
      NoSemiEnd st.toks → ∀ o, bareLoop c st acc = .ok o → o.st.toks = [] →
      ∃ o', bareLoop c' st' acc = .ok o' ∧ o'.val = o.val ∧ o'.st.toks = [] := by
  intro k
  induction k using Nat.strongRecOn with
  | _ k ih =>
    intro st st' acc hk hs hns o ho ho0
    have hsemiT : St.tokIs semi c!";" ip = true := by simp [St.tokIs, hsemi.1, hsemi.2]
    by_cases hn : st.toks = []
    · -- the first loop had nothing to read; the second reads the `;` and stops
      rw [bareLoop, matchIf_nil hn] at ho
      cases ho
      obtain ⟨p', ts'⟩ := st'
      have e2 : ts' = [semi] := by have := hs.toks; simpa [hn, semiExt] using this
      subst e2
      rw [bareLoop]
      simp [St.matchIf, hsemiT, St.hasNext]
    · rw [bareLoop] at ho ⊢
      rcases matchIf_cases hs c!";" ip with ⟨e1, e2⟩ | ⟨⟨s1, h1⟩, ⟨s1', h1'⟩, e1, e2, hs1⟩ | h0
      · rw [e1] at ho; cases ho; exact (hn ho0).elim
      · rw [e1] at ho
        rw [e2]
        dsimp only at hs1 ho ⊢
        obtain ⟨t, hst, htsemi⟩ := matchIf_some_toks e1
        dsimp only at hst
        by_cases hn1 : s1.toks = []
        · exfalso
          have := hns t (by rw [hst, hn1]; rfl)
          rw [this] at htsemi; cases htsemi
        · have hh1 : s1.hasNext = true := by simpa [St.hasNext] using hn1
          simp only [hh1, hasNext_ext hs1, Bool.not_true, Bool.false_eq_true, if_false] at ho ⊢
          have hrel := blockOrStmt_rel (hyp_at (semiExt semi hsemi) s1.toks.length) (c := c) (c' := c') ⟨hv⟩ hs1
            (by omega)
          cases hst1 : (if s1.peekn 1 c!"do" kw then pBlock c s1 else pStatement c s1) with
          | error e => rw [hst1] at ho; cases ho
          | ok o1 =>
            rw [hst1] at ho hrel
            obtain ⟨e, s2, h2⟩ := o1
            have hsuf : s2.toks <:+ s1.toks := blockOrStmt_suffix c s1 hst1
            cases hst2 : (if s1'.peekn 1 c!"do" kw then pBlock c' s1' else pStatement c' s1') with
            | error e' => rw [hst2] at hrel; exact hrel.elim
            | ok o2 =>
              rw [hst2] at hrel
              obtain ⟨e', s2', h2'⟩ := o2
              obtain ⟨hee, hs2⟩ := hrel
              dsimp only at hee hs2
              subst hee
              simp only [bind_ok] at ho ⊢
              have hns2 : NoSemiEnd s2.toks :=
                (hns.suffix (by rw [hst]; exact List.suffix_cons _ _)).suffix hsuf
              cases hl : bareLoop c s2 (acc ++ [e]) with
              | error er => rw [hl] at ho; cases ho
              | ok o3 =>
                rw [hl] at ho
                obtain ⟨r, s3, h3⟩ := o3
                simp only [bind_ok, pure, Except.pure] at ho
                cases ho
                obtain ⟨o', ho', hv', ht'⟩ := ih s2.toks.length (by omega) s2 s2' (acc ++ [e]) rfl hs2 hns2 _ hl ho0
                obtain ⟨r', s3', h3'⟩ := o'
                rw [ho']
                exact ⟨_, rfl, hv', ht'⟩
      · exact (hn h0).elim

theorem bareLoop_nil_ok (c : Ctx) (s : St) (acc : List Node) (h : s.toks = []) :
    bareLoop c s acc = .ok ⟨acc, s, Nat.le_refl _⟩ := by
  rw [bareLoop, matchIf_nil h]

/-- `parse_bare_block` that ran to the end of the input runs to the end of the input extended by a
    `;`, with the same result -/
theorem pBareBlock_semi (c c' : Ctx) (hv : c'.validRe = c.validRe) (semi : Token) (hsemi : IsSemi semi)
    (tlv : Bool) (st st' : St) (hs : SRel (semiExt semi hsemi) st st') (hns : NoSemiEnd st.toks)
    (o : OutLt Node st.toks.length) (ho : pBareBlock c tlv st = .ok o) (ho0 : o.st.toks = []) :
    ∃ o', pBareBlock c' tlv st' = .ok o' ∧ o'.val = o.val ∧ o'.st.toks = [] := by
  rw [pBareBlock] at ho ⊢
  by_cases hn0 : st.toks = []
  · rw [blockOrStmt_nil hn0] at ho; cases ho
  rw [posNext_rel hs hn0]
  have hrel := blockOrStmt_rel (hyp_at (semiExt semi hsemi) st.toks.length) (c := c) (c' := c') ⟨hv⟩ hs (by omega)
  cases hst1 : (if st.peekn 1 c!"do" kw then pBlock c st else pStatement c st) with
  | error e => rw [hst1] at ho; cases ho
  | ok o1 =>
    rw [hst1] at ho hrel
    obtain ⟨e, s1, h1⟩ := o1
    have hsuf : s1.toks <:+ st.toks := blockOrStmt_suffix c st hst1
    cases hst2 : (if st'.peekn 1 c!"do" kw then pBlock c' st' else pStatement c' st') with
    | error e' => rw [hst2] at hrel; exact hrel.elim
    | ok o2 =>
      rw [hst2] at hrel
      obtain ⟨e', s1', h1'⟩ := o2
      obtain ⟨hee, hs1⟩ := hrel
      dsimp only at hee hs1
      subst hee
      simp only [bind_ok, hasNext_ext hs1, Bool.not_true, Bool.false_eq_true, if_false] at ho ⊢
      -- in both cases the first run is `bareLoop c s1 [e]` run to the end
      have key : ∃ ob, bareLoop c s1 [e] = .ok ob ∧ ob.st.toks = [] ∧
          o.val = simplifyBlock ob.val [] [] [] tlv st.posNext := by
        by_cases hn1 : s1.toks = []
        · simp only [hasNext_nil hn1, Bool.not_false, if_true, pure, Except.pure] at ho
          cases ho
          exact ⟨_, bareLoop_nil_ok c s1 [e] hn1, hn1, by simp [simplifyBlock]⟩
        · have hh1 : s1.hasNext = true := by simpa [St.hasNext] using hn1
          simp only [hh1, Bool.not_true, Bool.false_eq_true, if_false] at ho
          cases hl : bareLoop c s1 [e] with
          | error er => rw [hl] at ho; cases ho
          | ok o3 =>
            rw [hl] at ho
            obtain ⟨r, s3, h3⟩ := o3
            simp only [bind_ok, pure, Except.pure] at ho
            cases ho
            exact ⟨_, rfl, ho0, rfl⟩
      obtain ⟨ob, hob, hob0, hval⟩ := key
      obtain ⟨o', ho', hv', ht'⟩ := bareLoop_semi c c' hv semi hsemi _ s1 s1' [e] rfl hs1 (hns.suffix hsuf) ob hob hob0
      obtain ⟨r', s3', h3'⟩ := o'
      rw [ho']
      refine ⟨_, rfl, ?_, ht'⟩
      dsimp only at hv' ⊢
      rw [hval, hv']

/-- **a trailing `;` after a script**: a non-empty script that parses and does not end with a `;`
    parses to the SAME AST (positions included) when a `;` is appended -/
theorem parseWith_trailing_semi (validRe : List Char → Bool) (file : String) (ts : List Token) (hne : ts ≠ [])
    (hns : NoSemiEnd ts) (semi : Token) (hsemi : IsSemi semi) (n : Node)
    (h : parseWith validRe file ts = .ok n) : parseWith validRe file (ts ++ [semi]) = .ok n := by
  rcases ts with _ | ⟨t0, tl⟩
  · exact (hne rfl).elim
  simp only [parseWith, parseCore] at h
  cases hb : pBareBlock ⟨endPosOf file (t0 :: tl), validRe⟩ true ⟨t0.pos, t0 :: tl⟩ with
  | error e => rw [hb] at h; cases h
  | ok o =>
    rw [hb] at h
    obtain ⟨r, ⟨q, rt⟩, hl⟩ := o
    cases rt with
    | cons a l => simp at h
    | nil =>
      simp only [Except.ok.injEq] at h
      obtain ⟨o', ho', hv', ht'⟩ := pBareBlock_semi ⟨endPosOf file (t0 :: tl), validRe⟩
        ⟨endPosOf file (t0 :: (tl ++ [semi])), validRe⟩ rfl semi hsemi true ⟨t0.pos, t0 :: tl⟩
        ⟨t0.pos, t0 :: (tl ++ [semi])⟩ ⟨rfl, by simp [semiExt]⟩ hns _ hb rfl
      obtain ⟨r', ⟨q', rt'⟩, hl'⟩ := o'
      dsimp only at hv' ht'
      subst hv' ht'
      simp [parseWith, parseCore, ho', h]

end Ckl.C14X
