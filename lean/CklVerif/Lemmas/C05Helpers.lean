/-
  C05 — the helper programs of the evaluator (everything that does not evaluate nodes)
  keep the block counters balanced: they never touch them.
-/
import CklVerif.Lemmas.C05Tr
namespace Ckl.C05
open Ckl

variable {s0 : State}

/-! ### EvalBase -/

theorem Tr.bindNamed (sp : ArgSpec) (pos : Pos) (ns : List (Option String)) (vs : List RVal)
    (args : List (String × RVal)) : Tr s0 (bindNamed sp pos ns vs args) := by
  induction ns generalizing vs args with
  | nil => unfold Ckl.bindNamed; tr_auto
  | cons n ns ih =>
    cases vs with
    | nil => unfold Ckl.bindNamed; tr_auto
    | cons v vs => unfold Ckl.bindNamed; tr_auto
macro_rules | `(tactic| tr_lemma) => `(tactic| exact Tr.bindNamed _ _ _ _ _)

theorem Tr.bindPositional (sp : ArgSpec) (pos : Pos) (ns : List (Option String)) (vs : List RVal)
    (kw : Bool) (args : List (String × RVal)) (rest : List RVal) :
    Tr s0 (bindPositional sp pos ns vs kw args rest) := by
  induction ns generalizing vs kw args rest with
  | nil => unfold Ckl.bindPositional; tr_auto
  | cons n ns ih =>
    cases vs with
    | nil => unfold Ckl.bindPositional; tr_auto
    | cons v vs => unfold Ckl.bindPositional; tr_auto
macro_rules | `(tactic| tr_lemma) => `(tactic| exact Tr.bindPositional _ _ _ _ _ _ _)

theorem Tr.setArgs (ps : List String) (ns : List (Option String)) (vs : List RVal) (pos : Pos) :
    Tr s0 (setArgs ps ns vs pos) := by
  unfold Ckl.setArgs; tr_auto
macro_rules | `(tactic| tr_lemma) => `(tactic| exact Tr.setArgs _ _ _ _)

theorem Tr.argGet (args : List (String × RVal)) (n : String) (pos : Pos) : Tr s0 (argGet args n pos) := by
  unfold Ckl.argGet; tr_auto
macro_rules | `(tactic| tr_lemma) => `(tactic| exact Tr.argGet _ _ _)

theorem Tr.getIndex (v : RVal) (pos : Pos) : Tr s0 (getIndex v pos) := by
  unfold Ckl.getIndex; tr_auto
macro_rules | `(tactic| tr_lemma) => `(tactic| exact Tr.getIndex _ _)

theorem Tr.asStringM (v : RVal) (pos : Pos) : Tr s0 (asStringM v pos) := by
  unfold Ckl.asStringM; tr_auto
macro_rules | `(tactic| tr_lemma) => `(tactic| exact Tr.asStringM _ _)


/-! ### Natives.lean helpers -/

theorem Tr.floatResult (x : Float) (pos : Pos) (w : String) : Tr s0 (floatResult x pos w) := by
  unfold Ckl.floatResult; tr_auto
macro_rules | `(tactic| tr_lemma) => `(tactic| exact Tr.floatResult _ _ _)

theorem Tr.listItems (v : RVal) : Tr s0 (listItems v) := by
  unfold Ckl.listItems; tr_auto
macro_rules | `(tactic| tr_lemma) => `(tactic| exact Tr.listItems _)

theorem Tr.collAsList (c : Cell) : Tr s0 (collAsList c) := by
  unfold Ckl.collAsList; tr_auto
macro_rules | `(tactic| tr_lemma) => `(tactic| exact Tr.collAsList _)

theorem Tr.addSet (xs : List RVal) : Tr s0 (addSet xs) := by
  unfold Ckl.addSet; tr_auto
macro_rules | `(tactic| tr_lemma) => `(tactic| exact Tr.addSet _)

theorem Tr.cmpLt (a b : RVal) : Tr s0 (cmpLt a b) := by
  unfold Ckl.cmpLt; tr_auto
macro_rules | `(tactic| tr_lemma) => `(tactic| exact Tr.cmpLt _ _)

theorem Tr.cmpGt (a b : RVal) : Tr s0 (cmpGt a b) := by
  unfold Ckl.cmpGt; tr_auto
macro_rules | `(tactic| tr_lemma) => `(tactic| exact Tr.cmpGt _ _)

theorem Tr.asListArg (v : RVal) (pos : Pos) : Tr s0 (asListArg v pos) := by
  unfold Ckl.asListArg; tr_auto
macro_rules | `(tactic| tr_lemma) => `(tactic| exact Tr.asListArg _ _)

theorem Tr.asSetArg (v : RVal) (pos : Pos) : Tr s0 (asSetArg v pos) := by
  unfold Ckl.asSetArg; tr_auto
macro_rules | `(tactic| tr_lemma) => `(tactic| exact Tr.asSetArg _ _)

/-! ### Eval.lean helpers -/

theorem Tr.destructure (v : RVal) (n : Nat) (pos : Pos) : Tr s0 (destructure v n pos) := by
  unfold Ckl.destructure; tr_auto
macro_rules | `(tactic| tr_lemma) => `(tactic| exact Tr.destructure _ _ _)

theorem Tr.bindLoopVars (env : EnvId) (ids : List String) (v : RVal) (pos : Pos) :
    Tr s0 (bindLoopVars env ids v pos) := by
  unfold Ckl.bindLoopVars; tr_auto
macro_rules | `(tactic| tr_lemma) => `(tactic| exact Tr.bindLoopVars _ _ _ _)

theorem Tr.removeVars (env : EnvId) (ids : List String) : Tr s0 (removeVars env ids) := by
  unfold Ckl.removeVars; tr_auto
macro_rules | `(tactic| tr_lemma) => `(tactic| exact Tr.removeVars _ _)

theorem Tr.spreadValues (v : RVal) (pos : Pos) : Tr s0 (spreadValues v pos) := by
  unfold Ckl.spreadValues; tr_auto
macro_rules | `(tactic| tr_lemma) => `(tactic| exact Tr.spreadValues _ _)

theorem Tr.collectionValues (v : RVal) (w : Option String) (pos : Pos) :
    Tr s0 (collectionValues v w pos) := by
  unfold Ckl.collectionValues; tr_auto
macro_rules | `(tactic| tr_lemma) => `(tactic| exact Tr.collectionValues _ _ _)

theorem Tr.renameClosure (v : RVal) (n : String) : Tr s0 (renameClosure v n) := by
  unfold Ckl.renameClosure; tr_auto
macro_rules | `(tactic| tr_lemma) => `(tactic| exact Tr.renameClosure _ _)

theorem Tr.assignAll (env : EnvId) (xs : List String) (items : List RVal) (i : Nat) (last : RVal)
    (pos : Pos) : Tr s0 (assignAll env xs items i last pos) := by
  induction xs generalizing i last with
  | nil => unfold Ckl.assignAll; tr_auto
  | cons x xs ih => unfold Ckl.assignAll; tr_auto
macro_rules | `(tactic| tr_lemma) => `(tactic| exact Tr.assignAll _ _ _ _ _ _)

theorem Tr.defAll (env : EnvId) (xs : List String) (items : List RVal) (i : Nat) (last : RVal) :
    Tr s0 (defAll env xs items i last) := by
  induction xs generalizing i last with
  | nil => unfold Ckl.defAll; tr_auto
  | cons x xs ih => unfold Ckl.defAll; tr_auto
macro_rules | `(tactic| tr_lemma) => `(tactic| exact Tr.defAll _ _ _ _ _)

theorem Tr.comprResult (k : ComprKind) (out : List (RVal × RVal)) : Tr s0 (comprResult k out) := by
  unfold Ckl.comprResult; tr_auto
macro_rules | `(tactic| tr_lemma) => `(tactic| exact Tr.comprResult _ _)

end Ckl.C05
