import CklVerif.Gen.LibSrcCheck
import CklVerif.Proofs.C18Src
/-! C18Src — registry: one `#print axioms` per property theorem (first import: the generated terms are checked against the driver's decoder) -/
#print axioms Ckl.C18Src.reverse_src
#print axioms Ckl.C18Src.reverse_src_eq_mirror
#print axioms Ckl.C18Src.reverse_src_not_string
#print axioms Ckl.C18Src.reverse_src_involutive
#print axioms Ckl.C18Src.join_src_general
#print axioms Ckl.C18Src.join_src
#print axioms Ckl.C18Src.join_src_eq_mirror
#print axioms Ckl.C18Src.join_split_src
#print axioms Ckl.C18Src.StrOf.int
#print axioms Ckl.C18Src.StrOf.bool
#print axioms Ckl.C18Src.join_src_ints
#print axioms Ckl.C18Src.join_src_swapped
#print axioms Ckl.C18Src.q_src
#print axioms Ckl.C18Src.replace_src
#print axioms Ckl.C18Src.replace_src_spec
#print axioms Ckl.C18Src.replace_src_default
#print axioms Ckl.C18Src.replace_src_empty_pattern
#print axioms Ckl.C18Src.replace_src_null
#print axioms Ckl.C18Src.esc_src
#print axioms Ckl.C18Src.initialState_str_libEnv
#print axioms Ckl.C18Src.loaded_replace_reverse
