/-
  C14 (redundant parentheses) — extension lemmas, part C: functions, calls, dereferences
  (`pFn`, `paramsLoop`, `invokeBody`, `argsLoop`, `derefArrow`, `derefBracket`, `postfixLoop`).
-/
import CklVerif.Lemmas.C14ParensHyp
namespace Ckl.C14X
open Ckl Ckl.Parser

local notation "kw" => (some TokType.keyword)
local notation "ip" => (some TokType.interpunction)
local notation "op" => (some TokType.operator)
local notation "idt" => (some TokType.identifier)

set_option linter.unusedSimpArgs false
set_option linter.unusedVariables false

variable {x : Ext}

/-- the same computation in both runs -/
theorem ERel_sameT {A : Type} (y : Except PErr A) : ERel (fun _ _ => True) y y := by
  cases y <;> trivial

theorem sim_pFn {c c' : Ctx} {st st' : St} (pos : Pos) (H : Hyp x (st.toks.length * 16 + 0)) (hc : CRel c c')
    (hs : SRel x st st') : ERel (OLt x) (pFn c pos st) (pFn c' pos st') := by
  rw [pFn, pFn]
  sbind (expect_rel hs _ _) with s1 h1 s1' h1' hs1
  ebind2 (H.paramsLoop [] hc hs1 (by omega)) with ps ds s2 h2 s2' h2' hs2
  ebind (blockOrExpr_rel H hc hs2 (by omega)) with b s3 h3 s3' h3' hs3
  exact ⟨rfl, hs3⟩

theorem sim_paramsLoop {c c' : Ctx} {st st' : St} {ds : List Node} (ps : List String)
    (H : Hyp x (st.toks.length * 16 + 0)) (hc : CRel c c') (hs : SRel x st st') :
    ERel (OLe x) (paramsLoop c st ps ds) (paramsLoop c' st' ps ds) := by
  rw [paramsLoop, paramsLoop]
  mif3 hs c!")" ip with s1 h1 s1' h1' hs1 hnil
  · ebind (next_rel hs) with t s1 h1 s1' h1' hs1
    refine ERel.bind (ERel_sameT (checkRedefineKeyword t)) ?_
    intro _ _ _
    refine ERel.bind (ERel_sameT (checkExpectedIdentifier t)) ?_
    intro _ _ _
    ebindr (OLe x) with dv s2 h2 s2' h2' hs2
    · mif hs1 c!"=" op with s h s' h' hs'
      · exact ⟨rfl, hs1⟩
      · exact ERel_ltLe (H.pExpression hc hs' (by omega))
    pk3 hs2 c!")" ip with hnil2
    · bif hb : (c!"...".isSuffixOf t.value && !s2.peekn 1 c!")" ip)
      · exact ERel.err
      · sbind (sepUnless_rel hs2 _) with s3 h3 s3' h3' hs3
        ebind (H.paramsLoop _ hc hs3 (by omega)) with r s4 h4 s4' h4' hs4
        exact ⟨rfl, hs4⟩
    · simp only [sepUnless_nil hnil2, bind_error]
      split <;> exact ERel.err
  · exact ⟨rfl, hs1⟩
  · nil_tac hnil

theorem sim_argsLoop {c c' : Ctx} {st st' : St} {args : List Node} (names : List (Option String))
    (H : Hyp x (st.toks.length * 16 + 11)) (hc : CRel c c') (hs : SRel x st st') :
    ERel (OLt x) (argsLoop c st names args) (argsLoop c' st' names args) := by
  rw [argsLoop, argsLoop]
  mif3 hs c!")" ip with s1 h1 s1' h1' hs1 hnil
  · by_cases hn0 : st.toks = []
    · nil_tac hn0
    refine ERel.bind (peek_rel hs) ?_
    rintro t _ rfl
    simp only [peekn2_tab hs hn0 (v := c!"=") (ty := op) (by tab)]
    bif hb : (t.type == .identifier && st.peekn 2 c!"=" op)
    · ebind (matchIdentifier_rel hs) with name s1 h1 s1' h1' hs1
      sbind (expect_rel hs1 _ _) with s2 h2 s2' h2' hs2
      ebind (H.pExpression hc hs2 (by omega)) with e s3 h3 s3' h3' hs3
      sbind (sepUnless_rel hs3 _) with s4 h4 s4' h4' hs4
      ebind (H.argsLoop _ hc hs4 (by omega)) with r s5 h5 s5' h5' hs5
      exact ⟨rfl, hs5⟩
    · ebind (H.pExpression hc hs (by omega)) with e s1 h1 s1' h1' hs1
      sbind (sepUnless_rel hs1 _) with s2 h2 s2' h2' hs2
      ebind (H.argsLoop _ hc hs2 (by omega)) with r s3 h3 s3' h3' hs3
      exact ⟨rfl, hs3⟩
  · exact ⟨rfl, hs1⟩
  · nil_tac hnil

theorem sim_invokeBody {c c' : Ctx} {st st' : St} {node : Node} (H : Hyp x (st.toks.length * 16 + 0))
    (hc : CRel c c') (hs : SRel x st st') :
    ERel (OLt x) (invokeBody c node st) (invokeBody c' node st') := by
  rw [invokeBody, invokeBody]
  ebindr (OLt x) with fn s1 h1 s1' h1' hs1
  · mif2 hs c!"(" ip c!"fn" kw with sa ha sa' ha' hsa
    · ebind (matchIdentifier_rel hs) with name sa ha sa' ha' hsa
      rw [hsa.prev]
      ebind (derefChain_rel _ sa sa' (.ident (str name) sa.prev) rfl hsa) with fn0 sb hb sb' hb' hsb
      exact ⟨rfl, hsb⟩
    · rw [hsa.prev]
      ebind (H.pFn _ hc hsa (by omega)) with fn0 sb hb sb' hb' hsb
      sbind (expect_rel hsb _ _) with sc hc sc' hc' hsc
      exact ⟨rfl, hsc⟩
  rw [hs1.prev]
  sbind (expect_rel hs1 _ _) with s2 h2 s2' h2' hs2
  ebind2 (H.argsLoop _ hc hs2 (by omega)) with names args s3 h3 s3' h3' hs3
  exact ⟨rfl, hs3⟩

theorem sim_derefArrow {c c' : Ctx} {st st' : St} {node : Node} (H : Hyp x (st.toks.length * 16 + 0))
    (hc : CRel c c') (hs : SRel x st st') :
    ERel (OLt x) (derefArrow c node st) (derefArrow c' node st') := by
  rw [derefArrow, derefArrow]
  ebind (matchIdentifier_rel hs) with ident s1 h1 s1' h1' hs1
  simp only [hs.prev]
  mif hs1 c!"=" op with s2 h2 s2' h2' hs2
  · mif hs1 c!"(" ip with s2 h2 s2' h2' hs2
    · mtab (matchOpTable_cases hs1 compoundOps compoundOps_tab) with fn s2 h2 s2' h2' hs2
      · exact ⟨rfl, hs1⟩
      · ebind (H.pExpression hc hs2 (by omega)) with v s3 h3 s3' h3' hs3
        exact ⟨rfl, hs3⟩
    · ebind2 (H.argsLoop [] hc hs2 (by omega)) with names args s3 h3 s3' h3' hs3
      exact ⟨rfl, hs3⟩
  · ebind (H.pExpression hc hs2 (by omega)) with v s3 h3 s3' h3' hs3
    exact ⟨rfl, hs3⟩

theorem sim_derefBracket {c c' : Ctx} {st st' : St} {node : Node} (H : Hyp x (st.toks.length * 16 + 11))
    (hc : CRel c c') (hs : SRel x st st') :
    ERel (OLt x) (derefBracket c node st) (derefBracket c' node st') := by
  rw [derefBracket, derefBracket]
  ebind (H.pExpression hc hs (by omega)) with index s1 h1 s1' h1' hs1
  simp only [hs.prev]
  mif hs1 c!"to" idt with s2 h2 s2' h2' hs2
  · by_cases hn1 : s1.toks = []
    · nil_tac hn1
    ebindr (OLe x) with dv s2 h2 s2' h2' hs2
    · mif3 hs1 c!"," ip with s h s' h' hs' hnil
      · exact ⟨rfl, hs1⟩
      · exact ERel_ltLe (H.pExpression hc hs' (by omega))
      · exact (hn1 hnil).elim
    mif23 hs2 c!"]" ip c!"=" op with s3 h3 s3' h3' hs3 hnil
    · mtab3 (matchBracketCompound_cases hs2) with fn s3 h3 s3' h3' hs3 hnil
      · sbind (expect_rel hs2 _ _) with s3 h3 s3' h3' hs3
        exact ⟨rfl, hs3⟩
      · ebind (H.pExpression hc hs3 (by omega)) with v s4 h4 s4' h4' hs4
        exact ⟨rfl, hs4⟩
      · nil_tac hnil
    · ebind (H.pExpression hc hs3 (by omega)) with v s4 h4 s4' h4' hs4
      exact ⟨rfl, hs4⟩
    · nil_tac hnil
  · ebindr (OLe x) with stop s3 h3 s3' h3' hs3
    · mif hs2 c!"*" op with s h s' h' hs'
      · exact ERel_ltLe (H.pExpression hc hs2 (by omega))
      · exact ⟨rfl, hs'⟩
    sbind (expect_rel hs3 _ _) with s4 h4 s4' h4' hs4
    exact ⟨rfl, hs4⟩

theorem sim_postfixLoop {c c' : Ctx} {st st' : St} {node : Node} (ac ad : Bool)
    (H : Hyp x (st.toks.length * 16 + 0)) (hc : CRel c c') (hs : SRel x st st') :
    ERel (OLe x) (postfixLoop c ac ad st node) (postfixLoop c' ac ad st' node) := by
  rw [postfixLoop, postfixLoop]
  mif hs c!"!>" op with s1 h1 s1' h1' hs1
  · mifg ac hs c!"(" ip with s1 h1 s1' h1' hs1
    · mifg ad hs c!"->" op with s1 h1 s1' h1' hs1
      · mifg ad hs c!"[" ip with s1 h1 s1' h1' hs1
        · exact ⟨rfl, hs⟩
        · ebind2 (H.derefBracket hc hs1 (by omega)) with n interrupt s2 h2 s2' h2' hs2
          bif hi : interrupt
          · exact ⟨rfl, hs2⟩
          · ebind (H.postfixLoop ac ad hc hs2 (by omega)) with r s3 h3 s3' h3' hs3
            exact ⟨rfl, hs3⟩
      · ebind2 (H.derefArrow hc hs1 (by omega)) with n interrupt s2 h2 s2' h2' hs2
        bif hi : interrupt
        · exact ⟨rfl, hs2⟩
        · ebind (H.postfixLoop ac ad hc hs2 (by omega)) with r s3 h3 s3' h3' hs3
          exact ⟨rfl, hs3⟩
    · ebind2 (H.argsLoop [] hc hs1 (by omega)) with names args s2 h2 s2' h2' hs2
      rw [hs1.prev]
      ebind (H.postfixLoop ac ad hc hs2 (by omega)) with r s3 h3 s3' h3' hs3
      exact ⟨rfl, hs3⟩
  · ebind (H.invokeBody hc hs1 (by omega)) with n s2 h2 s2' h2' hs2
    ebind (H.postfixLoop ac ad hc hs2 (by omega)) with r s3 h3 s3' h3' hs3
    exact ⟨rfl, hs3⟩

end Ckl.C14X
