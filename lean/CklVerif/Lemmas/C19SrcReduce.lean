import CklVerif.Lemmas.C19SrcLoop
import CklVerif.Lemmas.C19List

/-! C19Src — list.ckl `reduce` (on int lists, with a binary built-in on ints) and `prod` -/
namespace Ckl.C19Src
open Ckl Ckl.C03 Ckl.Gen.LibSrc
variable (ld : Loader)

def reduceNats : List String := ["is_null", "length", "equals", "sublist"]

/-- `f` is the built-in `nm`, binary on parameters a, b, and on ints it computes `g` without touching the state -/
structure IntOp (nm : String) (g : Int → Int → Int) : Prop where
  args : nativeArgNames nm = some ["a", "b"]
  sem : ∀ (x y : Int) d pos (s : State), ∃ mm, callPure nm [("a", .int x), ("b", .int y)] d pos = some mm ∧
    mm s = .ok (.int (g x y)) s

theorem nativeAdd_int (a b : Int) (pos : Pos) (s : State) : nativeAdd (.int a) (.int b) pos s = .ok (.int (a + b)) s := by
  simp [nativeAdd, EvalM.bind_apply, getS, RVal.isNull]
  rfl

theorem nativeMul_int (a b : Int) (pos : Pos) (s : State) : nativeMul (.int a) (.int b) pos s = .ok (.int (a * b)) s := by
  simp [nativeMul, EvalM.bind_apply, getS, cellOf, RVal.isNull]
  rfl

theorem pure_mul (a b : RVal) (d pos) :
    callPure "mul" [("a", a), ("b", b)] d pos = some (nativeMul a b pos) := by rfl

theorem intOp_add : IntOp "add" (· + ·) :=
  ⟨by rfl, fun x y d pos s => ⟨_, pure_add _ _ d pos, nativeAdd_int x y pos s⟩⟩

theorem intOp_mul : IntOp "mul" (· * ·) :=
  ⟨by rfl, fun x y d pos s => ⟨_, pure_mul _ _ d pos, nativeMul_int x y pos s⟩⟩

/-- `length(obj)` of the built-in on a list cell -/
theorem length_list (a : Nat) (xs : List RVal) (d : Option RVal) (pos : Pos) (s : State)
    (hc : s.cell a = some (.list xs)) :
    ∃ m, callPure "length" [("obj", .ref a)] d pos = some m ∧ m s = .ok (.int xs.length) s := by
  refine ⟨_, rfl, ?_⟩
  simp [argGet, dictGet, cellOf, hc, EvalM.bind_apply, EvalM.pure_apply]

/-! ### the guards of `reduce` -/

/-- `is_null(list)` on a value that is not NULL -/
theorem reduce_g1 {s : State} {M nats srcs c m} {v fv : RVal}
    (ctx : Ctx s M nats srcs c m [("list", v), ("f", fv)]) (hn : ∀ x ∈ reduceNats, x ∈ nats) (p1 p2 p3 : Pos) :
    Ev ld 3 c (.call (.ident "is_null" p1) [none] [.ident "list" p2] p3) s (.ok (.bool v.isNull) s) := by
  obtain ⟨j, hl⟩ := ctx.nat (x := "is_null") (hn _ (by decide)) (by rfl)
  exact Ev.nat1 ld (k := 0) hl (by rfl) (by decide) (by trivial)
    (Ev.ident ld (ctx.var (x := "list") (by rfl))) (pure_is_null _ _ _) rfl

/-- `length(list) == k` on a list cell -/
theorem reduce_g2 {s : State} {M nats srcs c m} {a : Nat} {xs : List RVal} {fv : RVal}
    (ctx : Ctx s M nats srcs c m [("list", .ref a), ("f", fv)]) (hn : ∀ x ∈ reduceNats, x ∈ nats)
    (hc : s.cell a = some (.list xs)) (k : Int) (p1 p2 p3 p4 p5 p6 : Pos) :
    Ev ld 7 c (.call (.ident "equals" p1) [some "a", some "b"]
        [.call (.ident "length" p2) [none] [.ident "list" p3] p4, .lit (.int k) p5] p6) s
      (.ok (.bool (decide ((xs.length : Int) = k))) s) := by
  obtain ⟨i, hlen⟩ := ctx.nat (x := "length") (hn _ (by decide)) (by rfl)
  obtain ⟨j, heq⟩ := ctx.nat (x := "equals") (hn _ (by decide)) (by rfl)
  obtain ⟨mm, hm1, hm2⟩ := length_list a xs (div0Value s c) p4 s hc
  have A1 := Ev.nat1 ld (k := 0) (p := p2) (pos := p4) hlen (by rfl) (by decide) (by trivial)
    (Ev.ident ld (p := p3) (ctx.var (x := "list") (by rfl))) hm1 hm2
  rw [wrapCall_ok] at A1
  have A2 := Ev.natAB ld (k := 3) (p := p1) (pos := p6) heq (by rfl) (by trivial) (by trivial)
    A1 (Ev.litInt ld (p := p5) (n := k)) (pure_equals _ _ _ _) rfl
  rw [wrapCall_ok, rveq_int] at A2
  exact A2

/-! ### extractors of positions / constants of the generated term -/

def reduceErrPos : Node → Pos
  | .ite _ (_ :: .error _ p :: _) _ _ => p
  | _ => default

def reduceErrMsg : Node → List Char
  | .ite _ (_ :: .error (.lit (.str t) _) _ :: _) _ _ => t
  | _ => []

example : reduceErrMsg (lamBody list_reduce) = "Cannot reduce empty list".toList := by decide

def reduceRetPos1 : Node → Pos
  | .ite _ (.ret _ p :: _) _ _ => p
  | _ => default

def reduceRetPos3 : Node → Pos
  | .ite _ (_ :: _ :: .ret _ p :: _) _ _ => p
  | _ => default

/-- `reduce(NULL, f)`: `return NULL` -/
theorem reduce_body_null {s : State} {M nats srcs c m} {fv : RVal}
    (ctx : Ctx s M nats srcs c m [("list", .null), ("f", fv)]) (hn : ∀ x ∈ reduceNats, x ∈ nats) :
    Ev ld 5 c (lamBody list_reduce) s (.ok (.ret .null (reduceRetPos1 (lamBody list_reduce))) s) := by
  unfold lamBody list_reduce
  simp only []
  exact Ev.ite ld (EvIf.true ld (Ev.mono ld (reduce_g1 ld ctx hn _ _ _) (by decide))
    (Ev.mono ld (Ev.ret ld (k := 0) (by intro h; cases h) (Ev.ident ld (ctx.null (by rfl)))) (by decide)))

/-- `reduce([], f)`: the error -/
theorem reduce_body_empty {s : State} {M nats srcs c m} {a : Nat} {fv : RVal}
    (ctx : Ctx s M nats srcs c m [("list", .ref a), ("f", fv)]) (hn : ∀ x ∈ reduceNats, x ∈ nats)
    (hc : s.cell a = some (.list [])) :
    Ev ld 10 c (lamBody list_reduce) s
      (.err (.str "Cannot reduce empty list".toList) "" (reduceErrPos (lamBody list_reduce)) [] s) := by
  unfold lamBody list_reduce
  simp only []
  have G1 := reduce_g1 ld ctx hn
  have G2 : ∀ p1 p2 p3 p4 p5 p6, _ := reduce_g2 ld ctx hn hc 0
  simp only [List.length_nil, Int.natCast_zero, decide_true] at G2
  exact Ev.ite ld (EvIf.false ld (Ev.mono ld (G1 _ _ _) (by decide))
    (EvIf.true ld (G2 _ _ _ _ _ _) (Ev.mono ld (Ev.error ld (k := 0) (Ev.litStr ld)) (by decide))))

/-- `reduce([x], f)`: `return list[0]` -/
theorem reduce_body_single {s : State} {M nats srcs c m} {a : Nat} {x : RVal} {fv : RVal}
    (ctx : Ctx s M nats srcs c m [("list", .ref a), ("f", fv)]) (hn : ∀ x ∈ reduceNats, x ∈ nats)
    (hc : s.cell a = some (.list [x])) :
    Ev ld 11 c (lamBody list_reduce) s (.ok (.ret x (reduceRetPos3 (lamBody list_reduce))) s) := by
  unfold lamBody list_reduce
  simp only []
  have G1 := reduce_g1 ld ctx hn
  have G20 : ∀ p1 p2 p3 p4 p5 p6, _ := reduce_g2 ld ctx hn hc 0
  have G21 : ∀ p1 p2 p3 p4 p5 p6, _ := reduce_g2 ld ctx hn hc 1
  simp only [List.length_cons, List.length_nil, Nat.zero_add, Int.natCast_one, show ((1 : Int) = 0) = False by decide,
    decide_false, decide_true] at G20 G21
  have D : ∀ p1 p2 p3, Ev ld 1 c (.deref (.ident "list" p1) (.lit (.int 0) p2) .absent p3) s (.ok x s) := fun p1 p2 p3 =>
    Ev.derefList ld (k := 0) (pos := p3) (Ev.litInt ld (p := p2) (n := 0))
      (Ev.ident ld (p := p1) (ctx.var (x := "list") (by rfl))) hc
  exact Ev.ite ld (EvIf.false ld (Ev.mono ld (G1 _ _ _) (by decide))
    (EvIf.false ld (Ev.mono ld (G20 _ _ _ _ _ _) (by decide))
      (EvIf.true ld (G21 _ _ _ _ _ _) (Ev.mono ld (Ev.ret ld (k := 1) (by intro h; cases h) (D _ _ _)) (by decide)))))

/-! ### the `else` block: `def result = list[0]; for element in sublist(list, 1) do result = f(result, element); result` -/

def reduceElse : Node → Node
  | .ite _ _ e _ => e
  | _ => .absent

local notation "bp" => blockPos (reduceElse (lamBody list_reduce))

theorem derefOut_zero (x : RVal) (l : List RVal) (pos : Pos) (s : State) : derefOut (x :: l) 0 pos s = .ok x s := by
  have h : ¬ ((l.length : Int) + 1 ≤ 0) := by omega
  simp [derefOut, Seq.deref, h]

theorem substr_one_map (n : Int) (ns : List Int) :
    Seq.substr ((n :: ns).map RVal.int) 1 none = ns.map RVal.int := by
  have := C19.restM_eq ((n :: ns).map RVal.int)
  simpa [Lib.restM] using this

/-- the loop invariant of `reduce`: before the iteration with index `i` the variable `result` holds the fold of the first `i`
    elements of the tail -/
structure RedInv (s : State) (c m : EnvId) (a b : Nat) (fv : RVal) (g : Int → Int → Int) (n : Int) (ns : List Int) (i : Nat)
    (st : State) : Prop where
  ext : Ext s st
  cellb : st.cell b = some (.list (ns.map .int))
  parent : (st.frame c).parent = some m
  clt : c < st.frames.size
  vars : (st.frame c).vars = [("list", .ref a), ("f", fv), ("result", .int ((ns.take i).foldl g n))] ∨
    ∃ w, (st.frame c).vars = [("list", .ref a), ("f", fv), ("result", .int ((ns.take i).foldl g n)), ("element", w)]

theorem reduce_block {s s0 : State} {M nats srcs m} {a : Nat} {nm : String} {g : Int → Int → Int} {j : Nat} {n : Int}
    {ns : List Int} (h : LibEnv s M nats srcs) (hm : M m) (hop : IntOp nm g)
    (ctx : Ctx s0 M nats srcs s.frames.size m [("list", .ref a), ("f", .native nm j)]) (e0 : Ext s s0)
    (hn : ∀ x ∈ reduceNats, x ∈ nats) (hc : s.cell a = some (.list ((n :: ns).map .int))) :
    ∃ s', Ext s s' ∧ Ev ld (ns.length + 12) s.frames.size (reduceElse (lamBody list_reduce)) s0
      (.ok (.int (ns.foldl g n)) s') := by
  unfold reduceElse lamBody list_reduce
  simp only []
  generalize hK : ns.length + 8 = K
  have ha : a < s.heap.size := cell_lt hc
  have hcge : s.frames.size ≤ s.frames.size := Nat.le_refl _
  have ctx0 : Ctx (ghostEnter s0 bp) M nats srcs s.frames.size m [("list", .ref a), ("f", .native nm j)] :=
    ctx.ext ((Ext.refl s0).ghostEnter _)
  have e0' : Ext s (ghostEnter s0 bp) := e0.ghostEnter _
  have hc0 : (ghostEnter s0 bp).cell a = some (.list ((n :: ns).map .int)) := by rw [e0'.cell a ha]; exact hc
  -- statement 1: `def result = list[0]`
  let t1 := (ghostEnter s0 bp).put s.frames.size "result" (.int n)
  have S1 : ∀ p1 p2 p3 info p4, Ev ld K s.frames.size
      (.defn "result" (.deref (.ident "list" p1) (.lit (.int 0) p2) .absent p3) info p4) (ghostEnter s0 bp)
      (.ok (.int n) t1) := by
    intro p1 p2 p3 info p4
    have D := Ev.derefList ld (k := 0) (pos := p3) (Ev.litInt ld (p := p2) (n := 0))
      (Ev.ident ld (p := p1) (ctx0.var (x := "list") (by rfl))) hc0
    rw [List.map_cons, derefOut_zero] at D
    exact Ev.mono ld (Ev.defn ld (k := 1) (by intro a h; cases h) D) (by omega)
  have hclt0 : s.frames.size < (ghostEnter s0 bp).frames.size := ctx0.clt
  have E1 : Ext s t1 := e0'.put hcge _ _
  have hvars1 : (t1.frame s.frames.size).vars = [("list", .ref a), ("f", .native nm j), ("result", .int n)] := by
    show (((ghostEnter s0 bp).put _ _ _).frame _).vars = _
    rw [vars_put_same _ _ _ hclt0, ctx0.fr.vars]; rfl
  have hpar1 : (t1.frame s.frames.size).parent = some m := by
    show (((ghostEnter s0 bp).put _ _ _).frame _).parent = _
    rw [parent_put]; exact ctx0.fr.parent
  have hclt1 : s.frames.size < t1.frames.size := by
    show _ < ((ghostEnter s0 bp).put _ _ _).frames.size
    rw [frames_size_put]; exact hclt0
  have ctx1 : Ctx t1 M nats srcs s.frames.size m [("list", .ref a), ("f", .native nm j), ("result", .int n)] :=
    Ctx.ofExt h hm E1 hvars1 hpar1 hclt1
  have hc1 : t1.cell a = some (.list ((n :: ns).map .int)) := by rw [E1.cell a ha]; exact hc
  -- the iterated expression `sublist(list, 1)`
  let b := t1.heap.size
  let t2 := (t1.alloc (.list (ns.map .int))).1
  obtain ⟨jj, hlsub⟩ := ctx1.nat (x := "sublist") (hn _ (by decide)) (by rfl)
  have HE : ∀ p5 p6 p7 p8, Ev ld 4 s.frames.size
      (.call (.ident "sublist" p5) [none, none] [.ident "list" p6, .lit (.int 1) p7] p8) t1 (.ok (.ref b) t2) := by
    intro p5 p6 p7 p8
    obtain ⟨mm, hm1, hm2⟩ := sublist_from a _ 1 (div0Value t1 s.frames.size) p8 t1 hc1
    rw [substr_one_map] at hm2
    have A := Ev.nat2 ld (k := 0) (p := p5) (pos := p8) hlsub (by rfl) (by decide) (by decide) (by trivial) (by trivial)
      (Ev.ident ld (p := p6) (ctx1.var (x := "list") (by rfl))) (Ev.litInt ld (p := p7) (n := 1)) hm1 hm2
    rw [wrapCall_ok] at A
    exact A
  have E2 : Ext s t2 := E1.alloc _
  have inv0 : RedInv s s.frames.size m a b (.native nm j) g n ns 0 t2 := by
    refine ⟨E2, ?_, ?_, ?_, Or.inl ?_⟩
    · show (t1.alloc _).1.cell t1.heap.size = _
      rw [cell_alloc_new]
    · show ((t1.alloc _).1.frame _).parent = _
      rw [frame_alloc]; exact hpar1
    · exact hclt1
    · show ((t1.alloc _).1.frame _).vars = _
      rw [frame_alloc, hvars1]; rfl
  -- the loop body
  have hstep : ∀ p9 p10 p11 p12 p13, ∀ i (r : RVal) st v, RedInv s s.frames.size m a b (.native nm j) g n ns i st →
      (ns.map RVal.int)[i]? = some v →
      ∃ r' s', Ev ld 5 s.frames.size (.assign "result" (.call (.ident "f" p9) [none, none]
          [.ident "result" p10, .ident "element" p11] p12) p13) (st.put s.frames.size "element" v) (.ok r' s') ∧
        isCtl r' = false ∧ RedInv s s.frames.size m a b (.native nm j) g n ns (i + 1) s' := by
    intro p9 p10 p11 p12 p13 i r st v inv hv
    rw [List.getElem?_map] at hv
    cases hx : ns[i]? with
    | none => rw [hx] at hv; cases hv
    | some x =>
      rw [hx] at hv; simp only [Option.map_some, Option.some.injEq] at hv; subst hv
      generalize hacc : (ns.take i).foldl g n = acc
      have hvars : ((st.put s.frames.size "element" (.int x)).frame s.frames.size).vars =
          [("list", .ref a), ("f", .native nm j), ("result", .int acc), ("element", .int x)] := by
        rw [vars_put_same _ _ _ inv.clt]
        rcases inv.vars with h | ⟨w, h⟩ <;> rw [h, hacc] <;> simp [dictPut]
      have hpar : ((st.put s.frames.size "element" (.int x)).frame s.frames.size).parent = some m := by
        rw [parent_put]; exact inv.parent
      have eu : Ext s (st.put s.frames.size "element" (.int x)) := inv.ext.put hcge _ _
      have hcltu : s.frames.size < (st.put s.frames.size "element" (.int x)).frames.size := by
        rw [frames_size_put]; exact inv.clt
      have cu : Ctx (st.put s.frames.size "element" (.int x)) M nats srcs s.frames.size m
          [("list", .ref a), ("f", .native nm j), ("result", .int acc), ("element", .int x)] :=
        Ctx.ofExt h hm eu hvars hpar hcltu
      obtain ⟨mm, hm1, hm2⟩ := hop.sem acc x (div0Value (st.put s.frames.size "element" (.int x)) s.frames.size) p12
        (st.put s.frames.size "element" (.int x))
      have F := Ev.nat2 ld (k := 0) (p := p9) (pos := p12) (cu.var (x := "f") (by rfl)) hop.args (by decide) (by decide)
        (by trivial) (by trivial)
        (Ev.ident ld (p := p10) (cu.var (x := "result") (by rfl)))
        (Ev.ident ld (p := p11) (cu.var (x := "element") (by rfl))) hm1 hm2
      rw [wrapCall_ok] at F
      have hdef : (st.put s.frames.size "element" (.int x)).isDefined s.frames.size "result" = true := by
        unfold State.isDefined; rw [cu.var (x := "result") (by rfl)]; rfl
      have A := Ev.assignLocal ld (k := 4) (pos := p13) hdef F (by rw [hvars]; rfl)
      refine ⟨_, _, A, rfl, ⟨(eu.put hcge _ _), ?_, ?_, ?_, Or.inr ⟨.int x, ?_⟩⟩⟩
      · rw [cell_put, cell_put]; exact inv.cellb
      · rw [parent_put]; exact hpar
      · rw [frames_size_put]; exact hcltu
      · rw [vars_put_same _ _ _ hcltu, hvars, List.take_add_one, hx]
        simp [dictPut, List.foldl_append, hacc]
  -- statement 2: the loop
  have S2 : ∀ p5 p6 p7 p8 p9 p10 p11 p12 p13 what p14, ∃ r t3, Ev ld K s.frames.size
      (.for ["element"] (.call (.ident "sublist" p5) [none, none] [.ident "list" p6, .lit (.int 1) p7] p8)
        (.assign "result" (.call (.ident "f" p9) [none, none] [.ident "result" p10, .ident "element" p11] p12) p13)
        what p14) t1 (.ok r t3) ∧ isCtl r = false ∧ Ext s t3 ∧
        ∃ vars, CallFrame t3 s.frames.size m vars ∧ dictGet "result" vars = some (.int (ns.foldl g n)) := by
    intro p5 p6 p7 p8 p9 p10 p11 p12 p13 what p14
    obtain ⟨r, st, ⟨hctl, inv⟩, hloop⟩ := forListLive_inv ld (kb := 5) (env := s.frames.size) (x := "element") (a := b)
      (pos := p14) (ns.map RVal.int)
      (fun i r st => isCtl r = false ∧ RedInv s s.frames.size m a b (.native nm j) g n ns i st)
      (fun i r st hI => hI.2.cellb)
      (fun i r st v hI hv => by
        obtain ⟨r', s', h1, h2, h3⟩ := hstep p9 p10 p11 p12 p13 i r st v hI.2 hv
        exact ⟨r', s', h1, h2, h2, h3⟩)
      (ns.map RVal.int).length 0 (.bool true) t2 (by omega) ⟨rfl, inv0⟩
    have hF := Ev.forList ld (k := 4) (kl := 5 + (ns.map RVal.int).length + 1) (what := what) (x := "element") (pos := p14)
      (by rw [hvars1]; rfl) (HE p5 p6 p7 p8) inv0.cellb hloop inv.cellb
    rw [List.length_map] at hF
    refine ⟨r, _, Ev.mono ld hF (by omega), hctl, ?_⟩
    have hres : (ns.take (ns.map RVal.int).length).foldl g n = ns.foldl g n := by
      rw [List.length_map, List.take_length]
    cases hxs : (ns.map RVal.int).isEmpty with
    | true =>
      simp only [if_true]
      refine ⟨inv.ext, (st.frame s.frames.size).vars, callFrame_self inv.parent (h.lt m hm), ?_⟩
      rcases inv.vars with h | ⟨w, h⟩ <;> rw [h, hres] <;> rfl
    | false =>
      simp only [Bool.false_eq_true, if_false]
      refine ⟨inv.ext.remove hcge _, ((st.remove s.frames.size "element").frame s.frames.size).vars,
        callFrame_self (by rw [frame_remove_same _ _ inv.clt]; exact inv.parent) (h.lt m hm), ?_⟩
      rw [frame_remove_same _ _ inv.clt]
      rcases inv.vars with h | ⟨w, h⟩ <;> rw [h, hres] <;> rfl
  -- the block
  obtain ⟨r3, t3, hS2, hctl3, E3, vars3, hfr3, hres3⟩ := S2 _ _ _ _ _ _ _ _ _ _ _
  have S3 : ∀ p, Ev ld K s.frames.size (.ident "result" p) t3 (.ok (.int (ns.foldl g n)) t3) :=
    fun p => Ev.ident ld (lookup_local hfr3 hres3)
  refine ⟨ghostFin t3 bp, E3.ghostFin _, ?_⟩
  exact Ev.mono ld (k := K + 2 + 1 + 1) (Ev.block ld (b := false) (pos := bp)
    (EvBody.cons ld (Ev.mono ld (S1 _ _ _ _ _) (show K ≤ K + 2 by omega)) rfl
      (EvBody.cons ld (Ev.mono ld hS2 (show K ≤ K + 1 by omega)) hctl3
        (EvBody.cons ld (S3 _) rfl (EvBody.nil ld))))) (by omega)

/-- `reduce([n, n2, …], f)`: the else block -/
theorem reduce_body_multi {s s0 : State} {M nats srcs m} {a : Nat} {nm : String} {g : Int → Int → Int} {j : Nat} {n n2 : Int}
    {rest : List Int} (h : LibEnv s M nats srcs) (hm : M m) (hop : IntOp nm g)
    (ctx : Ctx s0 M nats srcs s.frames.size m [("list", .ref a), ("f", .native nm j)]) (e0 : Ext s s0)
    (hn : ∀ x ∈ reduceNats, x ∈ nats) (hc : s.cell a = some (.list ((n :: n2 :: rest).map .int))) :
    ∃ s', Ext s s' ∧ Ev ld ((n2 :: rest).length + 17) s.frames.size (lamBody list_reduce) s0
      (.ok (.int ((n2 :: rest).foldl g n)) s') := by
  obtain ⟨s', e', hB⟩ := reduce_block ld h hm hop ctx e0 hn hc
  refine ⟨s', e', ?_⟩
  have hc0 : s0.cell a = some (.list ((n :: n2 :: rest).map .int)) := by rw [e0.cell a (cell_lt hc)]; exact hc
  have G1 := reduce_g1 ld ctx hn
  have G20 : ∀ p1 p2 p3 p4 p5 p6, _ := reduce_g2 ld ctx hn hc0 0
  have G21 : ∀ p1 p2 p3 p4 p5 p6, _ := reduce_g2 ld ctx hn hc0 1
  have h0 : decide (((((n :: n2 :: rest).map RVal.int).length : Nat) : Int) = 0) = false := by
    simp only [List.length_map, List.length_cons, decide_eq_false_iff_not]; omega
  have h1 : decide (((((n :: n2 :: rest).map RVal.int).length : Nat) : Int) = 1) = false := by
    simp only [List.length_map, List.length_cons, decide_eq_false_iff_not]; omega
  rw [h0] at G20
  rw [h1] at G21
  unfold reduceElse lamBody list_reduce at hB
  simp only [] at hB
  unfold lamBody list_reduce
  simp only []
  exact Ev.ite ld (EvIf.false ld (Ev.mono ld (G1 _ _ _) (by omega))
    (EvIf.false ld (Ev.mono ld (G20 _ _ _ _ _ _) (by omega))
      (EvIf.false ld (Ev.mono ld (G21 _ _ _ _ _ _) (by omega)) (EvIf.else ld hB))))

/-! ### `fn.execute` of `reduce` -/

/-- `reduce` of a non-empty int list with a binary built-in on ints: the left fold -/
theorem reduce_calls_ints {s : State} {M nats srcs fn m} (h : LibEnv s M nats srcs) (hn : ∀ x ∈ reduceNats, x ∈ nats)
    (hm : M m) (hsrc : IsSrc s fn list_reduce m) {nm : String} {g : Int → Int → Int} (hop : IntOp nm g) (i : Nat)
    (a : Nat) (n : Int) (ns : List Int) (hc : s.cell a = some (.list ((n :: ns).map .int))) :
    ∃ s', Ext s s' ∧ ∀ env pos, Calls ld (ns.length + 30) fn [("list", .ref a), ("f", .native nm i)] env pos s
      (.ok (.int (ns.foldl g n)) s') := by
  cases ns with
  | nil =>
    obtain ⟨s', e, c⟩ := calls_of_body2 ld (src := list_reduce)
      (r := fun s' => .ok (.ret (.int n) (reduceRetPos3 (lamBody list_reduce))) s') rfl rfl rfl (by decide) (by decide)
      h hm hsrc (.ref a) (.native nm i) (fun s0 ctx e0 =>
        ⟨s0, Ext.refl _, reduce_body_single ld ctx hn (by rw [e0.cell a (cell_lt hc)]; exact hc)⟩)
    exact ⟨s', e, fun env pos => (c env pos).mono ld (by simp)⟩
  | cons n2 rest =>
    obtain ⟨s', e, _, c⟩ := calls_of_body2X ld (src := list_reduce) (Q := fun _ => True)
      (r := fun s' => .ok (.int ((n2 :: rest).foldl g n)) s') rfl rfl rfl
      (show 2 ≤ (n2 :: rest).length + 17 by omega) (by decide)
      h hm hsrc (.ref a) (.native nm i) (fun s0 ctx e0 => by
        obtain ⟨s', e', hev⟩ := reduce_body_multi ld h hm hop ctx e0 hn hc
        exact ⟨s', e', hev, trivial⟩)
    exact ⟨s', e, fun env pos => (c env pos).mono ld (by omega)⟩

theorem reduceM_cons {α} (g : α → α → α) (n : α) (ns : List α) : Lib.reduceM g (n :: ns) = some (ns.foldl g n) := by
  cases ns <;> rfl

/-- the same, stated with the model function `Lib.reduceM` -/
theorem reduce_calls_ints_reduceM {s : State} {M nats srcs fn m} (h : LibEnv s M nats srcs)
    (hn : ∀ x ∈ reduceNats, x ∈ nats) (hm : M m) (hsrc : IsSrc s fn list_reduce m) {nm : String} {g : Int → Int → Int}
    (hop : IntOp nm g) (i : Nat) (a : Nat) (n : Int) (ns : List Int)
    (hc : s.cell a = some (.list ((n :: ns).map .int))) (r : Int) (hr : Lib.reduceM g (n :: ns) = some r) :
    ∃ s', Ext s s' ∧ ∀ env pos, Calls ld (ns.length + 30) fn [("list", .ref a), ("f", .native nm i)] env pos s
      (.ok (.int r) s') := by
  rw [reduceM_cons] at hr; cases hr
  exact reduce_calls_ints ld h hn hm hsrc hop i a n ns hc

/-- `reduce([], f)`: the runtime error `Cannot reduce empty list` -/
theorem reduce_calls_empty {s : State} {M nats srcs fn m} (h : LibEnv s M nats srcs) (hn : ∀ x ∈ reduceNats, x ∈ nats)
    (hm : M m) (hsrc : IsSrc s fn list_reduce m) (a : Nat) (hc : s.cell a = some (.list [])) (f : RVal) :
    ∃ s', Ext s s' ∧ ∀ env pos, Calls ld 30 fn [("list", .ref a), ("f", f)] env pos s
      (.err (.str "Cannot reduce empty list".toList) "" (reduceErrPos (lamBody list_reduce)) [] s') := by
  obtain ⟨s', e, c⟩ := calls_of_body2 ld (src := list_reduce)
    (r := fun s' => .err (.str "Cannot reduce empty list".toList) "" (reduceErrPos (lamBody list_reduce)) [] s')
    rfl rfl rfl (by decide) (by decide) h hm hsrc (.ref a) f (fun s0 ctx e0 =>
      ⟨s0, Ext.refl _, reduce_body_empty ld ctx hn (by rw [e0.cell a (cell_lt hc)]; exact hc)⟩)
  exact ⟨s', e, fun env pos => (c env pos).mono ld (by decide)⟩

/-- `reduce(NULL, f) = NULL` -/
theorem reduce_calls_null {s : State} {M nats srcs fn m} (h : LibEnv s M nats srcs) (hn : ∀ x ∈ reduceNats, x ∈ nats)
    (hm : M m) (hsrc : IsSrc s fn list_reduce m) (f : RVal) :
    ∃ s', Ext s s' ∧ ∀ env pos, Calls ld 30 fn [("list", .null), ("f", f)] env pos s (.ok .null s') := by
  obtain ⟨s', e, c⟩ := calls_of_body2 ld (src := list_reduce)
    (r := fun s' => .ok (.ret .null (reduceRetPos1 (lamBody list_reduce))) s')
    rfl rfl rfl (by decide) (by decide) h hm hsrc .null f (fun s0 ctx e0 =>
      ⟨s0, Ext.refl _, reduce_body_null ld ctx hn⟩)
  exact ⟨s', e, fun env pos => (c env pos).mono ld (by decide)⟩

/-! ### `prod(list) = reduce(list, mul)` -/

def prodNats : List String := reduceNats ++ ["mul"]

theorem prodNats_reduce {nats : List String} (hn : ∀ x ∈ prodNats, x ∈ nats) : ∀ x ∈ reduceNats, x ∈ nats :=
  fun x hx => hn x (by simp [prodNats, hx])

theorem prod_body {s : State} {M nats srcs c m} {a : Nat} {n : Int} {ns : List Int}
    (ctx : Ctx s M nats srcs c m [("list", .ref a)]) (hn : ∀ x ∈ prodNats, x ∈ nats)
    (hs : ("reduce", list_reduce) ∈ srcs) (hc : s.cell a = some (.list ((n :: ns).map .int))) :
    ∃ s', Ext s s' ∧ Ev ld (ns.length + 32) c (lamBody list_prod) s (.ok (.int (ns.foldl (· * ·) n)) s') := by
  obtain ⟨fn, m', hl, hm', hsrc'⟩ := ctx.src (x := "reduce") (src := list_reduce) hs (by rfl)
  obtain ⟨j, hmul⟩ := ctx.nat (x := "mul") (hn _ (by decide)) (by rfl)
  obtain ⟨s', e, c1⟩ := reduce_calls_ints ld ctx.env (prodNats_reduce hn) hm' hsrc' intOp_mul j a n ns hc
  refine ⟨s', e, ?_⟩
  unfold lamBody list_prod
  simp only []
  have A : ∀ p1 p2 p3 p4, Ev ld (ns.length + 32) c
      (.call (.ident "reduce" p1) [none, none] [.ident "list" p2, .ident "mul" p3] p4) s
      (.ok (.int (ns.foldl (· * ·) n)) s') := by
    intro p1 p2 p3 p4
    have A := Ev.callSrc2 ld (k := ns.length + 28) (p := p1) (pos := p4) hl hsrc' rfl (by decide) (by decide) (by decide)
      (by trivial) (by trivial)
      (Ev.ident ld (p := p2) (ctx.var (x := "list") (by rfl))) (Ev.ident ld (p := p3) hmul) (c1 c p4)
    rw [wrapCall_ok] at A
    exact A
  exact A _ _ _ _

/-- `prod` of a non-empty int list -/
theorem prod_calls_ints {s : State} {M nats srcs fn m} (h : LibEnv s M nats srcs) (hn : ∀ x ∈ prodNats, x ∈ nats)
    (hs : ("reduce", list_reduce) ∈ srcs) (hm : M m) (hsrc : IsSrc s fn list_prod m)
    (a : Nat) (n : Int) (ns : List Int) (hc : s.cell a = some (.list ((n :: ns).map .int))) :
    ∃ s', Ext s s' ∧ ∀ env pos, Calls ld (ns.length + 40) fn [("list", .ref a)] env pos s
      (.ok (.int (ns.foldl (· * ·) n)) s') := by
  obtain ⟨s', e, c⟩ := calls_of_body1 ld (src := list_prod) (r := fun s' => .ok (.int (ns.foldl (· * ·) n)) s')
    rfl rfl rfl (show 1 ≤ ns.length + 32 by omega) h hm hsrc (.ref a) (fun s0 ctx e0 =>
      prod_body ld ctx hn hs (by rw [e0.cell a (cell_lt hc)]; exact hc))
  exact ⟨s', e, fun env pos => (c env pos).mono ld (by omega)⟩

theorem prod_eq_foldl (n : Int) (ns : List Int) : (n :: ns).prod = ns.foldl (· * ·) n := by
  induction ns generalizing n with
  | nil => simp
  | cons x xs ih => rw [List.foldl_cons, ← ih]; simp [List.prod_cons, Int.mul_assoc]

/-- `prod` of a non-empty int list is the product of its elements -/
theorem prod_calls_ints_prod {s : State} {M nats srcs fn m} (h : LibEnv s M nats srcs) (hn : ∀ x ∈ prodNats, x ∈ nats)
    (hs : ("reduce", list_reduce) ∈ srcs) (hm : M m) (hsrc : IsSrc s fn list_prod m)
    (a : Nat) (n : Int) (ns : List Int) (hc : s.cell a = some (.list ((n :: ns).map .int))) :
    ∃ s', Ext s s' ∧ ∀ env pos, Calls ld (ns.length + 40) fn [("list", .ref a)] env pos s
      (.ok (.int (n :: ns).prod) s') := by
  rw [prod_eq_foldl]; exact prod_calls_ints ld h hn hs hm hsrc a n ns hc

end Ckl.C19Src
